package main

import (
	"fmt"
	"go/ast"
	"go/token"
	"strconv"
	"strings"

	"github.com/btcsuite/btcd/btcec"
	"github.com/massnetorg/mass-core/config"
	"github.com/massnetorg/mass-core/massutil/base58"
)

// Facts for C14 (BIP-32): constants of hdkeychain as written in the source, the curve order and the
// HD version bytes as compiled in, the base58 alphabet / index table as the compiled base58 package
// behaves, and the SHAPE of the statements of Child / String the model follows (the source text
// of the expressions that decide the byte layout; MW.Props.C14 states what the model expects).
func init() {
	register(func(c *Ctx) {
		const rel = "masswallet/keystore/hdkeychain/extendedkey.go"
		l := NewLean("MW.Gen.Bip32")
		ci := func(name string) int64 {
			v, ok := c.ConstInt(rel, name)
			if !ok {
				return -1
			}
			return v
		}
		hs, mn, mx, skl := ci("HardenedKeyStart"), ci("MinSeedBytes"), ci("MaxSeedBytes"), ci("serializedKeyLen")
		l.Def("hardenedKeyStart", "Nat", fmt.Sprint(hs))
		l.Def("minSeedBytes", "Nat", fmt.Sprint(mn))
		l.Def("maxSeedBytes", "Nat", fmt.Sprint(mx))
		l.Def("serializedKeyLen", "Nat", fmt.Sprint(skl))
		l.Def("maxUint8", "Nat", fmt.Sprint(ci("maxUint8")))
		c.check("bip32.constants", hs == 1<<31 && mn == 16 && mx == 64 && skl == 78 && ci("maxUint8") == 255,
			"hdkeychain constants changed (HardenedKeyStart/MinSeedBytes/MaxSeedBytes/serializedKeyLen/maxUint8)")

		// var masterKey = []byte("Bitcoin seed")
		mk, okMK := "", false
		if f := c.File(rel); f != nil {
			for _, d := range f.Decls {
				gd, ok := d.(*ast.GenDecl)
				if !ok || gd.Tok != token.VAR {
					continue
				}
				for _, s := range gd.Specs {
					vs := s.(*ast.ValueSpec)
					for i, n := range vs.Names {
						if n.Name == "masterKey" && i < len(vs.Values) {
							if ce, ok := vs.Values[i].(*ast.CallExpr); ok && len(ce.Args) == 1 {
								if bl, ok := ce.Args[0].(*ast.BasicLit); ok && bl.Kind == token.STRING {
									if s, err := strconv.Unquote(bl.Value); err == nil {
										mk, okMK = s, true
									}
								}
							}
						}
					}
				}
			}
		}
		l.Def("masterKey", "List Nat", bytesNatList([]byte(mk)))
		c.check("bip32.masterKey", okMK && mk == "Bitcoin seed", "masterKey is not []byte(\"Bitcoin seed\")")

		// compiled-in: curve order, version bytes
		l.Def("secp256k1N", "Nat", btcec.S256().N.String())
		l.Def("hdPrivateKeyID", "List Nat", bytesNatList(config.ChainParams.HDPrivateKeyID[:]))
		l.Def("hdPublicKeyID", "List Nat", bytesNatList(config.ChainParams.HDPublicKeyID[:]))
		pub, err := config.HDPrivateKeyToPublicKeyID(config.ChainParams.HDPrivateKeyID[:])
		c.check("bip32.versions", err == nil && string(pub) == string(config.ChainParams.HDPublicKeyID[:]),
			"HDPrivateKeyToPublicKeyID(ChainParams.HDPrivateKeyID) is not ChainParams.HDPublicKeyID")

		// base58 as the compiled package behaves: alphabet[i] = Encode([i]), table[c] from Decode(string(c))
		alpha := make([]int, 58)
		okA := true
		for i := 0; i < 58; i++ {
			s := base58.Encode([]byte{byte(i)})
			if len(s) != 1 {
				okA = false
				continue
			}
			alpha[i] = int(s[0])
		}
		table := make([]int, 256)
		for ch := 0; ch < 256; ch++ {
			d := base58.Decode(string([]byte{byte(ch)}))
			switch {
			case len(d) == 0:
				table[ch] = 255
			case len(d) == 1:
				table[ch] = int(d[0])
			default:
				okA = false
			}
		}
		l.Def("b58Alphabet", "List Nat", leanNatList(alpha))
		l.Def("b58Table", "List Nat", leanNatList(table))
		c.check("bip32.base58Tables", okA, "base58.Encode/Decode of single bytes do not have the expected shape")

		// shapes the model follows (source text of the deciding expressions)
		child := c.Func(rel, "ExtendedKey", "Child")
		str := c.Func(rel, "ExtendedKey", "String")
		parse := c.Func(rel, "", "NewKeyFromString")
		master := c.Func(rel, "", "NewMaster")
		neuter := c.Func(rel, "ExtendedKey", "Neuter")
		c.check("bip32.functionsExist", child != nil && str != nil && parse != nil && master != nil && neuter != nil,
			"Child/String/NewKeyFromString/NewMaster/Neuter not found in "+rel)
		childKeyRHS, hardCopy, normCopy, privSer := "", "", "", ""
		if child != nil {
			// the assignment `childKey = …` inside `if k.isPrivate { … }` and the two copy statements
			ast.Inspect(child.Body, func(n ast.Node) bool {
				switch x := n.(type) {
				case *ast.IfStmt:
					if c.Src(x.Cond) == "k.isPrivate" {
						for _, st := range x.Body.List {
							if as, ok := st.(*ast.AssignStmt); ok && len(as.Lhs) == 1 && c.Src(as.Lhs[0]) == "childKey" {
								childKeyRHS = c.Src(as.Rhs[0])
							}
						}
					}
					if c.Src(x.Cond) == "isChildHardened" {
						for _, st := range x.Body.List {
							if es, ok := st.(*ast.ExprStmt); ok && strings.HasPrefix(c.Src(es.X), "copy(") {
								hardCopy = c.Src(es.X)
							}
						}
						if eb, ok := x.Else.(*ast.BlockStmt); ok {
							for _, st := range eb.List {
								if es, ok := st.(*ast.ExprStmt); ok && strings.HasPrefix(c.Src(es.X), "copy(") {
									normCopy = c.Src(es.X)
								}
							}
						}
					}
				}
				return true
			})
		}
		if str != nil {
			ast.Inspect(str.Body, func(n ast.Node) bool {
				if x, ok := n.(*ast.IfStmt); ok && c.Src(x.Cond) == "k.isPrivate" {
					var parts []string
					for _, st := range x.Body.List {
						parts = append(parts, c.Src(st))
					}
					privSer = strings.Join(parts, "; ")
				}
				return true
			})
		}
		l.Def("childKeyExpr", "String", leanStr(childKeyRHS))
		l.Def("childHardenedCopy", "String", leanStr(hardCopy))
		l.Def("childNormalCopy", "String", leanStr(normCopy))
		l.Def("stringPrivateBranch", "String", leanStr(privSer))
		c.check("bip32.shapes", childKeyRHS != "" && hardCopy != "" && normCopy != "" && privSer != "",
			"could not locate childKey assignment / copy statements in Child or the private branch of String")
		l.Write(c, "Bip32.lean")
	})
}

func bytesNatList(b []byte) string {
	xs := make([]int, len(b))
	for i, v := range b {
		xs[i] = int(v)
	}
	return leanNatList(xs)
}
