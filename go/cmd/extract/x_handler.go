package main

// Facts for C07 / C08: the constants of the rescan and removal workers and the shape of the code
// the models MW.Model.Import / MW.Model.Remove follow  →  lean/MW/Gen/Handler.lean.

import (
	"fmt"
	"go/ast"
	"go/token"
	"strconv"
	"strings"

	"massnet.org/mass-wallet/masswallet"
	"massnet.org/mass-wallet/masswallet/txmgr"
)

// litIn finds, inside fn, the integer literal Y of the first binary expression `X op Y` whose X
// prints as lhs.
func litIn(c *Ctx, fd *ast.FuncDecl, lhs string, op token.Token) (int64, bool) {
	var res int64
	found := false
	if fd == nil {
		return 0, false
	}
	ast.Inspect(fd.Body, func(n ast.Node) bool {
		be, ok := n.(*ast.BinaryExpr)
		if !ok || found || be.Op != op || c.Src(be.X) != lhs {
			return true
		}
		if bl, ok := be.Y.(*ast.BasicLit); ok {
			if k, err := strconv.ParseInt(bl.Value, 10, 64); err == nil {
				res, found = k, true
			}
		}
		return true
	})
	return res, found
}

// callOrder returns the positions of the given call names (as printed selector suffixes) in fn's
// source text; -1 if absent.
func callOrder(src string, names ...string) []int {
	out := make([]int, len(names))
	for i, n := range names {
		out[i] = strings.Index(src, n)
	}
	return out
}

func increasing(xs []int) bool {
	for i, x := range xs {
		if x < 0 || (i > 0 && xs[i-1] >= x) {
			return false
		}
	}
	return true
}

func init() {
	register(func(c *Ctx) {
		l := NewLean("MW.Gen.Handler")
		const nh = "masswallet/ntfnshandler.go"
		imp := c.Func(nh, "NtfnsHandler", "asyncImport")
		rem := c.Func(nh, "NtfnsHandler", "asyncRemove")
		// constants
		batch, okB := litIn(c, imp, "ws.SyncedHeight", token.ADD)
		l.Def("importBatch", "Nat", fmt.Sprint(batch))
		c.check("handler.importBatch", okB && batch > 0, "`stop = ws.SyncedHeight + <literal>` not found in asyncImport")
		exp, okE := c.ConstInt(nh, "MaxMemPoolExpire")
		l.Def("maxMemPoolExpire", "Nat", fmt.Sprint(exp))
		c.check("handler.maxMemPoolExpire", okE && uint64(exp) == masswallet.MaxMemPoolExpire && exp > 0, "MaxMemPoolExpire not found / differs from the compiled constant")
		rrc := c.Func("masswallet/txmgr/utxostore.go", "UtxoStore", "removeRelevantCredit")
		step, okS := litIn(c, rrc, "count", token.GEQ)
		l.Def("removeCreditStep", "Nat", fmt.Sprint(step))
		c.check("handler.removeCreditStep", okS && step > 0, "`count >= <literal>` not found in removeRelevantCredit")
		l.Def("walletSyncedDone", "Nat", fmt.Sprint(uint64(txmgr.WalletSyncedDone)))
		c.check("handler.walletSyncedDone", uint64(txmgr.WalletSyncedDone) == ^uint64(0), "WalletSyncedDone is not MaxUint64: the cursor model assumes the top of uint64")
		l.Def("maxWaitingTaskNum", "Nat", fmt.Sprint(masswallet.MaxWaitingTaskNum))
		c.ok("handler.maxWaitingTaskNum")
		l.Def("walletIdLen", "Nat", "42")

		// shape of asyncImport: one Update; the followed-chain check before the index scan; done iff stop == best
		if imp != nil {
			src := c.Src(imp.Body)
			c.check("handler.importOneTransaction", strings.Count(src, "mwdb.Update(") == 1, "asyncImport no longer runs in exactly one database transaction")
			c.check("handler.importChecksFollowedChain",
				increasing(callOrder(src, "syncStore.SyncedBlock(", "FetchScriptHashRelatedTx(")) && strings.Contains(src, "synced.Hash"),
				"asyncImport does not compare the node's block with the follower's synced block before scanning")
			c.check("handler.importDoneAtBest", strings.Contains(src, "if stop == h.bestBlock.Height") && strings.Contains(src, "txmgr.WalletSyncedDone"),
				"asyncImport's `done when stop == best` changed")
			c.check("handler.importRange", strings.Contains(src, "FetchScriptHashRelatedTx(relatedHashes, ws.SyncedHeight+1, stop+1"),
				"asyncImport's index range is no longer [cursor+1, stop+1)")
		} else {
			c.fail("handler.importOneTransaction", "asyncImport not found")
		}
		// shape of asyncRemove: every database transaction is inside the step loop; the id-keyed records, the
		// status and the keystore go in the finishing transaction
		if rem != nil {
			src := c.Src(rem.Body)
			loop := strings.Index(src, "for {")
			c.check("handler.removeSinglePhase", strings.Count(src, "mwdb.Update(") == 1 && loop >= 0 && strings.Index(src, "mwdb.Update(") > loop,
				"asyncRemove runs a database transaction outside its step loop (records keyed by the wallet id must go in the finishing step)")
			c.check("handler.removeFinishOrder",
				increasing(callOrder(src, "RemoveRelevantTx(", "if finish {", "removeWalletIndexes(", "DeleteWalletStatus(", "DeleteKeystore(")),
				"asyncRemove's finishing step changed")
		} else {
			c.fail("handler.removeSinglePhase", "asyncRemove not found")
		}
		idx := c.Func(nh, "NtfnsHandler", "removeWalletIndexes")
		if idx != nil {
			c.check("handler.removeIndexes",
				increasing(callOrder(c.Src(idx.Body), "RemoveUnspentByWalletId(", "RemoveAddressByWalletId(", "RemoveGameHistoryByWalletId(", "RemoveMinedBalance(")),
				"removeWalletIndexes no longer deletes unspent / addresses / histories / balance")
		} else {
			c.fail("handler.removeIndexes", "removeWalletIndexes not found")
		}
		// gating in wallet.go
		rw := c.Func("masswallet/wallet.go", "WalletManager", "RemoveWallet")
		c.check("handler.removeGateOrder", rw != nil && increasing(callOrder(c.Src(rw.Body), "IsWorkerBusy()", "CheckPrivPassphrase(", "OnRemoveWallet(")),
			"RemoveWallet no longer checks worker queue, passphrase, then OnRemoveWallet")
		orw := c.Func(nh, "NtfnsHandler", "OnRemoveWallet")
		c.check("handler.removeRefusedWhileImporting", orw != nil && increasing(callOrder(c.Src(orw.Body), "!ws.Ready()", "ErrWalletUnready", "MarkDeleteWallet(")),
			"OnRemoveWallet no longer refuses a wallet that is not ready")
		uw := c.Func("masswallet/wallet.go", "WalletManager", "UseWallet")
		c.check("handler.useChecksReady", uw != nil && increasing(callOrder(c.Src(uw.Body), "CheckReady(", "ErrWalletUnready", "UseKeystoreForWallet(")),
			"UseWallet no longer refuses a wallet that is not ready before selecting it")
		for _, fn := range []string{"ImportWallet", "ImportWalletWithMnemonic"} {
			fd := c.Func("masswallet/wallet.go", "WalletManager", fn)
			c.check("handler.importStatus."+fn, fd != nil && increasing(callOrder(c.Src(fd.Body), "IsWorkerBusy()", "InitNewWallet(", "len(addrs) == 0", "PutWalletStatus(", "PutNewAddress(", "OnImportWallet(")),
				fn+" no longer initialises balance, status (done iff no address), address records, then queues the rescan")
		}
		l.Write(c, "Handler.lean")
	})
}
