package main

import (
	"fmt"
	"go/ast"
	"go/parser"
	"go/token"
	"math/big"
	"path/filepath"
	"reflect"
	"runtime"
	"strings"

	"github.com/btcsuite/btcd/btcec"
	"github.com/massnetorg/mass-core/consensus"
	"github.com/massnetorg/mass-core/txscript"
	"github.com/massnetorg/mass-core/wire"
)

// Facts for the script VM model (C03 round 4, MW.Model.ScriptVM) and the withdrawal sequence choice
// (C10 round 4), tie B:
//   vm.handlers      opcodeArray of the txscript source the binary was compiled from: the handler function of
//                    every opcode value (MW.Gen.Vm.opHandlers; MW.Props.C03.gen_tie_vm_handlers compares the
//                    model's dispatch with it)
//   vm.constants     limits and masks compiled in (stack/ops/element limits, sequence-lock masks, lock-time
//                    threshold, sighash types, script flags, half the curve order, MASSIP-2 constants)
//   vm.noMinimalData engine.go never assigns verifyMinimalData (the model has no minimal-encoding branch)
//   vm.walletFlags   tx.go signWitnessTx runs the engine with StandardVerifyFlags, adding ScriptMASSip2 exactly
//                    under forks.EnforceMASSIP0002WarmUp(prevHeight)
//   vm.seqChoice     tx.go constructTxIn / common.go addTxIn: the sequence switch (staking ⇒ pks.Maturity(),
//                    binding under EnforceMASSIP0002WarmUp ⇒ MASSIP0002BindingLockedPeriod, lock time ≠ 0 ⇒
//                    MaxTxInSequenceNum-1)
func init() {
	register(func(c *Ctx) {
		l := NewLean("MW.Gen.Vm")
		n := func(name string, v interface{}) { l.Def(name, "Nat", fmt.Sprint(v)) }
		dir := ""
		if f := runtime.FuncForPC(reflect.ValueOf(txscript.GetScriptClass).Pointer()); f != nil {
			file, _ := f.FileLine(f.Entry())
			dir = filepath.Dir(file)
		}
		hs, err := opcodeHandlers(dir)
		if err != nil {
			c.fail("vm.handlers", err.Error())
			hs = nil
		} else {
			c.ok("vm.handlers")
		}
		var q []string
		for _, h := range hs {
			q = append(q, leanStr(h))
		}
		l.Def("opHandlers", "List String", "["+strings.Join(q, ", ")+"]")

		n("maxOpsPerScript", txscript.MaxOpsPerScript)
		n("maxPubKeysPerMultiSig", txscript.MaxPubKeysPerMultiSig)
		n("maxScriptElementSize", txscript.MaxScriptElementSize)
		n("lockTimeThreshold", txscript.LockTimeThreshold)
		n("sigHashAll", uint32(txscript.SigHashAll))
		n("sigHashNone", uint32(txscript.SigHashNone))
		n("sigHashSingle", uint32(txscript.SigHashSingle))
		n("sigHashAnyOneCanPay", uint32(txscript.SigHashAnyOneCanPay))
		n("flagDiscourageUpgradableNops", uint32(txscript.ScriptDiscourageUpgradableNops))
		n("flagMASSip2", uint32(txscript.ScriptMASSip2))
		n("standardVerifyFlags", uint32(txscript.StandardVerifyFlags))
		n("witnessV0FrozenPeriodDataSize", txscript.WitnessV0FrozenPeriodDataSize)
		n("sequenceLockTimeDisabled", wire.SequenceLockTimeDisabled)
		n("sequenceLockTimeIsSeconds", wire.SequenceLockTimeIsSeconds)
		n("sequenceLockTimeMask", wire.SequenceLockTimeMask)
		n("maxTxInSequenceNum", wire.MaxTxInSequenceNum)
		n("bindingLockedPeriod", consensus.MASSIP0002BindingLockedPeriod)
		n("massip2WarmUpHeight", consensus.MASSIP0002WarmUpHeight)
		n("halfOrder", new(big.Int).Rsh(btcec.S256().N, 1).String())
		// unexported limits of common.go
		cs := map[string]int{}
		if dir != "" {
			fset := token.NewFileSet()
			if f2, e := parser.ParseFile(fset, filepath.Join(dir, "common.go"), nil, 0); e == nil {
				ast.Inspect(f2, func(nd ast.Node) bool {
					if vs, ok := nd.(*ast.ValueSpec); ok {
						for i, nm := range vs.Names {
							if i < len(vs.Values) {
								if bl, ok := vs.Values[i].(*ast.BasicLit); ok && bl.Kind == token.INT {
									var v int
									fmt.Sscan(bl.Value, &v)
									cs[nm.Name] = v
								}
							}
						}
					}
					return true
				})
			}
		}
		n("maxStackSize", cs["maxStackSize"])
		n("defaultScriptNumLen", cs["defaultScriptNumLen"])
		c.check("vm.constants", cs["maxStackSize"] > 0 && cs["defaultScriptNumLen"] > 0 && cs["maxScriptSize"] > 0 &&
			wire.SequenceLockTimeDisabled == 1<<63 && wire.SequenceLockTimeIsSeconds == 1<<38 &&
			txscript.StandardVerifyFlags == txscript.ScriptDiscourageUpgradableNops,
			"a txscript limit is missing from common.go or a sequence-lock mask / the standard flag set changed")

		// verifyMinimalData is never switched on
		assigned := false
		okParse := dir != ""
		if dir != "" {
			fset := token.NewFileSet()
			for _, fn := range []string{"engine.go", "opcode.go", "stack.go", "script.go"} {
				f2, e := parser.ParseFile(fset, filepath.Join(dir, fn), nil, 0)
				if e != nil {
					okParse = false
					continue
				}
				ast.Inspect(f2, func(nd ast.Node) bool {
					if as, ok := nd.(*ast.AssignStmt); ok {
						for _, lhs := range as.Lhs {
							if se, ok := lhs.(*ast.SelectorExpr); ok && se.Sel.Name == "verifyMinimalData" {
								assigned = true
							}
						}
					}
					if kv, ok := nd.(*ast.KeyValueExpr); ok {
						if id, ok := kv.Key.(*ast.Ident); ok && id.Name == "verifyMinimalData" {
							assigned = true
						}
					}
					return true
				})
			}
		}
		c.check("vm.noMinimalData", okParse && !assigned, "txscript now sets verifyMinimalData somewhere: the VM model has no minimal-encoding branch")
		l.Def("minimalDataNeverSet", "Bool", fmt.Sprint(okParse && !assigned))

		// the flags the wallet runs the engine with
		flagsOK := false
		if fd := c.Func("masswallet/tx.go", "WalletManager", "signWitnessTx"); fd != nil {
			src := c.Src(fd)
			flagsOK = strings.Contains(src, "scriptFlags := txscript.StandardVerifyFlags") &&
				strings.Contains(src, "if forks.EnforceMASSIP0002WarmUp(prevHeight) {\n\t\t\tscriptFlags |= txscript.ScriptMASSip2") &&
				strings.Contains(src, "txscript.NewEngine(prevTxOut.PkScript, tx, i,\n\t\t\tscriptFlags, nil, hashCache, prevTxOut.Value)") &&
				strings.Count(src, "scriptFlags") == 3
		}
		c.check("vm.walletFlags", flagsOK, "signWitnessTx no longer runs NewEngine with StandardVerifyFlags (+ ScriptMASSip2 under EnforceMASSIP0002WarmUp(prevHeight))")
		l.Def("walletFlagsShape", "Bool", fmt.Sprint(flagsOK))

		// the sequence switch of constructTxIn / addTxIn
		seqOK := func(rel, recv, name, heightExpr string) bool {
			fd := c.Func(rel, recv, name)
			if fd == nil {
				return false
			}
			src := c.Src(fd)
			return strings.Contains(src, "txIn.Sequence = wire.MaxTxInSequenceNum - 1") &&
				strings.Contains(src, "case pks.IsStaking():\n\t\t\ttxIn.Sequence = pks.Maturity()\n\t\tcase pks.IsBinding() && forks.EnforceMASSIP0002WarmUp("+heightExpr+"):\n\t\t\ttxIn.Sequence = consensus.MASSIP0002BindingLockedPeriod\n\t\tdefault:") &&
				strings.Count(src, "txIn.Sequence =") == 3
		}
		s1 := seqOK("masswallet/tx.go", "WalletManager", "constructTxIn", "prevHeight")
		s2 := seqOK("masswallet/common.go", "WalletManager", "addTxIn", "block.Height")
		c.check("vm.seqChoice", s1 && s2, "constructTxIn / addTxIn no longer choose the input sequence by the modelled switch")
		l.Def("seqChoiceShape", "Bool", fmt.Sprint(s1 && s2))
		l.Write(c, "Vm.lean")
	})
}

// opcodeHandlers parses txscript/opcode.go and returns, per opcode value, the name of the handler function
// in opcodeArray.
func opcodeHandlers(dir string) ([]string, error) {
	if dir == "" {
		return nil, fmt.Errorf("cannot locate the txscript source directory")
	}
	fset := token.NewFileSet()
	f, e := parser.ParseFile(fset, filepath.Join(dir, "opcode.go"), nil, 0)
	if e != nil {
		return nil, e
	}
	consts := map[string]int{}
	var table *ast.CompositeLit
	for _, d := range f.Decls {
		gd, ok := d.(*ast.GenDecl)
		if !ok {
			continue
		}
		for _, s := range gd.Specs {
			vs, ok := s.(*ast.ValueSpec)
			if !ok {
				continue
			}
			for i, nm := range vs.Names {
				if i >= len(vs.Values) {
					continue
				}
				if gd.Tok == token.CONST {
					if bl, ok := vs.Values[i].(*ast.BasicLit); ok && bl.Kind == token.INT {
						var v int
						if _, err := fmt.Sscan(bl.Value, &v); err == nil {
							consts[nm.Name] = v
						}
					}
				} else if nm.Name == "opcodeArray" {
					table, _ = vs.Values[i].(*ast.CompositeLit)
				}
			}
		}
	}
	if table == nil {
		return nil, fmt.Errorf("opcodeArray not found")
	}
	out := make([]string, 256)
	seen := 0
	for _, el := range table.Elts {
		kv, ok := el.(*ast.KeyValueExpr)
		if !ok {
			return nil, fmt.Errorf("opcodeArray: unkeyed element")
		}
		id, ok := kv.Key.(*ast.Ident)
		cl, ok2 := kv.Value.(*ast.CompositeLit)
		if !ok || !ok2 || len(cl.Elts) != 4 {
			return nil, fmt.Errorf("opcodeArray: unexpected element shape")
		}
		idx, ok := consts[id.Name]
		h, ok2 := cl.Elts[3].(*ast.Ident)
		v, ok3 := cl.Elts[0].(*ast.Ident)
		if !ok || !ok2 || !ok3 || idx < 0 || idx > 255 || consts[v.Name] != idx || out[idx] != "" {
			return nil, fmt.Errorf("opcodeArray: bad entry %s", id.Name)
		}
		out[idx] = h.Name
		seen++
	}
	if seen != 256 {
		return nil, fmt.Errorf("opcodeArray: %d entries", seen)
	}
	return out, nil
}
