package main

// Facts for C20: the communication skeleton of the follower / worker / stop goroutines, re-read from
// masswallet/ntfnshandler.go, task.go and wallet.go on every run. Each anchored function becomes the
// pre-order list of its channel operations, select shapes, loops, returns and calls of interest
// (MW.Model.Proto.Op); capacities and the allocation site of the task queue are separate facts.

import (
	"fmt"
	"go/ast"
	"go/token"
	"os"
	"path/filepath"
	"strings"
)

var protoCalls = map[string]bool{
	"suspend": true, "resume": true, "asyncImport": true, "asyncRemove": true, "Update": true,
	"PushImport": true, "PushRemove": true, "processConnectedBlock": true, "proccessReceivedTx": true,
	"Wait": true, "CloseDB": true, "initTaskChan": true, "Done": true, "Add": true, "IsWorkerBusy": true,
	"OnImportWallet": true, "OnRemoveWallet": true, "IsBusy": true, "NewWalletTaskChan": true,
	"Lock": true, "Unlock": true, "RLock": true, "RUnlock": true, "handle": true, "worker": true,
	"UnregisterListener": true, "RegisterListener": true, "Stop": true, "Start": true, "Close": true,
}

func protoChanName(c *Ctx, e ast.Expr) string {
	s := c.Src(e)
	if strings.HasSuffix(s, ".C") {
		return "taskChan"
	}
	if i := strings.LastIndex(s, "."); i >= 0 {
		return s[i+1:]
	}
	return s
}

func protoCalleeName(c *Ctx, e ast.Expr) string {
	switch x := e.(type) {
	case *ast.Ident:
		return x.Name
	case *ast.SelectorExpr:
		return x.Sel.Name
	}
	return ""
}

type protoWalker struct {
	c       *Ctx
	ops     []string
	closure int // > 0 inside a function literal: its returns are not returns of the anchored function
}

func (w *protoWalker) emit(s string) { w.ops = append(w.ops, s) }

func (w *protoWalker) commOf(s ast.Stmt) string {
	switch x := s.(type) {
	case *ast.SendStmt:
		return "send " + protoChanName(w.c, x.Chan)
	case *ast.ExprStmt:
		if u, ok := x.X.(*ast.UnaryExpr); ok && u.Op == token.ARROW {
			return "recv " + protoChanName(w.c, u.X)
		}
	case *ast.AssignStmt:
		if len(x.Rhs) == 1 {
			if u, ok := x.Rhs[0].(*ast.UnaryExpr); ok && u.Op == token.ARROW {
				return "recv " + protoChanName(w.c, u.X)
			}
		}
	}
	return "?"
}

func (w *protoWalker) expr(e ast.Expr, prefix string) {
	ast.Inspect(e, func(n ast.Node) bool {
		switch x := n.(type) {
		case *ast.FuncLit:
			w.closure++
			w.stmts(x.Body.List)
			w.closure--
			return false
		case *ast.UnaryExpr:
			if x.Op == token.ARROW {
				w.emit(".recv " + leanStr(protoChanName(w.c, x.X)))
			}
		case *ast.CallExpr:
			name := protoCalleeName(w.c, x.Fun)
			if name == "close" && len(x.Args) == 1 {
				w.emit(".close " + leanStr(protoChanName(w.c, x.Args[0])))
				return false
			}
			// arguments first (closures passed to Update run inside the call)
			if protoCalls[name] {
				w.emit(".call " + leanStr(prefix+name))
			}
		}
		return true
	})
}

func (w *protoWalker) stmts(list []ast.Stmt) {
	for _, s := range list {
		w.stmt(s)
	}
}

func (w *protoWalker) stmt(s ast.Stmt) {
	switch x := s.(type) {
	case *ast.ForStmt:
		w.emit(".loop")
		w.stmts(x.Body.List)
	case *ast.RangeStmt:
		w.stmts(x.Body.List)
	case *ast.SelectStmt:
		var cases []string
		dflt := false
		for _, cl := range x.Body.List {
			cc := cl.(*ast.CommClause)
			if cc.Comm == nil {
				dflt = true
			} else {
				cases = append(cases, leanStr(w.commOf(cc.Comm)))
			}
		}
		w.emit(fmt.Sprintf(".sel [%s] %v", strings.Join(cases, ", "), dflt))
		for _, cl := range x.Body.List {
			w.stmts(cl.(*ast.CommClause).Body)
		}
	case *ast.SendStmt:
		w.emit(".send " + leanStr(protoChanName(w.c, x.Chan)))
	case *ast.ReturnStmt:
		for _, r := range x.Results {
			w.expr(r, "")
		}
		if w.closure == 0 {
			w.emit(".ret")
		}
	case *ast.BlockStmt:
		w.stmts(x.List)
	case *ast.IfStmt:
		if x.Init != nil {
			w.stmt(x.Init)
		}
		w.expr(x.Cond, "")
		w.stmts(x.Body.List)
		if x.Else != nil {
			w.stmt(x.Else)
		}
	case *ast.SwitchStmt:
		for _, cl := range x.Body.List {
			w.stmts(cl.(*ast.CaseClause).Body)
		}
	case *ast.DeferStmt:
		if fl, ok := x.Call.Fun.(*ast.FuncLit); ok {
			sub := &protoWalker{c: w.c, closure: 1}
			sub.stmts(fl.Body.List)
			for _, o := range sub.ops {
				if strings.HasPrefix(o, ".call ") {
					w.emit(".call " + leanStr("defer "+strings.Trim(strings.TrimPrefix(o, ".call "), "\"")))
				} else {
					w.emit(o)
				}
			}
		} else {
			w.expr(x.Call, "defer ")
		}
	case *ast.GoStmt:
		w.expr(x.Call, "go ")
	case *ast.ExprStmt:
		w.expr(x.X, "")
	case *ast.AssignStmt:
		for _, r := range x.Rhs {
			w.expr(r, "")
		}
	case *ast.DeclStmt, *ast.IncDecStmt, *ast.BranchStmt, *ast.EmptyStmt, *ast.LabeledStmt:
	}
}

func protoOps(c *Ctx, rel, recv, name string) (string, bool) {
	fd := c.Func(rel, recv, name)
	if fd == nil || fd.Body == nil {
		return "[]", false
	}
	w := &protoWalker{c: c}
	w.stmts(fd.Body.List)
	return "[" + strings.Join(w.ops, ", ") + "]", true
}

// protoMakeChanCap finds `field: make(chan T[, N])` in a composite literal of fn and returns N (0 = unbuffered).
func protoMakeChanCap(c *Ctx, fd *ast.FuncDecl, field string) (int, bool) {
	cap, found := 0, false
	if fd == nil {
		return 0, false
	}
	ast.Inspect(fd.Body, func(n ast.Node) bool {
		kv, ok := n.(*ast.KeyValueExpr)
		if !ok || c.Src(kv.Key) != field {
			return true
		}
		ce, ok := kv.Value.(*ast.CallExpr)
		if !ok || c.Src(ce.Fun) != "make" {
			return true
		}
		found = true
		if len(ce.Args) == 2 {
			fmt.Sscan(c.Src(ce.Args[1]), &cap)
		}
		return false
	})
	return cap, found
}

// protoWriteLeanWithImport is LeanFile.Write plus an import line (the generated module uses the Op type).
func protoWriteLeanWithImport(c *Ctx, l *LeanFile, file, imp string) {
	txt := "-- GENERATED by /verif/go/cmd/extract from /repo's working tree. Do not edit.\nimport " + imp + "\nnamespace " + l.ns + "\n" +
		strings.Join(l.lines, "\n") + "\nend " + l.ns + "\n"
	p := filepath.Join(c.Out, file)
	old, err := os.ReadFile(p)
	if err == nil && string(old) == txt {
		return
	}
	if err := os.WriteFile(p, []byte(txt), 0644); err != nil {
		panic(err)
	}
}

func init() {
	register(func(c *Ctx) {
		l := NewLean("MW.Gen.Proto")
		l.Raw("open MW.Model.Proto.Skel")
		const nh = "masswallet/ntfnshandler.go"
		allFound := true
		emit := func(leanName, rel, recv, name string) {
			ops, ok := protoOps(c, rel, recv, name)
			if !ok {
				allFound = false
			}
			l.Def(leanName, "List Op", ops)
		}
		emit("handle", nh, "", "handle")
		emit("worker", nh, "", "worker")
		emit("asyncImport", nh, "NtfnsHandler", "asyncImport")
		emit("asyncRemove", nh, "NtfnsHandler", "asyncRemove")
		emit("suspend", nh, "NtfnsHandler", "suspend")
		emit("resume", nh, "NtfnsHandler", "resume")
		emit("handlerStart", nh, "NtfnsHandler", "Start")
		emit("handlerStop", nh, "NtfnsHandler", "Stop")
		emit("onBlockConnected", nh, "NtfnsHandler", "OnBlockConnected")
		emit("onTransactionReceived", nh, "NtfnsHandler", "OnTransactionReceived")
		emit("onRemoveWallet", nh, "NtfnsHandler", "OnRemoveWallet")
		emit("pushImport", "masswallet/task.go", "WalletTaskChan", "PushImport")
		emit("pushRemove", "masswallet/task.go", "WalletTaskChan", "PushRemove")
		emit("walletStop", "masswallet/wallet.go", "WalletManager", "Stop")
		emit("walletCloseDB", "masswallet/wallet.go", "WalletManager", "CloseDB")
		emit("importWallet", "masswallet/wallet.go", "WalletManager", "ImportWallet")
		emit("importWalletWithMnemonic", "masswallet/wallet.go", "WalletManager", "ImportWalletWithMnemonic")
		emit("removeWallet", "masswallet/wallet.go", "WalletManager", "RemoveWallet")
		// capacities
		nf := c.Func(nh, "", "NewNtfnsHandler")
		qb, ok1 := protoMakeChanCap(c, nf, "queueBlock")
		qt, ok2 := protoMakeChanCap(c, nf, "queueMsgTx")
		ss, ok3 := protoMakeChanCap(c, nf, "sigSuspend")
		sr, ok4 := protoMakeChanCap(c, nf, "sigResume")
		qq, ok5 := protoMakeChanCap(c, nf, "quit")
		l.Def("queueBlockCap", "Nat", fmt.Sprint(qb))
		l.Def("queueMsgTxCap", "Nat", fmt.Sprint(qt))
		l.Def("sigSuspendCap", "Nat", fmt.Sprint(ss))
		l.Def("sigResumeCap", "Nat", fmt.Sprint(sr))
		l.Def("quitCap", "Nat", fmt.Sprint(qq))
		mw, ok6 := c.ConstInt("masswallet/task.go", "MaxWaitingTaskNum")
		l.Def("maxWaitingTaskNum", "Nat", fmt.Sprint(mw))
		// NewWalletTaskChan: size is raised to MaxWaitingTaskNum+1 and used as the channel capacity
		nt := c.Func("masswallet/task.go", "", "NewWalletTaskChan")
		ntSrc := ""
		if nt != nil {
			ntSrc = strings.Join(strings.Fields(c.Src(nt.Body)), " ")
		}
		capOK := strings.Contains(ntSrc, "if size < MaxWaitingTaskNum+1 { size = MaxWaitingTaskNum + 1 }") &&
			strings.Contains(ntSrc, "make(chan WalletTask, size)")
		l.Def("taskChanCapAtLeastBusyPlusOne", "Bool", fmt.Sprint(capOK))
		ib := c.Func("masswallet/task.go", "WalletTaskChan", "IsBusy")
		busyOK := ib != nil && strings.Contains(strings.Join(strings.Fields(c.Src(ib.Body)), " "), "return len(c.C) >= MaxWaitingTaskNum")
		l.Def("isBusyIsLenGeMax", "Bool", fmt.Sprint(busyOK))
		// the task queue is assigned only in initTaskChan (never in worker), and Start calls it before `go`
		assignedIn := map[string]bool{}
		if f := c.File(nh); f != nil {
			for _, d := range f.Decls {
				fd, ok := d.(*ast.FuncDecl)
				if !ok || fd.Body == nil {
					continue
				}
				ast.Inspect(fd.Body, func(n ast.Node) bool {
					if as, ok := n.(*ast.AssignStmt); ok {
						for _, lhs := range as.Lhs {
							if c.Src(lhs) == "h.taskChan" {
								assignedIn[fd.Name.Name] = true
							}
						}
					}
					return true
				})
			}
		}
		var sites []string
		for k := range assignedIn {
			sites = append(sites, k)
		}
		// order of initTaskChan and the go statements in Start
		startOps, _ := protoOps(c, nh, "NtfnsHandler", "Start")
		iInit := strings.Index(startOps, `.call "initTaskChan"`)
		iGo := strings.Index(startOps, `.call "go handle"`)
		iGo2 := strings.Index(startOps, `.call "go worker"`)
		before := len(sites) == 1 && assignedIn["initTaskChan"] && iInit >= 0 && iGo > iInit && iGo2 > iInit
		l.Def("taskChanInitBeforeGo", "Bool", fmt.Sprint(before))
		protoWriteLeanWithImport(c, l, "Proto.lean", "MW.Model.ProtoSkel")
		c.check("proto.skeleton", allFound, "an anchored function of the goroutine protocol was not found")
		c.check("proto.capacities", ok1 && ok2 && ok3 && ok4 && ok5 && ok6, "channel allocations in NewNtfnsHandler / MaxWaitingTaskNum not found in the expected form")
		c.check("proto.taskChanCap", capOK && busyOK, "NewWalletTaskChan / IsBusy no longer have the expected form")
		c.check("proto.taskChanInitBeforeGo", before, fmt.Sprintf("h.taskChan is not allocated before the goroutines start (assigned in %v)", sites))
	})
}
