package main

import (
	"fmt"
	"go/ast"
	"go/parser"
	"go/token"
	"path/filepath"
	"reflect"
	"runtime"
	"strconv"
	"strings"

	"github.com/massnetorg/mass-core/consensus"
	"github.com/massnetorg/mass-core/massutil"
	"github.com/massnetorg/mass-core/txscript"
	"github.com/massnetorg/mass-core/wire"
)

// Facts for C16: opcode values, template sizes, frozen-period bounds and script classes as compiled
// in; the opcode length table (`opcodeArray[i].length`, unexported) re-read from the txscript source
// the binary was compiled from; presence of the anchored wallet functions.
func init() {
	register(func(c *Ctx) {
		l := NewLean("MW.Gen.Script")
		n := func(name string, v interface{}) { l.Def(name, "Nat", fmt.Sprint(v)) }
		n("OP_0", txscript.OP_0)
		n("OP_DATA_1", txscript.OP_DATA_1)
		n("OP_DATA_8", txscript.OP_DATA_8)
		n("OP_DATA_20", txscript.OP_DATA_20)
		n("OP_DATA_22", txscript.OP_DATA_22)
		n("OP_DATA_32", txscript.OP_DATA_32)
		n("OP_DATA_75", txscript.OP_DATA_75)
		n("OP_PUSHDATA1", txscript.OP_PUSHDATA1)
		n("OP_PUSHDATA2", txscript.OP_PUSHDATA2)
		n("OP_PUSHDATA4", txscript.OP_PUSHDATA4)
		n("OP_1NEGATE", txscript.OP_1NEGATE)
		n("OP_1", txscript.OP_1)
		n("OP_16", txscript.OP_16)
		n("OP_RETURN", txscript.OP_RETURN)
		n("OP_CHECKMULTISIG", txscript.OP_CHECKMULTISIG)
		n("witnessV0ScriptHashDataSize", txscript.WitnessV0ScriptHashDataSize)
		n("maxDataCarrierSize", txscript.MaxDataCarrierSize)
		n("maxScriptElementSize", txscript.MaxScriptElementSize)
		n("minFrozenPeriod", consensus.MinFrozenPeriod)
		n("sequenceLockTimeMask", wire.SequenceLockTimeMask)
		n("bindingLockedPeriod", consensus.MASSIP0002BindingLockedPeriod)
		n("maxValidPeriod", consensus.MASSIP0001MaxValidPeriod)
		n("addressClassWitnessV0", massutil.AddressClassWitnessV0)
		n("addressClassWitnessStaking", massutil.AddressClassWitnessStaking)
		n("classNonStandard", int(txscript.NonStandardTy))
		n("classWitnessV0ScriptHash", int(txscript.WitnessV0ScriptHashTy))
		n("classStakingScriptHash", int(txscript.StakingScriptHashTy))
		n("classBindingScriptHash", int(txscript.BindingScriptHashTy))
		n("classMultiSig", int(txscript.MultiSigTy))
		n("classNullData", int(txscript.NullDataTy))
		c.check("script.constants", txscript.OP_0 == 0 && txscript.OP_DATA_32 == 32 && txscript.OP_DATA_8 == 8 &&
			txscript.OP_DATA_20 == 20 && txscript.OP_DATA_22 == 22 && txscript.WitnessV0ScriptHashDataSize == 32,
			"template opcodes / sizes are not the ones the byte-pattern spec is written for")

		// opcode table from the source the binary was built from
		dir := ""
		if f := runtime.FuncForPC(reflect.ValueOf(txscript.GetScriptClass).Pointer()); f != nil {
			file, _ := f.FileLine(f.Entry())
			dir = filepath.Dir(file)
		}
		lens, vals, maxScript, err := opcodeTable(dir)
		if err != nil {
			c.fail("script.opcodeTable", err.Error())
			lens = make([]int, 0)
		} else {
			okIdx := true
			for i, v := range vals {
				if v != i {
					okIdx = false
				}
			}
			c.check("script.opcodeTable", okIdx && len(lens) == 256, "opcodeArray[i].value != i for some i, or the table is not 256 long")
		}
		var p []string
		for _, x := range lens {
			p = append(p, fmt.Sprint(x))
		}
		l.Def("opLenTable", "List Int", "["+strings.Join(p, ", ")+"]")
		n("maxScriptSize", maxScript)

		c.check("script.walletFunctions", c.Func("masswallet/utils/txscript.go", "", "ParsePkScript") != nil &&
			c.Func("api/util.go", "", "extractAddressInfos") != nil &&
			c.Func("masswallet/common.go", "", "PayToWitnessV0Address") != nil &&
			c.Func("masswallet/common.go", "", "amountToTxOut") != nil &&
			c.Func("masswallet/tx.go", "", "constructStakingTxOut") != nil,
			"an anchored wallet function (ParsePkScript, extractAddressInfos, PayToWitnessV0Address, amountToTxOut, constructStakingTxOut) is missing")
		l.Write(c, "Script.lean")
	})
}

// opcodeTable parses txscript/opcode.go: the OP_* constants and the composite literal opcodeArray;
// returns length and value per index, and maxScriptSize from common.go.
func opcodeTable(dir string) (lens []int, vals []int, maxScript int, err error) {
	if dir == "" {
		return nil, nil, 0, fmt.Errorf("cannot locate the txscript source directory")
	}
	fset := token.NewFileSet()
	f, e := parser.ParseFile(fset, filepath.Join(dir, "opcode.go"), nil, 0)
	if e != nil {
		return nil, nil, 0, e
	}
	consts := map[string]int{}
	var evalInt func(e ast.Expr) (int, bool)
	evalInt = func(e ast.Expr) (int, bool) {
		switch x := e.(type) {
		case *ast.BasicLit:
			v, err := strconv.ParseInt(x.Value, 0, 64)
			return int(v), err == nil
		case *ast.Ident:
			v, ok := consts[x.Name]
			return v, ok
		case *ast.UnaryExpr:
			if x.Op == token.SUB {
				v, ok := evalInt(x.X)
				return -v, ok
			}
		case *ast.ParenExpr:
			return evalInt(x.X)
		}
		return 0, false
	}
	var table *ast.CompositeLit
	for _, d := range f.Decls {
		gd, ok := d.(*ast.GenDecl)
		if !ok {
			continue
		}
		for _, s := range gd.Specs {
			vs, ok := s.(*ast.ValueSpec)
			if !ok {
				continue
			}
			for i, nm := range vs.Names {
				if i >= len(vs.Values) {
					continue
				}
				if gd.Tok == token.CONST {
					if v, ok := evalInt(vs.Values[i]); ok {
						consts[nm.Name] = v
					}
				} else if nm.Name == "opcodeArray" {
					table, _ = vs.Values[i].(*ast.CompositeLit)
				}
			}
		}
	}
	if table == nil {
		return nil, nil, 0, fmt.Errorf("opcodeArray not found in %s", dir)
	}
	lens = make([]int, 256)
	vals = make([]int, 256)
	seen := make([]bool, 256)
	for _, el := range table.Elts {
		kv, ok := el.(*ast.KeyValueExpr)
		if !ok {
			return nil, nil, 0, fmt.Errorf("opcodeArray: unkeyed element")
		}
		idx, ok := evalInt(kv.Key)
		cl, ok2 := kv.Value.(*ast.CompositeLit)
		if !ok || !ok2 || idx < 0 || idx > 255 || len(cl.Elts) != 4 {
			return nil, nil, 0, fmt.Errorf("opcodeArray: unexpected element shape")
		}
		v, ok := evalInt(cl.Elts[0])
		ln, ok2 := evalInt(cl.Elts[2])
		if !ok || !ok2 {
			return nil, nil, 0, fmt.Errorf("opcodeArray: cannot evaluate value/length at index %d", idx)
		}
		if seen[idx] {
			return nil, nil, 0, fmt.Errorf("opcodeArray: duplicate index %d", idx)
		}
		seen[idx] = true
		vals[idx], lens[idx] = v, ln
	}
	for i, s := range seen {
		if !s {
			return nil, nil, 0, fmt.Errorf("opcodeArray: index %d missing", i)
		}
	}
	// maxScriptSize (unexported) from common.go
	f2, e := parser.ParseFile(fset, filepath.Join(dir, "common.go"), nil, 0)
	if e != nil {
		return nil, nil, 0, e
	}
	found := false
	ast.Inspect(f2, func(nd ast.Node) bool {
		if vs, ok := nd.(*ast.ValueSpec); ok {
			for i, nm := range vs.Names {
				if nm.Name == "maxScriptSize" && i < len(vs.Values) {
					if v, ok := evalInt(vs.Values[i]); ok {
						maxScript, found = v, true
					}
				}
			}
		}
		return true
	})
	if !found {
		return nil, nil, 0, fmt.Errorf("maxScriptSize not found")
	}
	return lens, vals, maxScript, nil
}
