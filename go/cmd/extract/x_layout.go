package main

// Facts for C08 (and every model that talks about bucket keys): the byte layout of every key /
// value builder in masswallet/txmgr/*_db.go, read off the make([]byte,N) / copy(k[a:b],…) /
// binary.BigEndian.PutUintNN(k[a:b],…) / k[i] = … statements  →  lean/MW/Gen/Layout.lean.
// A builder that no longer has this shape is reported as a broken fact, never skipped.

import (
	"fmt"
	"go/ast"
	"go/token"
	"regexp"
	"sort"
	"strconv"
	"strings"
)

type lField struct {
	name     string
	off, len int // len 0 = variable-length tail
}

type lLayout struct {
	fn     string
	size   int // 0 = variable
	fields []lField
}

var reClean = regexp.MustCompile(`\[\]byte\(|\)|\[:\]|&|\*`)

func fieldName(src string) string {
	s := reClean.ReplaceAllString(src, "")
	if i := strings.LastIndex(s, "."); i >= 0 {
		s = s[i+1:]
	}
	s = strings.TrimSpace(s)
	switch strings.ToLower(s) {
	case "txhash", "txsha", "hash":
		if strings.Contains(strings.ToLower(src), "block") || strings.Contains(src, "bs.") {
			return "blockHash"
		}
		return "txHash"
	case "walletid":
		return "walletId"
	case "uintvalue(":
		return "amount"
	}
	return s
}

// extractLayout reads the layout of byte slice `v` built in function fn of file rel.
func extractLayout(c *Ctx, rel, fn, v string) (*lLayout, string) {
	fd := c.Func(rel, "", fn)
	if fd == nil || fd.Body == nil {
		return nil, "function not found"
	}
	env := map[string]int{}
	// `widLen := len(x.walletId)` guarded by `widLen != 42`
	ast.Inspect(fd.Body, func(n ast.Node) bool {
		if be, ok := n.(*ast.BinaryExpr); ok && be.Op == token.NEQ {
			if id, ok := be.X.(*ast.Ident); ok {
				if bl, ok := be.Y.(*ast.BasicLit); ok {
					if k, err := strconv.Atoi(bl.Value); err == nil {
						env[id.Name] = k
					}
				}
			}
		}
		return true
	})
	var eval func(e ast.Expr) (int, bool)
	eval = func(e ast.Expr) (int, bool) {
		switch x := e.(type) {
		case *ast.BasicLit:
			k, err := strconv.Atoi(x.Value)
			return k, err == nil
		case *ast.Ident:
			k, ok := env[x.Name]
			return k, ok
		case *ast.ParenExpr:
			return eval(x.X)
		case *ast.BinaryExpr:
			a, ok1 := eval(x.X)
			b, ok2 := eval(x.Y)
			if ok1 && ok2 {
				switch x.Op {
				case token.ADD:
					return a + b, true
				case token.SUB:
					return a - b, true
				}
			}
		}
		return 0, false
	}
	l := &lLayout{fn: fn, size: -1}
	// slice bounds of an expression `v`, `v[a:b]`, `v[a:]`
	bounds := func(e ast.Expr) (isV bool, lo, hi int, open bool) {
		switch x := e.(type) {
		case *ast.Ident:
			if x.Name == v {
				return true, 0, -1, false
			}
		case *ast.SliceExpr:
			if id, ok := x.X.(*ast.Ident); ok && id.Name == v {
				lo, hi = 0, -1
				if x.Low != nil {
					k, ok := eval(x.Low)
					if !ok {
						return false, 0, 0, false
					}
					lo = k
				}
				if x.High != nil {
					k, ok := eval(x.High)
					if !ok {
						return false, 0, 0, false
					}
					hi = k
				} else {
					open = true
				}
				return true, lo, hi, open
			}
		}
		return false, 0, 0, false
	}
	widthOf := func(src string) int {
		ls := strings.ToLower(src)
		switch {
		case strings.Contains(ls, "walletid"):
			return 42
		case strings.Contains(ls, "hash"):
			return 32
		}
		return -1
	}
	bad := ""
	var walk func(list []ast.Stmt)
	walk = func(list []ast.Stmt) {
		for _, st := range list {
			switch s := st.(type) {
			case *ast.AssignStmt:
				if len(s.Lhs) == 1 && len(s.Rhs) == 1 {
					if id, ok := s.Lhs[0].(*ast.Ident); ok && id.Name == v {
						if call, ok := s.Rhs[0].(*ast.CallExpr); ok {
							if f, ok := call.Fun.(*ast.Ident); ok && f.Name == "make" && len(call.Args) == 2 {
								if k, ok := eval(call.Args[1]); ok {
									l.size = k
								} else {
									l.size = 0
								}
							}
						}
					}
					// v[i] = c  /  v[i] |= c
					if ix, ok := s.Lhs[0].(*ast.IndexExpr); ok {
						if id, ok := ix.X.(*ast.Ident); ok && id.Name == v {
							if k, ok := eval(ix.Index); ok {
								found := false
								for _, f := range l.fields {
									if f.off == k && f.len == 1 {
										found = true
									}
								}
								if !found {
									l.fields = append(l.fields, lField{fmt.Sprintf("flag%d", k), k, 1})
								}
							}
						}
					}
				}
			case *ast.ExprStmt:
				call, ok := s.X.(*ast.CallExpr)
				if !ok {
					continue
				}
				fun := c.Src(call.Fun)
				switch {
				case fun == "copy" && len(call.Args) == 2:
					isV, lo, hi, open := bounds(call.Args[0])
					if !isV {
						continue
					}
					src := c.Src(call.Args[1])
					ln := 0
					switch {
					case hi >= 0:
						ln = hi - lo
					case open:
						ln = 0
					default:
						ln = widthOf(src)
						if ln < 0 {
							bad = "copy without bounds from a source of unknown width: " + src
						}
					}
					l.fields = append(l.fields, lField{fieldName(src), lo, ln})
				case strings.HasPrefix(fun, "binary.BigEndian.PutUint") && len(call.Args) == 2:
					isV, lo, hi, _ := bounds(call.Args[0])
					if !isV {
						continue
					}
					bits, _ := strconv.Atoi(strings.TrimPrefix(fun, "binary.BigEndian.PutUint"))
					if hi >= 0 && hi-lo != bits/8 {
						bad = fmt.Sprintf("PutUint%d into %d bytes", bits, hi-lo)
					}
					l.fields = append(l.fields, lField{fieldName(c.Src(call.Args[1])), lo, bits / 8})
				}
			case *ast.IfStmt:
				walk(s.Body.List)
			}
		}
	}
	walk(fd.Body.List)
	if bad != "" {
		return nil, bad
	}
	if l.size < 0 {
		return nil, "no make([]byte, N) for " + v
	}
	sort.SliceStable(l.fields, func(i, j int) bool { return l.fields[i].off < l.fields[j].off })
	// fields must not overlap and must fit
	end := 0
	for _, f := range l.fields {
		if f.off < end {
			return nil, fmt.Sprintf("field %s overlaps its predecessor", f.name)
		}
		end = f.off + f.len
	}
	if l.size > 0 && end > l.size {
		return nil, "fields exceed the allocated size"
	}
	return l, ""
}

func init() {
	register(func(c *Ctx) {
		lf := NewLean("MW.Gen.Layout")
		lf.Raw("structure Field where\n  name : String\n  off : Nat\n  len : Nat          -- 0 = variable-length tail\n  deriving DecidableEq, Repr")
		lf.Raw("structure KeyLayout where\n  name : String\n  size : Nat         -- 0 = variable\n  fields : List Field\n  deriving DecidableEq, Repr")
		targets := []struct{ file, fn, v string }{
			{"masswallet/txmgr/utxostore_db.go", "canonicalOutPoint", "k"},
			{"masswallet/txmgr/utxostore_db.go", "canonicalUnspentKey", "k"},
			{"masswallet/txmgr/utxostore_db.go", "keyCredit", "k"},
			{"masswallet/txmgr/utxostore_db.go", "keyDebit", "k"},
			{"masswallet/txmgr/utxostore_db.go", "keyAddressRecord", "k"},
			{"masswallet/txmgr/utxostore_db.go", "keyGameHistory", "k"},
			{"masswallet/txmgr/utxostore_db.go", "keyUnminedGameHistory", "k"},
			{"masswallet/txmgr/utxostore_db.go", "valueUnspentCredit", "v"},
			{"masswallet/txmgr/utxostore_db.go", "valueUnspent", "v"},
			{"masswallet/txmgr/utxostore_db.go", "putDebit", "v"},
			{"masswallet/txmgr/txstore_db.go", "keyTxRecord", "k"},
			{"masswallet/txmgr/txstore_db.go", "keyBlockRecord", "k"},
		}
		var names []string
		got := map[string]*lLayout{}
		for _, t := range targets {
			l, bad := extractLayout(c, t.file, t.fn, t.v)
			if l == nil {
				c.fail("layout."+t.fn, bad)
				continue
			}
			c.ok("layout." + t.fn)
			got[t.fn] = l
			var fs []string
			for _, f := range l.fields {
				fs = append(fs, fmt.Sprintf("⟨%s, %d, %d⟩", leanStr(f.name), f.off, f.len))
			}
			lf.Def(t.fn, "KeyLayout", fmt.Sprintf("⟨%s, %d, [%s]⟩", leanStr(t.fn), l.size, strings.Join(fs, ", ")))
			names = append(names, t.fn)
		}
		lf.Def("all", "List KeyLayout", "["+strings.Join(names, ", ")+"]")
		// the buckets emptied by a prefix scan on the wallet id: keys that START with the id
		idp := []string{"canonicalUnspentKey", "keyAddressRecord", "keyGameHistory", "keyUnminedGameHistory"}
		okp := true
		for _, n := range idp {
			l := got[n]
			if l == nil || len(l.fields) == 0 || l.fields[0].name != "walletId" || l.fields[0].off != 0 || l.fields[0].len != 42 {
				okp = false
			}
		}
		lf.Def("idPrefixed", "List KeyLayout", "["+strings.Join(idp, ", ")+"]")
		c.check("layout.idPrefixed", okp, "a key deleted by wallet-id prefix does not start with a 42-byte wallet id")
		// deleteByPrefix is called with []byte(walletId) in the four Remove…ByWalletId functions, and the
		// writers of id keys refuse ids that are not 42 bytes long
		pre := true
		for _, fn := range []string{"RemoveAddressByWalletId", "RemoveUnspentByWalletId", "RemoveGameHistoryByWalletId"} {
			fd := c.Func("masswallet/txmgr/utxostore.go", "UtxoStore", fn)
			if fd == nil || !strings.Contains(c.Src(fd.Body), "deleteByPrefix(") || !strings.Contains(c.Src(fd.Body), "[]byte(walletId)") {
				pre = false
			}
		}
		c.check("layout.prefixScans", pre, "Remove…ByWalletId no longer delete by the prefix []byte(walletId)")
		guards := true
		for _, g := range []struct{ file, recv, fn string }{
			{"masswallet/txmgr/utxostore_db.go", "", "putMinedBalance"},
			{"masswallet/txmgr/utxostore_db.go", "", "putUnspent"},
			{"masswallet/txmgr/utxostore_db.go", "", "keyAddressRecord"},
			{"masswallet/txmgr/syncstore.go", "SyncStore", "PutWalletStatus"},
		} {
			fd := c.Func(g.file, g.recv, g.fn)
			if fd == nil || !strings.Contains(c.Src(fd.Body), "!= 42") {
				guards = false
			}
		}
		lf.Def("walletIdLen", "Nat", "42")
		c.check("layout.walletIdGuards", guards, "a writer of wallet-id keys no longer insists on 42-byte ids")
		lf.Write(c, "Layout.lean")
	})
}
