package main

import (
	"go/ast"
	"go/token"
	"sort"
	"strconv"
	"strings"
)

// Facts for C03 / C05 (tie B), re-read from /repo's working tree on every run:
//   sec.dbKeys       the key-name variables of keystore/db.go (`x = []byte("…")`) and, per put*/init*/update*
//                    function, the key names it passes to Bucket.Put  → MW.Gen.Sec.putKeys / keyNames
//   sec.buckets      the bucket-name constants of keystore/manager.go (km / aid / pub) and wallet.go (k)
//   sec.clears       tx.go: signWitnessTx and WalletManager.SignHash both `defer w.ksmgr.ClearPrivKey()`
//   sec.gateShape    addrmgr.go: safelyCheckPassword zeroes the master key only when locked; exportKeystore and
//                    CheckPrivPassphrase go through safelyCheckPassword; getMnemonic / signBtcec call checkPassword
//                    before any Decrypt; snacl deriveKey refuses a passphrase ending in a zero byte
//   sec.flags        wallet.go SignRawTx: the six flag strings of the switch
func init() {
	register(func(c *Ctx) {
		l := NewLean("MW.Gen.Sec")
		// ---- key names
		names := map[string]string{} // variable -> literal
		if f := c.File("masswallet/keystore/db.go"); f != nil {
			for _, d := range f.Decls {
				gd, ok := d.(*ast.GenDecl)
				if !ok || gd.Tok != token.VAR {
					continue
				}
				for _, sp := range gd.Specs {
					vs := sp.(*ast.ValueSpec)
					for i, n := range vs.Names {
						if i >= len(vs.Values) {
							continue
						}
						call, ok := vs.Values[i].(*ast.CallExpr)
						if !ok || len(call.Args) != 1 {
							continue
						}
						if at, ok := call.Fun.(*ast.ArrayType); !ok || at.Len != nil {
							continue
						}
						if bl, ok := call.Args[0].(*ast.BasicLit); ok && bl.Kind == token.STRING {
							if s, err := strconv.Unquote(bl.Value); err == nil {
								names[n.Name] = s
							}
						}
					}
				}
			}
		}
		type pk struct {
			fn   string
			keys []string
		}
		var puts []pk
		written := map[string]bool{}
		if f := c.File("masswallet/keystore/db.go"); f != nil {
			for _, d := range f.Decls {
				fd, ok := d.(*ast.FuncDecl)
				if !ok || fd.Body == nil || fd.Recv != nil {
					continue
				}
				var ks []string
				local := map[string]string{} // local var assigned a key-name variable (updateChildNum)
				ast.Inspect(fd.Body, func(n ast.Node) bool {
					switch x := n.(type) {
					case *ast.AssignStmt:
						if len(x.Lhs) == 1 && len(x.Rhs) == 1 {
							if lid, ok := x.Lhs[0].(*ast.Ident); ok {
								if rid, ok := x.Rhs[0].(*ast.Ident); ok {
									if lit, ok := names[rid.Name]; ok {
										local[lid.Name] += lit + "|"
									}
								}
							}
						}
					case *ast.CallExpr:
						se, ok := x.Fun.(*ast.SelectorExpr)
						if !ok || se.Sel.Name != "Put" || len(x.Args) != 2 {
							return true
						}
						switch a := x.Args[0].(type) {
						case *ast.Ident:
							if lit, ok := names[a.Name]; ok {
								ks = append(ks, lit)
							} else if lits, ok := local[a.Name]; ok {
								for _, s := range strings.Split(strings.TrimSuffix(lits, "|"), "|") {
									ks = append(ks, s)
								}
							} else {
								ks = append(ks, "<"+a.Name+">")
							}
						default:
							ks = append(ks, "<computed>")
						}
					}
					return true
				})
				if len(ks) > 0 {
					puts = append(puts, pk{fd.Name.Name, ks})
					for _, k := range ks {
						written[k] = true
					}
				}
			}
		}
		sort.Slice(puts, func(i, j int) bool { return puts[i].fn < puts[j].fn })
		var items []string
		for _, p := range puts {
			var qs []string
			for _, k := range p.keys {
				qs = append(qs, leanStr(k))
			}
			items = append(items, "("+leanStr(p.fn)+", ["+strings.Join(qs, ", ")+"])")
		}
		l.Def("putKeys", "List (String × List String)", "["+strings.Join(items, ",\n  ")+"]")
		var ws []string
		for k := range written {
			if !strings.HasPrefix(k, "<") {
				ws = append(ws, k)
			}
		}
		sort.Strings(ws)
		var qs []string
		for _, k := range ws {
			qs = append(qs, leanStr(k))
		}
		l.Def("keyNamesWritten", "List String", "["+strings.Join(qs, ", ")+"]")
		c.check("sec.dbKeys", len(ws) >= 10 && written["mpriv"] && written["cpriv"] && written["ent"],
			"keystore/db.go: put* functions / key names could not be read in the expected shape")

		// ---- bucket names
		bucket := func(rel, name string) string {
			f := c.File(rel)
			if f == nil {
				return ""
			}
			for _, d := range f.Decls {
				gd, ok := d.(*ast.GenDecl)
				if !ok || gd.Tok != token.CONST {
					continue
				}
				for _, sp := range gd.Specs {
					vs := sp.(*ast.ValueSpec)
					for i, n := range vs.Names {
						if n.Name == name && i < len(vs.Values) {
							if bl, ok := vs.Values[i].(*ast.BasicLit); ok {
								s, _ := strconv.Unquote(bl.Value)
								return s
							}
						}
					}
				}
			}
			return ""
		}
		bs := []string{bucket("masswallet/wallet.go", "keystoreBucket"), bucket("masswallet/keystore/manager.go", "ksMgrBucket"),
			bucket("masswallet/keystore/manager.go", "accountIDBucket"), bucket("masswallet/keystore/manager.go", "pubKeyBucket")}
		var bq []string
		for _, b := range bs {
			bq = append(bq, leanStr(b))
		}
		l.Def("bucketNames", "List String", "["+strings.Join(bq, ", ")+"]")
		c.check("sec.buckets", bs[0] != "" && bs[1] != "" && bs[2] != "" && bs[3] != "", "bucket name constants not found")

		// ---- deferred ClearPrivKey
		defersClear := func(fd *ast.FuncDecl) bool {
			if fd == nil || fd.Body == nil {
				return false
			}
			found := false
			for _, st := range fd.Body.List { // top level of the body only: runs on every return path
				ds, ok := st.(*ast.DeferStmt)
				if !ok {
					continue
				}
				if se, ok := ds.Call.Fun.(*ast.SelectorExpr); ok && se.Sel.Name == "ClearPrivKey" {
					found = true
				}
			}
			return found
		}
		d1 := defersClear(c.Func("masswallet/tx.go", "WalletManager", "signWitnessTx"))
		d2 := defersClear(c.Func("masswallet/tx.go", "WalletManager", "SignHash"))
		l.Def("signWitnessTxDefersClear", "Bool", boolLean(d1))
		l.Def("signHashDefersClear", "Bool", boolLean(d2))
		c.check("sec.clears", c.Func("masswallet/tx.go", "WalletManager", "signWitnessTx") != nil &&
			c.Func("masswallet/tx.go", "WalletManager", "SignHash") != nil, "tx.go: signWitnessTx / SignHash not found")

		// ---- shape of the gate
		callsBefore := func(fd *ast.FuncDecl, first, later string) bool {
			// `first` is called, and no call of `later` precedes it in source order
			if fd == nil || fd.Body == nil {
				return false
			}
			posFirst, posLater := token.NoPos, token.NoPos
			ast.Inspect(fd.Body, func(n ast.Node) bool {
				ce, ok := n.(*ast.CallExpr)
				if !ok {
					return true
				}
				if se, ok := ce.Fun.(*ast.SelectorExpr); ok {
					if se.Sel.Name == first && posFirst == token.NoPos {
						posFirst = ce.Pos()
					}
					if se.Sel.Name == later && posLater == token.NoPos {
						posLater = ce.Pos()
					}
				}
				return true
			})
			return posFirst != token.NoPos && (posLater == token.NoPos || posFirst < posLater)
		}
		am := "masswallet/keystore/addrmgr.go"
		g1 := callsBefore(c.Func(am, "AddrManager", "getMnemonic"), "checkPassword", "Decrypt")
		g2 := callsBefore(c.Func(am, "AddrManager", "signBtcec"), "checkPassword", "getPrivKeyBtcec")
		g3 := callsBefore(c.Func(am, "AddrManager", "exportKeystore"), "safelyCheckPassword", "FetchBucket")
		g4 := callsBefore(c.Func("masswallet/keystore/manager.go", "KeystoreManager", "CheckPrivPassphrase"), "safelyCheckPassword", "Decrypt")
		g5 := callsBefore(c.Func("masswallet/wallet.go", "WalletManager", "RemoveWallet"), "CheckPrivPassphrase", "OnRemoveWallet")
		l.Def("checkBeforeUse", "List Bool", "["+strings.Join([]string{boolLean(g1), boolLean(g2), boolLean(g3), boolLean(g4), boolLean(g5)}, ", ")+"]")
		sc := c.Func(am, "AddrManager", "safelyCheckPassword")
		zeroGuarded := false
		if sc != nil {
			for _, st := range sc.Body.List {
				if is, ok := st.(*ast.IfStmt); ok {
					cond := c.Src(is.Cond)
					body := c.Src(is.Body)
					if strings.Contains(cond, "!a.unlocked") && strings.Contains(body, "masterKeyPriv.Zero()") {
						zeroGuarded = true
					}
				}
			}
		}
		l.Def("safelyCheckZeroesOnlyWhenLocked", "Bool", boolLean(zeroGuarded))
		dk := c.Func("masswallet/keystore/snacl/snacl.go", "SecretKey", "deriveKey")
		trailing := false
		if dk != nil && len(dk.Body.List) > 0 {
			if is, ok := dk.Body.List[0].(*ast.IfStmt); ok {
				s := c.Src(is)
				trailing = strings.Contains(s, "[n-1] == 0") && strings.Contains(s, "ErrInvalidPassword")
			}
		}
		l.Def("deriveKeyRefusesTrailingZero", "Bool", boolLean(trailing))
		c.check("sec.gateShape", sc != nil && dk != nil, "addrmgr.go safelyCheckPassword / snacl deriveKey not found")

		// ---- flags
		var flags []string
		if fd := c.Func("masswallet/wallet.go", "WalletManager", "SignRawTx"); fd != nil {
			ast.Inspect(fd.Body, func(n ast.Node) bool {
				sw, ok := n.(*ast.SwitchStmt)
				if !ok {
					return true
				}
				if id, ok := sw.Tag.(*ast.Ident); !ok || id.Name != "flag" {
					return true
				}
				for _, cl := range sw.Body.List {
					for _, e := range cl.(*ast.CaseClause).List {
						if bl, ok := e.(*ast.BasicLit); ok {
							s, _ := strconv.Unquote(bl.Value)
							flags = append(flags, s)
						}
					}
				}
				return false
			})
		}
		var fq []string
		for _, f := range flags {
			fq = append(fq, leanStr(f))
		}
		l.Def("signFlags", "List String", "["+strings.Join(fq, ", ")+"]")
		c.check("sec.flags", len(flags) > 0, "wallet.go SignRawTx: flag switch not found")
		l.Write(c, "Sec.lean")
	})
}

func boolLean(b bool) string {
	if b {
		return "true"
	}
	return "false"
}
