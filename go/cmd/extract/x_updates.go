package main

// Facts for C06 / C18 (tie B): every mwdb.Update call site of the wallet package, per function, with
// the number of sites that sit inside a `for` statement; the fast-forward distance of
// NtfnsHandler.Start; and the shape facts the persistence model relies on:
//   - processConnectedBlock assigns h.bestBlock only inside `if err == nil` after its Update,
//   - Start's fast-forward assigns h.bestBlock BEFORE its Update (modelled as written),
//   - CreateWallet / ImportWallet* evict the cached keystore on failure (RemoveCachedKeystore),
//   - asyncRemove reloads the keystore cache after a failed final step (UpdateManagedKeystores),
//   - NewAddress has no repair branch,
//   - ldb transaction.Commit is a single leveldb Write with nil write options (Sync=false).
// Written to lean/MW/Gen/Updates.lean; MW.Model.Persist states the expectations as `rfl` theorems.

import (
	"fmt"
	"go/ast"
	"go/token"
	"os"
	"path/filepath"
	"sort"
	"strings"
)

type updSite struct {
	file, fn      string
	total, inLoop int
}

func recvName(fd *ast.FuncDecl) string {
	if fd.Recv == nil || len(fd.Recv.List) != 1 {
		return ""
	}
	t := fd.Recv.List[0].Type
	if s, ok := t.(*ast.StarExpr); ok {
		t = s.X
	}
	if id, ok := t.(*ast.Ident); ok {
		return id.Name
	}
	return ""
}

func isSelCall(n ast.Node, pkg, name string) bool {
	ce, ok := n.(*ast.CallExpr)
	if !ok {
		return false
	}
	se, ok := ce.Fun.(*ast.SelectorExpr)
	if !ok || se.Sel.Name != name {
		return false
	}
	if pkg == "" {
		return true
	}
	id, ok := se.X.(*ast.Ident)
	return ok && id.Name == pkg
}

// countUpdates walks a function body counting mwdb.Update calls and how many are under a for/range.
func countUpdates(body ast.Node) (total, inLoop int) {
	var walk func(n ast.Node, loop bool)
	walk = func(n ast.Node, loop bool) {
		if n == nil {
			return
		}
		ast.Inspect(n, func(m ast.Node) bool {
			if m == nil || m == n {
				return true
			}
			switch x := m.(type) {
			case *ast.ForStmt:
				walk(x.Body, true)
				return false
			case *ast.RangeStmt:
				walk(x.Body, true)
				return false
			}
			if isSelCall(m, "mwdb", "Update") {
				total++
				if loop {
					inLoop++
				}
			}
			return true
		})
	}
	walk(body, false)
	return
}

func containsCall(n ast.Node, name string) bool {
	found := false
	ast.Inspect(n, func(m ast.Node) bool {
		if isSelCall(m, "", name) {
			found = true
		}
		return !found
	})
	return found
}

// assignsBestBlock: does n contain an assignment whose left side mentions h.bestBlock?
func assignsBestBlock(c *Ctx, n ast.Node) bool {
	found := false
	ast.Inspect(n, func(m ast.Node) bool {
		as, ok := m.(*ast.AssignStmt)
		if !ok {
			return true
		}
		for _, l := range as.Lhs {
			if strings.HasPrefix(c.Src(l), "h.bestBlock") {
				found = true
			}
		}
		return true
	})
	return found
}

func init() {
	register(func(c *Ctx) {
		l := NewLean("MW.Gen.Updates")
		dir := filepath.Join(c.Repo, "masswallet")
		ents, err := os.ReadDir(dir)
		if err != nil {
			c.fail("updates.sites", err.Error())
			return
		}
		var sites []updSite
		for _, e := range ents {
			n := e.Name()
			if e.IsDir() || !strings.HasSuffix(n, ".go") || strings.HasSuffix(n, "_test.go") || strings.HasSuffix(n, "_verif.go") {
				continue
			}
			rel := "masswallet/" + n
			f := c.File(rel)
			if f == nil {
				c.fail("updates.sites", "cannot parse "+rel)
				return
			}
			for _, d := range f.Decls {
				fd, ok := d.(*ast.FuncDecl)
				if !ok || fd.Body == nil {
					continue
				}
				t, il := countUpdates(fd.Body)
				if t > 0 {
					name := fd.Name.Name
					if r := recvName(fd); r != "" {
						name = r + "." + name
					}
					sites = append(sites, updSite{rel, name, t, il})
				}
			}
		}
		sort.Slice(sites, func(i, j int) bool {
			if sites[i].file != sites[j].file {
				return sites[i].file < sites[j].file
			}
			return sites[i].fn < sites[j].fn
		})
		var items []string
		for _, s := range sites {
			items = append(items, fmt.Sprintf("(%s, %s, %d, %d)", leanStr(s.file), leanStr(s.fn), s.total, s.inLoop))
		}
		l.Raw("/-- (file, function, mwdb.Update call sites, of which inside a for statement) -/")
		l.Def("sites", "List (String × String × Nat × Nat)", "[\n  "+strings.Join(items, ",\n  ")+"]")
		c.check("updates.sites", len(sites) > 0, "no mwdb.Update call site found")

		// fast-forward distance in Start: every integer literal > 1 in the function must be the same number
		ff := int64(-1)
		ffOK := true
		start := c.Func("masswallet/ntfnshandler.go", "NtfnsHandler", "Start")
		if start == nil {
			ffOK = false
		} else {
			ast.Inspect(start.Body, func(m ast.Node) bool {
				bl, ok := m.(*ast.BasicLit)
				if !ok || bl.Kind != token.INT {
					return true
				}
				var v int64
				if _, err := fmt.Sscan(bl.Value, &v); err != nil || v <= 2 {
					return true
				}
				if ff == -1 {
					ff = v
				} else if ff != v {
					ffOK = false
				}
				return true
			})
		}
		if ff < 0 {
			ffOK = false
			ff = 0
		}
		l.Def("ffGap", "Nat", fmt.Sprint(ff))
		c.check("updates.ffGap", ffOK, "NtfnsHandler.Start: fast-forward distance not found as one repeated literal")

		// shape facts
		pcb := c.Func("masswallet/ntfnshandler.go", "NtfnsHandler", "processConnectedBlock")
		bestOnly := false
		if pcb != nil {
			bestOnly = true
			seenGuard := false
			for _, st := range pcb.Body.List {
				if is, ok := st.(*ast.IfStmt); ok && c.Src(is.Cond) == "err == nil" {
					seenGuard = seenGuard || assignsBestBlock(c, is.Body)
					continue
				}
				// the local copy `bestBlock := h.bestBlock` reads, it does not assign the field
				if assignsBestBlock(c, st) {
					bestOnly = false
				}
			}
			bestOnly = bestOnly && seenGuard
		}
		l.Def("bestBlockOnlyOnSuccess", "Bool", fmt.Sprint(bestOnly))
		c.check("updates.bestBlockOnlyOnSuccess", bestOnly, "processConnectedBlock no longer assigns h.bestBlock only under `if err == nil`")

		ffBefore := false
		if start != nil {
			ast.Inspect(start.Body, func(m ast.Node) bool {
				fs, ok := m.(*ast.ForStmt)
				if !ok || ffBefore {
					return true
				}
				seenAssign := false
				for _, st := range fs.Body.List {
					if assignsBestBlock(c, st) {
						seenAssign = true
					}
					if t, _ := countUpdates(st); t > 0 && seenAssign {
						ffBefore = true
					}
				}
				return true
			})
		}
		l.Def("fastForwardSetsBestBeforeUpdate", "Bool", fmt.Sprint(ffBefore))
		c.check("updates.fastForwardShape", ffBefore, "Start: fast-forward loop shape changed")

		evict := func(fn string) bool {
			fd := c.Func("masswallet/wallet.go", "WalletManager", fn)
			if fd == nil {
				return false
			}
			for _, st := range fd.Body.List {
				if is, ok := st.(*ast.IfStmt); ok && c.Src(is.Cond) == "err != nil" && containsCall(is.Body, "RemoveCachedKeystore") {
					return true
				}
			}
			return false
		}
		ev := evict("CreateWallet") && evict("ImportWallet") && evict("ImportWalletWithMnemonic")
		l.Def("createImportEvictOnFailure", "Bool", fmt.Sprint(ev))
		c.check("updates.evictOnFailure", ev, "CreateWallet/ImportWallet*: RemoveCachedKeystore on failure not found")

		na := c.Func("masswallet/wallet.go", "WalletManager", "NewAddress")
		naNoRepair := na != nil && !containsCall(na.Body, "RemoveCachedKeystore") && !containsCall(na.Body, "UpdateManagedKeystores")
		l.Def("newAddressHasNoRepair", "Bool", fmt.Sprint(naNoRepair))
		c.check("updates.newAddressShape", na != nil, "WalletManager.NewAddress not found")

		ar := c.Func("masswallet/ntfnshandler.go", "NtfnsHandler", "asyncRemove")
		reload := ar != nil && containsCall(ar.Body, "UpdateManagedKeystores")
		l.Def("removeReloadsOnFailure", "Bool", fmt.Sprint(reload))
		c.check("updates.removeReload", reload, "asyncRemove: UpdateManagedKeystores after a failed final step not found")

		cm := c.Func("masswallet/db/ldb/leveldb.go", "transaction", "Commit")
		single := false
		if cm != nil {
			n := 0
			nilOpts := false
			ast.Inspect(cm.Body, func(m ast.Node) bool {
				if ce, ok := m.(*ast.CallExpr); ok {
					if se, ok := ce.Fun.(*ast.SelectorExpr); ok && se.Sel.Name == "Write" {
						n++
						if len(ce.Args) == 2 && c.Src(ce.Args[1]) == "nil" {
							nilOpts = true
						}
					}
				}
				return true
			})
			single = n == 1 && nilOpts
		}
		l.Def("commitIsOneUnsyncedWrite", "Bool", fmt.Sprint(single))
		c.check("updates.commitShape", single, "ldb transaction.Commit is no longer a single leveldb Write(batch, nil)")

		tc := c.Func("masswallet/ntfnshandler.go", "NtfnsHandler", "initTaskChan")
		requeue := tc != nil && containsCall(tc.Body, "PushRemove") && containsCall(tc.Body, "PushImport")
		l.Def("initTaskChanRequeues", "Bool", fmt.Sprint(requeue))
		c.check("updates.requeue", requeue, "initTaskChan: PushRemove/PushImport re-queue not found")

		l.Write(c, "Updates.lean")
	})
}
