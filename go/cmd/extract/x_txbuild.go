package main

import (
	"fmt"
	"regexp"
	"strconv"
	"strings"

	"github.com/btcsuite/btcd/btcec"
	"github.com/massnetorg/mass-core/blockchain"
	"github.com/massnetorg/mass-core/massutil"
	"github.com/massnetorg/mass-core/txscript"
	"github.com/massnetorg/mass-core/wire"
	"massnet.org/mass-wallet/config"
)

// Facts for C02 (transaction building): the selector's k divisor, the size constants of
// estimateSignedSize, the relay-fee formula and dust rule of mass-core as compiled in, the
// reservation TTL, where the create paths reserve and where the API releases.
func init() {
	register(func(c *Ctx) {
		l := NewLean("MW.Gen.TxBuild")
		num := func(re string, src string) (int, bool) {
			m := regexp.MustCompile(re).FindStringSubmatch(src)
			if m == nil {
				return 0, false
			}
			v, err := strconv.Atoi(m[1])
			return v, err == nil
		}

		// --- selector: k := blockchain.GetMaxStandardTxSize() / 154
		kdiv, okK := 0, false
		if fd := c.Func("masswallet/utxo_selector.go", "", "newTopKSelector"); fd != nil {
			kdiv, okK = num(`k\s*:=\s*blockchain\.GetMaxStandardTxSize\(\)\s*/\s*(\d+)`, c.Src(fd.Body))
		}
		c.check("txbuild.kDivisor", okK && kdiv > 0, "newTopKSelector: `k := blockchain.GetMaxStandardTxSize() / N` not found")
		l.Def("kDivisor", "Nat", fmt.Sprint(kdiv))
		l.Def("maxStandardTxSize", "Nat", fmt.Sprint(blockchain.GetMaxStandardTxSize()))

		// --- selector shape: the sift-down loop and the submit branches as written
		selOK := false
		if fd := c.Func("masswallet/utxo_selector.go", "topKSelector", "adjust"); fd != nil {
			s := strings.Join(strings.Fields(c.Src(fd.Body)), " ")
			selOK = strings.Contains(s, "child := 2*cur + 1") && strings.Contains(s, "for cur < s.k/2") &&
				strings.Contains(s, "child+1 < s.k && s.base[child].Amount.Cmp(s.base[child+1].Amount) > 0") &&
				strings.Contains(s, "s.base[cur].Amount.Cmp(s.base[child].Amount) > 0")
		}
		subOK := false
		if fd := c.Func("masswallet/utxo_selector.go", "topKSelector", "submit"); fd != nil {
			s := strings.Join(strings.Fields(c.Src(fd.Body)), " ")
			subOK = strings.Contains(s, "item.Amount.Cmp(s.requireAmt) > 0") &&
				strings.Contains(s, "s.guard == nil || item.Amount.Cmp(s.guard.Amount) < 0") &&
				strings.Contains(s, "for i := s.k/2 - 1; i >= 0; i--") &&
				strings.Contains(s, "s.k > 0 && item.Amount.Cmp(s.base[0].Amount) > 0")
		}
		c.check("txbuild.selectorShape", selOK && subOK, "topKSelector.adjust/submit no longer have the modelled shape")
		l.Def("selectorShapeAsModelled", "Bool", fmt.Sprint(selOK && subOK))

		// --- estimateSignedSize: len(script) + 73*nrequired + 8 + 32 + 4 per input; 63*TxOutLen + 12
		sig, seq, hsh, idx, outSz, ovh := 0, 0, 0, 0, 0, 0
		okS := false
		if fd := c.Func("masswallet/tx.go", "WalletManager", "estimateSignedSize"); fd != nil {
			s := strings.Join(strings.Fields(c.Src(fd.Body)), " ")
			m := regexp.MustCompile(`signedSize = signedSize \+ len\(script\) \+ (\d+)\*nrequired \+ (\d+) \+ (\d+) \+ (\d+)`).FindStringSubmatch(s)
			m2 := regexp.MustCompile(`int64\(signedSize \+ (\d+)\*TxOutLen \+ (\d+)\)`).FindStringSubmatch(s)
			if m != nil && m2 != nil {
				sig, _ = strconv.Atoi(m[1])
				seq, _ = strconv.Atoi(m[2])
				hsh, _ = strconv.Atoi(m[3])
				idx, _ = strconv.Atoi(m[4])
				outSz, _ = strconv.Atoi(m2[1])
				ovh, _ = strconv.Atoi(m2[2])
				okS = true
			}
		}
		c.check("txbuild.sizeConstants", okS, "estimateSignedSize: size expression not found in the expected shape")
		l.Def("sigSize", "Nat", fmt.Sprint(sig))
		l.Def("seqSize", "Nat", fmt.Sprint(seq))
		l.Def("hashSize", "Nat", fmt.Sprint(hsh))
		l.Def("indexSize", "Nat", fmt.Sprint(idx))
		l.Def("outSize", "Nat", fmt.Sprint(outSz))
		l.Def("txOverhead", "Nat", fmt.Sprint(ovh))

		// redeem script of a wallet address: 1-of-1 multisig over a compressed key (keystore/script.go)
		rlen := 0
		okR := false
		if _, pub := btcec.PrivKeyFromBytes(btcec.S256(), []byte{1, 2, 3, 4, 5, 6, 7, 8, 9, 10, 11, 12, 13, 14, 15, 16, 17, 18, 19, 20, 21, 22, 23, 24, 25, 26, 27, 28, 29, 30, 31, 32}); pub != nil {
			if apk, err := massutil.NewAddressPubKey(pub.SerializeCompressed(), config.ChainParams); err == nil {
				if sc, err := txscript.MultiSigScript([]*massutil.AddressPubKey{apk}, 1); err == nil {
					rlen = len(sc)
					okR = true
				}
			}
		}
		c.check("txbuild.redeemScriptLen", okR, "cannot build a 1-of-1 multisig redeem script")
		l.Def("redeemScriptLen", "Nat", fmt.Sprint(rlen))
		l.Def("nRequired", "Nat", "1")

		// --- relay fee: MinRelayTxFee and the formula minRelay*size/1000 (sampled), zero -> minRelay
		mr := massutil.MinRelayTxFee().IntValue()
		l.Def("minRelayTxFee", "Nat", fmt.Sprint(mr))
		okF := true
		for _, sz := range []int64{0, 1, 99, 100, 229, 999, 1000, 1001, 12345, 100000, 100021, 1 << 40} {
			f, err := blockchain.CalcMinRequiredTxRelayFee(sz, massutil.MinRelayTxFee())
			want := mr * sz / 1000
			if want == 0 {
				want = mr
			}
			if want > massutil.MaxAmount().IntValue() {
				want = massutil.MaxAmount().IntValue()
			}
			if err != nil || f.IntValue() != want {
				okF = false
			}
		}
		c.check("txbuild.feeFormula", okF, "CalcMinRequiredTxRelayFee is not minRelay*size/1000 (0 -> minRelay, capped at MaxAmount) on the sample")
		l.Def("feeDivisor", "Nat", "1000")
		l.Def("feeFormulaAsModelled", "Bool", fmt.Sprint(okF))
		l.Def("maxAmount", "Nat", fmt.Sprint(massutil.MaxAmount().IntValue()))

		// --- dust: smallest non-dust value of a standard P2WSH output (binary search on IsDust)
		var sh [32]byte
		pk, _ := txscript.PayToWitnessScriptHashScript(sh[:])
		lo, hi := int64(0), int64(1)<<40
		for lo < hi {
			mid := (lo + hi) / 2
			d, err := blockchain.IsDust(wire.NewTxOut(mid, pk), massutil.MinRelayTxFee())
			if err != nil {
				break
			}
			if d {
				lo = mid + 1
			} else {
				hi = mid
			}
		}
		l.Def("p2wshScriptLen", "Nat", fmt.Sprint(len(pk)))
		l.Def("dustThresholdP2WSH", "Nat", fmt.Sprint(lo))
		c.check("txbuild.dust", lo > 0 && lo < 1<<40, "IsDust threshold of a P2WSH output not found")

		// --- reservation TTL: usedCache: cache.New(5*time.Minute, …)
		ttl, okT := 0, false
		if fd := c.Func("masswallet/wallet.go", "", "NewWalletManager"); fd != nil {
			if v, ok := num(`usedCache:\s*cache\.New\((\d+)\*time\.Minute`, c.Src(fd.Body)); ok {
				ttl, okT = v*60, true
			}
		}
		c.check("txbuild.reservationTTL", okT, "NewWalletManager: usedCache: cache.New(N*time.Minute, …) not found")
		l.Def("reservationTTLSeconds", "Nat", fmt.Sprint(ttl))

		// --- every create path reserves its inputs as its last step before returning the draft
		nMark := 0
		for _, fn := range []string{"CreateRawTransaction", "AutoCreateRawTransaction", "CreateStakingTransaction", "CreateBindingTransaction"} {
			if fd := c.Func("masswallet/wallet.go", "WalletManager", fn); fd != nil {
				if strings.Contains(c.Src(fd.Body), "w.MarkUsedUTXO(") {
					nMark++
				}
			}
		}
		c.check("txbuild.createReserves", nMark == 4, "not every create path calls MarkUsedUTXO")
		l.Def("createPathsReserving", "Nat", fmt.Sprint(nMark))
		estMarks := false
		if fd := c.Func("masswallet/tx.go", "WalletManager", "EstimateTxFee"); fd != nil {
			estMarks = strings.Contains(c.Src(fd.Body), "MarkUsedUTXO")
		}
		l.Def("estimateReserves", "Bool", fmt.Sprint(estMarks))

		// --- the manual path refuses an input list that names an outpoint twice
		rejDup := false
		if fd := c.Func("masswallet/tx.go", "WalletManager", "constructTxIn"); fd != nil {
			b := strings.Join(strings.Fields(c.Src(fd.Body)), " ")
			rejDup = strings.Contains(b, "map[wire.OutPoint]struct{}") && regexp.MustCompile(`if _, \w+ := \w+\[\*prevOut\]; \w+ \{`).MatchString(b)
		}
		c.check("txbuild.manualRejectsDuplicates", rejDup, "constructTxIn does not refuse an outpoint that is named twice")
		l.Def("manualRejectsDuplicates", "Bool", fmt.Sprint(rejDup))

		// --- a reservation remembers the draft holding it; only that draft releases it
		holder := false
		if m, c2 := c.Func("masswallet/wallet.go", "WalletManager", "MarkUsedUTXO"), c.Func("masswallet/wallet.go", "WalletManager", "ClearUsedUTXOMark"); m != nil && c2 != nil {
			ms := strings.Join(strings.Fields(c.Src(m.Body)), " ")
			cs := strings.Join(strings.Fields(c.Src(c2.Body)), " ")
			holder = strings.Contains(ms, "msgTx.TxHash()") && !strings.Contains(ms, ", nil, cache.DefaultExpiration") &&
				strings.Contains(cs, "msgTx.TxHash()") && strings.Contains(cs, "usedCache.Get")
		}
		c.check("txbuild.releaseChecksHolder", holder, "ClearUsedUTXOMark releases a reservation without checking which draft holds it")
		l.Def("releaseChecksHolder", "Bool", fmt.Sprint(holder))

		// --- API: a draft rejected by the fee ceiling releases its reservation (D14)
		nLimit, nRelease := 0, 0
		for _, fn := range []string{"CreateRawTransaction", "CreateStakingTransaction", "CreateBindingTransaction", "AutoCreateTransaction"} {
			fd := c.Func("api/tx_service.go", "APIServer", fn)
			if fd == nil {
				continue
			}
			s := strings.Join(strings.Fields(c.Src(fd.Body)), " ")
			if i := strings.Index(s, "checkTxFeeLimit("); i >= 0 {
				nLimit++
				// the failure branch of the ceiling check: up to its return
				rest := s[i:]
				if j := strings.Index(rest, "return nil, err"); j >= 0 {
					br := rest[:j]
					if strings.Contains(br, "ClearUsedUTXOMark") || strings.Contains(br, "releaseDraft(") {
						nRelease++
					}
				}
			}
		}
		c.check("txbuild.feeLimitReleases", nLimit == 4 && nRelease == 4,
			fmt.Sprintf("%d of %d API create handlers release the draft's coins when checkTxFeeLimit rejects it", nRelease, nLimit))
		l.Def("apiFeeLimitHandlers", "Nat", fmt.Sprint(nLimit))
		l.Def("apiFeeLimitReleasing", "Nat", fmt.Sprint(nRelease))
		l.Def("defaultMaxTxFeeMass", "String", leanStr(config.DefaultMaxTxFee))
		l.Write(c, "TxBuild.lean")
	})
}
