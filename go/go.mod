module verifharness

go 1.13

require (
	github.com/btcsuite/btcd v0.20.1-beta
	github.com/btcsuite/btcutil v0.0.0-20190425235716-9e5f4b9a998d
	github.com/golang/protobuf v1.4.2
	github.com/massnetorg/mass-core v0.0.0-20210809014450-d944e876e3fb
	github.com/syndtr/goleveldb v1.0.1-0.20210305035536-64b5b1c73954
	golang.org/x/crypto v0.0.0-20210322153248-0c34fe9e7dc2
	google.golang.org/grpc v1.24.0
	massnet.org/mass-wallet v0.0.0
)

replace massnet.org/mass-wallet => /repo
