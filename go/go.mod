module verifharness

go 1.13

require (
	github.com/massnetorg/mass-core v0.0.0-20210809014450-d944e876e3fb
	massnet.org/mass-wallet v0.0.0
)

replace massnet.org/mass-wallet => /repo
