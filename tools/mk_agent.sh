#!/bin/sh
# mk_agent.sh <name>: a /verif worktree on branch agent-<name> under /tmp/w/<name>, with the build output copied so the first lake build is incremental
n="$1"; d=/tmp/w/$n
cd /verif
git worktree add -q -b agent-$n $d || exit 1
cp -a lean/.lake $d/lean/.lake
cp -a lean/MW.lean lean/Driver.lean $d/lean/ 2>/dev/null
mkdir -p $d/lean/MW/Audit $d/evidence $d/replays
cp -a lean/MW/Audit/. $d/lean/MW/Audit/ 2>/dev/null
echo $d
