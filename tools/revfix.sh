#!/bin/sh
# usage: tools/revfix.sh <patch> <prop>...   reverse-apply a fix to /repo's working tree, run checks, restore.
set -u
P="$1"; shift
cd /repo && git apply -R "$P" || { echo "cannot reverse-apply $P"; exit 2; }
cd /verif
for c in "$@"; do ./check "$c" --tier quick 2>&1 | grep -E "VIOLATION|KNOWN|rc=" ; done
cd /repo && git checkout -- . && git status --short | grep -v "^??" ; cd /verif && git checkout -- evidence/ lean/MW/Gen/ 2>/dev/null; true
