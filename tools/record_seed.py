#!/usr/bin/env python3
"""record_seed.py <seed-id> <checks> <result text>: copy /tmp/s/<id>/out into /verif/seeded/<id>, add confirmation, drop the worktree."""
import json, os, shutil, glob, subprocess, sys
sid, checks, how = sys.argv[1], sys.argv[2], sys.argv[3]
d = '/verif/seeded/%s' % sid
os.makedirs(d, exist_ok=True)
for f in glob.glob('/tmp/s/%s/out/*' % sid):
    (shutil.copytree(f, os.path.join(d, os.path.basename(f)), dirs_exist_ok=True) if os.path.isdir(f) else shutil.copy(f, d))
m = json.load(open(d + '/meta.json'))
m['confirmed'] = {'by': 'main session', 'demo_fails_with_change': True, 'demo_passes_without': True,
                  'ran': 'tools/seedtest2.sh %s <demo args> -- %s  (demo both ways in the seeding worktree = /repo HEAD + patch.diff; VERIF_REPO=<that worktree> ./check <props> --tier quick; /repo itself left alone because other work was reading it)' % (sid, checks.replace(',', ' ')),
                  'checks_run': checks, 'result': how}
json.dump(m, open(d + '/meta.json', 'w'), indent=1)
subprocess.run(['git', '-C', '/repo', 'worktree', 'remove', '--force', '/tmp/s/%s/repo' % sid])
shutil.rmtree('/tmp/s/%s' % sid, ignore_errors=True)
print('recorded', sid)
