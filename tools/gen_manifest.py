#!/usr/bin/env python3
"""Regenerate /verif/MANIFEST.json from props/*.json (one file per claimed property)."""
import json, os, glob
root = os.path.join(os.path.dirname(os.path.abspath(__file__)), '..')
checks, engines = [], {}
for f in sorted(glob.glob(os.path.join(root, 'props', 'C*.json'))):
    c = json.load(open(f))
    if c.get('not_applicable'):
        continue
    pid = c['id']
    checks.append({
        'property_id': pid,
        'quick_cmd': './check %s --tier quick' % pid,
        'thorough_cmd': './check %s --tier thorough' % pid,
        'evidence_file': '/verif/evidence/%s.json' % pid,
        'replay_cmd_template': './check %s --replay {path}' % pid,
        'engine': '+'.join(c.get('engines', [])),
        'level_claimed': {'category': c.get('level', 'proof'), 'text': c.get('level_text', ''), 'design_ref': 'DESIGN.md section 6, ' + pid},
        'level_note': c.get('level_note', ''),
        'technique': c.get('technique', 'Lean 4 theorems about an executable model + differential correspondence (model vs /repo) + regenerated facts'),
    })
    for e in c.get('engines', []):
        engines.setdefault(e, []).append(pid)
na = json.load(open(os.path.join(root, 'props', 'not_applicable.json'))) if os.path.exists(os.path.join(root, 'props', 'not_applicable.json')) else []
claimed = {c['property_id'] for c in checks}
na = [x for x in na if x['property_id'] not in claimed]
hooks = json.load(open(os.path.join(root, 'props', 'hooks.json')))
m = {
    'version': 1,
    'setup_cmd': './setup.sh',
    'hooks': hooks,
    'engines': [{'name': e, 'path': '/verif/go/cmd/harness/eng_%s.go + /verif/lean/MW/Drv' % e, 'serves_properties': ps,
                 'kind_free_text': 'Go harness engine (real code, in-process) + Lean driver engine (model and spec), line protocol'} for e, ps in sorted(engines.items())],
    'checks': checks,
    'not_applicable': na,
    'notes': 'Technique family: machine-checked proof in Lean 4. Every check = regenerated facts (tie B) + lake build of the property theorems with axiom audit + differential correspondence of the executable model and spec against /repo built with -tags verif (tie A). See DESIGN.md.',
}
json.dump(m, open(os.path.join(root, 'MANIFEST.json'), 'w'), indent=1)
print('checks:', len(checks), 'not_applicable:', len(na))
