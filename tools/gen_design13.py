#!/usr/bin/env python3
"""Rewrite the per-property entries of DESIGN.md section 13 (from '### C01 — engine' to the end) from props/Cxx.json."""
import json, glob, re, os
root = os.path.dirname(os.path.dirname(os.path.abspath(__file__)))
d = open(root + '/DESIGN.md').read()
i = d.index('### C01 — engine')
out = []
for f in sorted(glob.glob(root + '/props/C??.json')):
    c = json.load(open(f))
    rc = sum(len(v) for v in c.get('required_classes', {}).values())
    out.append('### %s — engine `%s`, %d property theorems, %d regenerated facts, %d required generator classes\n\n*Level.* %s\n\n*Trusted / assumed.* %s\n'
               % (c['id'], '`, `'.join(c['engines']), len(c.get('theorems', [])), len(c.get('gen_facts', [])), rc,
                  c['level_text'].strip(), c.get('level_note', '').strip()))
open(root + '/DESIGN.md', 'w').write(d[:i] + '\n'.join(out) + '\n')
print('section 13 regenerated for', len(out), 'properties')
