#!/usr/bin/env python3
"""mk_seed_prompt.py <PROP> <suffix>: create /tmp/s/<PROP>-<suffix>/{repo worktree, PROMPT.txt} for an independent seeded-defect author."""
import json, os, subprocess, sys
pid, suf = sys.argv[1], sys.argv[2]
extra = sys.argv[3] if len(sys.argv) > 3 else ''
props = {json.loads(l)['id']: json.loads(l) for l in open('/verif/properties.jsonl')}
p = props[pid]
d = '/tmp/s/%s-%s' % (pid, suf)
os.makedirs(d, exist_ok=True)
wt = d + '/repo'
if not os.path.exists(wt):
    subprocess.run(['git', '-C', '/repo', 'worktree', 'add', '-q', '--detach', wt], check=True)
tmpl = '''You are a test engineer preparing a "seeded defect" for a mutation-style evaluation of a verification tool you know NOTHING about (and must not look for: do not read anything under /verif, /root/.vp or other /tmp/s/* or /tmp/w/* directories). The subject is the Go repository massnetorg/MassNet-wallet (a full-node wallet). You have your own scratch git worktree of it at {wt} (work only there; do NOT commit; do not touch /repo). The sandbox has no network; in every shell call that runs go: `export GOFLAGS=-mod=mod GOPROXY=off GOSUMDB=off GOTOOLCHAIN=local`. The dependency mass-core is readable under /root/go/pkg/mod/github.com/massnetorg/mass-core@v0.0.0-20210809014450-d944e876e3fb (do not modify it).

The property the defect must BREAK:

  [{pid}] {title}
  {statement}
  Quantifier: {qtext}

Task: write ONE small, realistic source change to MassNet-wallet (the kind of mistake a maintainer could make in a refactor or "optimisation": an off-by-one, a dropped or weakened guard, a wrong key/field/index, a swapped order of two steps, a missing cleanup on one path, two cooperating sites that each look fine alone, …) that breaks the property above while (1) everything still compiles (`go build ./...` must succeed), and (2) the existing test-suite still passes exactly as before: run `go test -vet=off -count=1 ./masswallet/... ./api/... ./config/... ./cmd/...` before and after your change and compare (note: on the unchanged tree api::TestPrepareCreateTx, config::ExampleCheck and config::TestSeed already fail and the api test binary panics, so no other api test result is produced — that is the baseline; nothing that passes today may fail). The change must need something SPECIFIC to manifest — a particular interleaving, a crash or fault at a particular point, a multi-step sequence of operations, an unusual input, or two cooperating sites — not something ordinary use would expose at once. Prefer changing the files the property is anchored in: {files}. Do not add dead code, do not touch tests, do not change build tags or files named *_verif.go, keep the diff small (ideally < 15 changed lines). {extra}

Then write a DEMONSTRATION: a Go test file (placed in the appropriate package directory of the worktree, name it zz_seeded_demo_test.go) or a small program that FAILS with your change and PASSES without it, exercising the property's observable behaviour through the package's real API (look at the existing *_test.go files of the package for how to set up wallets, chain databases, blocks and transactions). Verify both directions yourself (`git diff -- <source files> > p; git apply -R p` and back).

Deliver into the directory {out} (create it): `patch.diff` (output of `git diff` for the source change ONLY, without the demo file), the demo file(s), and `meta.json` with keys: property ("{pid}"), title (one line), what_it_breaks (2-3 sentences), needs_to_manifest (the specific input / sequence / schedule / fault), files_changed, demo (file name + exact `go test` arguments to run it, e.g. "-run TestX ./masswallet/" + observed result with and without the change), baseline_tests (the exact test command you ran and confirmation that the pass/fail set is unchanged). Leave the worktree with the change applied and the demo file present. Your final message: a five-line summary.'''
open(d + '/PROMPT.txt', 'w').write(tmpl.format(wt=wt, pid=pid, title=p['title'], statement=p['statement'], qtext=p['quantifier']['text'],
                                            files=', '.join(p['anchors']['files']), out=d + '/out', extra=extra))
print(d)
