#!/usr/bin/env python3
"""firstdiff.py ops impl model [n] : first disagreement of each history, summarized"""
import sys, collections
ops=open(sys.argv[1]).read().splitlines(); impl=open(sys.argv[2]).read().splitlines(); mod=open(sys.argv[3]).read().splitlines()
n=int(sys.argv[4]) if len(sys.argv)>4 else 10
start=0; shown=0; kinds=collections.Counter(); hist=0; bad=0
i=0
while i<len(ops):
    if ops[i].strip()=='reset':
        start=i; hist+=1; i+=1; continue
    m=mod[i].split('\t'); im=impl[i] if i<len(impl) else 'MISSING'
    dm = im!=m[0]; ds = len(m)>1 and im!=m[1]
    if dm or ds:
        bad+=1
        k=('model' if dm else '')+('+spec' if ds else '')+' '+ops[i].split()[1]
        kinds[k]+=1
        if shown<n:
            shown+=1
            print('--- history at line',start,'first diff at',i,':',ops[i]); print('   impl :',im); print('   model:',m[0]); print('   spec :',m[1] if len(m)>1 else None)
        # skip to next reset
        i+=1
        while i<len(ops) and ops[i].strip()!='reset': i+=1
        continue
    i+=1
print('histories',hist,'with diff',bad); print(kinds.most_common())
