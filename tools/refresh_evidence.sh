#!/bin/sh
# run the quick tier of every claimed check on the unchanged tree (sequentially; 4 at a time would fight over the build lock)
cd /verif
test -z "$(git -C /repo status --short | grep -v '^??')" || { echo "/repo has local modifications"; exit 2; }
fail=0
for p in $(python3 -c "import json; print(' '.join(c['property_id'] for c in json.load(open('MANIFEST.json'))['checks']))"); do
  ./check $p --tier quick 2>&1 | grep -E "VIOLATION|rc=" | tail -2
  python3 - "$p" <<'PY' || fail=1
import json,sys
e=json.load(open('/verif/evidence/%s.json'%sys.argv[1])); c=e['coverage']
assert c['obligations']==c['discharged'] and e.get('violations',0)==0, (sys.argv[1],'evidence not clean')
PY
done
exit $fail
