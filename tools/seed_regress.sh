#!/bin/sh
# seed_regress.sh [ids...]: mutation regression — apply every kept seeded change (seeded/<id>/patch.diff) to a scratch
# worktree of /repo's HEAD, run the quick tier of the check(s) recorded in its meta.json against it, and write one line per
# seed: id, check, rc, concrete|no-failing-input-found|MISSED, wall seconds.  Never touches /repo itself.
# usage: from a built /verif (or a worktree of it): tools/seed_regress.sh > seeded/REGRESSION.txt
ROOT=$(cd "$(dirname "$0")/.." && pwd)
cd "$ROOT"
W=/dev/shm/seedreg.$$
mkdir -p $W
ids="$@"; [ -z "$ids" ] && ids=$(ls seeded | grep -E '^C[0-9]+-[0-9]+$')
for id in $ids; do
  wt=$W/repo-$id
  git -C /repo worktree add -q --detach $wt 2>/dev/null || { echo "$id - - worktree-failed -"; continue; }
  if ! git -C $wt apply "$ROOT/seeded/$id/patch.diff" 2>/dev/null; then
    echo "$id - - patch-does-not-apply -"; git -C /repo worktree remove --force $wt; continue
  fi
  checks=$(python3 -c "import json;print(json.load(open('$ROOT/seeded/$id/meta.json')).get('confirmed',{}).get('checks_run','').replace(',',' '))")
  [ -z "$checks" ] && checks=$(echo $id | cut -d- -f1)
  for c in $checks; do
    t0=$(date +%s)
    out=$(VERIF_REPO=$wt ./check $c --tier quick 2>&1 | grep -E "^VIOLATION|rc=")
    t1=$(date +%s)
    rc=$(echo "$out" | grep -o "rc=[0-9]*" | tail -1)
    if echo "$out" | grep -q "^VIOLATION.*no-failing-input-found"; then kind=no-failing-input-found
    elif echo "$out" | grep -q "^VIOLATION"; then kind=concrete
    else kind=MISSED; fi
    echo "$id $c $rc $kind $((t1-t0))s"
  done
  git -C /repo worktree remove --force $wt
  git checkout -q -- lean/MW/Gen evidence 2>/dev/null
done
rm -rf $W
