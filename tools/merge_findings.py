#!/usr/bin/env python3
"""merge notes/*.findings.json into known_findings.json (dedupe on property + key)."""
import json, glob
kf = json.load(open('/verif/known_findings.json'))
seen = {(e.get('property'), e.get('key')) for e in kf}
for f in sorted(glob.glob('/verif/notes/*.findings.json')):
    try:
        es = json.load(open(f))
    except Exception as ex:
        print('skip', f, ex); continue
    if isinstance(es, dict): es = [es]
    for e in es:
        k = (e.get('property'), e.get('key'))
        if k in seen: continue
        seen.add(k); kf.append(e); print('added', e.get('property'), e.get('status'), str(e.get('what'))[:90])
json.dump(kf, open('/verif/known_findings.json', 'w'), indent=1)
