#!/bin/sh
# usage: seedtest2.sh <ID> <demo go test args...> -- <PROP>...
# like seedtest.sh but leaves /repo alone (other work may be reading it): the checks run with VERIF_REPO=<seed worktree>,
# which is /repo's HEAD + patch.diff (+ the demo test file, which the harness build ignores).
ID="$1"; shift
D=/tmp/s/$ID
export GOFLAGS=-mod=mod GOPROXY=off GOSUMDB=off GOTOOLCHAIN=local
DEMO=""; while [ "$1" != "--" ]; do DEMO="$DEMO $1"; shift; done; shift
cd $D/repo || exit 2
RH=$(git -C /repo rev-parse HEAD)
if [ "$(git rev-parse HEAD)" != "$RH" ]; then
  # /repo moved on (hook-only commits) since the seed was written: carry the uncommitted change over to /repo's HEAD
  git merge-base --is-ancestor HEAD $RH && git checkout -q --detach $RH || { echo "worktree not at /repo HEAD and cannot be advanced"; exit 2; }
fi
git diff --quiet -- . ':!*zz_seeded*' && { echo "worktree has no change applied"; exit 2; }
echo "== demo WITH change (expect FAIL)"; go test -vet=off -count=1 $DEMO 2>&1 | grep -E "^(ok|FAIL|---|panic)" | head -5
git apply -R $D/out/patch.diff || { echo "cannot reverse"; exit 2; }
echo "== demo WITHOUT change (expect ok)"; go test -vet=off -count=1 $DEMO 2>&1 | grep -E "^(ok|FAIL|---|panic)" | head -5
git apply $D/out/patch.diff
echo "== our checks with VERIF_REPO=$D/repo"
cd ${VERIF_ROOT:-/verif}; for c in "$@"; do /usr/bin/time -f "%es" env VERIF_REPO=$D/repo ./check $c --tier quick 2>&1 | grep -E "VIOLATION|KNOWN|rc=|^[0-9.]+s$"; done
cd ${VERIF_ROOT:-/verif} && git checkout -- evidence/ lean/MW/Gen/ 2>/dev/null; true
