#!/usr/bin/env python3
"""Regenerate lean/Driver.lean from the engine modules lean/MW/Drv/*.lean.
Each engine module MW.Drv.<X> provides `St`, `init : St`, `step : St → List String → St × String`.
The wire name of engine X is X lower-cased."""
import os, sys
root = os.path.join(os.path.dirname(os.path.abspath(__file__)), '..', 'lean')
engs = sorted(f[:-5] for f in os.listdir(os.path.join(root, 'MW', 'Drv')) if f.endswith('.lean'))
out = []
for e in engs: out.append(f'import MW.Drv.{e}')
out.append('open MW')
out.append('structure DSt where')
for e in engs: out.append(f'  s{e} : Drv.{e}.St := Drv.{e}.init')
out.append('')
out.append('def dstep (st : DSt) (line : String) : DSt × String :=')
out.append('  match (line.trimAscii.toString.splitOn " ").filter (· ≠ "") with')
for e in engs:
    out.append(f'  | "{e.lower()}" :: args => let (s, o) := Drv.{e}.step st.s{e} args; ({{ st with s{e} := s }}, o)')
out.append('  | ["reset"] => ({}, "ok")')
out.append('  | _ => (st, "bad-engine")')
out.append('''
partial def loop (hin hout : IO.FS.Stream) (st : DSt) : IO Unit := do
  let line ← hin.getLine
  if line.isEmpty then return ()
  let (st', o) := dstep st line
  hout.putStrLn o
  loop hin hout st'

def main : IO Unit := do
  let hin ← IO.getStdin
  let hout ← IO.getStdout
  loop hin hout {}
  hout.flush
''')
txt = '\n'.join(out)
# library root: every module under MW/ (so that `lake build` checks all proofs)
mods = []
for d, _, fs in os.walk(os.path.join(root, 'MW')):
    for f in fs:
        if f.endswith('.lean'):
            rel = os.path.relpath(os.path.join(d, f), root)[:-5].replace(os.sep, '.')
            if not rel.startswith('MW.Audit.') and not rel.startswith('MW.Scratch'):
                mods.append(rel)
rt = ''.join('import %s\n' % m for m in sorted(mods))
rp = os.path.join(root, 'MW.lean')
if not os.path.exists(rp) or open(rp).read() != rt:
    open(rp, 'w').write(rt)
p = os.path.join(root, 'Driver.lean')
if not os.path.exists(p) or open(p).read() != txt:
    open(p, 'w').write(txt)
