#!/bin/sh
# merge an agent branch into main, resolving the generated (untracked) files automatically
b="$1"
git merge --no-edit "$b" >/dev/null 2>&1
for f in lean/Driver.lean lean/MW.lean $(git status --short | grep -E "lean/MW/Audit/" | awk '{print $2}'); do git rm -q --cached "$f" 2>/dev/null; done
for f in $(git status --short | grep -E "^(UU|AA) evidence/" | awk '{print $2}'); do git checkout --theirs "$f"; git add "$f"; done
git status --short | grep -E "^(UU|AA|DU|UD|AU|UA) " && { echo "UNRESOLVED conflicts above"; exit 1; }
git commit -q -m "merge $b" && echo "merged $b"
