#!/bin/sh
# usage: seedtest.sh <ID> <demo go test args...> -- <PROP>...
# confirms the seeded change in its worktree (demo fails with / passes without), then runs our checks on /repo with it.
ID="$1"; shift
D=/tmp/s/$ID
export GOFLAGS=-mod=mod GOPROXY=off GOSUMDB=off GOTOOLCHAIN=local
DEMO=""; while [ "$1" != "--" ]; do DEMO="$DEMO $1"; shift; done; shift
cd $D/repo || exit 2
echo "== demo WITH change (expect FAIL)"; go test -vet=off -count=1 $DEMO 2>&1 | grep -E "^(ok|FAIL|---|panic)" | head -5
git apply -R $D/out/patch.diff || { echo "cannot reverse"; exit 2; }
echo "== demo WITHOUT change (expect ok)"; go test -vet=off -count=1 $DEMO 2>&1 | grep -E "^(ok|FAIL|---|panic)" | head -5
git apply $D/out/patch.diff
echo "== our checks on /repo with the change"
cd /repo && git apply $D/out/patch.diff || { echo "patch does not apply to /repo"; exit 2; }
cd /verif; for c in "$@"; do ./check $c --tier quick 2>&1 | grep -E "VIOLATION|KNOWN|rc="; done
cd /repo && git checkout -- . ; git status --short | grep -v "^??"; cd /verif && git checkout -- evidence/ lean/MW/Gen/ 2>/dev/null
