-- C19: the contracts (`call f outs ens` with non-empty `ens`) of the skeleton model, one line per (callee, contract).
-- Run from lean/: lake env lean scripts/C19Contracts.lean
import MW.Model.Api
open MW.Model.Api

partial def unV (n : Nat) : String :=
  if n = 0 then "" else unV (n / 256) ++ (Char.ofNat (n % 256)).toString

def showAtom : Atom → String
  | .nz x => s!"{unV x}≠0"
  | .z x => s!"{unV x}=0"
  | .lt i xs => s!"{unV i}<{unV xs}"
  | .le a xs => s!"{unV a}≤{unV xs}"
  | .ge xs k => s!"{unV xs}≥{k}"
  | .eqk x k => s!"{unV x}={k}"
  | .eqv a b => s!"{unV a}={unV b}"

def showClause (c : Clause) : String :=
  (if c.pre.isEmpty then "" else String.intercalate " ∧ " (c.pre.map showAtom) ++ " → ") ++
  String.intercalate " ∧ " (c.post.map showAtom)

def ctrCalls : Stmt → List (String × List Var × List Clause)
  | .seq a b => ctrCalls a ++ ctrCalls b
  | .call f o e => [(f, o, e)]
  | .ite _ t e => ctrCalls t ++ ctrCalls e
  | .loop _ _ _ b => ctrCalls b
  | .iter _ _ _ b => ctrCalls b
  | .scope b => ctrCalls b
  | _ => []

def allCtr : List (String × String × String × String) :=
  progs.flatMap (fun (p : String × Stmt) =>
    ((ctrCalls p.2).filter (fun q => !q.2.2.isEmpty && !q.1.startsWith "mark:")).map (fun q =>
      (q.1, String.intercalate "," (q.2.1.map unV), String.intercalate " ; " (q.2.2.map showClause), p.1)))

def keyOf (q : String × String × String × String) : String × String × String := (q.1, q.2.1, q.2.2.1)

#eval do
  let all := allCtr
  let keys := (all.map keyOf).eraseDups
  for k in keys do
    let users := ((all.filter (fun q => keyOf q == k)).map (fun (q : String × String × String × String) => (q.2.2.2.splitOn ":").getLast!)).eraseDups
    IO.println s!"{k.1}\t[{k.2.1}]\t{k.2.2}\t{String.intercalate "," users}"
  IO.println s!"-- {keys.length} distinct (callee, outs, contract) triples, {all.length} call sites with a contract, {(all.map (fun (q : String × String × String × String) => q.1)).eraseDups.length} distinct callees"
