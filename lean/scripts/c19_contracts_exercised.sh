#!/bin/bash
# C19: evidence/C19-contracts.json = per contract-carrying callee of the skeleton model, how often the runs of the
# quick-tier op stream (corpus + seeded, the same streams ./check C19 uses) reached a call node of it with the
# contract holding, counted only in histories on which the REAL code (harness exec) agreed with the driver line by line.
# Usage: lean/scripts/c19_contracts_exercised.sh [tier] [seed]      (from the worktree root; needs a built lean/ tree)
set -e
ROOT=$(cd "$(dirname "$0")/../.." && pwd)
TIER=${1:-quick}; SEED=${2:-1}
export GOFLAGS=-mod=mod GOPROXY=off GOSUMDB=off GOTOOLCHAIN=local
W=$(mktemp -d /dev/shm/c19ctr.XXXXXX)
trap 'rm -rf "$W"' EXIT
REPO=${VERIF_REPO:-/repo}
# the harness module builds against $REPO the same way ./check does (go.mod replace); reuse check's modfile logic
cd "$ROOT/go"
MODF=()
if [ "$REPO" != "/repo" ]; then sed "s#=> /repo#=> $REPO#" go.mod > "$W/go.mod"; cp go.sum "$W/go.sum"; MODF=("-modfile=$W/go.mod"); fi
go build "${MODF[@]}" -tags verif -o "$W/h" ./cmd/harness
mkdir -p "$W/gen" "$W/run"
REQ=$(python3 -c "import json;print(','.join(json.load(open('$ROOT/props/C19.json'))['required_classes']['seeded']))")
(cd "$W/gen" && VERIF_REQUIRED="$REQ" "$W/h" gen -engine api -prop C19 -tier "$TIER" -seed "$SEED" -out "$W/gen" >/dev/null)
: > "$W/ops.txt"
for f in "$ROOT"/corpus/api/C19-*.ops "$ROOT"/corpus/api/all-*.ops; do
  [ -f "$f" ] && { echo reset; sed -e '$a\' "$f"; } >> "$W/ops.txt"
done
cat "$W/gen/ops.txt" >> "$W/ops.txt"
(cd "$W/run" && "$W/h" exec -in "$W/ops.txt" -out "$W/impl.txt" >/dev/null)
cd "$ROOT/lean"
lake env lean --run scripts/C19ContractsExercised.lean "$W/ops.txt" "$W/impl.txt" > "$W/out.json"
python3 - "$W/out.json" "$ROOT/evidence/C19-contracts.json" "$TIER" "$SEED" <<'PY'
import json,sys
d=json.load(open(sys.argv[1])); d['tier']=sys.argv[3]; d['seed']=int(sys.argv[4])
d['what']='skeleton runs of the driver over the op stream (handlers on call, processConnectedBlock on notify, the tail of proccessReceivedTx on recvtx, asyncImport on impstep, asyncRemove on rmrun); a run is counted only in a history on which the real code (harness exec) agreed with the driver on every line'
# REQUIRED FLOOR: every class a / a- callee and every follower-path class b / d callee must be exercised at least once.
# Not in the floor: the two channel receives of `handle` (the harness calls processConnectedBlock directly; the
# unconfirmed path through handle needs a live netsync.SyncManager).
FOLLOWER_BD=['txmgr.NewTxRecordFromMsgTx','range wss','range mas','massutil.NewBlock(block).TxLoc()','prevTx.TxOut[i]',
 'w.syncStore.GetWalletStatus','w.syncStore.SyncedTo','addedExpireMempool','blocksToConnect.Front()','h.expiredMempool',
 'h.expiredMempool[height] or a new map','h.mempool','h.mempool, h.expiredMempool','maps made by the caller',
 'newTailBlock := newBest','range irrelevantTxs','rec of a relevant transaction','recInCurBlk[txIn.PreviousOutPoint.Hash]']
ce=d['contracts_exercised']
req=sorted(set([k for k,v in ce.items() if v['class'] in ('a','a-')]+FOLLOWER_BD))
missing=[k for k in req if k not in ce or ce[k]['reached']==0 or ce[k]['held']!=ce[k]['reached']]
d['floor_required']=req; d['floor_missing']=missing
d['floor_ok']=(not missing) and d['lines_disagreeing']==0 and d['runLog_vs_run_mismatch']==0
json.dump(d,open(sys.argv[2],'w'),indent=1)
print('handler runs %d (counted %d), follower/worker runs %d (counted %d), callees exercised %d / %d, disagreeing lines %d, floor %s %s'%(d['handler_runs'],d['handler_runs_counted'],d['follower_runs'],d['follower_runs_counted'],d['callees_exercised'],d['callees_with_contract'],d['lines_disagreeing'],'ok' if d['floor_ok'] else 'NOT MET',missing))
sys.exit(0 if d['floor_ok'] else 1)
PY
