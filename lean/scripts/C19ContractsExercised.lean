-- C19: per contract-carrying callee, how often the skeleton runs of an op stream reached a call node of it and how
-- often the oracle's answer (computed from the request and the ledger model) met the node's contract.
-- Usage (from lean/):  lake env lean --run scripts/C19ContractsExercised.lean OPS.txt [IMPL.txt]
-- With IMPL.txt (the outputs of the REAL code for the same op lines, `harness exec`) every op line is also compared:
-- a call is counted only inside a history (reset … reset) on which the real code agreed with the driver on EVERY line
-- (`call` → done, `res` → the same result class), i.e. the real handler went down the same abstract path.
-- Output: JSON on stdout (see tools: lean/scripts/c19_contracts_exercised.sh writes evidence/C19-contracts.json).
import MW.Drv.Api
import MW.Lemmas.ApiBacked
open MW MW.Model.Api MW.Drv.Api

abbrev Log := List (String × Nat × Nat)   -- callee, reached, held

def Log.bump (l : Log) (f : String) (held : Bool) : Log :=
  match l with
  | [] => [(f, 1, if held then 1 else 0)]
  | (g, r, h) :: rest => if g == f then (g, r + 1, if held then h + 1 else h) :: rest else (g, r, h) :: Log.bump rest f held

/-- `run` (MW.Model.ApiDsl) with a log of the contract-carrying call nodes it passes; same clauses, same order -/
def runLog (P : Prog) (O : Oracle) : Nat → Stmt → State → Log → Except Fault Flow × Log
  | 0, _, _, l => (.error .fuel, l)
  | _ + 1, .skip, σ, l => (.ok (.norm σ), l)
  | n + 1, .seq a b, σ, l =>
    match runLog P O n a σ l with
    | (.ok (.norm σ'), l') => runLog P O n b σ' l'
    | r => r
  | _ + 1, .site kind text req, σ, l =>
    match req with
    | none => (.ok (.norm σ), l)
    | some a => if a.eval σ then (.ok (.norm σ), l) else (.error (.panic kind text), l)
  | _ + 1, .call f outs ens, σ, l =>
    let σ' := setMany σ outs (O f σ)
    let held := ens.all (·.eval σ')
    let l' := if ens.isEmpty || f.startsWith "mark:" then l else l.bump f held
    if held then (.ok (.norm σ'), l') else (.error (.contract f), l')
  | _ + 1, .set x a, σ, l => (.ok (.norm (σ.set x (a.eval σ))), l)
  | n + 1, .ite c t e, σ, l => if c.eval σ then runLog P O n t σ l else runLog P O n e σ l
  | n + 1, .loop i cnt _ body, σ, l => runLog P O n (.iter i cnt 0 body) σ l
  | n + 1, .iter i cnt k body, σ, l =>
    if k < σ cnt then
      match runLog P O n body (σ.set i k) l with
      | (.ok (.norm σ'), l') => runLog P O n (.iter i cnt (k + 1) body) σ' l'
      | r => r
    else (.ok (.norm σ), l)
  | n + 1, .invoke f, σ, l =>
    match P f with
    | none => (.error (.unknownFn f), l)
    | some body =>
      match runLog P O n body σ l with
      | (.ok (.retd σ'), l') => (.ok (.norm σ'), l')
      | r => r
  | n + 1, .scope body, σ, l =>
    match runLog P O n body σ l with
    | (.ok (.retd σ'), l') => (.ok (.norm σ'), l')
    | r => r
  | _ + 1, .ret, σ, l => (.ok (.retd σ), l)

def outcome : Except Fault Flow → String
  | .ok (.norm σ) | .ok (.retd σ) => s!"v{vget σ "out"}"
  | .error (.contract f) => "contract " ++ f
  | .error (.panic k t) => s!"panic {k} {t}"
  | .error .fuel => "fuel"
  | .error (.unknownFn f) => s!"unknown {f}"

/-- the instrumented run of one request in driver state `st` (as MW.Drv.Api.classOf runs it) -/
def logCall (st : St) (m : String) (a : List String) (l : Log) : Log × Bool :=
  if m = "ImportWallet" then (l, true) else       -- class computed without a skeleton run (importClass)
  match (handlerKey m).bind fnOf with
  | none => (l, true)
  | some key =>
    let r : Req := ⟨m, a⟩
    let (res, l') := runLog prog (oracle st r) 100000 (.invoke key) (fun _ => 0) l
    (l', outcome res == outcome (run prog (oracle st r) 100000 (.invoke key) (fun _ => 0)))

/-- the instrumented run of one follower delivery (as MW.Drv.Api.baseStep runs it through MW.Model.ApiFollow) -/
def logDelivery (st : St) (args : List String) (l : Log) : Option (Log × Bool) :=
  let led := st.led
  match args with
  | ["notify", b] =>
    match AMap.get led.node.known b with
    | some blk =>
      let O := MW.Model.ApiFollow.blockOracle (MW.Model.ApiFollow.mkBPlan (MW.Drv.Led.ctx led) led.store led.vol blk)
      let s := Stmt.invoke Fn.processConnectedBlock
      let (res, l') := runLog prog O MW.Model.ApiFollow.folFuel s (fun _ => 0) l
      some (l', MW.Model.ApiFollow.folClass res == MW.Model.ApiFollow.folClass (run prog O MW.Model.ApiFollow.folFuel s (fun _ => 0)))
    | none => none
  | ["recvtx", t] =>
    match AMap.get led.txs t with
    | some tx =>
      let O := MW.Model.ApiFollow.recvOracle (MW.Drv.Led.ctx led) led.store led.vol tx
      let (res, l') := runLog prog O MW.Model.ApiFollow.folFuel recvTxTail (fun _ => 0) l
      some (l', MW.Model.ApiFollow.folClass res == MW.Model.ApiFollow.folClass (run prog O MW.Model.ApiFollow.folFuel recvTxTail (fun _ => 0)))
    | none => none
  | ["impstep", w] =>
    let O := MW.Model.ApiFollow.importOracle led.node led.own w
    let s := Stmt.invoke Fn.asyncImport
    let (res, l') := runLog prog O MW.Model.ApiFollow.folFuel s (fun _ => 0) l
    some (l', MW.Model.ApiFollow.folClass res == MW.Model.ApiFollow.folClass (run prog O MW.Model.ApiFollow.folFuel s (fun _ => 0)))
  | ["rmrun", _] =>
    let O := MW.Model.ApiFollow.removeOracle
    let s := Stmt.invoke Fn.asyncRemove
    let (res, l') := runLog prog O MW.Model.ApiFollow.folFuel s (fun _ => 0) l
    some (l', MW.Model.ApiFollow.folClass res == MW.Model.ApiFollow.folClass (run prog O MW.Model.ApiFollow.folFuel s (fun _ => 0)))
  | _ => none

def classLetter : Option MW.Lemmas.ApiBacked.CClass → String
  | some .model => "a" | some .modelOpen => "a-" | some .goLang => "b" | some .external => "c" | some .internal => "d"
  | none => "?"

def jstr (s : String) : String := "\"" ++ (s.replace "\\" "\\\\").replace "\"" "\\\"" ++ "\""

def main (args : List String) : IO Unit := do
  let opsPath := args.getD 0 ""
  let ops := (← IO.FS.lines opsPath).toList
  let impl : Option (List String) ← match args.drop 1 with
    | p :: _ => do pure (some (← IO.FS.lines (System.FilePath.mk p)).toList)
    | [] => pure none
  -- pass 1: run the driver, remember per line the model output and, per history, whether the real code agreed
  let mut st : St := init
  let mut total : Log := []
  let mut hist : Log := []
  let mut histOk := true
  let mut nCalls := 0
  let mut nCounted := 0
  let mut nDis := 0
  let mut nSem := 0
  let mut histCalls := 0
  let mut nDeliv := 0
  let mut nDelivCounted := 0
  let mut histDeliv := 0
  let mut i := 0
  let mergeLog := fun (t h : Log) => h.foldl (fun acc (e : String × Nat × Nat) =>
      match acc.find? (fun x => x.1 == e.1) with
      | some _ => acc.map (fun x => if x.1 == e.1 then (x.1, x.2.1 + e.2.1, x.2.2 + e.2.2) else x)
      | none => acc ++ [e]) t
  for line in ops do
    let toks := (line.trimAscii.toString.splitOn " ").filter (· ≠ "")
    match toks with
    | ["reset"] =>
      if histOk then total := mergeLog total hist; nCounted := nCounted + histCalls; nDelivCounted := nDelivCounted + histDeliv
      st := init; hist := []; histOk := true; histCalls := 0; histDeliv := 0
    | "api" :: rest =>
      -- the request the driver is about to run (same case analysis as MW.Drv.Api.step)
      let (pre, call) : St × Option (String × List String) := match rest with
        | "call" :: m :: a => (st, some (m, a))
        | "startcall" :: m :: a => let (l, _) := MW.Drv.Led.step st.led ["restart"]; ({ st with led := l, cur := none }, some (m, a))
        | "x" :: "call" :: m :: a => (st, some (m, a))
        | _ => (st, none)
      match call with
      | some (m, a) =>
        let (h', same) := logCall pre m a hist
        hist := h'; nCalls := nCalls + 1; histCalls := histCalls + 1
        if !same then nSem := nSem + 1
      | none =>
        match logDelivery st rest hist with
        | some (h', same) =>
          hist := h'; nDeliv := nDeliv + 1; histDeliv := histDeliv + 1
          if !same then nSem := nSem + 1
        | none => pure ()
      let (st', out) := step st rest
      st := st'
      match impl with
      | some im =>
        let mo := (out.splitOn "\t").headD ""
        if im.getD i "MISSING" != mo then histOk := false; nDis := nDis + 1
      | none => pure ()
    | _ => pure ()
    i := i + 1
  if histOk then total := mergeLog total hist; nCounted := nCounted + histCalls; nDelivCounted := nDelivCounted + histDeliv
  let table := MW.Lemmas.ApiBacked.classTable
  let row := fun (f : String) =>
    let e := (total.find? (fun x => x.1 == f)).getD (f, 0, 0)
    s!"  {jstr f}: \{\"class\": {jstr (classLetter (MW.Lemmas.ApiBacked.classOf f))}, \"reached\": {e.2.1}, \"held\": {e.2.2}}"
  let never := (table.filter (fun p => (total.find? (fun x => x.1 == p.1 && x.2.1 > 0)).isNone)).map (·.1)
  IO.println "{"
  IO.println s!" \"ops\": {ops.length}, \"handler_runs\": {nCalls}, \"handler_runs_counted\": {nCounted}, \"follower_runs\": {nDeliv}, \"follower_runs_counted\": {nDelivCounted}, \"compared_with_impl\": {impl.isSome}, \"lines_disagreeing\": {nDis}, \"runLog_vs_run_mismatch\": {nSem},"
  IO.println s!" \"callees_with_contract\": {table.length}, \"callees_exercised\": {table.length - never.length},"
  IO.println " \"contracts_exercised\": {"
  IO.println (",\n".intercalate (table.map (fun p => row p.1)))
  IO.println " },"
  IO.println s!" \"never_exercised\": [{", ".intercalate (never.map jstr)}]"
  IO.println "}"
