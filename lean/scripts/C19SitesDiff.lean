-- C19: which functions differ between the model's site table and the regenerated one. Run from lean/: lake env lean scripts/C19SitesDiff.lean
import MW.Model.Api
import MW.Gen.Sites
open MW.Model.Api
def show1 (l : List (String × String)) : String := String.intercalate "\n      " (l.map fun p => s!"{p.1}: {p.2}")
#eval do
  let gen := MW.Gen.Sites.table
  let mdl := siteTable
  for (k, v) in gen do
    match mdl.lookup k with
    | none => IO.println s!"MISSING in model: {k}\n  gen:\n      {show1 v}"
    | some m => if m != v then IO.println s!"DIFF {k}\n  gen:\n      {show1 v}\n  model:\n      {show1 m}"
  for (k, _) in mdl do
    if (gen.lookup k).isNone then IO.println s!"EXTRA in model: {k}"
  IO.println s!"order equal: {gen.map Prod.fst == mdl.map Prod.fst}"
