/- driver engine `iso` (C17a): isolated answers of a query at every block boundary, and the verdict of the
   schedule sweep under the read-transaction semantics the extractor found in masswallet/db/ldb
   (MW.Gen.Iso.readTxSnapshot). Everything else is delegated to the `led` engine. See
   go/cmd/harness/eng_iso.go for the op language. -/
import MW.Drv.Led
import MW.Model.Iso
import MW.Gen.Iso
import MW.Drv.Race
namespace MW.Drv.Iso
open MW MW.Model.Ledger MW.Model.Iso

abbrev St := Led.St
def init : St := Led.init

def splitOut (o : String) : String × String :=
  match o.splitOn "\t" with
  | [m, s] => (m, s)
  | _ => (o, o)

def validQuery (q : List String) : Bool :=
  match q with
  | ["bal", _, _] | ["abal", _, _] | ["shist", _, _] | ["bhist", _, _] => true
  | ["utxos", _] => true
  | ["build", _, _] | ["buildc", _, _] => true
  | _ => false

def isBuild (q : List String) : Bool :=
  match q with
  | ["build", _, _] | ["buildc", _, _] => true
  | _ => false

/-- the model's balance answer under an arbitrary schedule, used when the extractor reports that read
    transactions take NO snapshot: does some placement of the commits make `balanceQ` leave the set of
    isolated answers?  (coarse reads: tip height / coin scan / gross balance) -/
def liveEscapes (stores : List Store) (w : Wid) (mc : Nat) : Bool :=
  let vs (i : Nat) : Store := stores.getD i (stores.getLastD {})
  let n := stores.length - 1
  let iso := stores.map (fun s => walletBalance s w mc)
  -- all monotone schedules of three reads over versions 0..n
  (List.range (n + 1)).any fun a => (List.range (n + 1)).any fun b => (List.range (n + 1)).any fun c =>
    a ≤ b && b ≤ c &&
      (let v (j : Nat) : Nat := if j = 0 then a else if j = 1 then b else c
       let r := ((balanceQ w mc).runLive vs v 0).1
       !(iso.any (fun x => x == r)))

/-- AddressBalance(minConf, all addresses of the wallet): model (ScriptAddressBalance grouped by script
    hash) and spec (fold over the chain). Item: `A=total/spendable/wstaking/wbinding`. -/
def abal (st : St) (w : Wid) (mc : Nat) : String × String :=
  let mine := (st.issued.filter (fun x => x.2.1 = w)).map (·.1)
  let sync := st.store.syncedTo
  let cs := coinsOf st.store w
  let m := mine.map fun a =>
    let mineC := cs.filter (fun c => c.cred.sh = a && decide (confs sync c.blk.height ≥ mc))
    let ok := mineC.filter (fun c => decide (confs sync c.blk.height ≥ c.cred.maturity))
    let sum (l : List Coin) (k : UClass) := ((l.filter (fun c => c.cred.cls = k)).map (·.cred.amt)).sum
    s!"{a}={(mineC.map (·.cred.amt)).sum}/{sum ok .standard}/{sum ok .staking}/{sum ok .binding}"
  let tip := st.specChain.length - 1
  let l := Spec.Chain.coinsOfWallet (Spec.Chain.ledgerOf st.own st.specChain) w
  let sp := mine.map fun a =>
    let mineC := l.filter (fun c => c.addr = a && decide (tip + 1 - c.height ≥ mc) && decide (c.amt ≠ 0))
    let ok := mineC.filter (fun c => Spec.Chain.spendableAt st.p tip c)
    let sum (l : List Spec.Chain.SCoin) (k : UClass) := ((l.filter (fun c => Spec.Chain.kindOf c = k)).map (·.amt)).sum
    s!"{a}={(mineC.map (·.amt)).sum}/{sum ok .standard}/{sum ok .staking}/{sum ok .binding}"
  (Led.joinSorted m, Led.joinSorted sp)

/-- the queries of the led engine plus `abal` -/
def query (st : St) (q : List String) : String × String :=
  match q with
  | ["abal", w, c] =>
    match c.toNat? with
    | some mc => if st.wallets.contains w then abal st w mc else ("err", "err")
    | none => ("bad-op", "bad-op")
  | ["bhist", _, _] =>
    -- GetBindingHistoryDetail reads the deposit's transaction from the NODE's block at that height
    -- (FetchTxByLoc); while a reorganisation is announced but not yet delivered (exactly the situation of a
    -- sweep) the fold over the wallet's chain cannot predict that, so the isolated answers are the model's
    let r := splitOut (Led.step st q).2
    (r.1, r.1)
  | _ => splitOut (Led.step st q).2

def sweep (st : St) (blks : List String) (q : List String) (good : String) : St × String :=
  if !validQuery q || blks.length < 1 || blks.length > 2 then (st, "bad-op") else
  if blks.any (fun b => (AMap.get st.node.known b).isNone) then (st, "bad-op") else
  if !st.wallets.contains (q.getD 1 "") then (st, "bad-op") else
  -- a fresh WalletManager: volatile state as after a restart
  let st := (Led.step st ["restart"]).1
  let ans (st : St) : String × String := query st q
  let a0 := ans st
  let (st, notesM, notesS, ms, ss, stores) := blks.foldl (fun (acc : St × String × String × List String × List String × List Store) b =>
    let (st, nm, ns, ms, ss, stores) := acc
    let (st', o) := Led.step st ["notify", b]
    let (om, os) := splitOut o
    let a := ans st'
    (st', nm ++ (om.take 1).toString, ns ++ (os.take 1).toString, ms ++ [a.1], ss ++ [a.2], stores ++ [st'.store]))
    (st, "", "", [a0.1], [a0.2], [st.store])
  if isBuild q then
    (st, notesM ++ " build " ++ good ++ "\t" ++ notesS ++ " build " ++ good)
  else
    let verdictM :=
      if MW.Gen.Iso.readTxSnapshot then good
      else match q with
        | ["bal", w, c] => if liveEscapes stores w (c.toNat?.getD 0) then "ESCAPE" else good
        | _ => good
    (st, notesM ++ " " ++ "|".intercalate ms ++ " " ++ verdictM ++ "\t" ++ notesS ++ " " ++ "|".intercalate ss ++ " " ++ good)

def step (st : St) (args : List String) : St × String :=
  match args with
  | "sweep" :: blks :: q => sweep st (blks.splitOn ";") q "ok"
  | "at" :: blks :: pos :: q =>
    let ps := pos.splitOn ","
    if ps.any (fun p => p.toNat?.isNone) || ps.length > (blks.splitOn ";").length then (st, "bad-op")
    else sweep st (blks.splitOn ";") q "in"
  | ["abal", w, c] => let r := query st ["abal", w, c]; (st, r.1 ++ "\t" ++ r.2)
  | ["racerun", s, n] => (st, (Race.step {} ["run", s, n]).2)     -- C17(b), see MW.Drv.Race
  | ["concw", w, n] =>
    -- W concurrent writers x N committed transactions on the database driver: write transactions are serialised (C11
    -- commit_atomic / single writer; C17 lock table: the shared batch is only touched under the writer mutex), so all
    -- W*N commits are there afterwards, each exactly as written
    match w.toNat?, n.toNat? with
    | some w, some n => (st, s!"ok {w * n}\tok {w * n}")
    | _, _ => (st, "bad-op")
  | ["tx", _, _, _, outs] =>
    -- the harness refuses outputs to addresses that were never issued (strangers X* are created on demand)
    if (Led.parseList outs).any (fun o =>
        let a := (o.splitOn ":").headD ""
        a != "raw" && !a.startsWith "X" && (AMap.get st.own a).isNone) then (st, "err")
    else Led.step st args
  | _ => Led.step st args

end MW.Drv.Iso
