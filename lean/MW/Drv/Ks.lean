/- driver engine `ks`: keystore model + ledger model (per instance) behind the line protocol
   (see go/cmd/harness/eng_ks.go for the op language) -/
import MW.Model.Keystore
import MW.Spec.Keystore
import MW.Drv.Led
namespace MW.Drv.Ks
open MW MW.Model.Keystore

/-- toy key material: (mnemonic, passphrase, coin) and the derivation path below the account -/
structure K where
  mn : String
  pass : String
  coin : Nat
  path : List Nat
  deriving DecidableEq, Repr, Inhabited

/-- symbolic derivation: keys are paths; the address name is  W.<branch>.<index> -/
def toy : Scheme K K String where
  master mn pass coin := ⟨mn, pass, coin, []⟩
  ckdPriv k i := { k with path := k.path ++ [i] }
  ckdPub k i := { k with path := k.path ++ [i] }
  pubOf k := k
  idOf k := k.mn
  addrOf k := k.mn ++ "." ++ ".".intercalate (k.path.map toString)

def coin : Nat := 297
def privPass (w : String) : String := "Pass" ++ w ++ "x123456"

structure Inst where
  led : Led.St := Led.init
  ks : KS K K String := { pubPass := "Pubpass123456" }
  gap : Nat := 20
  opened : Bool := true
  deriving Inhabited

structure St where
  insts : AMap.T Nat Inst := []
  secrets : List String := []
  jsons : AMap.T String (Json × String) := []
  ever : List (String × String) := []          -- (wallet, address name) ever issued or restored anywhere
  deriving Inhabited

def init : St := {}

def getInst (st : St) (i : Nat) : Inst := (AMap.get st.insts i).getD {}
def setInst (st : St) (i : Nat) (x : Inst) : St := { st with insts := AMap.put st.insts i x }

def joinSorted := Led.joinSorted

/-- the chain index of the instance's node: has the script hash any history on the best chain? -/
def usedOn (x : Inst) (a : String) : Bool := Spec.Chain.addrUsed x.led.node.chain a

def errTok : Err → String
  | .gapLimit => "err-gap"
  | .dupSeed => "err-dup"
  | .badPass => "err-pass"
  | _ => "err"

def wordsOf (bits : Nat) : Option Nat :=
  if bits = 128 || bits = 160 || bits = 192 || bits = 224 || bits = 256 then some ((bits + bits / 32) / 11) else none

/-- fuel for the restore scan: no more used indexes than outputs on the chain -/
def scanFuel (x : Inst) (h1 h2 : Nat) : Nat :=
  let outs := (x.led.node.chain.map (fun b => (b.txs.map (fun t => t.outs.length)).sum)).sum
  (outs + 1) * (x.gap + 1) + h1 + h2 + x.gap + 2

/-- register a wallet with the ledger side the way CreateWallet / Import* do (status, balance) -/
def ledAddWallet (l : Led.St) (w : String) : Led.St :=
  { l with wallets := l.wallets ++ [w],
           store := { l.store with status := AMap.put l.store.status w ⟨none, false⟩,
                                   balance := AMap.put l.store.balance w 0 } }

def ledBind (l : Led.St) (w a : String) (stk change : Bool) : Led.St :=
  { l with own := AMap.put l.own a (w, change), issued := l.issued ++ [(a, w, stk)] }

def coordName (w : String) (b i : Nat) : String := s!"{w}.{b}.{i}"

/-- everything after a successful keystore import: ledger registration, address records, names -/
def finishImport (st : St) (i : Nat) (x : Inst) (ks' : KS K K String) (id : String) : St × String :=
  match AMap.get ks'.mgrs id with
  | none => (st, "err")
  | some m =>
    let l := ledAddWallet x.led id
    let l := m.addrs.foldr (fun e l => ledBind l id e.2.addr false (e.2.branch = internalBranch)) l
    let l := { l with store := { l.store with addrs := putImported l.store.addrs id m } }
    let ever := m.addrs.foldr (fun e ev => if ev.contains (id, e.2.addr) then ev else ev ++ [(id, e.2.addr)]) st.ever
    (setInst { st with ever := ever } i { x with led := l, ks := ks' }, s!"ok {id}")

def namesOf (m : Mgr K String) : List String := m.addrs.map (fun e => e.2.addr)

/-- impmn: the sentence is identified by its WORDS (strings.Fields); the white-space variant `sp` of the
    typed sentence does not enter the model -/
def impmn (st : St) (op is w he hi sp : String) : St × String :=
    match is.toNat?, he.toNat?, hi.toNat?, sp.toNat? with
    | some i, some he, some hi, some spn =>
      let x := getInst st i
      if !x.opened then (st, "err-closed") else
      if op ≠ "impmn" || spn > 8 then (st, "bad-op") else
      if !st.secrets.contains w then (st, "bad-op") else
      -- variants 6-8: the same words in another letter case are not words of the list: refused, nothing changes
      if spn > 5 then (st, "err\terr") else
      if x.led.vol.best.height ≠ 0 then (st, "unsupported") else
      match importMnemonic toy x.ks w (privPass w) coin he hi (usedOn x) x.gap (scanFuel x he hi) with
      | .error e => (st, errTok e ++ "\t" ++ errTok e)
      | .ok (ks', id) =>
        let (st', o) := finishImport st i x ks' id
        (st', o ++ "\t" ++ s!"ok {w}")
    | _, _, _, _ => (st, "bad-op")

def step (st : St) (args : List String) : St × String :=
  match args with
  | "i" :: is :: rest =>
    match is.toNat? with
    | none => (st, "bad-op")
    | some i =>
      let x := getInst st i
      if !x.opened then (st, "err-closed") else
      match rest with
      | "restart" :: _ => (st, "bad-op")
      | "wallet" :: _ => (st, "bad-op")
      | "addr" :: _ => (st, "bad-op")
      | [] => (st, "bad-op")
      | _ =>
        -- the harness refuses a transaction that pays an address name nobody ever issued
        let unknownOut : Bool := match rest with
          | ["tx", _, _, _, outs] =>
            (Led.parseList outs).any (fun o =>
              let a := (o.splitOn ":").headD ""
              a ≠ "raw" && !a.startsWith "X" && !(st.ever.any (fun e => e.2 = a)))
          | _ => false
        if unknownOut then (st, "err") else
        let (l, o) := Led.step x.led rest
        (setInst st i { x with led := l }, o)
  | [op, is] =>
    match is.toNat? with
    | none => (st, "bad-op")
    | some i =>
      let x := getInst st i
      if op = "restart" then
        match openKS toy x.ks.recs x.ks.pubPass with
        | .error _ => (setInst st i { x with opened := false }, "err")
        | .ok ks' =>
          let bh := (AMap.get x.led.store.sync x.led.store.syncedTo).getD "?"
          let l := { x.led with vol := { best := ⟨x.led.store.syncedTo, bh⟩ } }
          (setInst st i { x with ks := ks', led := l, opened := true }, "ok")
      else if !x.opened then (st, "err-closed")
      else if op = "lock" then (setInst st i { x with ks := clearPriv x.ks }, "ok")
      else if op = "ids" then
        (st, joinSorted (x.led.store.status.map (fun e =>
          e.1 ++ ":" ++ (if e.2.removed then "removing" else match e.2.synced with
            | none => "ready" | some _ => "importing"))))
      else (st, "bad-op")
  | [op, is, a] =>
    match is.toNat? with
    | none => (st, "bad-op")
    | some i =>
      let x := getInst st i
      if !x.opened then (st, "err-closed") else
      if op = "gap" then
        match a.toNat? with
        | some n => (setInst st i { x with gap := n }, "ok")
        | none => (st, "bad-op")
      else if op = "chpub" then
        match changePubPass x.ks x.ks.pubPass a with
        | .error e => (st, errTok e)
        | .ok ks' => (setInst st i { x with ks := ks' }, "ok")
      else if op = "impks" then
        match AMap.get st.jsons a with
        | none => (st, "bad-op")
        | some (j, w) =>
          if x.led.vol.best.height ≠ 0 then (st, "unsupported") else
          match importKeystore toy x.ks j (privPass w) coin (usedOn x) x.gap (scanFuel x j.ex j.inn) with
          | .error e => (st, errTok e ++ "\t" ++ errTok e)
          | .ok (ks', id) =>
            let (st', o) := finishImport st i x ks' id
            (st', o ++ "\t" ++ s!"ok {w}")
      else
      -- ops on a wallet of the instance
      let w := a
      let held := (AMap.get x.ks.mgrs w).isSome
      if op = "list" then
        match AMap.get x.ks.recs w, AMap.get x.ks.mgrs w with
        | some r, some m =>
          let hdr := s!"ex={r.exNum} in={r.inNum} "
          let sp := (List.range r.exNum).map (coordName w 0) ++ (List.range r.inNum).map (coordName w 1)
          (st, hdr ++ joinSorted (namesOf m) ++ "\t" ++ hdr ++ joinSorted sp)
        | _, _ => (st, "err\terr")
      else if op = "glist" then
        if !held then (st, "err\terr") else
        let mine := (x.led.issued.filter (fun e => e.2.1 = w))
        -- one entry per name: the class it was (last) issued in
        let names := mine.foldl (fun acc e => AMap.put acc e.1 e.2.2) ([] : AMap.T String Bool)
        let m := names.flatMap (fun (n, cls) => [false, true].filterMap (fun stk =>
          let f := Led.addrFlag x.led.store w n stk
          if f = "missing" || (stk ≠ cls && f ≠ "1") then none else some s!"{n}:{if stk then "stk" else "std"}:{f}"))
        -- spec: the standard form is used iff the chain pays the script hash in any form, the staking
        -- form iff it pays it in staking form; the form not issued is listed only when used
        let sp := names.flatMap (fun (n, cls) =>
          let uStd := Spec.Chain.addrUsed x.led.specChain n
          let uStk := x.led.specChain.any (fun b => b.txs.any (fun t => t.outs.any (fun o => o.addr = n && o.cls.isStaking)))
          (if !cls || uStd then [s!"{n}:std:{if uStd then 1 else 0}"] else []) ++
          (if cls || uStk then [s!"{n}:stk:{if uStk then 1 else 0}"] else []))
        (st, joinSorted m ++ "\t" ++ joinSorted sp)
      else if op = "found" then
        match AMap.get x.ks.mgrs w with
        | none => (st, "err\terr")
        | some m =>
          let mo := (namesOf m).filter (usedOn x)
          -- every external address ever issued / restored anywhere from this secret that has history
          -- here, and the change addresses this wallet holds
          let isExt (n : String) : Bool := (n.splitOn ".")[1]? = some "0"
          let ext := ((st.ever.filter (fun e => e.1 = w && isExt e.2)).map (·.2)).filter (usedOn x)
          let sp := ext ++ (mo.filter (fun n => !isExt n))
          (st, joinSorted mo ++ "\t" ++ joinSorted sp)
      else if op = "unlock" then
        match loadPriv x.ks w (privPass w) with
        | .error e => (st, errTok e)
        | .ok ks' => (setInst st i { x with ks := ks' }, "ok")
      else if op = "mnem" then
        match AMap.get x.ks.mgrs w, AMap.get x.ks.recs w with
        | some _, some r => (st, (if r.mnemonic = w then "ok same" else "ok DIFF") ++ "\tok same")
        | _, _ => (st, "err\terr")
      else (st, "bad-op")
  | [op, is, a, b] =>
    match is.toNat? with
    | none => (st, "bad-op")
    | some i =>
      let x := getInst st i
      if !x.opened then (st, "err-closed") else
      if op = "create" then
        let w := a
        match b.toNat? with
        | none => (st, "bad-op")
        | some bits =>
          if st.secrets.contains w then (st, "bad-op") else
          match wordsOf bits with
          | none => (st, "err\terr")
          | some n =>
            match newKeystore toy x.ks w (privPass w) coin x.gap with
            | .error e => (st, errTok e)
            | .ok (ks', id) =>
              let st := { st with secrets := st.secrets ++ [w] }
              let o := s!"ok {id} words={n}"
              (setInst st i { x with ks := ks', led := ledAddWallet x.led id }, o ++ "\t" ++ s!"ok {w} words={n}")
      else if op = "newaddr" then
        let w := a
        if b ≠ "std" && b ≠ "stk" then (st, "bad-op") else
        let stk : Bool := b = "stk"
        match useKeystore x.ks w with
        | .error _ => (st, "err-use\terr-use")
        | .ok ks1 =>
          -- spec: the next index of the external chain, allowed by the issuing rule
          let n := ((AMap.get ks1.recs w).map (·.exNum)).getD 0
          let sp :=
            if Spec.Keystore.mayIssue (fun k => usedOn x (Spec.Keystore.addrAt toy w (privPass w) coin 0 k)) x.gap n
            then s!"ok {coordName w 0 n} {b}" else "err-gap"
          match walletNewAddress toy ks1 x.led.store.addrs (usedOn x) x.gap stk with
          | .error e => (setInst st i { x with ks := ks1 }, errTok e ++ "\t" ++ sp)
          | .ok (ks', arecs, ma) =>
            let l := ledBind x.led w ma.addr stk false
            let l := { l with store := { l.store with addrs := arecs } }
            let ever := if st.ever.contains (w, ma.addr) then st.ever else st.ever ++ [(w, ma.addr)]
            (setInst { st with ever := ever } i { x with ks := ks', led := l }, s!"ok {ma.addr} {b}" ++ "\t" ++ sp)
      else if op = "export" then
        match exportKeystore x.ks a (privPass a) with
        | .error e => (st, errTok e)
        | .ok j =>
          -- spec: the file carries the number of receiving / change addresses the wallet holds, account 1
          let held := ((AMap.get x.ks.mgrs a).map namesOf).getD []
          let cnt (br : String) := (held.filter (fun n => (n.splitOn ".")[1]? = some br)).length
          ({ st with jsons := AMap.put st.jsons b (j, a) },
            s!"ok ex={j.ex} in={j.inn} acct={j.account}" ++ "\t" ++ s!"ok ex={cnt "0"} in={cnt "1"} acct=1")
      else if op = "sign" then
        if !(((AMap.get x.ks.mgrs a).map (fun m => (AMap.get m.addrs b).isSome)).getD false) then (st, "err\terr") else
        match signWith toy x.ks b (privPass a) with
        | .error _ => (st, "err\terr")
        | .ok (k, p) =>
          let mode := if ((AMap.get x.ks.mgrs a).map (·.hasPriv)).getD false then "priv" else "pub"
          (st, (if toy.pubOf k = p then "ok " ++ mode else "bad-sig") ++ "\t" ++ "ok " ++ mode)
      else (st, "bad-op")
  | [op, is, w, he, hi] => impmn st op is w he hi "0"
  | [op, is, w, he, hi, sp] => impmn st op is w he hi sp
  | _ => (st, "bad-op")

end MW.Drv.Ks
