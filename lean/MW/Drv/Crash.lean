/- driver engine `crash` (C06): persistence model behind the line protocol of go/cmd/harness/eng_crash.go.

   Division of labour with MW.Drv.Led:
   * every op this engine does not own is DELEGATED to `Led.step` on a view of the state (so every led op,
     present or future, works here unchanged, with its model and spec columns);
   * the ops with persistence semantics (`wallet`, `addr`, `notify`, `recvtx`, `restart`, `boot`) run the
     MW.Model.Persist operations for the STATE (store × volatile) and `Led.step` on the view for the output
     and the spec-side bookkeeping (`specChain`, `specPend`, `issued`); the two must agree on success /
     failure, otherwise the output is prefixed `MODEL-SPLIT` (never seen; it would show as a disagreement);
   * `crashall` enumerates every commit of the history as a crash point ON THE MODEL (crash = keep the
     store, boot, catch up, continue) and compares with the uninterrupted run.

   The spec side across a crash: `specChain` / `specPend` (MW.Spec.Pending) are functions of the event
   history the wallet has seen, i.e. of the PERSISTENT history — a crash or restart loses volatile state
   only and leaves them alone; the catch-up of `boot` is a sequence of chain moves (one per block). -/
import MW.Drv.Led
import MW.Model.Persist
import MW.Spec.Persist
namespace MW.Drv.Crash
open MW MW.Model.Ledger MW.Model.Persist

/-- state without history -/
structure Core where
  led : Led.St := {}                       -- params / txs / node / specChain / specPend / issued (store, vol, own, wallets: see `view`)
  P : PStore := {}
  V : PVol := {}
  names : AMap.T (Wid × Nat) Addr := []    -- symbolic name of the address at (wallet, index)
  commits : Nat := 1                       -- NewWalletManager of the fresh environment
  imports : List Wid := []                 -- external wallets prepared by `mkimport`
  deriving Inhabited

def Core.env (c : Core) : Env :=
  { p := c.led.p, node := c.led.node,
    derive := fun w n => (AMap.get c.names (w, n)).getD (w ++ "/" ++ toString n) }

/-- the Led view: store and volatile state of the persistence model, keystore view from the key cache -/
def Core.view (c : Core) : Led.St :=
  { c.led with store := c.P.led, vol := c.V.led, own := ownOf c.V.keys, wallets := walletsOf c.V.keys }

/-- take over what `Led.step` maintains besides store / vol / own / wallets -/
def Core.absorb (c : Core) (l : Led.St) : Core :=
  { c with led := { l with store := c.led.store, vol := c.led.vol, own := c.led.own, wallets := c.led.wallets } }

/-- storage-call counts are irrelevant without faults -/
def nc : Nat := 1

def busy (c : Core) : Bool := c.P.led.status.any (fun e => e.2.removed || e.2.synced.isSome)

def caughtUp (c : Core) : Bool :=
  let node := c.led.node
  let tipH := node.tipHeight
  match node.chain.getLast? with
  | some tip => c.P.led.syncedTo == tipH && c.V.led.best.height == tipH && c.V.led.best.hash == tip.id && !busy c
  | none => false

def isObservation (a : List String) : Bool :=
  match a with
  | op :: _ => ["synced", "bal", "abal", "utxos", "sbu", "pend", "addrs", "shist", "bhist", "hsbu", "shistp", "bhistp",
                "wallets", "pins", "pcred", "pgame", "glog", "wseq"].contains op
  | [] => false

/-- Use(w) of the harness: UseWallet unless already current -/
def useW (c : Core) (w : Wid) : Option Core :=
  if c.V.cur = some w then some c else
  match useWallet c.P c.V w with
  | some v => some { c with V := v }
  | none => none

/-- model column of a driver output -/
def modelCol (out : String) : String := (out.splitOn "\t").headD out

/-- the persistence model and the ledger driver must agree on success / failure of an operation -/
def agree (ok : Bool) (out : String) : String :=
  if (modelCol out == "ok") == ok then out else "MODEL-SPLIT " ++ out

/-- one op on the core; third component: the persistent states committed DURING the op, oldest first
    (crash points), each as the core the restarted process would find. -/
def stepCore (c : Core) (args : List String) : Core × String × List Core :=
  match args with
  | ["wallet", w] =>
    let (l', out) := Led.step c.view args
    let r := (opCreate nc nc nc w).run none c.P c.V
    if r.ok then
      let c' := { (c.absorb l') with P := r.P, V := r.V, commits := c.commits + r.commits }
      (c', agree true out, [c'])
    else ({ c with V := r.V }, agree false out, [])
  | ["addr", w, a, cl] =>
    match useW c w with
    | none => (c, agree false (Led.step c.view args).2, [])
    | some c1 =>
      match AMap.get c1.P.ks w with
      | none => (c1, agree false (Led.step c1.view args).2, [])
      | some r0 =>
        let stk : Bool := cl == "stk"
        -- the issued address gets its symbolic name unless that index was named before
        let names := if (AMap.get c1.names (w, r0.next)).isSome then c1.names else AMap.put c1.names (w, r0.next) a
        let c2 := { c1 with names := names }
        let (l', out) := Led.step c2.view args
        let r := (opNewAddr c2.env nc nc nc stk).run none c2.P c2.V
        if r.ok then
          let c' := { (c2.absorb l') with P := r.P, V := r.V, commits := c2.commits + r.commits }
          (c', agree true out, [c'])
        else ({ c2 with V := r.V }, agree false out, [])
  | ["notify", b] =>
    match AMap.get c.led.node.known b with
    | none => (c, "bad-op", [])
    | some blk =>
      let (l', out) := Led.step c.view args
      let r := (opBlock c.env nc blk).run none c.P c.V
      let c' := { (c.absorb l') with P := r.P, V := r.V, commits := c.commits + r.commits }
      (c', agree r.ok out, if r.ok then [c'] else [])
  | ["recvtx", t] =>
    match AMap.get c.led.txs t with
    | none => (c, "bad-op", [])
    | some tx =>
      let (l', out) := Led.step c.view args
      let r := recvTx c.env nc nc none tx c.P c.V
      let c' := { (c.absorb l') with P := r.P, V := r.V, commits := c.commits + r.commits }
      (c', agree r.ok out, if r.commits > 0 then [c'] else [])
  | ["restart"] =>
    -- NewWalletManager only: one (empty) Update, fresh volatile state, no Start; the spec side is untouched
    let c' := { c with V := bootVol c.P, commits := c.commits + 1 }
    (c', "ok", [c'])
  | ["boot"] =>
    -- crash points inside the catch-up: the store after each caught-up block
    let rec mids (fuel : Nat) (cur : Core) (acc : List Core) : Core × Bool × List Core :=
      match fuel with
      | 0 => (cur, true, acc)
      | fuel + 1 =>
        let h := cur.P.led.syncedTo + 1
        if h > cur.led.node.tipHeight then (cur, true, acc) else
        match cur.led.node.blockAt h with
        | none => (cur, false, acc)
        | some blk =>
          let r := (opBlock cur.env nc blk).run none cur.P cur.V
          if r.ok then
            let l' := (Led.step cur.view ["notify", blk.id]).1
            let nx := { (cur.absorb l') with P := r.P, V := r.V, commits := cur.commits + r.commits }
            mids fuel nx (acc ++ [nx])
          else (cur, false, acc)
    let c0 := { c with V := bootVol c.P, commits := c.commits + 1 }
    let r := start c0.env nc c0.P c0.V
    let hasReady := !(readyWallets c0.P.led (walletsOf c0.V.keys)).isEmpty
    if !hasReady && c0.led.node.tipHeight > Gen.Updates.ffGap then
      -- fast-forward path (no ready wallet: nothing can be pending): the wallet is told the node's chain;
      -- no intermediate crash points recorded on the model side
      let led' := if r.ok then { c0.led with specChain := c0.led.node.chain } else c0.led
      let c' := { c0 with P := r.P, V := { r.V with tasks := [] }, commits := c0.commits + r.commits, led := led' }
      (c', (if r.ok then "ok" else "err") ++ "\tok", [c0, c'])
    else
      -- the catch-up is one chain move per block (the spec side follows through `Led.step notify`)
      let (cl, okm, acc) := mids (c0.led.node.tipHeight + 1) c0 [c0]
      -- SPEC of a restart: afterwards the wallet follows the node's chain — also when the block it was
      -- synced to has left that chain at the same or a lower height (no block above it to catch up with)
      let l := cl.led
      let same := l.specChain.length == l.node.chain.length &&
        (l.specChain.zip l.node.chain).all (fun p => p.1.id == p.2.id)
      let l' := if same then l else
        { l with specPend := Spec.Pending.onChainMoved (Led.specEnv cl.view) l.specChain l.node.chain l.specPend,
                 specChain := l.node.chain }
      let c' := { cl with P := r.P, V := { r.V with tasks := [] }, commits := c0.commits + r.commits, led := l' }
      -- spec: the wallet opens and its unfinished work is queued again
      (c', (if r.ok && okm then "ok" else "err") ++ "\tok", acc)
  | ["commits"] => (c, toString c.commits, [])
  -- histories with background work (import / removal): the ledger model does not cover them; their
  -- observations are `rec` ops that only the implementation's twin-vs-crash comparison looks at
  | "rec" :: _ => (c, "ok", [])
  | ["mkimport", w, _] =>
    if c.imports.contains w then (c, "err", []) else ({ c with imports := c.imports ++ [w] }, "ok", [])
  | ["import", w] => (c, if c.imports.contains w then "ok" else "err", [])
  | ["importstep", w] | ["remove", w] | ["removerun", w] =>
    (c, if c.imports.contains w || (AMap.get c.P.ks w).isSome then "ok" else "bad-op", [])
  | _ =>
    -- everything else belongs to the ledger driver (node ops, queries, and whatever it learns later);
    -- should such an op change store or volatile state, the persistence state follows
    let (l', out) := Led.step c.view args
    ({ (c.absorb l') with P := { c.P with led := l'.store }, V := { c.V with led := l'.vol } }, out, [])

structure St where
  core : Core := {}
  hist : Array (List String) := #[]
  outs : Array String := #[]
  cmp : Array Bool := #[]
  crashPts : List (Nat × Core × Bool) := [(0, {}, true)]  -- (first op the restarted process sees, store found, quiet?)
  deriving Inhabited

def init : St := {}

def pendingObs (a : List String) : Bool :=
  match a with
  | op :: _ => ["sbu", "pend", "hsbu", "shistp", "bhistp", "pins", "pcred", "pgame"].contains op
  | [] => false

/-- crash at the persistent state `c` reached during op `i`: boot on the node as it is then, continue
    with ops i …, compare every comparable observation with the uninterrupted run. Along the crashed
    path every observation must also satisfy ITS OWN specification (model column = spec column: the
    pending spec is a function of the event history this run has seen).
    `quiet` = the follower had caught up with the node when the operation containing the commit was
    over; for the other crash points only the confirmed state is compared with the uninterrupted run
    (see eng_crash.go / notes/C06.md). -/
def replay (st : St) (i : Nat) (c : Core) (quiet : Bool) : Option String :=
  let (c1, bootOut, _) := stepCore c ["boot"]
  if modelCol bootOut != "ok" then some s!"op={i} boot-failed" else
  -- the notification queue is volatile: blocks the node announced before the crash (`submit` at an
  -- op < i) are not announced again; Start's catch-up is how the restarted wallet learns about them
  let announced0 : List String := ((st.hist.toList.take i).zip (st.outs.toList.take i)).filterMap (fun p =>
    match p.1 with
    | ["submit", b] => if modelCol p.2 == "ok" then some b else none
    | _ => none)
  let rec go (fuel : Nat) (j : Nat) (cur : Core) (announced : List String) : Option String :=
    match fuel with
    | 0 => none
    | fuel + 1 =>
      if j ≥ st.hist.size then none else
      let a := st.hist[j]!
      let announced := match a with | ["submit", b] => announced.filter (· != b) | _ => announced
      let lost := match a with | ["notify", b] => announced.contains b | ["rec", "notify", b] => announced.contains b | _ => false
      if lost then go fuel (j + 1) cur announced else
      let (nx, out, _) := stepCore cur a
      let cols := out.splitOn "\t"
      if isObservation a && cols.length == 2 && cols[0]! != cols[1]! then
        some s!"op={i} at={j}:{"_".intercalate a} crashed-run model={cols[0]!} spec={cols[1]!}"
      else if !quiet && pendingObs a then go fuel (j + 1) nx announced
      else if st.cmp[j]! && out != st.outs[j]! then
        some s!"op={i} at={j}:{"_".intercalate a} twin={st.outs[j]!} crash={out}"
      else go fuel (j + 1) nx announced
  go (st.hist.size + 1) i c1 announced0

def step (st : St) (args : List String) : St × String :=
  match args with
  | ["crashall", _d, _m] =>
    let res := st.crashPts.findSome? (fun pc => replay st pc.1 pc.2.1 pc.2.2)
    (st, match res with | none => "ok\tok" | some d => "diff " ++ d ++ "\tok")
  | ["commits"] => (st, toString st.core.commits)
  | _ =>
    let i := st.hist.size
    let (c', out0, pts) := stepCore st.core args
    -- the invariants the partial theorems assume (BestInv, SyncWf, KsSeq, exact key cache) are
    -- evaluated on every state of every history: a violation shows up as a disagreement
    let inv := Spec.Persist.bestInvB c'.P c'.V && Spec.Persist.ksSeqB c'.P && decide (c'.V.keys = c'.P.ks)
    let out := if inv then out0 else "MODEL-INVARIANT-BROKEN " ++ out0
    ({ core := c', hist := st.hist.push args, outs := st.outs.push out,
       cmp := st.cmp.push (isObservation args && caughtUp c'),
       crashPts := st.crashPts ++ pts.map (fun p => (i + 1, p, caughtUp c')) },
     out)

end MW.Drv.Crash
