/- driver engine `crash` (C06): persistence model behind the line protocol of go/cmd/harness/eng_crash.go.
   Node ops and queries are delegated to MW.Drv.Led on a view of the state; wallet operations run the
   MW.Model.Persist operations; `crashall` enumerates every commit of the history as a crash point ON THE
   MODEL (crash = keep the store, boot, catch up, continue) and compares with the uninterrupted run. -/
import MW.Drv.Led
import MW.Model.Persist
import MW.Spec.Persist
namespace MW.Drv.Crash
open MW MW.Model.Ledger MW.Model.Persist

/-- state without history -/
structure Core where
  led : Led.St := {}                       -- used for params / txs / node / specChain / issued names only
  P : PStore := {}
  V : PVol := {}
  names : AMap.T (Wid × Nat) Addr := []    -- symbolic name of the address at (wallet, index)
  commits : Nat := 1                       -- NewWalletManager of the fresh environment
  imports : List Wid := []                 -- external wallets prepared by `mkimport`
  deriving Inhabited

def Core.env (c : Core) : Env :=
  { p := c.led.p, node := c.led.node,
    derive := fun w n => (AMap.get c.names (w, n)).getD (w ++ "/" ++ toString n) }

/-- the Led view used for queries -/
def Core.view (c : Core) : Led.St :=
  { c.led with store := c.P.led, vol := c.V.led, own := ownOf c.V.keys, wallets := walletsOf c.V.keys }

/-- storage-call counts are irrelevant without faults -/
def nc : Nat := 1

def busy (c : Core) : Bool := c.P.led.status.any (fun e => e.2.removed || e.2.synced.isSome)

def caughtUp (c : Core) : Bool :=
  let node := c.led.node
  let tipH := node.tipHeight
  match node.chain.getLast? with
  | some tip => c.P.led.syncedTo == tipH && c.V.led.best.height == tipH && c.V.led.best.hash == tip.id && !busy c
  | none => false

def isObservation (a : List String) : Bool :=
  match a with
  | op :: _ => ["synced", "bal", "abal", "utxos", "sbu", "pend", "addrs", "shist", "bhist", "hsbu", "shistp", "bhistp", "wallets"].contains op
  | [] => false

/-- Use(w) of the harness: UseWallet unless already current -/
def useW (c : Core) (w : Wid) : Option Core :=
  if c.V.cur = some w then some c else
  match useWallet c.P c.V w with
  | some v => some { c with V := v }
  | none => none

/-- one op on the core; third component: the persistent states committed DURING the op, oldest first
    (crash points), each as the core the restarted process would find. -/
def stepCore (c : Core) (args : List String) : Core × String × List Core :=
  match args with
  | ["wallet", w] =>
    let r := (opCreate nc nc nc w).run none c.P c.V
    if r.ok then
      let c' := { c with P := r.P, V := r.V, commits := c.commits + r.commits }
      (c', "ok", [c'])
    else ({ c with V := r.V }, "err", [])
  | ["addr", w, a, cl] =>
    match useW c w with
    | none => (c, "err", [])
    | some c1 =>
      match AMap.get c1.P.ks w with
      | none => (c1, "err", [])
      | some r0 =>
        let stk : Bool := cl == "stk"
        -- the issued address gets its symbolic name unless that index was named before
        let names := if (AMap.get c1.names (w, r0.next)).isSome then c1.names else AMap.put c1.names (w, r0.next) a
        let c2 := { c1 with names := names }
        let r := (opNewAddr c2.env nc nc nc stk).run none c2.P c2.V
        if r.ok then
          let c' := { c2 with P := r.P, V := r.V, commits := c2.commits + r.commits,
                              led := { c2.led with issued := c2.led.issued ++ [(c2.env.derive w r0.next, w, stk)] } }
          (c', "ok", [c'])
        else ({ c2 with V := r.V }, "err", [])
  | ["notify", b] =>
    match AMap.get c.led.node.known b with
    | none => (c, "bad-op", [])
    | some blk =>
      let r := (opBlock c.env nc blk).run none c.P c.V
      let onChain : Bool := match c.led.node.blockAt blk.height with | some x => x.id == blk.id | none => false
      let specChain := if onChain then c.led.node.chain.take (blk.height + 1) else c.led.specChain
      let c' := { c with P := r.P, V := r.V, commits := c.commits + r.commits, led := { c.led with specChain := specChain } }
      (c', (if r.ok then "ok" else "err") ++ "\t" ++ (if onChain then "ok" else "err"), if r.ok then [c'] else [])
  | ["recvtx", t] =>
    match AMap.get c.led.txs t with
    | none => (c, "bad-op", [])
    | some tx =>
      let r := recvTx c.env nc nc none tx c.P c.V
      let c' := { c with P := r.P, V := r.V, commits := c.commits + r.commits }
      (c', if r.ok then "ok" else "err", if r.commits > 0 then [c'] else [])
  | ["restart"] =>
    -- NewWalletManager only: one (empty) Update, fresh volatile state, no Start
    let c' := { c with V := bootVol c.P, commits := c.commits + 1 }
    (c', "ok", [c'])
  | ["boot"] =>
    -- crash points inside the catch-up: the store after each caught-up block
    let rec mids (fuel : Nat) (cur : Core) (acc : List Core) : Core × Bool × List Core :=
      match fuel with
      | 0 => (cur, true, acc)
      | fuel + 1 =>
        let h := cur.P.led.syncedTo + 1
        if h > cur.led.node.tipHeight then (cur, true, acc) else
        match cur.led.node.blockAt h with
        | none => (cur, false, acc)
        | some blk =>
          let r := (opBlock cur.env nc blk).run none cur.P cur.V
          if r.ok then
            let nx := { cur with P := r.P, V := r.V, commits := cur.commits + r.commits }
            mids fuel nx (acc ++ [nx])
          else (cur, false, acc)
    let c0 := { c with V := bootVol c.P, commits := c.commits + 1 }
    let r := start c0.env nc c0.P c0.V
    let c' := { c0 with P := r.P, V := { r.V with tasks := [] }, commits := c0.commits + r.commits,
                        led := { c0.led with specChain := if r.ok then c0.led.node.chain else c0.led.specChain } }
    let hasReady := !(readyWallets c0.P.led (walletsOf c0.V.keys)).isEmpty
    if !hasReady && c0.led.node.tipHeight > Gen.Updates.ffGap then
      -- fast-forward path: no intermediate crash points recorded on the model side
      (c', (if r.ok then "ok" else "err") ++ "\tok", [c0, c'])
    else
      let (_, _, acc) := mids (c0.led.node.tipHeight + 1) c0 [c0]
      -- spec: the wallet opens and its unfinished work is queued again
      (c', (if r.ok then "ok" else "err") ++ "\tok", acc)
  | ["commits"] => (c, toString c.commits, [])
  -- histories with background work (import / removal): the ledger model does not cover them; their
  -- observations are `rec` ops that only the implementation's twin-vs-crash comparison looks at
  | "rec" :: _ => (c, "ok", [])
  | ["mkimport", w, _] =>
    if c.imports.contains w then (c, "err", []) else ({ c with imports := c.imports ++ [w] }, "ok", [])
  | ["import", w] => (c, if c.imports.contains w then "ok" else "err", [])
  | ["importstep", w] | ["remove", w] | ["removerun", w] =>
    (c, if c.imports.contains w || (AMap.get c.P.ks w).isSome then "ok" else "bad-op", [])
  | "params" :: _ | "tx" :: _ | "block" :: _ | "submit" :: _ | ["detach"] =>
    let (l', out) := Led.step c.led args
    ({ c with led := l' }, out, [])
  | op :: w :: rest =>
    if isObservation args then
      -- observations with a wallet argument go through Use(w)
      if ["bal", "abal", "utxos", "sbu", "addrs", "shist", "bhist", "hsbu", "shistp", "bhistp"].contains op then
        match useW c w with
        | none => (c, if ["bal", "utxos", "addrs", "shist", "bhist"].contains op then "err\terr" else "err", [])
        | some c1 =>
          let (_, out) := Led.step c1.view (op :: w :: rest)
          (c1, out, [])
      else
        let (_, out) := Led.step c.view args
        (c, out, [])
    else (c, "bad-op", [])
  | [_] =>
    if isObservation args then
      let (_, out) := Led.step c.view args
      (c, out, [])
    else (c, "bad-op", [])
  | _ => (c, "bad-op", [])

structure St where
  core : Core := {}
  hist : Array (List String) := #[]
  outs : Array String := #[]
  cmp : Array Bool := #[]
  crashPts : List (Nat × Core × Bool) := [(0, {}, true)]  -- (first op the restarted process sees, store found, quiet?)
  deriving Inhabited

def init : St := {}

/-- crash at the persistent state `c` reached during op `i`: boot on the node as it is then, continue
    with ops i+1 …, compare every comparable observation with the uninterrupted run -/
def pendingObs (a : List String) : Bool :=
  match a with
  | op :: _ => ["sbu", "pend", "hsbu", "shistp", "bhistp"].contains op
  | [] => false

/-- `quiet` = the follower had caught up with the node when the operation containing the commit was
    over; for the other crash points only the confirmed state is compared (see eng_crash.go) -/
def replay (st : St) (i : Nat) (c : Core) (quiet : Bool) : Option String :=
  let c0 := { c with V := bootVol c.P }
  let r := crash c0.env nc c0.P
  if !r.ok then some s!"op={i} boot-failed" else
  let c1 := { c0 with P := r.P, V := { r.V with tasks := [] }, led := { c0.led with specChain := c0.led.node.chain } }
  let rec go (fuel : Nat) (j : Nat) (cur : Core) : Option String :=
    match fuel with
    | 0 => none
    | fuel + 1 =>
      if j ≥ st.hist.size then none else
      let a := st.hist[j]!
      let (nx, out, _) := stepCore cur a
      if !quiet && pendingObs a then go fuel (j + 1) nx else
      if st.cmp[j]! && out != st.outs[j]! then some s!"op={i} at={j}:{"_".intercalate a} twin={st.outs[j]!} crash={out}"
      else go fuel (j + 1) nx
  go (st.hist.size + 1) i c1

def step (st : St) (args : List String) : St × String :=
  match args with
  | ["crashall", _d, _m] =>
    let res := st.crashPts.findSome? (fun pc => replay st pc.1 pc.2.1 pc.2.2)
    (st, match res with | none => "ok\tok" | some d => "diff " ++ d ++ "\tok")
  | ["commits"] => (st, toString st.core.commits)
  | _ =>
    let i := st.hist.size
    let (c', out0, pts) := stepCore st.core args
    -- the invariants the partial theorems assume (BestInv, SyncWf, KsSeq, exact key cache) are
    -- evaluated on every state of every history: a violation shows up as a disagreement
    let inv := Spec.Persist.bestInvB c'.P c'.V && Spec.Persist.ksSeqB c'.P && decide (c'.V.keys = c'.P.ks)
    let out := if inv then out0 else "MODEL-INVARIANT-BROKEN " ++ out0
    ({ core := c', hist := st.hist.push args, outs := st.outs.push out,
       cmp := st.cmp.push (isObservation args && caughtUp c'),
       crashPts := st.crashPts ++ pts.map (fun p => (i + 1, p, caughtUp c')) },
     out)

end MW.Drv.Crash
