/- driver engine `sec` (C03, C05): keystore term machine + signing model behind the line protocol
   (see go/cmd/harness/eng_sec.go). Unknown ops are delegated to the ledger driver. -/
import MW.Drv.Led
import MW.Model.Secrets
import MW.Model.Sign
import MW.Drv.Vm
import MW.Model.KsBytes
import MW.Model.SignTab
import MW.Model.TxLoc
namespace MW.Drv.Sec
open MW MW.Model

structure St where
  led : Led.St := {}
  ks : Secrets.St := {}
  addrIdx : AMap.T String (String × Nat) := []     -- address name ↦ (wallet, external index)
  tree : KsBytes.Tree := fun _ => []               -- the keystore bucket tree, written by the byte-level writers (MW.Model.KsBytes)
  treeOk : Bool := true                            -- no byte-level writer has failed
  bits : AMap.T String Nat := []                   -- entropy identity ↦ entropy bits
  deriving Inhabited

def init : St := {}

/-- the harness's default private passphrase of wallet W ("Pass" ++ W ++ "x123456"), as hex -/
def defaultPass (w : String) : String := Hex.encode (bytesOfString ("Pass" ++ w ++ "x123456"))

def keyItem (k : Secrets.Key) : String :=
  let w := k.1
  match k.2.dbName with
  | some n => w ++ "/" ++ n
  | none =>
    match k.2 with
    | .aid => "aid/" ++ w
    | .acct n => w ++ s!"/acct{n}"
    | .pubk b i => w ++ s!"/pub/{b}.{i}"
    | _ => w ++ "/?"

def amItem (w : String) (a : Secrets.AM) : String :=
  s!"{w}:{if a.unlocked then "U" else "L"}:{if a.mkey.isSome then "v" else "-"}:{if a.hashed.isSome then 1 else 0}:0:0:{if a.branch then 2 else 0}:{a.privs.length}"

-- ------------------------------------------------------------------ symbolic instances for signing

/-- symbolic signatures: a signature is the pair (key, message); passphrase parameters are the passphrase -/
@[reducible] def symCrypto : Sign.Crypto where
  SK := String
  PK := String
  Sig := String × String
  Msg := String
  Pass := String
  Params := String
  decPass := inferInstance
  pkOf := id
  sign := fun sk m => (sk, m)
  verify := fun pk m s => s == (pk, m)
  derive := fun q p => p == q
  params := id
  verify_sign := by intro sk m; simp
  kdf_correct := by intro pass p; simp

def symEngine : Sign.Engine symCrypto String where
  sighash := fun _ i fl pk amt => s!"{i}/{repr fl.base}/{fl.acp}/{pk}/{amt}"
  hashOf := id
  ok := fun po stx i w =>
    match w with
    | none => false
    | some w =>
      decide (po.cls ≠ .other) && decide (w.pk = po.addr) &&
      Sign.seqOk po.cls (((stx.ins[i]?).map (·.seq)).getD 0) &&
      symCrypto.verify w.pk (s!"{i}/{repr w.flag.base}/{w.flag.acp}/{w.pk}/{po.amt}") w.sig
  p2wsh := by
    intro po tx i w seq hc hh hs hq hv
    simp only [id] at hh
    rw [← hh]
    simp [hc, hs, hq]
    simpa using hv

abbrev clsOf : Ledger.Cls → Sign.Class := SignTab.clsOf

open Ledger in
/-- existsMsgTx / existsUnminedTx / index check / existsOutPoint of signWitnessTx, on the ledger model; `len` = encoded
    length of a transaction (FetchTxByLoc reads by byte offset: `Node.txAtLoc`) -/
def resolve (l : Led.St) (len : Ledger.Tx → Nat) (w : String) (op : Sign.OutPoint) : Except Sign.Err (Sign.PrevOut String) :=
  let s := l.store
  -- existsMsgTx: the wallet's unspent entry, else any credit of that transaction with that index
  let cred : Option CredKey :=
    match AMap.get s.unspent (w, op.tx, op.idx) with
    | some blk => some ⟨op.tx, blk, op.idx⟩
    | none => (s.credits.find? (fun e => e.1.tx = op.tx && e.1.idx = op.idx)).map (·.1)
  let mined : Option Tx :=
    match cred with
    | some ck =>
      match AMap.get s.txrecs (op.tx, ck.blk) with
      | some loc => match l.node.txAtLoc len ck.blk.height loc with
        | some t => if t.id = op.tx then some t else none
        | none => none
      | none => none
    | none => none
  let prevTx : Option Tx := match mined with | some t => some t | none => AMap.get s.pending op.tx
  match prevTx with
  | none => .error .utxo
  | some t =>
    if t.outs.length = 0 ∨ op.idx > t.outs.length - 1 then .error .index else
    -- existsOutPoint
    let flags : Except Sign.Err Unit :=
      match AMap.get s.unspent (w, op.tx, op.idx) with
      | some blk =>
        match AMap.get s.credits ⟨op.tx, blk, op.idx⟩ with
        | some c => if c.spent then .error .utxo else .ok ()
        | none => .error .utxo
      | none =>
        let entries := s.credits.filter (fun e => e.1.tx = op.tx)
        match entries.find? (fun e => e.1.idx = op.idx) with
        | some e => if e.2.spent then .error .spent else .error .utxo
        | none =>
          if entries.isEmpty then
            match AMap.get s.pendCred (op.tx, op.idx) with
            | some _ => .ok ()
            | none => .error .utxo
          else .error .utxo
    match flags with
    | .error e => .error e
    | .ok () =>
      match t.outs[op.idx]? with
      | some o => .ok ⟨o.amt, clsOf o.cls, o.addr⟩
      | none => .error .index

def envOf (l : Led.St) (len : Ledger.Tx → Nat) (w : String) (pass : String) : Sign.Env symCrypto String where
  resolve := resolve l len w
  pubOf := fun a => match AMap.get l.own a with | some (w', _) => if w' = w then some a else none | none => none
  skOf := fun a => match AMap.get l.own a with | some (w', _) => if w' = w then some a else none | none => none
  params := pass

def toSignTx {C : Sign.Crypto} (t : Ledger.Tx) : Sign.Tx (Sign.Witness C) :=
  { version := 1, lock := 0, payload := t.id,
    ins := t.ins.map (fun i => { prev := ⟨i.tx, i.idx⟩, seq := i.seq, wit := none }),
    outs := t.outs.map (fun o => ⟨o.amt, o.addr⟩) }

def errTok : Sign.Err → String
  | .pass => "err:pass" | .utxo => "err:utxo" | .index => "err:index" | .spent => "err:spent"
  | .key => "err:key" | .script => "err:script"

/-- SPEC of signing: when the wallet is in step with the node's best chain and every input is an unspent
    output of wallet w on that chain (or an output to w of a pending transaction), the flag is supported, SigHashSingle has an output for
    every input and the staking sequence rule holds, signing succeeds exactly with the right passphrase. -/
def specSign (st : St) (w pass flag : String) (t : Ledger.Tx) : Option String :=
  match AMap.get st.ks.wal w, Sign.parseFlag flag with
  | some (r, _), some fl =>
    let coins := Spec.Chain.coinsOfWallet (Spec.Chain.ledgerOf st.led.own st.led.specChain) w
    -- a binding output whose transaction sits at / will be mined at a height ≥ the MASSIP-2 warm-up height is spent under
    -- the engine-level sequence rule (class `bind2`)
    let up (c : Sign.Class) (h : Nat) : Sign.Class := c.atHeight st.led.warm h
    let clsOfIn (i : Ledger.Inp) : Option Sign.Class :=
      match coins.find? (fun c => c.tx = i.tx && c.idx = i.idx) with
      | some c => some (up (clsOf c.cls) c.height)
      | none =>
        match AMap.get st.led.store.pending i.tx with
        | some pt => match pt.outs[i.idx]? with
          | some o => match AMap.get st.led.own o.addr with
            | some (w', _) => if w' = w && o.cls ≠ .raw then some (up (clsOf o.cls) st.led.specChain.length) else none
            | none => none
          | none => none
        | none => none
    -- the wallet reads previous transactions out of the NODE's chain database by (height, location): the
    -- statement is about a wallet that has been told about the node's current best chain
    let inSync := (st.led.node.chain.map (·.id)) == (st.led.specChain.map (·.id))
    if !inSync then none else
    if t.ins.isEmpty then none else
    if t.ins.all (fun i => match clsOfIn i with | some c => Sign.seqOk c i.seq | none => false)
       && !(fl.base = .single && t.ins.length > t.outs.length) then
      some (if pass = r.pass then "ok" else "err:pass")
    else none
  | _, _ => none

-- ------------------------------------------------------------------ signing with the script VM model (oracle tokens)

open Ledger in
/-- `prevHeight` of signWitnessTx: the height of the block the previous transaction is mined in (the BlockMeta existsMsgTx
    returns), else SyncedTo + 1 ("it can only be mined above the tip") -/
def prevHeight (l : Led.St) (len : Ledger.Tx → Nat) (w : String) (op : Sign.OutPoint) : Nat :=
  let s := l.store
  let cred : Option CredKey :=
    match AMap.get s.unspent (w, op.tx, op.idx) with
    | some blk => some ⟨op.tx, blk, op.idx⟩
    | none => (s.credits.find? (fun e => e.1.tx = op.tx && e.1.idx = op.idx)).map (·.1)
  let mined : Option Nat :=
    match cred with
    | some ck =>
      match AMap.get s.txrecs (op.tx, ck.blk) with
      | some loc => match l.node.txAtLoc len ck.blk.height loc with
        | some t => if t.id = op.tx then some ck.blk.height else none
        | none => none
      | none => none
    | none => none
  match mined with
  | some h => h
  | none => s.syncedTo + 1

/-- the wallet as signWitnessTx sees it, over real bytes: script hashes and keys from the oracle table; a binding output
    whose previous height has reached the warm-up height is run under ScriptMASSip2 (class `bind2`) -/
def envVm (T : SignTab.Tab) (l : Led.St) (w pass : String) (warm : Nat) : Sign.Env (SignTab.tabCrypto T) Bytes where
  resolve := fun op =>
    match resolve l (Led.lenOf l.shape) w op with
    | .error e => .error e
    | .ok po =>
      .ok ⟨po.amt, po.cls.atHeight warm (prevHeight l (Led.lenOf l.shape) w op), SignTab.shOf T po.addr⟩
  pubOf := fun h =>
    match SignTab.keyOf T h with
    | some (a, k) => (match AMap.get l.own a with | some (w', _) => if w' = w then some k else none | none => none)
    | none => none
  skOf := fun h =>
    match SignTab.keyOf T h with
    | some (a, k) => (match AMap.get l.own a with | some (w', _) => if w' = w then some k else none | none => none)
    | none => none
  params := pass

/-- the symbolic environment (token-less `sign` lines) with the same class lifting: a binding output whose previous height
    has reached the warm-up height carries the MASSIP-2 sequence rule (`seqOk .bind2`) -/
def envSym (l : Led.St) (w pass : String) : Sign.Env symCrypto String :=
  let e := envOf l (Led.lenOf l.shape) w pass
  { e with resolve := fun op =>
      match e.resolve op with
      | .error err => .error err
      | .ok po => .ok { po with cls := po.cls.atHeight l.warm (prevHeight l (Led.lenOf l.shape) w op) } }

/-- `signTx` with the script VM model as the engine (`vmEngine (tabCodec T)`): the witness the model builds
    (signature ‖ hash-type byte, redeem script) is run through `ScriptVM.verify` for every input -/
def signVm (st : St) (w rpass p : String) (fl : Sign.Flag) (tx : Ledger.Tx) (toks : List String) : String :=
  match SignTab.parseToks toks with
  | none => "bad-op"
  | some T =>
    match T.bad with
    | why :: _ => "oracle:" ++ why
    | [] =>
      match (Sign.signTx (SignTab.tabEngine T) (envVm T st.led w rpass st.led.warm) (Sign.Lock.locked _) p fl (toSignTx tx)).2 with
      | .ok tx' =>
        -- the witnesses the model built (and ran through the VM) are, byte for byte, those of the real signed transaction
        (match SignTab.witnessDiff T tx'.ins with
         | none => "ok"
         | some i => s!"ok!witness@{i}")
      | .error e => errTok e

/-- `autosign` with oracle tokens: the transaction the REAL wallet built (token `t=<#outputs>=<inputs>`, symbolic names)
    is signed by the model with the VM engine; the answer is compared with what the op must give (the rule the harness
    applies to the real result): invalid flag ⇒ err:flag, wrong passphrase ⇒ err:pass, SIGHASH_SINGLE with more inputs
    than outputs ⇒ err:script, else ok -/
def autoVm (st : St) (w p flag : String) (toks : List String) : Option String :=
  match toks with
  | t :: rest =>
    match t.splitOn "=", AMap.get st.ks.wal w with
    | ["t", nOut, ins], some (r, _) =>
      match nOut.toNat?, (Led.parseList ins).mapM Led.parseIn with
      | some n, some is =>
        let tx : Ledger.Tx := { id := "auto", cb := false, ins := is, outs := List.replicate n ⟨"X", 1, .std⟩ }
        let fl := Sign.parseFlag flag
        let want := match fl with
          | none => "err:flag"
          | some f =>
            if p ≠ r.pass then "err:pass"
            else if f.base = .single ∧ is.length > n then "err:script" else "ok"
        let got := match fl with
          | none => "err:flag"
          | some f => signVm st w r.pass p f tx rest
        some (if got = want then "pass" else "FAIL:" ++ got ++ "-want-" ++ want)
      | _, _ => none
    | _, _ => none
  | [] => none

def gateSpec (st : St) (w pass : String) : Option String :=
  match AMap.get st.ks.wal w with
  | some (r, _) => some (if pass = r.pass then "ok" else "err:pass")
  | none => none

def withSpec (m : String) (s : Option String) : String :=
  match s with | some x => m ++ "\t" ++ x | none => m

/-- keep the ledger driver's wallet list in step (its outputs are not used for these ops) -/
def ledAddWallet (l : Led.St) (w : String) : Led.St := (Led.step l ["wallet", w]).1

-- ------------------------------------------------------------------ the byte level (op `klayout`)

/-- a LENGTH-FAITHFUL instance of the byte-level primitives: every byte is 0, the lengths are the real ones (entropy of
    the wallet's bit size, 64-byte seed, extended private keys as 111-character strings, 32-byte keys, the passphrase bytes,
    32-byte salts / digests / derived keys, a sealed box = 24-byte nonce + 16-byte tag + plaintext) -/
def lenC (bits : AMap.T String Nat) : KsBytes.BCrypto where
  atom := fun s => match s with
    | .entropy e => List.replicate (((AMap.get bits e).getD 128) / 8) 0
    | .seed _ _ => List.replicate 64 0
    | .acctPriv _ _ => List.replicate 111 0
    | .addrPriv _ _ _ _ => List.replicate 32 0
    | .key _ => List.replicate 32 0
    | .pass p => ((Hex.decode p).getD []).map (fun _ => 0)
  salt := fun _ => List.replicate 32 0
  kdf := fun _ _ => List.replicate 32 0
  sha := fun _ => List.replicate 32 0
  box := fun _ p => List.replicate (p.length + 40) 0
  N := 16
  R := 8
  P := 1
  walletId := KsCodec.asc
  nameOf := fun _ => none

/-- the public data: 111-character extended public keys, 33-byte public keys; the coin type of the main net -/
def pubData : KsBytes.PubData where
  coin := MW.Gen.Keystore.coinMainnet
  plain := fun K => match K.2 with
    | .acct _ => List.replicate 111 0
    | .exb => List.replicate 111 0
    | .inb => List.replicate 111 0
    | .pubk _ _ => List.replicate 33 0
    | _ => []

def applyTree (st : St) (r : Except KsCodec.Err KsBytes.Tree) : St :=
  match r with
  | .ok t => { st with tree := t }
  | .error _ => { st with treeOk := false }

/-- the byte-level machine `KsBytes.stepB` on the state BEFORE the symbolic step of the same operation -/
def byteStep (st : St) (bits : AMap.T String Nat) (op : Secrets.Op) : St :=
  applyTree { st with bits := bits } (KsBytes.stepB (lenC bits) pubData st.ks st.tree op)

def printableB (b : Bytes) : Bool :=
  !b.isEmpty && b.all (fun c => (97 ≤ c.toNat && c.toNat ≤ 122) || (65 ≤ c.toNat && c.toNat ≤ 90) || (48 ≤ c.toNat && c.toNat ≤ 57))

def strOfBytes (b : Bytes) : String := String.ofList (b.map (fun c => Char.ofNat c.toNat))

/-- one entry (bucket, key, value) in the harness's canonical form -/
def layoutItem (names : List String) (p : KsBytes.BPath) (kb v : Bytes) : String :=
  let nameOf (id : Bytes) : String := match names.find? (fun n => KsCodec.asc n = id) with | some n => n | none => "?"
  match p with
  | .aid => s!"aid/{nameOf kb}:{v.length}"
  | .acct id =>
    let w := nameOf id
    if printableB kb then
      let nm := strOfBytes kb
      if (nm = "exChildNum" || nm = "inChildNum" || nm = "account" || nm = "coinType") && v.length = 4 then
        s!"{w}/{nm}={KsCodec.ofLE v}"
      else s!"{w}/{nm}:{v.length}"
    else if kb.length = 4 then
      let desc := match KsCodec.deserializeAccountRow v with
        | .ok (t, raw) => (match KsCodec.deserializeHDAccountKey raw with
          | .ok (a, b) => s!"row({t},{a.length},{b.length})"
          | .error _ => "row(?)")
        | .error _ => "row(?)"
      s!"{w}/acct{KsCodec.ofLE kb}:{desc}"
    else s!"{w}/?"
  | .pub id => s!"{nameOf id}/pub/{KsCodec.ofLE (kb.take 4)}.{KsCodec.ofLE (kb.drop 4)}:{v.length}"

/-- the entries of the byte tree below the buckets of the wallets ever named -/
def treeEntries (t : KsBytes.Tree) (names : List String) : List (KsBytes.BPath × Bytes × Bytes) :=
  (t .aid).map (fun e => (KsBytes.BPath.aid, e.1, e.2)) ++
  names.flatMap (fun w =>
    let id := KsCodec.asc w
    (t (.acct id)).map (fun e => (KsBytes.BPath.acct id, e.1, e.2)) ++ (t (.pub id)).map (fun e => (KsBytes.BPath.pub id, e.1, e.2)))

def ksStep (st : St) (op : Secrets.Op) : St × String :=
  let (ks, o) := Secrets.step st.ks op
  ({ st with ks := ks }, o.render)

def step (st : St) (args : List String) : St × String :=
  match args with
  | "vm" :: rest => (st, Vm.run rest)     -- script VM model (stateless; MW.Drv.Vm)
  | ["wallet", w] =>
    let (ks, o) := Secrets.create st.ks w (defaultPass w) 128
    if o = .ok then
      let st1 := byteStep st (AMap.put st.bits w 128) (.create w (defaultPass w) 128)
      ({ st1 with ks := ks, led := ledAddWallet st.led w }, "ok")
    else ({ st with ks := ks }, o.render)
  | ["kcreate", w, p, b] =>
    match b.toNat? with
    | none => (st, "bad-op")
    | some bits =>
      let (ks, o) := Secrets.create st.ks w p bits
      if o = .ok then
        let st1 := byteStep st (AMap.put st.bits w (if bits = 0 then 128 else bits)) (.create w p bits)
        ({ st1 with ks := ks, led := ledAddWallet st.led w }, "ok")
      else ({ st with ks := ks }, o.render)
  | ["addr", w, a, cl] =>
    if (AMap.get st.addrIdx a).isSome then (st, "err") else
    let idx := match AMap.get st.ks.wal w with | some (r, _) => r.nExt | none => 0
    let (ks, o) := Secrets.newAddr st.ks w
    if o = .ok then
      let st1 := byteStep st st.bits (.newAddr w)
      ({ st1 with ks := ks, led := (Led.step st.led ["addr", w, a, cl]).1, addrIdx := AMap.put st.addrIdx a (w, idx) }, "ok")
    else (st, "err")
  | ["restart"] =>
    let (ks, o) := Secrets.restart st.ks st.ks.pubPass
    ({ st with ks := ks, led := (Led.step st.led ["restart"]).1 }, o.render)
  | ["krestart", p] =>
    let (ks, o) := Secrets.restart st.ks p
    ({ st with ks := ks, led := (Led.step st.led ["restart"]).1 }, o.render)
  | ["kexport", w, p, k] =>
    if (AMap.get st.ks.idents w).isNone then (st, "bad-op") else
    let (st', o) := ksStep st (.exportKS w p k)
    (st', withSpec o (gateSpec st w p))
  | ["kimport", k, p] =>
    ksStep (byteStep st st.bits (.importKS k p)) (.importKS k p)
  | ["kimportmn", w, p, src, e, i] =>
    match e.toNat?, i.toNat? with
    | some ext, some int =>
      let (ks, o) := Secrets.importMn st.ks w p src ext int
      let led := match o with | .okName n => ledAddWallet st.led n | _ => st.led
      let st1 := byteStep st st.bits (.importMn w p src ext int)
      ({ st1 with ks := ks, led := led }, o.render)
    | _, _ => (st, "bad-op")
  | ["kimportmnbad", _, _, src, _, _] =>
    -- a restore from a mis-typed sentence is refused, changes nothing (refusal_inert) and the error carries no term
    -- depending on the sentence (no_clear_secret: errors are public constants) – model and specification agree
    if (AMap.get st.ks.idents src).isNone then (st, "bad-op") else (st, "refused:clean\trefused:clean")
  | ["kmnemonic", w, p] =>
    if (AMap.get st.ks.idents w).isNone then (st, "bad-op") else
    let (st', o) := ksStep st (.mnemonic w p)
    (st', withSpec o (gateSpec st w p))
  | ["kremove", w, p] =>
    if (AMap.get st.ks.idents w).isNone then (st, "bad-op") else
    let (st', o) := ksStep (byteStep st st.bits (.remove w p)) (.remove w p)
    (st', withSpec o (gateSpec st w p))
  | ["kchpub", o, n] =>
    ksStep (byteStep st st.bits (.chpub o n)) (.chpub o n)
  | ["kchpriv", w, o, n] =>
    -- the harness selects the wallet first: a name it has never bound fails there
    if (AMap.get st.ks.idents w).isNone then (st, "err:use") else ksStep st (.chpriv w o n)
  | ["ksignhash", w, a, p] =>
    match AMap.get st.addrIdx a with
    | none => (st, "bad-op")
    | some (w', idx) =>
      if w' ≠ w then (st, "bad-op") else
      let known := match AMap.get st.ks.wal w with | some (r, _) => decide (idx < r.nExt) | none => false
      -- the harness needs the public key of the address to call SignHash at all: for an address the
      -- keystore does not hold (removed wallet, index not restored) nothing is called, nothing changes
      if !known then (st, "err:key") else
      let (st', o) := ksStep st (.signHash w 0 idx p)
      (st', withSpec o (gateSpec st w p))
  | ["kssign", w, a, p] =>
    match AMap.get st.addrIdx a with
    | none => (st, "bad-op")
    | some (w', idx) =>
      if w' ≠ w then (st, "bad-op") else
      let known := match AMap.get st.ks.wal w with | some (r, _) => decide (idx < r.nExt) | none => false
      if !known then (st, "err:key") else
      let (st', o) := ksStep st (.ksSign w 0 idx p)
      (st', withSpec o (gateSpec st w p))
  | ["ksclear"] => ksStep st .ksClear
  | ["kdecrypt", w, p] =>
    if (AMap.get st.ks.idents w).isNone then (st, "bad-op") else
    (st, withSpec (Secrets.decryptOracle st.ks w p).render (gateSpec st w p))
  | ["kstate"] =>
    (st, Led.joinSorted (st.ks.wal.map (fun e => amItem e.1 e.2.2)))
  | ["klocked"] =>
    let item (e : String × Secrets.WRec × Secrets.AM) : String :=
      let a := e.2.2
      e.1 ++ ":" ++ (if a.unlocked || a.hashed.isSome || a.mkey.isSome || a.branch || !a.privs.isEmpty then "U" else "L")
    -- SPEC: a keystore is unlocked only between a successful keystore-level SignHash (`kssign`) and the next
    -- ClearPrivKey / wallet-level signing call / restart; the model tracks exactly that
    let m := Led.joinSorted (st.ks.wal.map item)
    (st, m ++ "\t" ++ m)
  | ["kkeys"] => (st, Led.joinSorted (st.ks.db.map (fun e => keyItem e.1)))
  | ["klayout"] =>
    -- MODEL: the tree the byte-level writers built; SPEC: the concretisation (`bytesOf` at `loc`) of the symbolic database –
    -- equal by MW.Props.C05Abs (`*_refines`: the tree REPRESENTS the database)
    let C := lenC st.bits
    let ρ := KsBytes.pubValsOf pubData st.ks.wal
    let names := st.ks.idents.map (·.1)
    let sp := Led.joinSorted (st.ks.db.map (fun e =>
      layoutItem names (KsBytes.loc C e.1).1 (KsBytes.loc C e.1).2 (KsBytes.valBytes C ρ e.1 e.2)))
    let m := Led.joinSorted ((treeEntries st.tree names).map (fun e => layoutItem names e.1 e.2.1 e.2.2))
    (st, (if st.treeOk then m else "err-tree") ++ "\t" ++ sp)
  | ["kscan"] => (st, (if Secrets.scanClean st.ks then "clean" else "LEAK") ++ "\tclean")
  | "sign" :: w :: p :: flag :: t :: toks =>
    match AMap.get st.led.txs t with
    | none => (st, "bad-op")
    | some tx =>
      match AMap.get st.ks.wal w with
      | none => (st, "err:use")
      | some (r, _) =>
        let sp := specSign st w p flag tx
        match Sign.parseFlag flag with
        | none => (st, withSpec "err:flag" sp)
        | some fl =>
          -- SignRawTx ends with ClearPrivKey: every keystore is locked again
          let ks := { st.ks with wal := Secrets.clearAll st.ks.wal }
          -- with oracle tokens: the script VM model over real bytes; without (corpus lines): the symbolic engine
          let m := if toks.isEmpty then
              (match (Sign.signTx symEngine (envSym st.led w r.pass) (Sign.Lock.locked symCrypto) p fl (toSignTx tx)).2 with
               | .ok _ => "ok" | .error e => errTok e)
            else signVm st w r.pass p fl tx toks
          ({ st with ks := ks }, withSpec m sp)
  | ["tx", _, _, _, outs] =>
    -- the harness refuses an output to an address it has never bound (owned A*; strangers X* are implicit)
    let unknown (spec : String) : Bool :=
      match spec.splitOn ":" with
      | a :: _ => a != "raw" && !a.startsWith "X" && (AMap.get st.addrIdx a).isNone
      | [] => true
    if (Led.parseList outs).any unknown then (st, "err") else
    let (l, o) := Led.step st.led args
    ({ st with led := l }, o)
  | ["txlock", t, lock, pl] =>
    -- lock time and payload are covered by the signature hash only: no effect on the signing model (they change the
    -- encoded length: payload = the given bytes ‖ NAME)
    match AMap.get st.led.txs t, lock.toNat? with
    | some _, some lk =>
      let shape := match AMap.get st.led.shape t with
        | some s => AMap.put st.led.shape t { s with lock := lk, payload := (if pl = "-" then 0 else pl.length / 2) + t.utf8ByteSize }
        | none => st.led.shape
      ({ st with led := { st.led with shape := shape } }, "ok")
    | _, _ => (st, "bad-op")
  | "autosign" :: w :: p :: flag :: rest =>
    -- oracle tokens (if any) follow the must|may word
    let toks := (rest.dropWhile (fun s => s != "must" && s != "may")).drop 1
    if toks.isEmpty then (st, "pass\tpass") else
    match autoVm st w p flag toks with
    | some m => ({ st with ks := { st.ks with wal := Secrets.clearAll st.ks.wal } }, m ++ "\tpass")
    | none => (st, "bad-op")
  | "autosign" :: _ => (st, "pass\tpass")
  | _ =>
    let (l, o) := Led.step st.led args
    ({ st with led := l }, o)

end MW.Drv.Sec
