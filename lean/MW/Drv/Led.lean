/- driver engine `led`: ledger model + chain spec behind the line protocol (see go/cmd/harness/eng_led.go) -/
import MW.Model.Ledger
import MW.Spec.Chain
import MW.Spec.Pending
import MW.Model.WithdrawSeq
import MW.Model.TxLoc
namespace MW.Drv.Led
open MW MW.Model.Ledger

structure St where
  p : Params := {}
  own : Own := []
  issued : List (Addr × Wid × Bool) := []      -- address name, wallet, issued as staking class
  wallets : List Wid := []
  txs : AMap.T TxId Tx := []
  node : Node := { chain := [⟨"G", "", 0, []⟩], known := [("G", ⟨"G", "", 0, []⟩)] }
  store : Store := { sync := [(0, "G")] }
  vol : Vol := {}
  specChain : List Block := [⟨"G", "", 0, []⟩]    -- the chain the wallet has been told about (spec side)
  specPend : List Tx := []                        -- the pending set of MW.Spec.Pending (spec side)
  warm : Nat := Gen.Vm.massip2WarmUpHeight        -- consensus.MASSIP0002WarmUpHeight (a value of the run: op `warmup`)
  shape : AMap.T TxId Model.TxLoc.Shape := []     -- what decides the encoded length of a defined transaction (block-file offsets)
  deriving Inhabited

def init : St := {}

def joinSorted (xs : List String) : String :=
  if xs.isEmpty then "-" else ",".intercalate (xs.mergeSort (fun a b => a ≤ b))

def parseList (s : String) : List String := if s = "-" || s = "" then [] else s.splitOn ";"

def parseIn (s : String) : Option Inp :=
  match s.splitOn ":" with
  | [t, i] => i.toNat?.map (fun n => ⟨t, n, 0xffffffffffffffff⟩)
  | [t, i, q] => do let n ← i.toNat?; let sq ← q.toNat?; pure ⟨t, n, sq⟩
  | _ => none

def parseOut (s : String) : Option Out :=
  match s.splitOn ":" with
  | [a, m] => m.toNat?.map (fun n => ⟨a, n, .std⟩)
  | ["raw", m, _] => m.toNat?.map (fun n => ⟨"raw", n, .raw⟩)
  | [a, m, "stk", f] => do let n ← m.toNat?; let fr ← f.toNat?; pure ⟨a, n, .stk fr⟩
  | [a, m, "bind", t] => m.toNat?.map (fun n => ⟨a, n, .bindOld t⟩)
  | [a, m, "bind22", t] => m.toNat?.map (fun n => ⟨a, n, .bindNew t⟩)
  -- binding template to holder `a` whose target has no address form: the wallet reads it as unsupported,
  -- the node's script-hash index lists it under `a` (engines imp / rem; fix D41)
  | [a, m, "bindbad", _] => m.toNat?.map (fun n => ⟨a, n, .raw⟩)
  | _ => none

/-- (value, script length) of an output as the harness builds it (wenv.go buildOut): OP_0 <32-byte hash> [<8-byte frozen
    period> | <20- or 22-byte target>], or the raw bytes -/
def outShape (spec : String) : Option (Nat × Nat) :=
  match spec.splitOn ":" with
  | [_, m] => m.toNat?.map (fun n => (n, 34))
  | ["raw", m, h] => m.toNat?.map (fun n => (n, if h = "-" then 0 else h.length / 2))
  | [_, m, "stk", _] => m.toNat?.map (fun n => (n, 43))
  | [_, m, "bind", _] => m.toNat?.map (fun n => (n, 55))
  | [_, m, "bind22", _] => m.toNat?.map (fun n => (n, 57))
  | [_, m, "bindbad", _] => m.toNat?.map (fun n => (n, 57))
  | _ => none

/-- the shape of a transaction defined by `tx NAME UNIQ INS OUTS` (wenv.go DefineTx: version 1, no witnesses, lock time 0,
    payload = 8 bytes ‖ NAME) -/
def shapeOf (name ins outs : String) : Option Model.TxLoc.Shape :=
  let is : Option (Option (List (Nat × Nat))) :=
    if ins = "cb" then some none
    else ((parseList ins).mapM (fun s => (parseIn s).map (fun i => (i.idx, i.seq)))).map some
  match is, (parseList outs).mapM outShape with
  | some is, some os => some { ins := is, outs := os, payload := 8 + name.utf8ByteSize }
  | _, _ => none

/-- encoded length of a defined transaction -/
def lenOf (shape : AMap.T TxId Model.TxLoc.Shape) (t : Tx) : Nat :=
  match AMap.get shape t.id with
  | some s => s.dbLen
  | none => 0

/-- chainFetcher.FetchTxByLoc on the driver's node: by byte offset (MW.Model.TxLoc) -/
def St.txAt (st : St) (height : Nat) (loc : BlkId × Nat) : Option Tx := st.node.txAtLoc (lenOf st.shape) height loc

def ctx (st : St) : Ctx := { p := st.p, own := st.own, wallets := st.wallets, node := st.node }

/-- spec-side environment: addresses of ready wallets, transactions by id -/
def specEnv (st : St) : Spec.Pending.Env :=
  let ready := readyWallets st.store st.wallets
  { own := st.own.filter (fun e => ready.contains e.2.1), src := AMap.get st.txs }

def showBal (b : Balance) : String := s!"{b.total} {b.spendable} {b.wStaking} {b.wBinding}"

/-- GetUtxo item as compared by the harness; `MW.Props.C01.ledger_observed` is about exactly these records
    (`Spec.Chain.obsM` for the model, `Spec.Chain.obsS` for the spec) -/
def showObs (o : Spec.Chain.CoinObs) : String :=
  s!"{o.tx}:{o.idx}:{o.amt}:{o.height}:{o.maturity}:{o.confs}@{o.addr}"

def utxoItem (sync : Nat) (c : Coin) : String := showObs (Spec.Chain.obsM sync c)

/-- wallet.GetAddresses merge logic for one issued address (see wallet.go): the standard listing holds
    every standard record (used if that record or the staking record of the same key is used) plus a
    synthesized entry for a used staking record without standard record; the staking listing holds the
    staking records. -/
def addrFlag (s : Store) (w : Wid) (a : Addr) (stkClass : Bool) : String :=
  let stdRec := AMap.get s.addrs (w, false, a)
  let stkRec := AMap.get s.addrs (w, true, a)
  if stkClass then
    match stkRec with
    | some h => if h > 0 then "1" else "0"
    | none => "missing"
  else
    match stdRec, stkRec with
    | some h, none => if h > 0 then "1" else "0"
    | some h, some hs => if hs > 0 || h > 0 then "1" else "0"
    | none, some hs => if hs > 0 then "1" else "missing"
    | none, none => "missing"

def kindTag : UClass → Nat | .standard => 0 | .staking => 1 | .binding => 2

def step (st : St) (args : List String) : St × String :=
  match args with
  | ["params", cb, _mf] =>
    match cb.toNat? with
    | some n => ({ st with p := { cbMaturity := n } }, "ok")
    | none => (st, "bad-op")
  | ["warmup", n] =>
    -- consensus.MASSIP0002WarmUpHeight is a PARAMETER of the run (a value, like the maturities of `params`)
    match n.toNat? with
    | some h => ({ st with warm := h }, "ok")
    | none => (st, "bad-op")
  | ["wallet", w] =>
    if st.wallets.contains w then (st, "err") else
    ({ st with wallets := st.wallets ++ [w],
               store := { st.store with status := AMap.put st.store.status w ⟨none, false⟩,
                                        balance := AMap.put st.store.balance w 0 } }, "ok")
  | ["addr", w, a, cl] =>
    if !st.wallets.contains w || (AMap.get st.own a).isSome then (st, "err") else
    let stk : Bool := cl == "stk"
    ({ st with own := AMap.put st.own a (w, false), issued := st.issued ++ [(a, w, stk)],
               store := { st.store with addrs := AMap.put st.store.addrs (w, stk, a) 0 } }, "ok")
  | ["tx", t, _u, ins, outs] =>
    if (AMap.get st.txs t).isSome then (st, "err") else
    let cb := ins = "cb"
    let is := if cb then some [] else (parseList ins).mapM parseIn
    let os := (parseList outs).mapM parseOut
    match is, os with
    | some is, some os =>
      -- the harness refuses inputs whose source tx is undefined
      if is.any (fun i => (AMap.get st.txs i.tx).isNone) then (st, "err") else
      ({ st with txs := AMap.put st.txs t ⟨t, cb, is, os⟩,
                 shape := match shapeOf t ins outs with | some sh => AMap.put st.shape t sh | none => st.shape }, "ok")
    | _, _ => (st, "err")
  | ["block", b, prev, txs] =>
    if (AMap.get st.node.known b).isSome then (st, "err") else
    match AMap.get st.node.known prev, (parseList txs).mapM (AMap.get st.txs) with
    | some pb, some ts =>
      match ts with
      | t0 :: _ =>
        if !t0.cb then (st, "err") else
        let blk : Block := ⟨b, prev, pb.height + 1, ts⟩
        ({ st with node := { st.node with known := AMap.put st.node.known b blk } }, "ok")
      | [] => (st, "err")
    | _, _ => (st, "err")
  | ["submit", b] =>
    match AMap.get st.node.known b, st.node.chain.getLast? with
    | some blk, some tip =>
      if blk.prev = tip.id then ({ st with node := { st.node with chain := st.node.chain ++ [blk] } }, "ok")
      else (st, "err")
    | _, _ => (st, "err")
  | ["detach"] =>
    if st.node.chain.length ≤ 1 then (st, "err")
    else ({ st with node := { st.node with chain := st.node.chain.dropLast } }, "ok")
  | ["notify", b] =>
    match AMap.get st.node.known b with
    | none => (st, "bad-op")
    | some blk =>
      let (s', v', ok) := processBlock (ctx st) st.store st.vol blk
      -- spec (MW.Lemmas.LedgerReorg3.processBlock_total): the notification succeeds exactly when the block is
      -- on the node's best chain (the wallet then follows that chain up to the block) or – a stale or
      -- duplicate notification – still on the chain the wallet has been told about (the wallet then goes
      -- back to that block); otherwise it fails and changes nothing
      let onChain : Bool := match st.node.blockAt blk.height with | some x => x.id == blk.id | none => false
      let onSpec : Bool := match st.specChain[blk.height]? with | some x => x.id == blk.id | none => false
      let specChain := if onChain then st.node.chain.take (blk.height + 1)
                       else if onSpec then st.specChain.take (blk.height + 1) else st.specChain
      let specPend := if onChain || onSpec then
                        Spec.Pending.onChainMoved (specEnv st) st.specChain specChain st.specPend
                      else st.specPend
      ({ st with store := s', vol := v', specChain := specChain, specPend := specPend },
        (if ok then "ok" else "err") ++ "\t" ++ (if onChain || onSpec then "ok" else "err"))
  | ["recvtx", t] =>
    match AMap.get st.txs t with
    | none => (st, "bad-op")
    | some tx =>
      let (s', v', ok) := recvTx (ctx st) st.store st.vol tx
      let specPend := Spec.Pending.onRecv (specEnv st) st.node.chain st.specChain st.specPend tx
      ({ st with store := s', vol := v', specPend := specPend }, if ok then "ok" else "err")
  | ["restart"] =>
    let bh := (AMap.get st.store.sync st.store.syncedTo).getD "?"
    ({ st with vol := { best := ⟨st.store.syncedTo, bh⟩ } }, "ok")
  | ["synced"] =>
    let tipS := st.specChain.length - 1
    let nameS := (st.specChain.getLast?.map (·.id)).getD "?"
    (st, s!"{st.store.syncedTo} {st.vol.best.height} {st.vol.best.hash}" ++ "\t" ++ s!"{tipS} {tipS} {nameS}")
  | ["bal", w, c] =>
    match c.toNat? with
    | none => (st, "bad-op")
    | some mc =>
      let m := match walletBalance st.store w mc with | some b => showBal b | none => "err"
      let sp := if st.wallets.contains w then showBal (Spec.Chain.balance st.p st.own st.specChain w mc) else "err"
      (st, m ++ "\t" ++ sp)
  | ["utxos", w] =>
    if !st.wallets.contains w then (st, "err\terr") else
    let m := joinSorted ((coinsOf st.store w).map (utxoItem st.store.syncedTo))
    let tip := st.specChain.length - 1
    let sp := joinSorted ((Spec.Chain.utxosOf st.own st.specChain w).map (fun c => showObs (Spec.Chain.obsS st.p tip c)))
    (st, m ++ "\t" ++ sp)
  | ["sbu", w] =>
    if !st.wallets.contains w then (st, "err\terr") else
    let m := joinSorted ((coinsOf st.store w).filterMap (fun c =>
      if spentByUnmined st.store c.tx c.idx then some s!"{c.tx}:{c.idx}" else none))
    let sp := joinSorted ((Spec.Pending.flagged st.own st.specChain st.specPend w).map (fun c => s!"{c.tx}:{c.idx}"))
    (st, m ++ "\t" ++ sp)
  | ["pend"] =>
    (st, joinSorted (st.store.pending.map (fun e => e.1 ++ ":r")) ++ "\t" ++
         joinSorted (st.specPend.map (fun t => t.id ++ ":r")))
  | ["pins"] =>
    let item (e : (TxId × Nat) × List TxId) := s!"{e.1.1}:{e.1.2}>" ++ "+".intercalate (e.2.mergeSort (fun a b => a ≤ b))
    (st, joinSorted (st.store.pendIns.map item) ++ "\t" ++ joinSorted ((Spec.Pending.spenderIndex st.specPend).map item))
  | ["pcred"] =>
    (st, joinSorted (st.store.pendCred.map (fun e => s!"{e.1.1}:{e.1.2}:{e.2.amt}")) ++ "\t" ++
         joinSorted ((Spec.Pending.pendingCredits (specEnv st) st.specPend).map (fun e => s!"{e.1}:{e.2.1}:{e.2.2}")))
  | ["pgame"] =>
    (st, joinSorted (st.store.pendGame.map (fun e =>
           let (w, b, tx, vout) := e.1
           s!"{w}:{if b then "b" else "s"}:{tx}:{vout}")) ++ "\t" ++
         joinSorted ((Spec.Pending.pendingDeposits (specEnv st) st.specPend).map (fun d =>
           s!"{d.1}:{if d.2.1.cls.isBinding then "b" else "s"}:{d.2.2.2.id}:{d.2.2.1}")))
  | ["glog"] =>
    -- raw dump of the mined deposit-history bucket; spec: the deposits of the chain (MW.Props.C10.deposit_once)
    (st, joinSorted (st.store.game.map (fun e =>
           let g := e.1
           s!"{g.wallet}:{if g.binding then "b" else "s"}:{if g.withdrawn then "w" else "u"}:{g.tx}:{g.vout}:{g.height}")) ++ "\t" ++
         joinSorted (st.wallets.flatMap (fun w => (Spec.Chain.deposits st.own st.specChain w).map (fun d =>
           s!"{w}:{if d.cls.isBinding then "b" else "s"}:{if d.withdrawn then "w" else "u"}:{d.tx}:{d.idx}:{d.height}"))))
  | ["addrs", w] =>
    if !st.wallets.contains w then (st, "err\terr") else
    let mine := st.issued.filter (fun x => x.2.1 = w)
    let m := joinSorted (mine.map (fun x => x.1 ++ ":" ++ addrFlag st.store w x.1 x.2.2))
    let sp := joinSorted (mine.map (fun x => x.1 ++ ":" ++ (if Spec.Chain.addrUsed st.specChain x.1 then "1" else "0")))
    (st, m ++ "\t" ++ sp)
  | ["shist", w, ex] =>
    if !st.wallets.contains w then (st, "err\terr") else
    let excl := ex = "1"
    -- GetStakingHistoryDetail: game records of the wallet joined with the credit table
    let m := joinSorted (st.store.game.filterMap (fun e =>
      let g := e.1
      if g.wallet = w && !g.binding && !(excl && g.withdrawn) && g.height ≠ 0 then
        match AMap.get st.store.credits ⟨g.tx, ⟨g.height, ((AMap.get st.store.blocks g.height).map (·.1)).getD ""⟩, g.vout⟩ with
        | some c =>
          some s!"{g.tx}:{g.vout}:{c.amt}:{g.height}:{(c.maturity + 2^32 - 1) % 2^32}:{if c.spent then 1 else 0}@{c.sh}"
        | none => none
      else none))
    let sp := joinSorted ((Spec.Chain.deposits st.own st.specChain w).filterMap (fun d =>
      match d.cls with
      | .stk f => if excl && d.withdrawn then none else
          some s!"{d.tx}:{d.idx}:{d.amt}:{d.height}:{f}:{if d.withdrawn then 1 else 0}@{d.addr}"
      | _ => none))
    (st, m ++ "\t" ++ sp)
  | ["bhist", w, ex] =>
    if !st.wallets.contains w then (st, "err\terr") else
    let excl := ex = "1"
    let m := joinSorted (st.store.game.filterMap (fun e =>
      let g := e.1
      if g.wallet = w && g.binding && !(excl && g.withdrawn) && g.height ≠ 0 then
        let bh := ((AMap.get st.store.blocks g.height).map (·.1)).getD ""
        match AMap.get st.store.txrecs (g.tx, ⟨g.height, bh⟩) with
        | none => none
        | some loc =>
          match st.txAt g.height loc, AMap.get st.store.credits ⟨g.tx, ⟨g.height, bh⟩, g.vout⟩ with
          | some tx, some c =>
            match tx.outs[g.vout]? with
            | some o =>
              let tgt := match o.cls with | .bindOld t => t | .bindNew t => t | _ => "?"
              some s!"{g.tx}:{g.vout}:{c.amt}:{g.height}:{if c.spent then 1 else 0}@{o.addr}>{tgt}"
            | none => none
          | _, _ => none
      else none))
    let sp := joinSorted ((Spec.Chain.deposits st.own st.specChain w).filterMap (fun d =>
      let item (t : String) := s!"{d.tx}:{d.idx}:{d.amt}:{d.height}:{if d.withdrawn then 1 else 0}@{d.addr}>{t}"
      if excl && d.withdrawn then none else
      match d.cls with
      | .bindOld t => some (item t)
      | .bindNew t => some (item t)
      | _ => none))
    (st, m ++ "\t" ++ sp)
  | ["hsbu", w] =>
    if !st.wallets.contains w then (st, "err\terr") else
    let m := joinSorted (st.store.game.filterMap (fun e =>
      let g := e.1
      if g.wallet = w && !g.withdrawn && spentByUnmined st.store g.tx g.vout then some s!"{g.tx}:{g.vout}" else none))
    let sp := joinSorted ((Spec.Pending.flaggedDeposits st.own st.specChain st.specPend w).map (fun d => s!"{d.tx}:{d.idx}"))
    (st, m ++ "\t" ++ sp)
  | ["shistp", w] =>
    if !st.wallets.contains w then (st, "err\terr") else
    let sp := joinSorted ((Spec.Pending.pendingDeposits (specEnv st) st.specPend).filterMap (fun d =>
      match d.2.1.cls with
      | .stk f => if d.1 = w then some s!"{d.2.2.2.id}:{d.2.2.1}:{d.2.1.amt}:0:{f}:0@{d.2.1.addr}" else none
      | _ => none))
    (st, joinSorted (st.store.pendGame.filterMap (fun e =>
      let (w', b, tx, vout) := e.1
      if w' = w && !b then
        match AMap.get st.store.pendCred (tx, vout) with
        | some c => some s!"{tx}:{vout}:{c.amt}:0:{(c.maturity + 2^32 - 1) % 2^32}:0@{c.sh}"
        | none => none
      else none)) ++ "\t" ++ sp)
  | ["bhistp", w] =>
    if !st.wallets.contains w then (st, "err\terr") else
    let sp := joinSorted ((Spec.Pending.pendingDeposits (specEnv st) st.specPend).filterMap (fun d =>
      let item (t : String) := s!"{d.2.2.2.id}:{d.2.2.1}:{d.2.1.amt}:0:0@{d.2.1.addr}>{t}"
      if d.1 ≠ w then none else
      match d.2.1.cls with
      | .bindOld t => some (item t)
      | .bindNew t => some (item t)
      | _ => none))
    (fun m => (st, m ++ "\t" ++ sp)) (joinSorted (st.store.pendGame.filterMap (fun e =>
      let (w', b, tx, vout) := e.1
      if w' = w && b then
        match AMap.get st.store.pending tx, AMap.get st.store.pendCred (tx, vout) with
        | some t, some _ =>
          match t.outs[vout]? with
          | some o =>
            let tgt := match o.cls with | .bindOld x => x | .bindNew x => x | _ => "?"
            some s!"{tx}:{vout}:{o.amt}:0:0@{o.addr}>{tgt}"
          | none => none
        | _, _ => none
      else none)))
  | ["wseq", w, coin, lt] =>
    -- CreateRawTransaction with one explicit input: constructTxIn's sequence rule (tx.go)
    match coin.splitOn ":", lt.toNat? with
    | [t, i], some lock =>
      match i.toNat? with
      | none => (st, "bad-op")
      | some idx =>
        let dflt := if lock ≠ 0 then 2^64 - 2 else 2^64 - 1
        -- model: existsMsgTx (unspent index → credit key → tx record → FetchTxByLoc), ParsePkScript of the
        -- previous output, then the switch `MW.Model.WithdrawSeq.seqChoice` — the function
        -- `MW.Props.C10.withdraw_sequence` is about — with prevHeight = the height of the credit's block
        let m := match (coinsOf st.store w).find? (fun c => c.tx = t && c.idx = idx) with
          | some c =>
            (match AMap.get st.store.txrecs (c.tx, c.blk) with
            | none => "err"
            | some loc =>
              match st.txAt c.blk.height loc with
              | some tx =>
                if tx.id ≠ c.tx then "err" else
                (match tx.outs[idx]? with
                -- the warm-up height is a value of the run: `seqChoice` (stated with the regenerated constant) is
                -- evaluated at the height translated by the difference (`MW.Lemmas.WithdrawSeq.enforceWarmUp_shift`)
                | some o => s!"seq {Model.WithdrawSeq.seqChoice lock o.cls (c.blk.height + (Gen.Vm.massip2WarmUpHeight - st.warm))}"
                | none => "err")
              | none => "err")
          | none => "err"
        -- spec: a staking deposit must be spent with sequence frozen+1 (consensus sequence lock); a binding deposit mined at
        -- or above the MASSIP-2 warm-up height with MASSIP0002BindingLockedPeriod (the script engine's rule under ScriptMASSip2)
        let sp := match (Spec.Chain.coinsOfWallet (Spec.Chain.ledgerOf st.own st.specChain) w).find? (fun c => c.tx = t && c.idx = idx) with
          | some c => (match c.cls with
            | .stk f => s!"seq {f + 1}"
            | .bindOld _ | .bindNew _ => if st.warm ≤ c.height then s!"seq {Gen.Vm.bindingLockedPeriod}" else s!"seq {dflt}"
            | _ => s!"seq {dflt}")
          | none => "err"
        (st, m ++ "\t" ++ sp)
    | _, _ => (st, "bad-op")
  | ["wallets"] =>
    (st, joinSorted (st.store.status.map (fun e =>
      e.1 ++ ":" ++ (if e.2.removed then "removing" else match e.2.synced with
        | none => "ready" | some h => s!"importing@{h}"))))
  | _ => (st, "bad-op")

end MW.Drv.Led
