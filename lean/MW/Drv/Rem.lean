/- driver engine `rem` (C08): wallet removal stepped transaction by transaction, residue scan, re-import;
   op language: go/cmd/harness/eng_imp.go.  Everything that is not a removal op is delegated to
   MW.Drv.Imp (which delegates base ops to MW.Drv.Led.step). -/
import MW.Drv.Imp
import MW.Model.Remove
namespace MW.Drv.Rem
open MW MW.Model.Ledger MW.Model.Remove MW.Drv.Imp

abbrev St := Imp.St
def init : St := {}

def gateTok : GateRes → String
  | .ok => "ok" | .busy => "err-busy" | .noWallet => "err-nowallet" | .badPass => "err-pass"
  | .unready => "err-unready" | .err => "err"

/-- entries of every bucket that mention the wallet id, one of its script hashes or addresses
    (what the raw scan of the harness counts), keyed by bucket path -/
def residueCounts (l : Led.St) (w : Wid) (addrs : List Addr) : List (String × Nat) :=
  let s := l.store
  [ ("k", if l.wallets.contains w then 1 else 0),
    ("s/ws", if (AMap.get s.status w).isSome then 1 else 0),
    ("t/LG", (s.pendGame.filter (fun e => e.1.1 = w)).length),
    ("t/lg", (s.game.filter (fun e => e.1.wallet = w)).length),
    ("u/a", (s.addrs.filter (fun e => e.1.1 = w)).length),
    ("u/bal", if (AMap.get s.balance w).isSome then 1 else 0),
    ("u/c", (s.credits.filter (fun e => addrs.contains e.2.sh)).length),
    ("u/mc", (s.pendCred.filter (fun e => addrs.contains e.2.sh)).length),
    ("u/u", (s.unspent.filter (fun e => e.1.1 = w)).length) ]

def pendMention (l : Led.St) (addrs : List Addr) : Nat :=
  (l.store.pending.filter (fun e => e.2.outs.any (fun o => o.cls != .raw && addrs.contains o.addr))).length

def countsTok (cs : List (String × Nat)) : String :=
  Led.joinSorted ((cs.filter (fun c => c.2 > 0)).map (fun c => s!"{c.1}:{c.2}"))

/-- one transaction of asyncRemove for the parked wallet -/
def remStep1 (st : St) (two : Bool) : St × String :=
  let i := getI st two
  let l := i.led
  match i.rm with
  | none => (st, "bad-op")
  | some w =>
    match removeStep Gen.Handler.removeCreditStep (Led.ctx l) w (Model.Import.managed l.own w) l.store with
    | none => (setI st two { i with rm := none }, "done-err")
    | some o =>
      let l := { l with store := o.s, vol := removeMempool l.vol o.removedTx }
      if o.finish then
        -- the set of ready wallets changed: the spec-level pending set keeps what is relevant to a wallet that is left
        let l' := dropKeystore l w
        let l' := { l' with specPend := Spec.Pending.onWalletsChanged (Led.specEnv l') l'.specPend }
        -- (the one promise of the specification the code cannot keep after a removal — orphaned coinbase coins of
        --  the removed wallet — is handled in `Imp.pendSpecOn` through `goneAddrs`)
        (setI st two { i with led := l', rm := none, goneAddrs := i.goneAddrs ++ addrsOf st w }, "done-ok")
      else (setI st two { i with led := l }, "parked")

def instStep (st : St) (two : Bool) (args : List String) : St × String :=
  let i := getI st two
  let l := i.led
  match args with
  | ["remove", w, pass] =>
    if (AMap.get st.known w).isNone then (st, "bad-op") else
    let (r, s') := removeWallet i.queue.length l.wallets (pass == "good") l.store w
    let q := if r = .ok then i.queue ++ [(true, w)] else i.queue
    -- the gate IS the property (passphrase, ready, queue): MW.Props.C08.remove_gated; model answer = spec answer
    (setI st two { i with led := { l with store := s' }, queue := q }, gateTok r ++ "\t" ++ gateTok r)
  | ["rembegin", w] =>
    if (AMap.get st.known w).isNone || i.rm.isSome then (st, "bad-op") else
    -- the worker runs asyncRemove only for a queued task, i.e. a wallet flagged for removal (or already gone)
    if (match AMap.get l.store.status w with | some ws => !ws.removed | none => false) then (st, "bad-op") else
    let i := { i with begun := true }
    if !l.wallets.contains w then (setI st two i, "done-ok")     -- keystore not found: asyncRemove returns nil
    else if i.quit then (setI st two i, "done-abort")
    else (setI st two { i with rm := some w }, "parked")
  | ["remstep"] => remStep1 st two
  | ["remsteps", ns] =>
    match ns.toNat? with
    | none => (st, "bad-op")
    | some n =>
      -- a removal must have been begun (finished or not); then up to n transactions, silently
      if !i.begun then (st, "bad-op") else
      ((List.range n).foldl (fun st _ => if (getI st two).rm.isSome then (remStep1 st two).1 else st) st, "ok")
  | ["remquit"] =>
    match i.rm with
    | none => (st, "bad-op")
    | some _ => (setI st two { i with rm := none, quit := true }, "done-abort")
  | ["residue", w] =>
    if (AMap.get st.known w).isNone then (st, "bad-op") else
    let m := countsTok (residueCounts l w (addrsOf st w))
    -- spec: once the wallet is gone (no keystore, no status) nothing may mention it
    if !l.wallets.contains w && (AMap.get l.store.status w).isNone then (st, m ++ "\t-") else (st, m)
  | ["dangling"] =>
    -- debit records whose credit is missing / credits flagged spent whose debit is missing.
    -- spec: none, at any moment (in the books of a chain every debit has its credit and every spent credit its
    -- debit: MW.Lemmas.RemoveBooks.debit_credit / spKey_debit; a removal step deletes a credit WITH its debit and,
    -- D45, keeps the tx record through which Rollback reaches what is left)
    let s := l.store
    let ds := s.debits.filterMap (fun e =>
      if (AMap.get s.credits e.2.2).isNone then some s!"d:{e.1.tx}:{e.1.idx}" else none)
    let cs := s.credits.filterMap (fun e =>
      if e.2.spent then
        match e.2.spentBy with
        | some dk => if (AMap.get s.debits dk).isNone then some s!"c:{e.1.tx}:{e.1.idx}" else none
        | none => some s!"c:{e.1.tx}:{e.1.idx}"
      else none)
    (st, Led.joinSorted (ds ++ cs) ++ "\t-")
  | ["pendmention", w] =>
    if (AMap.get st.known w).isNone then (st, "bad-op") else
    let n := pendMention l (addrsOf st w)
    (st, if n = 0 then "-" else s!"t/m:{n}")
  | _ => Imp.instStepN st two args

def step (st : St) (args : List String) : St × String := Imp.route instStep st args

end MW.Drv.Rem
