/- driver engine `bip32`: C14 model + spec behind the line protocol.
   The cryptographic primitives are instantiated with look-up tables of FACTS supplied on the op
   line by the Go harness (H= S= R= G= A= P= tokens, see go/cmd/harness/eng_bip32.go); a fact that
   is asked for but was not supplied yields a 0xEE… sentinel (⇒ a visible disagreement). -/
import MW.Model.Bip32
import MW.Spec.Bip32
namespace MW.Drv.Bip32
open MW

structure St where
  unit : Unit := ()
def init : St := {}

structure Oracle where
  hmac : List (Bytes × Bytes × Bytes) := []
  sha : List (Bytes × Bytes) := []
  rmd : List (Bytes × Bytes) := []
  mulG : List (Nat × Bytes) := []
  add : List (Bytes × Bytes × Bytes) := []
  parse : List (Bytes × Option Bytes) := []

def sentinel (n : Nat) : Bytes := List.replicate n 0xEE

def lookup {α β} [BEq α] (l : List (α × β)) (a : α) : Option β := (l.find? (·.1 == a)).map (·.2)

def Oracle.hash (o : Oracle) : HashOps where
  hmac512 k d := ((o.hmac.find? (fun e => e.1 == k && e.2.1 == d)).map (·.2.2)).getD (sentinel 64)
  sha256 d := (lookup o.sha d).getD (sentinel 32)
  ripemd160 d := (lookup o.rmd d).getD (sentinel 20)

def xZero (p : Bytes) : Bool := (p.drop 1).all (· == 0)

def Oracle.curve (o : Oracle) : CurveOps where
  Pt := Bytes
  n := Gen.Bip32.secp256k1N
  mulG k := (lookup o.mulG k).getD (sentinel 33)
  add p q := ((o.add.find? (fun e => e.1 == p && e.2.1 == q)).map (·.2.2)).getD (sentinel 33)
  enc p := p
  parse b := (lookup o.parse b).getD none
  xyZero p := xZero p
  isInf p := xZero p

def net : NetOps where
  privVersion := Gen.Bip32.hdPrivateKeyID.map UInt8.ofNat
  pubVersion v := if v = Gen.Bip32.hdPrivateKeyID.map UInt8.ofNat then some (Gen.Bip32.hdPublicKeyID.map UInt8.ofNat) else none

/-- split "X=a:b:c" payload into decoded byte fields -/
def fields (s : String) : Option (List Bytes) :=
  (s.splitOn ":").mapM Hex.decode

def addTok (o : Oracle) (t : String) : Option Oracle :=
  let body := (t.drop 2).toString
  let optB (s : String) : Option (Option Bytes) := if s = "-" then some none else (Hex.decode s).map some
  if t.startsWith "H=" then
    match fields body with | some [k, d, r] => some { o with hmac := (k, d, r) :: o.hmac } | _ => none
  else if t.startsWith "S=" then
    match fields body with | some [d, r] => some { o with sha := (d, r) :: o.sha } | _ => none
  else if t.startsWith "R=" then
    match fields body with | some [d, r] => some { o with rmd := (d, r) :: o.rmd } | _ => none
  else if t.startsWith "G=" then
    match fields body with | some [k, r] => some { o with mulG := (BE.ofBytes k, r) :: o.mulG } | _ => none
  else if t.startsWith "A=" then
    match fields body with | some [p, q, r] => some { o with add := (p, q, r) :: o.add } | _ => none
  else if t.startsWith "P=" then
    match body.splitOn ":" with
    | [b, r] => match Hex.decode b, optB r with
      | some b, some r => some { o with parse := (b, r) :: o.parse }
      | _, _ => none
    | _ => none
  else none

def isOracleTok (t : String) : Bool :=
  match t.toList with
  | _ :: '=' :: _ => true
  | _ => false

def parsePath (s : String) : Option (List Nat) :=
  if s = "-" then some [] else (s.splitOn ",").mapM String.toNat?

def str (b : Bytes) : String := stringOfAscii b
def errTok (e : Bip32Err) : String := "err " ++ e.tok

abbrev MK := Model.Bip32.XKey

def run (o : Oracle) (args : List String) : String :=
  let C := o.curve
  let H := o.hash
  let N := net
  match args with
  | ["path", seed, path] =>
    match Hex.decode seed, parsePath path with
    | some seed, some path =>
      let m := match Model.Bip32.derivePath C H N seed path with
        | .error e => errTok e
        | .ok k => match Model.Bip32.neuter C N k, Model.Bip32.ecPrivKey k with
          | .ok p, some d => s!"ok {str (Model.Bip32.toString C H k)} {str (Model.Bip32.toString C H p)} {Hex.encode d}"
          | .error e, _ => errTok e
          | _, none => "err not-private"
      let s := match Spec.Bip32.derivePath C H N seed path with
        | .error e => errTok e
        | .ok x => match Spec.Bip32.neuter C N x, Spec.Bip32.privBytes C x with
          | .ok p, some d => s!"ok {str (Spec.Bip32.toString C H x)} {str (Spec.Bip32.toString C H p)} {Hex.encode d}"
          | .error e, _ => errTok e
          | _, none => "err not-private"
      m ++ "\t" ++ s
    | _, _ => "bad-op"
  | ["xpath", s, path] =>
    match parsePath path with
    | some path =>
      let sb := bytesOfString s
      let m := match Model.Bip32.keyFromString C H sb with
        | .error e => errTok e
        | .ok k => match Model.Bip32.deriveFrom C H k path with
          | .error e => errTok e
          | .ok k =>
            if k.isPrivate then
              match Model.Bip32.neuter C N k with
              | .ok p => s!"ok {str (Model.Bip32.toString C H k)} {str (Model.Bip32.toString C H p)}"
              | .error e => errTok e
            else s!"ok {str (Model.Bip32.toString C H k)}"
      let sp := match Spec.Bip32.parse C H sb with
        | .error e => errTok e
        | .ok x => match Spec.Bip32.deriveFrom C H x path with
          | .error e => errTok e
          | .ok x =>
            match x.key with
            | .priv _ => match Spec.Bip32.neuter C N x with
              | .ok p => s!"ok {str (Spec.Bip32.toString C H x)} {str (Spec.Bip32.toString C H p)}"
              | .error e => errTok e
            | .pub _ => s!"ok {str (Spec.Bip32.toString C H x)}"
      m ++ "\t" ++ sp
    | none => "bad-op"
  | ["parse", h] =>
    match Hex.decode h with
    | some sb =>
      let m := match Model.Bip32.keyFromString C H sb with
        | .error e => errTok e
        | .ok k => s!"ok {if k.isPrivate then 1 else 0} {str (Model.Bip32.toString C H k)}"
      let sp := match Spec.Bip32.parse C H sb with
        | .error e => errTok e
        | .ok x => s!"ok {match x.key with | .priv _ => 1 | .pub _ => 0} {str (Spec.Bip32.toString C H x)}"
      m ++ "\t" ++ sp
    | none => "bad-op"
  | ["b58e", h] =>
    match Hex.decode h with
    | some b => s!"ok {Hex.encodeTok (Model.Base58.encode b)}\tok {Hex.encodeTok (Spec.Bip32.Base58.encode b)}"
    | none => "bad-op"
  | ["b58d", h] =>
    match Hex.decode h with
    | some b => s!"ok {Hex.encodeTok (Model.Base58.decode b)}\tok {Hex.encodeTok ((Spec.Bip32.Base58.decode? b).getD [])}"
    | none => "bad-op"
  | _ => "bad-op"

def step (st : St) (args : List String) : St × String :=
  let ops := args.filter (fun t => !isOracleTok t)
  let toks := args.filter isOracleTok
  match toks.foldlM addTok ({} : Oracle) with
  | none => (st, "bad-op")
  | some o => (st, run o ops)

end MW.Drv.Bip32
