/- driver engine `api` (C19): runs the handler skeletons of MW.Model.Api against an oracle that answers
   the abstract calls from the request and from the ledger model state (see go/cmd/harness/eng_api.go).

   call M ARGS…  -> model "done", spec "done" (the spec of C19: a request ends without a panic); the class
                    the skeleton run ends in is remembered
   res           -> that class: ok | e<code> | deep   (model only)
   The skeleton run stops at a `mark` (outcome depends on coin selection / fees / script engine / node):
   class `deep`. The classes listed in `deepSet` are reported as `deep` as well (same table as the harness). -/
import MW.Model.Api
import MW.Model.ApiLedger
import MW.Model.ApiFollow
import MW.Model.Amount
import MW.Drv.Led
namespace MW.Drv.Api
open MW MW.Model.Api MW.Model.Ledger

structure St where
  led : Led.St := {}
  cur : Option String := none
  removing : List String := []      -- RemoveWallet accepted, removal not run
  gone : List String := []          -- removed completely
  exported : List String := []
  importing : List String := []
  apiWallets : List String := []    -- wallets that exist (created by `wallet` or imported)
  last : String := "none"
  deriving Inhabited

def init : St := {}

-- ------------------------------------------------------------------ tokens

def splitOn1 (s : String) (sep : Char) : String × String :=
  match s.splitOn (String.singleton sep) with
  | [] => ("", "")
  | a :: rest => (a, (String.singleton sep).intercalate rest)

def listOf (tok : String) : List String := if tok = "-" then [] else tok.splitOn ","

def asciiBytes (s : String) : Bytes := s.toUTF8.toList

/-- literal bytes of a token, if it is a literal -/
partial def litBytes (tok : String) : Option Bytes :=
  if tok = "-" then some []
  else if tok.startsWith "a:" then some (asciiBytes (tok.drop 2).toString)
  else if tok.startsWith "h:" then Hex.decode (tok.drop 2).toString
  else if tok.startsWith "rep:" then
    match (tok.drop 4).toString.splitOn ":" with
    | [n, b] => match n.toNat?, Hex.decode b with
      | some k, some bs => some ((List.replicate k bs).flatten)
      | _, _ => none
    | _ => none
  else if tok.startsWith "cut:" then
    let rest := (tok.drop 4).toString
    let (n, t) := splitOn1 rest ':'
    match n.toNat?, litBytes t with
    | some k, some bs => some (bs.take k)
    | _, _ => none
  else none

def isHexByte (b : UInt8) : Bool := (48 ≤ b && b ≤ 57) || (97 ≤ b && b ≤ 102) || (65 ≤ b && b ≤ 70)

def privPassLen (w : String) : Nat := 4 + w.length + 7

/-- length in bytes of the string a token stands for -/
partial def tokLen (tok : String) : Nat :=
  match litBytes tok with
  | some bs => bs.length
  | none =>
    if tok.startsWith "wid:" then 42
    else if tok.startsWith "pass:" then privPassLen (tok.drop 5).toString
    else if tok.startsWith "tx:" || tok.startsWith "txu:" then 64
    else if tok.startsWith "addr:" || tok.startsWith "xaddr:" || tok.startsWith "saddr:" then 63
    else if tok.startsWith "pkh:" || tok.startsWith "bt:" then 40
    else if tok.startsWith "ks:" then 1000
    else if tok.startsWith "mn:" then 80
    else if tok.startsWith "raw:" then 200
    else if tok.startsWith "cut:" then
      let (n, t) := splitOn1 (tok.drop 4).toString ':'
      min (n.toNat?.getD 0) (tokLen t)
    else tok.length

def walletOfTok (tok : String) : Option String :=
  if tok.startsWith "wid:" then some (tok.drop 4).toString else none

def liveWallet (st : St) (w : String) : Bool := st.apiWallets.contains w && !st.gone.contains w

/-- the symbolic transaction a txid token names (known to the harness) -/
def txOfTok (st : St) (tok : String) : Option Tx :=
  if tok.startsWith "tx:" then AMap.get st.led.txs (tok.drop 3).toString else none

/-- can wire.NewHashFromStr read it? (at most 64 hex characters) -/
def hashOk (tok : String) : Bool :=
  if tok.startsWith "tx:" || tok.startsWith "txu:" then true
  else match litBytes tok with
    | some bs => bs.length ≤ 64 && bs.all isHexByte
    | none => false

inductive AddrKind | ownStd (a : String) | ownStk (a : String) | otherStd (a : String) | otherStk (a : String)
  | stranger | strangerStk | target | bad
  deriving Repr, Inhabited, DecidableEq

def addrKind (st : St) (tok : String) : AddrKind :=
  let owner (a : String) : Option String := (AMap.get st.led.own a).map (·.1)
  if tok.startsWith "addr:" then
    let a := (tok.drop 5).toString
    match owner a with
    | some w => if some w = st.cur then .ownStd a else .otherStd a
    | none => if a.startsWith "X" then .stranger else .bad
  else if tok.startsWith "saddr:" then
    let a := (tok.drop 6).toString
    match owner a with
    | some w => if some w = st.cur then .ownStk a else .otherStk a
    | none => if a.startsWith "X" then .strangerStk else .bad
  else if tok.startsWith "xaddr:" then .stranger
  else if tok.startsWith "pkh:" || tok.startsWith "bt:" then .target
  else .bad

def AddrKind.decodes : AddrKind → Bool | .bad => false | _ => true
def AddrKind.isWitness : AddrKind → Bool | .bad => false | .target => false | _ => true
def AddrKind.isStaking : AddrKind → Bool | .ownStk _ => true | .otherStk _ => true | .strangerStk => true | _ => false
/-- is the string the key of an address of the wallet in use (AddrManager.Address: standard encoding)? -/
def AddrKind.inCur : AddrKind → Bool | .ownStd _ => true | _ => false
/-- does the script hash belong to the wallet in use? -/
def AddrKind.shInCur : AddrKind → Bool | .ownStd _ => true | .ownStk _ => true | _ => false

def amountOk (tok : String) : Bool :=
  match litBytes tok with
  | some bs => match Model.Amount.parse bs with | .ok _ => true | .error _ => false
  | none => false

-- ------------------------------------------------------------------ request view

structure Req where
  m : String
  a : List String
  deriving Inhabited

def Req.arg (r : Req) (i : Nat) : String := r.a.getD i "-"

/-- inputs "tok/vout,…" -/
def parseIns (tok : String) : List (String × Nat) :=
  (listOf tok).map (fun t => let (x, v) := splitOn1 t '/'; (x, v.toNat?.getD 0))

/-- map "k>v,…" (Go map: duplicate keys collapse; the harness generates distinct keys) -/
def parseMap (tok : String) : List (String × String) :=
  (listOf tok).map (fun t => splitOn1 t '>')

def parseOuts (tok : String) : List (String × String × String) :=
  (listOf tok).map (fun t => match t.splitOn "/" with
    | [h, b, am] => (h, b, am)
    | [h, b] => (h, b, "-")
    | [h] => (h, "-", "-")
    | _ => ("-", "-", "-"))

/-- positional layout of every handler: where its inputs / amounts / … live -/
def Req.inputs (r : Req) : List (String × Nat) :=
  match r.m with
  | "CreateRawTransaction" => parseIns (r.arg 0)
  | "GetTransactionFee" => parseIns (r.arg 1)
  | _ => []

def Req.amounts (r : Req) : List (String × String) :=
  match r.m with
  | "CreateRawTransaction" => parseMap (r.arg 1)
  | "AutoCreateTransaction" => parseMap (r.arg 0)
  | "GetTransactionFee" => parseMap (r.arg 0)
  | _ => []

def Req.outputs (r : Req) : List (String × String × String) :=
  match r.m with
  | "CreateBindingTransaction" => parseOuts (r.arg 0)
  | _ => []

def Req.pass (r : Req) : String :=
  match r.m with
  | "SignRawTransaction" => r.arg 2
  | "ImportWallet" => r.arg 1
  | "ImportMnemonic" => r.arg 1
  | "CreateWallet" => r.arg 1
  | "ExportWallet" | "RemoveWallet" | "GetWalletMnemonic" => r.arg 1
  | _ => "-"

def Req.wid (r : Req) : String := r.arg 0

def Req.fee (r : Req) : String :=
  match r.m with
  | "AutoCreateTransaction" => r.arg 2
  | "CreateStakingTransaction" => r.arg 4
  | "CreateBindingTransaction" => r.arg 2
  | _ => "-"

def Req.from (r : Req) : String :=
  match r.m with
  | "AutoCreateTransaction" => r.arg 3
  | "CreateStakingTransaction" => r.arg 0
  | "CreateBindingTransaction" => r.arg 1
  | "CreatePoolPkCoinbaseTransaction" => r.arg 0
  | _ => "-"

def Req.addresses (r : Req) : List String :=
  match r.m with
  | "GetAddressBalance" => listOf (r.arg 1)
  | "GetUtxo" => listOf (r.arg 0)
  | _ => []

def Req.hexArg (r : Req) : String := r.arg 0

/-- the raw transaction a hex token decodes to -/
def rawTxOf (st : St) (tok : String) : Option Tx :=
  if tok.startsWith "raw:" then AMap.get st.led.txs (tok.drop 4).toString else none

def hexDecodes (tok : String) : Bool :=
  if tok.startsWith "raw:" then true
  else match litBytes tok with
    | some bs => bs.all isHexByte      -- an odd length gets a leading "0"
    | none => false

def vget (σ : State) (x : String) : Nat := σ (V x)

-- ------------------------------------------------------------------ ledger lookups (txmgr as seen by the API)

/-- TxStore.ExistsTx: the model function the contract theorems are about (MW.Model.ApiLedger.existsTx: an unspent
    of the wallet in use, else any credit with that outpoint; the transaction is re-read from the node at the
    recorded location and must carry the requested id) -/
def existsTxM (st : St) (tx : String) (vout : Nat) : Option (Tx × BlockMeta) :=
  Model.ApiLedger.existsTx (Led.lenOf st.led.shape) st.led.store st.led.node (st.cur.getD "") tx vout

def existsTx (st : St) (tx : String) (vout : Nat) : Bool := (existsTxM st tx vout).isSome

def pendingTx (st : St) (tx : String) : Option Tx := AMap.get st.led.store.pending tx

def nOutsOf (st : St) (tx : String) : Nat :=
  match AMap.get st.led.txs tx with
  | some t => t.outs.length
  | none => 0

def outOf (st : St) (tx : String) (vout : Nat) : Option Out :=
  match AMap.get st.led.txs tx with
  | some t => t.outs[vout]?
  | none => none

/-- TxStore.ExistsUtxo: 0 = found unspent, 1 = found spent, 2 = not found / error (MW.Model.ApiLedger.existsUtxo, the
    function the ghost-state contract theorem MW.Props.C19.contract_ledger_ExistsUtxo_partial is about) -/
def existsUtxo (st : St) (tx : String) (vout : Nat) : Nat :=
  Model.ApiLedger.existsUtxo st.led.store (st.cur.getD "") tx vout

def ownedByCur (st : St) (o : Out) : Bool :=
  o.cls != .raw && (match AMap.get st.led.own o.addr with | some (w, _) => some w = st.cur | none => false)

-- ------------------------------------------------------------------ the oracle

/-- the amount string the StringToAmount call is about -/
def curAmount (r : Req) (σ : State) : String :=
  match vget σ "amt.sel" with
  | 0 =>
    let i := match r.m with
      | "GetTransactionFee" => if vget σ "gtf.b" != 0 then vget σ "gtf.i" else vget σ "gtf.j"
      | _ => vget σ "cr.a"
    ((r.amounts.getD i ("-", "-")).2)
  | 1 => r.fee
  | 2 => r.arg 2                                  -- CreateStakingTransaction amount
  | 3 => "a:1.0"                                  -- cfg.Wallet.Settings.MaxTxFee (default)
  | 4 => "a:1.0"
  | 5 =>
    let i := if vget σ "addr.sel" = 3 then vget σ "cb.o" else vget σ "cb.i"
    ((r.outputs.getD i ("-", "-", "-")).2.2)
  | _ => "-"

def curAddrTok (r : Req) (σ : State) : String :=
  match vget σ "addr.sel" with
  | 1 => r.from
  | 2 => r.arg 1                                  -- staking address
  | 3 => (r.outputs.getD (vget σ "cb.o") ("-", "-", "-")).1
  | 4 => r.arg 4                                  -- change address (AutoCreate)
  | 5 => (r.amounts.getD (vget σ "gtf.i") ("-", "-")).1
  | _ => "-"

/-- the address checkAddressLen looks at -/
def lenAddrTok (r : Req) (σ : State) : String :=
  match r.m with
  | "ValidateAddress" => r.arg 0
  | "GetAddressBalance" => r.addresses.getD (vget σ "gab.i") "-"
  | "GetUtxo" => r.addresses.getD (vget σ "gu.i") "-"
  | "TxHistory" => r.arg 1
  | _ => (r.amounts.getD (vget σ "cr.a") ("-", "-")).1

def curInput (r : Req) (σ : State) : String × Nat := r.inputs.getD (vget σ "cur.in") ("-", 0)

def txNameOf (tok : String) : String := if tok.startsWith "tx:" then (tok.drop 3).toString else "?" ++ tok

def b2n (b : Bool) : Nat := if b then 1 else 0

def partsOf (tok : String) : List Bytes :=
  match litBytes tok with
  | some bs => Dec.splitDot bs
  | none => [[]]

/-- the signed/decoded transaction of the request -/
def reqTx (st : St) (r : Req) : Option Tx := rawTxOf st r.hexArg

def signInput (st : St) (r : Req) (σ : State) : String × Nat :=
  match reqTx st r with
  | some t => match t.ins[vget σ "cur.in"]? with
    | some i => (i.tx, i.idx)
    | none => ("?", 0)
  | none => ("?", 0)

/-- oracle answers; unknown calls answer 0 (nil / false / empty) -/
def oracle (st : St) (r : Req) : Oracle := fun f σ =>
  let curIn : String × Nat :=
    if r.m = "SignRawTransaction" then signInput st r σ else (txNameOf (curInput r σ).1, (curInput r σ).2)
  let curOut : Option Out := outOf st curIn.1 curIn.2
  match f with
  | "mark:deep" | "mark:node" =>
    -- signing an own, plain output with the right passphrase and an ALL flag succeeds: the run goes on to
    -- the next input; everything else is left to the script engine / coin selection (`deep`)
    if r.m = "SignRawTransaction" then
      -- a staking input only verifies with the sequence its script demands (frozen period + 1)
      let seqOk := match curOut, reqTx st r with
        | some o, some t =>
          (match o.cls with
           | .stk f => (match t.ins[vget σ "cur.in"]? with | some i => i.seq = f + 1 | none => false)
           | _ => true)
        | _, _ => true
      let own := match curOut with | some o => ownedByCur st o && seqOk | none => false
      let single := r.arg 1 = "a:SINGLE" || r.arg 1 = "a:SINGLE|ANYONECANPAY"
      let nOuts := match reqTx st r with | some t => t.outs.length | none => 0
      let signs := !single || vget σ "cur.in" < nOuts        -- SigHashSingle needs a matching output
      let foreign := match curOut with | some o => !ownedByCur st o | none => true
      -- an output of another wallet / a stranger: the redeem script is not found (ErrUnexpectedPubKeyToSign)
      [b2n (signs && st.cur.isSome && (foreign || (own && r.pass = "pass:" ++ st.cur.getD "")))]
    else [0]
  | "not SigHashSingle or i < len(tx.TxOut)" => [1]
  | "txscript.SignTxOutputWit" =>
    [if (match curOut with | some o => !ownedByCur st o | none => true) then Model.Api.E.utxoNotExists else 0]
  | "cacheMeta[txIn.PreviousOutPoint.Hash]" => [b2n (existsTx st curIn.1 curIn.2)]
  | "txscript.NewEngine" => [1, 0]
  | "vm.Execute" => [0]
  | "tx.Bytes" => [0]
  | "SignTxOutputWit may call getScript" => [0]
  | "convertResponseError" =>
    let c := cvtErr (vget σ "err")
    [c, b2n (c = MW.Gen.ApiErr.unknownErr)]
  -- ---- validators
  | "len(pass) > LenPassMax || len(pass) < LenPassMin" => let n := tokLen r.pass; [b2n (n > 40 || n < 6)]
  | "len(walletId) != LenWalletId" => [b2n (tokLen r.wid != 42)]
  | "len(txId) != LenTxId" =>
    let t := match r.m with
      | "CreateRawTransaction" => (r.inputs.getD (vget σ "cr.i") ("-", 0)).1
      | "GetTransactionFee" => (r.inputs.getD (vget σ "gtf.k") ("-", 0)).1
      | _ => r.arg 0
    [b2n (tokLen t != 64)]
  | "len(addr) == 0 || len(addr) > AddressMaxLen" => let n := tokLen (lenAddrTok r σ); [b2n (n = 0 || n > 100)]
  | "len(mnemonic) out of range" => let n := tokLen (r.arg 0); [b2n (n > 256 || n < 38)]
  | "[]rune(remarks)" => [tokLen (r.arg 2)]
  | "locktime > math.MaxInt64" =>
    let lt := match r.m with | "CreateRawTransaction" => r.arg 2 | _ => r.arg 1
    [b2n ((lt.toNat?.getD 0) > 9223372036854775807)]
  | "isEmpty(obj)" =>
    [b2n (match vget σ "empty.sel" with
      | 1 => r.inputs.isEmpty
      | 3 => r.outputs.isEmpty
      | _ => r.amounts.isEmpty)]
  | "len(in.Inputs)" => [r.inputs.length]
  | "len(in.Amounts)" => [r.amounts.length]
  | "len(in.Outputs)" => [r.outputs.length]
  | "len(in.Addresses)" => [r.addresses.length]
  | "len(in.Subtractfeefrom)" => [(listOf (r.arg 4)).length]
  | "len(subfrom) == 0" => [b2n (tokLen ((listOf (r.arg 4)).getD (vget σ "cr.s") "-") = 0)]
  -- ---- StringToAmount
  | "strings.Split(s, \".\")" => [(partsOf (curAmount r σ)).length]
  | "range s1" => [((partsOf (curAmount r σ)).getD (vget σ "sta.p") []).length]
  | "part[i] < '0'" =>
    let b := (((partsOf (curAmount r σ)).getD (vget σ "sta.p") []).getD (vget σ "i") 0); [b2n (b < 48)]
  | "part[i] > '9'" =>
    let b := (((partsOf (curAmount r σ)).getD (vget σ "sta.p") []).getD (vget σ "i") 0); [b2n (b > 57)]
  | "nDigits == 0" => [b2n (((partsOf (curAmount r σ)).map List.length).sum = 0)]
  | "len(sFrac) > 8" => [b2n ((Dec.trimRight0 ((partsOf (curAmount r σ)).getD 1 [])).length > 8)]
  | "strconv.ParseInt(sInt)" => [0, b2n (!(amountOk (curAmount r σ)))]
  | "safetype.NewUint128FromUint" => [1]
  | "u.MulInt" | "u.AddInt" => [1, 0]
  | "massutil.NewAmount" => [1, 0]
  -- ---- AmountToString (formatting of amounts computed by the wallet: always representable)
  | "safetype.NewUint128FromInt" => [1, 0]
  | "u.AddUint(MaxwellPerMass)" => [1, 0]
  | "u.String" => [9]
  -- ---- addresses
  | "massutil.DecodeAddress" =>
    let t := match r.m with
      | "ValidateAddress" => r.arg 0
      | "TxHistory" => r.arg 1
      | _ => if vget σ "pbt.sel" != 0 then (r.outputs.getD (vget σ "cb.o") ("-", "-", "-")).2.1 else curAddrTok r σ
    let ok := (addrKind st t).decodes
    [b2n ok, b2n (!ok)]
  | "addr.(*massutil.AddressWitnessScriptHash)" => let w := (addrKind st (curAddrTok r σ)).isWitness; [b2n w, b2n w]
  | "witAddr.WitnessVersion() != 0" => [0]
  | "expectStaking" => [b2n (vget σ "addr.sel" = 2)]
  | "witAddr.WitnessExtendVersion() != 1" => [b2n (!(addrKind st (curAddrTok r σ)).isStaking)]
  | "witAddr.WitnessExtendVersion() != 0" => [b2n ((addrKind st (curAddrTok r σ)).isStaking)]
  | "massutil.IsValidBindingTarget" =>
    [b2n (addrKind st ((r.outputs.getD (vget σ "cb.o") ("-", "-", "-")).2.1) = .target)]
  | "massutil.IsWitnessV0Address(witAddr)" => let k := addrKind st (r.arg 0); [b2n (k.isWitness && !k.isStaking)]
  | "massutil.IsWitnessStakingAddress(witAddr)" => [b2n ((addrKind st (r.arg 0)).isStaking)]
  | "w.ksmgr.GetManagedAddressByScriptHashInCurrent" =>
    -- (err, notfound) for IsAddressInCurrent; (mAddr, err) for GetTxHistory
    if r.m = "TxHistory" then
      let inc := (addrKind st (r.arg 1)).shInCur
      if st.cur.isNone then [0, Model.Api.E.currentKeystoreNotFound]
      else if addrKind st (r.arg 1) = .target then [0, Model.Api.E.other]
      else [b2n inc, if inc then 0 else Model.Api.E.addressNotFound]
    else
      if st.cur.isNone then [Model.Api.E.currentKeystoreNotFound, 0]
      else if addrKind st (r.arg 0) = .target then [Model.Api.E.other, 0]     -- not a 32-byte script hash
      else if (addrKind st (r.arg 0)).shInCur then [0, 0] else [Model.Api.E.addressNotFound, 1]
  -- ---- hex / raw transactions
  | "in.RawTx: len == 0" | "len(in.Hex) == 0" => [b2n (tokLen r.hexArg = 0)]
  | "hex.DecodeString" => [1, b2n (!(hexDecodes r.hexArg))]
  | "tx.SetBytes" =>
    match reqTx st r with
    | some t => [0, if t.cb then 1 else t.ins.length, t.outs.length]
    | none => [1, 0, 0]
  | "mtx.SetBytes" | "msgtx.SetBytes" => [b2n ((reqTx st r).isNone && tokLen r.hexArg != 0)]
  | "flag is a known sighash name" =>
    let fl := r.arg 1
    [b2n (fl = "-" || ["a:ALL", "a:NONE", "a:SINGLE", "a:ALL|ANYONECANPAY", "a:NONE|ANYONECANPAY", "a:SINGLE|ANYONECANPAY"].contains fl)]
  -- ---- wallet state
  | "w.ksmgr.CurrentKeystore()" => [b2n st.cur.isSome]
  | "w.ksmgr.CurrentKeystore() after UseKeystoreForWallet" => [1]
  | "w.syncStore.GetWalletStatus" =>
    match walletOfTok r.wid with
    | some w => if liveWallet st w then [1, 0] else [0, Model.Api.E.other]
    | none => [0, Model.Api.E.other]
  | "ws.Ready() && !ws.IsRemoved()" =>
    match walletOfTok r.wid with
    | some w => [b2n (!st.removing.contains w && !st.importing.contains w)]
    | none => [0]
  | "ws.Ready()" =>
    match walletOfTok r.wid with
    | some w => [b2n (!st.importing.contains w)]
    | none => [0]
  | "w.ksmgr.UseKeystoreForWallet" => [0]
  | "am.Name() != name" => [0]
  | "w.utxoStore.GrossBalance" => [0]
  | "w.ksmgr.ChainParams()" => [1, 1]
  | "w.syncStore.SyncedTo" => [1, 0]
  | "w.utxoStore.WalletBalance" => [1, 0]
  | "WalletBalance result" => [1]
  | "queryDetail" => [b2n (r.arg 1 = "1")]
  | "in.RequiredConfirmations < 0" => [b2n ((r.arg 0).startsWith "-" && r.arg 0 != "-")]
  | "h.taskChan.IsBusy()" => [0]
  | "w.ksmgr.ExportKeystore" | "w.ksmgr.GetMnemonic" | "w.ksmgr.CheckPrivPassphrase" =>
    match walletOfTok r.wid with
    | some w =>
      if !liveWallet st w then [Model.Api.E.accountNotFound]
      else if r.pass = "pass:" ++ w then [0] else [Model.Api.E.invalidPassphrase]
    | none => [Model.Api.E.accountNotFound]
  | "w.syncStore.MarkDeleteWallet" => [0]
  | "w.syncStore.GetAllWalletStatus" => [st.apiWallets.length, 0]
  | "range list" => [1]
  | "w.ksmgr.GetAddrManagerByAccountID" => [1, 0]
  | "len(ret)" => [if r.m = "Wallets" then st.apiWallets.length else 0]
  | "range summaries" => [1, 1]
  | "massutil.IsValidAddressClass(uint16(in.Version))" =>
    let v := (r.arg (if r.m = "CreateAddress" then 1 else 0)).toInt?.getD 0
    let u := (v % 65536).toNat
    [b2n (u = 0 || u = 1)]
  | "w.utxoStore.GetAddresses" => [0, 0]
  | "len(stakingAddrs)" | "len(result)" | "sort.Slice: number of comparisons" => [0]
  | "unused address limit reached" =>
    match st.cur with
    | some w =>
      let v := ((r.arg 1).toInt?.getD 0 % 65536).toNat
      let stk := v = 1
      let recs := st.led.store.addrs.filter (fun e => e.1.1 = w)
      let unusedStk := (recs.filter (fun e => e.1.2.1 && e.2 = 0)).length
      -- standard listing: a standard record is used when it or the staking record of the same key is used
      let unusedStd := (recs.filter (fun e => !e.1.2.1 && e.2 = 0 &&
          !(recs.any (fun e' => e'.1.2.1 && e'.1.2.2 = e.1.2.2 && e'.2 != 0)))).length
      [b2n (if stk then unusedStk ≥ 8 else unusedStd ≥ 12)]
    | none => [0]
  | "w.ksmgr.NextAddresses" => [1, 0, 1]
  | "addrClass == AddressClassWitnessV0" => [b2n ((((r.arg 1).toInt?.getD 0) % 65536).toNat = 0)]
  | "addrClass == AddressClassWitnessStaking" => [b2n ((((r.arg 1).toInt?.getD 0) % 65536).toNat = 1)]
  | "w.utxoStore.PutNewAddress" => [0]
  | "len(addrs)" =>
    match r.m with
    | "GetAddressBalance" | "GetUtxo" => [r.addresses.length]
    | _ => [match st.cur with
        | some w => (st.led.issued.filter (fun x => x.2.1 = w)).length
        | none => 0]
  | "am.Address(addr)" =>
    let t := r.addresses.getD (if r.m = "GetUtxo" then vget σ "gus.i" else vget σ "ab.i") "-"
    let ok := (addrKind st t).inCur
    [b2n ok, if ok then 0 else Model.Api.E.addressNotFound]
  | "len(scriptSet) > 0" => [b2n (!r.addresses.isEmpty)]
  | "w.utxoStore.ScriptAddressBalance" | "w.utxoStore.ScriptAddressUnspents" => [0, 0]
  | "ScriptAddressUnspents: credits visited" | "len(creditsMap)" | "len(m)" => [0]
  | "len(in.Address) > 0" => [b2n (tokLen (r.arg 1) > 0)]
  | "len(addr) > 0" => [b2n (tokLen (r.arg 1) > 0)]
  | "in.Count > 1000" => [b2n ((r.arg 0).toNat?.getD 0 > 1000)]
  -- ---- manual create / sign / fee lookups
  | "wire.NewHashFromStr(input.TxId)" | "wire.NewHashFromStr(txin.TxId)" =>
    let ok := hashOk (curInput r σ).1; [b2n ok, b2n (!ok)]
  | "wire.NewHashFromStr" => let ok := hashOk (r.arg 0); [b2n ok, b2n (!ok)]
  | "input.Vout" | "utx.OutPoint.Index" | "txIn.PreviousOutPoint.Index" => [curIn.2]
  | "spent[*prevOut] exists" =>          -- the same (txid, vout) earlier in the request's input list
    [b2n ((r.inputs.take (vget σ "cur.in")).any (fun i => i.1 == (curInput r σ).1 && i.2 == (curInput r σ).2))]
  | "w.txStore.ExistsTx" =>
    Model.ApiLedger.existsTxAnswer Model.Api.E.notFound (existsTxM st curIn.1 curIn.2)
  | "w.txStore.ExistUnminedTx" =>
    Model.ApiLedger.existUnminedAnswer Model.Api.E.notFound (pendingTx st curIn.1)
  | "w.txStore.ExistsUtxo" =>
    Model.ApiLedger.existsUtxoAnswer Model.Api.E.notFound (existsUtxo st curIn.1 curIn.2)
  | "flags.Spent" => [b2n (existsUtxo st curIn.1 curIn.2 = 1)]
  | "cache[txIn.PreviousOutPoint.Hash]" =>
    -- a previous transaction seen at an earlier input of the same request
    match reqTx st r with
    | some t =>
      let k := vget σ "cur.in"
      let seen := (t.ins.take k).any (fun i => i.tx = curIn.1)
      [b2n seen, b2n seen, nOutsOf st curIn.1]
    | none => [0, 0, 0]
  | "prevTx.TxOut[i]" | "mtx.TxOut[i]" => [1]
  | "utils.ParsePkScript" =>
    match curOut with
    | some o => if o.cls = .raw then [0, Model.Api.E.unsupportedScript] else [1, 0]
    | none => [0, Model.Api.E.other]
  | "am.Address(pks.StdEncodeAddress())" =>
    [b2n (!(match curOut with | some o => ownedByCur st o | none => false))]
  | "pks.IsStaking()" => [b2n (match curOut with | some o => o.cls.isStaking | none => false)]
  | "pks.IsBinding()" => [b2n (match curOut with | some o => o.cls.isBinding | none => false)]
  | "totalValue.AddInt" => [0]
  | "len(senders)" => [r.inputs.length]
  | "len(changeAddr) == 0" => [b2n (tokLen (r.arg 3) = 0)]
  | "senders[0]" => [1]
  | "txscript.ExtractPkScriptAddrs" => [1, 0, 1]
  | "massutil.IsWitnessStakingAddress(addr)" => [b2n (match curOut with | some o => o.cls.isStaking | none => false)]
  | "massutil.NewAddressWitnessScriptHash" => [1]
  | "w.ksmgr.GetAddrManager" =>
    -- the address manager that owns the address (any wallet of this process)
    let owned := match curOut with | some o => (AMap.get st.led.own o.addr).isSome | none => false
    [b2n owned, b2n (!owned)]
  | "acctM.Address" => [1, 0]
  | "mAddr.RedeemScript" => [0]
  | "txscript.ExtractPkScriptAddrs(script)" => [0, 0]
  | "blockchain.CalcMinRequiredTxRelayFee" => [0]
  | "in.HasBinding" => [b2n (r.arg 2 = "1")]
  | "massutil.NewAddressStakingScriptHash(h[:])" => [1]
  | "wire.IsValidStakingValue" =>
    match litBytes (r.arg 2) with
    | some bs => match Model.Amount.parse bs with
      | .ok v => [b2n (v ≥ 204800000000)]
      | .error _ => [0]
    | none => [0]
  | "len(in.FromAddress) > 0" | "len(fromAddr) > 0" => [b2n (tokLen r.from > 0)]
  | "len(changeAddr) > 0" => [b2n (tokLen (r.arg 4) > 0)]
  | "totalOutValue.Add overflow" => [0]
  | "len(from) > 0" => [b2n (tokLen r.from > 0)]
  | "ks.Address(from)" => let ok := (addrKind st r.from).inCur; [b2n ok, if ok then 0 else Model.Api.E.addressNotFound]
  | "hex.DecodeString(in.Payload)" => [b2n (!(match litBytes (r.arg 1) with | some bs => bs.all isHexByte && bs.length % 2 = 0 | none => false))]
  | "blockchain.DecodePayload" => [0]
  | "len(in.PoolPubkeys)" => [(listOf (r.arg 0)).length]
  | "hex.DecodeString(pkStr)" =>
    let t := (listOf (r.arg 0)).getD (vget σ "cpp.i") "-"
    [b2n (!(match litBytes t with | some bs => bs.all isHexByte && bs.length % 2 = 0 | none => false))]
  | "w.utxoStore.GetUnminedBindingHistoryDetail" | "w.utxoStore.GetBindingHistoryDetail" => [0]
  | _ => []

/-- outcomes the model does not tell apart (same table as deepClasses in eng_api.go) -/
def deepSet (m : String) : List String :=
  match m with
  | "CreateRawTransaction" => ["ok", "e1524", "e1522", "e1523", "e1110", "e1521", "e1504", "e1703"]
  | "AutoCreateTransaction" | "CreateStakingTransaction" | "CreateBindingTransaction" | "CreatePoolPkCoinbaseTransaction" =>
    ["ok", "e1304", "e1109", "e1110", "e1301", "e1703", "e1503", "e1504", "e1501"]
  | "GetTransactionFee" => ["ok", "e1304", "e1109", "e1301", "e1503", "e1501"]
  | "SignRawTransaction" => ["ok", "e1106", "e1507", "e1701"]
  | "DecodeRawTransaction" => ["ok", "e1102"]
  | "TxHistory" => ["ok", "e1702"]
  | "GetTxStatus" => ["ok", "e1702"]
  | "GetRawTransaction" => ["ok", "e1101", "e1102", "e1202"]
  | "GetStakingHistory" => ["ok", "e1105"]
  | "GetBindingHistory" => ["ok", "e1702", "e1703"]
  | "GetNetworkBinding" | "CheckPoolPkCoinbase" => ["ok", "e1702"]
  | "CheckTargetBinding" => ["ok", "e1702", "e1703"]
  | "GetClientStatus" => ["ok"]
  | "SendRawTransaction" => ["node"]
  | _ => []

def handlerKey (m : String) : Option String :=
  let ws := ["GetClientStatus", "QuitClient", "SignRawTransaction", "CreateAddress", "GetAddresses", "ValidateAddress",
    "GetWalletBalance", "GetAddressBalance", "UseWallet", "Wallets", "GetUtxo", "ImportWallet", "ImportMnemonic", "CreateWallet",
    "ExportWallet", "RemoveWallet", "GetWalletMnemonic"]
  let ts := ["GetTxStatus", "GetRawTransaction", "DecodeRawTransaction", "CreateRawTransaction", "CreateStakingTransaction",
    "CreateBindingTransaction", "CreatePoolPkCoinbaseTransaction", "AutoCreateTransaction", "GetTransactionFee", "TxHistory",
    "GetStakingHistory", "GetBindingHistory", "SendRawTransaction", "GetNetworkBinding", "CheckPoolPkCoinbase", "CheckTargetBinding"]
  if ws.contains m then some ("api/wallet_service.go:APIServer." ++ m)
  else if ts.contains m then some ("api/tx_service.go:APIServer." ++ m)
  else none

/-- class of a request: run the handler skeleton -/
def classOf (st : St) (r : Req) : String :=
  match (handlerKey r.m).bind fnOf with
  | none => "unmodelled"
  | some key =>
    let c := match run prog (oracle st r) 100000 (.invoke key) (fun _ => 0) with
      | .ok (.norm σ) | .ok (.retd σ) => let o := vget σ "out"; if o = 0 then "ok" else s!"e{o}"
      | .error (.contract f) => if f.startsWith "mark:" then "deep" else "CONTRACT " ++ f
      | .error (.panic k t) => s!"PANIC {k} {t}"
      | .error .fuel => "FUEL"
      | .error (.unknownFn f) => s!"UNKNOWN {f}"
    if (deepSet r.m).contains c then "deep" else c

-- ------------------------------------------------------------------ state effects

def readyWallet (st : St) (w : String) : Bool :=
  liveWallet st w && !st.removing.contains w && !st.importing.contains w

/-- WEnv.Use(w) (called by the base ops that take a wallet): UseWallet unless w is already in use -/
def useEffect (st : St) (w : String) : St :=
  if st.cur = some w then st else if readyWallet st w then { st with cur := some w } else st

def applyCall (st : St) (r : Req) (cls : String) : St :=
  match r.m with
  | "UseWallet" =>
    if cls = "ok" then { st with cur := walletOfTok r.wid } else st
  | "ExportWallet" =>
    match walletOfTok r.wid with
    | some w => if cls = "ok" then { st with exported := st.exported ++ [w] } else st
    | none => st
  | "RemoveWallet" =>
    match walletOfTok r.wid with
    | some w =>
      if cls = "ok" then
        -- MarkDeleteWallet: the status record carries the removal flag; the follower no longer counts the wallet as ready
        let status := match AMap.get st.led.store.status w with
          | some ws => AMap.put st.led.store.status w { ws with removed := true }
          | none => st.led.store.status
        { st with removing := st.removing ++ [w], led := { st.led with store := { st.led.store with status := status } } }
      else st
    | none => st
  | "ImportWallet" =>
    if cls = "ok" && (r.arg 0).startsWith "ks:" then
      let w := ((r.arg 0).drop 3).toString
      { st with gone := st.gone.filter (· != w), importing := st.importing ++ [w],
                apiWallets := if st.apiWallets.contains w then st.apiWallets else st.apiWallets ++ [w] }
    else st
  | "CreateAddress" =>
    match st.cur with
    | some w =>
      if cls = "ok" then
        let name := r.arg 0
        let stk : Bool := (((r.arg 1).toInt?.getD 0) % 65536).toNat = 1
        { st with led := { st.led with own := AMap.put st.led.own name (w, false), issued := st.led.issued ++ [(name, w, stk)],
                                        store := { st.led.store with addrs := AMap.put st.led.store.addrs (w, stk, name) 0 } } }
      else st
    | none => st
  | _ => st

/-- class of ImportWallet (keystore handling is outside the skeleton's data) -/
def importClass (st : St) (r : Req) : String :=
  let n := tokLen (r.arg 1)
  if n > 40 || n < 6 then "e1507"
  else if (r.arg 0).startsWith "ks:" then
    let w := ((r.arg 0).drop 3).toString
    if !st.exported.contains w then "e1512"
    else if liveWallet st w then "e1514"
    else if r.arg 1 = "pass:" ++ w then "ok" else "e1507"
  else if r.arg 0 = "a:{}" then "e1520" else "e1512"

def scaleOuts (outs : String) : String :=
  if outs = "-" || outs = "" then outs else
  ";".intercalate ((outs.splitOn ";").map (fun o =>
    match o.splitOn ":" with
    | [a, m] => a ++ ":" ++ (if m = "0" then m else m ++ "000000")
    | [a, m, "bindbad", _] => "raw:" ++ (if m = "0" then m else m ++ "000000") ++ ":00"
    | a :: m :: rest => ":".intercalate (a :: (if m = "0" then m else m ++ "000000") :: rest)
    | _ => o))

def walletsView (st : St) : String :=
  Led.joinSorted ((st.apiWallets.filter (fun w => !st.gone.contains w)).map (fun w =>
    w ++ ":" ++ (if st.removing.contains w then "removing" else if st.importing.contains w then "importing@0" else "ready")))

/-- base ops of engine led that select a wallet first (WEnv.Use) -/
def usesWallet (op : String) : Bool :=
  ["addr", "bal", "abal", "utxos", "sbu", "addrs", "shist", "bhist", "hsbu", "shistp", "bhistp", "wseq"].contains op

/-- model column of a delivery: the ledger model's class, marked when the follower skeleton run ends in another one -/
def withSkel (o : String) (skel : String) : String :=
  let (m, rest) := splitOn1 o '\t'
  if m = skel then o else
  (m ++ "|skel:" ++ skel.replace " " "_") ++ (if o.contains '\t' then "\t" ++ rest else "")

def baseStep (st : St) (args : List String) : St × String :=
  match args with
  | ["wallets"] => (st, walletsView st)
  | ["restart"] =>
    let (l, o) := Led.step st.led args
    ({ st with led := l, cur := none }, o)
  | ["wallet", w] =>
    -- set-up ops carry the model's answer as spec too: a panic or a hang in them is a violation
    let (l, o) := Led.step st.led args
    ({ st with led := l, apiWallets := if o = "ok" then st.apiWallets ++ [w] else st.apiWallets }, o ++ "\t" ++ o)
  | ["addr", w, _, _] =>
    -- WEnv.NewAddr selects the wallet first: refused while it is being removed / imported
    if st.cur != some w && st.led.wallets.contains w && !readyWallet st w then (st, "err\terr") else
    let st1 := useEffect st w
    let (l, o) := Led.step st1.led args
    ({ st1 with led := l }, o ++ "\t" ++ o)
  | ["tx", t, u, ins, outs] =>
    let (l, o) := Led.step st.led ["tx", t, u, ins, scaleOuts outs]
    ({ st with led := l }, o)
  | ["recvtx", t] =>
    -- spec of the follower's unconfirmed path: the transaction is processed to a result (no panic)
    let (l, o) := Led.step st.led args
    -- the follower SKELETON (tail of proccessReceivedTx: getReadyWallets, filterTx) run with the oracle answered from
    -- the ledger model must end in the same class as the ledger model (and as the real follower)
    let o := match AMap.get st.led.txs t with
      | some tx => withSkel o (Model.ApiFollow.recvClass (Led.ctx st.led) st.led.store st.led.vol tx)
      | none => o
    ({ st with led := l }, if o.contains '\t' then o else o ++ "\t" ++ o)
  | ["notify", b] =>
    let (l, o) := Led.step st.led args
    -- the same for processConnectedBlock (extend / reorg; disconnectBlock, filterBlock, filterTx, …)
    let o := match AMap.get st.led.node.known b with
      | some blk => withSkel o (Model.ApiFollow.blockClass (Led.ctx st.led) st.led.store st.led.vol blk)
      | none => o
    ({ st with led := l }, o)
  | op :: w :: _ =>
    let st1 := if usesWallet op then useEffect st w else st
    let (l, o) := Led.step st1.led args
    ({ st1 with led := l }, o)
  | _ =>
    let (l, o) := Led.step st.led args
    ({ st with led := l }, o)

/-- the follower's tip is not a block of the node's best chain (a reorganisation it has not been told about) -/
def diverged (st : St) : Bool :=
  (st.led.node.blockAt st.led.vol.best.height).map (·.id) != some st.led.vol.best.hash

/-- methods that re-read a previous transaction from the node at the recorded (height, byte range): while the
    follower has diverged the outcome depends on the byte layout of another block – class `deep` (as in Go) -/
def staleLoc (m : String) : Bool := ["CreateRawTransaction", "SignRawTransaction", "GetTransactionFee"].contains m

def doCall (st : St) (m : String) (a : List String) : St :=
  let r : Req := ⟨m, a⟩
  let cls := if m = "ImportWallet" then importClass st r else classOf st r
  let cls := if staleLoc m && diverged st then "deep" else cls
  let st := applyCall st r cls
  { st with last := cls }

def step (st : St) (args : List String) : St × String :=
  match args with
  | "call" :: m :: a => (doCall st m a, "done\tdone")
  | ["res"] => (st, st.last)
  | "startcall" :: m :: a =>
    -- fresh process: no wallet in use; the follower's volatile tip is reloaded from the store
    let (l, _) := Led.step st.led ["restart"]
    let st := doCall { st with led := l, cur := none } m a
    (st, "done\tdone")
  -- spec of the worker steps: they complete (a panic or a hang is a violation with this history as replay)
  | ["rmrun", w] =>
    -- the asyncRemove skeleton (one finishing round) must end in the class of the real worker run
    ({ st with removing := st.removing.filter (· != w), gone := st.gone ++ [w],
               cur := if st.cur = some w then none else st.cur }, withSkel "ok\tok" Model.ApiFollow.removeClass)
  | ["impstep", w] =>
    -- spec of the worker step: the harness first delivers the node's tip to the follower (asyncImport refuses a
    -- batch with ErrImportingContinuable while the follower is on another branch than the node), then one
    -- batch runs and, on these short chains, finishes; a panic, a hang or an error is a violation
    -- the asyncImport skeleton, what it scans answered from the node's chain and the keystore view
    -- (MW.Model.Import.plan / filterTxForImporting), must end without error as the real batch does
    let sk := Model.ApiFollow.importClass st.led.node st.led.own w
    ({ st with importing := st.importing.filter (· != w) }, withSkel "fin\tfin" (if sk = "ok" then "fin" else sk))
  | ["cur"] => (st, st.cur.getD "-")
  | "x" :: rest =>
    -- robust mode: only "no panic" is observed; wallet selection side effects are still tracked
    match rest with
    | "call" :: m :: a => (doCall st m a |> fun s => { s with last := st.last }, "done\tdone")
    -- node-side ops and address issue keep the node / keystore view current (the worker skeletons are answered from it)
    | ["tx", t, u, ins, outs] => ({ st with led := (Led.step st.led ["tx", t, u, ins, scaleOuts outs]).1 }, "done\tdone")
    | "block" :: _ | "submit" :: _ | ["detach"] | "params" :: _ => ({ st with led := (Led.step st.led rest).1 }, "done\tdone")
    | ["addr", w, a, cl] =>
      let st1 := useEffect st w
      ({ st1 with led := { st1.led with own := (Led.step st1.led ["addr", w, a, cl]).1.own } }, "done\tdone")
    | op :: w :: _ => (if usesWallet op then useEffect st w else st, "done\tdone")
    | ["restart"] => ({ st with cur := none }, "done\tdone")
    | _ => (st, "done\tdone")
  | _ => baseStep st args

end MW.Drv.Api
