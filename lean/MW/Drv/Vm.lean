/-
  Driver for the script VM model (tie A of C03 round 4): answers a `vm …` op line with the verdict of
  MW.Model.ScriptVM.verify.  The cryptographic primitives come as lookup tables computed by the harness with the
  REAL sha256 / btcec (the same way other drivers take crypto values):
      vm FLAGS SEQ LOCKTIME PKSCRIPT NWIT W… TABLE…
      FLAGS     bit 0 ScriptDiscourageUpgradableNops, bit 1 ScriptMASSip2
      TABLE     s:<in>:<out>                sha256(in) = out
                k:<pubkey>                  btcec.ParsePubKey accepts
                g:<der>                     btcec.ParseDERSignature accepts
                v:<pubkey>:<der>:<sub>:<ht> the signature verifies for the signature hash of (sub-script, hash type)
  A table miss for sha256 (a COMPUTED value being hashed) yields 32 bytes `de`; keys / signatures /
  verifications not listed are "does not parse" / "does not verify".  Core Lean only.
-/
import MW.Model.ScriptVM
namespace MW.Drv.Vm
open MW MW.Model.ScriptVM

structure Tables where
  sha : List (Bytes × Bytes) := []
  keys : List Bytes := []
  sigs : List Bytes := []
  ver : List (Bytes × Bytes × Bytes × Nat) := []

def tablePrims (t : Tables) : Prims where
  PK := Bytes
  Sig := Bytes
  Msg := Bytes × Nat
  sha256 := fun b => match t.sha.find? (fun e => e.1 == b) with | some e => e.2 | none => List.replicate 32 0xde
  parsePK := fun b => if t.keys.contains b then some b else none
  parseSig := fun b => if t.sigs.contains b then some b else none
  verify := fun pk m s => t.ver.contains (pk, s, m.1, m.2)

def hexOf (s : String) : Option Bytes := Hex.decode s

def parseTable (t : Tables) (tok : String) : Option Tables :=
  match tok.splitOn ":" with
  | ["s", a, b] => do
    let x ← hexOf a
    let y ← hexOf b
    pure { t with sha := (x, y) :: t.sha }
  | ["k", a] => do
    let x ← hexOf a
    pure { t with keys := x :: t.keys }
  | ["g", a] => do
    let x ← hexOf a
    pure { t with sigs := x :: t.sigs }
  | ["v", a, b, c, d] => do
    let pk ← hexOf a
    let sg ← hexOf b
    let sub ← hexOf c
    let ht ← d.toNat?
    pure { t with ver := (pk, sg, sub, ht) :: t.ver }
  | _ => none

def VErr.name : VErr → String
  | .shortScript => "shortScript" | .underflow => "underflow" | .invalidArgs => "invalidArgs"
  | .opDisabled => "opDisabled" | .verifyFailed => "verifyFailed" | .numberTooBig => "numberTooBig"
  | .invalidOpcode => "invalidOpcode" | .reservedOpcode => "reservedOpcode"
  | .tooManyOperations => "tooManyOperations" | .earlyReturn => "earlyReturn" | .noIf => "noIf"
  | .missingEndif => "missingEndif" | .tooManyPubKeys => "tooManyPubKeys"
  | .stackTooManyOperations => "stackTooManyOperations" | .elementTooBig => "elementTooBig"
  | .scriptFailed => "scriptFailed" | .emptyStack => "emptyStack" | .overflow => "overflow" | .lowS => "lowS"
  | .invalidPubKey => "invalidPubKey" | .cleanStack => "cleanStack" | .progMismatch => "progMismatch"
  | .witnessPubKeyType => "witnessPubKeyType" | .upgradableWitness => "upgradableWitness"
  | .witnessUnexpected => "witnessUnexpected" | .witnessLength => "witnessLength" | .scriptTooBig => "scriptTooBig"
  | .extProgUnknown => "extProgUnknown" | .nullFail => "nullFail" | .fmtHashType => "fmtHashType"
  | .fmtSigEnc => "fmtSigEnc" | .fmtNegLock => "fmtNegLock" | .fmtSeqDisabled => "fmtSeqDisabled"
  | .fmtLockType => "fmtLockType" | .fmtLockTime => "fmtLockTime" | .fmtFinalized => "fmtFinalized"
  | .fmtFrozen => "fmtFrozen" | .fmtNop => "fmtNop" | .pastScripts => "pastScripts"
  | .unmodelled => "unmodelled" | .internal => "PANIC"

def takeWitness : Nat → List String → Option (List Bytes × List String)
  | 0, rest => some ([], rest)
  | n + 1, w :: rest => do
    let b ← hexOf w
    let (ws, r) ← takeWitness n rest
    pure (b :: ws, r)
  | _ + 1, [] => none

/-- answer one `vm` op (arguments after the op name) -/
def run (args : List String) : String :=
  match args with
  | fl :: sq :: lt :: pk :: nw :: rest =>
    match fl.toNat?, sq.toNat?, lt.toNat?, hexOf pk, nw.toNat? with
    | some flags, some seq, some lock, some pkScript, some n =>
      match takeWitness n rest with
      | none => "bad-op"
      | some (wit, tabs) =>
        match tabs.foldlM parseTable ({} : Tables) with
        | none => "bad-op"
        | some t =>
          let P := tablePrims t
          let ctx : Ctx P := { seq := seq, lockTime := lock, ip2 := flags / 2 % 2 == 1,
                               discourageNops := flags % 2 == 1, sighash := fun sub ht => (sub, ht) }
          match verify P ctx pkScript wit with
          | .ok _ => "ok"
          | .error e => "err:" ++ VErr.name e
    | _, _, _, _, _ => "bad-op"
  | _ => "bad-op"

/-- the line-protocol interface every module of MW/Drv offers (tools/gen_driver.py); the ops reach this
    driver through engine `sec` (`sec vm …`, MW.Drv.Sec.step), a bare `vm …` line is answered the same way -/
structure St where
  n : Nat := 0

def init : St := {}

def step (st : St) (args : List String) : St × String := (st, run args)

end MW.Drv.Vm
