/- driver engine `proto` (C20): what the stop experiments of go/cmd/harness/eng_proto.go must print. The
   verdict of a `stopat` is computed by exploring the protocol model (MW.Model.Proto.canHang) under the
   skeleton the extractor found in the working tree (Shape.current); the specification is "stopped". Chain
   set-up ops are delegated to the `led` engine. -/
import MW.Drv.Led
import MW.Model.Proto
import MW.Gen.Handler
namespace MW.Drv.Proto
open MW MW.Model.Ledger MW.Model.Proto

structure St where
  led : Led.St := {}
  started : Bool := false
  dead : Bool := false          -- after a HANG the environment is abandoned until the next reset
  ext : List String := []
  imported : List String := []  -- throw-away wallets already imported through the API (`fullq`)
  deriving Inhabited

def init : St := {}

def nilPanic : String := "PANIC runtime error: invalid memory address or nil pointer dereference"

/-- NtfnsHandler.Start: catch up with the node's best chain before the goroutines start -/
def catchUp (l : Led.St) : Led.St :=
  l.node.chain.foldl (fun l b => if b.height > l.store.syncedTo then (Led.step l ["notify", b.id]).1 else l) l

/-- a finished removal / import, as far as the wallet list is concerned -/
def finishTask (l : Led.St) (task who : String) : Led.St :=
  match task with
  | "remove" => { l with wallets := l.wallets.filter (· ≠ who),
                         store := { l.store with status := AMap.erase l.store.status who } }
  | "import" => { l with wallets := l.wallets ++ [who],
                         store := { l.store with status := AMap.put l.store.status who ⟨none, false⟩ } }
  | _ => l

/-- NtfnsHandler.handle over the next notifications, up to the block at height `target` -/
def catchUpTo (l : Led.St) (target : Nat) : Led.St :=
  l.node.chain.foldl (fun l b =>
    if b.height > l.store.syncedTo && b.height ≤ target then (Led.step l ["notify", b.id]).1 else l) l

/-- the experiment `live` of the harness (eng_proto_live.go): `nb` block notifications queued, one task of the
    given kind queued, every database step succeeding, NO stop request. Is a state reachable in which neither
    the follower nor the worker can move although work is left? (Exploration of the protocol model; the
    liveness theorems MW.Props.C20.progress say what happens on the way.) -/
def canStall (sh : Shape) (c : Cfg) (task : String) (nb : Nat) (faults : Bool) : Bool :=
  let allow (l : Label) (_ : MW.Model.Proto.St) : Bool :=
    match l with
    | .eStop | .eBlk | .eTx | .aCheck | .aPush | .aPushDrop => false
    | .wTakeImp => task == "import"
    | .wTakeRem => task == "remove"
    | .wTakeSkip => false
    | .wCommitI o => o == .fin || (faults && o == .errRetry)
    | .wCommitR o => o != .err || faults
    | _ => true
  let s0 : MW.Model.Proto.St := { nt := if task = "none" then 0 else 1, nb := nb }
  !(explore sh c allow 4000 [s0] [] []).isEmpty

def placeKind (place : String) : Option (String × Nat) :=
  match place.splitOn ":" with
  | ["now"] => some ("now", 0)
  | ["worker", "begin", k] => if k.toNat?.isSome then some ("worker", 0) else none
  | ["worker", "commit", k] => if k.toNat?.isSome then some ("worker", 0) else none
  | ["handler", "begin"] => some ("handler", 1)
  | ["blocks", n] => n.toNat?.map (fun k => ("handler", k))
  | _ => none

/-- the `fullq` experiment of the harness (go/cmd/harness/eng_proto_fullq.go) run on the protocol model: the API queues
    a first import, the worker takes it and completes the suspend hand-shake (it is inside its database step, the
    follower parked in its wait); the API is called `n - 1` more times (accepted iff `aCheck` is enabled, then `aPush`,
    or `aPushDrop` when the queue is full); the batch in hand ends with outcome `o` (`errRetry` / `more`: not finished),
    the resume hand-shake completes and the worker puts its task back (`wPush`, or `wPushDrop` when the queue is full).
    Result: `none` if the first call is refused; otherwise the accepted-flags of the `n` calls and the index of the
    call whose task was lost at a full queue, if any. -/
def fullQueue (sh : Shape) (c : Cfg) (n : Nat) (o : IOut) : Option (List Bool × Option Nat) := do
  let s ← fire sh c .aCheck {}
  let s ← fire sh c .aPush s
  let s ← fire sh c .wTakeImp s
  let s ← fire sh c .sus s
  let (s, acc, lost) ← (List.range (n - 1)).foldlM (fun (x : MW.Model.Proto.St × List Bool × Option Nat) k =>
    let (s, acc, lost) := x
    match fire sh c .aCheck s with
    | none => some (s, acc ++ [false], lost)
    | some s1 =>
      match fire sh c .aPush s1 with
      | some s2 => some (s2, acc ++ [true], lost)
      | none =>
        match fire sh c .aPushDrop s1 with
        | some s2 => some (s2, acc ++ [true], if lost.isSome then lost else some (k + 1))
        | none => none) (s, [true], none)
  let s ← fire sh c (.wCommitI o) s
  let s ← fire sh c .res s
  match fire sh c .wPush s with
  | some _ => some (acc, lost)
  | none => (fire sh c .wPushDrop s).map (fun _ => (acc, if lost.isSome then lost else some 0))

def joinOrDash (l : List String) : String := if l.isEmpty then "-" else ",".intercalate l

/-- `pfill K TAG`: K empty blocks on the node's tip, each announced to the (not yet started) follower -/
def pfill (l : Led.St) (k : Nat) (tag : String) : Led.St × String := Id.run do
  let mut l := l
  for j in List.range k do
    let tn := s!"c{tag}.{j+1}"
    let bn := s!"{tag}.{j+1}"
    let tip := (l.node.chain.getLast?.map (·.id)).getD "G"
    let (l1, o1) := Led.step l ["tx", tn, "0", "cb", "X0:1"]
    let (l2, o2) := Led.step l1 ["block", bn, tip, tn]
    let (l3, o3) := Led.step l2 ["submit", bn]
    if o1 != "ok" || o2 != "ok" || o3 != "ok" then return (l, "err")
    let (l4, o4) := Led.step l3 ["notify", bn]
    if !o4.startsWith "ok" then return (l3, "err-notify")
    l := l4
  return (l, "ok")

def step (st : St) (args : List String) : St × String :=
  if st.dead then (st, "dead") else
  match args with
  | ["pfill", ks, tag] =>
    match ks.toNat? with
    | some k => if st.started || k > 5000 then (st, "bad-op") else
        let (l, o) := pfill st.led k tag; ({ st with led := l }, o)
    | none => (st, "bad-op")
  | ["fullq", ns, mode] =>
    let names := ns.splitOn ";"
    if !st.started || names.length < 2 || !names.all (fun n => st.ext.contains n && !st.imported.contains n) ||
        names.eraseDups.length != names.length then (st, "bad-op") else
    let tip := (st.led.node.chain.getLast?.map (·.id)).getD "?"
    -- retry:B — the follower stands on B, the node has detached it; batches — the follower is at the node's tip,
    -- more than one batch above the import cursor (0)
    let setup : Option (Option String × IOut) :=
      match mode.splitOn ":" with
      | ["retry", b] =>
        match AMap.get st.led.node.known b with
        | some blk => if blk.prev == tip && blk.height == st.led.store.syncedTo then some (some b, .errRetry) else none
        | none => none
      | ["batches"] =>
        if st.led.store.syncedTo > MW.Gen.Handler.importBatch && st.led.store.syncedTo + 1 == st.led.node.chain.length
        then some (none, .more) else none
      | _ => none
    match setup with
    | none => (st, "bad-op")
    | some (reblk, o) =>
      match fullQueue Shape.current (Cfg.current st.led.wallets.length) names.length o with
      | none => (st, "rejected")
      | some (flags, lost) =>
        let tagged := names.zip flags
        let acc := (tagged.filter (·.2)).map (·.1)
        let rej := (tagged.filter (fun p => !p.2)).map (·.1)
        let head := s!"acc={",".intercalate acc} rej={joinOrDash rej}"
        let led := match reblk with
          | some b => (Led.step st.led ["submit", b]).1
          | none => st.led
        match lost with
        | none =>
          ({ st with led := acc.foldl (fun l w => finishTask l "import" w) led, imported := st.imported ++ acc },
           head ++ " finished\t" ++ head ++ " finished")
        | some k =>
          ({ st with dead := true }, s!"HANG {head} unfinished={names.getD k "?"}\t{head} finished")
  | ["ext", n] =>
    if st.ext.contains n then (st, "err") else ({ st with ext := st.ext ++ [n] }, "ok")
  | ["start"] =>
    if st.started then (st, "bad-op") else ({ st with started := true, led := catchUp st.led }, "ok")
  | ["stop"] =>
    if !st.started then (st, "bad-op") else ({ st with started := false }, "stopped\tstopped")
  | ["restart"] =>
    if st.started then (st, "bad-op") else ({ st with led := (Led.step st.led ["restart"]).1 }, "ok")
  | ["await"] =>
    if !st.started then (st, "bad-op") else (st, (Led.step st.led ["wallets"]).2)
  | ["racestart", w] =>
    if st.started || !st.led.wallets.contains w then (st, "bad-op") else
    if MW.Gen.Proto.taskChanInitBeforeGo then
      ({ st with led := finishTask (catchUp st.led) "remove" w }, "accepted stopped\taccepted stopped")
    else ({ st with dead := true }, nilPanic ++ "\taccepted stopped")
  | ["stophold", blks] =>
    if !st.started then (st, "bad-op") else
    let bs := blks.splitOn ";"
    -- every block defined and extending its predecessor (the first one the node's tip), one throw-away wallet each
    let tip := (st.led.node.chain.getLast?.map (·.id)).getD "?"
    let ok := (bs.zipIdx.foldl (fun (acc : Bool × String) (bi : String × Nat) =>
      match AMap.get st.led.node.known bi.1 with
      | some blk => (acc.1 && blk.prev == acc.2 && st.ext.contains s!"I{bi.2 + 1}", bi.1)
      | none => (false, bi.1)) (true, tip)).1
    if !ok then (st, "bad-op") else
    if canHang Shape.current (Cfg.current st.led.wallets.length) "import" "handler" 1 then
      ({ st with dead := true }, "HANG\tstopped")
    else
      let led := bs.zipIdx.foldl (fun l (bi : String × Nat) =>
        finishTask (catchUp (Led.step l ["submit", bi.1]).1) "import" s!"I{bi.2 + 1}") st.led
      ({ st with led := led }, "stopped\tstopped")
  | ["livef", task, who, ns, ks] =>
    if !st.started then (st, "bad-op") else
    let known := match task with
      | "remove" => st.led.wallets.contains who
      | "import" => st.ext.contains who
      | _ => false
    match known, ns.toNat?, ks.toNat? with
    | true, some n, some k =>
      let pending := st.led.node.chain.length - 1 - st.led.store.syncedTo
      if n < 1 || n > pending || k < 1 || k > 3 then (st, "bad-op") else
      if canStall Shape.current (Cfg.current st.led.wallets.length) task n true then
        ({ st with dead := true }, s!"TIMEOUT\tdone {k}")
      else
        ({ st with led := finishTask (catchUpTo st.led (st.led.store.syncedTo + n)) task who }, s!"done {k}\tdone {k}")
    | _, _, _ => (st, "bad-op")
  | ["live", task, who, ns] =>
    if !st.started then (st, "bad-op") else
    let known := match task with
      | "remove" => st.led.wallets.contains who
      | "import" => st.ext.contains who
      | "none" => true
      | _ => false
    match known, ns.toNat? with
    | true, some n =>
      let pending := st.led.node.chain.length - 1 - st.led.store.syncedTo
      if n < 1 || n > pending then (st, "bad-op") else
      if canStall Shape.current (Cfg.current st.led.wallets.length) task n false then
        ({ st with dead := true }, "TIMEOUT\tdone")
      else
        ({ st with led := finishTask (catchUpTo st.led (st.led.store.syncedTo + n)) task who }, "done\tdone")
    | _, _ => (st, "bad-op")
  | ["stopat", task, who, place] =>
    if !st.started then (st, "bad-op") else
    let known := match task with
      | "remove" => st.led.wallets.contains who
      | "import" => st.ext.contains who
      | "none" => true
      | _ => false
    match known, placeKind place with
    | true, some (kind, nb) =>
      -- blocks the follower has not been told about must exist for the handler placements
      let pending := st.led.node.chain.length - 1 - st.led.store.syncedTo
      if nb > pending then (st, "bad-op") else
      let hang := canHang Shape.current (Cfg.current st.led.wallets.length) task kind nb
      if hang then ({ st with dead := true }, "HANG\tstopped")
      else ({ st with started := false, led := finishTask st.led task who }, "stopped\tstopped")
    | _, _ => (st, "bad-op")
  | ["tx", _, _, _, outs] =>
    -- the harness refuses outputs to addresses that were never issued (strangers X* are created on demand)
    if (Led.parseList outs).any (fun o =>
        let a := (o.splitOn ":").headD ""
        a != "raw" && !a.startsWith "X" && (AMap.get st.led.own a).isNone && !st.ext.contains a) then (st, "err")
    else let (l, o) := Led.step st.led args; ({ st with led := l }, o)
  | "notify" :: _ => if st.started then (st, "bad-op") else
      let (l, o) := Led.step st.led args; ({ st with led := l }, o)
  | "recvtx" :: _ => if st.started then (st, "bad-op") else
      let (l, o) := Led.step st.led args; ({ st with led := l }, o)
  | _ => let (l, o) := Led.step st.led args; ({ st with led := l }, o)

end MW.Drv.Proto
