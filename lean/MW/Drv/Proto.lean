/- driver engine `proto` (C20): what the stop experiments of go/cmd/harness/eng_proto.go must print. The
   verdict of a `stopat` is computed by exploring the protocol model (MW.Model.Proto.canHang) under the
   skeleton the extractor found in the working tree (Shape.current); the specification is "stopped". Chain
   set-up ops are delegated to the `led` engine. -/
import MW.Drv.Led
import MW.Model.Proto
namespace MW.Drv.Proto
open MW MW.Model.Ledger MW.Model.Proto

structure St where
  led : Led.St := {}
  started : Bool := false
  dead : Bool := false          -- after a HANG the environment is abandoned until the next reset
  ext : List String := []
  deriving Inhabited

def init : St := {}

def nilPanic : String := "PANIC runtime error: invalid memory address or nil pointer dereference"

/-- NtfnsHandler.Start: catch up with the node's best chain before the goroutines start -/
def catchUp (l : Led.St) : Led.St :=
  l.node.chain.foldl (fun l b => if b.height > l.store.syncedTo then (Led.step l ["notify", b.id]).1 else l) l

/-- a finished removal / import, as far as the wallet list is concerned -/
def finishTask (l : Led.St) (task who : String) : Led.St :=
  match task with
  | "remove" => { l with wallets := l.wallets.filter (· ≠ who),
                         store := { l.store with status := AMap.erase l.store.status who } }
  | "import" => { l with wallets := l.wallets ++ [who],
                         store := { l.store with status := AMap.put l.store.status who ⟨none, false⟩ } }
  | _ => l

/-- NtfnsHandler.handle over the next notifications, up to the block at height `target` -/
def catchUpTo (l : Led.St) (target : Nat) : Led.St :=
  l.node.chain.foldl (fun l b =>
    if b.height > l.store.syncedTo && b.height ≤ target then (Led.step l ["notify", b.id]).1 else l) l

/-- the experiment `live` of the harness (eng_proto_live.go): `nb` block notifications queued, one task of the
    given kind queued, every database step succeeding, NO stop request. Is a state reachable in which neither
    the follower nor the worker can move although work is left? (Exploration of the protocol model; the
    liveness theorems MW.Props.C20.progress say what happens on the way.) -/
def canStall (sh : Shape) (c : Cfg) (task : String) (nb : Nat) (faults : Bool) : Bool :=
  let allow (l : Label) (_ : MW.Model.Proto.St) : Bool :=
    match l with
    | .eStop | .eBlk | .eTx | .aCheck | .aPush | .aPushDrop => false
    | .wTakeImp => task == "import"
    | .wTakeRem => task == "remove"
    | .wTakeSkip => false
    | .wCommitI o => o == .fin || (faults && o == .errRetry)
    | .wCommitR o => o != .err || faults
    | _ => true
  let s0 : MW.Model.Proto.St := { nt := if task = "none" then 0 else 1, nb := nb }
  !(explore sh c allow 4000 [s0] [] []).isEmpty

def placeKind (place : String) : Option (String × Nat) :=
  match place.splitOn ":" with
  | ["now"] => some ("now", 0)
  | ["worker", "begin", k] => if k.toNat?.isSome then some ("worker", 0) else none
  | ["worker", "commit", k] => if k.toNat?.isSome then some ("worker", 0) else none
  | ["handler", "begin"] => some ("handler", 1)
  | ["blocks", n] => n.toNat?.map (fun k => ("handler", k))
  | _ => none

def step (st : St) (args : List String) : St × String :=
  if st.dead then (st, "dead") else
  match args with
  | ["ext", n] =>
    if st.ext.contains n then (st, "err") else ({ st with ext := st.ext ++ [n] }, "ok")
  | ["start"] =>
    if st.started then (st, "bad-op") else ({ st with started := true, led := catchUp st.led }, "ok")
  | ["stop"] =>
    if !st.started then (st, "bad-op") else ({ st with started := false }, "stopped\tstopped")
  | ["restart"] =>
    if st.started then (st, "bad-op") else ({ st with led := (Led.step st.led ["restart"]).1 }, "ok")
  | ["await"] =>
    if !st.started then (st, "bad-op") else (st, (Led.step st.led ["wallets"]).2)
  | ["racestart", w] =>
    if st.started || !st.led.wallets.contains w then (st, "bad-op") else
    if MW.Gen.Proto.taskChanInitBeforeGo then
      ({ st with led := finishTask (catchUp st.led) "remove" w }, "accepted stopped\taccepted stopped")
    else ({ st with dead := true }, nilPanic ++ "\taccepted stopped")
  | ["stophold", blks] =>
    if !st.started then (st, "bad-op") else
    let bs := blks.splitOn ";"
    -- every block defined and extending its predecessor (the first one the node's tip), one throw-away wallet each
    let tip := (st.led.node.chain.getLast?.map (·.id)).getD "?"
    let ok := (bs.zipIdx.foldl (fun (acc : Bool × String) (bi : String × Nat) =>
      match AMap.get st.led.node.known bi.1 with
      | some blk => (acc.1 && blk.prev == acc.2 && st.ext.contains s!"I{bi.2 + 1}", bi.1)
      | none => (false, bi.1)) (true, tip)).1
    if !ok then (st, "bad-op") else
    if canHang Shape.current (Cfg.current st.led.wallets.length) "import" "handler" 1 then
      ({ st with dead := true }, "HANG\tstopped")
    else
      let led := bs.zipIdx.foldl (fun l (bi : String × Nat) =>
        finishTask (catchUp (Led.step l ["submit", bi.1]).1) "import" s!"I{bi.2 + 1}") st.led
      ({ st with led := led }, "stopped\tstopped")
  | ["livef", task, who, ns, ks] =>
    if !st.started then (st, "bad-op") else
    let known := match task with
      | "remove" => st.led.wallets.contains who
      | "import" => st.ext.contains who
      | _ => false
    match known, ns.toNat?, ks.toNat? with
    | true, some n, some k =>
      let pending := st.led.node.chain.length - 1 - st.led.store.syncedTo
      if n < 1 || n > pending || k < 1 || k > 3 then (st, "bad-op") else
      if canStall Shape.current (Cfg.current st.led.wallets.length) task n true then
        ({ st with dead := true }, s!"TIMEOUT\tdone {k}")
      else
        ({ st with led := finishTask (catchUpTo st.led (st.led.store.syncedTo + n)) task who }, s!"done {k}\tdone {k}")
    | _, _, _ => (st, "bad-op")
  | ["live", task, who, ns] =>
    if !st.started then (st, "bad-op") else
    let known := match task with
      | "remove" => st.led.wallets.contains who
      | "import" => st.ext.contains who
      | "none" => true
      | _ => false
    match known, ns.toNat? with
    | true, some n =>
      let pending := st.led.node.chain.length - 1 - st.led.store.syncedTo
      if n < 1 || n > pending then (st, "bad-op") else
      if canStall Shape.current (Cfg.current st.led.wallets.length) task n false then
        ({ st with dead := true }, "TIMEOUT\tdone")
      else
        ({ st with led := finishTask (catchUpTo st.led (st.led.store.syncedTo + n)) task who }, "done\tdone")
    | _, _ => (st, "bad-op")
  | ["stopat", task, who, place] =>
    if !st.started then (st, "bad-op") else
    let known := match task with
      | "remove" => st.led.wallets.contains who
      | "import" => st.ext.contains who
      | "none" => true
      | _ => false
    match known, placeKind place with
    | true, some (kind, nb) =>
      -- blocks the follower has not been told about must exist for the handler placements
      let pending := st.led.node.chain.length - 1 - st.led.store.syncedTo
      if nb > pending then (st, "bad-op") else
      let hang := canHang Shape.current (Cfg.current st.led.wallets.length) task kind nb
      if hang then ({ st with dead := true }, "HANG\tstopped")
      else ({ st with started := false, led := finishTask st.led task who }, "stopped\tstopped")
    | _, _ => (st, "bad-op")
  | ["tx", _, _, _, outs] =>
    -- the harness refuses outputs to addresses that were never issued (strangers X* are created on demand)
    if (Led.parseList outs).any (fun o =>
        let a := (o.splitOn ":").headD ""
        a != "raw" && !a.startsWith "X" && (AMap.get st.led.own a).isNone && !st.ext.contains a) then (st, "err")
    else let (l, o) := Led.step st.led args; ({ st with led := l }, o)
  | "notify" :: _ => if st.started then (st, "bad-op") else
      let (l, o) := Led.step st.led args; ({ st with led := l }, o)
  | "recvtx" :: _ => if st.started then (st, "bad-op") else
      let (l, o) := Led.step st.led args; ({ st with led := l }, o)
  | _ => let (l, o) := Led.step st.led args; ({ st with led := l }, o)

end MW.Drv.Proto
