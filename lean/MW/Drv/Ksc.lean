/- driver engine `ksc`: byte-level keystore codecs (MW.Model.KsCodec) behind the line protocol of
   go/cmd/harness/eng_ksc.go.  State = one account bucket (reset starts an empty one). -/
import MW.Model.KsCodec
import MW.Spec.KsCodec
namespace MW.Drv.Ksc
open MW MW.Model.KsCodec

structure St where
  b : Bucket := []
def init : St := {}

/-- `nil` is a nil slice, `-` an empty non-nil one -/
def optBytes (t : String) : Option (Option Bytes) :=
  if t = "nil" then some none else (Hex.decode t).map some

def showOpt : Option Bytes → String
  | none => "nil"
  | some b => Hex.encodeTok b

def tok : Err → String
  | .panic => "panic"
  | .shape => "err-shape"
  | _ => "err"

def showE {α : Type} (f : α → String) : Except Err α → String
  | .ok a => "ok" ++ (let s := f a; if s = "" then "" else " " ++ s)
  | .error e => tok e

def showInt (i : Int) : String := toString i

/-- spec outcomes in the same tokens -/
def showR {α : Type} (refusedTok : String) (f : α → String) : Spec.KsCodec.Res α → String
  | .ok a => "ok" ++ (let s := f a; if s = "" then "" else " " ++ s)
  | .refused => refusedTok
  | .crash => "panic"

def showParams (p : Params) : String :=
  s!"{Hex.encodeTok p.salt} {Hex.encodeTok p.digest} {showInt p.N} {showInt p.R} {showInt p.P}"


/-- a state-changing op: on an error the bucket is unchanged (the enclosing db.Update is rolled back) -/
def upd (st : St) (r : Except Err Bucket) : St × String :=
  match r with
  | .ok b => ({ st with b := b }, "ok")
  | .error e => (st, tok e)

def nat? (s : String) : Option Nat := s.toNat?

def parseKs (a : List String) : Option KeystoreJ :=
  match a with
  | [rem, ver, cip, ent, kdf, pubp, privp, cpub, cpriv, cent, pur, coin, acct, ex, inn] => do
    let rem ← Hex.decode rem
    let ver ← nat? ver
    let cip ← Hex.decode cip
    let ent ← Hex.decode ent
    let kdf ← Hex.decode kdf
    let pubp ← Hex.decode pubp
    let privp ← Hex.decode privp
    let cpub ← Hex.decode cpub
    let cpriv ← Hex.decode cpriv
    let cent ← Hex.decode cent
    let pur ← nat? pur
    let coin ← nat? coin
    let acct ← nat? acct
    let ex ← nat? ex
    let inn ← nat? inn
    if ver < 256 ∧ pur < 4294967296 ∧ coin < 4294967296 ∧ acct < 4294967296 ∧ ex < 4294967296 ∧ inn < 4294967296 then
      some { remarks := rem, version := ver, cipher := cip, entropyEnc := ent, kdf := kdf, pubParams := pubp,
             privParams := privp, cryptoKeyPubEnc := cpub, cryptoKeyPrivEnc := cpriv, cryptoKeyEntropyEnc := cent,
             purpose := pur, coin := coin, account := acct, externalChildNum := ex, internalChildNum := inn }
    else none
  | _ => none

def u32? (s : String) : Option Nat := do
  let n ← nat? s
  if n < 4294967296 then some n else none

def bool? : String → Option Bool
  | "0" => some false
  | "1" => some true
  | _ => none

def joinC (l : List String) : String := if l.isEmpty then "-" else ",".intercalate l

def step (st : St) (args : List String) : St × String :=
  let bad : St × String := (st, "bad-op")
  let b := st.b
  match args with
  -- ---------------------------------------------------------------- stateless codecs
  | ["marshal", s, d, n, r, p] =>
    match Hex.decode s, Hex.decode d, n.toInt?, r.toInt?, p.toInt? with
    | some s, some d, some n, some r, some p =>
      let pr : Params := ⟨s, d, n, r, p⟩
      if pr.wf then
        match marshal pr with
        | some bs => (st, "ok " ++ Hex.encodeTok bs ++ "\tok " ++ Hex.encodeTok (Spec.KsCodec.marshal pr))
        | none => (st, "err-shape\tok " ++ Hex.encodeTok (Spec.KsCodec.marshal pr))
      else bad
    | _, _, _, _, _ => bad
  | ["unmarshal", h] =>
    match Hex.decode h with
    | none => bad
    | some bs =>
      let sp := "\t" ++ showR "err-malformed" showParams (Spec.KsCodec.unmarshal bs)
      match unmarshal bs with
      | .ok p => (st, "ok " ++ showParams p ++ sp)
      | .error .malformed => (st, "err-malformed" ++ sp)
      | .error e => (st, tok e ++ sp)
  | ["u32", n] =>
    match u32? n with
    | some n => (st, "ok " ++ Hex.encodeTok (u32Bytes n) ++ "\tok " ++ Hex.encodeTok (Spec.KsCodec.u32 n))
    | none => bad
  | ["u32of", h] =>
    match Hex.decode h with
    | some bs => (st, showE toString (u32Of bs) ++ "\t" ++ showR "err" toString (Spec.KsCodec.readU32 bs))
    | none => bad
  | ["ser-row", t, raw] =>
    match nat? t, Hex.decode raw with
    | some t, some raw =>
      if t < 256 then (st, "ok " ++ Hex.encodeTok (serializeAccountRow t raw) ++ "\tok " ++ Hex.encodeTok (Spec.KsCodec.accountRow t raw))
      else bad
    | _, _ => bad
  | ["de-row", h] =>
    match Hex.decode h with
    | some bs =>
      let f := fun (p : Nat × Bytes) => s!"{p.1} {Hex.encodeTok p.2}"
      (st, showE f (deserializeAccountRow bs) ++ "\t" ++ showR "err" f (Spec.KsCodec.readAccountRow bs))
    | none => bad
  | ["ser-hd", pub, priv] =>
    match Hex.decode pub, Hex.decode priv with
    | some pub, some priv =>
      match serializeHDAccountKey pub priv with
      | some bs => (st, "ok " ++ Hex.encodeTok bs ++ "\tok " ++ Hex.encodeTok (Spec.KsCodec.hdRecord pub priv))
      | none => (st, "err-shape\tok " ++ Hex.encodeTok (Spec.KsCodec.hdRecord pub priv))
    | _, _ => bad
  | ["de-hd", h] =>
    match Hex.decode h with
    | some bs =>
      let f := fun (p : Bytes × Bytes) => s!"{Hex.encodeTok p.1} {Hex.encodeTok p.2}"
      (st, showE f (deserializeHDAccountKey bs) ++ "\t" ++ showR "err" f (Spec.KsCodec.readHdRecord bs))
    | none => bad
  | ["hexenc", h] =>
    match Hex.decode h with
    | some bs => (st, "ok " ++ Hex.encodeTok (hexEnc bs))
    | none => bad
  | ["hexdec", h] =>
    match Hex.decode h with
    | some bs => (st, match hexDec bs with | some r => "ok " ++ Hex.encodeTok r | none => "err")
    | none => bad
  | "render" :: rest =>
    match parseKs rest with
    | some k =>
      -- the file format is written out in `render` itself (not table driven): it is its own spec
      -- rt: reading the text back gives the struct (the Lean reader of canonical text against json.Unmarshal)
      let o := "ok " ++ Hex.encodeTok (render k) ++ (if parseKeystore (render k) = some k then " rt=same" else " rt=lossy")
      (st, o ++ "\t" ++ o)
    | none => bad
  | ["parse", h] =>
    -- the reader of canonical keystore text against getKeystoreFromJson (the generator only sends canonical documents)
    match Hex.decode h with
    | some bs =>
      (st, match parseKeystore bs with
        | some k => s!"ok {Hex.encodeTok k.remarks} {k.version} {Hex.encodeTok k.cipher} {Hex.encodeTok k.entropyEnc} {Hex.encodeTok k.kdf} {Hex.encodeTok k.pubParams} {Hex.encodeTok k.privParams} {Hex.encodeTok k.cryptoKeyPubEnc} {Hex.encodeTok k.cryptoKeyPrivEnc} {Hex.encodeTok k.cryptoKeyEntropyEnc} {k.purpose} {k.coin} {k.account} {k.externalChildNum} {k.internalChildNum}"
        | none => "err")
    | none => bad
  | "import-probe" :: passOk :: rest =>
    -- passOk: whether the probe passphrase opens privParams (scrypt is outside the model: the generator says)
    match bool? passOk, rest.getLast?, parseKs rest.dropLast with
    | some passOk, some c, some k =>
      match nat? c with
      | some c =>
        (st, match importParams k c with
          | .error e => e.tok
          | .ok _ =>
            if !passOk then "err-pass"
            else match importView k c with
              | .error .hex => "err-hex"
              | _ => "past-decoding")
      | none => bad
    | _, _, _ => bad
  -- ---------------------------------------------------------------- the account bucket
  | ["put-mk", pub, priv] =>
    match optBytes pub, optBytes priv with
    | some pub, some priv => upd st (putMasterKeyParams b pub priv)
    | _, _ => bad
  | ["fetch-mk"] => (st, showE (fun (p : Bytes × Option Bytes) => s!"{Hex.encodeTok p.1} {showOpt p.2}") (fetchMasterKeyParams b))
  | ["put-ver", n] =>
    match nat? n with
    | some n => if n < 256 then upd st (putVersion b n) else bad
    | none => bad
  | ["fetch-ver"] => (st, s!"ok {fetchVersion b}")
  | ["put-ent", h] =>
    match Hex.decode h with
    | some e => upd st (putEntropy b e)
    | none => bad
  | ["fetch-ent"] => (st, "ok " ++ showOpt (fetchEntropy b))
  | ["put-ck", p, q, r] =>
    match optBytes p, optBytes q, optBytes r with
    | some p, some q, some r => upd st (putCryptoKeys b p q r)
    | _, _, _ => bad
  | ["fetch-ck"] =>
    (st, showE (fun (p : Bytes × Option Bytes × Option Bytes) => s!"{Hex.encodeTok p.1} {showOpt p.2.1} {showOpt p.2.2}") (fetchCryptoKeys b))
  | ["put-usage", n] => match u32? n with | some n => upd st (putAccountUsage b n) | none => bad
  | ["fetch-usage"] => (st, showE toString (fetchAccountUsage b))
  | ["put-coin", n] => match u32? n with | some n => upd st (putCoinType b n) | none => bad
  | ["fetch-coin"] => (st, showE toString (fetchCoinType b))
  | ["put-acct", n, pub, priv] =>
    match u32? n, Hex.decode pub, Hex.decode priv with
    | some n, some pub, some priv => upd st (putAccountInfo b n pub priv)
    | _, _, _ => bad
  | ["fetch-acct", n] =>
    match u32? n with
    | some n => (st, showE (fun (p : Bytes × Bytes) => s!"{Hex.encodeTok p.1} {Hex.encodeTok p.2}") (fetchAccountInfo b n))
    | none => bad
  | ["put-id", h] => match Hex.decode h with | some id => upd st (putAccountID b id) | none => bad
  | ["fetch-ids"] => (st, "ok " ++ joinC ((fetchAccountID b).map Hex.encodeTok))
  | ["del-id", h] => match Hex.decode h with | some id => ({ st with b := deleteAccountID b id }, "ok") | none => bad
  | ["put-remark", h] => match Hex.decode h with | some r => upd st (putRemark b r) | none => bad
  | ["del-remark"] => ({ st with b := deleteRemark b }, "ok")
  | ["fetch-remark"] => (st, "ok " ++ showOpt (fetchRemark b))
  | ["put-branch", i, e] =>
    match Hex.decode i, Hex.decode e with
    | some i, some e => upd st (putBranchPubKeys b i e)
    | _, _ => bad
  | ["fetch-branch"] => (st, showE (fun (p : Bytes × Bytes) => s!"{Hex.encodeTok p.1} {Hex.encodeTok p.2}") (fetchBranchPubKeys b))
  | ["init-child"] => upd st (initBranchChildNum b)
  | ["update-child", i, n] =>
    match bool? i, u32? n with
    | some i, some n => upd st (updateChildNum b i n)
    | _, _ => bad
  | ["fetch-child"] => (st, showE (fun (p : Nat × Nat) => s!"{p.1} {p.2}") (fetchChildNum b))
  | ["get-child", i] => match bool? i with | some i => (st, showE toString (getChildNum b i)) | none => bad
  | ["put-pk", br, ix, h] =>
    match u32? br, u32? ix, Hex.decode h with
    | some br, some ix, some pk => upd st (putEncryptedPubKey b br ix pk)
    | _, _, _ => bad
  | ["fetch-pks"] =>
    (st, showE (fun (l : List (Nat × Nat × Bytes)) => joinC (l.map (fun e => s!"{e.1}:{e.2.1}:{Hex.encodeTok e.2.2}"))) (fetchEncryptedPubKey b))
  | ["export", pur, coin] =>
    match u32? pur, u32? coin with
    | some pur, some coin => (st, showE (fun k => Hex.encodeTok (render k)) (exportKs b pur coin))
    | _, _ => bad
  | ["raw-put", k, v] =>
    match Hex.decode k, Hex.decode v with
    | some k, some v => upd st (bput b k v)
    | _, _ => bad
  | ["raw-del", k] => match Hex.decode k with | some k => ({ st with b := bdel b k }, "ok") | none => bad
  | ["reopen"] => (st, "ok")
  | ["dump"] => (st, "ok " ++ joinC (b.map (fun e => Hex.encodeTok e.1 ++ "=" ++ Hex.encodeTok e.2)))
  | _ => bad

end MW.Drv.Ksc
