/- driver engine `txb` (C02): selection / fee models and the transaction-building spec behind the line
   protocol (see go/cmd/harness/eng_txb.go for the op language).  Base ops are delegated to `Led`. -/
import MW.Drv.Led
import MW.Model.Select
import MW.Model.Fee
import MW.Spec.TxBuild
namespace MW.Drv.Txb
open MW MW.Model.Ledger MW.Model.Select MW.Model.Fee

structure St where
  led : Led.St := {}
  minFrozen : Nat := 0
  reserved : Reserved := []                 -- MODEL of usedCache (outpoints "T:i")
  drafts : List (String × List String) := []   -- (identity, inputs) of the drafts the MODEL returned
  sums : List String := []                     -- results of the create ops since the last `sums`
  -- spec side (fed by `judgetx` lines = the ACTUAL results of the implementation)
  lastReq : Option Spec.TxBuild.Req := none
  sDrafts : List (String × List Spec.TxBuild.OutPt × Bool) := []   -- (identity, inputs, still outstanding)
  deriving Inhabited

def init : St := {}

def joinSorted := Led.joinSorted

def parseNats (s : String) : Option (List Nat) :=
  if s = "-" || s = "" then some [] else (s.splitOn ",").mapM (·.toNat?)

def showNats (l : List Nat) : String := if l.isEmpty then "-" else ",".intercalate (l.map toString)

def sortDescNat (l : List Nat) : List Nat := l.mergeSort (fun a b => decide (b ≤ a))

def coinsOfAmts (l : List Nat) : List Model.Select.Coin := l.zipIdx.map (fun (a, i) => ⟨a, toString i, ""⟩)

/-- API fee ceiling: config.DefaultMaxTxFee = "1.0" MASS -/
def maxFee : Nat := 100000000

/-- inputs of the drafts that are still outstanding (spec side) -/
def sReservedOf (ds : List (String × List Spec.TxBuild.OutPt × Bool)) : List Spec.TxBuild.OutPt :=
  (ds.filter (fun d => d.2.2)).flatMap (fun d => d.2.1)

def St.sReserved (st : St) : List Spec.TxBuild.OutPt := sReservedOf st.sDrafts

/-- does the API release a draft's coins when the fee ceiling rejects it?  (regenerated fact) -/
def apiReleases : Bool := Gen.TxBuild.apiFeeLimitReleasing == Gen.TxBuild.apiFeeLimitHandlers

-- ------------------------------------------------------------------ unit ops

def unitStep (args : List String) : Option String :=
  match args with
  | ["topk", t, as] =>
    match t.toNat?, parseNats as with
    | some t, some as =>
      let s := submitAll (newSel kStd t) (coinsOfAmts as)
      let g := match s.guard with | some g => toString g.amt | none => "-"
      -- spec: the k largest amounts not above the target, and the smallest amount above it
      let high := as.filter (· > t)
      let sg := if high.isEmpty then "-" else toString (high.foldl min (high.headD 0))
      let sp := s!"k={kStd} base={showNats ((sortDescNat (as.filter (· ≤ t))).take kStd)} guard={sg}"
      some (s!"k={kStd} base={showNats (sortDescNat (s.base.toList.map (·.amt)))} guard={g}" ++ "\t" ++ sp)
    | _, _ => some "bad-op"
  | ["opt", t, as] =>
    match t.toNat?, parseNats as with
    | some t, some as =>
      match optOutputs t (coinsOfAmts as) with
      | .ok r => some s!"sel={showNats (r.sel.map (·.amt))} sum={r.sum} res={r.res}"
      | .error _ => some "err"
    | _, _ => some "bad-op"
  | ["pipe", t, as] =>
    match t.toNat?, parseNats as with
    | some t, some as =>
      match pipeline kStd t (coinsOfAmts as) with
      | .ok (sel, found, of) =>
        let m := s!"sel={showNats (sortDescNat (sel.map (·.amt)))} found={found} overfull={if of then 1 else 0}"
        m
      | .error _ => some "err"
    | _, _ => some "bad-op"
  | ["subfee", fee, amts, sel] =>
    let ps := if amts = "-" then some [] else (amts.splitOn ",").mapM (fun p =>
      match p.splitOn ":" with
      | [n, a] => a.toNat?.map (fun v => (n, v))
      | _ => none)
    match fee.toNat?, ps with
    | some fee, some ps =>
      -- the harness builds Go maps: a repeated name keeps the last amount, selection is a set
      let amounts := ps.foldl (fun m e => AMap.put m e.1 e.2) ([] : AMap.T String Nat)
      let selected := if sel = "-" then [] else (sel.splitOn ",").eraseDups
      match maybeSubtractFee amounts selected fee with
      | .ok (na, tot) => some s!"tot={tot} {joinSorted (na.map (fun e => s!"{e.1}:{e.2}"))}"
      | .error .subfee => some "err:subfee"
      | .error _ => some "err"
    | _, _ => some "bad-op"
  | ["relay", sz] =>
    match sz.toNat? with
    | some sz => some (toString (relayFee sz))
    | none => some "bad-op"
  | ["dust", v] =>
    match v.toNat? with
    | some v => some (if isDust v Gen.TxBuild.p2wshScriptLen then "1" else "0")
    | none => some "bad-op"
  | _ => none

-- ------------------------------------------------------------------ wallet view of the model

def nameKnown (st : St) (n : String) : Bool := (AMap.get st.led.own n).isSome || n.startsWith "X"

def optName (s : String) : Option String := if s = "-" then none else some s

def walletAddrs (st : St) (w : Wid) : List Addr := (st.led.own.filter (fun e => e.2.1 = w)).map (·.1)

/-- prepareFromAddresses -/
def prepareFrom (st : St) (w : Wid) (sender : Option Addr) : Except Model.Fee.Err (List Addr) :=
  match sender with
  | some a =>
    match AMap.get st.led.own a with
    | some (w', _) => if w' = w then .ok [a] else .error .noaddr
    | none => .error .noaddr
  | none => let as := walletAddrs st w; if as.isEmpty then .error .noaddr else .ok as

/-- the wallet's coins as ScriptAddressUnspents builds them (the node pool of the harness is empty) -/
def walletCoins (st : St) (w : Wid) : List WCoin :=
  let s := st.led.store
  (coinsOf s w).map (fun c =>
    { id := s!"{c.tx}:{c.idx}", amt := c.cred.amt, addr := c.cred.sh,
      confs := (confs s.syncedTo c.blk.height) % 2^32, maturity := c.cred.maturity, spent := c.cred.spent,
      spentByUnmined := spentByUnmined s c.tx c.idx, standard := decide (c.cred.cls = .standard), inPool := false })

/-- the filter of getUtxosExcludeBindingAndStaking over ScriptAddressUnspents -/
def eligibleCoins (st : St) (w : Wid) (addrs : List Addr) : List Model.Select.Coin :=
  eligibleOf st.reserved addrs (walletCoins st w)

def outStr (o : Out) : String :=
  match o.cls with
  | .std => s!"{o.addr}:{o.amt}"
  | .stk f => s!"{o.addr}:{o.amt}:stk:{f}"
  | .bindOld t => s!"{o.addr}:{o.amt}:bind:{t}"
  | .bindNew t => s!"{o.addr}:{o.amt}:bind22:{t}"
  | .raw => s!"?:{o.amt}"

def summary (fee : Nat) (ins : List Nat) (outs : List Out) (chg : Option (String × Nat)) : String :=
  let c := match chg with | some (a, v) => s!"{v}@{a}" | none => "-"
  s!"ok fee={fee} in={showNats (sortDescNat ins)} out={joinSorted (outs.map outStr)} chg={c}"

/-- requested outputs "A:amt;…" (std), "A:amt:F" (stake), "A:amt:N" (bind) -/
def parseReqOuts (kind : String) (s : String) : Option (List Out) :=
  (Led.parseList s).mapM (fun p =>
    match kind, p.splitOn ":" with
    | "std", [a, m] => m.toNat?.map (fun n => ⟨a, n, .std⟩)
    | "stake", [a, m, f] => do let n ← m.toNat?; let fr ← f.toNat?; pure ⟨a, n, .stk fr⟩
    | "bind", [a, m, t] => m.toNat?.map (fun n => ⟨a, n, .bindNew t⟩)
    | _, _ => none)

/-- a Go map keyed by address: a repeated name keeps the last amount -/
def dedupOuts (os : List Out) : List Out :=
  os.foldl (fun acc o => acc.filter (fun x => x.addr ≠ o.addr) ++ [o]) []

/-- TxStore.ExistsTx: the mined transaction holding the outpoint (unspent index of the current wallet,
    else any credit record with that hash and index), re-read from the chain and checked by hash -/
def existsMsgTx (st : St) (w : Wid) (i : TxId × Nat) : Option (Tx × BlockMeta) :=
  let s := st.led.store
  let blk : Option BlockMeta :=
    match AMap.get s.unspent (w, i.1, i.2) with
    | some b => some b
    | none => (s.credits.find? (fun e => e.1.tx = i.1 ∧ e.1.idx = i.2)).map (·.1.blk)
  match blk with
  | none => none
  | some b =>
    match AMap.get s.txrecs (i.1, b) with
    | none => none
    | some loc =>
      match st.led.txAt b.height loc with
      | some tx => if tx.id = i.1 then some (tx, b) else none
      | none => none

/-- estimateSignedSize / addTxIn look the selected coin up again through existsMsgTx -/
def resolvable (st : St) (w : Wid) (c : Model.Select.Coin) : Bool :=
  match c.id.splitOn ":" with
  | [t, i] => match i.toNat? with
    | some n => (existsMsgTx st w (t, n)).isSome
    | none => false
  | _ => false

structure AutoReq where
  w : Wid
  fee : Nat
  sender : Option Addr
  chg : Option Addr
  payloadLen : Nat
  outs : List Out
  lock : Nat := 0
  deriving Inhabited

/-- Estimate*TxFee: prepareFromAddresses, output construction, autoConstructTxInAndChangeTxOut -/
def autoModel (st : St) (r : AutoReq) : Except Model.Fee.Err AutoRes := do
  let addrs ← prepareFrom st r.w r.sender
  for o in r.outs do
    match o.cls with
    | .stk f =>
      if o.amt = 0 ∨ o.amt > maxAmount then throw .amount
      if f < st.minFrozen ∨ f > 0xfffe then throw (.other)        -- txscript.ErrFrozenPeriod
    | _ => if o.amt = 0 then throw .amount
  autoConstruct { coins := eligibleCoins st r.w addrs, resolvable := resolvable st r.w } (r.outs.map (·.amt)) r.payloadLen r.fee
    ((r.chg).getD "")

def frozenErr (st : St) (r : AutoReq) : Bool :=
  r.outs.any (fun o => match o.cls with | .stk f => decide (f < st.minFrozen ∨ f > 0xfffe) && decide (o.amt ≠ 0) | _ => false)

def errTok (st : St) (r : AutoReq) (e : Model.Fee.Err) : String :=
  if e = .other && frozenErr st r then "err:frozen" else e.tok

/-- convertResponseError: the API keeps only a few wallet error classes apart -/
def apiTok (t : String) : String := Spec.TxBuild.apiCollapse t

def specReq (kind : Spec.TxBuild.Kind) (r : AutoReq) : Spec.TxBuild.Req :=
  { kind := kind, wallet := r.w, sender := r.sender, chg := r.chg, userFee := r.fee, payloadLen := r.payloadLen, outs := r.outs }

/-- run an automatic create: returns the new state and the output token -/
def autoStep (st : St) (kind : Spec.TxBuild.Kind) (r : AutoReq) (reserve : Bool) : St × String :=
  let st := { st with lastReq := some (specReq kind r) }
  if !st.led.wallets.contains r.w then (st, "bad-op") else
  match autoModel st r with
  | .error e => (st, if kind.isApi then apiTok (errTok st r e) else errTok st r e)
  | .ok res =>
    let ids := res.ins.map (·.id)
    let sm := summary res.fee (res.ins.map (·.amt)) r.outs res.change
    let holder := s!"{sm} lock={r.lock} pl={r.payloadLen}"       -- identity of the draft (its txid in Go)
    if kind.isApi && decide (res.fee > maxFee) then
      -- checkTxFeeLimit runs after the wallet reserved the draft's coins
      let st := if apiReleases then st else { st with reserved := markUsed st.reserved holder ids }
      (st, "err:bigfee")
    else
      let st := if reserve then { st with reserved := markUsed st.reserved holder ids, drafts := st.drafts ++ [(holder, ids)] } else st
      (st, sm)

-- ------------------------------------------------------------------ explicit inputs

def parseIns (s : String) : Option (List (TxId × Nat)) :=
  (Led.parseList s).mapM (fun p =>
    match p.splitOn ":" with
    | [t, i] => i.toNat?.map (fun n => (t, n))
    -- `T:i:U` – the same outpoint with the transaction id spelled in upper-case hex (the id is decoded
    -- case-insensitively, so it names the same coin; seed C02-4)
    | [t, i, "U"] => i.toNat?.map (fun n => (t, n))
    | _ => none)

structure ManReq where
  w : Wid
  lock : Nat := 0
  chg : Option Addr
  sub : List Addr
  ins : List (TxId × Nat)
  outs : List Out
  deriving Inhabited

/-- CreateRawTransaction: constructTxIn, EstimateManualTxFee, fee subtraction, change, dust -/
def manualModel (st : St) (r : ManReq) : Except Model.Fee.Err (ManualRes × String) := do
  -- constructTxIn
  let mut total := 0
  let mut senders : List Addr := []
  let mut seen : List (TxId × Nat) := []
  for i in r.ins do
    if Gen.TxBuild.manualRejectsDuplicates && seen.contains i then throw .param    -- an outpoint named twice
    seen := i :: seen
    let prev : Option Tx := match existsMsgTx st r.w i with
      | some (t, _) => some t
      | none => AMap.get st.led.store.pending i.1          -- existsUnminedTx
    let some t := prev | throw .param
    let some o := t.outs[i.2]? | throw .param               -- (Go indexes without a bounds check)
    if o.cls = .raw then throw .param
    match AMap.get st.led.own o.addr with
    | some (w', _) => if w' ≠ r.w then throw .noaddr
    | none => throw .noaddr
    senders := senders ++ [o.addr]
    if total + o.amt > maxAmount then throw .amount
    total := total + o.amt
  let chgAddr := match r.chg with | some a => a | none => senders.headD ""
  -- EstimateManualTxFee → estimateSignedSize: mined previous transactions only
  for i in r.ins do
    if (existsMsgTx st r.w i).isNone then throw .other
  let res ← manualBuild total r.ins.length (r.outs.map (fun o => (o.addr, o.amt))) r.sub
  pure (res, chgAddr)

def manualStep (st : St) (api : Bool) (r : ManReq) : St × String :=
  let kind : Spec.TxBuild.Kind := if api then .apiManual else .manual
  let st := { st with lastReq := some { kind := kind, wallet := r.w, chg := r.chg, outs := r.outs, subfee := r.sub, inputs := r.ins } }
  if !st.led.wallets.contains r.w then (st, "bad-op") else
  if api && (r.ins.isEmpty || r.outs.isEmpty) then (st, "err:other") else     -- checkNotEmpty
  match manualModel st r with
  | .error e => (st, if api then apiTok e.tok else e.tok)
  | .ok (res, chgAddr) =>
    let ids := r.ins.map (fun i => s!"{i.1}:{i.2}")
    let amts := r.ins.filterMap (fun i =>
      match existsMsgTx st r.w i with
      | some (t, _) => (t.outs[i.2]?).map (·.amt)
      | none => none)
    let outs : List Out := res.outs.map (fun e => ⟨e.1, e.2, .std⟩)
    let sm := summary res.fee amts outs (if res.change = 0 then none else some (chgAddr, res.change))
    let holder := s!"{sm} lock={r.lock} ins={ids}"
    if api && decide (res.fee > maxFee) then
      let st := if apiReleases then st else { st with reserved := markUsed st.reserved holder ids }
      (st, "err:bigfee")
    else
      let st := { st with reserved := markUsed st.reserved holder ids, drafts := st.drafts ++ [(holder, ids)] }
      (st, sm)

-- ------------------------------------------------------------------ the judge

def specView (st : St) : Spec.TxBuild.View :=
  { p := st.led.p, minFrozen := st.minFrozen, own := st.led.own, chain := st.led.specChain, txs := st.led.txs,
    pendingSpent := st.led.store.pendIns.map (·.1), reserved := st.sReserved, k := kStd, maxFee := maxFee,
    stale := st.led.specChain.map (·.id) != st.led.node.chain.map (·.id) }

def parseJIns (s : String) : Option (List (TxId × Nat)) :=
  (Led.parseList s).mapM (fun p =>
    match p.splitOn ":" with
    | [t, i, _] => i.toNat?.map (fun n => (t, n))
    | _ => none)

def judgeStep (st : St) (args : List String) : St × String :=
  match st.lastReq with
  | none => (st, "no-request")
  | some req =>
    let res : Option Spec.TxBuild.Res :=
      match args with
      | ["ok", _, fee, _lock, pl, ins, outs] =>
        match fee.toNat?, pl.toNat?, parseJIns ins, (Led.parseList outs).mapM Led.parseOut with
        | some fee, some pl, some ins, some outs => some (.ok fee pl ins outs)
        | _, _, _, _ => none
      | ["undecodable"] => some .garbage
      | [cls] => if cls.startsWith "err:" then some (.err cls) else none
      | _ => none
    match res with
    | none => (st, "bad-op")
    | some res =>
      let verdict := Spec.TxBuild.judge (specView st) req res
      -- a returned draft reserves its inputs for later requests (estimates do not)
      let st := match res, args with
        | .ok _ _ ins _, "ok" :: "1" :: _ => { st with sDrafts := st.sDrafts ++ [(" ".intercalate args, ins, true)] }
        | _, _ => st
      (st, if verdict.isEmpty then "ok" else "bad:" ++ ",".intercalate verdict)

-- ------------------------------------------------------------------ step

def step0 (st : St) (args : List String) : St × String :=
  match unitStep args with
  | some o => (st, o)
  | none =>
  match args with
  | "judgetx" :: rest => judgeStep st rest
  | ["params", _cb, mf] =>
    let (l, o) := Led.step st.led args
    ({ st with led := l, minFrozen := mf.toNat?.getD 0 }, o)
  | [op, w, fee, _lock, sender, chg, pl, outs] =>
    if op ≠ "auto" ∧ op ≠ "est" then (st, "bad-op") else
    match fee.toNat?, _lock.toNat?, pl.toNat?, parseReqOuts "std" outs with
    | some fee, some _, some pl, some os =>
      if !(nameKnown st sender || sender = "-") || !(nameKnown st chg || chg = "-") || os.any (fun o => !nameKnown st o.addr)
      then (st, "bad-op") else
      let r : AutoReq := ⟨w, fee, optName sender, optName chg, pl, dedupOuts os, _lock.toNat?.getD 0⟩
      if op = "auto" then autoStep st .auto r true else autoStep st .est r false
    | _, _, _, _ => (st, "bad-op")
  | ["apiauto", w, fee, lock, sender, chg, outs] =>
    match fee.toNat?, lock.toNat?, parseReqOuts "std" outs with
    | some fee, some _, some os =>
      if !(nameKnown st sender || sender = "-") || !(nameKnown st chg || chg = "-") || os.any (fun o => !nameKnown st o.addr)
      then (st, "bad-op") else
      let r : AutoReq := ⟨w, fee, optName sender, optName chg, 0, dedupOuts os, lock.toNat?.getD 0⟩
      if r.outs.isEmpty then ({ st with lastReq := some (specReq .apiAuto r) }, if st.led.wallets.contains w then "err:other" else "bad-op")
      else autoStep st .apiAuto r true
    | _, _, _ => (st, "bad-op")
  | ["stake", w, fee, lock, sender, outs] =>
    match fee.toNat?, lock.toNat?, parseReqOuts "stake" outs with
    | some fee, some _, some os =>
      if !(nameKnown st sender || sender = "-") || os.any (fun o => !nameKnown st o.addr) then (st, "bad-op") else
      autoStep st .stake ⟨w, fee, optName sender, none, 0, os, lock.toNat?.getD 0⟩ true
    | _, _, _ => (st, "bad-op")
  | ["bind", w, fee, sender, outs] =>
    match fee.toNat?, parseReqOuts "bind" outs with
    | some fee, some os =>
      if !(nameKnown st sender || sender = "-") || os.any (fun o => !nameKnown st o.addr) then (st, "bad-op") else
      autoStep st .bind ⟨w, fee, optName sender, none, 0, os, 0⟩ true
    | _, _ => (st, "bad-op")
  | [op, w, lock, chg, sub, ins, outs] =>
    if op ≠ "man" ∧ op ≠ "apiman" then (st, "bad-op") else
    match lock.toNat?, parseIns ins, parseReqOuts "std" outs with
    | some _, some is, some os =>
      let subs := (Led.parseList sub).eraseDups
      if !(nameKnown st chg || chg = "-") || os.any (fun o => !nameKnown st o.addr) || subs.any (fun a => !nameKnown st a) ||
         is.any (fun i => (AMap.get st.led.txs i.1).isNone) then (st, "bad-op") else
      manualStep st (op = "apiman") ⟨w, lock.toNat?.getD 0, optName chg, subs, is, dedupOuts os⟩
    | _, _, _ => (st, "bad-op")
  | ["signfail", n] =>
    match n.toNat? with
    | none => (st, "no-draft")
    | some n =>
      if n = 0 ∨ n > st.drafts.length then
        -- spec side may still know the draft (batch replay): release there too
        (st, "no-draft")
      else
        let (holder, ins) := st.drafts.getD (n - 1) ("", [])
        -- spec side: the draft handed out as number n (and any identical copy of it) is no longer outstanding
        let key := (st.sDrafts.getD (n - 1) ("", [], false)).1
        let sd := st.sDrafts.map (fun d => if d.1 = key then (d.1, d.2.1, false) else d)
        ({ st with reserved := clearUsed Gen.TxBuild.releaseChecksHolder st.reserved holder ins, sDrafts := sd }, "released")
  | ["reserved", w] =>
    if !st.led.wallets.contains w then (st, "err") else
    (st, joinSorted ((coinsOf st.led.store w).filterMap (fun c =>
      let id := s!"{c.tx}:{c.idx}"
      if utxoUsed st.reserved id then some id else none)))
  | ["elig", w, sender] =>
    if !(nameKnown st sender || sender = "-") || !st.led.wallets.contains w then (st, "bad-op") else
    let m := match prepareFrom st w (optName sender) with
      | .error e => e.tok
      | .ok addrs =>
        let cs := eligibleCoins st w addrs
        if cs.length ≥ kStd then "many" else joinSorted (cs.map (fun c => s!"{c.id}:{c.amt}"))
    -- spec: eligibility from the chain ledger (reservations as the model has them)
    let rs : List Spec.TxBuild.OutPt := st.reserved.filterMap (fun (e : String × List String) =>
      match e.1.splitOn ":" with | [t, i] => i.toNat?.map (fun n => (t, n)) | _ => none)
    let v : Spec.TxBuild.View := { specView st with reserved := rs }
    let senderOk : Bool := match optName sender with
      | some a => (AMap.get st.led.own a).map (fun (e : Wid × Bool) => e.1) == some w
      | none => !(walletAddrs st w).isEmpty
    let se := Spec.TxBuild.eligible v w (optName sender)
    let sp := if senderOk then (if se.length ≥ kStd then "many" else joinSorted (se.map (fun (c : Spec.Chain.SCoin) => s!"{c.tx}:{c.idx}:{c.amt}")))
              else "err:noaddr"
    (st, m ++ "\t" ++ sp)
  | ["find", w, sender, amount] =>
    match amount.toNat? with
    | none => (st, "bad-op")
    | some amount =>
      if !(nameKnown st sender || sender = "-") || !st.led.wallets.contains w then (st, "bad-op") else
      match prepareFrom st w (optName sender) with
      | .error e => (st, e.tok)
      | .ok addrs =>
        match findEligible { coins := eligibleCoins st w addrs } amount with
        | .error e => (st, e.tok)
        | .ok f => (st, s!"sel={showNats (sortDescNat (f.sel.map (·.amt)))} found={f.found} overfull={if f.overfull then 1 else 0} first={if f.first = "" then "-" else f.first}")
  | ["estsize", w, n, m] =>
    match n.toNat?, m.toNat? with
    | some n, some m =>
      if !st.led.wallets.contains w then (st, "bad-op") else
      match prepareFrom st w none with
      | .error e => (st, e.tok)
      | .ok addrs =>
        if n > (eligibleCoins st w addrs).length then (st, "few") else (st, toString (estSize n m))
    | _, _ => (st, "bad-op")
  | ["restart"] =>
    -- a fresh WalletManager: the reservation cache is volatile
    let (l, o) := Led.step st.led args
    ({ st with led := l, reserved := [], sDrafts := st.sDrafts.map (fun d => (d.1, d.2.1, false)) }, o)
  | ["judge"] => (st, "ok\tok")
  | _ =>
    let (l, o) := Led.step st.led args
    ({ st with led := l }, o)

def isCreate (op : String) : Bool :=
  op == "auto" || op == "est" || op == "apiauto" || op == "man" || op == "apiman" || op == "stake" || op == "bind"

/-- create ops only acknowledge; their results are compared at the next `sums` (model) and `judge` (spec) -/
def step (st : St) (args : List String) : St × String :=
  match args with
  | ["sums"] => ({ st with sums := [] }, if st.sums.isEmpty then "-" else " ; ".intercalate st.sums)
  | op :: _ =>
    let (st', o) := step0 st args
    if isCreate op && o != "bad-op" then ({ st' with sums := st'.sums ++ [o] }, "done") else (st', o)
  | [] => step0 st args

end MW.Drv.Txb
