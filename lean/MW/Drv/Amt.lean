/- driver engine `amt`: C15 model + spec behind the line protocol -/
import MW.Model.Amount
import MW.Spec.Amount
import MW.Model.AmountCli
import MW.Spec.AmountCli
namespace MW.Drv.Amt
open MW

structure St where
  unit : Unit := ()
def init : St := {}

def showNat : Except Model.Amount.Err Nat → String
  | .ok n => s!"ok {n}"
  | .error _ => "err"
def showBytes : Except Model.Amount.Err Bytes → String
  | .ok b => s!"ok {Hex.encodeTok b}"
  | .error _ => "err"

def step (st : St) (args : List String) : St × String :=
  match args with
  | ["parse", h] =>
    match Hex.decode h with
    | none => (st, "bad-op")
    | some s =>
      let m := showNat (Model.Amount.parse s)
      let sp := match Spec.Amount.parse s with | some n => s!"ok {n}" | none => "err"
      (st, m ++ "\t" ++ sp)
  | ["cli", h] =>
    match Hex.decode h with
    | none => (st, "bad-op")
    | some s =>
      let m := showNat (Model.Amount.cliParse s)
      let sp := match Spec.Amount.cliParse s with | some n => s!"ok {n}" | none => "err"
      (st, m ++ "\t" ++ sp)
  | [op, n] =>
    if op ≠ "format" ∧ op ≠ "format2" then (st, "bad-op") else
    match n.toInt? with
    | none => (st, "bad-op")
    | some m =>
      let mo := showBytes (Model.Amount.format m)
      let sp := if 0 ≤ m ∧ m.toNat ≤ Spec.Amount.maxAmount
                then s!"ok {Hex.encodeTok (Spec.Amount.format m.toNat)}" else "err"
      (st, mo ++ "\t" ++ sp)
  | _ => (st, "bad-op")

end MW.Drv.Amt
