/- driver engine `fault` (C18): see go/cmd/harness/eng_fault.go.
   `sweep K T op` — by MW.Props.C18.fault_restores_coh / retry_equiv a sweep over every storage call
   index followed by the fault-free retry is the fault-free operation and leaves no trace: the model
   answers with the result of `op` plus "clean". `skip S op` — one faulted attempt without retry: the
   operation fails, store and volatile state are what they were. -/
import MW.Drv.Crash
namespace MW.Drv.Fault
open MW MW.Model.Ledger MW.Model.Persist

structure St where
  core : Crash.Core := {}
  deriving Inhabited

def init : St := {}

/-- model output and SPEC output of a sweep: the fault-free result, and no trace -/
def addClean (out : String) : String :=
  match out.splitOn "\t" with
  | [m] => m ++ " clean\t" ++ m ++ " clean"
  | ms => "\t".intercalate (ms.map (· ++ " clean"))

def step (st : St) (args : List String) : St × String :=
  match args with
  | "sweep" :: _k :: _t :: op =>
    let (c', out, _) := Crash.stepCore st.core op
    ({ core := c' }, addClean out)
  | "skip" :: sel :: op =>
    match op with
    | ["notify", b] =>
      if (AMap.get st.core.led.node.known b).isNone then (st, "bad-op") else
      -- fault at the first calls / at the commit of processConnectedBlock: Update fails, nothing changes
      let _ := sel
      (st, "err clean\terr clean")
    | _ => (st, "bad-op")
  | ["faultstats"] => (st, "ok")
  | _ =>
    let (c', out, _) := Crash.stepCore st.core args
    ({ core := c' }, out)

end MW.Drv.Fault
