/- driver engine `codec`: the table-driven byte codecs of MW.Model.TxmgrCodec behind the line protocol
   (harness: go/cmd/harness/eng_codec.go).  Stateless.  For the prefix scans the second column is the SPEC:
   the same selection made on the DECODED tuples (leading components equal). -/
import MW.Model.TxmgrCodec
import MW.Base.KvBytes
namespace MW.Drv.Codec
open MW MW.Gen.Codec MW.Model.TxmgrCodec

structure St where
  unit : Unit := ()
def init : St := {}

def hx (b : Bytes) : String := Hex.encodeTok b
def b01 (b : Bool) : String := if b then "1" else "0"
def hashOk (b : Bytes) : Bool := b.length == 32
def natU (bits : Nat) (s : String) : Option Nat :=
  match s.toNat? with
  | some n => if n < 2 ^ bits then some n else none
  | none => none
def intI64 (s : String) : Option Int :=
  match s.toInt? with
  | some i => if -(2 ^ 63 : Int) ≤ i ∧ i < 2 ^ 63 then some i else none
  | none => none
def flag? (s : String) : Option Bool := if s = "1" then some true else if s = "0" then some false else none
def list? (s : String) : Option (List Bytes) :=
  if s = "-" then some [] else (s.splitOn ",").mapM Hex.decode
def amount? (s : String) : Option Nat := (natU 64 s).bind (fun n => if n ≤ maxAmount then some n else none)
def joinKeys (ks : List Bytes) : String := if ks.isEmpty then "-" else ",".intercalate (ks.map hx)
def ofOpt (o : Option String) : String := o.getD "err"
def ofExc (e : Except Unit Bytes) : String := match e with | .ok b => hx b | .error _ => "err"

/-- the keys of a bucket as LevelDB holds them: ascending, one entry per key -/
def insertKey (k : Bytes) : List Bytes → List Bytes
  | [] => [k]
  | x :: r => if KV.blt k x then k :: x :: r else if k = x then x :: r else x :: insertKey k r
def sortKeys (ks : List Bytes) : List Bytes := ks.foldl (fun acc k => insertKey k acc) []

def clsOf (n : Nat) : Option ClassB := if n = 0 then some .standard else if n = 1 then some .staking else if n = 2 then some .binding else none

def showCredKey (k : CredKeyB) : String := s!"{hx k.hash} {k.block.height} {hx k.block.hash} {k.index}"

def scan (args : List String) : String :=
  match args with
  | ["ctx", h, ks] =>
    match Hex.decode h, list? ks with
    | some h, some ks => if !hashOk h || ks.any (·.isEmpty) then "bad-op" else
      let keys := sortKeys ks
      let m := joinKeys (scanPrefix h keys)
      let sp := joinKeys (keys.filter (fun k => match readRawCreditKey k with | some c => c.hash == h | none => h.isPrefixOf k))
      m ++ "\t" ++ sp
    | _, _ => "bad-op"
  | ["tlatest", h, ks] =>
    match Hex.decode h, list? ks with
    | some h, some ks => if !hashOk h || ks.any (·.isEmpty) then "bad-op" else
      let r := (scanPrefix h (sortKeys ks)).foldl (fun (acc : Nat × Option Bytes) k =>
        match readTxRecordKey k with
        | some b => if b.height > acc.1 then (b.height, some k) else acc
        | none => acc) (0, none)
      match r.2 with | some k => hx k | none => "-"
    | _, _ => "bad-op"
  | ["ctxh", h, ht, ks] =>
    match Hex.decode h, natU 64 ht, list? ks with
    | some h, some ht, some ks => if !hashOk h || ks.any (·.isEmpty) then "bad-op" else
      let keys := sortKeys ks
      let idx (k : Bytes) : Nat := match readRawCreditKey k with | some c => c.index | none => 0
      -- the result is a map keyed by the output index: a later entry with the same index replaces an earlier one
      let dedup (l : List Bytes) : List Bytes := (l.zipIdx).filterMap (fun (k, i) => if (l.drop (i + 1)).any (fun k' => idx k' == idx k) then none else some k)
      let m := joinKeys (dedup (scanPrefix (creditPrefixHeight h ht) keys))
      let sp := joinKeys (dedup (keys.filter (fun k => match readRawCreditKey k with | some c => c.hash == h && c.block.height == ht | none => false)))
      m ++ "\t" ++ sp
    | _, _, _ => "bad-op"
  | ["trh", h, ht, ks] =>
    match Hex.decode h, natU 64 ht, list? ks with
    | some h, some ht, some ks => if !hashOk h || ks.any (·.isEmpty) then "bad-op" else
      if ht = 0 then "err" else
      match scanPrefix (txRecordPrefixHeight2 h ht) (sortKeys ks) with
      | [] => "-"
      | [k] => hx k
      | _ => "err"
    | _, _, _ => "bad-op"
  | ["clast", h, i, ht, ks] =>
    match Hex.decode h, natU 32 i, natU 64 ht, list? ks with
    | some h, some i, some ht, some ks => if !hashOk h || ks.any (·.isEmpty) then "bad-op" else
      let r := (scanPrefix h (sortKeys ks)).foldl (fun (acc : Nat × Option Bytes) k =>
        match readRawCreditKey k with
        | some c => if c.index = i ∧ c.block.height ≤ ht ∧ c.block.height > acc.1 then (c.block.height, some k) else acc
        | none => acc) (0, none)
      match r.2 with | some k => hx k | none => "-"
    | _, _, _, _ => "bad-op"
  | ["addr", w, ks] =>
    match Hex.decode w, list? ks with
    | some w, some ks => if ks.any (·.isEmpty) then "bad-op" else
      let l := (scanPrefix w (sortKeys ks)).map (fun k =>
        match readAddressKey k with
        | some (c, a) => s!"{c}:{hx a}:0"
        | none => "?")
      let l := (sortKeys (l.map bytesOfString)).map stringOfAscii
      if l.isEmpty then "-" else ",".intercalate l
    | _, _ => "bad-op"
  | ["game", w, gt, ex, ks] =>
    match Hex.decode w, natU 8 gt, flag? ex, list? ks with
    | some w, some gt, some ex, some ks => if ks.any (·.isEmpty) then "bad-op" else
      if w.length ≠ 42 then "err" else
      let keys := sortKeys ks
      let m := joinKeys (scanPrefix (gameHistoryPrefix w gt ex) keys)
      let sp := joinKeys (keys.filter (fun k =>
        match readGameHistory (k.length < 88) k with
        | some g => g.wallet == w && (b01 g.binding == toString gt) && (!ex || !g.withdrawn)
            && (match k[42]?, k[43]? with | some a, some b => a.toNat ≤ 1 && b.toNat ≤ 1 | _, _ => false)
        | none => false))
      -- the spec column applies when every flag byte is 0/1 (keys made by keyGameHistory)
      if keys.all (fun k => match k[42]?, k[43]? with | some a, some b => a.toNat ≤ 1 && b.toNat ≤ 1 | _, _ => true)
      then m ++ "\t" ++ sp else m
    | _, _, _, _ => "bad-op"
  | ["del", p, ks] =>
    match Hex.decode p, list? ks with
    | some p, some ks => if ks.any (·.isEmpty) then "bad-op" else
      joinKeys ((sortKeys ks).filter (fun k => !p.isPrefixOf k))
    | _, _ => "bad-op"
  | _ => "bad-op"

def ckdk (credit : Bool) (h i ht bh : String) : String :=
  match Hex.decode h, natU 32 i, natU 64 ht, Hex.decode bh with
  | some h, some i, some ht, some bh =>
    if hashOk h && hashOk bh then hx ((if credit then keyCredit else keyDebit) ⟨h, ⟨ht, bh⟩, i⟩) else "bad-op"
  | _, _, _, _ => "bad-op"

def kgh (mined : Bool) (w b wd h ht vo : String) : String :=
  match Hex.decode w, flag? b, flag? wd, Hex.decode h, natU 64 ht, natU 32 vo with
  | some w, some b, some wd, some h, some ht, some vo =>
    if !hashOk h then "bad-op" else hx ((if mined then keyGameHistory else keyUnminedGameHistory) ⟨w, b, wd, h, ht, vo⟩)
  | _, _, _, _, _, _ => "bad-op"

def stepOut (args : List String) : String :=
  match args with
  | ["cop", h, i] =>
    match Hex.decode h, natU 32 i with
    | some h, some i => if hashOk h then hx (canonicalOutPoint ⟨h, i⟩) else "bad-op"
    | _, _ => "bad-op"
  | ["usk", w, h, i] =>
    match Hex.decode w, Hex.decode h, natU 32 i with
    | some w, some h, some i => if hashOk h then hx (canonicalUnspentKey ⟨w, h, i⟩) else "bad-op"
    | _, _, _ => "bad-op"
  | ["rusk", k] =>
    match Hex.decode k with
    | some k => ofOpt ((readCanonicalUnspentKey k).map (fun o => s!"{hx o.hash} {o.index}"))
    | none => "bad-op"
  | ["ck", h, i, ht, bh] => ckdk true h i ht bh
  | ["dk", h, i, ht, bh] => ckdk false h i ht bh
  | ["rck", k] =>
    match Hex.decode k with
    | some k => ofOpt ((readRawCreditKey k).map showCredKey)
    | none => "bad-op"
  | ["ruck", k] =>
    match Hex.decode k with
    | some k => ofOpt ((readUnminedCreditKey k).map (fun o => s!"{hx o.hash} {o.index}"))
    | none => "bad-op"
  | ["cuk", k, v] =>
    match Hex.decode k, Hex.decode v with
    | some k, some v => if k.isEmpty || v.isEmpty then "bad-op" else ofOpt ((credKeyOfUnspent k v).map hx)
    | _, _ => "bad-op"
  | ["vuc", a, ch, cl, m, sh] =>
    match amount? a, flag? ch, (natU 32 cl).bind clsOf, natU 32 m, Hex.decode sh with
    | some a, some ch, some cl, some m, some sh => ofExc (valueUnspentCredit ⟨a, false, ch, cl, m, sh⟩)
    | _, _, _, _, _ => "bad-op"
  | ["vumc", a, ch, m, sh, stk, bnd] =>
    match amount? a, flag? ch, natU 32 m, Hex.decode sh, flag? stk, flag? bnd with
    | some a, some ch, some m, some sh, some stk, some bnd => ofExc (valueUnminedCredit a ch m sh stk bnd)
    | _, _, _, _, _, _ => "bad-op"
  | ["rcv", v] =>
    match Hex.decode v with
    | some v => ofOpt ((readCreditValue v).map (fun c => s!"{c.amount} {b01 c.spent} {b01 c.change} {c.cls.code} {c.maturity} {hx c.scriptHash}"))
    | none => "bad-op"
  | ["spend", v, h, ht, bh, i] =>
    match Hex.decode v, Hex.decode h, natU 64 ht, Hex.decode bh, natU 32 i with
    | some v, some h, some ht, some bh, some i =>
      if v.isEmpty || !hashOk h || !hashOk bh then "bad-op" else ofExc (spendCreditValue v ⟨h, ⟨ht, bh⟩, i⟩)
    | _, _, _, _, _ => "bad-op"
  | ["unspend", v] =>
    match Hex.decode v with
    | some v => if v.isEmpty then "bad-op" else hx (unspendCreditValue v)
    | none => "bad-op"
  | ["rcs", v] =>
    match Hex.decode v with
    | some v => (match readCreditSpender v with | some d => hx d | none => "-")
    | none => "bad-op"
  | ["fas", v] =>
    match Hex.decode v with
    | some v => ofOpt ((fetchRawCreditAmountSpent v).map (fun p => s!"{p.1} {b01 p.2}"))
    | none => "bad-op"
  | ["fms", v] =>
    match Hex.decode v with
    | some v => ofOpt ((fetchRawCreditMaturityScriptHash v).map (fun p => s!"{p.1} {hx p.2}"))
    | none => "bad-op"
  | ["ufm", v] => match Hex.decode v with | some v => ofOpt ((valueUnminedCreditFromMined v).map hx) | none => "bad-op"
  | ["tkc", v] => match Hex.decode v with | some v => ofOpt ((fetchTxRecordKeyFromRawCreditKey v).map hx) | none => "bad-op"
  | ["uvc", v] => match Hex.decode v with | some v => ofOpt ((fetchNsUnspentValueFromRawCredit v).map hx) | none => "bad-op"
  | ["deb", h, i, a, ht, bh, ck] =>
    match Hex.decode h, natU 32 i, amount? a, natU 64 ht, Hex.decode bh, Hex.decode ck with
    | some h, some i, some a, some ht, some bh, some ck =>
      if !hashOk h || !hashOk bh then "bad-op" else
      let v := valueDebit a ck
      s!"{hx (keyDebit ⟨h, ⟨ht, bh⟩, i⟩)} {hx v} {ofOpt ((readDebitCredKey v).map hx)}"
    | _, _, _, _, _, _ => "bad-op"
  | ["vus", ht, bh] =>
    match natU 64 ht, Hex.decode bh with
    | some ht, some bh => if hashOk bh then hx (valueUnspent ⟨ht, bh⟩) else "bad-op"
    | _, _ => "bad-op"
  | ["rbu", v] =>
    match Hex.decode v with
    | some v => ofOpt ((readBlockOfUnspent v).map (fun b => s!"{b.height} {hx b.hash}"))
    | none => "bad-op"
  | ["bal", w, a] =>
    match Hex.decode w, amount? a with
    | some w, some a => if w.length ≠ 42 then "err" else s!"{hx w} {hx (valueBalance a)}"
    | _, _ => "bad-op"
  | ["kar", w, c, a] =>
    match Hex.decode w, natU 16 c, Hex.decode a with
    | some w, some c, some a => ofExc (keyAddressRecord ⟨w, c, a⟩)
    | _, _, _ => "bad-op"
  | ["var", ht] => match natU 64 ht with | some ht => hx (valueAddressRecord ht) | none => "bad-op"
  | ["rah", v] =>
    match Hex.decode v with
    | some v => if v.length < 8 then "bad-op" else ofOpt ((readAddressHeight v).map toString)
    | none => "bad-op"
  | ["kgh", w, b, wd, h, ht, vo] => kgh true w b wd h ht vo
  | ["kugh", w, b, wd, h, ht, vo] => kgh false w b wd h ht vo
  | ["rgh", u, k] =>
    match flag? u, Hex.decode k with
    | some u, some k => ofOpt ((readGameHistory u k).map (fun g =>
        s!"{hx g.wallet} {b01 g.binding} {b01 g.withdrawn} {hx g.hash} {g.height} {g.vout}"))
    | _, _ => "bad-op"
  | ["vgh"] => hx valueGameHistory
  | ["pend", ts, ser] =>
    match intI64 ts, Hex.decode ser with
    | some ts, some ser =>
      let v := valueUnmined ser ts
      (match readRawUnmined v with
       | some (t, tail) => s!"{hx v} {t} {hx tail} 1"
       | none => s!"{hx v} err")
    | _, _ => "bad-op"
  | ["rpend", v] =>
    match Hex.decode v with
    | some v => ofOpt ((readRawUnmined v).map (fun p => toString p.1))
    | none => "bad-op"
  | ["ktr", h, ht, bh] =>
    match Hex.decode h, natU 64 ht, Hex.decode bh with
    | some h, some ht, some bh => if hashOk h && hashOk bh then hx (keyTxRecord ⟨h, ⟨ht, bh⟩⟩) else "bad-op"
    | _, _, _ => "bad-op"
  | ["rtk", k] =>
    match Hex.decode k with
    | some k => ofOpt ((readTxRecordKey k).map (fun b => s!"{b.height} {hx b.hash}"))
    | none => "bad-op"
  | ["vtr", h, ht, bh, f, o, l, s, n] =>
    match Hex.decode h, natU 64 ht, Hex.decode bh, natU 32 f, natU 64 o, natU 64 l, natU 32 s, natU 32 n with
    | some h, some ht, some bh, some f, some o, some l, some s, some n =>
      if hashOk h && hashOk bh then s!"{hx (keyTxRecord ⟨h, ⟨ht, bh⟩⟩)} {hx (valueTxRecord ⟨f, o, l, s, n⟩)}" else "bad-op"
    | _, _, _, _, _, _, _, _ => "bad-op"
  | ["rtl", v] =>
    match Hex.decode v with
    | some v => ofOpt ((readTxRecordLoc v).map (fun l => s!"{l.file} {l.offset} {l.length} {l.txStart} {l.txLen}"))
    | none => "bad-op"
  | ["kbr", ht] => match natU 64 ht with | some ht => hx (keyBlockRecord ht) | none => "bad-op"
  | ["vbr", ht, bh, ts, hs] =>
    match natU 64 ht, Hex.decode bh, intI64 ts, list? hs with
    | some ht, some bh, some ts, some hs =>
      if !hashOk bh || hs.isEmpty || hs.any (fun h => !hashOk h) then "bad-op" else
      (match blockRecordValue bh (unixU64 ts) hs with
       | some v => s!"{hx (keyBlockRecord ht)} {hx v}"
       | none => "err")
    | _, _, _, _ => "bad-op"
  | ["rbr", k, v] =>
    match Hex.decode k, Hex.decode v with
    | some k, some v =>
      (match readBlockRecordKey k, readRawBlockRecordValue v with
       | some ht, some r => s!"{ht} {hx r.hash} {int64OfU64 r.time} {joinKeys r.txs}"
       | _, _ => "err")
    | _, _ => "bad-op"
  | ["rbh", v] => match Hex.decode v with | some v => ofOpt ((readBlockHashFromValue v).map hx) | none => "bad-op"
  | ["sync", ht, bh, ts] =>
    match natU 64 ht, Hex.decode bh, intI64 ts with
    | some ht, some bh, some ts =>
      if !hashOk bh then "bad-op" else
      let v := valueSynced bh (unixU64 ts)
      (match readSyncedValue v with
       | some (h, t) => s!"{hx (keySynced ht)} {hx v} {ht} {hx h} {t}"
       | none => s!"{hx (keySynced ht)} {hx v} err")
    | _, _, _ => "bad-op"
  | ["rsync", ht, v] =>
    match natU 64 ht, Hex.decode v with
    | some ht, some v => if v.isEmpty then "bad-op" else ofOpt ((readSyncedValue v).map (fun p => s!"{ht} {hx p.1} {p.2}"))
    | _, _ => "bad-op"
  | ["sto", ht, bh, ts] =>
    match natU 64 ht, Hex.decode bh, intI64 ts with
    | some ht, some bh, some _ =>
      if !hashOk bh || ht ≠ 0 then "bad-op" else
      s!"{hx (bytesOfString ((bucketNames.lookup "syncedToName").getD ""))} {hx (valueSyncedTo ht)}"
    | _, _, _ => "bad-op"
  | ["pws", w, ht, fl] =>
    match Hex.decode w, natU 64 ht, natU 8 fl with
    | some w, some ht, some fl => if w.length ≠ 42 then "err" else s!"{hx w} {hx (valueWalletStatus ⟨w, ht, fl⟩)}"
    | _, _, _ => "bad-op"
  | ["rws", k, v] =>
    match Hex.decode k, Hex.decode v with
    | some k, some v => ofOpt ((readWalletStatus k v).map (fun s => s!"{hx s.wallet} {s.synced} {s.flags}"))
    | _, _ => "bad-op"
  | "scan" :: rest => scan rest
  | _ => "bad-op"

def step (st : St) (args : List String) : St × String := (st, stepOut args)

end MW.Drv.Codec
