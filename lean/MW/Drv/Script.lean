/- driver engine `script`: C16 model + spec behind the line protocol (tokens: notes/C16.md) -/
import MW.Model.Script
import MW.Spec.Script
namespace MW.Drv.Script
open MW
open MW.Model.Script

structure St where
  unit : Unit := ()
def init : St := {}

def className : Class → String
  | .nonStandard => "nonstd" | .witnessV0ScriptHash => "wsh" | .stakingScriptHash => "staking"
  | .bindingScriptHash => "binding" | .multiSig => "multisig" | .nullData => "nulldata"

def isTemplateClass : Class → Bool
  | .witnessV0ScriptHash | .stakingScriptHash | .bindingScriptHash => true
  | _ => false

def addrTok : Addr → String
  | .wsh e p => s!"wsh{e}:{Hex.encodeTok p}"
  | .pkh h => s!"pkh:{Hex.encodeTok h}"
  | .target t => s!"tgt:{Hex.encodeTok t}"
  | .pubkey k => s!"pk:{Hex.encodeTok k}"

def optAddrTok : Option Addr → String
  | some a => addrTok a
  | none => "-"

def b01 (b : Bool) : String := if b then "1" else "0"

/-- public keys are never looked at by the model runs (multisig addresses are not extracted) -/
def pkValid : Bytes → Bool := fun _ => true

/-! model side -/

def walletTok (r : M PkInfo) : String :=
  match r with
  | .error (.err .unsupported) => "unsupported"
  | .error (.err _) => "err"
  | .error (.panic _) => "PANIC"
  | .ok i =>
    s!"ok {className i.scriptClass} ac={i.addressClass} std={optAddrTok i.std} second={optAddrTok i.second} mat={i.maturity} stk={b01 i.isStaking} bnd={b01 i.isBinding}"

def libTok (s : Bytes) : String :=
  match getScriptClass s with
  | .error (.panic _) => "lib PANIC"
  | .error (.err _) => "lib inconsistent"
  | .ok c =>
    if !isTemplateClass c then "lib other"
    else match extractPkScriptAddrs pkValid s with
      | .error (.panic _) => "lib PANIC"
      | .error (.err _) => "lib inconsistent-perr"
      | .ok ex =>
        if ex.cls != c then "lib inconsistent-class3"
        else s!"lib {className c}{String.join (ex.addrs.map (fun a => " " ++ addrTok a))} sigs={ex.reqSigs}"

def bindTok : Option BindingView → String
  | none => "-"
  | some v => s!"{addrTok v.target}:{if v.isChia then "Chia" else "MASS"}:{v.size}"

def apiTok (s : Bytes) : String :=
  match getScriptClass s with
  | .error _ => "api PANIC"
  | .ok c =>
    match extractAddressInfos pkValid s with
    | .error (.panic _) => "api PANIC"
    | .error (.err _) => if isTemplateClass c then "api err" else "api none"
    | .ok a =>
      if isTemplateClass c then
        s!"api {className a.cls} rcp={optAddrTok a.recipient} stk={optAddrTok a.staking} bind={bindTok a.binding} sigs={a.reqSigs}"
      else if a.recipient.isNone && a.staking.isNone && a.binding.isNone then "api none"
      else "api bogus"

def pkModel (s : Bytes) : String := walletTok (parsePkScript s) ++ " | " ++ libTok s ++ " | " ++ apiTok s

def clsModel (s : Bytes) : String :=
  let lib := match catchErr (parseScript s) with
    | .error _ => "PANIC"
    | .ok (.error _) => "nonstd perr"
    | .ok (.ok pops) => match typeOfScript pops with
      | .ok c => className c
      | .error _ => "PANIC"
  let api := match extractAddressInfos pkValid s with
    | .error (.panic _) => "api PANIC"
    | .error (.err _) => "api err"
    | .ok a => s!"api {className a.cls} sigs={a.reqSigs}"
  lib ++ " | " ++ api

/-! spec side -/

open Spec.Script in
def secondTok : Second → String
  | .none => "-"
  | .staking h => s!"wsh1:{Hex.encodeTok h}"
  | .pubKeyHash t => s!"pkh:{Hex.encodeTok t}"
  | .target t => s!"tgt:{Hex.encodeTok t}"

open Spec.Script in
def walletSpecTok : Reading → String
  | .unsupported => "unsupported"
  | .undecodable _ => "unsupported"
  | .ok k h sec mat =>
    let (cn, ac, stk, bnd) := match k with
      | .standard => ("wsh", 0, "0", "0")
      | .staking => ("staking", 1, "1", "0")
      | .binding => ("binding", 0, "0", "1")
    s!"ok {cn} ac={ac} std=wsh0:{Hex.encodeTok h} second={secondTok sec} mat={mat} stk={stk} bnd={bnd}"

open Spec.Script in
def pkSpecOf : Reading → String
  | .unsupported => "unsupported | lib other | api none"
  | .undecodable h => s!"unsupported | lib binding wsh0:{Hex.encodeTok h} sigs=1 | api err"
  | .ok k h sec mat =>
    let w := walletSpecTok (.ok k h sec mat)
    let hh := Hex.encodeTok h
    match k, sec with
    | .standard, _ => s!"{w} | lib wsh wsh0:{hh} sigs=1 | api wsh rcp=wsh0:{hh} stk=- bind=- sigs=1"
    | .staking, _ => s!"{w} | lib staking wsh1:{hh} sigs=1 | api staking rcp=wsh0:{hh} stk=wsh1:{hh} bind=- sigs=1"
    | .binding, .target t =>
      let ty := if (t.drop 20).head? == some 1 then "Chia" else "MASS"
      let sz := match (t.drop 21).head? with | some b => b.toNat | none => 0
      s!"{w} | lib binding wsh0:{hh} tgt:{Hex.encodeTok t} sigs=1 | api binding rcp=wsh0:{hh} stk=- bind=tgt:{Hex.encodeTok t}:{ty}:{sz} sigs=1"
    | .binding, sec =>
      s!"{w} | lib binding wsh0:{hh} {secondTok sec} sigs=1 | api binding rcp=wsh0:{hh} stk=- bind={secondTok sec}:MASS:0 sigs=1"

def pkSpec (s : Bytes) : String := pkSpecOf (Spec.Script.reading s)

/-! grouped outputs of the 256 one-byte extensions of a prefix (op `ext`) -/

def bump (acc : List (String × Nat)) (o : String) : List (String × Nat) :=
  match acc with
  | [] => [(o, 1)]
  | (k, n) :: r => if k == o then (k, n + 1) :: r else (k, n) :: bump r o

def grouped (f : Bytes → String) (p : Bytes) : String :=
  let acc := (List.range 256).foldl (fun acc b => bump acc (f (p ++ [UInt8.ofNat b]))) []
  " ; ".intercalate (acc.map (fun (k, n) => s!"{n}*[{k}]"))

/-! builders -/

def sameScripts (rs : List (M Bytes)) : String × Option Bytes :=
  -- mirrors the harness: all errors -> err; mixed -> mismatch; all ok and equal -> the script
  if rs.any (fun r => match r with | .error (.panic _) => true | _ => false) then ("PANIC", none)
  else
    let oks := rs.filterMap (fun r => match r with | .ok b => some b | _ => none)
    if oks.isEmpty then ("err", none)
    else if oks.length != rs.length then ("mismatch", none)
    else match oks with
      | [] => ("err", none)
      | b :: more => if more.all (· == b) then ("ok", some b) else ("mismatch", none)

def builtTok (x : String × Option Bytes) : String :=
  match x with
  | (_, some sc) => s!"ok {Hex.encodeTok sc} | {walletTok (parsePkScript sc)}"
  | (t, none) => t

def maxAmount : Nat := 20643840000000000

def wshModel (h : Bytes) : String :=
  let r0 := payToWitnessScriptHashScript h
  match newAddressWitnessScriptHash 0 h with
  | .ok a =>
    let sa : Addr := .wsh 1 h
    if (payToAddrScript sa).toBool || (payToWitnessV0Address sa).toBool then "mismatch staking-address-accepted"
    else if (amountToTxOut a 0).toBool then "mismatch zero-amount-accepted"
    else builtTok (sameScripts [r0, payToAddrScript a, payToWitnessV0Address a, amountToTxOut a 1])
  | .error _ => builtTok (sameScripts [r0])

def stkModel (h : Bytes) (frozen : Nat) : String :=
  match newAddressWitnessScriptHash 1 h with
  | .error _ => "err"
  | .ok a =>
    let rs := [payToStakingAddrScript a frozen] ++
      (if frozen ≤ 4294967295 then [constructStakingTxOut a frozen 1 maxAmount] else [])
    if (payToStakingAddrScript (.wsh 0 h) frozen).toBool then "mismatch v0-address-accepted"
    else builtTok (sameScripts rs)

def bindModel (h t : Bytes) : String := builtTok (sameScripts [payToBindingScriptHashScript h t])

open Spec.Script in
def wshSpec (h : Bytes) : String :=
  if h.length = 32 then s!"ok {Hex.encodeTok (wshScript h)} | {walletSpecTok (.ok .standard h .none 0)}" else "err"

open Spec.Script in
def stkSpec (h : Bytes) (frozen : Nat) : String :=
  if h.length = 32 ∧ legalFrozen frozen then
    s!"ok {Hex.encodeTok (stakingScript h frozen)} | {walletSpecTok (.ok .staking h (.staking h) (frozen + 1))}"
  else "err"

open Spec.Script in
def bindSpec (h t : Bytes) : String :=
  if h.length = 32 ∧ (t.length = 20 ∨ t.length = 22) then
    let r : Reading :=
      if t.length = 20 then .ok .binding h (.pubKeyHash t) 0
      else if legalTarget22 t then .ok .binding h (.target t) bindingLockedPeriod
      else .undecodable h
    s!"ok {Hex.encodeTok (bindingScript h t)} | {walletSpecTok r}"
  else "err"

def step (st : St) (args : List String) : St × String :=
  match args with
  | ["pk", x] =>
    match Hex.decode x with
    | none => (st, "bad-op")
    | some s => (st, pkModel s ++ "\t" ++ pkSpec s)
  | ["cls", x] =>
    match Hex.decode x with
    | none => (st, "bad-op")
    | some s => (st, clsModel s)
  | ["ext", x] =>
    match Hex.decode x with
    | none => (st, "bad-op")
    | some p => (st, grouped pkModel p ++ "\t" ++ grouped pkSpec p)
  | ["wsh", x] =>
    match Hex.decode x with
    | none => (st, "bad-op")
    | some h => (st, wshModel h ++ "\t" ++ wshSpec h)
  | ["stk", x, f] =>
    match Hex.decode x, f.toNat? with
    | some h, some fr => if fr < 2 ^ 64 then (st, stkModel h fr ++ "\t" ++ stkSpec h fr) else (st, "bad-op")
    | _, _ => (st, "bad-op")
  | ["bind", x, y] =>
    match Hex.decode x, Hex.decode y with
    | some h, some t => (st, bindModel h t ++ "\t" ++ bindSpec h t)
    | _, _ => (st, "bad-op")
  | _ => (st, "bad-op")

end MW.Drv.Script
