/- driver engine `kv`: C11 model (MW.Model.KVSys) + spec (MW.Spec.KV) behind the line protocol
   of go/cmd/harness/eng_kv.go -/
import MW.Model.KVHandles
import MW.Spec.KVX
namespace MW.Drv.Kv
open MW MW.KV

structure St where
  m : Model.KV.SysX := {}
  s : Spec.KV.SysX := {}
  ooc : Bool := false      -- the specification declared the history out of contract: model column only from here on
def init : St := {}

def parsePath (t : String) : Option Path :=
  if t = "/" then some []
  else (t.splitOn "/").mapM fun x => if x = "" then none else Hex.decode x

def parseSlot : String → Option Slot
  | "w" => some .w
  | "r" => some .r
  | _ => none

def parseStep (t : String) : Option IterStep :=
  if t = "n" then some .next
  else if t = "a" then some .all
  else match t.toList with
    | 's' :: rest => (Hex.decode (String.ofList rest)).map .seek
    | _ => none

def parseOp (args : List String) : Option Op :=
  match args with
  | ["begin", "w"] | ["begin", "u"] => some .beginW
  | ["begin", "r"] | ["begin", "v"] => some .beginR
  | ["commit"] => some .commit
  | ["rollback"] => some .rollback
  | ["endr"] => some .endR
  | ["reopen"] => some .reopen
  | ["probe"] => some .probe
  | ["raw"] => some .raw
  | [op, sl, p] => do
    let s ← parseSlot sl
    let p ← parsePath p
    match op with
    | "create" => some (.create s p)
    | "delb" => some (.delb s p)
    | "has" => some (.has s p)
    | "clear" => some (.clear s p)
    | "names" => some (.names s p)
    | _ => none
  | [op, sl, p, k] => do
    let s ← parseSlot sl
    let p ← parsePath p
    let k ← Hex.decode k
    match op with
    | "get" => some (.get s p k)
    | "del" => some (.del s p k)
    | "prefix" => some (.pfx s p k)
    | _ => none
  | ["put", sl, p, k, v] => do
    let s ← parseSlot sl
    let p ← parsePath p
    let k ← Hex.decode k
    let v ← Hex.decode v
    some (.put s p k v)
  | ["iterp", sl, p, a, sc] => do
    -- bucket.NewIterator(db.BytesPrefix(prefix)): the range the wallet builds for prefix iteration
    let s ← parseSlot sl
    let p ← parsePath p
    let a ← Hex.decode a
    let sc ← (sc.splitOn ",").mapM parseStep
    some (.iter s p a ((Model.KV.bytesPrefixLimit a).getD []) sc)
  | ["iter", sl, p, a, b, sc] => do
    let s ← parseSlot sl
    let p ← parsePath p
    let a ← Hex.decode a
    let b ← Hex.decode b
    let sc ← (sc.splitOn ",").mapM parseStep
    some (.iter s p a b sc)
  | _ => none

def showErr : Err → String
  | .exist => "err:exist"
  | .invalidName => "err:invalid-name"
  | .illegalKey => "err:illegal-key"
  | .illegalValue => "err:illegal-value"
  | .notSupported => "err:not-supported"
  | .illegalPath => "err:illegal-path"
  | .writeNotAllowed => "err:write-not-allowed"
  | .fuel => "err:model-out-of-fuel"
  | .released => "err:released"

def optTok : Option Bytes → String
  | none => "-"
  | some b => Hex.encodeTok b

def listTok (n : Nat) (items : List String) : String :=
  if items.isEmpty then s!"n:{n}" else s!"n:{n} " ++ " ".intercalate items

def showObs : Obs → String
  | .ok => "ok"
  | .nobucket => "nobucket"
  | .notx => "no-tx"
  | .badop => "bad-op"
  | .blocked => "blocked"
  | .acquired => "acquired"
  | .err e => showErr e
  | .bool true => "yes"
  | .bool false => "no"
  | .val none => "nil"
  | .val (some v) => "v:" ++ Hex.encodeTok v
  | .entries es => listTok es.length (es.map fun e => Hex.encodeTok e.1 ++ "=" ++ Hex.encodeTok e.2)
  | .names ns => listTok ns.length (ns.map Hex.encodeTok)
  | .steps ss => " ".intercalate (ss.map fun s => (if s.1 then "T:" else "F:") ++ optTok s.2.1 ++ ":" ++ optTok s.2.2)
  | .unspecified => "unspecified"
  | .outOfContract => "out-of-contract"

/-- `hasf S P`: tx.FetchBucket(meta of path P) != nil — tied by correspondence only (no spec column) -/
def hasFetch (st : St) (sl : String) (pt : String) : String :=
  match parseSlot sl, parsePath pt with
  | some slot, some p =>
    if p.isEmpty then "bad-op" else
    let paths := Model.KV.itoa p.length :: p
    let name := p.getLast?.getD []
    let run (tx : Model.KV.Tx) : String := if (tx.fetchBucket paths name p.length).isSome then "yes" else "no"
    match slot with
    | .w => match st.m.base.w with
      | none => "no-tx"
      | some bt => run { readOnly := false, db := st.m.base.db, b := bt }
    | .r => match st.m.base.reader with
      | some snap => run { readOnly := true, db := snap }
      | none => "no-tx"
  | _, _ => "bad-op"

/-- the extended op lines: `meta S M P`, `fetch S H M`, `keep S H P`, `via H <data op line>`,
    `dead <data op line>`, `deadvia H <data op line>` (paths of the last three relative to the handle /
    issued through the ended read transaction) -/
def parseOpX (args : List String) : Option OpX :=
  match args with
  | ["meta", sl, m, p] => do
    let s ← parseSlot sl
    let m ← m.toNat?
    let p ← parsePath p
    some (.getMeta s m p)
  | ["fetch", sl, h, m] => do
    let s ← parseSlot sl
    let h ← h.toNat?
    let m ← m.toNat?
    some (.fetch s h m)
  | ["keep", sl, h, p] => do
    let s ← parseSlot sl
    let h ← h.toNat?
    let p ← parsePath p
    some (.keep s h p)
  | "via" :: h :: rest => do
    let h ← h.toNat?
    let op ← parseOp rest
    some (.via h op)
  | "dead" :: rest => (parseOp rest).map .dead
  | "deadvia" :: h :: rest => do
    let h ← h.toNat?
    let op ← parseOp rest
    some (.deadVia h op)
  | _ => (parseOp args).map .base

/-- the slot whose Go-map order makes `entries` / `names` results order-free -/
def slotOfX : OpX → Option Slot
  | .base op | .via _ op => Model.KV.slotOf op
  | _ => none

def step (st : St) (args : List String) : St × String :=
  match args with
  | ["hasf", sl, pt] => (st, hasFetch st sl pt)
  | ["conc", w, n] =>
    -- W concurrent writers, N committed transactions each, on a database of their own: single-writer serialisation
    -- (commit_atomic: one open write transaction; a commit is applied whole) means every committed record is there
    -- afterwards, each exactly as written – model and specification answer the count
    match w.toNat?, n.toNat? with
    | some w, some n => (st, s!"ok {w * n}\tok {w * n}")
    | _, _ => (st, "bad-op")
  | _ =>
  match parseOpX args with
  | none => (st, "bad-op")
  | some op =>
    let (m', mo) := st.m.step op
    let (s', so) := st.s.step op
    -- results read inside a write transaction whose order comes from a Go map are compared sorted
    let mo' := if slotOfX op == some Slot.w then mo.canon else mo
    let ooc := st.ooc || so == .outOfContract
    let out := if ooc then showObs mo' else match so with
      | .unspecified => showObs mo'
      | _ => showObs mo' ++ "\t" ++ showObs so
    ({ m := m', s := s', ooc := ooc }, out)

end MW.Drv.Kv
