/- driver engine `race` (C17b): the race-detector runs of go/cmd/harness/eng_race.go must report nothing.
   The model's answer is the verdict of the lockset discipline on the generated access table. -/
import MW.Model.Locks
import MW.Gen.Locks
namespace MW.Drv.Race
open MW.Model.Locks

structure St where
  unit : Unit := ()
def init : St := {}

def step (st : St) (args : List String) : St × String :=
  match args with
  | ["run", s, n] =>
    if !(["api", "tasks", "rmfail", "stop", "addrs"].contains s) || n.toInt?.isNone then (st, "bad-op") else
    -- each scenario is aimed at one group of shared fields: the model expects a report from it exactly when
    -- the lockset discipline fails for a field of that group
    let scope : String := if s = "rmfail" then "KeystoreManager." else if s = "addrs" then "AddrManager." else "NtfnsHandler."
    let bad := (badPairs MW.Gen.Locks.table).any (fun p => p.1.field.startsWith scope)
    (st, (if bad then "RACE" else "clean") ++ "\tclean")
  | _ => (st, "bad-op")

end MW.Drv.Race
