/-
  driver engine `bip39` (C13): model + spec behind the line protocol.

    enc   <entropy> <pairs…>                     NewMnemonic
    dec   <sentence> <pairs…>                    EntropyFromMnemonic
    arr   <sentence> <0|1> <pairs…>              MnemonicToByteArray(sentence, raw)
    valid <sentence>                             IsMnemonicValid
    seed  <sentence> <pass> <salt> <iter> <len> <key> <pairs…>     NewSeedWithErrorChecking
    vec   <entropy> <sentence> <pass> <seed> <pairs…>              an official test vector, all three ways

  The hash functions stay in Go: every `pair` is `<input-hex>=<digest-hex>`, a point of SHA-256 computed by
  the harness (for the entropy, or for the candidate entropy of a sentence it decoded independently), and
  `<salt> <iter> <len> <key>` is one point of PBKDF2-HMAC-SHA512 (password = the sentence).  The driver
  instantiates the parameters `H` / `P` of model and spec with these finite tables; a query outside the
  table yields the empty digest, on which the model reports `panic` (the Go code would index `hash[0]`) –
  never equal to an implementation output, so a table miss can not pass silently.
-/
import MW.Model.Bip39
import MW.Spec.Bip39
namespace MW.Drv.Bip39
open MW MW.B39

structure St where
  unit : Unit := ()
def init : St := {}

def parsePair (t : String) : Option (Bytes × Bytes) :=
  match t.splitOn "=" with
  | [a, b] => do
    let x ← Hex.decode a
    let y ← Hex.decode b
    pure (x, y)
  | _ => none

def parsePairs : List String → Option (List (Bytes × Bytes))
  | [] => some []
  | t :: ts => do
    let p ← parsePair t
    let ps ← parsePairs ts
    pure (p :: ps)

def tableHash (tbl : List (Bytes × Bytes)) : Bytes → Bytes :=
  fun x => match tbl.lookup x with
    | some d => d
    | none => []

def showErr : Model.Bip39.Err → String
  | .entropyLen => "err entlen"
  | .invalid => "err invalid"
  | .word => "err word"
  | .checksum => "err checksum"
  | .panic => "panic"

def showM : Except Model.Bip39.Err Bytes → String
  | .ok b => s!"ok {Hex.encodeTok b}"
  | .error e => showErr e

/-- spec rejection as reported by EntropyFromMnemonic -/
def showRejDec : Spec.Bip39.Reject → String
  | .length => "err invalid"
  | .word => "err word"
  | .checksum => "err checksum"

/-- spec rejection as reported by MnemonicToByteArray (length and word are one class) -/
def showRejArr : Spec.Bip39.Reject → String
  | .length => "err invalid"
  | .word => "err invalid"
  | .checksum => "err checksum"

def isOk (r : Except Model.Bip39.Err Bytes) (x : Bytes) : Bool :=
  match r with
  | .ok y => y == x
  | .error _ => false

def kdfPoint (pw salt : Bytes) (iter len : Nat) (key : Bytes) : Spec.Bip39.Kdf :=
  fun pw' salt' iter' len' => if pw' = pw ∧ salt' = salt ∧ iter' = iter ∧ len' = len then key else []

def step (st : St) (args : List String) : St × String :=
  match args with
  | "enc" :: e :: ps =>
    match Hex.decode e, parsePairs ps with
    | some ent, some tbl =>
      let H := tableHash tbl
      let m := showM (Model.Bip39.newMnemonic H ent)
      let s := match Spec.Bip39.encode H ent with
        | some x => s!"ok {Hex.encodeTok x}"
        | none => "err entlen"
      (st, m ++ "\t" ++ s)
    | _, _ => (st, "bad-op")
  | "dec" :: s :: ps =>
    match Hex.decode s, parsePairs ps with
    | some sent, some tbl =>
      let H := tableHash tbl
      let m := showM (Model.Bip39.entropyFromMnemonic H sent)
      let sp := match Spec.Bip39.decode H (Model.Bip39.fields sent) with
        | .ok x => s!"ok {Hex.encodeTok x}"
        | .error r => showRejDec r
      (st, m ++ "\t" ++ sp)
    | _, _ => (st, "bad-op")
  | "arr" :: s :: r :: ps =>
    match Hex.decode s, parsePairs ps with
    | some sent, some tbl =>
      if r ≠ "0" ∧ r ≠ "1" then (st, "bad-op") else
      let raw := r = "1"
      let H := tableHash tbl
      let m := showM (Model.Bip39.mnemonicToByteArray H sent raw)
      let ws := Model.Bip39.fields sent
      let sp := match Spec.Bip39.decode H ws with
        | .ok x => if raw then s!"ok {Hex.encodeTok x}" else s!"ok {Hex.encodeTok (Spec.Bip39.checksummedBytes ws)}"
        | .error rj => showRejArr rj
      (st, m ++ "\t" ++ sp)
    | _, _ => (st, "bad-op")
  | ["valid", s] =>
    match Hex.decode s with
    | some sent =>
      let m := if Model.Bip39.isMnemonicValid sent then "true" else "false"
      let ws := Model.Bip39.fields sent
      let sp := if Spec.Bip39.legalWordCount ws.length && Spec.Bip39.allListed ws then "true" else "false"
      (st, m ++ "\t" ++ sp)
    | none => (st, "bad-op")
  | "seed" :: s :: pw :: salt :: iter :: len :: key :: ps =>
    match Hex.decode s, Hex.decode pw, Hex.decode salt, iter.toNat?, len.toNat?, Hex.decode key, parsePairs ps with
    | some sent, some pass, some salt, some iter, some len, some key, some tbl =>
      let H := tableHash tbl
      let P := kdfPoint sent salt iter len key
      let m := showM (Model.Bip39.newSeedWithErrorChecking H P sent pass)
      let sp := match Spec.Bip39.decode H (Model.Bip39.fields sent) with
        | .ok _ => s!"ok {Hex.encodeTok (Spec.Bip39.seed P sent pass)}"
        | .error rj => showRejArr rj
      (st, m ++ "\t" ++ sp)
    | _, _, _, _, _, _, _ => (st, "bad-op")
  | "vec" :: e :: s :: pw :: sd :: ps =>
    match Hex.decode e, Hex.decode s, Hex.decode pw, Hex.decode sd, parsePairs ps with
    | some ent, some sent, some pass, some seed, some tbl =>
      let H := tableHash tbl
      let P := kdfPoint sent (strBytes "mnemonic" ++ pass) 2048 64 seed
      let okM := isOk (Model.Bip39.newMnemonic H ent) sent
        && isOk (Model.Bip39.entropyFromMnemonic H sent) ent
        && isOk (Model.Bip39.mnemonicToByteArray H sent true) ent
        && isOk (Model.Bip39.newSeedWithErrorChecking H P sent pass) seed
      let okS := Spec.Bip39.encode H ent == some sent
        && (match Spec.Bip39.decode H (Model.Bip39.fields sent) with | .ok x => x == ent | .error _ => false)
        && Spec.Bip39.seed P sent pass == seed
      (st, (if okM then "ok" else "mismatch") ++ "\t" ++ (if okS then "ok" else "mismatch"))
    | _, _, _, _, _ => (st, "bad-op")
  | _ => (st, "bad-op")

end MW.Drv.Bip39
