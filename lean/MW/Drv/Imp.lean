/- driver engine `imp` (C07): two wallet instances over one node, wallet import stepped batch by batch;
   op language: go/cmd/harness/eng_imp.go.  Base ops are delegated to MW.Drv.Led.step. -/
import MW.Drv.Led
import MW.Model.Import
import MW.Model.Remove
import MW.Gen.Handler
namespace MW.Drv.Imp
open MW MW.Model.Ledger MW.Model.Import

/-- one wallet instance: ledger driver state + worker queue + removal goroutine -/
structure Inst where
  led : Led.St := {}
  queue : List (Bool × Wid) := []       -- (isRemove, wallet)
  rm : Option Wid := none                -- asyncRemove parked in suspend for this wallet
  quit : Bool := false                   -- close(quit) happened (until restart)
  begun : Bool := false                  -- an asyncRemove goroutine was started since the last restart
  pendOff : Bool := false                -- a wallet has been imported here: MW.Spec.Pending no longer applies
  goneAddrs : List Addr := []            -- addresses of the wallets removed from this instance
  deriving Inhabited

structure St where
  a : Inst := {}
  b : Inst := {}
  known : AMap.T Wid (List Addr) := []   -- every address ever issued to a wallet, in order (all instances)
  minFrozen : Nat := 61440               -- consensus.MinFrozenPeriod (set by `params`)
  dead : Bool := false                   -- a refused `submit`: the history left the modelled domain
  deriving Inhabited

def init : St := {}

def getI (st : St) (two : Bool) : Inst :=
  if two then
    -- the second instance shares the node, the transaction table and the consensus parameters
    { st.b with led := { st.b.led with node := st.a.led.node, txs := st.a.led.txs, shape := st.a.led.shape, p := st.a.led.p } }
  else st.a

def setI (st : St) (two : Bool) (i : Inst) : St := if two then { st with b := i } else { st with a := i }

def addrsOf (st : St) (w : Wid) : List Addr := (AMap.get st.known w).getD []

def withSpec : List String := ["bal", "utxos", "addrs", "shist", "bhist"]
def queries : List String := withSpec ++ ["sbu", "hsbu", "shistp", "bhistp"]
/-- observations of the pending side.  MW.Spec.Pending (C09) specifies them by the rule "a pending transaction is
    tracked iff it is relevant to some READY, non-removed wallet": it applies while every wallet of the instance is
    ready (after a removal has finished the spec set is re-filtered: `Spec.Pending.onWalletsChanged`).  It does not
    apply while a wallet is flagged for removal (Rollback still parks its transactions) nor once a wallet has been
    imported into the instance (Rollback parks an importing wallet's transactions in the pending set although the
    follower ignores that wallet; they legitimately stay after the import) — then implementation and model only. -/
def pendingOps : List String := ["sbu", "hsbu", "shistp", "bhistp", "pend", "pins", "pcred", "pgame"]

def useTok : UseRes → String | .ok => "ok" | .unready => "unready" | .err => "err"

def errTok : ImpErr → String
  | .continuable => "err-continuable" | .revoked => "err-revoked" | .creditNotFound => "err-nocredit"
  | .noWallet => "err-nowallet" | .other => "err"

def statusTok (s : Store) (w : Wid) : String :=
  match AMap.get s.status w with
  | none => "absent"
  | some st => if st.removed then "removing" else match st.synced with
    | none => "ready" | some h => s!"importing@{h}"

def pad8 (n : Nat) : String :=
  let d := toString n
  String.ofList (List.replicate (8 - d.length) '0') ++ d

def tasksTok (q : List (Bool × Wid)) : String :=
  Led.joinSorted (q.map (fun t => (if t.1 then "remove:" else "import:") ++ t.2))

/-- does MW.Spec.Pending apply to this instance now?  (every wallet ready and not flagged, none ever imported) -/
def pendSpecOn (i : Inst) : Bool :=
  !i.pendOff && i.led.store.status.all (fun e => e.2.synced.isNone && !e.2.removed) &&
  -- a transaction that spends a COINBASE coin paid to an address that is not (or no longer) of a wallet of this
  -- instance (a stranger, a wallet of the other instance, a removed wallet): the specification purges it when that
  -- coinbase is orphaned, the code cannot (Rollback finds the spenders of an orphaned coinbase through the
  -- coinbase's tx and credit records, which exist for the wallets' own coinbases only).  With the consensus
  -- maturity (1000) this needs a reorganisation deeper than 1000 blocks; with the harness's it is reachable.
  -- Reported to C09 (notes/C08.md, "orphaned foreign coinbase"); the spec column is left out for such histories.
  !(i.led.txs.any (fun e => !e.2.cb && e.2.ins.any (fun inp =>
      match AMap.get i.led.txs inp.tx with
      | some p => p.cb && (match p.outs[inp.idx]? with
          | some o => i.goneAddrs.contains o.addr || (AMap.get i.led.own o.addr).isNone
          | none => false)
      | none => false)))

/-- a follower event (tip notification, unconfirmed transaction) handled while some wallet of the instance has a keystore
    but is not ready (flagged for removal, importing): Rollback and the conflict purge still act on that wallet's
    transactions, which the ready-wallets-only specification cannot see — from here on it no longer applies -/
def noteEvent (i : Inst) : Inst :=
  if i.led.store.status.all (fun e => e.2.synced.isNone && !e.2.removed) then i else { i with pendOff := true }

/-- split "model\tspec" -/
def splitOut (o : String) : String × String :=
  match o.splitOn "\t" with
  | [m, s] => (m, s)
  | _ => (o, o)

/-- names of the wallet's addresses that have history, model side (GetAddresses of both classes) and spec side -/
def usedAddrs (l : Led.St) (addrs : List Addr) (w : Wid) : String × String :=
  let m := addrs.filter (fun a =>
    (match AMap.get l.store.addrs (w, false, a) with | some h => h > 0 | none => false) ||
    (match AMap.get l.store.addrs (w, true, a) with | some h => h > 0 | none => false))
  let s := addrs.filter (fun a => (AMap.get l.own a).isSome && Spec.Chain.addrUsed l.specChain a)
  (Led.joinSorted m, Led.joinSorted s)

/-- everything C07 compares between the original and the restored wallet -/
def twinObs (st : St) (two : Bool) (w : Wid) : String × String :=
  let i := getI st two
  if useWallet i.led.store i.led.wallets w != .ok then ("err", "err") else
  let q (args : List String) := splitOut (Led.step i.led args).2
  let parts := [q ["bal", w, "1"], q ["utxos", w], usedAddrs i.led (addrsOf st w) w, q ["shist", w, "0"], q ["bhist", w, "0"]]
  (";".intercalate (parts.map (·.1)), ";".intercalate (parts.map (·.2)))

/-- keystore deletion / creation on the driver side -/
def dropKeystore (l : Led.St) (w : Wid) : Led.St :=
  { l with wallets := l.wallets.filter (· != w), own := l.own.filter (fun e => e.2.1 != w),
           issued := l.issued.filter (fun e => e.2.1 != w) }

def addKeystore (l : Led.St) (w : Wid) (addrs : List Addr) : Led.St :=
  { l with wallets := l.wallets ++ [w],
           own := addrs.foldl (fun m a => AMap.put m a (w, false)) l.own,
           issued := l.issued ++ addrs.map (fun a => (a, w, false)) }

def gapLimit : Nat := 20

/-- ops that need no import logic: volatile sets, registry upkeep, guarded queries, base ops -/
def instStepRest (st : St) (two : Bool) (args : List String) : St × String :=
  let i := getI st two
  let l := i.led
  match args with
  | ["expired"] =>
    (st, Led.joinSorted (l.vol.expired.map (fun e =>
      pad8 e.1 ++ "=" ++ "+".intercalate (e.2.mergeSort (fun a b => a ≤ b)))))
  | ["mempool"] => (st, Led.joinSorted l.vol.mempool)
  | ["stalepend"] =>
    -- pending transactions one of whose inputs the node's chain spends by another transaction;
    -- spec: none (a restored wallet must not keep what the chain has made impossible)
    let chainTxs := l.node.chain.flatMap (·.txs)
    let stale := l.store.pending.filter (fun e =>
      e.2.ins.any (fun i => chainTxs.any (fun t => !t.cb && t.id != e.1 && t.ins.any (fun j => j.tx == i.tx && j.idx == i.idx))))
    -- (while a wallet is still importing its rolled-back transactions legitimately wait in the pending set)
    if l.store.status.all (fun e => e.2.synced.isNone) then (st, Led.joinSorted (stale.map (·.1)) ++ "\t-")
    else (st, Led.joinSorted (stale.map (·.1)))
  | "addr" :: w :: a :: _ =>
    let (l', o) := Led.step l args
    let st := setI st two { i with led := l' }
    if o == "ok" then ({ st with known := AMap.put st.known w (addrsOf st w ++ [a]) }, o) else (st, o)
  | "wallet" :: w :: _ =>
    let (l', o) := Led.step l args
    let st := setI st two { i with led := l' }
    if o == "ok" && (AMap.get st.known w).isNone then ({ st with known := AMap.put st.known w [] }, o) else (st, o)
  | ["tx", _, _, _, outs] =>
    -- the harness refuses an output to an address name it does not know (owned names must have been
    -- issued; names starting with X are strangers, created on demand)
    let okName (a : String) : Bool := a == "raw" || a.startsWith "X" || st.known.any (fun e => e.2.contains a)
    -- … and a staking output whose frozen period is outside [MinFrozenPeriod, 2^32 − 2]
    let okStk (o : String) : Bool := match o.splitOn ":" with
      | [_, _, "stk", f] => (match f.toNat? with | some n => st.minFrozen ≤ n && n ≤ 4294967294 | none => false)
      | _ => true
    if (Led.parseList outs).all (fun o => okName ((o.splitOn ":").headD "") && okStk o) then
      let (l', o) := Led.step l args
      (setI st two { i with led := l' }, o)
    else (st, "err")
  | ["submit", b] =>
    -- the chain database refuses a block that spends an output which does not exist on the chain (or
    -- earlier in the block) or is already spent there
    match AMap.get l.node.known b with
    | none => ({ st with dead := true }, "dead")
    | some blk =>
      let spentBy (txs : List Tx) (t : TxId) (k : Nat) : Bool :=
        txs.any (fun x => !x.cb && x.ins.any (fun y => y.tx == t && y.idx == k))
      let chainTxs := l.node.chain.flatMap (·.txs)
      let rec okTxs (seen : List Tx) : List Tx → Bool
        | [] => true
        | t :: rest =>
          (t.cb || t.ins.all (fun y =>
            ((seen ++ chainTxs).find? (fun x => x.id == y.tx)).any (fun p => y.idx < p.outs.length) &&
            !spentBy (seen ++ chainTxs) y.tx y.idx)) && okTxs (seen ++ [t]) rest
      if okTxs [] blk.txs then
        let (l', o) := Led.step l args
        if o == "ok" then (setI st two { i with led := l' }, o) else ({ st with dead := true }, "dead")
      else ({ st with dead := true }, "dead")
  | ["params", _, mf] =>
    let (l', o) := Led.step l args
    let st := setI st two { i with led := l' }
    (match mf.toNat? with | some n => { st with minFrozen := n } | none => st, o)
  | ["notify", b] =>
    -- Led's oracle says "ok iff the block is on the node's chain"; a (stale) notification for a block the
    -- follower itself already has at that height also succeeds: the follower steps back onto it.
    let i := noteEvent i
    let (l', o) := Led.step l args
    let (m, sp) := splitOut o
    match AMap.get l.node.known b with
    | some blk =>
      if m == "ok" && sp == "err" && (l.specChain[blk.height]?.map (·.id)) == some b then
        (setI st two { i with led := { l' with specChain := l.specChain.take (blk.height + 1) } }, "ok\tok")
      else (setI st two { i with led := l' }, o)
    | none => (setI st two { i with led := l' }, o)
  | ["recvtx", _] =>
    let (l', o) := Led.step l args
    (setI st two { noteEvent i with led := l' }, o)
  | op :: w :: _ =>
    if queries.contains op && useWallet l.store l.wallets w != .ok then
      (st, if withSpec.contains op then "err\terr" else "err")
    else
      let (l', o) := Led.step l args
      (setI st two { i with led := l' }, if pendingOps.contains op && !pendSpecOn i then (splitOut o).1 else o)
  | [op] =>
    let (l', o) := Led.step l args
    (setI st two { i with led := l' }, if pendingOps.contains op && !pendSpecOn i then (splitOut o).1 else o)
  | _ =>
    let (l', o) := Led.step l args
    (setI st two { i with led := l' }, o)

/-- instance-level ops of the import engine -/
def instStep (st : St) (two : Bool) (args : List String) : St × String :=
  let i := getI st two
  let l := i.led
  match args with
  | ["use", w] =>
    -- selectability IS the property (MW.Props.C07.not_selectable_until_done): model answer = spec answer
    (st, useTok (useWallet l.store l.wallets w) ++ "\t" ++ useTok (useWallet l.store l.wallets w))
  | ["restart"] =>
    let (l', o) := Led.step l ["restart"]
    (setI st two { i with led := l', queue := [], rm := none, quit := false, begun := false }, o)
  | ["tasks"] => (setI st two { i with queue := [] }, tasksTok i.queue)
  | ["inittasks"] =>
    -- initTaskChan: a fresh queue holding one task per wallet flagged removed / not ready
    let q := l.store.status.filterMap (fun e =>
      if e.2.removed then some (true, e.1) else if e.2.synced.isSome then some (false, e.1) else none)
    (setI st two { i with queue := q }, "ok")
  | ["import", w, how, ns] =>
    match ns.toNat? with
    | none => (st, "bad-op")
    | some n =>
      if (AMap.get st.known w).isNone || (how != "mn" && how != "ks") then (st, "bad-op") else
      if how == "ks" && !st.a.led.wallets.contains w then (st, "err-export") else
      if i.queue.length ≥ Gen.Handler.maxWaitingTaskNum then (st, "err-busy") else
      if l.wallets.contains w then (st, "err-dup") else
      let all := addrsOf st w
      let ext := if how == "ks" then (st.a.led.issued.filter (fun e => e.2.1 = w)).length else n
      let used (k : Nat) : Bool := match all[k]? with
        | some a => Spec.Chain.addrUsed l.node.chain a
        | none => false
      let cnt := discover used ext gapLimit (all.length + ext + gapLimit + 1)
      let addrs := all.take cnt
      let names := addrs ++ List.replicate (cnt - addrs.length) "?"
      let l' := addKeystore { l with store := importWalletStore l.store w addrs } w addrs
      let q := if addrs.isEmpty then i.queue else i.queue ++ [(false, w)]
      (setI st two { i with led := l', queue := q, pendOff := true }, s!"ok {statusTok l'.store w} {Led.joinSorted names}")
  | [op, w] =>
    if op != "impstep" && op != "impstep!" then instStepRest st two args else
    if (AMap.get st.known w).isNone then (st, "bad-op") else
    -- the worker never steps a finished import again (`impstep!` forces the call)
    if op == "impstep" && (match AMap.get l.store.status w with | some ws => ws.synced.isNone | none => false) then (st, "idle") else
    if i.quit then (st, "err") else
    match importStep Gen.Handler.importBatch (Led.ctx l) w l.store l.vol with
    | .error e => (st, errTok e)
    | .ok (s', v', fin) =>
      (setI st two { i with led := { l with store := s', vol := v' } }, if fin then "fin" else "more")
  | _ => instStepRest st two args

/-- `impsteps W N`: N times `impstep W`, silently -/
def instStepN (st : St) (two : Bool) (args : List String) : St × String :=
  match args with
  | ["impsteps", w, ns] =>
    match ns.toNat? with
    | none => (st, "bad-op")
    | some n =>
      if (AMap.get st.known w).isNone then (st, "bad-op") else
      ((List.range n).foldl (fun st _ => (instStep st two ["impstep", w]).1) st, "ok")
  | ["impstepn", w, b] =>
    -- one batch with `notify B` handled by the follower while the import worker waits in suspend: the worker reads the
    -- follower's tip inside the suspended window, so the notification simply comes first
    let (st1, o1) := instStep st two ["notify", b]
    let (st2, o2) := instStep st1 two ["impstep", w]
    (st2, (splitOut o1).1 ++ "/" ++ o2)
  | ["importq", w, how, ns] =>
    -- `import`, answering only whether it succeeded (neither the status nor the address list): a wrong address
    -- set then shows at the observations that have a specification (use, bal, utxos, twin)
    let (st', o) := instStep st two ["import", w, how, ns]
    (st', if o.startsWith "ok " then "ok" else o)
  | _ => instStep st two args

def nodeOps : List String := ["tx", "block", "submit", "detach", "params", "fill", "twin"]

/-- `fill K TAG M`: K empty blocks on the tip, notified to instance 1 (M&1) and instance 2 (M&2) -/
def fill (st : St) (k : Nat) (tag : String) (m : Nat) : St × String := Id.run do
  let mut st := st
  for j in List.range k do
    let tn := s!"c{tag}.{j+1}"
    let bn := s!"{tag}.{j+1}"
    let tip := (st.a.led.node.chain.getLast?.map (·.id)).getD "G"
    let (l1, o1) := Led.step st.a.led ["tx", tn, "0", "cb", "X0:1"]
    let (l2, o2) := Led.step l1 ["block", bn, tip, tn]
    let (l3, o3) := Led.step l2 ["submit", bn]
    if o1 != "ok" || o2 != "ok" || o3 != "ok" then return (st, "err")
    st := { st with a := { st.a with led := l3 } }
    if m % 2 = 1 then
      let (l4, o4) := Led.step st.a.led ["notify", bn]
      if !o4.startsWith "ok" then return (st, "err-notify1")
      st := { st with a := { noteEvent st.a with led := l4 } }
    if (m / 2) % 2 = 1 then
      let i := getI st true
      let (l5, o5) := Led.step i.led ["notify", bn]
      if !o5.startsWith "ok" then return (st, "err-notify2")
      st := setI st true { noteEvent i with led := l5 }
  return (st, "ok")

/-- routing: instance prefix, node-level ops, everything else through `h` -/
def route (h : St → Bool → List String → St × String) (st : St) (args : List String) : St × String :=
  if st.dead then (st, "dead") else
  match args with
  | "i2" :: rest =>
    match rest with
    | [] => (st, "bad-op")
    | op :: _ => if nodeOps.contains op then (st, "bad-op") else h st true rest
  | ["twin", w] =>
    let (m1, s1) := twinObs st false w
    let (m2, s2) := twinObs st true w
    (st, m1 ++ "|" ++ m2 ++ "\t" ++ s1 ++ "|" ++ s2)
  | ["fill", ks, tag, ms] =>
    match ks.toNat?, ms.toNat? with
    | some k, some m => if k > 5000 then (st, "bad-op") else fill st k tag m
    | _, _ => (st, "bad-op")
  | _ => h st false args

def step (st : St) (args : List String) : St × String := route instStepN st args

end MW.Drv.Imp
