/-
  C02 — Created transactions conserve value and spend only own, mature, free coins.
  PROPERTY THEOREMS.

  Models: MW.Model.Select (top-K selector as an array min-heap, greedy subset of optOutputs),
          MW.Model.Fee (fee fixed point, change/dust rule, fee split, reservation cache, create calls).
  Spec notions used here: sub-multiset (`SubMultiset`), sums of amounts, the relay minimum
  `relayFee`, the size estimate `estSize`; MW.Spec.TxBuild.judge is the executable form of the same
  clauses and is what the harness applies to every transaction the implementation returns.

  All theorems are for ALL inputs (coin lists, k, amounts, requests, call sequences).
-/
import MW.Lemmas.SelectPipeline
import MW.Lemmas.SelectKLargest
import MW.Lemmas.FeeLoop
import MW.Lemmas.FeeComplete
import MW.Lemmas.FeeManual
import MW.Lemmas.FeeReserve
import MW.Lemmas.FeeRelease
namespace MW.Props.C02
open MW MW.Model.Select MW.Model.Fee
open MW.Lemmas.SelectHeap MW.Lemmas.SelectTopK MW.Lemmas.SelectGreedy MW.Lemmas.SelectPipeline
open MW.Lemmas.FeeLoop MW.Lemmas.FeeComplete MW.Lemmas.FeeManual MW.Lemmas.FeeReserve MW.Lemmas.FeeRelease

-- ------------------------------------------------------------------ 1. topK_spec

/-- After ANY submission sequence `coins` the selector holds, as a multiset, the k largest coins not
    exceeding the target: `base ++ rest` is a permutation of the coins ≤ target, nothing left out
    (`rest`) is larger than anything kept, and min(k, number of such coins) are kept.  The array is a
    min-heap once it is full.  The guard is the smallest coin exceeding the target (none iff there is
    no such coin). -/
theorem topK_spec (k target : Nat) (coins : List Coin) :
    let s := submitAll (newSel k target) coins
    let low := coins.filter (fun c => decide (c.amt ≤ target))
    (∃ rest, (s.base.toList ++ rest).Perm low ∧ (∀ r ∈ rest, ∀ b ∈ s.base.toList, r.amt ≤ b.amt)) ∧
    s.base.size = min k low.length ∧
    (s.base.size = k → HeapFrom k s.base 0) ∧
    (s.guard = none → ∀ c ∈ coins, c.amt ≤ target) ∧
    (∀ g, s.guard = some g → g ∈ coins ∧ target < g.amt ∧ ∀ c ∈ coins, target < c.amt → g.amt ≤ c.amt) := by
  intro s low
  have inv : Inv s coins := by
    have := inv_submitAll (newSel k target) [] coins (inv_init k target)
    simpa using this
  have hk : s.k = k := by show (submitAll _ _).k = k; rw [submitAll_k]; rfl
  have hreq : s.req = target := by show (submitAll _ _).req = target; rw [submitAll_req]; rfl
  obtain ⟨hle, hheap, ⟨rest, hperm, hbound, hrest⟩, hgn, hgs⟩ := inv
  rw [hk] at hle hheap hrest
  rw [hreq] at hperm hgn hgs
  refine ⟨⟨rest, hperm, hbound⟩, ?_, hheap, hgn, hgs⟩
  have hlen : s.base.toList.length + rest.length = low.length := by
    have := hperm.length_eq
    rw [List.length_append] at this
    exact this
  have hsz : s.base.toList.length = s.base.size := by simp
  by_cases hfull : s.base.size < k
  · have := hrest hfull
    subst this
    simp only [List.length_nil, Nat.add_zero] at hlen
    omega
  · omega

/-- the same as amounts: sorted, the amounts kept are exactly the first k entries of the sorted amounts of
    the coins not exceeding the target ("the k largest"; this is the spec column of the `topk` op) -/
theorem topK_k_largest (k target : Nat) (coins : List Coin) :
    let s := submitAll (newSel k target) coins
    let low := coins.filter (fun c => decide (c.amt ≤ target))
    MW.Lemmas.SelectKLargest.sortDescNat (s.base.toList.map (·.amt)) =
      (MW.Lemmas.SelectKLargest.sortDescNat (low.map (·.amt))).take k := by
  intro s low
  obtain ⟨⟨rest, hperm, hbound⟩, hsize, _, _, _⟩ := topK_spec k target coins
  apply MW.Lemmas.SelectKLargest.k_largest k _ (rest.map (·.amt))
  · rw [← List.map_append]; exact hperm.map _
  · intro r hr b hb
    obtain ⟨r', hr', e1⟩ := List.mem_map.mp hr
    obtain ⟨b', hb', e2⟩ := List.mem_map.mp hb
    rw [← e1, ← e2]
    exact hbound r' hr' b' hb'
  · simp only [List.length_map]
    have : s.base.toList.length = s.base.size := by simp
    rw [this]; exact hsize

/-- in a full selector the first cell is the smallest kept coin (what `submit` compares against) -/
theorem topK_root_min (k : Nat) (a : Array Coin) (h : HeapFrom k a 0) : ∀ i, i < k → amtAt a 0 ≤ amtAt a i :=
  root_le k a h

/-- the sift-down loop runs out of fuel never: `adjust` passes k, and k/2 ≤ cur + k -/
theorem adjust_fuel_suffices (k : Nat) (a : Array Coin) (i : Nat) (hsz : a.size = k)
    (h : HeapFrom k a (i + 1)) : HeapFrom k (adjust k a i) i := adjust_heapFrom k a i hsz h

example : (submitAll (newSel 2 10) [⟨5, "a", ""⟩, ⟨12, "b", ""⟩, ⟨7, "c", ""⟩, ⟨3, "d", ""⟩, ⟨30, "e", ""⟩]).items.map (·.amt)
    = [5, 7, 12] := by decide

-- ------------------------------------------------------------------ 2. greedy_sound

/-- `optOutputs` returns a sub-multiset of its input (no coin twice), reports its exact sum, and
    reaches the amount whenever the input does. -/
theorem greedy_sound (amount : Nat) (utxos : List Coin) (r : OptRes) (h : optOutputs amount utxos = .ok r) :
    SubMultiset r.sel utxos ∧ r.sum = sumAmt r.sel ∧ (sumAmt utxos ≥ amount → r.sum ≥ amount) :=
  optOutputs_sound amount utxos r h

/-- it fails only when the coins add up to more than the amount ceiling -/
theorem greedy_total (amount : Nat) (utxos : List Coin) (h : sumAmt utxos ≤ maxAmount) :
    ∃ r, optOutputs amount utxos = .ok r := optOutputs_ok amount utxos h

example : ∃ r, optOutputs 10 [⟨9, "a", ""⟩, ⟨6, "b", ""⟩, ⟨4, "c", ""⟩] = .ok r :=
  greedy_total _ _ (by decide)

-- ------------------------------------------------------------------ 3. select_complete

/-- what a ≤k-subset of the coins can reach, the pipeline selector ∘ greedy reaches -/
theorem select_complete (k amount : Nat) (coins S sel : List Coin) (found : Nat) (of : Bool)
    (h : pipeline k amount coins = .ok (sel, found, of))
    (hS : SubMultiset S coins) (hlen : S.length ≤ k) (hsum : sumAmt S ≥ amount) : found ≥ amount :=
  (pipeline_facts k amount coins sel found of h).2.2.2 (items_reach k amount coins S hS hlen hsum)

/-- conversely, what the pipeline reports was reached by a ≤k-subset (k ≥ 1), and what it returns is a
    sub-multiset of the coins with exactly the reported sum -/
theorem select_sound (k amount : Nat) (coins sel : List Coin) (found : Nat) (of : Bool) (hk : 0 < k)
    (h : pipeline k amount coins = .ok (sel, found, of)) :
    SubMultiset sel coins ∧ found = sumAmt sel ∧
    (found ≥ amount → ∃ S, SubMultiset S coins ∧ S.length ≤ k ∧ sumAmt S ≥ amount) := by
  obtain ⟨hsub, hfound, _, _⟩ := pipeline_facts k amount coins sel found of h
  refine ⟨hsub, hfound, ?_⟩
  intro hge
  have inv : Inv (submitAll (newSel k amount) coins) coins := by
    have := inv_submitAll (newSel k amount) [] coins (inv_init k amount)
    simpa using this
  have hkk : (submitAll (newSel k amount) coins).k = k := by rw [submitAll_k]; rfl
  have hreq : (submitAll (newSel k amount) coins).req = amount := by rw [submitAll_req]; rfl
  cases hg : (submitAll (newSel k amount) coins).guard with
  | some g =>
    obtain ⟨hgm, hgr, _⟩ := inv.guardSome g hg
    rw [hreq] at hgr
    refine ⟨[g], SubMultiset.singleton hgm, by simp; omega, ?_⟩
    simp [sumAmt]; omega
  | none =>
    -- no guard: the selection comes from the base, which has at most k coins
    unfold pipeline at h
    simp only [] at h
    cases ho : optOutputs amount (submitAll (newSel k amount) coins).items with
    | error e => rw [ho] at h; simp at h
    | ok r =>
      rw [ho] at h
      simp only [Except.ok.injEq, Prod.mk.injEq] at h
      obtain ⟨h1, h2, _⟩ := h
      subst h1; subst h2
      obtain ⟨hs, _, _⟩ := optOutputs_sound _ _ _ ho
      refine ⟨r.sel, hsub, ?_, by omega⟩
      have hl := hs.length_le
      have : (submitAll (newSel k amount) coins).items.length ≤ k := by
        unfold Sel.items
        rw [hg]
        have := inv.size_le
        rw [hkk] at this
        simpa using this
      omega

/-- otherwise: when NO ≤k-subset of the eligible coins covers outputs + target fee, the selection
    step of the fee loop fails with InsufficientFunds or (k coins kept, all used) OverfullUtxo.
    Hypotheses: amounts within the supply (no checked-addition failure), k ≥ 1. -/
theorem select_insufficient (env : Env) (target outSum nOut : Nat) (chgAddr : String) (hk : 0 < env.k)
    (ht : 0 < target) (hm : target + outSum ≤ maxAmount) (hmax : sumAmt env.coins ≤ maxAmount)
    (hno : ¬ ∃ S, SubMultiset S env.coins ∧ S.length ≤ env.k ∧ sumAmt S ≥ target + outSum) :
    innerLoop env target outSum nOut chgAddr 2 0 = .error .insufficient ∨
    innerLoop env target outSum nOut chgAddr 2 0 = .error .overfull :=
  inner_insufficient env target outSum nOut chgAddr hk ht hm hmax hno

example : ¬ ∃ S, SubMultiset S ([⟨5, "a", ""⟩] : List Coin) ∧ S.length ≤ 3 ∧ sumAmt S ≥ 7 := by
  rintro ⟨S, hS, _, hsum⟩
  have := hS.sum_le
  simp [sumAmt] at this hsum
  omega

-- ------------------------------------------------------------------ 4. feeLoop_terminates, feeLoop_spec

/-- the fixed point terminates: with the fuel `outerFuel` (relay fee of the largest size + 2) neither
    loop of autoConstructTxInAndChangeTxOut runs out of iterations, for any wallet and request.
    (The target fee strictly increases and is bounded by the relay fee of the maximal estimated size;
    the dust-change retry happens at most once.) -/
theorem feeLoop_terminates (env : Env) (outs : List Nat) (payloadLen userFee : Nat) (chgAddr : String) :
    autoConstruct env outs payloadLen userFee chgAddr ≠ .error .fuel := by
  unfold autoConstruct
  simp only []
  cases hs : sumOuts outs with
  | error e =>
    simp only []
    intro h
    injection h with h
    subst h
    -- sumOuts only fails with the amount class
    have := sumOuts_err outs _ hs
    cases this
  | ok outSum =>
    simp only []
    apply outerLoop_terminates
    unfold outerFuel feeBound
    omega

/-- feeLoop_spec: on success
    * Σ inputs = Σ requested outputs + change + fee              (conservation)
    * fee ≥ the user's fee, and ≥ the flat minimum when no fee was given
    * fee ≥ relay minimum of the estimated signed size of THIS transaction
    * fee ≤ max(starting fee, relay minimum of the largest size a selection can have)
    * the change is absent or ≥ MinRelayTxFee, and goes to the requested change address or else to the
      address of the first input; there is at most one change output (`Option`)
    * the inputs are a sub-multiset of the eligible coins (no coin twice), at most k+1 of them -/
theorem feeLoop_spec (env : Env) (outs : List Nat) (payloadLen userFee : Nat) (chgAddr : String) (res : AutoRes)
    (h : autoConstruct env outs payloadLen userFee chgAddr = .ok res) :
    let start := if userFee ≠ 0 then userFee else minRelay
    let change := (res.change.map (·.2)).getD 0
    sumAmt res.ins = outs.sum + change + res.fee ∧
    res.fee ≥ userFee ∧ res.fee ≥ start ∧
    res.fee ≥ relayFee (estSize res.ins.length (outs.length + (if res.change.isSome then 1 else 0)) + payloadLen) ∧
    res.fee ≤ max start (relayFee (sizeBound env.k outs.length payloadLen)) ∧
    (∀ a c, res.change = some (a, c) →
        c ≥ minRelay ∧ a = (if chgAddr.length > 0 then chgAddr else (res.ins.head?.map (·.addr)).getD "")) ∧
    SubMultiset res.ins env.coins ∧ res.ins.length ≤ env.k + 1 := by
  intro start change
  unfold autoConstruct at h
  simp only [] at h
  cases hs : sumOuts outs with
  | error e => rw [hs] at h; cases h
  | ok outSum =>
    rw [hs] at h
    simp only [] at h
    have ok := outerLoop_spec env outSum outs.length payloadLen chgAddr _ _ res h
    have hsum : outSum = outs.sum := sumOuts_eq outs outSum hs
    subst hsum
    refine ⟨ok.conserve, ?_, ok.feeGeTarget, ok.feeGeRelay, ok.feeLe, ok.chgOk, ok.sub, ok.lenIns⟩
    have := ok.feeGeTarget
    by_cases hu : userFee ≠ 0
    · simp only [hu, ne_eq, not_false_eq_true, if_true] at this; exact this
    · have : userFee = 0 := by omega
      omega

example : (autoConstruct { coins := [⟨500000000, "T1:0", "A1"⟩, ⟨300000000, "T1:1", "A2"⟩], k := 3 }
    [100000000] 0 0 "").toOption = some ⟨[⟨300000000, "T1:1", "A2"⟩], some ("A2", 199990000), 10000⟩ := by decide

/-- feeLoop_complete (funds suffice ⇒ success), in the form that can be proved of the greedy loop:
    if some ≤k-subset of the eligible coins covers the requested outputs, the largest fee the loop can
    ask for (`F`) and room for a non-dust change, the construction succeeds – whatever path the
    fee iteration takes.  (All coins resolvable = the wallet is not behind a reorganisation; amounts
    within the supply.) -/
theorem feeLoop_complete (env : Env) (outs : List Nat) (payloadLen userFee : Nat) (chgAddr : String)
    (S : List Coin) (hS : SubMultiset S env.coins) (hlen : S.length ≤ env.k)
    (hres : ∀ c, env.resolvable c = true) (hmax : sumAmt env.coins ≤ maxAmount)
    (hsum : sumAmt S ≥ max (if userFee ≠ 0 then userFee else minRelay) (relayFee (sizeBound env.k outs.length payloadLen))
              + outs.sum + minRelay) :
    ∃ res, autoConstruct env outs payloadLen userFee chgAddr = .ok res := by
  have hSle := hS.sum_le
  have hmr : minRelay = 10000 := rfl
  have houts : sumOuts outs = .ok outs.sum := sumOuts_ok outs (by omega)
  unfold autoConstruct
  simp only []
  rw [houts]
  simp only []
  let F := max (if userFee ≠ 0 then userFee else minRelay) (relayFee (sizeBound env.k outs.length payloadLen))
  have hreach : Reach env (F + outs.sum + minRelay) := by
    intro a ha hne
    exact findEligible_reach env a S hS hlen (by omega) hne hmax
  apply outer_succeeds env outs.sum outs.length payloadLen chgAddr F (Nat.le_max_right _ _) hreach (by omega) hres
  · split <;> omega
  · exact Nat.le_max_left _ _
  · unfold outerFuel feeBound; omega

/-- the FULL reading of "funds suffice" (DESIGN.md C02): a valid transaction exists – a ≤k-subset
    covering outputs + fee EXACTLY, or outputs + fee + MinRelayTxFee.  It is kept as a definition: the
    greedy subset search does not find every exact cover (refuted below), so the theorem proved is
    `feeLoop_complete`; the executable spec (`MW.Spec.TxBuild.suffice`) uses the full reading and the
    known counterexample is recorded as a finding. -/
def C02_full_complete : Prop :=
  ∀ (env : Env) (outs : List Nat) (userFee : Nat),
    (∀ c, env.resolvable c = true) → 0 < userFee →
    (∃ S, SubMultiset S env.coins ∧ S.length ≤ env.k ∧
        userFee ≥ relayFee (estSize S.length outs.length) ∧ sumAmt S = outs.sum + userFee) →
    ∃ res, autoConstruct env outs 0 userFee "" = .ok res

/-- the coins 5 000 000, 4 995 000, 4 000, 3 000, 2 000 contain an exact cover of 9 990 000 + 10 000
    (all but the 4 000), the greedy subset takes the 4 000 first, overshoots by 1 000 (dust) and the
    retry with room for change finds only 10 004 000 < 10 010 000: InsufficientFunds. -/
theorem C02_full_complete_false : ¬ C02_full_complete := by
  intro h
  have := h { coins := [⟨5000000, "a", "A"⟩, ⟨4995000, "b", "A"⟩, ⟨4000, "c", "A"⟩, ⟨3000, "d", "A"⟩, ⟨2000, "e", "A"⟩], k := 5 }
    [9990000] 10000 (fun _ => rfl) (by decide)
    ⟨[⟨5000000, "a", "A"⟩, ⟨4995000, "b", "A"⟩, ⟨3000, "d", "A"⟩, ⟨2000, "e", "A"⟩],
      ⟨[⟨4000, "c", "A"⟩], by decide⟩, by decide, by decide, by decide⟩
  obtain ⟨res, hres⟩ := this
  have hval : (autoConstruct { coins := [⟨5000000, "a", "A"⟩, ⟨4995000, "b", "A"⟩, ⟨4000, "c", "A"⟩, ⟨3000, "d", "A"⟩, ⟨2000, "e", "A"⟩], k := 5 }
      [9990000] 0 10000 "").toOption = none := by decide
  rw [hres] at hval
  cases hval

-- ------------------------------------------------------------------ 5. manual_spec

/-- CreateRawTransaction (explicit inputs), for all input totals and requests: on success
    * every requested output is kept, reduced by the equal share ⌈fee/n⌉ exactly for the n recipients
      chosen to bear the fee (`shareOf`, 0 when none is chosen)
    * Σ inputs = Σ outputs + change + reported fee                (conservation)
    * the reported fee is n·⌈f/n⌉ (= f when nobody is chosen) where f is the relay minimum of the size
      the transaction finally has (with or without the change output)
    * no requested output and no change output is dust; the chosen recipients are among the outputs -/
theorem manual_spec (totalIn nIn : Nat) (amounts : List (String × Nat)) (subfee : List String) (res : ManualRes)
    (h : manualBuild totalIn nIn amounts subfee = .ok res) :
    let f := relayFee (estSize nIn (amounts.length + (if res.change = 0 then 0 else 1)))
    res.outs = amounts.map (reduce subfee (shareOf f subfee.length)) ∧
    totalIn = sumVals res.outs + res.change + res.fee ∧
    res.fee = feeEff f subfee.length ∧ f ≤ res.fee ∧ res.fee < f + max subfee.length 1 ∧
    (∀ e ∈ res.outs, isDust e.2 Gen.TxBuild.p2wshScriptLen = false) ∧
    (res.change ≠ 0 → isDust res.change Gen.TxBuild.p2wshScriptLen = false) := by
  intro f
  have ok := manualBuild_spec totalIn nIn amounts subfee res h
  have hb := feeEff_bounds f subfee.length
  refine ⟨ok.outs, ok.conserve, ok.fee, ?_, ?_, ok.noDustOut, ok.noDustChange⟩
  · rw [ok.fee]; exact hb.1
  · rw [ok.fee]; exact hb.2

/-- NotEnoughInputs is reported exactly when the inputs cover neither the no-change total nor more
    than the with-change total (for requests whose fee subtraction succeeds) -/
theorem manual_notEnough_iff (totalIn nIn : Nat) (amounts : List (String × Nat)) (subfee : List String)
    (na na' : List (String × Nat)) (t t' : Nat)
    (h1 : maybeSubtractFee amounts subfee (relayFee (estSize nIn amounts.length)) = .ok (na, t))
    (h2 : maybeSubtractFee amounts subfee (relayFee (estSize nIn (amounts.length + 1))) = .ok (na', t')) :
    manualBuild totalIn nIn amounts subfee = .error .notEnough ↔ (totalIn < t ∨ (t < totalIn ∧ totalIn ≤ t')) := by
  unfold manualBuild
  simp only []
  rw [h1]
  simp only []
  by_cases hlt : totalIn < t
  · rw [if_pos hlt]; simp [hlt]
  · rw [if_neg hlt]
    by_cases hz : totalIn - t = 0
    · rw [if_pos hz]
      have : totalIn = t := by omega
      subst this
      cases hd : dustCheck na 0 with
      | ok u => simp
      | error e => rcases dustCheck_err _ _ _ hd with h | h <;> subst h <;> simp
    · rw [if_neg hz, h2]
      simp only []
      by_cases hle : totalIn ≤ t'
      · rw [if_pos hle]
        have : t < totalIn := by omega
        simp [this, hle]
      · rw [if_neg hle]
        have : ¬ (t < totalIn ∧ totalIn ≤ t') := fun hh => hle hh.2
        cases hd : dustCheck na' (totalIn - t') with
        | ok u => simp [hlt, this]
        | error e => rcases dustCheck_err _ _ _ hd with h | h <;> subst h <;> simp [hlt, this]

example : (manualBuild 500000000 1 [("X2", 100000000)] ["X2"]).toOption = some ⟨[("X2", 99997080)], 400000000, 2920⟩ := by decide

-- ------------------------------------------------------------------ 6. eligible_only, reserve_monotone

/-- eligible_only: every input of a transaction returned by an automatic create call is one of the
    wallet's coins that passes the FULL filter at the time of the call: confirmations ≥ maturity (C01's
    maturity rule, see MW.Props.C01.maturity_iff_*), not spent, not spent by a pending transaction, not
    staking / binding, not reserved, not spent in the node pool, and paying one of the requested
    addresses. -/
theorem eligible_only (s s' : Session) (q : CreateReq) (res : AutoRes) (h : createCall s q = (s', .ok res)) :
    ∀ c ∈ res.ins, ∃ w ∈ q.view, w.toCoin = c ∧
      w.confs ≥ w.maturity ∧ w.spent = false ∧ w.spentByUnmined = false ∧ w.standard = true ∧
      utxoUsed s.reserved w.id = false ∧ w.inPool = false ∧ w.addr ∈ q.addrs := by
  intro c hc
  obtain ⟨w, hw, e, hf⟩ := createCall_eligible s s' q res h c hc
  refine ⟨w, hw, e, ?_⟩
  unfold eligibleFilter at hf
  simp only [Bool.and_eq_true, Bool.not_eq_true', decide_eq_true_eq] at hf
  obtain ⟨⟨⟨⟨⟨⟨a1, a2⟩, a3⟩, a4⟩, a5⟩, a6⟩, a7⟩ := hf
  exact ⟨a1, a3, a2, a4, a5, a6, List.contains_iff_mem.mp a7⟩

/-- no coin twice in one draft, when the wallet's coin view has distinct outpoints -/
theorem inputs_nodup (s s' : Session) (q : CreateReq) (res : AutoRes) (h : createCall s q = (s', .ok res))
    (hv : (q.view.map (·.id)).Nodup) : (res.ins.map (·.id)).Nodup := by
  unfold createCall at h
  cases ha : autoConstruct { coins := eligibleOf s.reserved q.addrs q.view } q.outs q.payloadLen q.userFee q.chgAddr with
  | error e => rw [ha] at h; simp at h
  | ok r =>
    rw [ha] at h
    simp only [Prod.mk.injEq, Except.ok.injEq] at h
    obtain ⟨_, h2⟩ := h
    subst h2
    have hsub := autoConstruct_sub _ _ _ _ _ _ ha
    apply nodup_of_subMultiset (·.id) hsub
    unfold eligibleOf
    rw [List.map_map]
    have : ((q.view.filter (eligibleFilter s.reserved q.addrs)).map ((fun c : Coin => c.id) ∘ WCoin.toCoin)) =
        (q.view.filter (eligibleFilter s.reserved q.addrs)).map (·.id) := by
      apply List.map_congr_left
      intro w _
      rfl
    rw [this]
    exact (List.filter_sublist.map _).nodup hv

/-- reserve_monotone: over ANY sequence of consecutive create calls (any wallet views, any requests)
    within the reservation window no outpoint is handed out twice: the input lists of the returned
    drafts are pairwise disjoint, and every one of them stays reserved. -/
theorem reserve_monotone (qs : List CreateReq) :
    let s := runCreates {} qs
    s.drafts.Pairwise (fun a b => ∀ i ∈ a.2, i ∉ b.2) ∧ (∀ d ∈ s.drafts, ∀ i ∈ d.2, utxoUsed s.reserved i = true) := by
  intro s
  have := sinv_run {} qs sinv_init
  exact ⟨this.disjoint, this.held⟩

/-- reserve_release: the same over ANY sequence of create calls AND releases (the API releases a draft
    when signing it fails; a release may be repeated, e.g. a stale retry): the drafts that are still
    OUTSTANDING are pairwise disjoint and every input of an outstanding draft is still reserved – so an
    automatic create never hands out a coin of an outstanding draft (`eligible_only`).  Hypothesis: the
    drafts have distinct identities (transaction ids). -/
theorem reserve_release (ops : List ROp) (hnd : (createHolders ops).Nodup) :
    let s := RSession.run {} ops
    s.drafts.Pairwise (fun a b => a.outstanding = true → b.outstanding = true → ∀ i ∈ a.ins, i ∉ b.ins) ∧
    (∀ d ∈ s.drafts, d.outstanding = true → ∀ i ∈ d.ins, utxoUsed s.reserved i = true) := by
  intro s
  have inv := rinv2_run ops {} hnd ⟨rinv_init, by simp, by simp⟩
  refine ⟨inv.base.disjoint, ?_⟩
  intro d hd ho i hi
  exact utxoUsed_of_holder _ _ _ (inv.base.held d hd ho i hi)

example : (createHolders [.create { view := [], addrs := [], outs := [], holder := "t1" }, .release 0,
    .create { view := [], addrs := [], outs := [], holder := "t2" }]).Nodup := by decide

/-- the API's fee ceiling: a fee above the ceiling is refused, a fee within it passes -/
theorem feeLimit_iff (maxFee fee : Nat) : checkTxFeeLimit maxFee fee = .ok () ↔ fee ≤ maxFee := by
  unfold checkTxFeeLimit
  by_cases h : maxFee < fee
  · rw [if_pos h]; constructor
    · intro hh; cases hh
    · intro hh; omega
  · rw [if_neg h]; constructor
    · intro _; omega
    · intro _; rfl

-- ------------------------------------------------------------------ regenerated facts (tie B)

/-- the constants the models are built from, as regenerated from the repository on every run -/
theorem gen_tie :
    kStd = 649 ∧ inSize = 154 ∧ Gen.TxBuild.kDivisor = 154 ∧ Gen.TxBuild.outSize = 63 ∧ Gen.TxBuild.txOverhead = 12 ∧
    minRelay = 10000 ∧ Gen.TxBuild.reservationTTLSeconds = 300 ∧
    Gen.TxBuild.selectorShapeAsModelled = true ∧ Gen.TxBuild.feeFormulaAsModelled = true ∧
    Gen.TxBuild.createPathsReserving = 4 ∧ Gen.TxBuild.estimateReserves = false ∧
    Gen.TxBuild.apiFeeLimitReleasing = Gen.TxBuild.apiFeeLimitHandlers ∧ Gen.TxBuild.releaseChecksHolder = true ∧
    Gen.TxBuild.manualRejectsDuplicates = true := by
  decide

/-- the model's dust rule has the threshold mass-core's IsDust has (found by binary search on the real
    function): 5880 maxwell for a standard output, below MinRelayTxFee, so a change ≥ MinRelayTxFee is
    never dust -/
theorem dust_threshold :
    isDust (Gen.TxBuild.dustThresholdP2WSH - 1) Gen.TxBuild.p2wshScriptLen = true ∧
    isDust Gen.TxBuild.dustThresholdP2WSH Gen.TxBuild.p2wshScriptLen = false ∧
    Gen.TxBuild.dustThresholdP2WSH ≤ minRelay := by decide

theorem change_never_dust (c : Nat) (h : c ≥ minRelay) : isDust c Gen.TxBuild.p2wshScriptLen = false := by
  unfold isDust
  have hm : minRelay = 10000 := rfl
  have hl : Gen.TxBuild.p2wshScriptLen = 34 := rfl
  rw [hl, hm]
  simp only [decide_eq_false_iff_not, Nat.not_lt]
  omega

end MW.Props.C02
