import MW.Model.Script
import MW.Spec.Script
namespace MW.Props.C16
end MW.Props.C16
