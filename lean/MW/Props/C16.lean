/-
  C16 — output-script classification agrees with the consensus templates and never crashes.

  Model: MW.Model.Script (mass-core txscript tokenizer / templates / builders, the wallet's
  utils.ParsePkScript, api.extractAddressInfos; every index guarded, panics explicit).
  Spec:  MW.Spec.Script (the templates as byte patterns; `reading`, `walletReading`).
  All theorems hold for EVERY byte string / hash / frozen period / target (no sampling).
-/
import MW.Lemmas.ScriptView
namespace MW.Props.C16
open MW MW.Model.Script
open MW.Lemmas.ScriptTok MW.Lemmas.ScriptTemplate MW.Lemmas.ScriptClassify MW.Lemmas.ScriptBuild MW.Lemmas.ScriptView
open MW.Spec.Script (template Template reading walletReading Reading legalTarget22 legalFrozen
  wshScript stakingScript bindingScript bindingLockedPeriod)

/-! ### classify_agree -/

/-- For every byte string the wallet's reading (utils.ParsePkScript: class, owner script hash, staking /
    binding-target address, maturity) is exactly the reading the byte-level templates prescribe; it is
    `unsupported` (ErrUnsupportedScript, the only error the follower skips) for every other script. -/
theorem classify_agree (s : Bytes) : walletView (parsePkScript s) = some (walletReading s) := by
  rw [parsePkScript_spec]
  unfold walletReading reading
  cases hT : template s with
  | none => rfl
  | wsh h => rfl
  | staking h f => simp [walletView]
  | binding h t =>
    by_cases h20 : t.length = 20
    · simp [h20, walletView]
    · by_cases hl : legalTarget22 t = true
      · simp [h20, hl, walletView]
      · simp [h20, hl, walletView, fail]

/-- … and the consensus library's own template matching and address extraction (txscript.GetScriptClass,
    ExtractPkScriptAddrs) gives the same class, owner and second address for every byte string (it carries
    no maturity); the frozen period it extracts (GetParsedOpcode) is the one the maturity is computed from. -/
theorem classify_agree_library (pkValid : Bytes → Bool) (s : Bytes) :
    libView pkValid s = some (reading s).noMaturity ∧
    (∀ h f, template s = .staking h f → libParsedOpcode s = .ok (Spec.Script.leNat f, h)) := by
  have hc := getScriptClass_spec s
  have hx := extractPkScriptAddrs_spec pkValid s
  constructor
  · unfold libView reading
    cases hT : template s with
    | none =>
      simp only [hT] at hc
      obtain ⟨c, hc, hn⟩ := hc
      rw [hc]
      rcases hn with rfl | rfl | rfl <;> rfl
    | wsh h => simp only [hT] at hc hx; simp [hc, hx, isTemplateClass, Reading.noMaturity]
    | staking h f => simp only [hT] at hc hx; simp [hc, hx, isTemplateClass, Reading.noMaturity]
    | binding h t =>
      simp only [hT] at hc hx
      by_cases h20 : t.length = 20
      · simp [hc, hx, isTemplateClass, Reading.noMaturity, targetAddrs, h20]
      · by_cases hl : legalTarget22 t = true
        · simp [hc, hx, isTemplateClass, Reading.noMaturity, targetAddrs, h20, hl]
        · simp [hc, hx, isTemplateClass, Reading.noMaturity, targetAddrs, h20, hl]
  · intro h f hT
    unfold libParsedOpcode getScriptInfo
    cases parsed s with
    | perr e hp hT' => rw [hT] at hT'; cases hT'
    | other pops c hp hc hn hT' => rw [hT] at hT'; cases hT'
    | wsh h' hp hl hT' => rw [hT] at hT'; cases hT'
    | staking h' f' hp hl hfl hT' =>
      rw [hT] at hT'; cases hT'
      simp [hp, typeOfScript_staking, catchErr, bind, Except.bind, pure, Except.pure, getParsedOpcode, idx, hl,
        Gen.Script.witnessV0ScriptHashDataSize, copy32_id, leUint64_8, hfl]
    | binding20 h' t hp hl e hT' => rw [hT] at hT'; cases hT'
    | binding22 h' t hp hl e hT' => rw [hT] at hT'; cases hT'

/-- … and so does the API-side view (api.extractAddressInfos), which rejects (error) or reports no address
    for exactly the scripts the wallet reads as unsupported. -/
theorem classify_agree_api (pkValid : Bytes → Bool) (s : Bytes) :
    apiView (extractAddressInfos pkValid s) = some (walletReading s).noMaturity := by
  have hx := extractAddressInfos_spec pkValid s
  unfold walletReading reading
  cases hT : template s with
  | none =>
    simp only [hT] at hx
    rcases hx with ⟨e, he⟩ | ⟨c, n, he, hn⟩
    · rw [he]; rfl
    · rw [he]; rcases hn with rfl | rfl | rfl <;> rfl
  | wsh h => simp only [hT] at hx; rw [hx]; rfl
  | staking h f => simp only [hT] at hx; rw [hx]; simp [apiView, Reading.noMaturity]
  | binding h t =>
    simp only [hT] at hx; rw [hx]
    by_cases h20 : t.length = 20
    · simp [h20, apiView, Reading.noMaturity]
    · by_cases hl : legalTarget22 t = true
      · simp [h20, hl, apiView, Reading.noMaturity, targetView]
      · simp [h20, hl, apiView, Reading.noMaturity, fail]

/-- What `unsupported` means, at the byte level: no template matches, or the binding template's 22-byte
    target has no address form (type byte ∉ {0,1} or size byte ∉ 20…200). -/
theorem unsupported_iff (s : Bytes) :
    parsePkScript s = fail .unsupported ↔
      (template s = .none ∨ ∃ h t, template s = .binding h t ∧ t.length ≠ 20 ∧ legalTarget22 t = false) := by
  rw [parsePkScript_spec]
  cases hT : template s with
  | none => simp
  | wsh h => simp [fail]
  | staking h f => simp [fail]
  | binding h t =>
    by_cases h20 : t.length = 20
    · simp [h20, fail]
    · by_cases hl : legalTarget22 t = true
      · simp [h20, hl, fail]
      · simp [h20, hl]
        exact ⟨h, t, ⟨rfl, rfl⟩, h20, by simpa using hl⟩

/-- … and in terms of the consensus library (model): the wallet answers `unsupported` exactly when the
    library's class is none of the three witness templates, or the library matches the binding template but
    cannot encode its target as an address (ExtractPkScriptAddrs returns the owner only). -/
theorem unsupported_iff_library (pkValid : Bytes → Bool) (s : Bytes) :
    parsePkScript s = fail .unsupported ↔
      ((∃ c, getScriptClass s = .ok c ∧ nonTemplate c) ∨
       (∃ h, extractPkScriptAddrs pkValid s = .ok ⟨.bindingScriptHash, [.wsh 0 h], 1⟩)) := by
  rw [unsupported_iff]
  have hc := getScriptClass_spec s
  have hx := extractPkScriptAddrs_spec pkValid s
  cases hT : template s with
  | none =>
    simp only [hT] at hc
    simp [hc]
  | wsh h =>
    simp only [hT] at hc hx
    simp [hc, hx, nonTemplate]
  | staking h f =>
    simp only [hT] at hc hx
    simp [hc, hx, nonTemplate]
  | binding h t =>
    simp only [hT] at hc hx
    by_cases h20 : t.length = 20
    · simp [hc, hx, nonTemplate, targetAddrs, h20]
    · by_cases hl : legalTarget22 t = true
      · simp [hc, hx, nonTemplate, targetAddrs, h20, hl]
      · simp [hc, hx, nonTemplate, targetAddrs, h20, hl]
        exact ⟨h, t, ⟨rfl, rfl⟩, h20, by simpa using hl⟩

/-! ### builders_roundtrip -/

/-- Scripts built for any 32-byte script hash — by txscript.PayToWitnessScriptHashScript, PayToAddrScript,
    the wallet's PayToWitnessV0Address and amountToTxOut (any non-zero amount) — are the witness-v0 byte
    pattern and read back as a standard output of exactly that hash. -/
theorem builders_roundtrip_wsh (h : Bytes) (hl : h.length = 32) (amount : Nat) (ha : amount ≠ 0) :
    payToWitnessScriptHashScript h = .ok (wshScript h) ∧
    payToAddrScript (.wsh 0 h) = .ok (wshScript h) ∧
    payToWitnessV0Address (.wsh 0 h) = .ok (wshScript h) ∧
    amountToTxOut (.wsh 0 h) amount = .ok (wshScript h) ∧
    walletView (parsePkScript (wshScript h)) = some (.ok .standard h .none 0) := by
  have e : payToWitnessScriptHashScript h = .ok (wshScript h) := by
    rw [payToWitnessScriptHashScript_spec, if_pos hl]
  have e2 : payToAddrScript (.wsh 0 h) = .ok (wshScript h) := by
    simp [payToAddrScript, isWitnessV0Address, Addr.scriptAddress, e]
  have e3 : payToWitnessV0Address (.wsh 0 h) = .ok (wshScript h) := by
    simp [payToWitnessV0Address, isWitnessV0Address, e2, mapErr]
  refine ⟨e, e2, e3, ?_, ?_⟩
  · simp [amountToTxOut, ha, e3]
  · rw [classify_agree]
    simp [walletReading, reading, template_wshScript h hl]

/-- Scripts built for any 32-byte script hash and any legal frozen period (wire.IsValidFrozenPeriod:
    61440 … 2^32-2) — by txscript.PayToStakingAddrScript and the wallet's constructStakingTxOut — are the
    staking byte pattern and read back as a staking output of that hash with maturity = frozen period + 1. -/
theorem builders_roundtrip_staking (h : Bytes) (f : Nat) (hl : h.length = 32) (hf : legalFrozen f)
    (amount maxAmount : Nat) (ha : amount ≠ 0 ∧ amount ≤ maxAmount) :
    payToStakingAddrScript (.wsh 1 h) f = .ok (stakingScript h f) ∧
    constructStakingTxOut (.wsh 1 h) f amount maxAmount = .ok (stakingScript h f) ∧
    walletView (parsePkScript (stakingScript h f)) = some (.ok .staking h (.staking h) (f + 1)) := by
  have e : payToStakingAddrScript (.wsh 1 h) f = .ok (stakingScript h f) := by
    simp [payToStakingAddrScript, isWitnessStakingAddress, Addr.scriptAddress, payToStakingScriptHashScript_spec,
      hl, hf]
  refine ⟨e, ?_, ?_⟩
  · have : ¬ (amount > maxAmount) := by omega
    simp [constructStakingTxOut, ha.1, this, isWitnessStakingAddress, e, mapErr]
  · rw [classify_agree]
    have hlt : f < 256 ^ 8 := by
      have := hf.2; omega
    have : (f + 1) % 2 ^ 64 = f + 1 := by
      have := hf.2; omega
    simp [walletReading, reading, template_stakingScript h f hl, leNat_leBytes, Nat.mod_eq_of_lt hlt, this]

/-- Scripts built by txscript.PayToBindingScriptHashScript for any 32-byte holder hash and any 20-byte
    target or legal 22-byte target read back as a binding output with exactly that holder and target
    (maturity 0 for the old 20-byte form, MASSIP0002BindingLockedPeriod for the 22-byte form). -/
theorem builders_roundtrip_binding (h t : Bytes) (hl : h.length = 32)
    (ht : t.length = 20 ∨ (t.length = 22 ∧ legalTarget22 t = true)) :
    payToBindingScriptHashScript h t = .ok (bindingScript h t) ∧
    walletView (parsePkScript (bindingScript h t)) =
      some (if t.length = 20 then .ok .binding h (.pubKeyHash t) 0
            else .ok .binding h (.target t) bindingLockedPeriod) := by
  have hlen : t.length = 20 ∨ t.length = 22 := by rcases ht with e | ⟨e, _⟩ <;> simp [e]
  refine ⟨by rw [payToBindingScriptHashScript_spec, if_pos ⟨hl, hlen⟩], ?_⟩
  rw [classify_agree]
  rcases ht with e | ⟨e, hlg⟩
  · simp [walletReading, reading, template_bindingScript h t hl hlen, e]
  · simp [walletReading, reading, template_bindingScript h t hl hlen, e, hlg]

/-- builders_roundtrip: the three families together. -/
theorem builders_roundtrip (h : Bytes) (hl : h.length = 32) :
    (∀ amount, amount ≠ 0 →
      amountToTxOut (.wsh 0 h) amount = .ok (wshScript h) ∧
      walletView (parsePkScript (wshScript h)) = some (.ok .standard h .none 0)) ∧
    (∀ f, legalFrozen f →
      payToStakingAddrScript (.wsh 1 h) f = .ok (stakingScript h f) ∧
      walletView (parsePkScript (stakingScript h f)) = some (.ok .staking h (.staking h) (f + 1))) ∧
    (∀ t, (t.length = 20 ∨ (t.length = 22 ∧ legalTarget22 t = true)) →
      payToBindingScriptHashScript h t = .ok (bindingScript h t) ∧
      walletView (parsePkScript (bindingScript h t)) =
        some (if t.length = 20 then .ok .binding h (.pubKeyHash t) 0
              else .ok .binding h (.target t) bindingLockedPeriod)) :=
  ⟨fun a ha => let r := builders_roundtrip_wsh h hl a ha; ⟨r.2.2.2.1, r.2.2.2.2⟩,
   fun f hf => let r := builders_roundtrip_staking h f hl hf 1 1 ⟨by decide, Nat.le_refl _⟩; ⟨r.1, r.2.2⟩,
   fun t ht => builders_roundtrip_binding h t hl ht⟩

/-! ### parse_total -/

/-- No index, slice bound, nil dereference or fuel exhaustion is reachable in the model of the wallet's
    readers, for any byte string and any `pkValid` (the public-key validity oracle of the library):
    the tokenizer, GetScriptClass / GetScriptInfo, utils.ParsePkScript, api.extractAddressInfos,
    GetParsedOpcode on the class GetScriptInfo returned, and ExtractPkScriptAddrs on every script that is
    not of the multisig class. -/
theorem parse_total (pkValid : Bytes → Bool) (s : Bytes) (k : PanicKind) :
    parseScript s ≠ .error (.panic k) ∧
    getScriptClass s ≠ .error (.panic k) ∧
    parsePkScript s ≠ .error (.panic k) ∧
    extractAddressInfos pkValid s ≠ .error (.panic k) ∧
    libParsedOpcode s ≠ .error (.panic k) ∧
    (getScriptClass s ≠ .ok .multiSig → extractPkScriptAddrs pkValid s ≠ .error (.panic k)) := by
  refine ⟨parseScript_not_panic s k, ?_, ?_, ?_, ?_, ?_⟩
  · have hc := getScriptClass_spec s
    cases hT : template s <;> simp only [hT] at hc
    · obtain ⟨c, hc, _⟩ := hc; simp [hc]
    all_goals simp [hc]
  · rw [parsePkScript_spec]
    cases hT : template s with
    | none => simp [fail]
    | wsh h => simp
    | staking h f => simp
    | binding h t => simp only []; repeat' split
                     all_goals simp [fail]
  · have hx := extractAddressInfos_spec pkValid s
    cases hT : template s <;> simp only [hT] at hx
    · rcases hx with ⟨e, he⟩ | ⟨c, n, he, _⟩ <;> simp [he]
    · simp [hx]
    · simp [hx]
    · rw [hx]; repeat' split
      all_goals simp [fail]
  · unfold libParsedOpcode getScriptInfo
    cases parsed s with
    | perr e hp hT =>
      simp [hp, catchErr, bind, Except.bind, pure, Except.pure, getParsedOpcode, fail]
    | other pops c hp hc hn hT =>
      rcases hn with rfl | rfl | rfl <;>
        simp [hp, hc, catchErr, bind, Except.bind, pure, Except.pure, getParsedOpcode, fail]
    | wsh h hp hl hT =>
      simp [hp, typeOfScript_wsh, catchErr, bind, Except.bind, pure, Except.pure, getParsedOpcode, idx, hl,
        Gen.Script.witnessV0ScriptHashDataSize, leUint64_8]
    | staking h f hp hl hfl hT =>
      simp [hp, typeOfScript_staking, catchErr, bind, Except.bind, pure, Except.pure, getParsedOpcode, idx, hl,
        Gen.Script.witnessV0ScriptHashDataSize, leUint64_8, hfl]
    | binding20 h t hp hl e hT =>
      simp [hp, typeOfScript_b20, catchErr, bind, Except.bind, pure, Except.pure, getParsedOpcode, idx, hl, e,
        Gen.Script.witnessV0ScriptHashDataSize, Gen.Script.OP_DATA_20, leUint64_8]
    | binding22 h t hp hl e hT =>
      simp [hp, typeOfScript_b22, catchErr, bind, Except.bind, pure, Except.pure, getParsedOpcode, idx, hl, e,
        Gen.Script.witnessV0ScriptHashDataSize, Gen.Script.OP_DATA_20, Gen.Script.OP_DATA_22, leUint64_8]
  · intro hnm
    have hx := extractPkScriptAddrs_spec pkValid s
    cases parsed s with
    | perr e hp hT => unfold extractPkScriptAddrs; simp [hp, bind, Except.bind]
    | other pops c hp hc hn hT =>
      have hg : getScriptClass s = .ok c := by
        unfold getScriptClass; simp [hp, hc, catchErr, bind, Except.bind]
      unfold extractPkScriptAddrs
      rcases hn with rfl | rfl | rfl
      · exact absurd hg hnm
      · simp [hp, hc, bind, Except.bind, pure, Except.pure]
      · simp [hp, hc, bind, Except.bind, pure, Except.pure]
    | wsh h hp hl hT => simp only [hT] at hx; simp [hx]
    | staking h f hp hl hfl hT => simp only [hT] at hx; simp [hx]
    | binding20 h t hp hl e hT => simp only [hT] at hx; simp [hx]
    | binding22 h t hp hl e hT => simp only [hT] at hx; simp [hx]

/-- The builders never panic either, for arbitrary (also ill-sized) arguments. -/
theorem build_total (h t : Bytes) (f : Nat) (k : PanicKind) :
    payToWitnessScriptHashScript h ≠ .error (.panic k) ∧
    payToStakingScriptHashScript h f ≠ .error (.panic k) ∧
    payToBindingScriptHashScript h t ≠ .error (.panic k) := by
  rw [payToWitnessScriptHashScript_spec, payToStakingScriptHashScript_spec, payToBindingScriptHashScript_spec]
  refine ⟨?_, ?_, ?_⟩ <;> repeat' split
  all_goals simp [fail]

/-! ### non-vacuity: every hypothesis above is met by concrete inputs, and the templates are inhabited -/

/-- a 32-byte hash, a legal frozen period, legal targets exist -/
example : (List.replicate 32 (0xab : UInt8)).length = 32 := by decide
example : legalFrozen 61440 := by decide
example : legalFrozen 4294967294 := by decide
example : ¬ legalFrozen 61439 ∧ ¬ legalFrozen 4294967295 := by decide
example : (List.replicate 20 (7 : UInt8)).length = 20 := by decide
example : let t := List.replicate 20 (7 : UInt8) ++ [1, 32]; t.length = 22 ∧ legalTarget22 t = true := by decide
example : let t := List.replicate 20 (7 : UInt8) ++ [2, 32]; t.length = 22 ∧ legalTarget22 t = false := by decide
example : (1 : Nat) ≠ 0 ∧ 1 ≤ 1 := by decide
/-- a script that is not of the multisig class (hypothesis of parse_total's last part): OP_RETURN -/
example : getScriptClass [0x6a] ≠ .ok .multiSig := by
  rw [show getScriptClass [0x6a] = .ok .nullData from rfl]; simp
/-- the readings are not all `unsupported`: each template is hit (tests on samples, by evaluation) -/
example : walletReading (wshScript (List.replicate 32 0xab)) = .ok .standard (List.replicate 32 0xab) .none 0 := by
  decide
example : walletView (parsePkScript (0 :: 0x20 :: (List.replicate 32 0xab ++ 0x08 :: [0, 0xf0, 0, 0, 0, 0, 0, 0])))
    = some (.ok .staking (List.replicate 32 0xab) (.staking (List.replicate 32 0xab)) 61441) := by
  rw [classify_agree]; decide
/-- D6 / D15 as readings (tests on samples): OP_RETURN and a binding script with an unencodable target are `unsupported` -/
example : walletReading [0x6a] = .unsupported := by decide
example : walletReading (0 :: 0x20 :: (List.replicate 32 0xab ++ 0x16 :: (List.replicate 20 1 ++ [2, 32]))) = .unsupported := by
  decide
/-- the library defect that api.extractAddressInfos has to steer clear of (test on a sample): with a public key
    that does not parse, ExtractPkScriptAddrs dereferences nil on a multisig script -/
example : extractPkScriptAddrs (fun _ => false)
    (0x51 :: 0x21 :: (List.replicate 33 0 ++ [0x51, 0xae])) = .error (.panic .nilDeref) := by rfl

end MW.Props.C16
