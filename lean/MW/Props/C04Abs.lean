/-
  C04, ABSTRACTION (round 4, third target): what C04's restore theorems assume of a keystore file – that it carries the entropy
  ciphertext, the ciphertext of its key, the private master-key parameters and the two counters of the exporting account –
  is, at byte level, the `export` of the account bucket the symbolic / record models abstract:
  the file fields are the hex of the stored bytes = the concretisations of the symbolic export's terms (C05's term model),
  and the counters are the record's next indexes (C12's record model).  The account bucket itself is written by the
  byte-level installer from the same entries (`MW.Props.C05Abs.sym_write_refines_bytes`).
  Statements only; proofs in MW/Lemmas/KsRefineOps2.lean, KsRefineMgr.lean.
-/
import MW.Lemmas.KsRefineOps2
import MW.Lemmas.KsRefineMgr
import MW.Lemmas.KsRefineToy
namespace MW.Props.C04Abs
open MW MW.Model.Secrets MW.Model.KsCodec MW.Model.KsBytes MW.KsRefine

/-- the keystore file of the symbolic model is the byte-level export: entropy ciphertext, private parameters and the
    ciphertext of the entropy key are the stored bytes (hex), the path is (purpose, coin, account 1), the counters are the
    wallet record's -/
theorem export_file_is_bytes (C : BCrypto) (L : Laws C) (ρ : PubVal) (st : St) (t : Tree) (w : String) (r : WRec) (purpose coin : Nat)
    (h : Rep C ρ st.db t)
    (ta te ti : String) (tEnt tPriv tCent tPub tCpub : Term)
    (hacct : AMap.get st.db (w, .account) = some (.pub ta)) (hex : AMap.get st.db (w, .exNum) = some (.pub te))
    (hin : AMap.get st.db (w, .inNum) = some (.pub ti))
    (hent : AMap.get st.db (w, .ent) = some tEnt) (hpriv : AMap.get st.db (w, .mpriv) = some tPriv)
    (hcent : AMap.get st.db (w, .cent) = some tCent) (hpub : AMap.get st.db (w, .mpub) = some tPub)
    (hcpub : AMap.get st.db (w, .cpub) = some tCpub)
    (fa : ρ (w, .account) = u32Bytes 1) (fe : ρ (w, .exNum) = u32Bytes r.nExt) (fi : ρ (w, .inNum) = u32Bytes r.nInt)
    (he : r.nExt < 4294967296) (hi : r.nInt < 4294967296) :
    ∃ k, exportB t (C.walletId w) purpose coin = .ok k ∧
      k.entropyEnc = hexEnc (valBytes C ρ (w, .ent) (exportOf st w r).entEnc) ∧
      k.privParams = hexEnc (valBytes C ρ (w, .mpriv) (exportOf st w r).privParams) ∧
      k.cryptoKeyEntropyEnc = hexEnc (valBytes C ρ (w, .cent) (exportOf st w r).cEntEnc) ∧
      k.externalChildNum = (exportOf st w r).nExt ∧ k.internalChildNum = (exportOf st w r).nInt ∧
      k.account = 1 ∧ k.purpose = purpose ∧ k.coin = coin :=
  MW.KsRefine.export_refines C L ρ st t w r purpose coin h ta te ti tEnt tPriv tCent tPub tCpub hacct hex hin hent hpriv hcent hpub
    hcpub fa fe fi he hi

/-- the file of the record model (MW.Model.Keystore.exportKeystore: `ex`, `inn`) has the counters the bytes hold -/
theorem export_file_counters {Priv Pub : Type} (pkEnc : Pub → Bytes) (r : MW.Model.Keystore.Rec Priv Pub) (acct pk : Bucket)
    (hrep : MW.KsRefineMgr.RecRep pkEnc r acct pk) (purpose coin : Nat) (k : KeystoreJ) (h : exportKs acct purpose coin = .ok k) :
    k.externalChildNum = r.exNum ∧ k.internalChildNum = r.inNum :=
  MW.KsRefineMgr.export_counters pkEnc r acct pk hrep purpose coin k h

/-- hypotheses of `export_file_is_bytes` are met by the database `create` writes (the eight records are present, the three
    public ones are `pub` leaves) -/
example : let st := (create {} "W1" Toy.demoPass 128).1
    AMap.get st.db ("W1", .account) = some (.pub "1") ∧ AMap.get st.db ("W1", .exNum) = some (.pub "n") ∧
    AMap.get st.db ("W1", .inNum) = some (.pub "n") ∧ (AMap.get st.db ("W1", .ent)).isSome ∧ (AMap.get st.db ("W1", .mpriv)).isSome ∧
    (AMap.get st.db ("W1", .cent)).isSome ∧ (AMap.get st.db ("W1", .mpub)).isSome ∧ (AMap.get st.db ("W1", .cpub)).isSome := by decide

end MW.Props.C04Abs
