/-
  C05, byte level (round 4): the persisted formats of the material the symbolic model of C05 stores –
  snacl parameters (salt, digest, N, r, p), the master-key parameter / crypto-key / entropy records of
  keystore/db.go – are faithful codecs.  Statements only; proofs in MW/Lemmas/KsCodec*.lean.

  The codecs are interpreters of tables regenerated from the Go source (MW.Gen.KsCodec); `tables` is the
  obligation that today's tables have the shape the typed wrappers rely on.  What ties the model to the code is
  engine `ksc` (real Marshal / Unmarshal, real put* / fetch* on a real LevelDB, through hooks_verif.go).
-/
import MW.Lemmas.KsCodecSpec
namespace MW.Props.C05Codec
open MW MW.Model.KsCodec MW.KsCodecL
open MW.Gen.KsCodec (masterPrivKeyName masterPubKeyName cryptoPrivKeyName cryptoPubKeyName cryptoEntropyKeyName
  entropyEncKeyName snaclMarshal snaclUnmarshal)

/-- today's generated tables: encoder and decoder tables agree field by field (kind and width), the decoders'
    length guards match their own tables, the N / r / p fields are 64-bit ints, the statement shapes of the
    unguarded readers / writers are the ones modelled -/
theorem tables : TablesShape := tables_shape

/-- decode ∘ encode = id for EVERY item table and every value list that fits its widths (any trailing bytes are
    handed back) – the generic fact all record round trips below are instances of -/
theorem codec_roundtrip (is : List MW.Gen.KsCodec.Item) (vs : List Val) (bs tl : Bytes)
    (hf : fitsAll is vs = true) (he : encodeItems is vs = some bs) : decodeItems is (bs ++ tl) = .ok (vs, tl) :=
  decodeItems_encodeItems is vs bs tl hf he

/-- a decoder accepts nothing but encodings: what it returns fits the widths and re-encodes to the consumed bytes -/
theorem codec_sound (is : List MW.Gen.KsCodec.Item) (bs : Bytes) (vs : List Val) (rest : Bytes)
    (h : decodeItems is bs = .ok (vs, rest)) :
    ∃ enc, encodeItems is vs = some enc ∧ bs = enc ++ rest ∧ fitsAll is vs = true :=
  decodeItems_sound is bs vs rest h

/-- snacl: Unmarshal ∘ Marshal = id on every value a Go `Parameters` can hold; Marshal writes 88 bytes -/
theorem snacl_roundtrip (p : Params) (h : p.wf = true) :
    ∃ bs, marshal p = some bs ∧ bs.length = 88 ∧ unmarshal bs = .ok p := by
  obtain ⟨bs, h1, h2⟩ := unmarshal_marshal p h
  exact ⟨bs, h1, marshal_length p bs h1, h2⟩

/-- snacl: Unmarshal rejects EVERY byte string of another length (ErrMalformed) -/
theorem snacl_rejects_wrong_length (bs : Bytes) (h : bs.length ≠ 88) : unmarshal bs = .error .malformed :=
  unmarshal_wrong_length bs h

/-- snacl: every 88-byte string is accepted and marshals back to itself (a bijection; N, r, p are not validated) -/
theorem snacl_accepts_every_88 (bs : Bytes) (h : bs.length = 88) :
    ∃ p, unmarshal bs = .ok p ∧ p.wf = true ∧ marshal p = some bs := unmarshal_total bs h

/-- the overflow case: outside the 64-bit range the round trip breaks (N = 2^63 comes back as −2^63) -/
theorem snacl_overflow_breaks : ∃ p bs, marshal p = some bs ∧ p.wf = false ∧ unmarshal bs ≠ .ok p :=
  marshal_overflow_breaks

/-- master-key parameters: fetch ∘ put = id, no other key touched -/
theorem master_params_roundtrip (b : Bucket) (pub priv : Bytes) (hp : pub ≠ []) (hq : priv ≠ []) :
    ∃ b', putMasterKeyParams b (some pub) (some priv) = .ok b' ∧ fetchMasterKeyParams b' = .ok (pub, some priv) ∧
      ∀ k, k ≠ key masterPrivKeyName → k ≠ key masterPubKeyName → bget b' k = bget b k :=
  masterKeyParams_roundtrip b pub priv hp hq

/-- a nil parameter leaves the stored one alone (a passphrase change rewrites only its own side) -/
theorem master_params_nil_keeps (b : Bucket) (priv : Bytes) (hq : priv ≠ []) :
    ∃ b', putMasterKeyParams b none (some priv) = .ok b' ∧ bget b' (key masterPubKeyName) = bget b (key masterPubKeyName) ∧
      bget b' (key masterPrivKeyName) = some priv := masterKeyParams_nil_keeps b priv hq

/-- encrypted crypto keys: fetch ∘ put = id, no other key touched -/
theorem crypto_keys_roundtrip (b : Bucket) (p q r : Bytes) (hp : p ≠ []) (hq : q ≠ []) (hr : r ≠ []) :
    ∃ b', putCryptoKeys b (some p) (some q) (some r) = .ok b' ∧ fetchCryptoKeys b' = .ok (p, some q, some r) ∧
      ∀ k, k ≠ key cryptoPubKeyName → k ≠ key cryptoPrivKeyName → k ≠ key cryptoEntropyKeyName → bget b' k = bget b k :=
  cryptoKeys_roundtrip b p q r hp hq hr

/-- encrypted entropy: fetch ∘ put = id -/
theorem entropy_roundtrip (b : Bucket) (e : Bytes) (he : e ≠ []) :
    ∃ b', putEntropy b e = .ok b' ∧ fetchEntropy b' = some e ∧ ∀ k, k ≠ key entropyEncKeyName → bget b' k = bget b k :=
  KsCodecL.entropy_roundtrip b e he

/-- the 14 record names of the account bucket are pairwise distinct, non-empty and ASCII -/
theorem names_distinct : NamesDistinct := nameKeys_distinct

/-- hex.DecodeString ∘ hex.EncodeToString = id; odd lengths are refused -/
theorem hex_roundtrip (bs : Bytes) : hexDec (hexEnc bs) = some bs := hexDec_hexEnc bs
theorem hex_rejects_odd (s : Bytes) (h : s.length % 2 = 1) : hexDec s = none := hexDec_odd s h

/-- for today's tables the table-driven snacl codec IS the format spec (salt ‖ digest ‖ N ‖ r ‖ p, 8-byte LE, 88 bytes),
    on every input – a build that moved a field would disagree with the spec on a concrete input (driver column 2) -/
theorem snacl_model_eq_spec (p : Params) (hs : p.salt.length = 32) (hd : p.digest.length = 32) (bs : Bytes) :
    marshal p = some (Spec.KsCodec.marshal p) ∧ Spec.KsCodec.ofExcept (unmarshal bs) = Spec.KsCodec.unmarshal bs :=
  ⟨marshal_eq_spec p hs hd, unmarshal_eq_spec bs⟩

/-! non-vacuity -/
def demoParams : Params := ⟨List.replicate 32 7, List.replicate 32 9, 262144, 8, 1⟩
example : demoParams.wf = true := by decide
example : (marshal demoParams).map (·.length) = some 88 := by decide
example : unmarshal (List.replicate 87 0) = .error .malformed := by decide
example : ∃ b', putMasterKeyParams [] (some [1]) (some [2]) = .ok b' ∧ fetchMasterKeyParams b' = .ok ([1], some [2]) :=
  ⟨_, rfl, by decide⟩
example : fitsAll snaclMarshal.items demoParams.vals = true := by decide
example : putMasterKeyParams [] (some []) (some [2]) = .error .db := by decide

end MW.Props.C05Codec
