/-
  C06 — A crash at any instant loses nothing and applies nothing twice.   PROPERTY THEOREMS.
  Model: MW.Model.Persist.
-/
import MW.Model.Persist
namespace MW.Props.C06
open MW MW.Model.Ledger MW.Model.Persist

/-- tie B: the Update call-site table of the code is the one the model is built on -/
theorem sites_expected : Gen.Updates.sites = expectedSites := rfl

end MW.Props.C06
