/-
  C06 — A crash at any instant loses nothing and applies nothing twice.   PROPERTY THEOREMS.
  Model: MW.Model.Persist (store × volatile state, `crash (P,V) = (P, boot P)`, Start catch-up);
  Spec: MW.Spec.Persist (histories `runEvs`, `CrashRel`, `BestInv`, `quiet`).
  What is proved at full strength and what only partially is said at each theorem; the full
  statements that are NOT proved are kept as `def …_full : Prop`.
-/
import MW.Lemmas.PersistCrash
import MW.Lemmas.PersistWorld
import MW.Lemmas.Deepen3Frame
import MW.Lemmas.Deepen3Crash
import MW.Lemmas.Deepen3Pend
import MW.Lemmas.Deepen3Task
import MW.Lemmas.Deepen3Ex
import MW.Lemmas.Deepen4Resume
import MW.Lemmas.Deepen4Ex
import MW.Lemmas.Deepen4Unguarded
import MW.Lemmas.Deepen5Ex
namespace MW.Props.C06
open MW MW.Model.Ledger MW.Model.Persist MW.Spec.Persist MW.Lemmas.PersistOp MW.Lemmas.PersistFault MW.Lemmas.PersistCrash

-- ------------------------------------------------------------------ atomic_steps

/-- tie B: the Update call-site table of the code is the one the model is built on: ONE site per
    operation; the second site of asyncRemove and the site of Start sit in a loop (one commit per
    removal step / per fast-forwarded height). -/
theorem sites_expected : Gen.Updates.sites = expectedSites := rfl

/-- tie B: a commit is one unsynced LevelDB batch write; the tip copy is assigned after the commit
    only; initTaskChan re-queues; the fast-forward distance is the constant the model uses -/
theorem commit_shape : (Gen.Updates.commitIsOneUnsyncedWrite && Gen.Updates.bestBlockOnlyOnSuccess &&
    Gen.Updates.initTaskChanRequeues && Gen.Updates.fastForwardSetsBestBeforeUpdate) = true ∧
    Gen.Updates.ffGap = 2000 := ⟨rfl, rfl⟩

/-- atomic_steps: EVERY operation built around an Update (block, reorg, import / removal step,
    create, import, new address, marking, fast-forward step) performs at most one batch write,
    exactly one iff it succeeds, and none — leaving the store as it was — iff it fails; this holds
    under every fault index as well. So the commit boundaries of a history are exactly the
    boundaries of its successful operations. -/
theorem atomic_steps (o : Op) (f : Option Nat) (P : PStore) (V : PVol) :
    (o.run f P V).commits ≤ 1 ∧
    ((o.run f P V).commits = 1 ↔ (o.run f P V).ok = true) ∧
    ((o.run f P V).ok = false → (o.run f P V).P = P) := by
  refine ⟨run_commits_le o f P V, ?_, run_fail_store o f P V⟩
  rw [run_commits]
  cases (o.run f P V).ok <;> simp

/-- the unconfirmed-transaction path (not an `Op`: it may return before any Update) -/
theorem atomic_steps_recvTx (env : Env) (nR nW : Nat) (f : Option Nat) (tx : Tx) (P : PStore) (V : PVol) :
    (Model.Persist.recvTx env nR nW f tx P V).commits ≤ 1 := by
  unfold Model.Persist.recvTx
  simp only
  split_ifs
  · simp
  · simp
  · split
    · simp
    · simp
    · exact run_commits_le _ _ P V

-- ------------------------------------------------------------------ persistent invariants

/-- persistent invariant (follower part) kept by every block that extends the tip: after the
    commit the stored synced-to is the block, its hash is in the height table, and the volatile tip
    copy equals it (BestInv). -/
theorem pinv_block_extend (env : Env) (n : Nat) (b : Block) (P : PStore) (V : PVol)
    (hp : b.prev = V.led.best.hash) (hok : ((opBlock env n b).run none P V).ok = true) :
    BestInv ((opBlock env n b).run none P V).P ((opBlock env n b).run none P V).V ∧
    SyncWf ((opBlock env n b).run none P V).P :=
  block_extend_bestInv env n b P V hp hok

/-- pinv_block: EVERY successful block operation — direct extension, reorganisation with any number of
    disconnects and connects in one batch, stale or duplicate notification — keeps BestInv and SyncWf and
    again leaves a store that holds the books of a well-formed chain whose tip is the volatile tip copy.
    Proved on top of C01's `processBlock_total` (MW.Lemmas.Ledger), i.e. for stores satisfying the ledger
    invariant `Inv … S` for a stored chain `S`, with the block-structure hypotheses `ReorgHyp` (both chains
    well-formed, valid, from one genesis, ids determine blocks) and every address owner a ready wallet. -/
theorem pinv_block (env : Env) (n : Nat) (b : Block) (P : PStore) (V : PVol) (S : List Block)
    (H : Lemmas.Ledger.ReorgHyp (ctxOf env V) S) (hinj : Lemmas.Ledger.IdInj (b :: (S ++ env.node.chain)))
    (hI : Lemmas.Ledger.Inv (ctxOf env V) P.led S) (hv : V.led.best = Lemmas.Ledger.tipMeta S)
    (hgen : b.height = 0 → b.prev ≠ (Lemmas.Ledger.tipMeta S).hash)
    (hAR : Lemmas.Ledger.AllReady (ctxOf env V).own (readyWallets P.led (ctxOf env V).wallets))
    (hne : (readyWallets P.led (ctxOf env V).wallets).isEmpty = false)
    (hok : ((opBlock env n b).run none P V).ok = true) :
    BestInv ((opBlock env n b).run none P V).P ((opBlock env n b).run none P V).V ∧
    SyncWf ((opBlock env n b).run none P V).P ∧
    ∃ S', Lemmas.Ledger.Inv (ctxOf env V) ((opBlock env n b).run none P V).P.led S' ∧
      ((opBlock env n b).run none P V).V.led.best = Lemmas.Ledger.tipMeta S' ∧ Lemmas.Ledger.GoodChain S' :=
  block_step_inv env n b P V S H hinj hI hv hgen hAR hne hok

/-- STILL NOT PROVED: the same WITHOUT the ledger invariant as a hypothesis, i.e. for stores with
    importing or removed wallets (`AllReady` fails) or outside `Inv` altogether. What is missing is a frame
    lemma library "rollback / disconnectBlock / connectAll never write the height table except through
    resetSyncedTo / putSyncedTo" for arbitrary stores; with the refactored (fold-based) ledger model this is
    plain structural induction but was not done. `pinv_block_extend` (no hypothesis on the store) covers the
    direct-extension path. The drivers evaluate `bestInvB` on every model state of every history. -/
def pinv_block_full : Prop :=
  ∀ (env : Env) (n : Nat) (b : Block) (P : PStore) (V : PVol), BestInv P V → SyncWf P →
    ((opBlock env n b).run none P V).ok = true →
    BestInv ((opBlock env n b).run none P V).P ((opBlock env n b).run none P V).V ∧
    SyncWf ((opBlock env n b).run none P V).P

/-- ROUND 3 — `pinv_block_full` PROVED with the one hypothesis it turned out to need. EVERY successful block
    operation (direct extension, reorganisation with any number of disconnects and connects in one batch, stale
    or duplicate notification) on ANY store — importing or removed wallets, no ledger invariant — keeps BestInv
    and SyncWf. Built on the frame lemmas of MW.Lemmas.Deepen3Frame (`sp_rollback`: TxStore.Rollback and all it
    calls never write the height table or synced-to; `disconnectBlock_syncedTo`, `disconnectDown_syncedTo`,
    `alignNew_last`, `walkBack_last`, `connectAll_last`, `reorg_sync_spec`: through the three loops of `reorg`
    only resetSyncedTo / putSyncedTo move synced-to, and a successful reorg ends synced to the announced block).
    `hid`: a notification carrying the id of the follower's tip has the tip's height (an id names one block). -/
theorem pinv_block_any (env : Env) (n : Nat) (b : Block) (P : PStore) (V : PVol) (hB : BestInv P V)
    (hid : b.id = V.led.best.hash → b.height = V.led.best.height)
    (hok : ((opBlock env n b).run none P V).ok = true) :
    BestInv ((opBlock env n b).run none P V).P ((opBlock env n b).run none P V).V ∧
    SyncWf ((opBlock env n b).run none P V).P :=
  Lemmas.Deepen3.block_any_bestInv env n b P V hB hid hok

/-- … and `hid` cannot be dropped: the literal `pinv_block_full` is FALSE in the model (a record with the tip's id
    and a lower height field takes the reorganisation path, finds nothing to do and succeeds; the tip copy takes
    the announced height). Machine-checked counterexample `Lemmas.Deepen3.cexP / cexV / cexB`. -/
theorem pinv_block_full_refuted : ¬ pinv_block_full := fun h =>
  Lemmas.Deepen3.cex_breaks (h {} 1 Lemmas.Deepen3.cexB Lemmas.Deepen3.cexP Lemmas.Deepen3.cexV
    Lemmas.Deepen3.cex_bestInv rfl Lemmas.Deepen3.cex_ok).1

/-- the hypotheses of `pinv_block_any` are satisfiable on a store OUTSIDE the ledger invariant (an importing
    wallet, a removed wallet): a reorganisation B1 → C1 on such a store -/
def pbP : PStore := { led := { sync := [(1, "B1"), (0, "G")], syncedTo := 1,
                               status := [("W1", ⟨some 0, false⟩), ("W2", ⟨none, true⟩)] } }
def pbV : PVol := { led := { best := ⟨1, "B1"⟩ } }
def pbG : Block := ⟨"G", "", 0, []⟩
def pbC1 : Block := ⟨"C1", "G", 1, []⟩
def pbEnv : Env := { node := { chain := [pbG, pbC1], known := [("G", pbG), ("C1", pbC1)] } }
example : BestInv pbP pbV ∧ (pbC1.id = pbV.led.best.hash → pbC1.height = pbV.led.best.height) ∧
    ((opBlock pbEnv 1 pbC1).run none pbP pbV).ok = true ∧
    ((opBlock pbEnv 1 pbC1).run none pbP pbV).P.led.sync = [(1, "C1"), (0, "G")] :=
  ⟨(⟨rfl, rfl⟩ : BestInv pbP pbV), (fun h => absurd h (by decide)), by decide, by decide⟩

/-- persistent invariant (keystore part): no skipped or duplicated address index, kept by NewAddress -/
theorem pinv_newAddr (env : Env) (nA nB nC : Nat) (stk : Bool) (P : PStore) (V : PVol)
    (w : Wid) (r c : KsRec) (hcur : V.cur = some w) (hr : AMap.get P.ks w = some r) (hk : AMap.get V.keys w = some c)
    (hs : KsSeq P) : KsSeq ((opNewAddr env nA nB nC stk).run none P V).P :=
  newAddr_ksSeq env nA nB nC stk P V w r c hcur hr hk hs

/-- the keystore buckets are not touched by block processing -/
theorem pinv_block_ks (env : Env) (n : Nat) (b : Block) (f : Option Nat) (P : PStore) (V : PVol) :
    ((opBlock env n b).run f P V).P.ks = P.ks := by
  by_cases hok : ((opBlock env n b).run f P V).ok = true
  · cases f with
    | none =>
      rw [block_none] at hok ⊢
      cases hb : blockTx (ctxOf env V) P.led V.led.best b with
      | error e => simp [hb]
      | ok r => obtain ⟨s', ro, ad⟩ := r; simp [hb]
    | some j =>
      rcases block_fault env n b j P V with he | ⟨_, h2, _⟩
      · rw [he, block_none]
        cases hb : blockTx (ctxOf env V) P.led V.led.best b with
        | error e => simp [hb]
        | ok r => obtain ⟨s', ro, ad⟩ := r; simp [hb]
      · rw [h2]
  · have : ((opBlock env n b).run f P V).ok = false := by simpa using hok
    rw [run_fail_store _ _ _ _ this]

-- ------------------------------------------------------------------ boot

/-- what boot reconstructs: the key cache is exactly the stored keystores; with a well-formed height
    table the tip copy is the stored synced-to — `Coh` holds after every boot -/
theorem boot_coh (env : Env) (P : PStore) (h : SyncWf P) : Coh env P (bootVol P) :=
  ⟨boot_keyCoh env P, boot_bestInv P h⟩

/-- a crash loses only what no later store depends on: under BestInv and an exact key cache the
    booted volatile state agrees with the lost one on tip copy and key cache -/
theorem crash_loses_only_volatile (P : PStore) (V : PVol) (hb : BestInv P V) (hk : V.keys = P.ks) :
    VEq V (bootVol P) := boot_vEq P V hb hk

/-- removal_resumes / import_resumes: whatever was marked in the store is queued again at boot -/
theorem removal_resumes (env : Env) (n : Nat) (P : PStore) (w : Wid) (st : WStatus)
    (hq : env.node.tipHeight = P.led.syncedTo) (ht : tipOnB env P = true)
    (h : (w, st) ∈ P.led.status) (hr : st.removed = true) :
    Task.rem w ∈ (start env n P (bootVol P)).V.tasks := by
  rw [start_quiet env n P hq ht]; exact requeue_removed P w st h hr

theorem import_resumes (env : Env) (n : Nat) (P : PStore) (w : Wid) (st : WStatus)
    (hq : env.node.tipHeight = P.led.syncedTo) (ht : tipOnB env P = true) (h : (w, st) ∈ P.led.status)
    (hr : st.removed = false) (hi : st.synced.isSome = true) :
    Task.imp w ∈ (start env n P (bootVol P)).V.tasks := by
  rw [start_quiet env n P hq ht]; exact requeue_importing P w st h hr hi

-- ------------------------------------------------------------------ catchup_converges

/-- catchup_converges (partial): when no fast-forward applies and the synced block is still the node's block
    at that height (nothing to resync), Start's catch-up IS the processing of
    the missed tip notifications in order — boot followed by catch-up reaches the store (and tip
    copy, key cache) that the run which never stopped reaches by processing those notifications.
    Partial: the missed blocks are processed as Start does (each extends the previous one or goes
    through `reorg`); the convergence of a run that afterwards receives STALE notifications
    (rollback + reconnect) is part of `crash_equiv_full`. -/
theorem catchup_converges_partial (n : Nat) (s : Sys) (hb : BestInv s.P s.V) (hk : s.V.keys = s.P.ks)
    (hnf : (!(!(readyWallets s.P.led (walletsOf s.P.ks)).isEmpty) && decide (s.env.node.tipHeight > Gen.Updates.ffGap)) = false)
    (ht : tipOnB s.env s.P = true) (hle : s.P.led.syncedTo ≤ s.env.node.tipHeight)
    (hok : (crash s.env n s.P).ok = true) :
    let missed := (pendingBlocks s.env (s.env.node.tipHeight + 1) (s.P.led.syncedTo + 1)).map Ev.block
    (crash s.env n s.P).P = (runEvs n false s missed).P ∧
    VEq (crash s.env n s.P).V (runEvs n false s missed).V := by
  intro missed
  have hnf' : (!(!(readyWallets s.P.led (walletsOf (bootVol s.P).keys)).isEmpty) && decide (s.env.node.tipHeight > Gen.Updates.ffGap)) = false := hnf
  unfold crash at hok ⊢
  rw [start_noff s.env n s.P hnf' ht hle] at hok ⊢
  simp only at hok ⊢
  by_cases hc : (catchUp s.env n (s.env.node.tipHeight + 1) (s.P.led.syncedTo + 1) s.P (bootVol s.P) 0).ok = true
  · simp only [hc, Bool.not_true] at hok ⊢
    have hcu := catchUp_eq s.env n _ _ s.P (bootVol s.P) 0 hc
    -- the run from the booted volatile state and the run from the lost one are related
    have hrel : CrashRel ⟨s.env, s.P, bootVol s.P⟩ s := ⟨rfl, rfl, vEq_symm (boot_vEq s.P s.V hb hk)⟩
    have := runEvs_rel n missed ⟨s.env, s.P, bootVol s.P⟩ s (crashesQuiet_blocks n _ _) hrel
    have hsame : runEvs n true ⟨s.env, s.P, bootVol s.P⟩ missed = runEvs n false ⟨s.env, s.P, bootVol s.P⟩ missed := by
      have hx : ∀ (bs : List Block) (t : Sys), runEvs n true t (bs.map Ev.block) = runEvs n false t (bs.map Ev.block) := by
        intro bs
        induction bs with
        | nil => intro t; rfl
        | cons b bs ih => intro t; simp only [List.map, runEvs, List.foldl, stepEv]; exact ih _
      exact hx _ _
    rw [hsame] at this
    refine ⟨?_, ?_⟩
    · simp; rw [hcu.1]; exact this.2.1
    · simp
      have h2 := this.2.2
      rw [← hcu.2] at h2
      exact ⟨h2.1, h2.2⟩
  · simp [hc] at hok

-- ------------------------------------------------------------------ crash_equiv

/-- crash_equiv (partial): for EVERY history of node changes, tip notifications (extensions and
    reorganisations), wallet creations, new addresses and removal markings, with ANY number of
    crashes, each at a quiet commit boundary of the crashing run (tip copy = synced-to, key cache
    exact, follower caught up with the node): after every event the crashing run has exactly the store
    of the run that never stopped, and a volatile state that differs from it only in what a crash
    may lose (pending-id set, expired map, wallet in use, task queue, reservations).
    Partial in two respects: (1) crash points where the follower lags behind the node are covered
    by `catchup_converges_partial` up to the end of the catch-up, not beyond; (2) unconfirmed
    transactions are not part of these histories (their duplicate check reads the volatile
    pending-id set: see `recvTx_fresh_congr`). -/
theorem crash_equiv_partial (n : Nat) (evs : List Ev) (s : Sys) (hq : crashesQuiet n s evs = true) :
    CrashRel (runEvs n true s evs) (runEvs n false s evs) :=
  runEvs_rel n evs s s hq ⟨rfl, rfl, vEq_refl s.V⟩

/-- crash_preserves_J: a crash as an event of C01's histories (`MW.Lemmas.PersistWorld.crashW`: the store
    stays, the tip copy is rebuilt from synced-to, the notification queue is LOST, Start's catch-up
    processes the node's blocks above synced-to) keeps C01's step invariant `J` — at EVERY commit boundary,
    quiet or not, with one exception made explicit by `freshAt`: notifications were pending AND the node's
    chain is not higher than the block the wallet is synced to. -/
theorem crash_preserves_J {e : Lemmas.Ledger.Env} {G : Block} {w : Lemmas.Ledger.World}
    (hJ : Lemmas.Ledger.J e G w) (hN : Lemmas.Ledger.ChainOK e G w.chain) (hf : Lemmas.PersistWorld.freshAt w) :
    Lemmas.Ledger.J e G (Lemmas.PersistWorld.crashW w) :=
  Lemmas.PersistWorld.crashW_J hJ hN hf

/-- with the resync step of Start (the repair of F2; `MW.Lemmas.PersistWorld.crashF`, `Model.Persist.resync`)
    the exception is gone: a crash keeps `J` at EVERY commit boundary. The case "synced block is the
    node's block at that height and nothing above it" needs the hash-chain property (`prefix_of_id`): the
    wallet's chain then IS the node's chain. -/
theorem crash_preserves_J_repaired {e : Lemmas.Ledger.Env} {G : Block} {w : Lemmas.Ledger.World}
    (hJ : Lemmas.Ledger.J e G w) (hN : Lemmas.Ledger.ChainOK e G w.chain) :
    Lemmas.Ledger.J e G (Lemmas.PersistWorld.crashF w) :=
  Lemmas.PersistWorld.crashF_J hJ hN

/-- crash_equiv over the histories of C01 (node extends / reorganises to any branch, handler steps in any
    interleaving) with ANY number of crashes at ANY commit boundaries (event `crashF`: Start with the resync
    step, no side condition; event `crash`: Start as it was, side condition `freshAt`): whenever nothing
    is queued, the crashing run holds the books of the node's chain with the tip at the node's tip … -/
theorem crash_quiet_inv {e : Lemmas.Ledger.Env} {G : Block} (E : Lemmas.Ledger.EnvHyp e G)
    (evs : List Lemmas.PersistWorld.EvC) (w : Lemmas.Ledger.World)
    (hJ : Lemmas.Ledger.J e G w) (hR : Lemmas.PersistWorld.RunOK e G w evs)
    (hq : (Lemmas.PersistWorld.runC e w evs).queue = []) :
    Lemmas.Ledger.Inv (e.ctx (Lemmas.PersistWorld.runC e w evs).chain) (Lemmas.PersistWorld.runC e w evs).s
        (Lemmas.PersistWorld.runC e w evs).chain ∧
      (Lemmas.PersistWorld.runC e w evs).v.best = Lemmas.Ledger.tipMeta (Lemmas.PersistWorld.runC e w evs).chain :=
  Lemmas.PersistWorld.quiet_inv E evs w hJ hR hq

/-- … and therefore exactly the CONFIRMED state of the run that never stopped: all confirmed buckets
    (credits, unspent index, debits, deposit records, tx records, block records, height table) are
    extensionally equal, synced-to and the tip copy are equal. (The pending buckets are not functions of
    the chain: see `notes/C06.md`, "lagging follower".) -/
theorem crash_equiv_ledger {e : Lemmas.Ledger.Env} {G : Block} (E : Lemmas.Ledger.EnvHyp e G)
    (w0 : Lemmas.Ledger.World) (evsC evsT : List Lemmas.PersistWorld.EvC)
    (hJ : Lemmas.Ledger.J e G w0) (hC : Lemmas.PersistWorld.RunOK e G w0 evsC)
    (hT : Lemmas.PersistWorld.RunOK e G w0 evsT)
    (hqC : (Lemmas.PersistWorld.runC e w0 evsC).queue = []) (hqT : (Lemmas.PersistWorld.runC e w0 evsT).queue = [])
    (hch : (Lemmas.PersistWorld.runC e w0 evsC).chain = (Lemmas.PersistWorld.runC e w0 evsT).chain) :
    AMap.Equiv (Lemmas.PersistWorld.runC e w0 evsC).s.credits (Lemmas.PersistWorld.runC e w0 evsT).s.credits ∧
    AMap.Equiv (Lemmas.PersistWorld.runC e w0 evsC).s.unspent (Lemmas.PersistWorld.runC e w0 evsT).s.unspent ∧
    AMap.Equiv (Lemmas.PersistWorld.runC e w0 evsC).s.debits (Lemmas.PersistWorld.runC e w0 evsT).s.debits ∧
    AMap.Equiv (Lemmas.PersistWorld.runC e w0 evsC).s.game (Lemmas.PersistWorld.runC e w0 evsT).s.game ∧
    AMap.Equiv (Lemmas.PersistWorld.runC e w0 evsC).s.txrecs (Lemmas.PersistWorld.runC e w0 evsT).s.txrecs ∧
    AMap.Equiv (Lemmas.PersistWorld.runC e w0 evsC).s.blocks (Lemmas.PersistWorld.runC e w0 evsT).s.blocks ∧
    AMap.Equiv (Lemmas.PersistWorld.runC e w0 evsC).s.sync (Lemmas.PersistWorld.runC e w0 evsT).s.sync ∧
    (Lemmas.PersistWorld.runC e w0 evsC).s.syncedTo = (Lemmas.PersistWorld.runC e w0 evsT).s.syncedTo ∧
    (Lemmas.PersistWorld.runC e w0 evsC).v.best = (Lemmas.PersistWorld.runC e w0 evsT).v.best :=
  Lemmas.PersistWorld.crash_equiv_ledger E w0 evsC evsT hJ hC hT hqC hqT hch

/-- the hypotheses are satisfiable: the example history of C01 with a crash while two notifications are queued -/
example : Lemmas.PersistWorld.RunOK Lemmas.Ledger.hxEnv Lemmas.Ledger.hxG Lemmas.Ledger.hxW0 Lemmas.PersistWorld.hxC :=
  Lemmas.PersistWorld.hxRunOK
example : Lemmas.Ledger.J Lemmas.Ledger.hxEnv Lemmas.Ledger.hxG Lemmas.Ledger.hxW0 := Lemmas.PersistWorld.hxJ0

/-- THE ORIGINAL FULL STATEMENT (kept, type-checked). Status after round 3:
    (1) the bridge `Model.Persist.crash` / `start` ↔ books of the node's chain: PROVED (`crash_start_reaches`);
    (2) the `freshAt` exception was finding F2, repaired (D42); `crash_equiv` below uses Start WITH the resync;
    (3) histories with address issuance and wallet creation, crashes at every commit boundary: PROVED
        (`crash_equiv`, `crash_quiet_books`) for the CONFIRMED state; pending buckets under the quiet-point rule
        with unconfirmed transactions: PROVED (`crash_equiv_pending`).
    The statement below — equality of the WHOLE store, pending buckets and address records included, after a crash
    at a NON-quiet boundary, for histories with arbitrary `node` / `block` / `removeMark` events and no hypothesis
    on the chains — is not what holds: after a crash while the follower lags the two runs have seen different
    event histories and their pending buckets legitimately differ (notes/C06.md, 'lagging follower', F1, reproduced
    by the model); the address records are only tied by correspondence (C01 proves them forward only).
    Still open: histories with import / removal events interleaved with crashes at NON-quiet points (`AllReady`
    fails while a wallet is importing or flagged; `removal_resumes_same` / `import_resumes_same` cover crashes
    between steps at quiet points), the fast-forward path of Start (no ready wallet, > 2000 blocks behind: corpus
    test only), and `newAddr` / `create` events in `crash_equiv_pending`-style full-store equality at non-quiet
    points (they are in `crash_equiv` for the confirmed state). -/
def crash_equiv_full : Prop :=
  ∀ (n : Nat) (pre post : List Ev) (s : Sys),
    let s1 := runEvs n false s pre
    BestInv s1.P s1.V → s1.V.keys = s1.P.ks →
    quiet (runEvs n false s1 post) = true →
    (runEvs n true (stepEv n true s1 .crash) post).P = (runEvs n false s1 post).P

/-- unconfirmed transactions: a transaction that is in neither pending-id set is handled identically
    by the crashing run and the run that never stopped -/
theorem recvTx_fresh_congr (env : Env) (nR nW : Nat) (tx : Tx) (P : PStore) (V1 V2 : PVol) (h : VEq V1 V2)
    (h1 : V1.led.mempool.contains tx.id = false) (h2 : V2.led.mempool.contains tx.id = false) :
    (Model.Persist.recvTx env nR nW none tx P V1).P = (Model.Persist.recvTx env nR nW none tx P V2).P ∧
    (Model.Persist.recvTx env nR nW none tx P V1).ok = (Model.Persist.recvTx env nR nW none tx P V2).ok := by
  unfold Model.Persist.recvTx
  have hc : ctxOf env V1 = ctxOf env V2 := by unfold ctxOf; rw [h.2]
  simp only [h1, h2, hc]
  cases hf : filterTxRel (ctxOf env V2) P.led tx false [] (readyWallets P.led (ctxOf env V2).wallets) with
  | error e => simp
  | ok o =>
    cases o with
    | none => simp
    | some tr =>
      simp only [Option.map]
      rw [run_single_none nW _ (opAddUnmined nW tr) rfl P V1, run_single_none nW _ (opAddUnmined nW tr) rfl P V2]
      cases ha : addRelevantUnmined P.led tr with
      | error e => simp [opAddUnmined, ha]
      | ok s' => simp [opAddUnmined, ha]

-- ------------------------------------------------------------------ ROUND 3: crash_equiv at every commit boundary

open MW.Lemmas.Deepen3 in
/-- THE BRIDGE (what `crash_equiv_full` lacked as item 1): `Model.Persist.crash` — boot, then the REAL Start of
    the persistence model: resync step, fast-forward test, height-driven catch-up loop with the code's fuel,
    initTaskChan — on a wallet that holds the books of ANY stored chain `S` (C01's `Inv`; every address owner
    ready, one ready wallet): Start SUCCEEDS (no catch-up step fails, the fuel suffices, the resync step puts a
    wallet on a stale branch back) and ends with the books of the node's WHOLE chain (`SInv … (length − 1)`),
    tip copy = node tip, key cache = stored keystore, the re-queued tasks. -/
theorem crash_start_reaches {st : Static} {G : Block} (E : StaticOK st G) {ks : AMap.T Wid KsRec} {chain : List Block}
    (hN : Lemmas.Ledger.ChainOK (lenv st ks) G chain) (n : Nat) {P : PStore} {S : List Block} (hks : P.ks = ks)
    (hI : Lemmas.Ledger.Inv ((lenv st ks).ctx chain) P.led S) (hS : Lemmas.Ledger.ChainOK (lenv st ks) G S)
    (hAR : Lemmas.Ledger.AllReady (ownOf ks) (readyWallets P.led (walletsOf ks)))
    (hne : (readyWallets P.led (walletsOf ks)).isEmpty = false) :
    (crash (envAt st chain) n P).ok = true ∧
    SInv st ks chain P.led (chain.length - 1) (crash (envAt st chain) n P).P (crash (envAt st chain) n P).V ∧
    (crash (envAt st chain) n P).V.tasks = requeue (crash (envAt st chain) n P).P :=
  crash_reaches E hN n hks hI hS hAR hne

open MW.Lemmas.Deepen3 in
/-- CRASH_EQUIV (goal 1). Histories of the persistence model itself (`SysQ`: node chain, VOLATILE notification
    queue, store, volatile state; `EvQ`): node extends / reorganises to any branch, handler steps in any
    interleaving (each the real `opBlock`: extension, reorganisation, stale and duplicate notifications),
    CreateWallet, NewAddress, unconfirmed transactions (`recvTx`: delivered at any time, seen before or not — they
    write pending buckets only, `JQ_recvTx`), and `crash` events — any number, after ANY event, i.e. at EVERY commit boundary,
    quiet or not (the notification queue is lost; `Model.Persist.crash` runs boot + Start with the D42 resync).
    The same history run with the crashes executed and with the crashes ignored: if the run that never stops ends
    with nothing pending, so does the crashing run, on the same node chain, with the SAME keystore buckets and key
    cache, the same tip copy and synced-to, extensionally equal confirmed buckets (credits, unspent index, debits,
    deposit records, tx records, block records, height table) and the same balance for every wallet, all ready in
    both runs. Hypotheses (`RunOK`, on the history's skeleton — chain, keystore, chains so far — which does not
    depend on the crashes): C01's (`ChainOK` for every node chain w.r.t. the keystore view of the moment, a
    reorganisation announces something, an address is issued before any chain pays it) plus: a newly derived
    address is new to the keystore. `JQ` for the initial state: it holds the books of its node chain (C01's `Inv`),
    exact key cache, all stored wallets ready, at least one. -/
theorem crash_equiv {st : Static} {G : Block} (E : StaticOK st G) (n : Nat) (evs : List EvQ) (x0 : SysQ) (k0 : Skel)
    (hJ : JQ st G x0 k0) (hR : RunOK st G k0 evs) (hq : (runQ st n false x0 evs).queue = []) :
    (runQ st n true x0 evs).queue = [] ∧
    (runQ st n true x0 evs).chain = (runQ st n false x0 evs).chain ∧
    (runQ st n true x0 evs).P.ks = (runQ st n false x0 evs).P.ks ∧
    (runQ st n true x0 evs).V.keys = (runQ st n false x0 evs).V.keys ∧
    AMap.Equiv (runQ st n true x0 evs).P.led.credits (runQ st n false x0 evs).P.led.credits ∧
    AMap.Equiv (runQ st n true x0 evs).P.led.unspent (runQ st n false x0 evs).P.led.unspent ∧
    AMap.Equiv (runQ st n true x0 evs).P.led.debits (runQ st n false x0 evs).P.led.debits ∧
    AMap.Equiv (runQ st n true x0 evs).P.led.game (runQ st n false x0 evs).P.led.game ∧
    AMap.Equiv (runQ st n true x0 evs).P.led.txrecs (runQ st n false x0 evs).P.led.txrecs ∧
    AMap.Equiv (runQ st n true x0 evs).P.led.blocks (runQ st n false x0 evs).P.led.blocks ∧
    AMap.Equiv (runQ st n true x0 evs).P.led.sync (runQ st n false x0 evs).P.led.sync ∧
    (runQ st n true x0 evs).P.led.syncedTo = (runQ st n false x0 evs).P.led.syncedTo ∧
    (runQ st n true x0 evs).V.led.best = (runQ st n false x0 evs).V.led.best ∧
    (∀ w ∈ walletsOf (runQ st n false x0 evs).P.ks,
      AMap.get (runQ st n true x0 evs).P.led.balance w = AMap.get (runQ st n false x0 evs).P.led.balance w ∧
      readyB (runQ st n true x0 evs).P.led w = true ∧ readyB (runQ st n false x0 evs).P.led w = true) :=
  Lemmas.Deepen3.crash_equiv E n evs x0 k0 hJ hR hq

open MW.Lemmas.Deepen3 in
/-- … in absolute terms: whenever nothing is queued — crashed any number of times at any commit boundaries or
    never — the wallet holds the books of the node's chain FOR THE KEYSTORE VIEW OF THAT MOMENT (addresses issued
    and wallets created along the way included), tip copy = node tip, key cache exact -/
theorem crash_quiet_books {st : Static} {G : Block} (E : StaticOK st G) (n : Nat) (cr : Bool) (evs : List EvQ) (x0 : SysQ)
    (k0 : Skel) (hJ : JQ st G x0 k0) (hR : RunOK st G k0 evs) (hq : (runQ st n cr x0 evs).queue = []) :
    Lemmas.Ledger.Inv ((lenv st (skRun st k0 evs).ks).ctx (skRun st k0 evs).chain) (runQ st n cr x0 evs).P.led
        (skRun st k0 evs).chain ∧
    (runQ st n cr x0 evs).V.led.best = Lemmas.Ledger.tipMeta (skRun st k0 evs).chain ∧
    (runQ st n cr x0 evs).chain = (skRun st k0 evs).chain ∧
    (runQ st n cr x0 evs).P.ks = (skRun st k0 evs).ks ∧ (runQ st n cr x0 evs).V.keys = (skRun st k0 evs).ks ∧
    KeysOK (skRun st k0 evs).ks (runQ st n cr x0 evs).P.led :=
  quiet_inv E n cr evs x0 k0 hJ hR hq

open MW.Lemmas.Deepen3 in
/-- every crash of such a history finds a wallet on which Start SUCCEEDS -/
theorem crash_start_ok {st : Static} {G : Block} (E : StaticOK st G) (n : Nat) (evs : List EvQ) (x0 : SysQ) (k0 : Skel)
    (hJ : JQ st G x0 k0) (hR : RunOK st G k0 evs) :
    (crash (envAt st (runQ st n true x0 evs).chain) n (runQ st n true x0 evs).P).ok = true :=
  Lemmas.Deepen3.crash_start_ok E n evs x0 k0 hJ hR

open MW.Lemmas.Deepen3 in
/-- a crash DURING Start, between any two commits of its resync / catch-up: every intermediate state of Start
    (`SInv`) is a state from which boot + Start succeed and reach the books of the whole chain -/
theorem crash_during_start {st : Static} {G : Block} (E : StaticOK st G) {ks : AMap.T Wid KsRec} {chain : List Block}
    (hN : Lemmas.Ledger.ChainOK (lenv st ks) G chain) (n : Nat) {s0 : Store} {h : Nat} {P : PStore} {V : PVol}
    (hS : SInv st ks chain s0 h P V) (hAR : Lemmas.Ledger.AllReady (ownOf ks) (readyWallets s0 (walletsOf ks)))
    (hne : (readyWallets s0 (walletsOf ks)).isEmpty = false) :
    (crash (envAt st chain) n P).ok = true ∧
    SInv st ks chain P.led (chain.length - 1) (crash (envAt st chain) n P).P (crash (envAt st chain) n P).V :=
  Lemmas.Deepen3.crash_during_start E hN n hS hAR hne

/-- the steps of these histories ARE the steps of `stepEv` (MW.Spec.Persist) on the same `Sys`: a handler step is
    the event `block b` for the oldest queued notification, and so on — `crash_equiv` speaks about the same
    operations as `crash_equiv_partial` -/
theorem crash_equiv_same_steps (st : Lemmas.Deepen3.Static) (n : Nat) (cr : Bool) (x : Lemmas.Deepen3.SysQ) :
    (∀ b q, x.queue = b :: q → (Lemmas.Deepen3.stepQ st n cr x .handle).sys st = stepEv n cr (x.sys st) (.block b)) ∧
    (∀ w, (Lemmas.Deepen3.stepQ st n cr x (.create w)).sys st = stepEv n cr (x.sys st) (.create w)) ∧
    (∀ w stk, (Lemmas.Deepen3.stepQ st n cr x (.newAddr w stk)).sys st = stepEv n cr (x.sys st) (.newAddr w stk)) ∧
    (Lemmas.Deepen3.stepQ st n cr x .crash).sys st = stepEv n cr (x.sys st) .crash :=
  ⟨fun b q h => Lemmas.Deepen3.stepQ_handle_sys st n cr x b q h, fun w => Lemmas.Deepen3.stepQ_create_sys st n cr x w,
   fun w stk => Lemmas.Deepen3.stepQ_newAddr_sys st n cr x w stk, Lemmas.Deepen3.stepQ_crash_sys st n cr x⟩

/-- the hypotheses of `crash_equiv` are satisfiable — history with an address issued while a notification is
    pending, a wallet created in mid-history, a reorganisation and TWO crashes at NON-quiet commit boundaries (the
    second one with the wallet on a stale branch at the node's height: the F2 situation) — and the computed end
    states are the expected ones (MW.Lemmas.Deepen3Ex) -/
example : Lemmas.Deepen3.StaticOK Lemmas.Deepen3.exSt Lemmas.Ledger.hxG := Lemmas.Deepen3.exStaticOK
example : Lemmas.Deepen3.JQ Lemmas.Deepen3.exSt Lemmas.Ledger.hxG Lemmas.Deepen3.exX0 Lemmas.Deepen3.exK0 :=
  Lemmas.Deepen3.exJQ0
example : Lemmas.Deepen3.RunOK Lemmas.Deepen3.exSt Lemmas.Ledger.hxG Lemmas.Deepen3.exK0 Lemmas.Deepen3.exEvs :=
  Lemmas.Deepen3.exRunOK
example : (Lemmas.Deepen3.runQ Lemmas.Deepen3.exSt 1 false Lemmas.Deepen3.exX0 Lemmas.Deepen3.exEvs).queue = [] :=
  Lemmas.Deepen3.exQuietT

/-- THE PENDING BUCKETS (quiet-point rule; histories of `Ev` extended by unconfirmed transactions): every crash
    at a quiet point of the crashing run, every delivered unconfirmed transaction in neither run's volatile
    seen-set (assumption A3): after every event the two runs have the SAME store — all buckets, the pending ones
    (pending, pendIns, pendCred, pendGame) included — and VEq volatile states. For crashes at non-quiet points the
    pending buckets are NOT comparable (the two runs have seen different event histories: notes/C06.md, 'lagging
    follower', finding F1) — that part of `crash_equiv_full` is false, not open. -/
theorem crash_equiv_pending (n : Nat) (evs : List Lemmas.Deepen3.EvP) (s : Sys)
    (hq : Lemmas.Deepen3.okP n s s evs = true) :
    CrashRel (Lemmas.Deepen3.runP n true s evs) (Lemmas.Deepen3.runP n false s evs) :=
  Lemmas.Deepen3.runP_rel n evs s s hq ⟨rfl, rfl, vEq_refl s.V⟩

-- ------------------------------------------------------------------ ROUND 3: resumed tasks reach the same final store

/-- REMOVAL_RESUMES, full form (goal 3): one iteration of asyncRemove is the `Op` `opRemoveStep` whose ledger
    effect is C08's proved `Model.Remove.removeStep`; the worker is `removeLoop`. A crash between ANY two
    iterations (`removeLoop_split`: the uninterrupted removal = its first k iterations, then the rest from the
    state they reached), at a quiet point: Start succeeds without touching the store, the task is queued again,
    the restarted worker reads the same script hashes from the reloaded cache, and for every number of remaining
    iterations the resumed removal ends with EXACTLY the store of the uninterrupted one. (C08's `remove_resumes` /
    `run_done_clean` say that this common run terminates and erases the wallet.) -/
theorem removal_resumes_same (limit nR n : Nat) (env : Env) (w : Wid) (P : PStore) (V : PVol) (stt : WStatus)
    (hk : V.keys = P.ks) (hq : env.node.tipHeight = P.led.syncedTo) (ht : tipOnB env P = true)
    (hst : (w, stt) ∈ P.led.status) (hr : stt.removed = true) :
    (crash env n P).ok = true ∧ (crash env n P).P = P ∧ Task.rem w ∈ (crash env n P).V.tasks ∧
    Lemmas.Deepen3.addrsOf (crash env n P).V.keys w = Lemmas.Deepen3.addrsOf V.keys w ∧
    ∀ f, (Lemmas.Deepen3.removeLoop limit nR env w (Lemmas.Deepen3.addrsOf (crash env n P).V.keys w) f P (crash env n P).V).map (·.1) =
      (Lemmas.Deepen3.removeLoop limit nR env w (Lemmas.Deepen3.addrsOf V.keys w) f P V).map (·.1) :=
  Lemmas.Deepen3.removal_resumes_same limit nR n env w P V stt hk hq ht hst hr

theorem removal_split (limit nR : Nat) (env : Env) (w : Wid) (addrs : List Addr) (k m : Nat) (P Pk : PStore) (V Vk : PVol)
    (h : Lemmas.Deepen3.removePrefix limit nR env w addrs k P V = some (Pk, Vk)) :
    Lemmas.Deepen3.removeLoop limit nR env w addrs (k + m) P V = Lemmas.Deepen3.removeLoop limit nR env w addrs m Pk Vk :=
  Lemmas.Deepen3.removeLoop_split limit nR env w addrs k m P Pk V Vk h

/-- … from the start of the task: a removal started at a quiet point and interrupted by a crash after ANY number
    `k` of iterations (`removePrefix_frame`: a non-finishing iteration leaves keystore, cache, status, height table
    and synced-to alone — C08's `removeRelevantTx_spec` — so the state reached is again a quiet point): the resumed
    removal ends, for every `m`, with exactly the store of the uninterrupted `removeLoop (k + m)` from the start -/
theorem removal_resumes_anywhere (limit nR n : Nat) (env : Env) (w : Wid) (P0 : PStore) (V0 : PVol)
    (stt : WStatus) (r : KsRec) (hk : V0.keys = P0.ks) (hr : AMap.get P0.ks w = some r)
    (hq : env.node.tipHeight = P0.led.syncedTo) (ht : tipOnB env P0 = true)
    (hst : (w, stt) ∈ P0.led.status) (hrm : stt.removed = true)
    (k : Nat) (Pk : PStore) (Vk : PVol)
    (hpre : Lemmas.Deepen3.removePrefix limit nR env w (Lemmas.Deepen3.addrsOf V0.keys w) k P0 V0 = some (Pk, Vk)) :
    (crash env n Pk).ok = true ∧ (crash env n Pk).P = Pk ∧ Task.rem w ∈ (crash env n Pk).V.tasks ∧
    ∀ m, (Lemmas.Deepen3.removeLoop limit nR env w (Lemmas.Deepen3.addrsOf (crash env n Pk).V.keys w) m Pk
            (crash env n Pk).V).map (·.1) =
         (Lemmas.Deepen3.removeLoop limit nR env w (Lemmas.Deepen3.addrsOf V0.keys w) (k + m) P0 V0).map (·.1) :=
  Lemmas.Deepen3.removal_resumes_anywhere limit nR n env w P0 V0 stt r hk hr hq ht hst hrm k Pk Vk hpre

/-- the same for a rescan: interrupted after ANY number `k` of batches (`importStep_frame`: a batch never writes
    the height table or synced-to and keeps the wallet's `removed` flag; the tip copy is not moved) -/
theorem import_resumes_anywhere (batch n : Nat) (env : Env) (w : Wid) (P0 : PStore) (V0 : PVol)
    (ws : WStatus) (hb : BestInv P0 V0) (hk : V0.keys = P0.ks) (hq : env.node.tipHeight = P0.led.syncedTo)
    (ht : tipOnB env P0 = true) (hws : AMap.get P0.led.status w = some ws) (hrm : ws.removed = false)
    (k : Nat) (Pk : PStore) (Vk : PVol) (hpre : Lemmas.Deepen3.importPrefix batch n env w k P0 V0 = some (Pk, Vk))
    (hnd : Lemmas.Deepen3.importDone Pk w = false) :
    (crash env n Pk).ok = true ∧ (crash env n Pk).P = Pk ∧ Task.imp w ∈ (crash env n Pk).V.tasks ∧
    ∀ m, (Lemmas.Deepen3.importLoop batch n env w m Pk (crash env n Pk).V).map (·.1) =
         (Lemmas.Deepen3.importLoop batch n env w (k + m) P0 V0).map (·.1) :=
  Lemmas.Deepen3.import_resumes_anywhere batch n env w P0 V0 ws hb hk hq ht hws hrm k Pk Vk hpre hnd

/-- IMPORT_RESUMES, full form: one batch of asyncImport is the `Op` `opImportStep` (ledger effect = C07's
    `Model.Import.importStep`); a crash between any two batches at a quiet point: the task is queued again and
    the resumed rescan ends, for every number of remaining batches, with exactly the store of the uninterrupted
    one (`import_run_exact` of C07 says what that store has scanned). -/
theorem import_resumes_same (batch n : Nat) (env : Env) (w : Wid) (P : PStore) (V : PVol) (stt : WStatus)
    (hb : BestInv P V) (hk : V.keys = P.ks) (hq : env.node.tipHeight = P.led.syncedTo) (ht : tipOnB env P = true)
    (hst : (w, stt) ∈ P.led.status) (hr : stt.removed = false) (hi : stt.synced.isSome = true) :
    (crash env n P).ok = true ∧ (crash env n P).P = P ∧ Task.imp w ∈ (crash env n P).V.tasks ∧
    ∀ f, (Lemmas.Deepen3.importLoop batch n env w f P (crash env n P).V).map (·.1) =
      (Lemmas.Deepen3.importLoop batch n env w f P V).map (·.1) :=
  Lemmas.Deepen3.import_resumes_same batch n env w P V stt hb hk hq ht hst hr hi

theorem import_split (batch n : Nat) (env : Env) (w : Wid) (k m : Nat) (P Pk : PStore) (V Vk : PVol)
    (h : Lemmas.Deepen3.importPrefix batch n env w k P V = some (Pk, Vk)) :
    Lemmas.Deepen3.importLoop batch n env w (k + m) P V = Lemmas.Deepen3.importLoop batch n env w m Pk Vk :=
  Lemmas.Deepen3.importLoop_split batch n env w k m P Pk V Vk h


-- ------------------------------------------------------------------ ROUND 4: histories with background tasks

open MW.Lemmas.Deepen3 MW.Lemmas.Deepen4 in
/-- **crash_tasks_inv** (round 4).  The world of `crash_equiv` with the worker's tasks as events (`EvT`): ImportWallet
    (`importStart`: keystore bucket, cache entry, status "importing from 0", address records — one Update — then the
    rescan is queued), one batch of the rescan (`importStep` = `opImportStep`, C07's `importStep`), RemoveWallet
    (`removeMark`), one iteration of the removal (`removeStep` = `opRemoveStep`, C08's `removeStep`), the worker running
    its task to the end (`importDrain` / `removeDrain`).  The worker runs a task only if it is in its queue
    (`PVol.tasks`) — after a crash: only because Start's `initTaskChan` put it there again.  EVERY event keeps the
    invariant `JT`, in the crashing run and in the run that never stops: outside a task window round 3's `JQ`; inside
    an import window `JI` = C07's joined invariant `IJ` for the chain the store follows (the ready wallets' books for
    all of it, the restored wallet's books up to its cursor), exact key cache, the rescan queued whenever the stored
    status says "importing"; inside a removal window `JR` = C08's in-progress invariant `Mid`, the wallet flagged, the
    removal queued — or, after the finishing iteration, `JQ` for the table without the wallet. -/
theorem crash_tasks_inv {cfg : Cfg} {G : Block} (E : StaticOK cfg.st G) (hG : G.txs = []) (hb : cfg.batch > 0)
    (hl : cfg.limit > 0) (cr : Bool)
    (evs : List EvT) (x : SysQ) (k : SkelT) (hJ : JT cfg G x k) (hR : RunOKT cfg G k evs) (hg : GuardT cfg cr x evs) :
    JT cfg G (runT cfg cr x evs) (skRunT cfg k evs) := JT_run E hG hb hl cr evs x k hJ hR hg

open MW.Lemmas.Deepen3 MW.Lemmas.Deepen4 in
/-- **crash_equiv_tasks** (round 4) — `crash_equiv` for histories WITH import / removal events.  One history of node
    events (extend, reorganise to any branch), handler steps, CreateWallet, NewAddress, unconfirmed transactions, task
    events and `crash` events, run with every crash executed (store kept, volatile state rebuilt by boot, notification
    queue lost, the real Start: resync, catch-up, `initTaskChan`) and with the crashes ignored.  If every task window of
    the history has been closed (no task pending: `busy = none`) and the run that never stops has no notification
    pending, then neither has the crashing run, and the two hold the SAME keystore buckets and key cache, tip copy and
    synced-to height, extensionally equal confirmed buckets and equal balances; every wallet is ready in both.
    INTERLEAVINGS COVERED (`StepOKT`, `WindowOK`): one task at a time (the code answers ErrTooManyTask to a second);
    inside an IMPORT window: crashes at ANY commit boundary — follower lagging, on a stale branch, rescan at any cursor —
    node extensions and reorganisations to any branch (above / at / below the cursor), batches against a node that has
    moved on (put off by the followed-chain check), unconfirmed transactions, handler steps for ANY queued
    notification — stale ones included (they fail and change nothing, or roll back onto the followed chain) —
    CreateWallet, NewAddress of any wallet but the one being restored (for which the code refuses it); inside a REMOVAL
    window: node events, iterations, crashes while no notification is pending, the drain (which provably terminates),
    CreateWallet (under another name), NewAddress of the other wallets, unconfirmed transactions that are in no chain
    the node has had — no handler step and no crash with a non-empty catch-up (C08 has no follower theorem for a partly
    deleted wallet).  STATE HYPOTHESIS (`GuardT`, for removals only): at RemoveWallet no unmined credit belongs
    to a transaction of the followed chain (C08's open follower invariant `pendOff`; its other one, one credit entry per
    key, is carried by `JT`: `credNodup_stepT`). -/
theorem crash_equiv_tasks {cfg : Cfg} {G : Block} (E : StaticOK cfg.st G) (hG : G.txs = []) (hb : cfg.batch > 0)
    (hl : cfg.limit > 0) (evs : List EvT) (x0 : SysQ) (k0 : SkelT) (hJ : JT cfg G x0 k0) (hR : RunOKT cfg G k0 evs)
    (hg1 : GuardT cfg true x0 evs) (hg2 : GuardT cfg false x0 evs)
    (hidle : (skRunT cfg k0 evs).busy = none) (hq : (runT cfg false x0 evs).queue = []) :
    (runT cfg true x0 evs).queue = [] ∧
    (runT cfg true x0 evs).chain = (runT cfg false x0 evs).chain ∧
    (runT cfg true x0 evs).P.ks = (runT cfg false x0 evs).P.ks ∧
    (runT cfg true x0 evs).V.keys = (runT cfg false x0 evs).V.keys ∧
    AMap.Equiv (runT cfg true x0 evs).P.led.credits (runT cfg false x0 evs).P.led.credits ∧
    AMap.Equiv (runT cfg true x0 evs).P.led.unspent (runT cfg false x0 evs).P.led.unspent ∧
    AMap.Equiv (runT cfg true x0 evs).P.led.debits (runT cfg false x0 evs).P.led.debits ∧
    AMap.Equiv (runT cfg true x0 evs).P.led.game (runT cfg false x0 evs).P.led.game ∧
    AMap.Equiv (runT cfg true x0 evs).P.led.txrecs (runT cfg false x0 evs).P.led.txrecs ∧
    AMap.Equiv (runT cfg true x0 evs).P.led.blocks (runT cfg false x0 evs).P.led.blocks ∧
    AMap.Equiv (runT cfg true x0 evs).P.led.sync (runT cfg false x0 evs).P.led.sync ∧
    (runT cfg true x0 evs).P.led.syncedTo = (runT cfg false x0 evs).P.led.syncedTo ∧
    (runT cfg true x0 evs).V.led.best = (runT cfg false x0 evs).V.led.best ∧
    (∀ w ∈ walletsOf (runT cfg false x0 evs).P.ks,
      AMap.get (runT cfg true x0 evs).P.led.balance w = AMap.get (runT cfg false x0 evs).P.led.balance w ∧
      Lemmas.Deepen3.readyB (runT cfg true x0 evs).P.led w = true ∧
      Lemmas.Deepen3.readyB (runT cfg false x0 evs).P.led w = true) :=
  Lemmas.Deepen4.crash_equiv_tasks E hG hb hl evs x0 k0 hJ hR hg1 hg2 hidle hq

open MW.Lemmas.Deepen3 MW.Lemmas.Deepen4 in
/-- **crash_equiv_tasks_quiet** (round 4) — the same at ANY quiet point, also inside a task window the history has not
    closed: whenever the run that never stops has nothing queued and in BOTH runs no task is pending (`IdleAt`: the
    wallet of the open window is finished according to the STORE — status ready resp. status entry gone), the crashing
    run has nothing queued either and the two agree on everything confirmed.  That the crashing run is finished when
    the other one is cannot be concluded from the history alone: at the same event index the two may be at different
    points of the rescan (`MW.Lemmas.Deepen4.exEvsT`: events 14 vs 18), which is why it is asked of both. -/
theorem crash_equiv_tasks_quiet {cfg : Cfg} {G : Block} (E : StaticOK cfg.st G) (hG : G.txs = []) (hb : cfg.batch > 0)
    (hl : cfg.limit > 0) (evs : List EvT) (x0 : SysQ) (k0 : SkelT) (hJ : JT cfg G x0 k0) (hR : RunOKT cfg G k0 evs)
    (hg1 : GuardT cfg true x0 evs) (hg2 : GuardT cfg false x0 evs)
    (hidle1 : IdleAt (runT cfg true x0 evs) (skRunT cfg k0 evs).busy)
    (hidle2 : IdleAt (runT cfg false x0 evs) (skRunT cfg k0 evs).busy)
    (hq : (runT cfg false x0 evs).queue = []) :
    (runT cfg true x0 evs).queue = [] ∧
    (runT cfg true x0 evs).chain = (runT cfg false x0 evs).chain ∧
    (runT cfg true x0 evs).P.ks = (runT cfg false x0 evs).P.ks ∧
    (runT cfg true x0 evs).V.keys = (runT cfg false x0 evs).V.keys ∧
    AMap.Equiv (runT cfg true x0 evs).P.led.credits (runT cfg false x0 evs).P.led.credits ∧
    AMap.Equiv (runT cfg true x0 evs).P.led.unspent (runT cfg false x0 evs).P.led.unspent ∧
    AMap.Equiv (runT cfg true x0 evs).P.led.debits (runT cfg false x0 evs).P.led.debits ∧
    AMap.Equiv (runT cfg true x0 evs).P.led.game (runT cfg false x0 evs).P.led.game ∧
    AMap.Equiv (runT cfg true x0 evs).P.led.txrecs (runT cfg false x0 evs).P.led.txrecs ∧
    AMap.Equiv (runT cfg true x0 evs).P.led.blocks (runT cfg false x0 evs).P.led.blocks ∧
    AMap.Equiv (runT cfg true x0 evs).P.led.sync (runT cfg false x0 evs).P.led.sync ∧
    (runT cfg true x0 evs).P.led.syncedTo = (runT cfg false x0 evs).P.led.syncedTo ∧
    (runT cfg true x0 evs).V.led.best = (runT cfg false x0 evs).V.led.best ∧
    (∀ w ∈ walletsOf (runT cfg false x0 evs).P.ks,
      AMap.get (runT cfg true x0 evs).P.led.balance w = AMap.get (runT cfg false x0 evs).P.led.balance w ∧
      Lemmas.Deepen3.readyB (runT cfg true x0 evs).P.led w = true ∧
      Lemmas.Deepen3.readyB (runT cfg false x0 evs).P.led w = true) :=
  Lemmas.Deepen4.crash_equiv_tasks_quiet E hG hb hl evs x0 k0 hJ hR hg1 hg2 hidle1 hidle2 hq

open MW.Lemmas.Deepen3 MW.Lemmas.Deepen4 in
/-- **worker_runs_queued** (round 4).  `stepT` lets the worker look at the stored status as well as at its queue (a queued
    task of a ready / absent wallet is skipped).  On every reachable state that second test is implied by the first:
    `StatOK` — one status entry per wallet, only stored keystores have one, every queued task is for an unfinished
    wallet, no wallet is queued for a rescan and a removal at once — is kept by EVERY event from ANY state (no other
    invariant needed; crashes included: `initTaskChan` re-queues exactly the unfinished wallets), hence the world `runU`
    whose worker runs whatever is queued IS `runT`. -/
theorem worker_runs_queued (cfg : Cfg) (cr : Bool) (x : SysQ) (evs : List EvT) (h : StatOK x) :
    StatOK (runT cfg cr x evs) ∧ runU cfg cr x evs = runT cfg cr x evs :=
  ⟨statOK_runT cfg cr x evs h, runU_eq_runT cfg cr x evs h⟩

open MW.Lemmas.Deepen3 MW.Lemmas.Deepen4 in
/-- **crash_equiv_tasks_unguarded** (round 4): `crash_equiv_tasks_quiet` (hence `crash_equiv_tasks`) for the world whose
    worker runs whatever is queued -/
theorem crash_equiv_tasks_unguarded {cfg : Cfg} {G : Block} (E : StaticOK cfg.st G) (hG : G.txs = []) (hb : cfg.batch > 0)
    (hl : cfg.limit > 0) (evs : List EvT) (x0 : SysQ) (k0 : SkelT) (hJ : JT cfg G x0 k0) (hS : StatOK x0)
    (hR : RunOKT cfg G k0 evs) (hg1 : GuardT cfg true x0 evs) (hg2 : GuardT cfg false x0 evs)
    (hidle1 : IdleAt (runU cfg true x0 evs) (skRunT cfg k0 evs).busy)
    (hidle2 : IdleAt (runU cfg false x0 evs) (skRunT cfg k0 evs).busy)
    (hq : (runU cfg false x0 evs).queue = []) :
    (runU cfg true x0 evs).queue = [] ∧
    (runU cfg true x0 evs).chain = (runU cfg false x0 evs).chain ∧
    (runU cfg true x0 evs).P.ks = (runU cfg false x0 evs).P.ks ∧
    (runU cfg true x0 evs).V.keys = (runU cfg false x0 evs).V.keys ∧
    AMap.Equiv (runU cfg true x0 evs).P.led.credits (runU cfg false x0 evs).P.led.credits ∧
    AMap.Equiv (runU cfg true x0 evs).P.led.unspent (runU cfg false x0 evs).P.led.unspent ∧
    AMap.Equiv (runU cfg true x0 evs).P.led.debits (runU cfg false x0 evs).P.led.debits ∧
    AMap.Equiv (runU cfg true x0 evs).P.led.game (runU cfg false x0 evs).P.led.game ∧
    AMap.Equiv (runU cfg true x0 evs).P.led.txrecs (runU cfg false x0 evs).P.led.txrecs ∧
    AMap.Equiv (runU cfg true x0 evs).P.led.blocks (runU cfg false x0 evs).P.led.blocks ∧
    AMap.Equiv (runU cfg true x0 evs).P.led.sync (runU cfg false x0 evs).P.led.sync ∧
    (runU cfg true x0 evs).P.led.syncedTo = (runU cfg false x0 evs).P.led.syncedTo ∧
    (runU cfg true x0 evs).V.led.best = (runU cfg false x0 evs).V.led.best ∧
    (∀ w ∈ walletsOf (runU cfg false x0 evs).P.ks,
      AMap.get (runU cfg true x0 evs).P.led.balance w = AMap.get (runU cfg false x0 evs).P.led.balance w ∧
      Lemmas.Deepen3.readyB (runU cfg true x0 evs).P.led w = true ∧
      Lemmas.Deepen3.readyB (runU cfg false x0 evs).P.led w = true) :=
  Lemmas.Deepen4.crash_equiv_tasks_unguarded E hG hb hl evs x0 k0 hJ hS hR hg1 hg2 hidle1 hidle2 hq

open MW.Lemmas.Deepen3 MW.Lemmas.Deepen4 in
/-- a history of round-3 events is a history of this world: `crash_equiv` is the task-free instance -/
theorem crash_equiv_tasks_conservative (cfg : Cfg) (cr : Bool) (evs : List EvQ) (x : SysQ) :
    runT cfg cr x (evs.map EvT.q) = runQ cfg.st cfg.n cr x evs := runT_q cfg cr evs x

open MW.Lemmas.Deepen3 MW.Lemmas.Deepen4 in
/-- **import_window_crash** (round 4): a crash at ANY commit boundary of an import window: boot + Start succeed, the
    restarted wallet follows the node's whole chain in the joined sense (cursor pulled back where the catch-up
    reorganised below it), nothing is queued, and the rescan is in the worker's queue again -/
theorem import_window_crash {cfg : Cfg} {G : Block} (E : StaticOK cfg.st G) {x : SysQ} {k : Skel} {w : Wid}
    (hJ : JI cfg G x k w) :
    JI cfg G (stepQ cfg.st cfg.n true x .crash) k w ∧ (stepQ cfg.st cfg.n true x .crash).queue = [] ∧
    (crash (envAt cfg.st x.chain) cfg.n x.P).ok = true := JI_crash E hJ

open MW.Lemmas.Deepen3 MW.Lemmas.Deepen4 MW.Lemmas.ImportJoin in
/-- **crash_during_start_import** (round 4): a crash DURING Start inside an import window — between any two commits of
    its resync / catch-up (`SInvJ`: the store follows a prefix of the node's chain in the joined sense) — is again a
    state from which boot + Start succeed, reach the node's whole chain and queue the unfinished work: the commit
    boundaries inside Start are crash points too -/
theorem crash_during_start_import {st : Static} {G : Block} (E : StaticOK st G) {ks : AMap.T Wid KsRec}
    {chain : List Block} (hN : Lemmas.Ledger.ChainOK (lenv st ks) G chain) (n : Nat) {w : Wid} {s0 : Store} {h : Nat}
    {P : PStore} {V : PVol} (hS : SInvJ st ks chain w s0 h P V) (hKN : Lemmas.Ledger.KeysNodup (ownOf ks))
    (hw : w ∈ walletsOf ks) :
    (crash (envAt st chain) n P).ok = true ∧
    IJ ((lenv st ks).ctx chain) w (crash (envAt st chain) n P).P.led chain ∧
    (crash (envAt st chain) n P).V.led.best = Lemmas.Ledger.tipMeta chain ∧
    (crash (envAt st chain) n P).V.tasks = requeue (crash (envAt st chain) n P).P :=
  crash_during_start_ij E hN n hS hKN hw

open MW.Lemmas.Deepen3 MW.Lemmas.Deepen4 in
/-- **resumption_anywhere_full** (round 4).  The state `x` is the one ANY history reaches inside an import window —
    rescan at any cursor, follower lagging or on a branch the node has left, batches already put off, any number of
    earlier crashes at any commit boundaries.
    Run A is not interrupted: the follower works off its queue, then the worker finishes the rescan.  Run B crashes
    NOW: Start succeeds (resync, catch-up on the joined store), `initTaskChan` queues the rescan again, the worker
    finishes it.  Both end with nothing queued, the same keystore, key cache, tip copy, synced-to, extensionally equal
    confirmed buckets, equal balances, every wallet — the restored one included — ready. -/
theorem resumption_anywhere_full {cfg : Cfg} {G : Block} (E : StaticOK cfg.st G) (hG : G.txs = []) (hb : cfg.batch > 0)
    (hl : cfg.limit > 0) (evs : List EvT) (x0 : SysQ) (k0 : SkelT) (hJ : JT cfg G x0 k0) (hR : RunOKT cfg G k0 evs)
    (hg : GuardT cfg true x0 evs) (w : Wid) (hbusy : (skRunT cfg k0 evs).busy = some (.imp w))
    (fuel : Nat) (hfuel : (skRunT cfg k0 evs).base.chain.length + 1 ≤ fuel) :
    let x := runT cfg true x0 evs
    let A := stepT cfg false (handleAll cfg false x) (.importDrain w fuel)
    let B := stepT cfg true (stepQ cfg.st cfg.n true x .crash) (.importDrain w fuel)
    (crash (envAt cfg.st x.chain) cfg.n x.P).ok = true ∧
    B.queue = [] ∧ A.queue = [] ∧ B.chain = A.chain ∧ B.P.ks = A.P.ks ∧ B.V.keys = A.V.keys ∧
    AMap.Equiv B.P.led.credits A.P.led.credits ∧ AMap.Equiv B.P.led.unspent A.P.led.unspent ∧
    AMap.Equiv B.P.led.debits A.P.led.debits ∧ AMap.Equiv B.P.led.game A.P.led.game ∧
    AMap.Equiv B.P.led.txrecs A.P.led.txrecs ∧ AMap.Equiv B.P.led.blocks A.P.led.blocks ∧
    AMap.Equiv B.P.led.sync A.P.led.sync ∧ B.P.led.syncedTo = A.P.led.syncedTo ∧ B.V.led.best = A.V.led.best ∧
    (∀ w' ∈ walletsOf A.P.ks, AMap.get B.P.led.balance w' = AMap.get A.P.led.balance w' ∧
      Lemmas.Deepen3.readyB B.P.led w' = true ∧ Lemmas.Deepen3.readyB A.P.led w' = true) :=
  Lemmas.Deepen4.resumption_anywhere_full E hG hb hl evs x0 k0 hJ hR hg w hbusy fuel hfuel

open MW.Lemmas.Deepen3 MW.Lemmas.Deepen4 in
/-- … the same from any state that satisfies the window invariant (what the above instantiates) -/
theorem resumption_anywhere_import {cfg : Cfg} {G : Block} (E : StaticOK cfg.st G) (hb : cfg.batch > 0) {x : SysQ}
    {k : Skel} {w : Wid} (hJ : JI cfg G x k w) (hshort : ∀ c ∈ k.hist, c.length + cfg.batch < 2 ^ 64)
    (fuel : Nat) (hfuel : k.chain.length + 1 ≤ fuel) :
    (crash (envAt cfg.st x.chain) cfg.n x.P).ok = true ∧
    (importDone (stepQ cfg.st cfg.n true x .crash).P w = false →
      (stepQ cfg.st cfg.n true x .crash).V.tasks.contains (.imp w) = true) ∧
    JQ cfg.st G (stepT cfg false (handleAll cfg false x) (.importDrain w fuel)) k ∧
    JQ cfg.st G (stepT cfg true (stepQ cfg.st cfg.n true x .crash) (.importDrain w fuel)) k ∧
    (stepT cfg false (handleAll cfg false x) (.importDrain w fuel)).queue = [] ∧
    (stepT cfg true (stepQ cfg.st cfg.n true x .crash) (.importDrain w fuel)).queue = [] :=
  resumption_from_JI E hb hJ hshort fuel hfuel

open MW.Lemmas.Deepen3 MW.Lemmas.Deepen4 in
/-- **resumption_anywhere_remove** (round 4): a removal interrupted between ANY two iterations while no notification
    is pending — run A: the worker finishes; run B: crash now (Start leaves the store alone and queues the removal
    again), then the worker finishes.  Both loops complete (`removeLoop_total`: under C08's `Mid` no iteration fails and
    every non-finishing one deletes a credit of the wallet) and both end in round 3's invariant for the keystore table
    WITHOUT the wallet, with the same confirmed books. -/
theorem resumption_anywhere_remove {cfg : Cfg} {G : Block} (E : StaticOK cfg.st G) (hl : cfg.limit > 0) {x : SysQ}
    {k : Skel} {w : Wid} (hJ : JR cfg G x k w) (hq : x.queue = []) :
    let A := stepT cfg false x (.removeDrain w)
    let B := stepT cfg true (stepQ cfg.st cfg.n true x .crash) (.removeDrain w)
    B.queue = [] ∧ A.queue = [] ∧ B.chain = A.chain ∧ B.P.ks = A.P.ks ∧ B.V.keys = A.V.keys ∧
    AMap.Equiv B.P.led.credits A.P.led.credits ∧ AMap.Equiv B.P.led.unspent A.P.led.unspent ∧
    AMap.Equiv B.P.led.debits A.P.led.debits ∧ AMap.Equiv B.P.led.game A.P.led.game ∧
    AMap.Equiv B.P.led.txrecs A.P.led.txrecs ∧ AMap.Equiv B.P.led.blocks A.P.led.blocks ∧
    AMap.Equiv B.P.led.sync A.P.led.sync ∧ B.P.led.syncedTo = A.P.led.syncedTo ∧ B.V.led.best = A.V.led.best ∧
    (∀ w' ∈ walletsOf A.P.ks, AMap.get B.P.led.balance w' = AMap.get A.P.led.balance w' ∧
      Lemmas.Deepen3.readyB B.P.led w' = true ∧ Lemmas.Deepen3.readyB A.P.led w' = true) :=
  Lemmas.Deepen4.resumption_anywhere_remove E hl hJ hq

open MW.Lemmas.Deepen3 MW.Lemmas.Deepen4 in
/-- **removal_drain_total** (round 4): inside a removal window the worker's loop always completes (fuel = number of
    stored credits + 1) and closes the window -/
theorem removal_drain_total {cfg : Cfg} {G : Block} (hl : cfg.limit > 0) (cr : Bool) {x : SysQ} {k : Skel} {w : Wid}
    (hJ : JR cfg G x k w) :
    JQ cfg.st G (stepT cfg cr x (.removeDrain w)) { k with ks := AMap.erase k.ks w } := JR_removeDrain hl cr hJ

/-- NON-VACUITY of round 4 (`MW.Lemmas.Deepen4Ex`): G–b1–c2 / e2, ImportWallet w3 (manages "a3") with the follower at
    c2, one batch (cursor 1), the node reorganises to e2 (coinbase pays "a3" AND w1's "a2"), a batch is put off,
    CreateWallet w2, NewAddress w1, the node goes back to c2 and again to e2, CRASH (e2, c2, e2 queued in the run that
    never stops; wallet on c2, w3 importing from 1), batch, three handler steps (the second on a STALE notification),
    importDrain, RemoveWallet w1, one iteration (step size 1), CreateWallet w4, NewAddress w3, an unconfirmed
    transaction, CRASH, removeDrain: all hypotheses hold … -/
example : Lemmas.Deepen3.StaticOK Lemmas.Deepen4.exCfg.st Lemmas.Ledger.hxG := Lemmas.Deepen4.ex4StaticOK
example : Lemmas.Deepen4.JT Lemmas.Deepen4.exCfg Lemmas.Ledger.hxG Lemmas.Deepen3.exX0 Lemmas.Deepen4.exK0T :=
  Lemmas.Deepen4.exJT0
example : Lemmas.Deepen4.RunOKT Lemmas.Deepen4.exCfg Lemmas.Ledger.hxG Lemmas.Deepen4.exK0T Lemmas.Deepen4.exEvsT :=
  Lemmas.Deepen4.exRunOKT
example (cr : Bool) : Lemmas.Deepen4.GuardT Lemmas.Deepen4.exCfg cr Lemmas.Deepen3.exX0 Lemmas.Deepen4.exEvsT :=
  Lemmas.Deepen4.exGuard cr
example : Lemmas.Deepen4.StatOK Lemmas.Deepen3.exX0 := Lemmas.Deepen4.exStatOK0
example : (Lemmas.Deepen4.skRunT Lemmas.Deepen4.exCfg Lemmas.Deepen4.exK0T Lemmas.Deepen4.exEvsT).busy = none ∧
    (Lemmas.Deepen4.runT Lemmas.Deepen4.exCfg false Lemmas.Deepen3.exX0 Lemmas.Deepen4.exEvsT).queue = [] :=
  ⟨by rw [Lemmas.Deepen4.exSkelT], Lemmas.Deepen4.exQuietTT⟩
/-- … `crash_equiv_tasks_quiet` inside the OPEN import window (17 events, then one more batch: both runs finished, the
    skeleton still busy) -/
example : (Lemmas.Deepen4.skRunT Lemmas.Deepen4.exCfg Lemmas.Deepen4.exK0T Lemmas.Deepen4.exEvsW).busy = some (.imp "w3") ∧
    (Lemmas.Deepen4.runT Lemmas.Deepen4.exCfg true Lemmas.Deepen3.exX0 Lemmas.Deepen4.exEvsW).queue = [] :=
  ⟨by rfl, Lemmas.Deepen4.exEquivW.1⟩
/-- … and the crash at event 13 is taken at a non-quiet point inside the import window (the two runs differ there:
    the crashing run has reorganised onto e2 inside Start, kept the rescan's cursor and has the rescan queued again);
    at the end w2, w3 and w4 are the only wallets, w3 ready with the coin the rescan picked up -/
example : (Lemmas.Deepen4.runT Lemmas.Deepen4.exCfg false Lemmas.Deepen3.exX0 (Lemmas.Deepen4.exEvsT.take 13)).V.led.best = ⟨2, "c2"⟩ ∧
    (Lemmas.Deepen4.runT Lemmas.Deepen4.exCfg true Lemmas.Deepen3.exX0 (Lemmas.Deepen4.exEvsT.take 13)).V.led.best = ⟨2, "e2"⟩ ∧
    (Lemmas.Deepen4.runT Lemmas.Deepen4.exCfg true Lemmas.Deepen3.exX0 (Lemmas.Deepen4.exEvsT.take 13)).V.tasks = [.imp "w3"] ∧
    (Lemmas.Deepen4.runT Lemmas.Deepen4.exCfg true Lemmas.Deepen3.exX0 Lemmas.Deepen4.exEvsT).P.ks = Lemmas.Deepen4.exKsE ∧
    AMap.get (Lemmas.Deepen4.runT Lemmas.Deepen4.exCfg true Lemmas.Deepen3.exX0 Lemmas.Deepen4.exEvsT).P.led.balance "w3" = some 30 := by
  decide

-- ------------------------------------------------------------------ non-vacuity

def g : Block := ⟨"G", "", 0, []⟩
def b1 : Block := ⟨"B1", "G", 1, []⟩
def nd1 : Node := { chain := [g, b1], known := [("G", g), ("B1", b1)] }
def s0 : Sys := ⟨{ node := { chain := [g], known := [("G", g)] } }, {}, {}⟩

/-- a history with a creation, an address, a block and two crashes at quiet points -/
def hist : List Ev := [.create "W1", .crash, .newAddr "W1" false, .node nd1, .block b1, .crash, .newAddr "W1" true]

example : crashesQuiet 2 s0 hist = true := by decide
example : quiet s0 = true := by decide
example : (runEvs 2 true s0 hist).P.led.syncedTo = 1 ∧ ((runEvs 2 true s0 hist).P.ks.map (fun e => e.2.next)) = [2] := by decide
/-- … and a crash while the follower lags one block behind: the catch-up processes it -/
example : (crash { s0.env with node := nd1 } 2 s0.P).ok = true ∧ (crash { s0.env with node := nd1 } 2 s0.P).P.led.syncedTo = 1 ∧
    (crash { s0.env with node := nd1 } 2 s0.P).commits = 2 := by decide
example : BestInv s0.P s0.V ∧ SyncWf s0.P := ⟨⟨rfl, rfl⟩, rfl⟩


/-- ROUND 3 — the hypotheses of `removal_resumes_same` / `import_resumes_same` are satisfiable: a wallet flagged for
    removal (resp. importing) in a store at a quiet point; the crash re-queues the task, and the resumed worker
    finishes the removal -/
def sRem : Sys := runEvs 2 false s0 [.create "W1", .removeMark "W1"]
example : sRem.V.keys = sRem.P.ks ∧ sRem.env.node.tipHeight = sRem.P.led.syncedTo ∧ tipOnB sRem.env sRem.P = true ∧
    (("W1", ⟨none, true⟩) : Wid × WStatus) ∈ sRem.P.led.status := by decide
example : Task.rem "W1" ∈ (crash sRem.env 2 sRem.P).V.tasks ∧
    ((Lemmas.Deepen3.removeLoop 10 2 sRem.env "W1" (Lemmas.Deepen3.addrsOf (crash sRem.env 2 sRem.P).V.keys "W1") 3 sRem.P
      (crash sRem.env 2 sRem.P).V).map (fun r => r.1.ks)) = some [] := by decide
def pImp : PStore :=
  { led := { sync := [(0, "G")], syncedTo := 0, status := [("W9", ⟨some 0, false⟩)], balance := [("W9", 0)] },
    ks := [("W9", { next := 1, addrs := [(0, "a9")] })] }
example : BestInv pImp (bootVol pImp) ∧ (bootVol pImp).keys = pImp.ks ∧ s0.env.node.tipHeight = pImp.led.syncedTo ∧
    tipOnB s0.env pImp = true ∧ (("W9", ⟨some 0, false⟩) : Wid × WStatus) ∈ pImp.led.status :=
  ⟨(⟨rfl, rfl⟩ : BestInv pImp (bootVol pImp)), rfl, rfl, rfl, by decide⟩


/-- the hypotheses of `crash_start_reaches` / `crash_during_start` are satisfiable: wallet w1 at genesis (books of
    `[G]`, resp. the Start state `SInv … 0`), node at G–b1–d2: boot + Start catch up two blocks -/
example : (crash (Lemmas.Deepen3.envAt Lemmas.Deepen3.exSt [Lemmas.Ledger.hxG, Lemmas.Ledger.hxB1, Lemmas.Ledger.ixD2]) 1
    Lemmas.Deepen3.exX0.P).ok = true :=
  (crash_start_reaches Lemmas.Deepen3.exStaticOK
    (Lemmas.Deepen3.exOK Lemmas.Deepen3.exKs0 Lemmas.Ledger.ixD2 (Or.inl rfl) Lemmas.Deepen3.exValid0) 1 rfl
    ((Lemmas.Ledger.inv_env_chain (Lemmas.Deepen3.lenv Lemmas.Deepen3.exSt Lemmas.Deepen3.exKs0) _ _).1 Lemmas.Deepen3.exInv0)
    ((Lemmas.Deepen3.exOK Lemmas.Deepen3.exKs0 Lemmas.Ledger.ixD2 (Or.inl rfl) Lemmas.Deepen3.exValid0).take 0)
    Lemmas.Deepen3.exAllReady0 (by decide)).1
example : Lemmas.Deepen3.SInv Lemmas.Deepen3.exSt Lemmas.Deepen3.exKs0
    [Lemmas.Ledger.hxG, Lemmas.Ledger.hxB1, Lemmas.Ledger.ixD2] Lemmas.Ledger.obS0 0 Lemmas.Deepen3.exX0.P
    Lemmas.Deepen3.exX0.V :=
  ⟨rfl, rfl, (Lemmas.Ledger.inv_env_chain (Lemmas.Deepen3.lenv Lemmas.Deepen3.exSt Lemmas.Deepen3.exKs0) _ _).1
    Lemmas.Deepen3.exInv0, rfl, by decide, fun _ => rfl⟩
/-- … of `crash_equiv_pending`: creation, quiet crash, an unconfirmed transaction new to both seen-sets, another
    quiet crash -/
example : Lemmas.Deepen3.okP 2 s0 s0 [.ev (.create "W1"), .ev .crash, .recvTx ⟨"u9", false, [⟨"zz", 0, 0⟩], [⟨"W1/0", 5, .std⟩]⟩,
    .ev (.newAddr "W1" false), .ev .crash] = true := by decide
/-- … of `removal_resumes_anywhere` / `import_resumes_anywhere` (k = 0 is the quiet starting point itself; k ≥ 1
    needs a wallet with more credits than the step size) -/
example : Lemmas.Deepen3.removePrefix 10 2 sRem.env "W1" (Lemmas.Deepen3.addrsOf sRem.V.keys "W1") 0 sRem.P sRem.V =
    some (sRem.P, sRem.V) ∧ AMap.get sRem.P.ks "W1" = some {} := ⟨rfl, by decide⟩
example : Lemmas.Deepen3.importPrefix 1000 2 s0.env "W9" 0 pImp (bootVol pImp) = some (pImp, bootVol pImp) ∧
    Lemmas.Deepen3.importDone pImp "W9" = false ∧ AMap.get pImp.led.status "W9" = some ⟨some 0, false⟩ :=
  ⟨rfl, by decide, by decide⟩

-- ------------------------------------------------------------------ Round 5: handler steps and non-quiet crashes inside a REMOVAL window
section Round5
open MW.Lemmas.Deepen3 MW.Lemmas.Deepen4 MW.Lemmas.Deepen5

/-- **jt_removal_window_handler_step** (round 5).  The invariant `JTW` = round 4's `JT` with the phase of a removal
    window generalised from C08's `Mid` to C08 round 7's relaxed state (`JRmidW`: a ghost store following the chain with
    the wallet flagged, the real store related by `SubW`, `Reach`, `MidCW` — `P2W`).  ONE HANDLER STEP inside a removal
    window keeps it: the follower handles the next queued notification — a block of the node's chain at ANY height
    (extension; reorganisation of any depth, also below the height at which the wallet was flagged) — on the partly
    deleted wallet.  Hypotheses, both C08's (`DomW` / `irun … = some x`): the block is on the node's chain (no stale
    notification), and — asked of the LAST queued notification only: a failing transaction changes nothing (one Update),
    which keeps the invariant while another notification is queued — its database transaction succeeds (C08 leaves open whether the follower can fail on
    stale entries of the wallet being removed). -/
theorem jt_removal_window_handler_step {cfg : Cfg} {G : Block} (E : StaticOK cfg.st G) (cr : Bool) {x : SysQ}
    {k : SkelT} {w : Wid} (hJ : JTW cfg G x k) (hbusy : k.busy = some (.rem w))
    (hon : ∀ b, x.queue.head? = some b → k.base.chain[b.height]? = some b)
    (hok : ∀ b, x.queue = [b] →
      ((opBlock (envAt cfg.st k.base.chain) cfg.n b).run none x.P x.V).ok = true) :
    JTW cfg G (stepT cfg cr x (.q .handle)) (skStepT cfg k (.q .handle)) := JTW_handle E cr hJ hbusy hon hok

/-- **jt_removal_window_crash** (round 5): a crash inside a removal window at ANY point — the follower may lag or sit on
    a stale branch; Start's resync step and catch-up loop are handler steps on the relaxed state (`crash_reaches_p2w`),
    `initTaskChan` queues the removal again.  Hypothesis: Start succeeds (at a quiet point it does: round 4's
    `crash_quiet_store`).  Afterwards nothing is queued and the relaxed state holds for the node's WHOLE chain. -/
theorem jt_removal_window_crash {cfg : Cfg} {G : Block} (E : StaticOK cfg.st G) {x : SysQ} {k : Skel} {w : Wid}
    (hJ : JRW cfg G x k w) (hok : (Model.Persist.crash (envAt cfg.st k.chain) cfg.n x.P).ok = true) :
    JRW cfg G (stepQ cfg.st cfg.n true x .crash) k w ∧ (stepQ cfg.st cfg.n true x .crash).queue = [] :=
  JRW_crash E hJ hok

/-- RemoveWallet opens the window in the relaxed state (from round 3's `JQ`, same hypotheses as round 4), and one
    iteration of the removal keeps it under C08's pending-side clause `PendOK` (`DomW` asks it at the removal steps) -/
theorem jt_removal_window_open {cfg : Cfg} {G : Block} (cr : Bool) {x : SysQ} {k : Skel} (w : Wid) (hJ : JQ cfg.st G x k)
    (hw : (AMap.get k.ks w).isSome = true) (hne : ∀ r, AMap.get k.ks w = some r → r.addrs ≠ [])
    (hoth : ∃ w', w' ≠ w ∧ w' ∈ walletsOf k.ks) (hn : MW.Lemmas.Ledger.KeysNodup x.P.led.credits)
    (hg : RemGuard x.P) : JRmidW cfg G (stepT cfg cr x (.removeMark w)) k w :=
  JQ_removeMarkW cr w hJ hw hne hoth hn hg
theorem jt_removal_window_iteration {cfg : Cfg} {G : Block} (cr : Bool) {x : SysQ} {k : Skel} {w : Wid}
    (hJ : JRW cfg G x k w) (hp : PendGuard x.P (addrsOf k.ks w)) :
    JRW cfg G (stepT cfg cr x (.removeStep w)) k w := JRW_removeStep cr hJ hp

/-- **crash_tasks_inv_removal_window** (round 5): every event keeps `JTW`, along every history inside `RunOKW` /
    `GuardW`, in the crashing run and in the run that never stops. -/
theorem crash_tasks_inv_removal_window {cfg : Cfg} {G : Block} (E : StaticOK cfg.st G) (hG : G.txs = [])
    (hb : cfg.batch > 0) (hl : cfg.limit > 0) (cr : Bool) (evs : List EvT) (x : SysQ) (k : SkelT)
    (hJ : JTW cfg G x k) (hR : RunOKW cfg G k evs) (hg : GuardW cfg cr x k evs) :
    JTW cfg G (runT cfg cr x evs) (skRunT cfg k evs) := JTW_run E hG hb hl cr evs x k hJ hR hg

/-- **crash_equiv_tasks_removal_window** (round 5) — `crash_equiv_tasks` for histories whose REMOVAL WINDOWS contain
    HANDLER STEPS (tip notifications: extensions and reorganisations of any depth, handled on the partly deleted
    wallet) and CRASHES AT NON-QUIET POINTS (the follower lags or sits on a stale branch; Start catches up — a sequence
    of handler steps — and queues the removal again).  Same conclusion as `crash_equiv_tasks`: with every task window
    closed and nothing queued in the run that never stops, the crashing run has nothing queued either and holds the
    same keystore buckets, key cache, tip copy, synced-to, extensionally equal confirmed buckets, equal balances,
    every wallet ready.
    Outside a removal window the hypotheses are round 4's (`StepOKT`, `guardEv`).  INSIDE a removal window (`StepRem`,
    `guardRem`): node events (extensions, reorganisations to any branch), handler steps, unconfirmed transactions
    (ANY: round 4's "in no chain the node has had" is gone), crashes anywhere, iterations, the drain; explicit state
    hypotheses, all of them C08's (`DomW` and the success of the follower's transactions contained in `irun = some`):
    a handled block is on the node's chain (no stale notification inside a removal window) and — when it is the
    last queued one — its database transaction succeeds; Start succeeds at a crash; `PendOK` at every iteration and at the drain; the worker's loop
    completes at the drain (`JRW_removeDrain`; that no iteration fails is proved for round 4's `Mid` only).  NOT covered inside a
    removal window here (covered by `crash_equiv_tasks` for windows without handler steps): CreateWallet / NewAddress
    (no frame lemma of the relaxed state for a growing keystore table). -/
theorem crash_equiv_tasks_removal_window {cfg : Cfg} {G : Block} (E : StaticOK cfg.st G) (hG : G.txs = [])
    (hb : cfg.batch > 0) (hl : cfg.limit > 0) (evs : List EvT) (x0 : SysQ) (k0 : SkelT) (hJ : JTW cfg G x0 k0)
    (hR : RunOKW cfg G k0 evs) (hg1 : GuardW cfg true x0 k0 evs) (hg2 : GuardW cfg false x0 k0 evs)
    (hidle : (skRunT cfg k0 evs).busy = none) (hq : (runT cfg false x0 evs).queue = []) :
    (runT cfg true x0 evs).queue = [] ∧
    (runT cfg true x0 evs).chain = (runT cfg false x0 evs).chain ∧
    (runT cfg true x0 evs).P.ks = (runT cfg false x0 evs).P.ks ∧
    (runT cfg true x0 evs).V.keys = (runT cfg false x0 evs).V.keys ∧
    AMap.Equiv (runT cfg true x0 evs).P.led.credits (runT cfg false x0 evs).P.led.credits ∧
    AMap.Equiv (runT cfg true x0 evs).P.led.unspent (runT cfg false x0 evs).P.led.unspent ∧
    AMap.Equiv (runT cfg true x0 evs).P.led.debits (runT cfg false x0 evs).P.led.debits ∧
    AMap.Equiv (runT cfg true x0 evs).P.led.game (runT cfg false x0 evs).P.led.game ∧
    AMap.Equiv (runT cfg true x0 evs).P.led.txrecs (runT cfg false x0 evs).P.led.txrecs ∧
    AMap.Equiv (runT cfg true x0 evs).P.led.blocks (runT cfg false x0 evs).P.led.blocks ∧
    AMap.Equiv (runT cfg true x0 evs).P.led.sync (runT cfg false x0 evs).P.led.sync ∧
    (runT cfg true x0 evs).P.led.syncedTo = (runT cfg false x0 evs).P.led.syncedTo ∧
    (runT cfg true x0 evs).V.led.best = (runT cfg false x0 evs).V.led.best ∧
    (∀ w ∈ walletsOf (runT cfg false x0 evs).P.ks,
      AMap.get (runT cfg true x0 evs).P.led.balance w = AMap.get (runT cfg false x0 evs).P.led.balance w ∧
      Lemmas.Deepen3.readyB (runT cfg true x0 evs).P.led w = true ∧
      Lemmas.Deepen3.readyB (runT cfg false x0 evs).P.led w = true) :=
  Lemmas.Deepen5.crash_equiv_tasks_removal_window E hG hb hl evs x0 k0 hJ hR hg1 hg2 hidle hq

/-- the state hypotheses that are NOT about the success / shape of the follower's work: `RemGuard` at RemoveWallet (round 4)
    and C08's `PendOK` at the iterations -/
def guardEvW0 (cfg : Cfg) (x : SysQ) (k : SkelT) (ev : EvT) : Prop :=
  match k.busy, ev with
  | some (.rem w), .removeStep _ => PendGuard x.P (addrsOf k.base.ks w)
  | some (.rem w), .removeDrain _ => PendGuard x.P (addrsOf k.base.ks w)
  | some (.rem _), _ => True
  | _, ev => guardEv cfg x ev
def GuardW0 (cfg : Cfg) (cr : Bool) : SysQ → SkelT → List EvT → Prop
  | _, _, [] => True
  | x, k, ev :: evs => guardEvW0 cfg x k ev ∧ GuardW0 cfg cr (stepT cfg cr x ev) (skStepT cfg k ev) evs

/-- NOT PROVED (type-checked statement): `crash_equiv_tasks_removal_window` without the hypotheses inherited from C08's
    open items — success of the follower's transactions / of Start on the partly deleted wallet, no stale notification
    inside a removal window, completion of the worker's loop at the drain.  (Whether it holds depends on
    C08's open totality question: can Rollback fail on stale balance / deposit entries of the wallet being removed?) -/
def crash_equiv_tasks_removal_window_full : Prop :=
  ∀ {cfg : Cfg} {G : Block}, StaticOK cfg.st G → G.txs = [] → cfg.batch > 0 → cfg.limit > 0 →
    ∀ (evs : List EvT) (x0 : SysQ) (k0 : SkelT), JTW cfg G x0 k0 → RunOKW cfg G k0 evs →
      GuardW0 cfg true x0 k0 evs → GuardW0 cfg false x0 k0 evs →
      (skRunT cfg k0 evs).busy = none → (runT cfg false x0 evs).queue = [] →
      (runT cfg true x0 evs).queue = [] ∧
      (runT cfg true x0 evs).P.ks = (runT cfg false x0 evs).P.ks ∧
      (runT cfg true x0 evs).V.keys = (runT cfg false x0 evs).V.keys ∧
      AMap.Equiv (runT cfg true x0 evs).P.led.credits (runT cfg false x0 evs).P.led.credits ∧
      AMap.Equiv (runT cfg true x0 evs).P.led.unspent (runT cfg false x0 evs).P.led.unspent ∧
      AMap.Equiv (runT cfg true x0 evs).P.led.debits (runT cfg false x0 evs).P.led.debits ∧
      AMap.Equiv (runT cfg true x0 evs).P.led.txrecs (runT cfg false x0 evs).P.led.txrecs ∧
      (runT cfg true x0 evs).V.led.best = (runT cfg false x0 evs).V.led.best

/-- on histories inside round 4's hypotheses that open no removal window … the new invariant is the old one -/
example {cfg : Cfg} {G : Block} {x : SysQ} {k : SkelT} (h : JT cfg G x k) (hb : ∀ w, k.busy ≠ some (.rem w)) :
    JTW cfg G x k := JTW_of_JT h hb

/-- non-vacuity (`MW.Lemmas.Deepen5Ex`): extend b1 · handle · extend c2 · handle · CreateWallet w2 · RemoveWallet w1 · one
    iteration · reorgTo 1 [e2] · HANDLE (a reorganisation on the partly deleted wallet) · reorgTo 1 [c2] · CRASH (c2 queued
    in the run that never stops: non-quiet; Start reorganises back) · handle · removeDrain (the finishing iteration) — every
    hypothesis of `crash_equiv_tasks_removal_window` holds in both runs, and the theorem gives the agreement -/
example : JTW exCfg MW.Lemmas.Ledger.hxG exX0 exK0T ∧ RunOKW exCfg MW.Lemmas.Ledger.hxG exK0T exEvsR ∧
    (∀ cr, GuardW exCfg cr exX0 exK0T exEvsR) ∧ (skRunT exCfg exK0T exEvsR).busy = none ∧
    (runT exCfg false exX0 exEvsR).queue = [] :=
  ⟨exJTW0, exRunOKW, exGuardW, by rw [exSkelR], exQuietR⟩
example : (runT exCfg true exX0 exEvsR).queue = [] ∧
    (runT exCfg true exX0 exEvsR).P.ks = (runT exCfg false exX0 exEvsR).P.ks ∧
    AMap.Equiv (runT exCfg true exX0 exEvsR).P.led.credits (runT exCfg false exX0 exEvsR).P.led.credits ∧
    (runT exCfg true exX0 exEvsR).V.led.best = (runT exCfg false exX0 exEvsR).V.led.best := exEquivR

end Round5

end MW.Props.C06
