/-
  C06 — A crash at any instant loses nothing and applies nothing twice.   PROPERTY THEOREMS.
  Model: MW.Model.Persist (store × volatile state, `crash (P,V) = (P, boot P)`, Start catch-up);
  Spec: MW.Spec.Persist (histories `runEvs`, `CrashRel`, `BestInv`, `quiet`).
  What is proved at full strength and what only partially is said at each theorem; the full
  statements that are NOT proved are kept as `def …_full : Prop`.
-/
import MW.Lemmas.PersistCrash
namespace MW.Props.C06
open MW MW.Model.Ledger MW.Model.Persist MW.Spec.Persist MW.Lemmas.PersistOp MW.Lemmas.PersistFault MW.Lemmas.PersistCrash

-- ------------------------------------------------------------------ atomic_steps

/-- tie B: the Update call-site table of the code is the one the model is built on: ONE site per
    operation; the second site of asyncRemove and the site of Start sit in a loop (one commit per
    removal step / per fast-forwarded height). -/
theorem sites_expected : Gen.Updates.sites = expectedSites := rfl

/-- tie B: a commit is one unsynced LevelDB batch write; the tip copy is assigned after the commit
    only; initTaskChan re-queues; the fast-forward distance is the constant the model uses -/
theorem commit_shape : (Gen.Updates.commitIsOneUnsyncedWrite && Gen.Updates.bestBlockOnlyOnSuccess &&
    Gen.Updates.initTaskChanRequeues && Gen.Updates.fastForwardSetsBestBeforeUpdate) = true ∧
    Gen.Updates.ffGap = 2000 := ⟨rfl, rfl⟩

/-- atomic_steps: EVERY operation built around an Update (block, reorg, import / removal step,
    create, import, new address, marking, fast-forward step) performs at most one batch write,
    exactly one iff it succeeds, and none — leaving the store as it was — iff it fails; this holds
    under every fault index as well. So the commit boundaries of a history are exactly the
    boundaries of its successful operations. -/
theorem atomic_steps (o : Op) (f : Option Nat) (P : PStore) (V : PVol) :
    (o.run f P V).commits ≤ 1 ∧
    ((o.run f P V).commits = 1 ↔ (o.run f P V).ok = true) ∧
    ((o.run f P V).ok = false → (o.run f P V).P = P) := by
  refine ⟨run_commits_le o f P V, ?_, run_fail_store o f P V⟩
  rw [run_commits]
  cases (o.run f P V).ok <;> simp

/-- the unconfirmed-transaction path (not an `Op`: it may return before any Update) -/
theorem atomic_steps_recvTx (env : Env) (nR nW : Nat) (f : Option Nat) (tx : Tx) (P : PStore) (V : PVol) :
    (Model.Persist.recvTx env nR nW f tx P V).commits ≤ 1 := by
  unfold Model.Persist.recvTx
  simp only
  split_ifs
  · simp
  · simp
  · split
    · simp
    · simp
    · exact run_commits_le _ _ P V

-- ------------------------------------------------------------------ persistent invariants

/-- persistent invariant (follower part) kept by every block that extends the tip: after the
    commit the stored synced-to is the block, its hash is in the height table, and the volatile tip
    copy equals it (BestInv). -/
theorem pinv_block_extend (env : Env) (n : Nat) (b : Block) (P : PStore) (V : PVol)
    (hp : b.prev = V.led.best.hash) (hok : ((opBlock env n b).run none P V).ok = true) :
    BestInv ((opBlock env n b).run none P V).P ((opBlock env n b).run none P V).V ∧
    SyncWf ((opBlock env n b).run none P V).P :=
  block_extend_bestInv env n b P V hp hok

/-- FULL statement (not proved): BestInv and SyncWf are kept by every successful block operation,
    including the reorganisation path (disconnects, walk-back, several connects in one batch).
    Missing: loop invariants for the three loops of `Ledger.reorg` and for `Ledger.rollback`
    (rollback does not touch the height table). The drivers evaluate `bestInvB` after every step of
    every generated history (tested, not proved). -/
def pinv_block_full : Prop :=
  ∀ (env : Env) (n : Nat) (b : Block) (P : PStore) (V : PVol), BestInv P V → SyncWf P →
    ((opBlock env n b).run none P V).ok = true →
    BestInv ((opBlock env n b).run none P V).P ((opBlock env n b).run none P V).V ∧
    SyncWf ((opBlock env n b).run none P V).P

/-- persistent invariant (keystore part): no skipped or duplicated address index, kept by NewAddress -/
theorem pinv_newAddr (env : Env) (nA nB nC : Nat) (stk : Bool) (P : PStore) (V : PVol)
    (w : Wid) (r c : KsRec) (hcur : V.cur = some w) (hr : AMap.get P.ks w = some r) (hk : AMap.get V.keys w = some c)
    (hs : KsSeq P) : KsSeq ((opNewAddr env nA nB nC stk).run none P V).P :=
  newAddr_ksSeq env nA nB nC stk P V w r c hcur hr hk hs

/-- the keystore buckets are not touched by block processing -/
theorem pinv_block_ks (env : Env) (n : Nat) (b : Block) (f : Option Nat) (P : PStore) (V : PVol) :
    ((opBlock env n b).run f P V).P.ks = P.ks := by
  by_cases hok : ((opBlock env n b).run f P V).ok = true
  · cases f with
    | none =>
      rw [block_none] at hok ⊢
      cases hb : blockTx (ctxOf env V) P.led V.led.best b with
      | error e => simp [hb]
      | ok r => obtain ⟨s', ro, ad⟩ := r; simp [hb]
    | some j =>
      rcases block_fault env n b j P V with he | ⟨_, h2, _⟩
      · rw [he, block_none]
        cases hb : blockTx (ctxOf env V) P.led V.led.best b with
        | error e => simp [hb]
        | ok r => obtain ⟨s', ro, ad⟩ := r; simp [hb]
      · rw [h2]
  · have : ((opBlock env n b).run f P V).ok = false := by simpa using hok
    rw [run_fail_store _ _ _ _ this]

-- ------------------------------------------------------------------ boot

/-- what boot reconstructs: the key cache is exactly the stored keystores; with a well-formed height
    table the tip copy is the stored synced-to — `Coh` holds after every boot -/
theorem boot_coh (env : Env) (P : PStore) (h : SyncWf P) : Coh env P (bootVol P) :=
  ⟨boot_keyCoh env P, boot_bestInv P h⟩

/-- a crash loses only what no later store depends on: under BestInv and an exact key cache the
    booted volatile state agrees with the lost one on tip copy and key cache -/
theorem crash_loses_only_volatile (P : PStore) (V : PVol) (hb : BestInv P V) (hk : V.keys = P.ks) :
    VEq V (bootVol P) := boot_vEq P V hb hk

/-- removal_resumes / import_resumes: whatever was marked in the store is queued again at boot -/
theorem removal_resumes (env : Env) (n : Nat) (P : PStore) (w : Wid) (st : WStatus)
    (hq : env.node.tipHeight = P.led.syncedTo) (h : (w, st) ∈ P.led.status) (hr : st.removed = true) :
    Task.rem w ∈ (start env n P (bootVol P)).V.tasks := by
  rw [start_quiet env n P (bootVol P) hq]; exact requeue_removed P w st h hr

theorem import_resumes (env : Env) (n : Nat) (P : PStore) (w : Wid) (st : WStatus)
    (hq : env.node.tipHeight = P.led.syncedTo) (h : (w, st) ∈ P.led.status)
    (hr : st.removed = false) (hi : st.synced.isSome = true) :
    Task.imp w ∈ (start env n P (bootVol P)).V.tasks := by
  rw [start_quiet env n P (bootVol P) hq]; exact requeue_importing P w st h hr hi

-- ------------------------------------------------------------------ catchup_converges

/-- catchup_converges (partial): when no fast-forward applies, Start's catch-up IS the processing of
    the missed tip notifications in order — boot followed by catch-up reaches the store (and tip
    copy, key cache) that the run which never stopped reaches by processing those notifications.
    Partial: the missed blocks are processed as Start does (each extends the previous one or goes
    through `reorg`); the convergence of a run that afterwards receives STALE notifications
    (rollback + reconnect) is part of `crash_equiv_full`. -/
theorem catchup_converges_partial (n : Nat) (s : Sys) (hb : BestInv s.P s.V) (hk : s.V.keys = s.P.ks)
    (hnf : (!(!(readyWallets s.P.led (walletsOf s.P.ks)).isEmpty) && decide (s.env.node.tipHeight > Gen.Updates.ffGap)) = false)
    (hok : (crash s.env n s.P).ok = true) :
    let missed := (pendingBlocks s.env (s.env.node.tipHeight + 1) (s.P.led.syncedTo + 1)).map Ev.block
    (crash s.env n s.P).P = (runEvs n false s missed).P ∧
    VEq (crash s.env n s.P).V (runEvs n false s missed).V := by
  intro missed
  have hnf' : (!(!(readyWallets s.P.led (walletsOf (bootVol s.P).keys)).isEmpty) && decide (s.env.node.tipHeight > Gen.Updates.ffGap)) = false := hnf
  unfold crash at hok ⊢
  rw [start_noff s.env n s.P (bootVol s.P) hnf'] at hok ⊢
  simp only at hok ⊢
  by_cases hc : (catchUp s.env n (s.env.node.tipHeight + 1) (s.P.led.syncedTo + 1) s.P (bootVol s.P) 0).ok = true
  · simp only [hc, Bool.not_true] at hok ⊢
    have hcu := catchUp_eq s.env n _ _ s.P (bootVol s.P) 0 hc
    -- the run from the booted volatile state and the run from the lost one are related
    have hrel : CrashRel ⟨s.env, s.P, bootVol s.P⟩ s := ⟨rfl, rfl, vEq_symm (boot_vEq s.P s.V hb hk)⟩
    have := runEvs_rel n missed ⟨s.env, s.P, bootVol s.P⟩ s (crashesQuiet_blocks n _ _) hrel
    have hsame : runEvs n true ⟨s.env, s.P, bootVol s.P⟩ missed = runEvs n false ⟨s.env, s.P, bootVol s.P⟩ missed := by
      have hx : ∀ (bs : List Block) (t : Sys), runEvs n true t (bs.map Ev.block) = runEvs n false t (bs.map Ev.block) := by
        intro bs
        induction bs with
        | nil => intro t; rfl
        | cons b bs ih => intro t; simp only [List.map, runEvs, List.foldl, stepEv]; exact ih _
      exact hx _ _
    rw [hsame] at this
    refine ⟨?_, ?_⟩
    · simp; rw [hcu.1]; exact this.2.1
    · simp
      have h2 := this.2.2
      rw [← hcu.2] at h2
      exact ⟨h2.1, h2.2⟩
  · simp [hc] at hok

-- ------------------------------------------------------------------ crash_equiv

/-- crash_equiv (partial): for EVERY history of node changes, tip notifications (extensions and
    reorganisations), wallet creations, new addresses and removal markings, with ANY number of
    crashes, each at a quiet commit boundary of the crashing run (tip copy = synced-to, key cache
    exact, follower caught up with the node): after every event the crashing run has exactly the store
    of the run that never stopped, and a volatile state that differs from it only in what a crash
    may lose (pending-id set, expired map, wallet in use, task queue, reservations).
    Partial in two respects: (1) crash points where the follower lags behind the node are covered
    by `catchup_converges_partial` up to the end of the catch-up, not beyond; (2) unconfirmed
    transactions are not part of these histories (their duplicate check reads the volatile
    pending-id set: see `recvTx_fresh_congr`). -/
theorem crash_equiv_partial (n : Nat) (evs : List Ev) (s : Sys) (hq : crashesQuiet n s evs = true) :
    CrashRel (runEvs n true s evs) (runEvs n false s evs) :=
  runEvs_rel n evs s s hq ⟨rfl, rfl, vEq_refl s.V⟩

/-- FULL statement (not proved): crash at ANY commit boundary (also while notifications are still
    queued), then the rest of the history: whenever the run that never stopped is quiet again, the
    crashing run has the same store. Missing: the convergence theorem of the follower (C01's
    `reorg_reaches`: processing the node's tip from ANY synced prefix reaches the ledger of the
    node's chain), which is what makes stale notifications after a catch-up harmless. Tested on
    every generated history by `crashall` (implementation: every commit index as crash point;
    model: every commit of the model run as crash point). -/
def crash_equiv_full : Prop :=
  ∀ (n : Nat) (pre post : List Ev) (s : Sys),
    let s1 := runEvs n false s pre
    BestInv s1.P s1.V → s1.V.keys = s1.P.ks →
    quiet (runEvs n false s1 post) = true →
    (runEvs n true (stepEv n true s1 .crash) post).P = (runEvs n false s1 post).P

/-- unconfirmed transactions: a transaction that is in neither pending-id set is handled identically
    by the crashing run and the run that never stopped -/
theorem recvTx_fresh_congr (env : Env) (nR nW : Nat) (tx : Tx) (P : PStore) (V1 V2 : PVol) (h : VEq V1 V2)
    (h1 : V1.led.mempool.contains tx.id = false) (h2 : V2.led.mempool.contains tx.id = false) :
    (Model.Persist.recvTx env nR nW none tx P V1).P = (Model.Persist.recvTx env nR nW none tx P V2).P ∧
    (Model.Persist.recvTx env nR nW none tx P V1).ok = (Model.Persist.recvTx env nR nW none tx P V2).ok := by
  unfold Model.Persist.recvTx
  have hc : ctxOf env V1 = ctxOf env V2 := by unfold ctxOf; rw [h.2]
  simp only [h1, h2, hc]
  cases hf : filterTxRel (ctxOf env V2) P.led tx false [] (readyWallets P.led (ctxOf env V2).wallets) with
  | error e => simp
  | ok o =>
    cases o with
    | none => simp
    | some tr =>
      simp only [Option.map]
      rw [run_single_none nW _ (opAddUnmined nW tr) rfl P V1, run_single_none nW _ (opAddUnmined nW tr) rfl P V2]
      cases ha : addRelevantUnmined P.led tr with
      | error e => simp [opAddUnmined, ha]
      | ok s' => simp [opAddUnmined, ha]

-- ------------------------------------------------------------------ non-vacuity

def g : Block := ⟨"G", "", 0, []⟩
def b1 : Block := ⟨"B1", "G", 1, []⟩
def nd1 : Node := { chain := [g, b1], known := [("G", g), ("B1", b1)] }
def s0 : Sys := ⟨{ node := { chain := [g], known := [("G", g)] } }, {}, {}⟩

/-- a history with a creation, an address, a block and two crashes at quiet points -/
def hist : List Ev := [.create "W1", .crash, .newAddr "W1" false, .node nd1, .block b1, .crash, .newAddr "W1" true]

example : crashesQuiet 2 s0 hist = true := by decide
example : quiet s0 = true := by decide
example : (runEvs 2 true s0 hist).P.led.syncedTo = 1 ∧ ((runEvs 2 true s0 hist).P.ks.map (fun e => e.2.next)) = [2] := by decide
/-- … and a crash while the follower lags one block behind: the catch-up processes it -/
example : (crash { s0.env with node := nd1 } 2 s0.P).ok = true ∧ (crash { s0.env with node := nd1 } 2 s0.P).P.led.syncedTo = 1 ∧
    (crash { s0.env with node := nd1 } 2 s0.P).commits = 2 := by decide
example : BestInv s0.P s0.V ∧ SyncWf s0.P := ⟨⟨rfl, rfl⟩, rfl⟩

end MW.Props.C06
