/-
  C09 — Pending transactions are tracked exactly.   PROPERTY THEOREMS (pending part of MW.Model.Ledger).

  The model functions are the ones the driver executes against the implementation (tie A): addRelevantUnmined
  (insertMemPoolTx + AddCredits), insertMinedTx (its pending part `confirmPending` = unpendMined ;
  removeDoubleSpends), removeConflict, purgeSpenders, rollbackTx.  Helper lemmas: MW/Lemmas/LedgerPending*.lean.

  `PendWF rank s` is the well-formedness of the three pending stores: the pending set `m` and the spender
  index `mi` describe each other (keys are ids; every listed spender is a pending transaction that spends the
  outpoint; every input of every pending transaction is listed; no empty list), and inputs refer to
  transactions of lower `rank` (transaction ids are hashes of the content including the input ids: a
  transaction is created after the ones it spends — e.g. rank = order of definition).  It holds for the empty
  store and is preserved by receive, confirm, conflict purge and the coinbase purge (`pendwf_*`).
-/
import MW.Model.Ledger
import MW.Lemmas.LedgerPendingOnly
import MW.Lemmas.LedgerPendingRollback
import MW.Lemmas.PendHistRun
import MW.Lemmas.PendHistObs
import MW.Lemmas.PendHistEx
import MW.Lemmas.PendHistCredRun
import MW.Lemmas.PendHistCredEx
import MW.Lemmas.PendHistNotifyEx
import MW.Lemmas.PendHistComposeEx
import MW.Lemmas.PendHistNotifySpecEx
import MW.Lemmas.PendHistSeenEx
import MW.Lemmas.PendHistNotifyDomEx
import MW.Lemmas.TxmgrCodecRec
namespace MW.Props.C09
open MW MW.Model.Ledger MW.Lemmas.LedgerPending

/-- a coin is flagged spent-by-unconfirmed exactly when the unmined-inputs bucket has its outpoint -/
theorem sbu_iff (s : Store) (tx : TxId) (i : Nat) :
    spentByUnmined s tx i = true ↔ (AMap.get s.pendIns (tx, i)).isSome = true := by
  unfold spentByUnmined; rfl

/-- recording a pending spend flags exactly that outpoint -/
theorem putPendIn_flags (m : AMap.T (TxId × Nat) (List TxId)) (k k' : TxId × Nat) (sp : TxId) :
    (AMap.get (putPendIn m k sp) k').isSome = (decide (k = k') || (AMap.get m k').isSome) := by
  unfold putPendIn
  rw [AMap.get_put]
  by_cases h : k = k' <;> simp [h]

-- ------------------------------------------------------------------ (1) conflict_purges

/-- CONFLICT PURGES, with TERMINATION.  From a well-formed store, `removeConflict` on a pending transaction
    with the fuel the model passes (`pending.length + 1`) or ANY larger fuel
    (a) computes the same store — the fuel is never the reason the recursion stops;
    (b) removes the transaction and every pending transaction reachable from it through the spender index
        (`Desc`), together with their pending credits and their memberships in the spender index;
    (c) removes nothing else: a pending transaction that disappeared is such a descendant;
    (d) never adds anything and leaves every mined bucket untouched (`Sub`);
    (e) frees the coins: afterwards a coin is flagged spent-by-unconfirmed only if a transaction that is
        still pending spends it;
    (f) ends in a well-formed store. -/
theorem conflict_purges (rank : TxId → Nat) (own : Own) (s : Store) (tx : Tx) (hw : PendWF rank s)
    (hroot : AMap.get s.pending tx.id = some tx) (fuel : Nat) (hf : s.pending.length + 1 ≤ fuel) :
    removeConflict own fuel s tx = removeConflict own (s.pending.length + 1) s tx ∧
    (∀ d, Desc s tx d → AMap.get (removeConflict own fuel s tx).pending d.id = none ∧
        (∀ j, j < d.outs.length → AMap.get (removeConflict own fuel s tx).pendCred (d.id, j) = none) ∧
        (∀ op, Spends d op → ¬ Listed (removeConflict own fuel s tx) op d.id)) ∧
    (∀ t, AMap.get s.pending t.id = some t → AMap.get (removeConflict own fuel s tx).pending t.id = none → Desc s tx t) ∧
    Sub (removeConflict own fuel s tx) s ∧
    (∀ c i, spentByUnmined (removeConflict own fuel s tx) c i = true →
        ∃ id t, AMap.get (removeConflict own fuel s tx).pending id = some t ∧ Spends t (c, i)) ∧
    PendWF rank (removeConflict own fuel s tx) := by
  obtain ⟨h1, h2, h3⟩ := removeConflict_wf rank own s tx hw hroot fuel hf
  refine ⟨h1, fun d hd => ?_, removeConflict_only own fuel s tx hw.key_id hroot, h2.step.sub,
    fun c i h => spender_of_flag h3 c i h, h3⟩
  obtain ⟨g1, g2⟩ := desc_gone hroot h2.step h2.gone hd
  exact ⟨g1, g2.1, g2.2⟩

/-- the descendant relation is not vacuous and the hypotheses are satisfiable: a chain P ← Q ← R of pending
    transactions (R spends Q spends P) built by three receives from the empty store -/
def exP : Tx := ⟨"P", false, [⟨"C", 0, 0⟩], [⟨"A1", 5, .std⟩]⟩
def exQ : Tx := ⟨"Q", false, [⟨"P", 0, 0⟩], [⟨"A1", 4, .std⟩]⟩
def exR : Tx := ⟨"R", false, [⟨"Q", 0, 0⟩, ⟨"C", 1, 0⟩], [⟨"X", 3, .std⟩]⟩
def exRank : TxId → Nat | "P" => 1 | "Q" => 2 | "R" => 3 | _ => 0
def exRel (i : Nat) (o : Out) : Rel := ⟨i, o, "W", false⟩
def exS1 : Store := match addRelevantUnmined {} { tx := exP, relOut := [exRel 0 ⟨"A1", 5, .std⟩] } with | .ok s => s | .error _ => {}
def exS2 : Store := match addRelevantUnmined exS1 { tx := exQ, relOut := [exRel 0 ⟨"A1", 4, .std⟩] } with | .ok s => s | .error _ => {}
def exS3 : Store := match addRelevantUnmined exS2 { tx := exR } with | .ok s => s | .error _ => {}

theorem pendwf_empty (rank : TxId → Nat) : PendWF rank ({} : Store) := by
  refine ⟨fun _ _ h => ?_, fun _ _ h => ?_, fun _ _ h => ?_, fun _ h => ?_, fun _ _ h => ?_⟩
  · cases h
  · obtain ⟨_, h, _⟩ := h; cases h
  · cases h
  · cases h
  · cases h

/-- TEST (evaluation of one instance, not a theorem about all inputs): purging P from the chain store removes
    P, Q and R, every pending credit and every spender entry — including R's entry for the foreign coin C:1 -/
example : (removeConflict [] (exS3.pending.length + 1) exS3 exP).pending = [] ∧
    (removeConflict [] (exS3.pending.length + 1) exS3 exP).pendIns = [] ∧
    (removeConflict [] (exS3.pending.length + 1) exS3 exP).pendCred = [] ∧
    exS3.pending.length = 3 := by decide

example : ∃ s : Store, PendWF exRank s ∧ AMap.get s.pending exP.id = some exP ∧ Desc s exP exR := by
  have h1 : addRelevantUnmined {} { tx := exP, relOut := [exRel 0 ⟨"A1", 5, .std⟩] } = .ok exS1 := by rfl
  have h2 : addRelevantUnmined exS1 { tx := exQ, relOut := [exRel 0 ⟨"A1", 4, .std⟩] } = .ok exS2 := by rfl
  have h3 : addRelevantUnmined exS2 { tx := exR } = .ok exS3 := by rfl
  have w1 := addRelevantUnmined_wf exRank _ _ _ (pendwf_empty exRank) h1 (by decide) (by decide)
  have w2 := addRelevantUnmined_wf exRank _ _ _ w1 h2 (by decide) (by decide)
  have w3 := addRelevantUnmined_wf exRank _ _ _ w2 h3 (by decide) (by decide)
  refine ⟨exS3, w3, by decide, ?_⟩
  have eQ : Edge exS3 exP exQ := ⟨0, by decide, ⟨["Q"], by decide, by decide⟩, by decide⟩
  have eR : Edge exS3 exQ exR := ⟨0, by decide, ⟨["R"], by decide, by decide⟩, by decide⟩
  exact Desc.step (Desc.step Desc.root eQ) eR

/-- CONFLICT PURGES, as the block handler runs it (removeDoubleSpends on a confirmed transaction `tr`, relevant
    or not): every pending transaction `d` that spends an input of `tr` — any input — is gone with all its
    descendants and their pending credits; the inputs of `tr` have no spender entry left. -/
theorem conflict_purges_on_confirm (rank : TxId → Nat) (own : Own) (s : Store) (tr : TxRec) (hw : PendWF rank s) :
    Sub (removeDoubleSpends own s tr) s ∧
    (∀ i ∈ tr.tx.ins, spentByUnmined (removeDoubleSpends own s tr) i.tx i.idx = false) ∧
    (∀ i ∈ tr.tx.ins, ∀ d, Listed s (i.tx, i.idx) d.id → AMap.get s.pending d.id = some d →
      ∀ e, Desc s d e → AMap.get (removeDoubleSpends own s tr).pending e.id = none ∧
        (∀ j, j < e.outs.length → AMap.get (removeDoubleSpends own s tr).pendCred (e.id, j) = none)) := by
  obtain ⟨h1, h2, h3⟩ := removeDoubleSpends_spec rank own s tr hw.weak hw.noEmpty
  refine ⟨h1, fun i hi => ?_, h3⟩
  unfold spentByUnmined; rw [h2 i hi]; rfl

-- ------------------------------------------------------------------ (2) pending_flagged

/-- PENDING FLAGGED.  Receiving a transaction that was not pending (addRelevantUnmined succeeds) makes it
    pending, flags EVERY coin it spends as spent-by-unconfirmed, and records each relevant output as a pending
    credit only: it is not in the unspent index (hence in no balance and in no coin listing). -/
theorem pending_flagged (s s' : Store) (tr : TxRec) (h : addRelevantUnmined s tr = .ok s')
    (hnew : AMap.get s.pending tr.tx.id = none) :
    AMap.get s'.pending tr.tx.id = some tr.tx ∧
    (∀ i ∈ tr.tx.ins, spentByUnmined s' i.tx i.idx = true) ∧
    (∀ rel ∈ tr.relOut, (AMap.get s'.pendCred (tr.tx.id, rel.index)).isSome = true ∧
      AMap.get s'.unspent (rel.wallet, tr.tx.id, rel.index) = none) ∧
    minedOf s' = minedOf s := by
  obtain ⟨h1, _, h3, _, h5⟩ := addRelevantUnmined_new s s' tr h hnew
  refine ⟨by rw [h1, AMap.get_put]; simp, fun i hi => (addRelevantUnmined_flags s s' tr h hnew i hi).2, h5, h3⟩

/-- … and the flag stays as long as the transaction is pending: in every well-formed store each input of each
    pending transaction is flagged, and a flagged coin has a pending spender (`pendwf_*` below: every pending-side
    operation keeps the store well-formed). -/
theorem flagged_while_pending (rank : TxId → Nat) (s : Store) (hw : PendWF rank s) :
    (∀ id t, AMap.get s.pending id = some t → ∀ i ∈ t.ins, spentByUnmined s i.tx i.idx = true) ∧
    (∀ c i, spentByUnmined s c i = true → ∃ id t, AMap.get s.pending id = some t ∧ Spends t (c, i)) :=
  ⟨fun id t hp i hi => flagged_of_wf hw id t hp i hi, fun c i h => spender_of_flag hw c i h⟩

example : addRelevantUnmined {} { tx := exP, relOut := [exRel 0 ⟨"A1", 5, .std⟩] } = .ok exS1 ∧
    AMap.get ({} : Store).pending exP.id = none := ⟨by rfl, by decide⟩

theorem pendwf_receive (rank : TxId → Nat) (s s' : Store) (tr : TxRec) (hw : PendWF rank s)
    (h : addRelevantUnmined s tr = .ok s') (hnew : AMap.get s.pending tr.tx.id = none)
    (hrank : ∀ i ∈ tr.tx.ins, rank i.tx < rank tr.tx.id) : PendWF rank s' :=
  addRelevantUnmined_wf rank s s' tr hw h hnew hrank

theorem pendwf_confirm (rank : TxId → Nat) (own : Own) (s : Store) (tr : TxRec) (hw : PendWF rank s)
    (hsame : ∀ t, AMap.get s.pending tr.tx.id = some t → t = tr.tx) : PendWF rank (confirmPending own s tr) :=
  confirmPending_wf rank own s tr hw hsame

theorem pendwf_coinbase_purge (rank : TxId → Nat) (own : Own) (s : Store) (op : TxId × Nat) (hw : PendWF rank s) :
    PendWF rank (purgeSpenders own s op) := purgeSpenders_wf rank own s op hw

example : ∀ t, AMap.get exS3.pending exQ.id = some t → t = exQ := by decide

-- ------------------------------------------------------------------ (3) confirm_once

/-- CONFIRM ONCE.  insertMinedTx of a transaction without a record in that block runs the mined bookkeeping,
    which leaves the pending stores alone, and then `confirmPending`; afterwards, exactly:
    the transaction is not pending; if it was pending, none of its outputs has a pending credit; none of its
    inputs has a spender entry (so none is flagged); nothing was added to the pending stores. -/
theorem confirm_once (rank : TxId → Nat) (own : Own) (s s' : Store) (bals bals' : Bals) (tr : TxRec) (blk : BlockMeta)
    (hw : PendWF rank s) (h : insertMinedTx own s bals tr blk = .ok (s', bals', false)) :
    AMap.get s'.pending tr.tx.id = none ∧
    ((AMap.get s.pending tr.tx.id).isSome = true → ∀ j, j < tr.tx.outs.length → AMap.get s'.pendCred (tr.tx.id, j) = none) ∧
    (∀ i ∈ tr.tx.ins, AMap.get s'.pendIns (i.tx, i.idx) = none ∧ spentByUnmined s' i.tx i.idx = false) ∧
    (∀ id t, AMap.get s'.pending id = some t → AMap.get s.pending id = some t) ∧
    (∀ k, AMap.get s.pendCred k = none → AMap.get s'.pendCred k = none) ∧
    (∀ op id, Listed s' op id → Listed s op id) := by
  obtain ⟨s1, hside, rfl⟩ := insertMinedTx_pending own s bals tr blk s' bals' h
  simp only [pendSide, Prod.mk.injEq] at hside
  obtain ⟨e1, e2, e3, _⟩ := hside
  have hw1 : WFw rank s1 := by
    obtain ⟨a, b, c⟩ := hw.weak
    exact ⟨fun id t hg => a id t (by rw [← e1]; exact hg),
      fun op id t hl hg => b op id t (by unfold Listed at *; rw [← e2]; exact hl) (by rw [← e1]; exact hg),
      fun id t hg => c id t (by rw [← e1]; exact hg)⟩
  have hne1 : NoEmpty s1 := fun op => by rw [e2]; exact hw.noEmpty op
  obtain ⟨c1, c2, c3, c4, _⟩ := confirmPending_spec rank own s1 tr hw1 hne1
  refine ⟨c2, fun hp j hj => c3 (by rw [e1]; exact hp) j hj, fun i hi => ⟨c4 i hi, ?_⟩,
    fun id t hg => by rw [← e1]; exact c1.pending_some hg, fun k hk => c1.cred k (by rw [e3]; exact hk),
    fun op id hl => by have := c1.ins op id hl; unfold Listed at *; rw [← e2]; exact this⟩
  unfold spentByUnmined; rw [c4 i hi]; rfl

/-- TEST: Q of the chain store confirms (no mined credit involved): Q leaves the pending set, its pending credit
    and its spender entry go; R — which spends Q's output, a descendant, not a conflict — stays pending. -/
example : (match insertMinedTx [] exS3 [] { tx := exQ } ⟨7, "B7"⟩ with
    | .ok (s', _, false) => (s'.pending.map (·.1), s'.pendCred.map (·.1), s'.pendIns.map (·.1))
    | _ => ([], [], [])) = (["R", "P"], [("P", 0)], [("C", 1), ("Q", 0), ("C", 0)]) := by decide

-- ------------------------------------------------------------------ (4) unconfirm_readable

/-- UNCONFIRM READABLE.  Rolling back a non-coinbase transaction record puts `pending[id] = tx` — the very
    transaction the node returned for the stored file location, so the pending record reads back to it —,
    one spender entry per input (every input flagged), and for every output index: the mined credit is gone and,
    where the credit table (after the input loop, which only un-spends credits of OTHER transactions unless the
    transaction spent its own output) held one, the pending credit is that credit with the spender link cleared.
    The byte-level encode/decode round trip of the pending value is tied by the `pend` observation (`T:r`). -/
theorem unconfirm_readable (c : Ctx) (s s' : Store) (bals bals' : Bals) (blk : BlockMeta) (id : TxId)
    (rem : List (TxId × Nat)) (loc : BlkId × Nat) (tx : Tx)
    (h : rollbackTx c s bals blk id = .ok (s', bals', rem))
    (hloc : AMap.get s.txrecs (id, blk) = some loc) (htx : c.node.txByFileLoc loc = some tx) (hcb : tx.cb = false) :
    AMap.get s'.pending id = some tx ∧
    (∀ i ∈ tx.ins, Listed s' (i.tx, i.idx) id ∧ spentByUnmined s' i.tx i.idx = true) ∧
    (∀ op x, Listed s op x → Listed s' op x) ∧
    rem = [] ∧
    ∃ sb1, foldIdxM (rollbackIn c id blk) tx.ins 0
        ({ s with txrecs := AMap.erase s.txrecs (id, blk), pending := AMap.put s.pending id tx }, bals) = .ok sb1 ∧
      sb1.1.pendCred = s.pendCred ∧
      ∀ j, j < tx.outs.length →
        AMap.get s'.credits ⟨id, blk, j⟩ = none ∧
        AMap.get s'.pendCred (id, j) = (match AMap.get sb1.1.credits ⟨id, blk, j⟩ with
          | some cr => some (unminedOfMined cr)
          | none => AMap.get s.pendCred (id, j)) :=
  rollbackTx_unconfirm c s s' bals bals' blk id rem loc tx h hloc htx hcb

/-- UNCONFIRM keeps the store well-formed: the rolled-back transaction is stored under its own id, was not pending
    (a transaction is pending or mined, not both) and respects the rank -/
theorem pendwf_unconfirm (rank : TxId → Nat) (c : Ctx) (s s' : Store) (bals bals' : Bals) (blk : BlockMeta) (id : TxId)
    (rem : List (TxId × Nat)) (loc : BlkId × Nat) (tx : Tx) (hw : PendWF rank s)
    (h : rollbackTx c s bals blk id = .ok (s', bals', rem))
    (hloc : AMap.get s.txrecs (id, blk) = some loc) (htx : c.node.txByFileLoc loc = some tx) (hcb : tx.cb = false)
    (hid : tx.id = id) (hnew : AMap.get s.pending id = none) (hrank : ∀ i ∈ tx.ins, rank i.tx < rank id) :
    PendWF rank s' :=
  rollbackTx_wf rank c s s' bals bals' blk id rem loc tx hw h hloc htx hcb hid hnew hrank

/-- the hypotheses of `unconfirm_readable` / `pendwf_unconfirm` are satisfiable (TEST by evaluation): a store whose
    only record is Q in block B7, the node returns Q for that location -/
def exNode : Node := { chain := [], known := [("B7", ⟨"B7", "B6", 7, [exQ]⟩)] }
def exCtx : Ctx := { p := {}, own := [], wallets := [], node := exNode }
def exMined : Store := { txrecs := [(("Q", ⟨7, "B7"⟩), ("B7", 0))] }
example : (match rollbackTx exCtx exMined [] ⟨7, "B7"⟩ "Q" with
    | .ok (s', _, rem) => (s'.pending.map (·.1), s'.pendIns, rem)
    | .error _ => ([], [], [])) = (["Q"], [(("P", 0), ["Q"])], []) ∧
    AMap.get exMined.txrecs ("Q", ⟨7, "B7"⟩) = some ("B7", 0) ∧ exCtx.node.txByFileLoc ("B7", 0) = some exQ ∧
    exQ.cb = false ∧ exQ.id = "Q" ∧ AMap.get exMined.pending "Q" = none := by decide

/-- … and that store is well-formed, Q respects the rank -/
example : PendWF exRank exMined ∧ (∀ i ∈ exQ.ins, exRank i.tx < exRank "Q") := by
  refine ⟨⟨fun _ _ h => ?_, fun _ _ h => ?_, fun _ _ h => ?_, fun _ h => ?_, fun _ _ h => ?_⟩, by decide⟩
  · cases h
  · obtain ⟨_, h, _⟩ := h; cases h
  · cases h
  · cases h
  · cases h

-- ------------------------------------------------------------------ (5) THE PROPERTY: history-level refinement

section history
open MW.Lemmas.PendHist MW.Lemmas.Ledger MW.Spec.Pending

/-- RECEIVE refines `onRecv` (new transaction, duplicate, already pending, unreadable, irrelevant, coinbase,
    re-delivery of a seen transaction): `PendRel` = the pending records are exactly the transactions of the
    specification's pending list and the spender index describes them. -/
theorem recv_refines (rank : TxId → Nat) (e : Spec.Pending.Env) (ctx : Ctx) (s : Store) (v : Vol) (c : List Block) (P : List Tx)
    (t : Tx) (hrel : PendRel rank s P) (hok : RecvOK rank e ctx s v c P t) :
    PendRel rank (recvTx ctx s v t).1 (onRecv e ctx.node.chain c P t) :=
  recv_step rank e ctx s v c P t hrel hok

/-- CONNECT refines `onChainMoved c (c ++ [b])`: pending transactions of the block are confirmed, pending
    transactions that share an input with ANY non-coinbase transaction of the block vanish with all their
    pending descendants, nothing else changes.  `hnorec`, `hcover` are facts about the mined buckets; they
    follow from C01's invariant (`connect_refines_inv`). -/
theorem connect_refines (rank : TxId → Nat) (e : Spec.Pending.Env) (ctx : Ctx) (s s' : Store) (c : List Block) (b : Block)
    (P : List Tx) (ready : List Wid) (conf : List TxId)
    (h : filterBlock ctx s ready b = .ok (s', conf)) (hne : ready.isEmpty = false)
    (hnorec : ∀ u ∈ b.txs, AMap.get s.txrecs (u.id, ⟨b.height, b.id⟩) = none)
    (hcover : ∀ recs, filterTxs ctx s ready b.id b.txs [] 0 [] = .ok recs →
      ∀ u ∈ b.txs, hasId P u.id = true → ∃ tr ∈ recs, tr.tx = u)
    (hrel : PendRel rank s P) (hcons : Consistent c P) (hidx : IdxOK P) (hnocb : ∀ t ∈ P, t.cb = false)
    (hok : ConnOK c b P) :
    PendRel rank s' (onChainMoved e c (c ++ [b]) P) :=
  connect_step rank e ctx s s' c b P ready conf h hne hnorec hcover hrel hcons hidx hnocb hok

/-- DISCONNECT (rollback of the tip block) refines `onChainMoved (c ++ [b]) c`: the relevant non-coinbase
    transactions of the block are pending again; the pending spenders of its coinbase outputs vanish with their
    descendants (`DiscOK.cbown` = the foreign-coinbase restriction, known finding 4). -/
theorem disconnect_refines (rank : TxId → Nat) (e : Spec.Pending.Env) (ctx : Ctx) (s s' : Store) (c : List Block) (b : Block)
    (P : List Tx) (ids : List TxId)
    (h : disconnectBlock ctx s b.height = .ok s') (hsync : s.syncedTo = b.height)
    (hblk : AMap.get s.blocks b.height = some (b.id, ids))
    (hrec : ∀ id ∈ ids, ∃ loc t, AMap.get s.txrecs (id, ⟨b.height, b.id⟩) = some loc ∧
        ctx.node.txByFileLoc loc = some t ∧ t.id = id ∧ t ∈ b.txs)
    (hidnd : ids.Nodup) (hrel : PendRel rank s P) (hcons : Consistent (c ++ [b]) P)
    (hrk : ∀ t ∈ b.txs, ∀ i ∈ t.ins, rank i.tx < rank t.id) (hok : DiscOK e s c b P ids) :
    PendRel rank s' (onChainMoved e (c ++ [b]) c P) :=
  disconnect_step rank e ctx s s' c b P ids h hsync hblk hrec hidnd hrel hcons hrk hok

/-- … the same two steps from C01's mined-side invariant `Inv` and hypotheses about chain, block and pending list
    only; they also re-establish `Inv` and the spec-side invariants -/
theorem connect_refines_inv (rank : TxId → Nat) (E : HEnv) (n : Node) (s s' : Store) (c rest : List Block) (b : Block)
    (P : List Tx) (conf : List TxId)
    (hI : Inv (E.ctx n) s c)
    (hAR : AllReady E.own (readyWallets s E.wallets)) (hne : (readyWallets s E.wallets).isEmpty = false)
    (hnode : n.chain = c ++ b :: rest) (hvalid : ChainValid E.own n.chain) (hheight : b.height = c.length)
    (hrel : PendRel rank s P) (hcons : Consistent c P) (hsidx : SrcIdx E P)
    (hnocb : ∀ t ∈ P, t.cb = false) (hrelv : ∀ t ∈ P, relevant E.env t = true)
    (hsrcP : ∀ t ∈ P, E.src t.id = some t)
    (hok : ConnOK c b P) (hsrcB : SrcChain E (c ++ [b]))
    (h : filterBlock (E.ctx n) s (readyWallets s E.wallets) b = .ok (s', conf)) :
    Inv (E.ctx n) s' (c ++ [b]) ∧ (∀ ws, readyWallets s' ws = readyWallets s ws) ∧
    PendRel rank s' (onChainMoved E.env c (c ++ [b]) P) ∧
    Consistent (c ++ [b]) (onChainMoved E.env c (c ++ [b]) P) ∧
    (onChainMoved E.env c (c ++ [b]) P).Sublist P :=
  connect_step_inv rank E n s s' c rest b P conf hI hAR hne hnode hvalid hheight hrel hcons hsidx hnocb hrelv hsrcP
    hok hsrcB h

theorem disconnect_refines_inv (rank : TxId → Nat) (E : HEnv) (n : Node) (s s' : Store) (c0 : List Block) (b : Block)
    (P : List Tx)
    (hI : Inv (E.ctx n) s (c0 ++ [b])) (hAR : AllReady E.own (readyWallets s E.wallets)) (hc0 : c0 ≠ [])
    (hV : ChainValid E.own (c0 ++ [b])) (hH : HeightsOK (c0 ++ [b])) (hk : AMap.get n.known b.id = some b)
    (hrel : PendRel rank s P) (hcons : Consistent (c0 ++ [b]) P) (hsidx : SrcIdx E P)
    (hsrcP : ∀ t ∈ P, E.src t.id = some t) (dom : DiscDom rank E c0 b P)
    (h : disconnectBlock (E.ctx n) s b.height = .ok s') :
    Inv (E.ctx n) s' c0 ∧ (∀ ws, readyWallets s' ws = readyWallets s ws) ∧
    PendRel rank s' (onChainMoved E.env (c0 ++ [b]) c0 P) ∧
    Consistent c0 (onChainMoved E.env (c0 ++ [b]) c0 P) ∧
    (∀ t ∈ onChainMoved E.env (c0 ++ [b]) c0 P, t ∈ P ∨ (t ∈ b.txs ∧ t.cb = false ∧ relevant E.env t = true)) :=
  disconnect_step_inv rank E n s s' c0 b P hI hAR hc0 hV hH hk hrel hcons hsidx hsrcP dom h

/-- PENDING REFINES (the property, for typed histories at block granularity).  `runH` runs the model functions the
    driver executes (`recvTx`, `filterBlock`, `disconnectBlock`) and `Spec.Pending.step` side by side over a list of
    events (node change, volatile change, receive, connect, disconnect — `stepH_spec`: the spec component IS the
    fold of `Spec.Pending.step`).  From a world satisfying `HInv` (C01's `Inv` + `PendRel` + spec-side invariants;
    e.g. a fresh wallet), for EVERY history whose events are inside the domain `HOK` (decidable statements about
    chains, blocks, transactions and the pending list; see notes/C09.md), after the history:
    the pending ids of the model are the pending ids of the specification, a coin is flagged spent-by-unconfirmed
    exactly when a spec-pending transaction spends it, and the spender index lists exactly the spec-pending spenders. -/
theorem pending_refines (rank : TxId → Nat) (E : HEnv) (w : HW) (evs : List HEv) (H : HInv rank E w)
    (hD : ∀ x ∈ worldsH E w evs, HOK rank E x.1 x.2) :
    HInv rank E (runH E w evs) ∧
    (∀ id, (AMap.get (runH E w evs).s.pending id).isSome = (runH E w evs).sp.pend.any (fun t => t.id = id)) ∧
    (∀ c i, spentByUnmined (runH E w evs).s c i = spentByPending (runH E w evs).sp.pend c i) ∧
    (∀ op id, Listed (runH E w evs).s op id ↔ ∃ t ∈ (runH E w evs).sp.pend, t.id = id ∧ Spends t op) :=
  have h := hinv_run evs w H hD
  ⟨h, h.rel.ids_eq, h.rel.sbu, h.rel.listed⟩

/-- a successful notification (`processBlock`) is a sequence of disconnect steps followed by connect steps, all
    connects with the ready set read at the fork point (structural; no hypothesis) -/
theorem notify_is_steps (c : Ctx) (s : Store) (v : Vol) (b : Block) (s' : Store) (v' : Vol)
    (h : processBlock c s v b = (s', v', true)) :
    ∃ sm, DReach c s sm ∧ CReach c (readyWallets sm c.wallets) sm s' :=
  processBlock_trace_dc c s s' v v' b h

/-- USER LEVEL (1): while a transaction is pending, every coin it spends is flagged spent-by-unconfirmed (the
    flag coin selection and the balance listing read), along every history in the domain -/
theorem pending_coins_excluded (rank : TxId → Nat) (E : HEnv) (w : HW) (evs : List HEv) (H : HInv rank E w)
    (hD : ∀ x ∈ worldsH E w evs, HOK rank E x.1 x.2) :
    ∀ t ∈ (runH E w evs).sp.pend, ∀ i ∈ t.ins, spentByUnmined (runH E w evs).s i.tx i.idx = true := by
  intro t ht i hi
  rw [(hinv_run evs w H hD).rel.sbu]
  exact (spentByPending_iff _ _ _).2 ⟨t, ht, i, hi, rfl, rfl⟩

/-- USER LEVEL (2), specification: when a conflicting transaction confirms, the purged transaction is gone and a
    coin stays spent-by-pending only if a SURVIVING pending transaction spends it … -/
theorem conflict_frees_coins_spec (c : List Block) (b : Block) (P : List Tx) (hnd : (P.map (·.id)).Nodup)
    (t : Tx) (ht : t ∈ P) (hconf : conflictedBy (c ++ [b]) t = true) :
    t ∉ settle (c ++ [b]) [] P ∧
    ∀ tx idx, spentByPending (settle (c ++ [b]) [] P) tx idx = true →
      ∃ t' ∈ P, t' ≠ t ∧ ¬ Lost (c ++ [b]) [] P t' ∧ ∃ i ∈ t'.ins, i.tx = tx ∧ i.idx = idx :=
  conflict_frees_coins c b P hnd t ht hconf

/-- … and the model agrees: after the connect step the flag of a coin is exactly "a surviving transaction spends it" -/
theorem conflict_frees_coins_model (rank : TxId → Nat) (e : Spec.Pending.Env) (s' : Store) (c : List Block) (b : Block) (P : List Tx)
    (h : PendRel rank s' (onChainMoved e c (c ++ [b]) P)) (tx : TxId) (idx : Nat) :
    spentByUnmined s' tx idx = spentByPending (settle (c ++ [b]) [] P) tx idx := by
  rw [h.sbu, onChainMoved_connect]

/-- non-vacuity: a fresh wallet satisfies `HInv`; a concrete history (connect a block, receive a transaction that
    pays the wallet, receive a child, connect a block that confirms the first) is inside the domain -/
example : HInv exRankH exE exW0 := exHInv0
example : ∀ x ∈ worldsH exE exW0 exEvs, HOK exRankH exE x.1 x.2 := exDomain
example : ((runH exE exW0 exEvs).s.pending.map (·.1), (runH exE exW0 exEvs).sp.pend.map (·.id)) = (["T2"], ["T2"]) := by
  decide

end history

-- ------------------------------------------------------------------ (6) the pending-credit and unmined-deposit buckets

section credits
open MW.Lemmas.PendHist MW.Lemmas.PendHist.Cred MW.Lemmas.Ledger MW.Spec.Pending

/-- CREDIT FRAME of the conflict purge, for ALL stores with keys = ids and ANY fuel: `removeConflict` adds no record to
    the pending-credit / unmined-deposit buckets, leaves the records of every transaction that stays pending untouched,
    and a transaction that stops being pending has no pending credit at any output index and no deposit record of any
    staking / binding output paying an owned address left -/
theorem conflict_purge_credit_frame (own : Own) (fuel : Nat) (s : Store) (tx : Tx)
    (hk : ∀ id t, AMap.get s.pending id = some t → t.id = id) (hroot : AMap.get s.pending tx.id = some tx) :
    CFr own s (removeConflict own fuel s tx) := removeConflict_cfr own fuel s tx hk hroot

/-- the hypotheses are met by the chain store P ← Q ← R above (keys = ids is `PendWF.key_id`) -/
example : AMap.get exS3.pending exP.id = some exP := by decide

/-- RECEIVE keeps the CREDIT RELATION `CredRel` (pending credits = the owned outputs of the spec-pending transactions with
    amount, class and script hash; unmined deposit records = their staking / binding outputs paying an owned address) -/
theorem recv_refines_credits (rank : TxId → Nat) (e : Spec.Pending.Env) (ctx : Ctx) (s : Store) (v : Vol) (c : List Block)
    (P : List Tx) (t : Tx) (hrel : PendRel rank s P) (hcr : CredRel e s P) (hown : e.own = ctx.own)
    (hAR : AllReady ctx.own (readyWallets s ctx.wallets))
    (hid : ∀ t0, AMap.get s.pending t.id = some t0 → t0 = t)
    (hrel' : PendRel rank (recvTx ctx s v t).1 (onRecv e ctx.node.chain c P t)) :
    CredRel e (recvTx ctx s v t).1 (onRecv e ctx.node.chain c P t) :=
  recv_cred rank e ctx s v c P t hrel hcr hown hAR hid hrel'

/-- CONNECT keeps the credit relation: `filterBlock` is a credit frame (`filterBlock_cfr`), so after the block the two
    buckets hold exactly the records of the surviving pending transactions -/
theorem connect_refines_credits (rank : TxId → Nat) (e : Spec.Pending.Env) (ctx : Ctx) (s s' : Store) (c : List Block)
    (b : Block) (P : List Tx) (ready : List Wid) (conf : List TxId)
    (h : filterBlock ctx s ready b = .ok (s', conf)) (hne : ready.isEmpty = false) (hown : e.own = ctx.own)
    (hAR : AllReady ctx.own ready)
    (hnorec : ∀ u ∈ b.txs, AMap.get s.txrecs (u.id, ⟨b.height, b.id⟩) = none)
    (hrel : PendRel rank s P) (hcr : CredRel e s P) (hok : ConnOK c b P)
    (hrel' : PendRel rank s' (onChainMoved e c (c ++ [b]) P)) :
    CredRel e s' (onChainMoved e c (c ++ [b]) P) :=
  connect_cred rank e ctx s s' c b P ready conf h hne hown hAR hnorec hrel hcr hok hrel'

/-- the coinbase purge at the end of Rollback is a credit frame as well (the part of DISCONNECT that is proved) -/
theorem disconnect_purge_credit_frame (own : Own) (rem : List (TxId × Nat)) (s : Store)
    (hk : ∀ id t, AMap.get s.pending id = some t → t.id = id) :
    CFr own s (rem.foldl (purgeSpenders own) s) := purgeFold_cfr own rem s hk

/-- NO RESIDUE — the former hypothesis `RecvDom.residue` is a consequence of the credit relation -/
theorem residue_of_credit_relation (e : Spec.Pending.Env) (s : Store) (P : List Tx) (h : CredRel e s P) (id : TxId)
    (hn : hasId P id = false) :
    (∀ j, AMap.get s.pendCred (id, j) = none) ∧ (∀ w b j, AMap.get s.pendGame (w, b, id, j) = none) :=
  h.residue id hn

/-- CREDIT RELATION ALONG HISTORIES, PARTIAL.  From a world satisfying `HInvC` (= `HInv` + `CredRel`; e.g. a fresh wallet),
    for every history inside `HOKc`, after the history `HInv` and `CredRel` hold, and the raw dump `pcred` of the model is
    the specification's `pendingCredits`.  `HOKc` = `HOK` with the receive domain WITHOUT its residue clause (now a
    theorem) and — this is the partial part — with the credit relation after each DISCONNECT step as an explicit
    hypothesis: that the per-record loop of Rollback re-creates the records of the un-confirmed transactions (from the
    mined credit table, whose values are C01's) was not proved in Round 5; receive, connect and the purge of disconnect
    were.  Round 6 proves it: `credit_refines` / `C09_full_credit_relation` below need no such hypothesis. -/
theorem credit_refines_partial (rank : TxId → Nat) (E : HEnv) (w : HW) (evs : List HEv) (H : HInvC rank E w)
    (hD : ∀ x ∈ worldsH E w evs, HOKc rank E x.1 x.2) :
    HInvC rank E (runH E w evs) ∧
    (∀ id j amt, (∃ cr, AMap.get (runH E w evs).s.pendCred (id, j) = some cr ∧ cr.amt = amt) ↔
      (id, j, amt) ∈ pendingCredits E.env (runH E w evs).sp.pend) :=
  have h := hinvc_run evs w H hD
  ⟨h, h.cred.pcred h.inv.rel.nodup⟩

/-- PENDING OUTPUTS ARE NOT CONFIRMED ("the coins it creates are not counted as confirmed"): along every history in the
    domain of `pending_refines`, no output of a spec-pending transaction is in the unspent index — the table the
    balances and the coin listings are computed from (needs `HInv` only) -/
theorem pending_outputs_not_confirmed (rank : TxId → Nat) (E : HEnv) (w : HW) (evs : List HEv) (H : HInv rank E w)
    (hD : ∀ x ∈ worldsH E w evs, HOK rank E x.1 x.2) (hV : ChainValid E.own (runH E w evs).sp.chain) :
    ∀ t ∈ (runH E w evs).sp.pend, ∀ wl j, AMap.get (runH E w evs).s.unspent (wl, t.id, j) = none :=
  fun t ht wl j => pending_not_unspent (hinv_run evs w H hD) hV t ht wl j

/-- CONFIRMED EXACTLY ONCE, at history level ("when it confirms it becomes an ordinary ledger entry exactly once"): in a
    world satisfying `HInvC`, after the successful connect (inside the domain) of a block containing the spec-pending
    transaction `t`: `t` has left both pending sets, no pending-credit and no unmined-deposit record of `t` is left, and
    every owned output of `t` has its mined credit under that block (one per outpoint and block: the key) -/
theorem confirm_exactly_once_hist (rank : TxId → Nat) (E : HEnv) (w : HW) (H : HInvC rank E w) (b : Block)
    (D : HOK rank E w (.connect b)) (r : Store × List TxId)
    (hf : filterBlock (E.ctx w.node) w.s (readyWallets w.s E.wallets) b = .ok r)
    (t : Tx) (ht : t ∈ w.sp.pend) (htb : t ∈ b.txs) :
    t ∉ (stepH E w (.connect b)).sp.pend ∧
    AMap.get (stepH E w (.connect b)).s.pending t.id = none ∧
    (∀ j, AMap.get (stepH E w (.connect b)).s.pendCred (t.id, j) = none) ∧
    (∀ wl bb j, AMap.get (stepH E w (.connect b)).s.pendGame (wl, bb, t.id, j) = none) ∧
    (∀ j o, t.outs[j]? = some o → ownedOut E.env o = true →
      (AMap.get (stepH E w (.connect b)).s.credits ⟨t.id, ⟨b.height, b.id⟩, j⟩).isSome = true) :=
  confirm_once_hist H b D r hf t ht htb

/-- non-vacuity: the fresh wallet of `pending_refines` satisfies `HInvC`, the concrete history there (no disconnect) is
    inside `HOKc`; after it the model's pending credits are the spec's: none for T2 (it pays a stranger) -/
theorem exHInvC0 : HInvC exRankH exE exW0 :=
  ⟨exHInv0, ⟨fun _ _ _ h => (by cases h), fun _ h => (by cases h), fun _ _ _ _ h => (by cases h), fun _ h => (by cases h)⟩⟩

theorem mem_worldsH_ev (E : HEnv) : ∀ (evs : List HEv) (w : HW) (x : HW × HEv), x ∈ worldsH E w evs → x.2 ∈ evs := by
  intro evs
  induction evs with
  | nil => intro w x h; cases h
  | cons ev evs ih =>
    intro w x h
    simp only [worldsH, List.mem_cons] at h
    rcases h with rfl | h
    · exact List.mem_cons_self ..
    · exact List.mem_cons_of_mem _ (ih _ x h)

theorem exDomainC : ∀ x ∈ worldsH exE exW0 exEvs, HOKc exRankH exE x.1 x.2 := by
  intro x hx
  have h := exDomain x hx
  have hev := mem_worldsH_ev exE exEvs exW0 x hx
  obtain ⟨xw, xe⟩ := x
  cases xe with
  | node n => exact h
  | vol v => exact h
  | recv t =>
    have h' : RecvDom exRankH exE xw t := h
    exact ⟨h'.valid, h'.known, h'.srcN, h'.idx, h'.rank, h'.nobb, h'.seen, h'.fresh, h'.noconf⟩
  | connect b => exact h
  | disconnect => simp [exEvs] at hev

example : (runH exE exW0 exEvs).s.pendCred = [] ∧ pendingCredits exE.env (runH exE exW0 exEvs).sp.pend = [] := by decide

-- ---------------------------------------------------------------- Round 6: the DISCONNECT step, hence all histories

open MW.Lemmas.PendHist.CredRb in
/-- ROLLBACK RE-CREATES THE RECORDS, the loop.  The per-record loop of Rollback over the recorded ids `l` of block `b`
    (distinct, each with a readable record of a transaction of `b`; from ANY store) is a `CredGrow` over the
    transactions `t ∈ b.txs` with `t.id ∈ l`: a pending-credit record after the loop was there before or sits at
    (t.id, j), `t` non-coinbase, `j` an output index, and carries amount / class / script hash of the credit the START
    store has under (t.id, block, j); every such credit yields a record; the deposit bucket gains exactly the keys
    (wallet, isBinding, t.id, j) of the staking / binding outputs paying an owned address whose credit was present;
    nothing is removed; credits of other transactions keep amount / class / script hash -/
theorem rollback_loop_recreates_credits (c : Ctx) (b : Block) (blk : BlockMeta) (hbnd : (b.txs.map (·.id)).Nodup)
    (l : List TxId) (a a' : RbAcc) (h : l.foldlM (MW.Lemmas.PendHist.rbStep c blk) a = .ok a') (hnd : l.Nodup)
    (hrec : ∀ id ∈ l, ∃ loc t, AMap.get a.s.txrecs (id, blk) = some loc ∧ c.node.txByFileLoc loc = some t ∧
      t.id = id ∧ t ∈ b.txs) :
    CredGrow c.own blk (fun t => t ∈ b.txs ∧ t.id ∈ l) a.s a'.s := rbLoopC c b blk hbnd l a a' h hnd hrec

/-- the hypotheses are met by the tip block B2 of the concrete history below: its block record lists T1 only (the
    coinbase C2 pays a stranger), the ids of the block are distinct -/
example : (exB2.txs.map (·.id)).Nodup ∧ ["T1"].Nodup := by decide

open MW.Lemmas.PendHist.CredRb in
/-- DISCONNECT keeps the credit relation (store level): from a store satisfying C01's `Inv` for the chain `c0 ++ [b]`,
    `PendRel` and `CredRel` for `P`, after `disconnectBlock` of the tip — whose pending records are the list `P'`
    (`disconnect_refines_inv` provides `P' = onChainMoved … P`) — `CredRel` holds for `P'`.  The values of the
    re-created records are C01's (`MW.Props.C01.inv_credit_values`), their presence `inv_cb_credits`. -/
theorem disconnect_refines_credits (rank : TxId → Nat) (E : HEnv) (n : Node) (s s' : Store) (c0 : List Block) (b : Block)
    (P P' : List Tx)
    (hI : Inv (E.ctx n) s (c0 ++ [b])) (hV : ChainValid E.own (c0 ++ [b])) (hH : HeightsOK (c0 ++ [b]))
    (hk : AMap.get n.known b.id = some b)
    (hrel : PendRel rank s P) (hcr : CredRel E.env s P) (hcons : Consistent (c0 ++ [b]) P)
    (hbnd : (b.txs.map (·.id)).Nodup) (hrk : ∀ t ∈ b.txs, ∀ i ∈ t.ins, rank i.tx < rank t.id)
    (h : disconnectBlock (E.ctx n) s b.height = .ok s')
    (hrel' : PendRel rank s' P') : CredRel E.env s' P' :=
  disconnect_cred_store rank E n s s' c0 b P P' hI hV hH hk hrel hcr hcons hbnd hrk h hrel'

open MW.Lemmas.PendHist.CredRb in
/-- … and at history level: a disconnect step inside the domain of `pending_refines` keeps `HInvC` -/
theorem disconnect_step_credits (rank : TxId → Nat) (E : HEnv) (w : HW) (H : HInvC rank E w)
    (D : HOK rank E w .disconnect) : HInvC rank E (stepH E w .disconnect) :=
  hinvc_step_full H .disconnect D

open MW.Lemmas.PendHist.CredRb in
/-- CREDIT RELATION ALONG ALL HISTORIES (Round 6; `credit_refines_partial` without its hypothesis).  From a world
    satisfying `HInvC`, for every history inside `HOKf` = the domain `HOK` of `pending_refines` with the receive domain
    WITHOUT its residue clause — nothing is assumed about the two buckets —, after the history `HInv` and `CredRel` hold,
    and the raw dump `pcred` of the model is the specification's `pendingCredits` -/
theorem credit_refines (rank : TxId → Nat) (E : HEnv) (w : HW) (evs : List HEv) (H : HInvC rank E w)
    (hD : ∀ x ∈ worldsH E w evs, HOKf rank E x.1 x.2) :
    HInvC rank E (runH E w evs) ∧
    (∀ id j amt, (∃ cr, AMap.get (runH E w evs).s.pendCred (id, j) = some cr ∧ cr.amt = amt) ↔
      (id, j, amt) ∈ pendingCredits E.env (runH E w evs).sp.pend) :=
  have h := hinvc_run_full evs w H hD
  ⟨h, h.cred.pcred h.inv.rel.nodup⟩

open MW.Lemmas.PendHist.CredRb in
/-- non-vacuity: the history of `pending_refines` EXTENDED BY A DISCONNECT of B2 (T1 is un-confirmed: Rollback re-creates
    its pending credit from the mined one) is inside `HOKf` from the fresh wallet; after it both pending sets are
    {T1, T2}, the pending-credit bucket holds exactly (T1, 0) ↦ amount 10, standard, script hash A1 = the spec's -/
example : HInvC exRankH exE exW0 := exHInvC0
open MW.Lemmas.PendHist.CredRb in
example : ∀ x ∈ worldsH exE exW0 exEvs6, HOKf exRankH exE x.1 x.2 := exDomainF
open MW.Lemmas.PendHist.CredRb in
example : HOK exRankH exE exW5 .disconnect := exD6
open MW.Lemmas.PendHist.CredRb in
example :
    ((runH exE exW0 exEvs6).s.pending.map (·.1), (runH exE exW0 exEvs6).sp.pend.map (·.id)) = (["T1", "T2"], ["T2", "T1"]) ∧
    (runH exE exW0 exEvs6).s.pendCred.map (fun e => (e.1, e.2.amt, e.2.cls, e.2.sh)) = [(("T1", 0), 10, .standard, "A1")] ∧
    pendingCredits exE.env (runH exE exW0 exEvs6).sp.pend = [("T1", 0, 10)] := exRun6

end credits

-- ------------------------------------------------------------------ what is NOT proved here

open MW.Lemmas.PendHist in
/-- NOTIFY, the direct extension (the notified block's parent is the follower's best block): `processBlock` IS one
    connect step — same store; and the driver's one-shot `onChainMoved old (old ++ [b])` is literally the move `stepH`
    applies.  So for this (by far most frequent) kind of notification `pending_refines` speaks about the very function
    MW.Drv.Led executes. -/
theorem notify_extend_is_connect (E : HEnv) (w : HW) (b : Block) (hprev : b.prev = w.v.best.hash) :
    (stepH E w (.connect b)).s = (processBlock (E.ctx w.node) w.s w.v b).1 ∧
    (stepH E w (.connect b)).sp =
      (if (processBlock (E.ctx w.node) w.s w.v b).2.2 = true then
        Spec.Pending.step w.sp (.moved E.env (w.sp.chain ++ [b])) else w.sp) := by
  have hw : (E.ctx w.node).wallets = E.wallets := rfl
  unfold processBlock
  simp only [hprev, if_true, hw]
  cases hf : filterBlock (E.ctx w.node) w.s (readyWallets w.s E.wallets) b with
  | error e => simp [stepH, hf, bind, Except.bind]
  | ok r => simp [stepH, hf, bind, Except.bind, pure, Except.pure]

open MW.Lemmas.PendHist MW.Lemmas.PendHist.Notify in
/-- NOTIFY, the trace WITH HEIGHTS AND BLOCKS (Round 6; structural, no hypothesis): a successful notification is `n`
    `disconnectBlock` calls at the heights `v.best.height, v.best.height - 1, …` followed by the `filterBlock` calls on the
    blocks `bs`, all with the ready set read at the fork point -/
theorem notify_trace_heights (c : Ctx) (s s' : Store) (v v' : Vol) (b : Block)
    (h : processBlock c s v b = (s', v', true)) :
    ∃ sm n bs, DReachFrom c v.best.height s sm n ∧ CReachL c (readyWallets sm c.wallets) sm s' bs :=
  processBlock_trace_h c s s' v v' b h

open MW.Lemmas.PendHist MW.Lemmas.PendHist.Notify in
/-- NOTIFY, the trace IS A RUN OF `stepH` (Round 6): in a world satisfying `HInv` whose follower's best block is the tip of
    the wallet's chain (`v.best.height + 1` = length of the chain; C01's `processBlock_reaches` keeps `v.best = tipMeta`),
    such a trace is the run of the typed events  n × disconnect ++ connect bs  — every disconnect IS `stepH .disconnect`
    (the wallet's tip), every connect IS `stepH (.connect b)` (same ready set) — provided these events are inside the
    domain `HOK` of `pending_refines`; `HInv` holds after it -/
theorem notify_trace_is_run (rank : TxId → Nat) (E : HEnv) (w : HW) (H : HInv rank E w)
    (hbest : w.v.best.height + 1 = w.sp.chain.length) (sm s' : Store) (n : Nat) (bs : List Block)
    (hd : DReachFrom (E.ctx w.node) w.v.best.height w.s sm n)
    (hc : CReachL (E.ctx w.node) (readyWallets sm E.wallets) sm s' bs)
    (hD : ∀ x ∈ worldsH E w (notifyEvs n bs), HOK rank E x.1 x.2) :
    (runH E w (notifyEvs n bs)).s = s' ∧ HInv rank E (runH E w (notifyEvs n bs)) :=
  trace_run w H hbest hd hc hD

open MW.Lemmas.PendHist MW.Lemmas.PendHist.Notify in
/-- … hence A SUCCESSFUL NOTIFICATION (direct extension or reorganisation) IS A RUN OF `stepH`: it determines `n` and `bs`
    such that, whenever the events  n × disconnect ++ connect bs  are inside the domain, the store `processBlock`
    returns is the store of that run; so `pending_refines` / `credit_refines` speak about the function the driver executes
    (the MODEL side of `notify`; the specification side of that run is the block-by-block composition of
    `onChainMoved`, see `C09_full_notify_refinement` for what stays open) -/
theorem notify_is_run (rank : TxId → Nat) (E : HEnv) (w : HW) (H : HInv rank E w)
    (hbest : w.v.best.height + 1 = w.sp.chain.length) (b : Block) (s' : Store) (v' : Vol)
    (h : processBlock (E.ctx w.node) w.s w.v b = (s', v', true)) :
    ∃ n bs, (∀ x ∈ worldsH E w (notifyEvs n bs), HOK rank E x.1 x.2) →
      (runH E w (notifyEvs n bs)).s = s' ∧ HInv rank E (runH E w (notifyEvs n bs)) :=
  notify_run w H hbest b s' v' h

open MW.Lemmas.PendHist MW.Lemmas.PendHist.Notify MW.Lemmas.PendHist.Cred in
/-- … and with the credit relation: `HInvC` before the notification gives `HInvC` after it -/
theorem notify_is_run_credits (rank : TxId → Nat) (E : HEnv) (w : HW) (H : HInvC rank E w)
    (hbest : w.v.best.height + 1 = w.sp.chain.length) (b : Block) (s' : Store) (v' : Vol)
    (h : processBlock (E.ctx w.node) w.s w.v b = (s', v', true)) :
    ∃ n bs, (∀ x ∈ worldsH E w (notifyEvs n bs), HOK rank E x.1 x.2) →
      (runH E w (notifyEvs n bs)).s = s' ∧ HInvC rank E (runH E w (notifyEvs n bs)) :=
  notify_run_cred w H hbest b s' v' h

open MW.Lemmas.PendHist MW.Lemmas.PendHist.Notify MW.Lemmas.PendHist.Cred in
/-- non-vacuity, a REORGANISING notification: wallet chain G-B1-B2 (T1 confirmed in B2, T2 pending), follower's best block
    B2, node on G-B1-B2x, notify B2x.  The world satisfies `HInvC` and the best-block hypothesis, the notification
    succeeds, its trace is one disconnect at height 2 and the connect of B2x, both events are inside the domain, and the
    run ends in the store of the trace = the store `processBlock` returns (T1 and T2 pending, T1's credit back) -/
example : HInvC exRankH exE exV ∧ exV.v.best.height + 1 = exV.sp.chain.length ∧
    (processBlock (exE.ctx exV.node) exV.s exV.v exB2x).2.2 = true := ⟨exHInvCV, exBestV, exNotifyOk⟩
open MW.Lemmas.PendHist MW.Lemmas.PendHist.Notify in
example : DReachFrom (exE.ctx exV.node) exV.v.best.height exV.s exS6 1 ∧
    CReachL (exE.ctx exV.node) (readyWallets exS6 exE.wallets) exS6 exS7 [exB2x] ∧
    (∀ x ∈ worldsH exE exV (notifyEvs 1 [exB2x]), HOK exRankH exE x.1 x.2) := ⟨exTraceD, exTraceC, exDomainV⟩
open MW.Lemmas.PendHist MW.Lemmas.PendHist.Notify in
example :
    ((processBlock (exE.ctx exV.node) exV.s exV.v exB2x).1.pending.map (·.1),
     (runH exE exV (notifyEvs 1 [exB2x])).s.pending.map (·.1),
     (runH exE exV (notifyEvs 1 [exB2x])).sp.pend.map (·.id),
     (runH exE exV (notifyEvs 1 [exB2x])).s.pendCred.map (fun e => (e.1, e.2.amt))) =
    (["T1", "T2"], ["T1", "T2"], ["T2", "T1"], [(("T1", 0), 10)]) := exRunV_obs

/-- STILL OPEN (1): for a reorganising notification the driver's `notify` applies ONE `onChainMoved` from the old to the
    new chain, the model (and `pending_refines`) move block by block (`notify_is_steps`).  The statement that the one-shot
    settle has the same MEMBERS as the composition of the single-block moves is not proved.  (Round 4 stated it with `=`
    on lists; that form is not the right one: the one-shot form appends the un-confirmed transactions of the disconnected
    blocks in block order, the composition in reverse block order — every observation sorts.)  It is FALSE for a stale
    notification while a pending transaction conflicts with the wallet's lagging chain (notes/C09.md, Rounds 4 and 5).
    Round 6 closed the other half: the disconnect steps of `notify_is_steps` ARE at the wallet's tip (`stepH .disconnect`)
    and the notification's store is the store of the run of `stepH` (`notify_is_run`, with `v.best` = tip of the wallet's
    chain as a hypothesis on the world; C01's `processBlock_reaches` maintains it).  Round 6b: in THIS shape (Domain over
    the two whole chains) the statement is refuted (`notify_refinement_def_refuted`: false below the fork point); the
    corrected statement `C09_notify_refinement_at_fork` is PROVED (`notify_refinement`, domain `NotifyDom`). -/
def C09_full_notify_refinement (Domain : Spec.Pending.Env → List Block → List Block → List Tx → Prop) : Prop :=
  ∀ e c0 (old new : List Block) P, Domain e (c0 ++ old) (c0 ++ new) P →
    ∀ t, t ∈ Spec.Pending.onChainMoved e (c0 ++ old) (c0 ++ new) P ↔
      t ∈ ((List.range new.length).foldl (fun (cp : List Block × List Tx) k =>
          (c0 ++ new.take (k + 1), Spec.Pending.onChainMoved e cp.1 (c0 ++ new.take (k + 1)) cp.2))
        ((List.range old.length).foldl (fun (cp : List Block × List Tx) k =>
            (c0 ++ old.take (old.length - k - 1),
             Spec.Pending.onChainMoved e cp.1 (c0 ++ old.take (old.length - k - 1)) cp.2))
          (c0 ++ old, P))).2

open MW.Lemmas.PendHist.Compose in
/-- THE `def` ABOVE IS TOO STRONG AS SHAPED (Round 6b): its `Domain` sees only the two whole chains, so it cannot know the
    fork point, and the statement quantifies over EVERY common prefix `c0`.  Below the fork point it is false: with
    c0 = [], old = new = G-B1 (nothing moves) the one-shot move keeps the pending Tt, the composition disconnects G — the
    parent Pp of Tt spends G's coinbase — and drops it (`cx_below_fork`, by evaluation).  So no `Domain` that admits this
    (unmoved, perfectly ordinary) situation satisfies the `def`; the composition is only ever run from the fork point
    (`notify_trace_heights`: the model disconnects down to the fork point), the corrected statement is
    `C09_notify_refinement_at_fork`. -/
theorem notify_refinement_def_refuted (Domain : Spec.Pending.Env → List Block → List Block → List Tx → Prop)
    (hD : Domain cxE ([] ++ cxChain) ([] ++ cxChain) [cxT]) : ¬ C09_full_notify_refinement Domain :=
  fun h => cx_refutes (h cxE [] cxChain cxChain [cxT] hD cxT)

/-- the corrected statement: the domain knows the decomposition (`c0` = the common part up to the fork point) -/
def C09_notify_refinement_at_fork
    (Domain : Spec.Pending.Env → List Block → List Block → List Block → List Tx → Prop) : Prop :=
  ∀ e c0 (old new : List Block) P, Domain e c0 old new P →
    ∀ t, t ∈ Spec.Pending.onChainMoved e (c0 ++ old) (c0 ++ new) P ↔
      t ∈ ((List.range new.length).foldl (fun (cp : List Block × List Tx) k =>
          (c0 ++ new.take (k + 1), Spec.Pending.onChainMoved e cp.1 (c0 ++ new.take (k + 1)) cp.2))
        ((List.range old.length).foldl (fun (cp : List Block × List Tx) k =>
            (c0 ++ old.take (old.length - k - 1),
             Spec.Pending.onChainMoved e cp.1 (c0 ++ old.take (old.length - k - 1)) cp.2))
          (c0 ++ old, P))).2

open MW.Lemmas.PendHist.Compose in
/-- NOTIFY, SPECIFICATION SIDE (Round 6b): ONE `onChainMoved old new` (what the driver's spec applies per notification) has
    the same MEMBERS as the block-by-block composition (what `pending_refines` / `notify_is_run` use), inside `NotifyDom`:
    `c0` is the fork point (no block of the old branch on the new chain); ids of the pending transactions and of the
    transactions of the old branch pairwise distinct; the pending list consistent with the old chain; old branch valid
    (block ids distinct, a block's transactions neither on nor in conflict with the chain below, parents of block
    transactions on the chain, no transaction spends the coinbase of a higher block); every prefix of the new chain valid
    w.r.t. the candidates (a candidate on it is not conflicted by it, spends no coinbase of the old branch, has its
    parents on it).  Proof: `settle_extend` / `settle_shrink` (settle in two steps = settle once, through `Lost`). -/
theorem notify_refinement : C09_notify_refinement_at_fork NotifyDom :=
  fun e c0 old new P D t => notify_compose e c0 old new P D t

open MW.Lemmas.PendHist MW.Lemmas.PendHist.Compose MW.Lemmas.PendHist.Notify in
/-- the domain is met by the reorganising notification above (G-B1-B2 → G-B1-B2x, fork point G-B1, T2 pending); both
    sides are {T2, T1} there -/
example : NotifyDom exE.env [exG, exB1] [exB2] [exB2x] [exT2] := exNotifyDom

open MW.Lemmas.PendHist.Compose in
/-- NECESSITY of the coinbase clause of `NotifyDom` (Round 6c), AT the fork point: when the new branch carries the SAME
    coinbase transaction as the old one (G-B1(C1) → G-B1x(C1)-B2x(C2x, P), P pending spends C1:0, T pending spends P:0) the
    one-shot move confirms P and keeps T, the composition drops both (disconnecting B1 removes C1: P orphaned, T its
    child).  The model and the REAL CODE follow the composition: corpus-candidates/C09-same-coinbase-both-branches.ops,
    `./check C09 --replay`: impl = model `-`, spec `T:r`.  The clause is not implied by the validity of each branch. -/
theorem notify_dom_coinbase_necessary :
    ((Spec.Pending.onChainMoved scE ([scG] ++ scOld) ([scG] ++ scNew) [scP, scT]).map (·.id) = ["T"] ∧
     (connFold scE [scG] scNew (discFold scE [scG] scOld ([scG] ++ scOld, [scP, scT]))).2.map (·.id) = []) ∧
    ¬ NotifyDom scE [scG] scOld scNew [scP, scT] := ⟨sc_same_coinbase, sc_not_notifyDom⟩

open MW.Lemmas.PendHist MW.Lemmas.PendHist.Cred MW.Lemmas.PendHist.Notify MW.Lemmas.PendHist.Compose
  MW.Lemmas.PendHist.NotifySpec MW.Lemmas.Ledger in
/-- NOTIFY REFINES ONE `onChainMoved`, for a given trace (Round 6c).  World satisfying `HInvC`, follower's best block = the
    wallet's tip, wallet chain `c0 ++ old`; a trace of `old.length` disconnects and the connects of `bs` ending in the store
    `s'` (`notify_trace_heights` provides it for a successful `processBlock`); the events inside the domain `HOK` of
    `pending_refines`; the move inside `NotifyDom` (EXPLICIT hypothesis: `HOK` does not imply it — the coinbase clause,
    `notify_dom_coinbase_necessary`; the other clauses are facts of two valid branches).  Then `s'` holds the books of
    `c0 ++ bs` and its pending buckets represent (`PendRel`, `CredRel`) the pending list after ONE
    `Spec.Pending.onChainMoved (c0 ++ old) (c0 ++ bs)` — the move the driver's specification applies per notification. -/
theorem notify_trace_refines (rank : TxId → Nat) (E : HEnv) (w : HW) (H : HInvC rank E w)
    (hbest : w.v.best.height + 1 = w.sp.chain.length) (sm s' : Store) (n : Nat) (bs : List Block)
    (hd : DReachFrom (E.ctx w.node) w.v.best.height w.s sm n)
    (hc : CReachL (E.ctx w.node) (readyWallets sm E.wallets) sm s' bs)
    (c0 old : List Block) (hch : w.sp.chain = c0 ++ old) (hlen : old.length = n)
    (hD : ∀ x ∈ worldsH E w (notifyEvs n bs), HOK rank E x.1 x.2)
    (hN : NotifyDom E.env c0 old bs w.sp.pend) :
    Inv (E.ctx w.node) s' (c0 ++ bs) ∧
    PendRel rank s' (Spec.Pending.onChainMoved E.env (c0 ++ old) (c0 ++ bs) w.sp.pend) ∧
    CredRel E.env s' (Spec.Pending.onChainMoved E.env (c0 ++ old) (c0 ++ bs) w.sp.pend) :=
  trace_refines w H hbest hd hc c0 old hch hlen hD hN

open MW.Lemmas.PendHist MW.Lemmas.PendHist.Cred MW.Lemmas.PendHist.Notify MW.Lemmas.PendHist.Compose
  MW.Lemmas.PendHist.NotifySpec MW.Lemmas.Ledger in
/-- … and for the function the driver executes: a successful `processBlock` determines `n` and `bs` with the above -/
theorem notify_refines (rank : TxId → Nat) (E : HEnv) (w : HW) (H : HInvC rank E w)
    (hbest : w.v.best.height + 1 = w.sp.chain.length) (b : Block) (s' : Store) (v' : Vol)
    (h : processBlock (E.ctx w.node) w.s w.v b = (s', v', true)) :
    ∃ n bs, ∀ c0 old, w.sp.chain = c0 ++ old → old.length = n →
      (∀ x ∈ worldsH E w (notifyEvs n bs), HOK rank E x.1 x.2) → NotifyDom E.env c0 old bs w.sp.pend →
      Inv (E.ctx w.node) s' (c0 ++ bs) ∧
      PendRel rank s' (Spec.Pending.onChainMoved E.env (c0 ++ old) (c0 ++ bs) w.sp.pend) ∧
      CredRel E.env s' (Spec.Pending.onChainMoved E.env (c0 ++ old) (c0 ++ bs) w.sp.pend) :=
  MW.Lemmas.PendHist.NotifySpec.notify_refines w H hbest b s' v' h

open MW.Lemmas.PendHist MW.Lemmas.PendHist.Cred MW.Lemmas.PendHist.Notify MW.Lemmas.PendHist.Compose
  MW.Lemmas.PendHist.NotifySpec MW.Lemmas.Ledger in
/-- non-vacuity: the reorganising notification G-B1-B2 → G-B1-B2x meets every hypothesis of `notify_trace_refines`
    (`HInvC`, best block, trace, decomposition, `HOK`, `NotifyDom`); the conclusion on it; the one-shot list is {T2, T1} -/
example : HInvC exRankH exE exV ∧ exV.v.best.height + 1 = exV.sp.chain.length ∧
    DReachFrom (exE.ctx exV.node) exV.v.best.height exV.s exS6 1 ∧
    CReachL (exE.ctx exV.node) (readyWallets exS6 exE.wallets) exS6 exS7 [exB2x] ∧
    exV.sp.chain = [exG, exB1] ++ [exB2] ∧
    (∀ x ∈ worldsH exE exV (notifyEvs 1 [exB2x]), HOK exRankH exE x.1 x.2) ∧
    NotifyDom exE.env [exG, exB1] [exB2] [exB2x] exV.sp.pend :=
  ⟨exHInvCV, exBestV, exTraceD, exTraceC, exChainV, exDomainV, exNotifyDomV⟩
open MW.Lemmas.PendHist MW.Lemmas.PendHist.Notify MW.Lemmas.PendHist.NotifySpec in
example : (Spec.Pending.onChainMoved exE.env ([exG, exB1] ++ [exB2]) ([exG, exB1] ++ [exB2x]) exV.sp.pend).map (·.id) = ["T2", "T1"] ∧
    exS7.pending.map (·.1) = ["T1", "T2"] ∧
    (processBlock (exE.ctx exV.node) exV.s exV.v exB2x).1.pending.map (·.1) = ["T1", "T2"] := exRefines_obs

-- ------------------------------------------------------------------ Round 7: `NotifyDom` derived from `HOK` + `HInv`
section NotifyDomDerived
open MW.Lemmas.PendHist MW.Lemmas.PendHist.Cred MW.Lemmas.PendHist.Notify MW.Lemmas.PendHist.Compose
  MW.Lemmas.PendHist.NotifySpec MW.Lemmas.PendHist.NotifyDomD MW.Lemmas.Ledger

/-- the `DiscDom`s of the disconnect steps of a notification's run (inside `HOK`) describe the whole disconnected branch:
    every block of `old` satisfies the chain-level clauses w.r.t. the chain below it -/
theorem notify_old_branch_of_hok (rank : TxId → Nat) (E : HEnv) (w : HW) (H : HInv rank E w) (sm : Store) (n : Nat)
    (hbest : w.v.best.height + 1 = w.sp.chain.length)
    (hd : DReachFrom (E.ctx w.node) w.v.best.height w.s sm n)
    (hD : ∀ x ∈ worldsH E w (List.replicate n .disconnect), HOK rank E x.1 x.2)
    (c0 old : List Block) (hch : w.sp.chain = c0 ++ old) (hlen : old.length = n) : BranchOK E c0 old :=
  branch_of_run hd w rfl rfl H hbest hD c0 old hch hlen

/-- … and both branches from the whole run of the notification: `BranchOK` of the disconnected, `NewOK` (parents on the
    chain, `E.src`) of the connected one -/
theorem notify_branches_of_hok (rank : TxId → Nat) (E : HEnv) (w : HW) (H : HInvC rank E w)
    (hbest : w.v.best.height + 1 = w.sp.chain.length) (sm s' : Store) (n : Nat) (bs : List Block)
    (hd : DReachFrom (E.ctx w.node) w.v.best.height w.s sm n)
    (hc : CReachL (E.ctx w.node) (readyWallets sm E.wallets) sm s' bs)
    (c0 old : List Block) (hch : w.sp.chain = c0 ++ old) (hlen : old.length = n)
    (hD : ∀ x ∈ worldsH E w (notifyEvs n bs), HOK rank E x.1 x.2) :
    BranchOK E c0 old ∧ NewOK E c0 bs := trace_branches w H hbest hd hc c0 old hch hlen hD

/-- the G-B1-B2 → G-B1-B2x notification (hypotheses: the example after `notify_refines`) -/
example : BranchOK exE [exG, exB1] [exB2] ∧ NewOK exE [exG, exB1] [exB2x] := exBranches

/-- `NotifyDom.disc` (`DiscAll`: distinct ids, consistency, the three per-block clauses) IS A THEOREM of `HInv` and that -/
theorem notify_disc_derived (rank : TxId → Nat) (E : HEnv) (w : HW) (H : HInv rank E w) (c0 old : List Block)
    (hch : w.sp.chain = c0 ++ old) (B : BranchOK E c0 old) : DiscAll E.env c0 old w.sp.pend :=
  discAll_of_branch H c0 old hch B

/-- `NotifyDom` from `HInv`, the per-step domains of the run (`BranchOK` of the old, `NewOK` of the new branch) and the
    RESIDUE `NotifyRes`: `fork` (no block of the old branch on the new BRANCH), `cbfork` (no coinbase of the old branch on
    the new branch), `nodbl` (no cross-block double spend of a confirmed candidate inside the new branch) -/
theorem notify_dom_derived (rank : TxId → Nat) (E : HEnv) (w : HW) (H : HInv rank E w) (c0 old new : List Block)
    (hch : w.sp.chain = c0 ++ old) (B : BranchOK E c0 old) (N : NewOK E c0 new)
    (R : NotifyRes old new (w.sp.pend ++ backOf E.env old)) : NotifyDom E.env c0 old new w.sp.pend :=
  notifyDom_of H c0 old new hch B N R

/-- **NOTIFY REFINES ONE `onChainMoved`, `NotifyDom` DERIVED.**  `notify_refines` with the three-clause residue `NotifyRes`
    in place of `NotifyDom`: everything else of `NotifyDom` follows from `HInvC` and `HOK` along the run of the
    notification (and is returned as the first conjunct) -/
theorem notify_refines_derived (rank : TxId → Nat) (E : HEnv) (w : HW) (H : HInvC rank E w)
    (hbest : w.v.best.height + 1 = w.sp.chain.length) (b : Block) (s' : Store) (v' : Vol)
    (h : processBlock (E.ctx w.node) w.s w.v b = (s', v', true)) :
    ∃ n bs, ∀ c0 old, w.sp.chain = c0 ++ old → old.length = n →
      (∀ x ∈ worldsH E w (notifyEvs n bs), HOK rank E x.1 x.2) →
      NotifyRes old bs (w.sp.pend ++ backOf E.env old) →
      NotifyDom E.env c0 old bs w.sp.pend ∧
      Inv (E.ctx w.node) s' (c0 ++ bs) ∧
      PendRel rank s' (Spec.Pending.onChainMoved E.env (c0 ++ old) (c0 ++ bs) w.sp.pend) ∧
      CredRel E.env s' (Spec.Pending.onChainMoved E.env (c0 ++ old) (c0 ++ bs) w.sp.pend) :=
  notify_refines_res w H hbest b s' v' h

/-- non-vacuity: the G-B1-B2 → G-B1-B2x notification meets `NotifyRes`; `NotifyDom` and the conclusion are derived -/
example : NotifyRes [exB2] [exB2x] (exV.sp.pend ++ backOf exE.env [exB2]) := exNotifyResV
example : NotifyDom exE.env [exG, exB1] [exB2] [exB2x] exV.sp.pend :=
  notify_dom_derived exRankH exE exV exHInvCV.inv [exG, exB1] [exB2] [exB2x] exChainV exBranches.1 exBranches.2 exNotifyResV

/-- NECESSITY of `cbfork`: the same-coinbase move (replayed on the code, Round 6c) meets `fork` and `nodbl`, violates
    `cbfork`, and one move ≠ the composition there -/
theorem notify_res_cbfork_necessary :
    ((Spec.Pending.onChainMoved scE ([scG] ++ scOld) ([scG] ++ scNew) [scP, scT]).map (·.id) = ["T"] ∧
     (connFold scE [scG] scNew (discFold scE [scG] scOld ([scG] ++ scOld, [scP, scT]))).2.map (·.id) = []) ∧
    ((∀ x ∈ scOld, ∀ y ∈ scNew, y.id ≠ x.id) ∧
     (∀ k, k ≤ scNew.length → ∀ p ∈ [scP, scT] ++ backOf scE scOld, Spec.Pending.onChain (scNew.take k) p.id = true →
       Spec.Pending.conflictedBy (scNew.take k) p = false) ∧
     ¬ (∀ x ∈ scOld, ∀ u ∈ x.txs, u.cb = true → Spec.Pending.onChain scNew u.id = false)) :=
  ⟨sc_same_coinbase, sc_res_only_cbfork⟩

/-- NECESSITY of `nodbl`: a new branch B1x(U spends X:0)-B2x(P spends X:0) on G, P and its child T pending, meets `fork`
    and `cbfork`, violates `nodbl`; one move keeps T, the composition drops it; the move is outside `NotifyDom` -/
theorem notify_res_nodbl_necessary :
    ((Spec.Pending.onChainMoved dbE ([scG] ++ []) ([scG] ++ dbNew) [dbP, dbT]).map (·.id) = ["T"] ∧
     (connFold dbE [scG] dbNew (discFold dbE [scG] [] ([scG] ++ [], [dbP, dbT]))).2.map (·.id) = []) ∧
    ¬ (∀ k, k ≤ dbNew.length → ∀ p ∈ [dbP, dbT] ++ backOf dbE [], Spec.Pending.onChain (dbNew.take k) p.id = true →
      Spec.Pending.conflictedBy (dbNew.take k) p = false) ∧
    ¬ NotifyDom dbE [scG] [] dbNew [dbP, dbT] :=
  ⟨dbl_new_branch, dbl_res_only_nodbl.2.2, dbl_not_notifyDom⟩
end NotifyDomDerived

/-- FORMERLY OPEN (2), PROVED in Round 6: the credit relation along ALL histories of `pending_refines`, i.e.
    `credit_refines_partial` without the hypothesis at the disconnect steps.  Receive, connect and the purge of disconnect
    were proved in Round 5; the missing piece — the per-record loop of Rollback re-creates the pending credits / deposit
    records of the un-confirmed transactions with the values of the mined credit table — is `rollback_loop_recreates_credits`
    + C01's `inv_credit_values` (lemmas: MW/Lemmas/PendHistCredRollback.lean, MW/Lemmas/LedgerCredVal.lean).  The statement
    is the one the former `def` had. -/
theorem C09_full_credit_relation :
  ∀ (rank : TxId → Nat) (E : MW.Lemmas.PendHist.HEnv) (w : MW.Lemmas.PendHist.HW) (evs : List MW.Lemmas.PendHist.HEv),
    MW.Lemmas.PendHist.Cred.HInvC rank E w →
    (∀ x ∈ MW.Lemmas.PendHist.worldsH E w evs,
      match x.2 with
      | .recv t => MW.Lemmas.PendHist.Cred.RecvDomC rank E x.1 t
      | ev => MW.Lemmas.PendHist.HOK rank E x.1 ev) →
    MW.Lemmas.PendHist.Cred.CredRel E.env (MW.Lemmas.PendHist.runH E w evs).s (MW.Lemmas.PendHist.runH E w evs).sp.pend :=
  MW.Lemmas.PendHist.CredRb.credit_relation_full

/-- the hypotheses of `C09_full_credit_relation` are met by the fresh wallet and the history with a disconnect step -/
example : ∀ x ∈ MW.Lemmas.PendHist.worldsH MW.Lemmas.PendHist.exE MW.Lemmas.PendHist.exW0 MW.Lemmas.PendHist.CredRb.exEvs6,
    match x.2 with
    | .recv t => MW.Lemmas.PendHist.Cred.RecvDomC MW.Lemmas.PendHist.exRankH MW.Lemmas.PendHist.exE x.1 t
    | ev => MW.Lemmas.PendHist.HOK MW.Lemmas.PendHist.exRankH MW.Lemmas.PendHist.exE x.1 ev :=
  MW.Lemmas.PendHist.CredRb.exDomainF_match

-- ------------------------------------------------------------------ Round 7: the seen-set as STATE of the history world
section SeenState
open MW.Lemmas.PendHist MW.Lemmas.PendHist.Cred MW.Lemmas.PendHist.CredRb MW.Lemmas.PendHist.Seen MW.Spec.Pending

/-- THE SEEN-SET INVARIANT IS MAINTAINED.  World `HWS` = the history world + the ghost set `dead` of the ids that left
    "pending ∪ confirmed" (`stepS`); `SeenSt`: the follower's seen-set `Vol.mempool` ⊆ pending ∪ confirmed ∪ dead.  Every event
    inside `HOKS` keeps it (the naive "seen ⊆ pending ∪ confirmed" is false of model and code: a conflict-purged
    transaction keeps its id in the seen-set) -/
theorem seen_state_step (rank : TxId → Nat) (E : HEnv) (x : HWS) (H : HInvC rank E x.w) (hs : SeenSt x) (ev : HEv)
    (D : HOKS rank E x ev) : SeenSt (stepS E x ev) := seen_step H hs ev D

/-- the receive domain over that world implies the old one: `seen` is a consequence of the state invariant + `alive`,
    `fresh` of `conf` -/
theorem recv_domain_of_seen_state (rank : TxId → Nat) (E : HEnv) (x : HWS) (t : Tx) (hs : SeenSt x)
    (D : RecvDomS rank E x t) : RecvDomC rank E x.w t := D.toC hs

/-- **PENDING / CREDITS REFINE, SEEN-SET AS STATE** (`pending_refines` and `credit_refines` restated).  From a world with
    `HInvC` whose seen-set satisfies `SeenSt` (e.g. after a restart, `seenSt_restart`), for EVERY history inside `HOKS` —
    `HOK` where the receive domain has no `seen` / `fresh` clause (instead: `alive`, the node does not re-deliver a
    vanished transaction the follower still remembers, and `conf`, a delivered transaction that is on the wallet's chain
    has been seen) and a volatile change must produce a seen-set inside the invariant — after the history: `HInvC`, the
    seen-set invariant, and the four observations of `pending_refines` / `credit_refines`.  The model and specification
    components are those of `runH` (`runS_w`). -/
theorem pending_refines_seen (rank : TxId → Nat) (E : HEnv) (x : HWS) (evs : List HEv) (H : HInvC rank E x.w)
    (hs : SeenSt x) (hD : ∀ y ∈ worldsS E x evs, HOKS rank E y.1 y.2) :
    (runS E x evs).w = runH E x.w evs ∧ HInvC rank E (runS E x evs).w ∧ SeenSt (runS E x evs) ∧
    (∀ id, (AMap.get (runS E x evs).w.s.pending id).isSome = (runS E x evs).w.sp.pend.any (fun t => t.id = id)) ∧
    (∀ c i, spentByUnmined (runS E x evs).w.s c i = spentByPending (runS E x evs).w.sp.pend c i) ∧
    (∀ op id, Listed (runS E x evs).w.s op id ↔ ∃ t ∈ (runS E x evs).w.sp.pend, t.id = id ∧ Spends t op) ∧
    (∀ id j amt, (∃ cr, AMap.get (runS E x evs).w.s.pendCred (id, j) = some cr ∧ cr.amt = amt) ↔
      (id, j, amt) ∈ pendingCredits E.env (runS E x evs).w.sp.pend) :=
  have h := hoks_run evs x H hs hD
  ⟨runS_w E evs x, h.1, h.2.1, h.1.inv.rel.ids_eq, h.1.inv.rel.sbu, h.1.inv.rel.listed, h.1.cred.pcred h.1.inv.rel.nodup⟩

/-- every history inside `HOKS` is, projected to the world without ghost state, inside the domain `HOKf` of
    `credit_refines` (hence inside `HOK` of `pending_refines` with the residue clause a theorem) -/
theorem seen_domain_sound (rank : TxId → Nat) (E : HEnv) (x : HWS) (evs : List HEv) (H : HInvC rank E x.w)
    (hs : SeenSt x) (hD : ∀ y ∈ worldsS E x evs, HOKS rank E y.1 y.2) :
    ∀ y ∈ worldsH E x.w evs, HOKf rank E y.1 y.2 := (hoks_run evs x H hs hD).2.2

/-- THE OLD THEOREMS ARE COROLLARIES: a history inside the old domain `HOKf` (per-step `seen` / `fresh`) whose volatile
    events keep the seen-set inside the invariant is inside `HOKS`, whatever the ghost set; so `credit_refines` /
    `pending_refines` on such a history are instances of `pending_refines_seen` -/
theorem seen_domain_complete (rank : TxId → Nat) (E : HEnv) (x : HWS) (evs : List HEv) (H : HInvC rank E x.w)
    (hD : ∀ y ∈ worldsH E x.w evs, HOKf rank E y.1 y.2)
    (hV : ∀ y ∈ worldsS E x evs, ∀ v, y.2 = .vol v → SeenOK y.1 v.mempool) :
    ∀ y ∈ worldsS E x evs, HOKS rank E y.1 y.2 := hokf_embeds evs x H hD hV

/-- … in general (volatile events included): over the ghost set `ghost0` = what the follower remembers at the start and
    what the volatile events of the history install, the start world satisfies the seen-set invariant and EVERY history
    inside the old domain `HOKf` is inside `HOKS` -/
theorem seen_domain_complete_all (rank : TxId → Nat) (E : HEnv) (w : HW) (evs : List HEv) (H : HInvC rank E w)
    (hD : ∀ y ∈ worldsH E w evs, HOKf rank E y.1 y.2) :
    SeenSt (ghost0 w evs) ∧ ∀ y ∈ worldsS E (ghost0 w evs) evs, HOKS rank E y.1 y.2 := hokf_embeds_all evs w H hD

/-- `credit_refines` (statement unchanged) AS A COROLLARY of `pending_refines_seen` -/
theorem credit_refines_of_seen (rank : TxId → Nat) (E : HEnv) (w : HW) (evs : List HEv) (H : HInvC rank E w)
    (hD : ∀ x ∈ worldsH E w evs, HOKf rank E x.1 x.2) :
    HInvC rank E (runH E w evs) ∧
    (∀ id j amt, (∃ cr, AMap.get (runH E w evs).s.pendCred (id, j) = some cr ∧ cr.amt = amt) ↔
      (id, j, amt) ∈ pendingCredits E.env (runH E w evs).sp.pend) := by
  have e := hokf_embeds_all evs w H hD
  have h := pending_refines_seen rank E (ghost0 w evs) evs H e.1 e.2
  have h1 : (runS E (ghost0 w evs) evs).w = runH E w evs := h.1
  rw [← h1]
  exact ⟨h.2.1, h.2.2.2.2.2.2⟩

/-- non-vacuity: the round-6 history from the fresh wallet, empty ghost set: invariant at the start, inside `HOKS`;
    after it the seen-set is {T1, T2} (both pending again), the ghost set {C2} (coinbase of the disconnected B2) -/
example : HInvC exRankH exE exX0.w ∧ SeenSt exX0 ∧ (∀ y ∈ worldsS exE exX0 exEvs6, HOKS exRankH exE y.1 y.2) :=
  ⟨exHInvC0, exSeen0, exDomainS⟩
example : (runS exE exX0 exEvs6).w.v.mempool = ["T1", "T2"] ∧ (runS exE exX0 exEvs6).dead = ["C2"] ∧
    (runS exE exX0 exEvs6).w.sp.pend.map (·.id) = ["T2", "T1"] := exRunS_obs
end SeenState

/-- the former schematic statement over driver strings (kept for reference; `pending_refines` is its typed form) -/
def C09_full_history_refinement (Domain : List (List String) → Prop)
    (run : List (List String) → Store × List Tx) : Prop :=
  ∀ ops, Domain ops → ∀ id, (AMap.get (run ops).1.pending id).isSome = (run ops).2.any (fun t => t.id = id)

-- ------------------------------------------------------------------ byte level (Round 4): the pending record
section Codec
open MW.Model.TxmgrCodec MW.TxmgrCodec MW.Gen.Codec

/-- UNCONFIRM READABLE at byte level.  The value Rollback (and insertMemPoolTx) store under the transaction hash is
    `valueUnmined` = received time ‖ MsgTx.Bytes(wire.DB) (layout regenerated from txstore_db.go: MW.Gen.Codec.wValueUnmined /
    rRawUnmined; that both sides use wire.DB and that Rollback writes through valueUnmined + putRawUnmined with
    `rec.Received = rbBlock.Timestamp` are regenerated facts codec.pendingRecordMode / codec.pendingRecordWriters).
    For EVERY serialized transaction `ser` and EVERY received time `t` (int64 seconds) `readRawUnmined` splits it into exactly
    `t` and exactly `ser`, which it hands to MsgTx.SetBytes(…, wire.DB).  (That SetBytes inverts Bytes is mass-core's
    law — a parameter, sampled by the differential `pend` op on generated transactions.) -/
theorem codec_unconfirm_readable (ser : Bytes) (t : Int) (h1 : -(2 ^ 63 : Int) ≤ t) (h2 : t < 2 ^ 63) :
    readRawUnmined (valueUnmined ser t) = some (t, ser) := readRawUnmined_valueUnmined ser t h1 h2

/-- a negative and a maximal received time meet the hypotheses -/
example : readRawUnmined (valueUnmined [8, 1, 0x12] (-1)) = some (-1, [8, 1, 0x12]) ∧
    readRawUnmined (valueUnmined [] (2 ^ 63 - 1)) = some (2 ^ 63 - 1, []) := by decide

/-- pending credits / spender index (buckets `mc`, `mi`): the key is the canonical outpoint -/
theorem codec_outpoint_key_roundtrip (o : OutPointB) (h : o.WF = true) :
    readUnminedCreditKey (canonicalOutPoint o) = some o := readUnminedCreditKey_canonicalOutPoint o h
theorem codec_outpoint_key_inj (o o' : OutPointB) (h : o.WF = true) (h' : o'.WF = true)
    (he : canonicalOutPoint o = canonicalOutPoint o') : o = o' := canonicalOutPoint_inj o o' h h' he
example : (⟨List.replicate 32 0xff, 2 ^ 32 - 1⟩ : OutPointB).WF = true := by decide
end Codec

end MW.Props.C09
