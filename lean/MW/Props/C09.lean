/-
  C09 — Pending transactions are tracked exactly.   PROPERTY THEOREMS (pending part of MW.Model.Ledger).
-/
import MW.Model.Ledger
namespace MW.Props.C09
open MW MW.Model.Ledger

/-- a coin is flagged spent-by-unconfirmed exactly when the unmined-inputs bucket has its outpoint -/
theorem sbu_iff (s : Store) (tx : TxId) (i : Nat) :
    spentByUnmined s tx i = true ↔ (AMap.get s.pendIns (tx, i)).isSome = true := by
  unfold spentByUnmined; rfl

/-- recording a pending spend flags exactly that outpoint -/
theorem putPendIn_flags (m : AMap.T (TxId × Nat) (List TxId)) (k k' : TxId × Nat) (sp : TxId) :
    (AMap.get (putPendIn m k sp) k').isSome = (decide (k = k') || (AMap.get m k').isSome) := by
  unfold putPendIn
  rw [AMap.get_put]
  by_cases h : k = k' <;> simp [h]

end MW.Props.C09
