/-
  C09 — Pending transactions are tracked exactly.   PROPERTY THEOREMS (pending part of MW.Model.Ledger).

  The model functions are the ones the driver executes against the implementation (tie A): addRelevantUnmined
  (insertMemPoolTx + AddCredits), insertMinedTx (its pending part `confirmPending` = unpendMined ;
  removeDoubleSpends), removeConflict, purgeSpenders, rollbackTx.  Helper lemmas: MW/Lemmas/LedgerPending*.lean.

  `PendWF rank s` is the well-formedness of the three pending stores: the pending set `m` and the spender
  index `mi` describe each other (keys are ids; every listed spender is a pending transaction that spends the
  outpoint; every input of every pending transaction is listed; no empty list), and inputs refer to
  transactions of lower `rank` (transaction ids are hashes of the content including the input ids: a
  transaction is created after the ones it spends — e.g. rank = order of definition).  It holds for the empty
  store and is preserved by receive, confirm, conflict purge and the coinbase purge (`pendwf_*`).
-/
import MW.Model.Ledger
import MW.Lemmas.LedgerPendingOnly
import MW.Lemmas.LedgerPendingRollback
import MW.Lemmas.TxmgrCodecRec
namespace MW.Props.C09
open MW MW.Model.Ledger MW.Lemmas.LedgerPending

/-- a coin is flagged spent-by-unconfirmed exactly when the unmined-inputs bucket has its outpoint -/
theorem sbu_iff (s : Store) (tx : TxId) (i : Nat) :
    spentByUnmined s tx i = true ↔ (AMap.get s.pendIns (tx, i)).isSome = true := by
  unfold spentByUnmined; rfl

/-- recording a pending spend flags exactly that outpoint -/
theorem putPendIn_flags (m : AMap.T (TxId × Nat) (List TxId)) (k k' : TxId × Nat) (sp : TxId) :
    (AMap.get (putPendIn m k sp) k').isSome = (decide (k = k') || (AMap.get m k').isSome) := by
  unfold putPendIn
  rw [AMap.get_put]
  by_cases h : k = k' <;> simp [h]

-- ------------------------------------------------------------------ (1) conflict_purges

/-- CONFLICT PURGES, with TERMINATION.  From a well-formed store, `removeConflict` on a pending transaction
    with the fuel the model passes (`pending.length + 1`) or ANY larger fuel
    (a) computes the same store — the fuel is never the reason the recursion stops;
    (b) removes the transaction and every pending transaction reachable from it through the spender index
        (`Desc`), together with their pending credits and their memberships in the spender index;
    (c) removes nothing else: a pending transaction that disappeared is such a descendant;
    (d) never adds anything and leaves every mined bucket untouched (`Sub`);
    (e) frees the coins: afterwards a coin is flagged spent-by-unconfirmed only if a transaction that is
        still pending spends it;
    (f) ends in a well-formed store. -/
theorem conflict_purges (rank : TxId → Nat) (own : Own) (s : Store) (tx : Tx) (hw : PendWF rank s)
    (hroot : AMap.get s.pending tx.id = some tx) (fuel : Nat) (hf : s.pending.length + 1 ≤ fuel) :
    removeConflict own fuel s tx = removeConflict own (s.pending.length + 1) s tx ∧
    (∀ d, Desc s tx d → AMap.get (removeConflict own fuel s tx).pending d.id = none ∧
        (∀ j, j < d.outs.length → AMap.get (removeConflict own fuel s tx).pendCred (d.id, j) = none) ∧
        (∀ op, Spends d op → ¬ Listed (removeConflict own fuel s tx) op d.id)) ∧
    (∀ t, AMap.get s.pending t.id = some t → AMap.get (removeConflict own fuel s tx).pending t.id = none → Desc s tx t) ∧
    Sub (removeConflict own fuel s tx) s ∧
    (∀ c i, spentByUnmined (removeConflict own fuel s tx) c i = true →
        ∃ id t, AMap.get (removeConflict own fuel s tx).pending id = some t ∧ Spends t (c, i)) ∧
    PendWF rank (removeConflict own fuel s tx) := by
  obtain ⟨h1, h2, h3⟩ := removeConflict_wf rank own s tx hw hroot fuel hf
  refine ⟨h1, fun d hd => ?_, removeConflict_only own fuel s tx hw.key_id hroot, h2.step.sub,
    fun c i h => spender_of_flag h3 c i h, h3⟩
  obtain ⟨g1, g2⟩ := desc_gone hroot h2.step h2.gone hd
  exact ⟨g1, g2.1, g2.2⟩

/-- the descendant relation is not vacuous and the hypotheses are satisfiable: a chain P ← Q ← R of pending
    transactions (R spends Q spends P) built by three receives from the empty store -/
def exP : Tx := ⟨"P", false, [⟨"C", 0, 0⟩], [⟨"A1", 5, .std⟩]⟩
def exQ : Tx := ⟨"Q", false, [⟨"P", 0, 0⟩], [⟨"A1", 4, .std⟩]⟩
def exR : Tx := ⟨"R", false, [⟨"Q", 0, 0⟩, ⟨"C", 1, 0⟩], [⟨"X", 3, .std⟩]⟩
def exRank : TxId → Nat | "P" => 1 | "Q" => 2 | "R" => 3 | _ => 0
def exRel (i : Nat) (o : Out) : Rel := ⟨i, o, "W", false⟩
def exS1 : Store := match addRelevantUnmined {} { tx := exP, relOut := [exRel 0 ⟨"A1", 5, .std⟩] } with | .ok s => s | .error _ => {}
def exS2 : Store := match addRelevantUnmined exS1 { tx := exQ, relOut := [exRel 0 ⟨"A1", 4, .std⟩] } with | .ok s => s | .error _ => {}
def exS3 : Store := match addRelevantUnmined exS2 { tx := exR } with | .ok s => s | .error _ => {}

theorem pendwf_empty (rank : TxId → Nat) : PendWF rank ({} : Store) := by
  refine ⟨fun _ _ h => ?_, fun _ _ h => ?_, fun _ _ h => ?_, fun _ h => ?_, fun _ _ h => ?_⟩
  · cases h
  · obtain ⟨_, h, _⟩ := h; cases h
  · cases h
  · cases h
  · cases h

/-- TEST (evaluation of one instance, not a theorem about all inputs): purging P from the chain store removes
    P, Q and R, every pending credit and every spender entry — including R's entry for the foreign coin C:1 -/
example : (removeConflict [] (exS3.pending.length + 1) exS3 exP).pending = [] ∧
    (removeConflict [] (exS3.pending.length + 1) exS3 exP).pendIns = [] ∧
    (removeConflict [] (exS3.pending.length + 1) exS3 exP).pendCred = [] ∧
    exS3.pending.length = 3 := by decide

example : ∃ s : Store, PendWF exRank s ∧ AMap.get s.pending exP.id = some exP ∧ Desc s exP exR := by
  have h1 : addRelevantUnmined {} { tx := exP, relOut := [exRel 0 ⟨"A1", 5, .std⟩] } = .ok exS1 := by rfl
  have h2 : addRelevantUnmined exS1 { tx := exQ, relOut := [exRel 0 ⟨"A1", 4, .std⟩] } = .ok exS2 := by rfl
  have h3 : addRelevantUnmined exS2 { tx := exR } = .ok exS3 := by rfl
  have w1 := addRelevantUnmined_wf exRank _ _ _ (pendwf_empty exRank) h1 (by decide) (by decide)
  have w2 := addRelevantUnmined_wf exRank _ _ _ w1 h2 (by decide) (by decide)
  have w3 := addRelevantUnmined_wf exRank _ _ _ w2 h3 (by decide) (by decide)
  refine ⟨exS3, w3, by decide, ?_⟩
  have eQ : Edge exS3 exP exQ := ⟨0, by decide, ⟨["Q"], by decide, by decide⟩, by decide⟩
  have eR : Edge exS3 exQ exR := ⟨0, by decide, ⟨["R"], by decide, by decide⟩, by decide⟩
  exact Desc.step (Desc.step Desc.root eQ) eR

/-- CONFLICT PURGES, as the block handler runs it (removeDoubleSpends on a confirmed transaction `tr`, relevant
    or not): every pending transaction `d` that spends an input of `tr` — any input — is gone with all its
    descendants and their pending credits; the inputs of `tr` have no spender entry left. -/
theorem conflict_purges_on_confirm (rank : TxId → Nat) (own : Own) (s : Store) (tr : TxRec) (hw : PendWF rank s) :
    Sub (removeDoubleSpends own s tr) s ∧
    (∀ i ∈ tr.tx.ins, spentByUnmined (removeDoubleSpends own s tr) i.tx i.idx = false) ∧
    (∀ i ∈ tr.tx.ins, ∀ d, Listed s (i.tx, i.idx) d.id → AMap.get s.pending d.id = some d →
      ∀ e, Desc s d e → AMap.get (removeDoubleSpends own s tr).pending e.id = none ∧
        (∀ j, j < e.outs.length → AMap.get (removeDoubleSpends own s tr).pendCred (e.id, j) = none)) := by
  obtain ⟨h1, h2, h3⟩ := removeDoubleSpends_spec rank own s tr hw.weak hw.noEmpty
  refine ⟨h1, fun i hi => ?_, h3⟩
  unfold spentByUnmined; rw [h2 i hi]; rfl

-- ------------------------------------------------------------------ (2) pending_flagged

/-- PENDING FLAGGED.  Receiving a transaction that was not pending (addRelevantUnmined succeeds) makes it
    pending, flags EVERY coin it spends as spent-by-unconfirmed, and records each relevant output as a pending
    credit only: it is not in the unspent index (hence in no balance and in no coin listing). -/
theorem pending_flagged (s s' : Store) (tr : TxRec) (h : addRelevantUnmined s tr = .ok s')
    (hnew : AMap.get s.pending tr.tx.id = none) :
    AMap.get s'.pending tr.tx.id = some tr.tx ∧
    (∀ i ∈ tr.tx.ins, spentByUnmined s' i.tx i.idx = true) ∧
    (∀ rel ∈ tr.relOut, (AMap.get s'.pendCred (tr.tx.id, rel.index)).isSome = true ∧
      AMap.get s'.unspent (rel.wallet, tr.tx.id, rel.index) = none) ∧
    minedOf s' = minedOf s := by
  obtain ⟨h1, _, h3, _, h5⟩ := addRelevantUnmined_new s s' tr h hnew
  refine ⟨by rw [h1, AMap.get_put]; simp, fun i hi => (addRelevantUnmined_flags s s' tr h hnew i hi).2, h5, h3⟩

/-- … and the flag stays as long as the transaction is pending: in every well-formed store each input of each
    pending transaction is flagged, and a flagged coin has a pending spender (`pendwf_*` below: every pending-side
    operation keeps the store well-formed). -/
theorem flagged_while_pending (rank : TxId → Nat) (s : Store) (hw : PendWF rank s) :
    (∀ id t, AMap.get s.pending id = some t → ∀ i ∈ t.ins, spentByUnmined s i.tx i.idx = true) ∧
    (∀ c i, spentByUnmined s c i = true → ∃ id t, AMap.get s.pending id = some t ∧ Spends t (c, i)) :=
  ⟨fun id t hp i hi => flagged_of_wf hw id t hp i hi, fun c i h => spender_of_flag hw c i h⟩

example : addRelevantUnmined {} { tx := exP, relOut := [exRel 0 ⟨"A1", 5, .std⟩] } = .ok exS1 ∧
    AMap.get ({} : Store).pending exP.id = none := ⟨by rfl, by decide⟩

theorem pendwf_receive (rank : TxId → Nat) (s s' : Store) (tr : TxRec) (hw : PendWF rank s)
    (h : addRelevantUnmined s tr = .ok s') (hnew : AMap.get s.pending tr.tx.id = none)
    (hrank : ∀ i ∈ tr.tx.ins, rank i.tx < rank tr.tx.id) : PendWF rank s' :=
  addRelevantUnmined_wf rank s s' tr hw h hnew hrank

theorem pendwf_confirm (rank : TxId → Nat) (own : Own) (s : Store) (tr : TxRec) (hw : PendWF rank s)
    (hsame : ∀ t, AMap.get s.pending tr.tx.id = some t → t = tr.tx) : PendWF rank (confirmPending own s tr) :=
  confirmPending_wf rank own s tr hw hsame

theorem pendwf_coinbase_purge (rank : TxId → Nat) (own : Own) (s : Store) (op : TxId × Nat) (hw : PendWF rank s) :
    PendWF rank (purgeSpenders own s op) := purgeSpenders_wf rank own s op hw

example : ∀ t, AMap.get exS3.pending exQ.id = some t → t = exQ := by decide

-- ------------------------------------------------------------------ (3) confirm_once

/-- CONFIRM ONCE.  insertMinedTx of a transaction without a record in that block runs the mined bookkeeping,
    which leaves the pending stores alone, and then `confirmPending`; afterwards, exactly:
    the transaction is not pending; if it was pending, none of its outputs has a pending credit; none of its
    inputs has a spender entry (so none is flagged); nothing was added to the pending stores. -/
theorem confirm_once (rank : TxId → Nat) (own : Own) (s s' : Store) (bals bals' : Bals) (tr : TxRec) (blk : BlockMeta)
    (hw : PendWF rank s) (h : insertMinedTx own s bals tr blk = .ok (s', bals', false)) :
    AMap.get s'.pending tr.tx.id = none ∧
    ((AMap.get s.pending tr.tx.id).isSome = true → ∀ j, j < tr.tx.outs.length → AMap.get s'.pendCred (tr.tx.id, j) = none) ∧
    (∀ i ∈ tr.tx.ins, AMap.get s'.pendIns (i.tx, i.idx) = none ∧ spentByUnmined s' i.tx i.idx = false) ∧
    (∀ id t, AMap.get s'.pending id = some t → AMap.get s.pending id = some t) ∧
    (∀ k, AMap.get s.pendCred k = none → AMap.get s'.pendCred k = none) ∧
    (∀ op id, Listed s' op id → Listed s op id) := by
  obtain ⟨s1, hside, rfl⟩ := insertMinedTx_pending own s bals tr blk s' bals' h
  simp only [pendSide, Prod.mk.injEq] at hside
  obtain ⟨e1, e2, e3, _⟩ := hside
  have hw1 : WFw rank s1 := by
    obtain ⟨a, b, c⟩ := hw.weak
    exact ⟨fun id t hg => a id t (by rw [← e1]; exact hg),
      fun op id t hl hg => b op id t (by unfold Listed at *; rw [← e2]; exact hl) (by rw [← e1]; exact hg),
      fun id t hg => c id t (by rw [← e1]; exact hg)⟩
  have hne1 : NoEmpty s1 := fun op => by rw [e2]; exact hw.noEmpty op
  obtain ⟨c1, c2, c3, c4, _⟩ := confirmPending_spec rank own s1 tr hw1 hne1
  refine ⟨c2, fun hp j hj => c3 (by rw [e1]; exact hp) j hj, fun i hi => ⟨c4 i hi, ?_⟩,
    fun id t hg => by rw [← e1]; exact c1.pending_some hg, fun k hk => c1.cred k (by rw [e3]; exact hk),
    fun op id hl => by have := c1.ins op id hl; unfold Listed at *; rw [← e2]; exact this⟩
  unfold spentByUnmined; rw [c4 i hi]; rfl

/-- TEST: Q of the chain store confirms (no mined credit involved): Q leaves the pending set, its pending credit
    and its spender entry go; R — which spends Q's output, a descendant, not a conflict — stays pending. -/
example : (match insertMinedTx [] exS3 [] { tx := exQ } ⟨7, "B7"⟩ with
    | .ok (s', _, false) => (s'.pending.map (·.1), s'.pendCred.map (·.1), s'.pendIns.map (·.1))
    | _ => ([], [], [])) = (["R", "P"], [("P", 0)], [("C", 1), ("Q", 0), ("C", 0)]) := by decide

-- ------------------------------------------------------------------ (4) unconfirm_readable

/-- UNCONFIRM READABLE.  Rolling back a non-coinbase transaction record puts `pending[id] = tx` — the very
    transaction the node returned for the stored file location, so the pending record reads back to it —,
    one spender entry per input (every input flagged), and for every output index: the mined credit is gone and,
    where the credit table (after the input loop, which only un-spends credits of OTHER transactions unless the
    transaction spent its own output) held one, the pending credit is that credit with the spender link cleared.
    The byte-level encode/decode round trip of the pending value is tied by the `pend` observation (`T:r`). -/
theorem unconfirm_readable (c : Ctx) (s s' : Store) (bals bals' : Bals) (blk : BlockMeta) (id : TxId)
    (rem : List (TxId × Nat)) (loc : BlkId × Nat) (tx : Tx)
    (h : rollbackTx c s bals blk id = .ok (s', bals', rem))
    (hloc : AMap.get s.txrecs (id, blk) = some loc) (htx : c.node.txByFileLoc loc = some tx) (hcb : tx.cb = false) :
    AMap.get s'.pending id = some tx ∧
    (∀ i ∈ tx.ins, Listed s' (i.tx, i.idx) id ∧ spentByUnmined s' i.tx i.idx = true) ∧
    (∀ op x, Listed s op x → Listed s' op x) ∧
    rem = [] ∧
    ∃ sb1, foldIdxM (rollbackIn c id blk) tx.ins 0
        ({ s with txrecs := AMap.erase s.txrecs (id, blk), pending := AMap.put s.pending id tx }, bals) = .ok sb1 ∧
      sb1.1.pendCred = s.pendCred ∧
      ∀ j, j < tx.outs.length →
        AMap.get s'.credits ⟨id, blk, j⟩ = none ∧
        AMap.get s'.pendCred (id, j) = (match AMap.get sb1.1.credits ⟨id, blk, j⟩ with
          | some cr => some (unminedOfMined cr)
          | none => AMap.get s.pendCred (id, j)) :=
  rollbackTx_unconfirm c s s' bals bals' blk id rem loc tx h hloc htx hcb

/-- UNCONFIRM keeps the store well-formed: the rolled-back transaction is stored under its own id, was not pending
    (a transaction is pending or mined, not both) and respects the rank -/
theorem pendwf_unconfirm (rank : TxId → Nat) (c : Ctx) (s s' : Store) (bals bals' : Bals) (blk : BlockMeta) (id : TxId)
    (rem : List (TxId × Nat)) (loc : BlkId × Nat) (tx : Tx) (hw : PendWF rank s)
    (h : rollbackTx c s bals blk id = .ok (s', bals', rem))
    (hloc : AMap.get s.txrecs (id, blk) = some loc) (htx : c.node.txByFileLoc loc = some tx) (hcb : tx.cb = false)
    (hid : tx.id = id) (hnew : AMap.get s.pending id = none) (hrank : ∀ i ∈ tx.ins, rank i.tx < rank id) :
    PendWF rank s' :=
  rollbackTx_wf rank c s s' bals bals' blk id rem loc tx hw h hloc htx hcb hid hnew hrank

/-- the hypotheses of `unconfirm_readable` / `pendwf_unconfirm` are satisfiable (TEST by evaluation): a store whose
    only record is Q in block B7, the node returns Q for that location -/
def exNode : Node := { chain := [], known := [("B7", ⟨"B7", "B6", 7, [exQ]⟩)] }
def exCtx : Ctx := { p := {}, own := [], wallets := [], node := exNode }
def exMined : Store := { txrecs := [(("Q", ⟨7, "B7"⟩), ("B7", 0))] }
example : (match rollbackTx exCtx exMined [] ⟨7, "B7"⟩ "Q" with
    | .ok (s', _, rem) => (s'.pending.map (·.1), s'.pendIns, rem)
    | .error _ => ([], [], [])) = (["Q"], [(("P", 0), ["Q"])], []) ∧
    AMap.get exMined.txrecs ("Q", ⟨7, "B7"⟩) = some ("B7", 0) ∧ exCtx.node.txByFileLoc ("B7", 0) = some exQ ∧
    exQ.cb = false ∧ exQ.id = "Q" ∧ AMap.get exMined.pending "Q" = none := by decide

/-- … and that store is well-formed, Q respects the rank -/
example : PendWF exRank exMined ∧ (∀ i ∈ exQ.ins, exRank i.tx < exRank "Q") := by
  refine ⟨⟨fun _ _ h => ?_, fun _ _ h => ?_, fun _ _ h => ?_, fun _ h => ?_, fun _ _ h => ?_⟩, by decide⟩
  · cases h
  · obtain ⟨_, h, _⟩ := h; cases h
  · cases h
  · cases h
  · cases h

-- ------------------------------------------------------------------ what is NOT proved here

/-- FULL statement of the history-level property (NOT proved; tied by the three-way correspondence on generated
    histories): for every history of driver operations inside the compared domain `Domain` (valid chains, deliveries
    a node would relay — see notes/C09.md), the ids of the model's pending set are the ids of the specification's
    pending set `MW.Spec.Pending`.  What is proved above are the per-operation facts on the pending side and the
    invariant `PendWF`; the missing part is the simulation argument over histories, which also needs the mined-side
    invariant of C01 (which block transactions filterTx finds relevant is decided from the credit table). -/
def C09_full_history_refinement (Domain : List (List String) → Prop)
    (run : List (List String) → Store × List Tx) : Prop :=
  ∀ ops, Domain ops → ∀ id, (AMap.get (run ops).1.pending id).isSome = (run ops).2.any (fun t => t.id = id)

-- ------------------------------------------------------------------ byte level (Round 4): the pending record
section Codec
open MW.Model.TxmgrCodec MW.TxmgrCodec MW.Gen.Codec

/-- UNCONFIRM READABLE at byte level.  The value Rollback (and insertMemPoolTx) store under the transaction hash is
    `valueUnmined` = received time ‖ MsgTx.Bytes(wire.DB) (layout regenerated from txstore_db.go: MW.Gen.Codec.wValueUnmined /
    rRawUnmined; that both sides use wire.DB and that Rollback writes through valueUnmined + putRawUnmined with
    `rec.Received = rbBlock.Timestamp` are regenerated facts codec.pendingRecordMode / codec.pendingRecordWriters).
    For EVERY serialized transaction `ser` and EVERY received time `t` (int64 seconds) `readRawUnmined` splits it into exactly
    `t` and exactly `ser`, which it hands to MsgTx.SetBytes(…, wire.DB).  (That SetBytes inverts Bytes is mass-core's
    law — a parameter, sampled by the differential `pend` op on generated transactions.) -/
theorem codec_unconfirm_readable (ser : Bytes) (t : Int) (h1 : -(2 ^ 63 : Int) ≤ t) (h2 : t < 2 ^ 63) :
    readRawUnmined (valueUnmined ser t) = some (t, ser) := readRawUnmined_valueUnmined ser t h1 h2

/-- a negative and a maximal received time meet the hypotheses -/
example : readRawUnmined (valueUnmined [8, 1, 0x12] (-1)) = some (-1, [8, 1, 0x12]) ∧
    readRawUnmined (valueUnmined [] (2 ^ 63 - 1)) = some (2 ^ 63 - 1, []) := by decide

/-- pending credits / spender index (buckets `mc`, `mi`): the key is the canonical outpoint -/
theorem codec_outpoint_key_roundtrip (o : OutPointB) (h : o.WF = true) :
    readUnminedCreditKey (canonicalOutPoint o) = some o := readUnminedCreditKey_canonicalOutPoint o h
theorem codec_outpoint_key_inj (o o' : OutPointB) (h : o.WF = true) (h' : o'.WF = true)
    (he : canonicalOutPoint o = canonicalOutPoint o') : o = o' := canonicalOutPoint_inj o o' h h' he
example : (⟨List.replicate 32 0xff, 2 ^ 32 - 1⟩ : OutPointB).WF = true := by decide
end Codec

end MW.Props.C09
