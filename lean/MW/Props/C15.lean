/-
  C15 — Amount strings and integer amounts convert exactly.   PROPERTY THEOREMS ONLY.
  Model: MW.Model.Amount (api.StringToAmount / AmountToString as written);  Spec: MW.Spec.Amount.
-/
import MW.Model.Amount
import MW.Spec.Amount
namespace MW.Props.C15
open MW MW.Dec

/-- out-of-range integers are rejected by formatting -/
theorem format_rejects (m : Int) (h : m < 0 ∨ m > (Model.Amount.maxAmount : Int)) :
    Model.Amount.format m = .error .range := by
  unfold Model.Amount.format
  rcases h with h | h
  · have : ¬ m > (Model.Amount.maxAmount : Int) := by omega
    simp [this, h]
  · simp [h]

end MW.Props.C15
