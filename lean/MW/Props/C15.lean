/-
  C15 — Amount strings and integer amounts convert exactly.   PROPERTY THEOREMS ONLY.
  Model: MW.Model.Amount (api.StringToAmount / AmountToString as written);  Spec: MW.Spec.Amount.
  Every theorem below is for ALL byte strings / ALL integers (no sampling); helper lemmas live in
  MW/Lemmas/Dec*.lean and MW/Lemmas/Amount*.lean.  `example`s show that hypotheses are satisfiable.
-/
import MW.Model.Amount
import MW.Spec.Amount
import MW.Lemmas.AmountParse
import MW.Lemmas.AmountFormat
import MW.Lemmas.AmountCli
namespace MW.Props.C15
open MW MW.Dec

/-! ## 1. parsing: the model accepts exactly the spec's numerals, with exactly the spec's value -/

/-- for every byte string the model of `StringToAmount` succeeds iff the spec accepts, with the same value.
    (In particular the int64 range check of ParseInt and the MaxMass check never reject a string whose
    value is within the supply, and never let one through that is not.) -/
theorem parse_accepts_iff (s : Bytes) : (Model.Amount.parse s).toOption = Spec.Amount.parse s :=
  Model.Amount.parse_toOption s

/-- the same, as an iff on results -/
theorem parse_ok_iff (s : Bytes) (v : Nat) : Model.Amount.parse s = .ok v ↔ Spec.Amount.parse s = some v := by
  rw [← parse_accepts_iff]
  cases Model.Amount.parse s with
  | ok a => simp [Except.toOption]
  | error e => simp [Except.toOption]

/-- and on errors: the model fails (with whatever error) iff the spec rejects -/
theorem parse_error_iff (s : Bytes) : (∃ e, Model.Amount.parse s = .error e) ↔ Spec.Amount.parse s = none := by
  rw [← parse_accepts_iff]
  cases Model.Amount.parse s with
  | ok a => simp [Except.toOption]
  | error e => simp [Except.toOption]

/-! ## 2. formatting: on [0, maxAmount] the model prints the spec's string; outside it fails -/

/-- out-of-range integers are rejected by formatting -/
theorem format_rejects (m : Int) (h : m < 0 ∨ m > (Model.Amount.maxAmount : Int)) :
    Model.Amount.format m = .error .range := by
  unfold Model.Amount.format
  rcases h with h | h
  · have : ¬ m > (Model.Amount.maxAmount : Int) := by omega
    simp [this, h]
  · simp [h]

example : (-1 : Int) < 0 ∨ (-1 : Int) > (Model.Amount.maxAmount : Int) := Or.inl (by decide)
example : (20643840000000001 : Int) < 0 ∨ (20643840000000001 : Int) > (Model.Amount.maxAmount : Int) :=
  Or.inr (by decide)

/-- in-range integers are printed as the spec's shortest plain decimal -/
theorem format_spec (m : Int) (h0 : 0 ≤ m) (h1 : m ≤ (Model.Amount.maxAmount : Int)) :
    Model.Amount.format m = .ok (Spec.Amount.format m.toNat) :=
  Model.Amount.format_in_range h0 h1

example : (0 : Int) ≤ 150000000 ∧ (150000000 : Int) ≤ (Model.Amount.maxAmount : Int) := by decide

/-! ## 3. round trip -/

/-- spec level: parsing the formatted amount gives the amount back -/
theorem spec_parse_format (m : Nat) (h : m ≤ Spec.Amount.maxAmount) :
    Spec.Amount.parse (Spec.Amount.format m) = some m :=
  Spec.Amount.parse_format h

/-- model level: `StringToAmount` of the formatted string is the amount -/
theorem parse_format (m : Nat) (h : m ≤ Spec.Amount.maxAmount) :
    Model.Amount.parse (Spec.Amount.format m) = .ok m :=
  (parse_ok_iff _ _).mpr (Spec.Amount.parse_format h)

/-- model level, both directions composed: `StringToAmount(AmountToString(m)) = m` -/
theorem parse_format_model (m : Int) (h0 : 0 ≤ m) (h1 : m ≤ (Model.Amount.maxAmount : Int)) :
    ∃ s, Model.Amount.format m = .ok s ∧ Model.Amount.parse s = .ok m.toNat := by
  refine ⟨_, format_spec m h0 h1, parse_format _ ?_⟩
  have : Spec.Amount.maxAmount = Model.Amount.maxAmount := rfl
  omega

example : (12345678 : Nat) ≤ Spec.Amount.maxAmount := by decide

/-! ## 4. the formatted string is canonical and (almost) the shortest accepted spelling -/

/-- structure of the output: the canonical rendering of m / 10^8, then nothing (iff m is a whole number of
    MASS) or a point followed by 1…8 digits the last of which is not `0` -/
theorem format_canonical (m : Nat) :
    ∃ ip fp : Bytes, ip = render (m / 10 ^ 8) ∧ fp.all isDigit = true ∧ fp.length ≤ 8 ∧
      (∀ init b, fp = init ++ [b] → b ≠ c0) ∧
      ((fp = [] ∧ m % 10 ^ 8 = 0 ∧ Spec.Amount.format m = ip) ∨
       (fp ≠ [] ∧ m % 10 ^ 8 ≠ 0 ∧ Spec.Amount.format m = ip ++ dot :: fp)) := by
  obtain ⟨ip, fp, h1, _, h3, h4, h5, h6⟩ := Spec.Amount.format_structure m
  exact ⟨ip, fp, h1, h3, h4, h5, h6⟩

/-- no sign (nor any byte other than digits and the point), at most one point -/
theorem format_no_sign (m : Nat) :
    (∀ b ∈ Spec.Amount.format m, isDigit b = true ∨ b = dot) ∧ (Spec.Amount.format m).count dot ≤ 1 :=
  Spec.Amount.format_bytes m

/-- starts with a digit: not empty, no bare leading point -/
theorem format_head_digit (m : Nat) : ∃ d rest, Spec.Amount.format m = d :: rest ∧ isDigit d = true :=
  Spec.Amount.format_head_digit m

/-- no leading zero except a single `0` integer part -/
theorem format_no_leading_zero (m : Nat) (rest : Bytes) (h : Spec.Amount.format m = c0 :: rest) :
    rest = [] ∨ ∃ r', rest = dot :: r' :=
  Spec.Amount.format_no_leading_zero h

example : Spec.Amount.format 0 = c0 :: [] := by
  rw [Spec.Amount.format_eq]; exact render_zero

/-- ends with a digit (no bare trailing point); with a point present the last digit is not `0` -/
theorem format_no_trailing_zero (m : Nat) :
    ∃ init b, Spec.Amount.format m = init ++ [b] ∧ isDigit b = true ∧
      (dot ∈ Spec.Amount.format m → b ≠ c0) :=
  Spec.Amount.format_last m

/-- The naive minimality statement "no accepted spelling of m is shorter than format m". It is FALSE,
    because the spec (like the code) accepts `.5`, which is shorter than `0.5`. Kept so that it stays
    type-checked; refuted below; the true statements follow. -/
def format_shortest_full : Prop :=
  ∀ (s : Bytes) (m : Nat), Spec.Amount.parse s = some m → (Spec.Amount.format m).length ≤ s.length

/-- refutation of the naive statement by the witness `".5"` ↦ 50000000 ↦ `"0.5"` -/
theorem format_shortest_full_false : ¬ format_shortest_full := by
  intro h
  have hp : Spec.Amount.parse [dot, 53] = some 50000000 := by decide
  have := h [dot, 53] 50000000 hp
  rw [Spec.Amount.format_eq] at this
  have e1 : (50000000 : Nat) % 10 ^ 8 = 50000000 := by decide
  have e2 : (50000000 : Nat) / 10 ^ 8 = 0 := by decide
  rw [e1, e2, if_neg (by decide), render_zero] at this
  revert this
  decide

/-- minimality among spellings with an integer digit: every accepted string that does not start with the
    point is at least as long as the formatted string -/
theorem format_shortest (s : Bytes) (m : Nat) (h : Spec.Amount.parse s = some m)
    (hd : ∀ rest, s ≠ dot :: rest) : (Spec.Amount.format m).length ≤ s.length :=
  (Spec.Amount.format_length_le_succ h).2 hd

/-- and it is the ONLY spelling of minimal length among those (so the output is canonical in the strict
    sense: one amount, one string) -/
theorem format_unique_shortest (s : Bytes) (m : Nat) (h : Spec.Amount.parse s = some m)
    (hd : ∀ rest, s ≠ dot :: rest) (hl : s.length ≤ (Spec.Amount.format m).length) :
    s = Spec.Amount.format m :=
  Spec.Amount.format_unique_shortest h hd hl

-- hypotheses of `format_unique_shortest` are met by "1.5" / 150000000 (and the conclusion is then "1.5" = format)
example : Spec.Amount.parse [49, dot, 53] = some 150000000 ∧ (∀ rest, ([49, dot, 53] : Bytes) ≠ dot :: rest) ∧
    ([49, dot, 53] : Bytes).length ≤ (Spec.Amount.format 150000000).length := by
  refine ⟨by decide, fun rest h => by injection h with h1 _; exact absurd h1 (by decide), ?_⟩
  rw [Spec.Amount.format_eq]
  have e1 : (150000000 : Nat) % 10 ^ 8 = 50000000 := by decide
  have e2 : (150000000 : Nat) / 10 ^ 8 = 1 := by decide
  rw [e1, e2, if_neg (by decide), render_lt (by decide)]
  decide

/-- and in general a spelling can be shorter by at most the one omitted leading `0` -/
theorem format_shortest_slack (s : Bytes) (m : Nat) (h : Spec.Amount.parse s = some m) :
    (Spec.Amount.format m).length ≤ s.length + 1 :=
  (Spec.Amount.format_length_le_succ h).1

example : Spec.Amount.parse [49, dot, 53, 48] = some 150000000 ∧ ∀ rest, [49, dot, 53, 48] ≠ dot :: rest :=
  ⟨by decide, fun rest h => by injection h with h1 _; exact absurd h1 (by decide)⟩

/-! ## 5. spec sanity: what can never be accepted (this gives `parse_accepts_iff` its meaning) -/

/-- any byte other than a digit or the point (`+`, `-`, `e`, `_`, space, NUL, UTF-8 …) ⇒ rejected -/
theorem spec_rejects_foreign_byte (s : Bytes) (b : UInt8) (hb : b ∈ s) (h1 : isDigit b = false)
    (h2 : b ≠ dot) : Spec.Amount.parse s = none :=
  Spec.Amount.parse_none_of_foreign_byte hb h1 h2

example : (43 : UInt8) ∈ ([49, dot, 43, 53] : Bytes) ∧ isDigit 43 = false ∧ (43 : UInt8) ≠ dot := by decide

/-- more than one point ⇒ rejected -/
theorem spec_rejects_two_points (s : Bytes) (h : 2 ≤ s.count dot) : Spec.Amount.parse s = none :=
  Spec.Amount.parse_none_of_two_points h

example : 2 ≤ ([49, dot, dot, 50] : Bytes).count dot := by decide

/-- no digit at all (`""`, `"."`) ⇒ rejected -/
theorem spec_rejects_no_digit (s : Bytes) (h : ∀ b ∈ s, isDigit b = false) : Spec.Amount.parse s = none :=
  Spec.Amount.parse_none_of_no_digit h

example : ∀ b ∈ ([dot] : Bytes), isDigit b = false := by decide

/-- the same three facts for the MODEL of the code (consequence of 1.) -/
theorem model_rejects (s : Bytes)
    (h : (∃ b ∈ s, isDigit b = false ∧ b ≠ dot) ∨ 2 ≤ s.count dot ∨ (∀ b ∈ s, isDigit b = false)) :
    ∃ e, Model.Amount.parse s = .error e := by
  rw [parse_error_iff]
  rcases h with ⟨b, hb, h1, h2⟩ | h | h
  · exact spec_rejects_foreign_byte s b hb h1 h2
  · exact spec_rejects_two_points s h
  · exact spec_rejects_no_digit s h

example : (∃ b ∈ ([45, 49] : Bytes), isDigit b = false ∧ b ≠ dot) ∨ 2 ≤ ([45, 49] : Bytes).count dot ∨
    (∀ b ∈ ([45, 49] : Bytes), isDigit b = false) := Or.inl ⟨45, by decide, by decide, by decide⟩

/-- an accepted string is `i` or `i.f` (digit strings, at least one digit), its value is within the supply
    and is EXACTLY (the number written) × 10^8:  v · 10^|f| = (integer written i++f) · 10^8 -/
theorem spec_value_exact (s : Bytes) (v : Nat) (h : Spec.Amount.parse s = some v) :
    ∃ ip fp : Bytes, (s = ip ∧ fp = [] ∨ s = ip ++ dot :: fp) ∧ ip.all isDigit = true ∧
      fp.all isDigit = true ∧ (ip ≠ [] ∨ fp ≠ []) ∧ (trimRight0 fp).length ≤ 8 ∧
      v ≤ Spec.Amount.maxAmount ∧ v * 10 ^ fp.length = ofDigits (ip ++ fp) * 10 ^ 8 := by
  rcases Spec.Amount.parse_some_shape h with ⟨hs, hne, hv⟩ | ⟨ip, fp, e, hip, hfp, hne, hv⟩
  · have h2 := Spec.Amount.value_eq_some.mp hv
    exact ⟨s, [], Or.inl ⟨rfl, rfl⟩, hs, rfl, Or.inl hne, h2.1, h2.2.2, Spec.Amount.value_exact hv⟩
  · have h2 := Spec.Amount.value_eq_some.mp hv
    exact ⟨ip, fp, Or.inr e, hip, hfp, hne, h2.1, h2.2.2, Spec.Amount.value_exact hv⟩

/-! ## 5b. the CLI amount reader `cmd/masswalletcli/cmd.stringToAmount` (TrimSuffix "MASS", TrimSpace, StringToAmount) -/

/-- for every byte string the model of the CLI reader (suffix cut first, then Go's TrimSpace, then the parser)
    and the spec's left-to-right scanner agree on acceptance and on the value -/
theorem cli_parse_spec (s : Bytes) : (Model.Amount.cliParse s).toOption = Spec.Amount.cliParse s :=
  Spec.Amount.model_eq_scan s

/-- the model accepts EXACTLY the texts `white-space* numeral white-space* ("MASS")?`, with the numeral's value -/
theorem cli_parse_accepts_iff (s : Bytes) (v : Nat) :
    Model.Amount.cliParse s = .ok v ↔ Spec.Amount.Accepts s v :=
  ⟨Spec.Amount.cli_sound, Spec.Amount.cli_complete⟩

/-- and so does the scanner -/
theorem cli_scan_accepts_iff (s : Bytes) (v : Nat) : Spec.Amount.cliParse s = some v ↔ Spec.Amount.Accepts s v :=
  ⟨Spec.Amount.scan_sound, Spec.Amount.scan_complete⟩

/-- no guessing: whenever the CLI reader returns a value, the text minus outer white space and ONE optional
    "MASS" unit is a numeral of the property (digits and at most one point: no inner separator, second token,
    sign or exponent) and the value returned is that numeral's value -/
theorem cli_parse_no_guess (s : Bytes) (v : Nat) (h : Model.Amount.cliParse s = .ok v) :
    ∃ w1 n w2 u : Bytes, s = w1 ++ n ++ w2 ++ u ∧ Spec.Amount.WS w1 ∧ Spec.Amount.WS w2 ∧
      (u = [] ∨ u = Spec.Amount.massSfx) ∧ Spec.Amount.parse n = some v ∧
      (∀ b ∈ n, isDigit b = true ∨ b = dot) := by
  obtain ⟨w1, n, w2, u, e, h1, h2, hu, hv⟩ := Spec.Amount.cli_sound h
  refine ⟨w1, n, w2, u, e, h1, h2, hu, hv, fun b hb => ?_⟩
  simpa [Spec.Amount.isNumCh] using Spec.Amount.numeral_chars hv b hb

-- " 1.5 MASS" and "\t1.5\n" are read as 1.5 MASS
example : Model.Amount.cliParse [32, 49, 46, 53, 32, 77, 65, 83, 83] = .ok 150000000 := by decide
example : Model.Amount.cliParse [9, 49, 46, 53, 10] = .ok 150000000 := by decide
-- "1 000 MASS", "12 34", "1.5 e3", "1 MASS " (unit not at the very end), "MASS", "1 MASSMASS", "1mass" are refused
example : (Model.Amount.cliParse [49, 32, 48, 48, 48, 32, 77, 65, 83, 83]).toOption = none := by decide
example : (Model.Amount.cliParse [49, 50, 32, 51, 52]).toOption = none := by decide
example : (Model.Amount.cliParse [49, 46, 53, 32, 101, 51]).toOption = none := by decide
example : (Model.Amount.cliParse [49, 32, 77, 65, 83, 83, 32]).toOption = none := by decide
example : (Model.Amount.cliParse [77, 65, 83, 83]).toOption = none := by decide
example : (Model.Amount.cliParse [49, 32, 77, 65, 83, 83, 77, 65, 83, 83]).toOption = none := by decide
example : (Model.Amount.cliParse [49, 109, 97, 115, 115]).toOption = none := by decide

/-! ## 6. tie to the regenerated constants -/

/-- the compiled-in `massutil.MaxAmount()` is MaxMass × MaxwellPerMass, MaxwellPerMass is 10^8 (eight
    fractional digits), and the two `AmountToString` copies are textually identical; a change of any of
    these in the repository changes MW/Gen/Amount.lean and breaks this theorem (hence the build) -/
theorem gen_tie :
    MW.Gen.Amount.maxAmountCompiled = MW.Gen.Amount.maxMass * MW.Gen.Amount.maxwellPerMass ∧
    MW.Gen.Amount.maxwellPerMass = 10 ^ 8 ∧
    MW.Gen.Amount.formatCopiesEqual = true ∧
    Model.Amount.maxAmount = MW.Gen.Amount.maxAmountCompiled ∧
    Spec.Amount.maxAmount = MW.Gen.Amount.maxAmountCompiled ∧
    Model.Amount.maxAmount ≤ Model.Amount.int64Max := by
  decide

end MW.Props.C15
