/-
  C13 — Mnemonic encoding is exactly BIP-39.   PROPERTY THEOREMS ONLY (proofs are appeals to MW/Lemmas).

  Model: MW.Model.Bip39 (masswallet/keystore/mnemonic.go as written: big.Int arithmetic, minimal `Bytes()`,
  padByteSlice, mask/shift tables, strings.Fields, the word map).   Spec: MW.Spec.Bip39 (bit strings).
  Every theorem is for EVERY hash function `H` (SHA-256 in the wallet) whose digests are not empty, every
  key-derivation function `P` (PBKDF2-HMAC-SHA512 in the wallet) and every input of the stated shape.
  Nothing here is a sample: the only `decide`s underneath are complete evaluations of finite tables
  (the 2048 words, the white-space rune table, the 5-entry mask/shift tables, 256 byte values).
-/
import MW.Lemmas.Bip39Round
namespace MW.Props.C13
open MW MW.B39 MW.Model.Bip39 MW.Lemmas.Bip39Words MW.Lemmas.Bip39Fields MW.Lemmas.Bip39Codec
  MW.Lemmas.Bip39Decode MW.Lemmas.Bip39Round

/-- the one assumption on the hash parameter: a digest has at least one byte -/
abbrev HashOK := MW.Lemmas.Bip39Codec.HashOK

example : HashOK (fun _ => [0]) := fun _ => by simp
example : HashOK (fun x => UInt8.ofNat x.length :: x) := fun _ => by simp

/-! ## the word list -/

/-- The list installed by `SetWordList(wordlists.English)` (regenerated from the source on every run) IS the
    BIP-39 English list of the spec: 2048 words, strictly increasing in byte order, hence pairwise
    distinct, every word a non-empty string of `a`…`z`. -/
theorem wordlist_ok :
    wordList = Spec.Bip39.wordlist ∧ wordList.length = 2048 ∧
    wordList.Pairwise (fun a b => bytesLt a b = true) ∧ wordList.Nodup ∧
    (∀ w ∈ wordList, w ≠ [] ∧ ∀ b ∈ w, 97 ≤ b.toNat ∧ b.toNat ≤ 122) := by
  refine ⟨wordList_eq_spec, wordList_length, sortedB_pairwise _ wordList_sorted, wordList_nodup, ?_⟩
  intro w hw
  have := List.all_eq_true.mp wordList_lower w hw
  simp only [lowerWord, Bool.and_eq_true, List.all_eq_true, decide_eq_true_eq, Bool.not_eq_true',
    List.isEmpty_eq_false_iff] at this
  exact this

/-- the reverse map inverts indexing (no word is shadowed by a later duplicate) -/
theorem wordmap_ok (i : Nat) (h : i < wordList.length) : wordMapGet wordList[i] = some i :=
  wordMapGet_getElem i h

/-! ## encoding -/

/-- `NewMnemonic(entropy)` is the BIP-39 sentence for the five legal sizes and `ErrEntropyLengthInvalid`
    for every other size. -/
theorem newMnemonic_is_bip39 (H : Bytes → Bytes) (hH : HashOK H) (e : Bytes) :
    newMnemonic H e =
      match Spec.Bip39.encode H e with
      | some m => .ok m
      | none => .error .entropyLen := by
  unfold Spec.Bip39.encode
  cases h : Spec.Bip39.legalEntropyLen e.length with
  | true => simp only [↓reduceIte]; exact newMnemonic_eq_spec H hH e h
  | false => simp only [Bool.false_eq_true, ↓reduceIte]; exact newMnemonic_illegal H e h

example : Spec.Bip39.legalEntropyLen (List.replicate 16 (0 : UInt8)).length = true := by decide
example : Spec.Bip39.legalEntropyLen ((0 : UInt8) :: List.replicate 31 (255 : UInt8)).length = true := by decide

/-- every word index the spec uses is inside the list (its `getD` default is never taken) -/
theorem spec_index_lt (H : Bytes → Bytes) (hH : HashOK H) (e : Bytes)
    (h : Spec.Bip39.legalEntropyLen e.length = true) : ∀ i ∈ Spec.Bip39.wordIndices H e, i < 2048 := by
  obtain ⟨cs, _, h8, hl⟩ := legal_cs _ h
  rw [spec_wordIndices H hH e cs h8 hl]
  exact digitsRec_lt _ _

/-! ## decoding -/

/-- `EntropyFromMnemonic(s)` is the BIP-39 decoder applied to `strings.Fields(s)`, with the three reasons
    to refuse reported as ErrInvalidMnemonic (count), ErrInvalidMnemonicWord, ErrChecksumIncorrect. -/
theorem entropyFromMnemonic_is_bip39 (H : Bytes → Bytes) (hH : HashOK H) (s : Bytes) :
    entropyFromMnemonic H s =
      match Spec.Bip39.decode H (fields s) with
      | .ok e => .ok e
      | .error r => .error (errOfReject r) :=
  entropyFromMnemonic_eq_spec H hH s

/-- A sentence is accepted EXACTLY when it has 12/15/18/21/24 words, every word is in the list, and the
    checksum bits are the first bits of the digest of the entropy bits. -/
theorem accept_iff (H : Bytes → Bytes) (hH : HashOK H) (s : Bytes) :
    (∃ e, entropyFromMnemonic H s = .ok e) ↔
      (Spec.Bip39.legalWordCount (fields s).length = true ∧ (∀ w ∈ fields s, w ∈ Spec.Bip39.wordlist) ∧
        Spec.Bip39.checksumOK H (fields s) = true) := by
  rw [entropyFromMnemonic_eq_spec H hH s]
  unfold Spec.Bip39.decode
  rw [← wordList_eq_spec, ← allListed_iff]
  cases h1 : Spec.Bip39.legalWordCount (fields s).length <;>
  cases h2 : Spec.Bip39.allListed (fields s) <;>
  cases h3 : Spec.Bip39.checksumOK H (fields s) <;> simp

/-- the other three observers accept exactly the same sentences -/
theorem accept_iff_byteArray (H : Bytes → Bytes) (hH : HashOK H) (s : Bytes) (raw : Bool) :
    (∃ b, mnemonicToByteArray H s raw = .ok b) ↔ (∃ e, entropyFromMnemonic H s = .ok e) := by
  rw [entropyFromMnemonic_eq_spec H hH s, mnemonicToByteArray_eq_spec H hH s raw]
  cases Spec.Bip39.decode H (fields s) <;> simp

/-- `IsMnemonicValid` checks count and membership only (no checksum), as its comment says -/
theorem isMnemonicValid_iff (s : Bytes) :
    isMnemonicValid s = true ↔
      (Spec.Bip39.legalWordCount (fields s).length = true ∧ ∀ w ∈ fields s, w ∈ Spec.Bip39.wordlist) := by
  rw [isMnemonicValid_eq, Bool.and_eq_true, allListed_iff, wordList_eq_spec]

/-- acceptance and result depend on the word sequence only -/
theorem respacing_irrelevant (H : Bytes → Bytes) (s₁ s₂ : Bytes) (h : fields s₁ = fields s₂) :
    entropyFromMnemonic H s₁ = entropyFromMnemonic H s₂ ∧ isMnemonicValid s₁ = isMnemonicValid s₂ := by
  unfold entropyFromMnemonic splitMnemonicWords isMnemonicValid
  rw [h]; exact ⟨rfl, rfl⟩

/-- … and the word sequence of ANY re-spacing of words free of white space (leading run, at least one
    white-space rune of any kind between two words, optional trailing run) is those words. -/
theorem fields_of_respaced (lead : Bytes) (ps : List (Bytes × Bytes)) (hl : SpaceRun lead) (h : WellSpaced ps) :
    fields (lead ++ body ps) = ps.map (·.1) :=
  fields_respaced lead ps hl h

example : SpaceRun [9, 0xE3, 0x80, 0x80] :=
  SpaceRun.cons [9] _ (by decide) (SpaceRun.cons [0xE3, 0x80, 0x80] [] (by decide) SpaceRun.nil)
example : WellSpaced [([97, 98], [32, 32]), ([122], [])] :=
  ⟨by decide, SpaceRun.cons [32] _ (by decide) (SpaceRun.cons [32] [] (by decide) SpaceRun.nil), by simp,
    by decide, SpaceRun.nil⟩

/-- `strings.TrimSpace` in front of `strings.Fields` (MnemonicToByteArray) changes nothing -/
theorem trimSpace_irrelevant (s : Bytes) : fields (trimSpace s) = fields s := fields_trimSpace s

/-- whatever is accepted is the BIP-39 encoding of the entropy returned (so the accepted sentences are
    exactly the re-spacings of the encoder's outputs) -/
theorem accepted_is_encoding (H : Bytes → Bytes) (hH : HashOK H) (s e : Bytes)
    (h : entropyFromMnemonic H s = .ok e) :
    Spec.Bip39.legalEntropyLen e.length = true ∧ Spec.Bip39.words H e = fields s := by
  rw [entropyFromMnemonic_eq_spec H hH s] at h
  cases hd : Spec.Bip39.decode H (fields s) with
  | error r => rw [hd] at h; cases h
  | ok e' =>
    rw [hd] at h
    cases h
    exact spec_decode_sound H hH _ _ hd

/-! ## round trips -/

/-- spec sanity: the spec's decoder inverts the spec's encoder -/
theorem spec_roundtrip (H : Bytes → Bytes) (hH : HashOK H) (e : Bytes)
    (h : Spec.Bip39.legalEntropyLen e.length = true) :
    Spec.Bip39.decode H (Spec.Bip39.words H e) = .ok e :=
  spec_decode_words H hH e h

/-- `EntropyFromMnemonic(NewMnemonic(e)) = e` for every entropy of 16/20/24/28/32 bytes – including all-zero
    and leading-zero entropies, where `Bytes()` drops bytes and `padByteSlice` must restore them -/
theorem entropy_roundtrip (H : Bytes → Bytes) (hH : HashOK H) (e : Bytes)
    (h : Spec.Bip39.legalEntropyLen e.length = true) :
    ∃ m, newMnemonic H e = .ok m ∧ entropyFromMnemonic H m = .ok e := by
  refine ⟨Spec.Bip39.mnemonic H e, newMnemonic_eq_spec H hH e h, ?_⟩
  rw [entropyFromMnemonic_eq_spec H hH, fields_newMnemonic H hH e h, spec_decode_words H hH e h]

/-- `MnemonicToByteArray(NewMnemonic(e), raw=true) = e`; without `raw` the result is the entropy bits followed
    by the checksum bits, right-aligned in len(e)+1 bytes -/
theorem byteArray_roundtrip (H : Bytes → Bytes) (hH : HashOK H) (e : Bytes)
    (h : Spec.Bip39.legalEntropyLen e.length = true) :
    ∃ m, newMnemonic H e = .ok m ∧ mnemonicToByteArray H m true = .ok e ∧
      ∃ b, mnemonicToByteArray H m false = .ok b ∧ b.length = e.length + 1 ∧
        ofBytesBE b = ofBytesBE e * 2 ^ (e.length / 4) + csVal (H e) (e.length / 4) := by
  refine ⟨Spec.Bip39.mnemonic H e, newMnemonic_eq_spec H hH e h, ?_, ?_⟩
  · rw [mnemonicToByteArray_eq_spec H hH, fields_newMnemonic H hH e h, spec_decode_words H hH e h]; rfl
  · obtain ⟨cs, h4, h8, hl⟩ := legal_cs _ h
    obtain ⟨w1, w2, w3⟩ := words_facts (encNat H e) (3 * cs)
    obtain ⟨_, _, n3⟩ := encNat_div_mod H e cs h8 hl
    refine ⟨Spec.Bip39.checksummedBytes (Spec.Bip39.words H e), ?_, ?_⟩
    · rw [mnemonicToByteArray_eq_spec H hH, fields_newMnemonic H hH e h, spec_decode_words H hH e h]; rfl
    · rw [spec_words H hH e cs h8 hl, spec_checksummedBytes _ cs h8 w1 w2]
      have hdec : decNat ((digitsRec (3 * cs) (encNat H e)).map wordOf) = encNat H e := by
        unfold decNat; rw [w3, horner_digitsRec, Nat.mod_eq_of_lt n3]
      have hlt : encNat H e < 256 ^ (4 * cs + 1) := by
        have : (2048:Nat) ^ (3 * cs) ≤ 256 ^ (4 * cs + 1) := by
          rw [show (2048:Nat) = 2 ^ 11 by norm_num, show (256:Nat) = 2 ^ 8 by norm_num, ← pow_mul, ← pow_mul]
          exact Nat.pow_le_pow_right (by norm_num) (by omega)
        omega
      rw [hdec, padLeft_length _ _ (toBytesBE_length_le _ _ hlt), ofBytesBE_padLeft, ofBytesBE_toBytesBE]
      exact ⟨by omega, rfl⟩

/-- `MnemonicToByteArray` in general: same acceptance as the decoder; `raw` gives the entropy -/
theorem mnemonicToByteArray_is_bip39 (H : Bytes → Bytes) (hH : HashOK H) (s : Bytes) (raw : Bool) :
    mnemonicToByteArray H s raw =
      match Spec.Bip39.decode H (fields s) with
      | .ok e => .ok (if raw then e else Spec.Bip39.checksummedBytes (fields s))
      | .error r => .error (errOfRejectArr r) :=
  mnemonicToByteArray_eq_spec H hH s raw

/-! ## seed -/

/-- `NewSeed(mnemonic, password) = PBKDF2(mnemonic, "mnemonic" ‖ password, 2048, 64)`: definitional, with the
    call-site arguments regenerated from the source (MW.Gen.Bip39) on every run -/
theorem seed_is_pbkdf2 (P : Spec.Bip39.Kdf) (mnemonic password : Bytes) :
    newSeed P mnemonic password = Spec.Bip39.seed P mnemonic password := by
  unfold newSeed Spec.Bip39.seed
  have : Gen.Bip39.saltPrefix.map UInt8.ofNat = strBytes "mnemonic" := by decide
  rw [this]; rfl

/-- `NewSeedWithErrorChecking` returns that seed exactly for the accepted sentences -/
theorem seedWithErrorChecking_is_bip39 (H : Bytes → Bytes) (hH : HashOK H) (P : Spec.Bip39.Kdf) (s password : Bytes) :
    newSeedWithErrorChecking H P s password =
      match Spec.Bip39.decode H (fields s) with
      | .ok _ => .ok (Spec.Bip39.seed P s password)
      | .error r => .error (errOfRejectArr r) := by
  unfold newSeedWithErrorChecking
  rw [mnemonicToByteArray_eq_spec H hH, seed_is_pbkdf2]
  cases Spec.Bip39.decode H (fields s) <;> rfl

end MW.Props.C13
