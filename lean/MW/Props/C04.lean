import MW.Model.Keystore
import MW.Spec.Keystore
namespace MW.Props.C04
end MW.Props.C04
