/-
  C04 — Wallet id and addresses are a function of the mnemonic; keys match addresses.   PROPERTY THEOREMS.

  Model: MW.Model.Keystore — the multi-instance system `Sys` (several wallet databases, keystore files
  moving between them) with the operations boot / create / use / newAddr / export / importKs / importMn /
  restart / chPub / chain / setGap / loadPriv / clearPriv, each a thin call of the modelled keystore
  functions. Spec: MW.Spec.Keystore (`walletId`, `pubAt`, `addrAt`, `privAt`: plain functions of
  (mnemonic, private passphrase, network)). Key derivation is an abstract `Curve`: the only law used is
  `neuter_ckd` (public child derivation commutes with neutering; for secp256k1 / BIP-32 that is C14).
  In the model a mnemonic is its word sequence (white space of the typed sentence does not exist in
  the model; the code normalises it since the D18 fix).
-/
import MW.Lemmas.KsSys
import MW.Gen.Keystore
namespace MW.Props.C04
open MW MW.Model.Keystore MW.Spec.Keystore
open MW.Lemmas.KsMgr MW.Lemmas.KsIssue MW.Lemmas.KsRestore MW.Lemmas.KsSys

variable {Priv Pub Addr : Type} [DecidableEq Addr]

/-- the states the system can reach from nothing -/
def Reachable (sch : Scheme Priv Pub Addr) (s : Sys Priv Pub Addr) : Prop :=
  ∃ (fuel : Nat) (ops : List (Op Addr)), s = Sys.run sch { fuel := fuel } ops

theorem reachable_good (sch : Curve Priv Pub Addr) (s : Sys Priv Pub Addr) (h : Reachable sch.toScheme s) :
    SysGood sch.toScheme s := by
  obtain ⟨fuel, ops, rfl⟩ := h
  exact sysGood_run sch ops _ (sysGood_init sch fuel)

/-- ID DET. In every reachable state, in every instance, the wallet id under which an account is filed
    is the spec's `walletId` of the account's (mnemonic, passphrase, network) — whatever sequence of
    create / export / import / restart / passphrase change / issuing produced it. -/
theorem id_det (sch : Curve Priv Pub Addr) (s : Sys Priv Pub Addr) (h : Reachable sch.toScheme s)
    (i : Nat) (x : Inst Priv Pub Addr) (hi : (i, x) ∈ s.insts) (id : String) (r : Rec Priv Pub)
    (hr : (id, r) ∈ x.ks.recs) :
    id = walletId sch.toScheme r.mnemonic r.pass r.coin :=
  ((reachable_good sch s h _ hi).recs _ hr).id_eq

/-- ADDR DET. In every reachable state every stored public key and every cached address of an account is
    the spec's key / address at its (branch, index) for the account's secret. -/
theorem addr_det (sch : Curve Priv Pub Addr) (s : Sys Priv Pub Addr) (h : Reachable sch.toScheme s)
    (i : Nat) (x : Inst Priv Pub Addr) (hi : (i, x) ∈ s.insts) (id : String) (r : Rec Priv Pub)
    (hr : (id, r) ∈ x.ks.recs) :
    (∀ b k p, ((b, k), p) ∈ r.pubs → p = pubAt sch.toScheme r.mnemonic r.pass r.coin b k) ∧
    (∀ m, (id, m) ∈ x.ks.mgrs →
      (∀ a ma, AMap.get m.addrs a = some ma →
        a = addrAt sch.toScheme r.mnemonic r.pass r.coin ma.branch ma.index ∧ ma.addr = a ∧
        ma.pub = pubAt sch.toScheme r.mnemonic r.pass r.coin ma.branch ma.index) ∧
      (∀ b k a, AMap.get m.index (b, k) = some a → a = addrAt sch.toScheme r.mnemonic r.pass r.coin b k)) := by
  have hK := reachable_good sch s h _ hi
  refine ⟨fun b k p hp => (hK.recs _ hr).pubs _ hp, fun m hm => ?_⟩
  have hM := hK.mgrs _ hm r hr
  refine ⟨fun a ma hma => ?_, fun b k a ha => hM.index (b, k) a ha⟩
  obtain ⟨h1, h2, h3⟩ := hM.addrs a ma hma
  refine ⟨?_, h3, h1⟩
  rw [← h3, h2, h1]; rfl

/-- ADDR DET for the answer of NewAddress: the address handed out is the spec's address of the wallet's
    secret at the child number, on the external branch — from public or private material alike. -/
theorem issued_addr_det (sch : Curve Priv Pub Addr) (s : Sys Priv Pub Addr) (h : Reachable sch.toScheme s)
    (i : Nat) (x : Inst Priv Pub Addr) (hi : (i, x) ∈ s.insts) (ks' : KS Priv Pub Addr)
    (mas : List (MAddr Pub Addr)) (hn : ksNextAddresses sch.toScheme x.ks x.used false 1 x.gap = .ok (ks', mas)) :
    ∃ id r, x.ks.current = some id ∧ AMap.get x.ks.recs id = some r ∧
      ∀ ma, ma ∈ mas → ma.addr = addrAt sch.toScheme r.mnemonic r.pass r.coin ma.branch ma.index := by
  obtain ⟨_, id, r, h1, h2, h3⟩ := ksGood_next sch x.ks ks' x.used false x.gap mas (reachable_good sch s h _ hi) hn
  refine ⟨id, r, h1, h2, fun ma hma => ?_⟩
  obtain ⟨a, b⟩ := h3 ma hma
  rw [b, a]; rfl

/-- RESTORE SAME. Take ANY two histories (any operations on any instances), any account in any
    instance at the end of the first and any account in any instance at the end of the second. If the two
    accounts hold the same (mnemonic, passphrase, network) then they have the same wallet id, and wherever
    both hold a key for the same (branch, index) it is the same key — hence the same address. -/
theorem restore_same (sch : Curve Priv Pub Addr) (s s' : Sys Priv Pub Addr)
    (h : Reachable sch.toScheme s) (h' : Reachable sch.toScheme s')
    (i i' : Nat) (x x' : Inst Priv Pub Addr) (hi : (i, x) ∈ s.insts) (hi' : (i', x') ∈ s'.insts)
    (id id' : String) (r r' : Rec Priv Pub) (hr : (id, r) ∈ x.ks.recs) (hr' : (id', r') ∈ x'.ks.recs)
    (hm : r.mnemonic = r'.mnemonic) (hp : r.pass = r'.pass) (hc : r.coin = r'.coin) :
    id = id' ∧
    (∀ b k p p', ((b, k), p) ∈ r.pubs → ((b, k), p') ∈ r'.pubs → p = p' ∧ sch.addrOf p = sch.addrOf p') := by
  constructor
  · rw [id_det sch s h i x hi id r hr, id_det sch s' h' i' x' hi' id' r' hr', hm, hp, hc]
  · intro b k p p' h1 h2
    have e1 := (addr_det sch s h i x hi id r hr).1 b k p h1
    have e2 := (addr_det sch s' h' i' x' hi' id' r' hr').1 b k p' h2
    rw [hm, hp, hc] at e1
    rw [e1, e2]; exact ⟨rfl, rfl⟩

/-- RESTORE SAME, the two restore paths explicitly: a keystore file exported from a good account, and the
    account's mnemonic, both re-create the account under the same wallet id in any other database. -/
theorem export_import_same_id (sch : Curve Priv Pub Addr) (ks ks2 ks2' : KS Priv Pub Addr)
    (hK : KSGood sch.toScheme ks) (id id' pass : String) (j : Json) (coin : Nat) (used : Addr → Bool)
    (gap fuel : Nat) (hK2 : KSGood sch.toScheme ks2)
    (he : exportKeystore ks id pass = .ok j)
    (hi : importKeystore sch.toScheme ks2 j pass coin used gap fuel = .ok (ks2', id')) : id' = id := by
  obtain ⟨_, hid⟩ := ksGood_importKeystore sch ks2 ks2' j pass coin used gap fuel id' hK2 hi
  unfold exportKeystore at he
  cases hm : AMap.get ks.mgrs id with
  | none => rw [hm] at he; cases he
  | some m =>
    cases hr : AMap.get ks.recs id with
    | none => rw [hm, hr] at he; cases he
    | some r =>
      rw [hm, hr] at he
      simp only at he
      split at he
      · cases he
      · simp only [Except.ok.injEq] at he
        subst he
        rw [hid]
        exact ((hK.recs _ (get_mem hr)).id_eq).symm

theorem mnemonic_import_same_id (sch : Curve Priv Pub Addr) (ks ks2 ks2' : KS Priv Pub Addr)
    (hK : KSGood sch.toScheme ks) (id id' : String) (r : Rec Priv Pub) (hr : (id, r) ∈ ks.recs)
    (he hi : Nat) (used : Addr → Bool) (gap fuel : Nat) (hK2 : KSGood sch.toScheme ks2)
    (h : importMnemonic sch.toScheme ks2 r.mnemonic r.pass r.coin he hi used gap fuel = .ok (ks2', id')) :
    id' = id := by
  obtain ⟨_, hid⟩ := ksGood_importMnemonic sch ks2 ks2' r.mnemonic r.pass r.coin he hi used gap fuel id' hK2 h
  rw [hid]; exact ((hK.recs _ hr).id_eq).symm

/-- PRIV MATCHES PUB. In every reachable state, when SignHash finds an address and the passphrase is
    right, the private key it derives (account key → branch → index, getPrivKeyBtcec) has exactly the
    public key the address was built from, and that address is the one asked for — whether the address
    had been issued from public material (locked wallet) or from private material. Stated over the
    abstract curve law `pubOf (ckdPriv k i) = ckdPub (pubOf k) i` (field `neuter_ckd`). -/
theorem priv_matches_pub (sch : Curve Priv Pub Addr) (s : Sys Priv Pub Addr) (h : Reachable sch.toScheme s)
    (i : Nat) (x : Inst Priv Pub Addr) (hi : (i, x) ∈ s.insts) (a : Addr) (pass : String) (k : Priv) (p : Pub)
    (hs : signWith sch.toScheme x.ks a pass = .ok (k, p)) :
    sch.pubOf k = p ∧ sch.addrOf p = a := by
  have hK := reachable_good sch s h _ hi
  unfold signWith at hs
  cases hf : findMgr x.ks a with
  | none => rw [hf] at hs; cases hs
  | some idma =>
    obtain ⟨id, ma⟩ := idma
    rw [hf] at hs
    simp only at hs
    cases hr : AMap.get x.ks.recs id with
    | none => rw [hr] at hs; cases hs
    | some r =>
      rw [hr] at hs
      simp only at hs
      split at hs
      · cases hs
      · simp only [Except.ok.injEq, Prod.mk.injEq] at hs
        obtain ⟨rfl, rfl⟩ := hs
        obtain ⟨m, hm, hma⟩ := findMgr_some x.ks a id ma hf
        have hR := hK.recs _ (get_mem hr)
        obtain ⟨h1, h2, h3⟩ := (hK.mgrs _ hm r (get_mem hr)).addrs a ma hma
        constructor
        · unfold signKey
          rw [sch.neuter_ckd, sch.neuter_ckd, h1]
          simp only [pubAt, acctPub]; rw [hR.priv]
        · rw [← h2, h3]

/-- the same statement at the spec level: the private key of a path has the public key of that path -/
theorem privAt_pubAt (sch : Curve Priv Pub Addr) (mn pass : String) (coin b i : Nat) :
    sch.pubOf (privAt sch.toScheme mn pass coin b i) = pubAt sch.toScheme mn pass coin b i := by
  unfold privAt pubAt acctPub
  rw [sch.neuter_ckd, sch.neuter_ckd]

/-- issuing from private material yields the same key as issuing from public material -/
theorem issue_material_irrelevant (sch : Curve Priv Pub Addr) (r : Rec Priv Pub)
    (h : r.acctPub = sch.pubOf r.acctPriv) (b i : Nat) :
    issuePub sch.toScheme r true b i = issuePub sch.toScheme r false b i := by
  rw [issuePub_eq sch r h, issuePub_eq sch r h]

-- ------------------------------------------------------------------ non-vacuity: a toy curve, a reachable system

/-- toy instance of the curve law: keys are derivation paths below a named secret, neutering is identity -/
def toyCurve : Curve (String × List Nat) (String × List Nat) (String × List Nat) where
  master mn pass coin := (mn ++ "/" ++ pass ++ "/" ++ toString coin, [])
  ckdPriv k i := (k.1, k.2 ++ [i])
  ckdPub k i := (k.1, k.2 ++ [i])
  pubOf k := k
  idOf k := k.1
  addrOf k := k
  neuter_ckd _ _ := rfl

/-- create a wallet, issue two addresses, export it, import the file into a second installation, and
    import the mnemonic into a third: all three hold the same id and the same first addresses -/
def demoOps : List (Op (String × List Nat)) :=
  [.boot 1 1 "Pubpass1", .create 1 "abandon" "Privpass1", .use 1 "abandon/Privpass1/1", .newAddr 1, .newAddr 1,
   .export 1 "abandon/Privpass1/1" "Privpass1", .boot 2 1 "Pubpass2", .importKs 2 0 "Privpass1",
   .boot 3 1 "Pubpass3", .importMn 3 "abandon" "Privpass1" 0 0, .chPub 2 "Pubpass2" "Pubpass9", .restart 2 "Pubpass9"]

def demo : Sys (String × List Nat) (String × List Nat) (String × List Nat) := Sys.run toyCurve.toScheme { fuel := 50 } demoOps

example : Reachable toyCurve.toScheme demo := ⟨50, demoOps, rfl⟩

example : (demo.insts.map (fun e => (e.1, e.2.ks.recs.map (fun r => (r.1, r.2.exNum))))) =
    [(2, [("abandon/Privpass1/1", 2)]), (3, [("abandon/Privpass1/1", 1)]), (1, [("abandon/Privpass1/1", 2)])] := by
  decide

/-- non-vacuity of priv_matches_pub / export_import_same_id on the demo system: a signature request that
    succeeds, and the exported file re-imported under the same id -/
example : ∃ x, AMap.get demo.insts 1 = some x ∧
    signWith toyCurve.toScheme x.ks ("abandon/Privpass1/1", [0, 1]) "Privpass1" =
      .ok (("abandon/Privpass1/1", [0, 1]), ("abandon/Privpass1/1", [0, 1])) := ⟨_, rfl, rfl⟩
example : demo.files = [{ mnemonic := "abandon", pass := "Privpass1", coin := 1, account := 1, ex := 2, inn := 0 }] := by
  decide

/-- TIE B: path m/44'/coin'/1'/branch/index (purpose, account = WalletUsage, branches), the id encoding
    bech32 "ac" / version 15 of hash160(compressed account key), the white-space normalisation of an
    imported sentence, and the passphrase pattern — as re-extracted from today's source. -/
theorem gen_tie :
    Gen.Keystore.purpose = 44 ∧ walletUsage = Gen.Keystore.walletUsage ∧
    externalBranch = Gen.Keystore.externalBranch ∧ internalBranch = Gen.Keystore.internalBranch ∧
    Gen.Keystore.idPrefix = "ac" ∧ Gen.Keystore.idWitnessVersion = 15 ∧ Gen.Keystore.idEncodingShape = true ∧
    Gen.Keystore.mnemonicNormalised = true ∧ Gen.Keystore.passRegexpShape = true ∧
    Gen.Keystore.hardenedKeyStart = 2^31 := by decide

end MW.Props.C04
