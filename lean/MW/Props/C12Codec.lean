/-
  C12, byte level (round 4): the persisted next-index counters and the index keys of issued addresses –
  what `issue_durable` / restarts of C12 abstract as "the record keeps exNum / inNum and the pub bucket".
  Statements only; proofs in MW/Lemmas/KsCodec*.lean.
-/
import MW.Lemmas.KsCodecSpec
namespace MW.Props.C12Codec
open MW MW.Model.KsCodec MW.KsCodecL

/-- the next index a start reads is the one the last issue stored (any uint32), the other branch's counter and every
    other record are untouched -/
theorem child_counter_persist (b : Bucket) (internal : Bool) (n : Nat) (h : n < 4294967296) :
    ∃ b', updateChildNum b internal n = .ok b' ∧ getChildNum b' internal = .ok n ∧
      getChildNum b' (!internal) = getChildNum b (!internal) ∧
      ∀ k, k ≠ key (childNumName internal) → bget b' k = bget b k := childNum_persist b internal n h

/-- a new account starts both counters at 0 -/
theorem child_counter_init (b : Bucket) :
    ∃ b', initBranchChildNum b = .ok b' ∧ fetchChildNum b' = .ok (0, 0) ∧
      getChildNum b' false = .ok 0 ∧ getChildNum b' true = .ok 0 := childNum_init b

/-- fetchChildNum (what loadAddrManager and export read) is (internal, external) of the per-branch readers -/
theorem child_counter_pair (b : Bucket) (i e : Nat) (hi : getChildNum b true = .ok i) (he : getChildNum b false = .ok e)
    (pi : (bget b (key MW.Gen.KsCodec.internalChildNumName)).isSome)
    (pe : (bget b (key MW.Gen.KsCodec.externalChildNumName)).isSome) :
    fetchChildNum b = .ok (i, e) := fetchChildNum_eq b i e hi he pi pe

/-- the counter encoding is strictly monotone and injective on uint32: a larger stored counter is a larger index -/
theorem child_counter_monotone {a b : Nat} (ha : a < 4294967296) (hb : b < 4294967296) :
    a < b ↔ ofLE (u32Bytes a) < ofLE (u32Bytes b) := u32_monotone ha hb
theorem child_counter_injective {a b : Nat} (ha : a < 4294967296) (hb : b < 4294967296) (h : u32Bytes a = u32Bytes b) :
    a = b := u32Bytes_inj ha hb h

/-- the overflow case: 2^32 would be stored as 0 (the issue guard MaxAddressesPerAccount = 2^31−1 keeps counters far below) -/
theorem child_counter_overflow_wraps (b : Bucket) (internal : Bool) :
    ∃ b', updateChildNum b internal 4294967296 = .ok b' ∧ getChildNum b' internal = .ok 0 :=
  childNum_overflow_wraps b internal

/-- a counter shorter than 4 bytes (damaged database) is a Go panic in every reader, a missing one a panic in getChildNum -/
theorem child_counter_short_panics (bs : Bytes) (h : bs.length < 4) : u32Of bs = .error .panic := u32Of_short bs h
theorem child_counter_missing_panics (b : Bucket) (i : Bool) (h : bget b (key (childNumName i)) = none) :
    getChildNum b i = .error .panic := childNum_missing b i h

/-- index keys: (branch, index) ↦ 8-byte key is injective on uint32 pairs and read back by fetchEncryptedPubKey … -/
theorem index_key_roundtrip (b i : Nat) (hb : b < 4294967296) (hi : i < 4294967296) :
    pubKeyPath (pubKeyKey b i) = .ok (b, i) := pubKeyPath_pubKeyKey b i hb hi
theorem index_key_injective {b i b' i' : Nat} (hb : b < 4294967296) (hi : i < 4294967296) (hb' : b' < 4294967296)
    (hi' : i' < 4294967296) (h : pubKeyKey b i = pubKeyKey b' i') : b = b' ∧ i = i' := pubKeyKey_inj hb hi hb' hi' h

/-- … and NOT beyond: index 2^32 + i would overwrite the key of index i -/
theorem index_key_overflow_collides (b i : Nat) : pubKeyKey b (i + 4294967296) = pubKeyKey b i :=
  pubKeyKey_overflow_collides b i

/-- an issued address's key is stored under its coordinates, nothing else changes, and the listing of a public-key
    bucket returns every entry with exactly its (branch, index), never panicking -/
theorem issued_key_stored (b : Bucket) (branch index : Nat) (pk : Bytes) (hpk : pk ≠ []) :
    ∃ b', putEncryptedPubKey b branch index pk = .ok b' ∧ bget b' (pubKeyKey branch index) = some pk ∧
      ∀ k, k ≠ pubKeyKey branch index → bget b' k = bget b k := encryptedPubKey_stored b branch index pk hpk
theorem issued_keys_listed (b : Bucket) (hb : PkBucket b) (br ix : Nat) (pk : Bytes)
    (hbr : br < 4294967296) (hix : ix < 4294967296) (h : bget b (pubKeyKey br ix) = some pk) :
    ∃ l, fetchEncryptedPubKey b = .ok l ∧ (br, ix, pk) ∈ l := fetchEncryptedPubKey_lists b hb br ix pk hbr hix h
theorem pk_bucket_invariant {b b' : Bucket} (hb : PkBucket b) {br ix : Nat} {pk : Bytes}
    (h : putEncryptedPubKey b br ix pk = .ok b') : PkBucket b' := pkBucket_put hb h

/-- for today's tables the counter and index-key codecs ARE the format spec (4-byte little endian), on every input -/
theorem counters_model_eq_spec (n b i : Nat) (bs : Bytes) :
    u32Bytes n = Spec.KsCodec.u32 n ∧ Spec.KsCodec.ofExcept (u32Of bs) = Spec.KsCodec.readU32 bs ∧
    pubKeyKey b i = Spec.KsCodec.indexKey b i :=
  ⟨u32Bytes_eq_spec n, u32Of_eq_spec bs, pubKeyKey_eq_spec b i⟩

/-! non-vacuity -/
example : (do let b ← initBranchChildNum []; let b ← updateChildNum b false 7; getChildNum b false) = .ok 7 := by decide
example : getChildNum [] true = .error .panic := by decide
example : PkBucket [] := fun _ h => by simp at h
example : (do let b ← putEncryptedPubKey [] 0 3 [5]; fetchEncryptedPubKey b) = .ok [(0, 3, [5])] := by decide
example : pubKeyKey 1 2 = [1, 0, 0, 0, 2, 0, 0, 0] := by decide

end MW.Props.C12Codec
