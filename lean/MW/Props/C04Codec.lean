/-
  C04, byte level (round 4): what `restore_same` / `export_import_same_id` of C04 abstract as "the exported file
  carries the secret and the counters" – at the level of bytes: the account record, the exported JSON structure,
  and the fields an import reads back from it.  Statements only; proofs in MW/Lemmas/KsCodec*.lean.
-/
import MW.Lemmas.KsCodecSpec
import MW.Lemmas.KsCodecParse
namespace MW.Props.C04Codec
open MW MW.Model.KsCodec MW.KsCodecL

/-- account row: deserialize ∘ serialize = id below the uint32 length field … -/
theorem account_row_roundtrip (t : Nat) (raw : Bytes) (ht : t < 256) (hr : raw.length < 4294967296) :
    deserializeAccountRow (serializeAccountRow t raw) = .ok (t, raw) := deserialize_serializeAccountRow t raw ht hr

/-- … and NOT beyond it: a payload of 2^32 bytes or more reads back as a strict prefix of itself -/
theorem account_row_overflow_breaks (t : Nat) (raw : Bytes) (ht : t < 256) (hr : 4294967296 ≤ raw.length) :
    deserializeAccountRow (serializeAccountRow t raw) ≠ .ok (t, raw) := accountRow_overflow_breaks t raw ht hr

/-- whatever deserializeAccountRow accepts is a serialization followed by ignored bytes; fewer than 5 bytes are refused -/
theorem account_row_sound (bs : Bytes) (t : Nat) (raw : Bytes) (h : deserializeAccountRow bs = .ok (t, raw)) :
    ∃ rest, bs = serializeAccountRow t raw ++ rest ∧ t < 256 ∧ raw.length < 4294967296 :=
  deserializeAccountRow_sound bs t raw h
theorem account_row_short (bs : Bytes) (h : bs.length < 5) : deserializeAccountRow bs = .error .malformed :=
  deserializeAccountRow_short bs h

/-- BIP0044 account record (encrypted public / private account key): deserialize ∘ serialize = id -/
theorem hd_account_key_roundtrip (pub priv : Bytes) (h : 8 + pub.length + priv.length < 4294967296) :
    ∃ raw, serializeHDAccountKey pub priv = some raw ∧ deserializeHDAccountKey raw = .ok (pub, priv) ∧
      raw = leBytes 4 pub.length ++ pub ++ (leBytes 4 priv.length ++ priv) :=
  deserialize_serializeHDAccountKey pub priv h
theorem hd_account_key_short (raw : Bytes) (h : raw.length < 8) : deserializeHDAccountKey raw = .error .malformed :=
  deserializeHDAccountKey_short raw h

/-- putAccountInfo / fetchAccountInfo: the account record and the account number read back -/
theorem account_info_roundtrip (b : Bucket) (account : Nat) (pub priv : Bytes) (ha : account < 4294967296)
    (hl : 8 + pub.length + priv.length < 4294967296) :
    ∃ b', putAccountInfo b account pub priv = .ok b' ∧ fetchAccountInfo b' account = .ok (pub, priv) ∧
      fetchAccountUsage b' = .ok account := accountInfo_roundtrip b account pub priv ha hl

/-- coin type and branch keys (internal, external – in that order) read back -/
theorem coin_type_roundtrip (b : Bucket) (n : Nat) (h : n < 4294967296) :
    ∃ b', putCoinType b n = .ok b' ∧ fetchCoinType b' = .ok n := coinType_roundtrip b n h
theorem branch_keys_roundtrip (b : Bucket) (inKey exKey : Bytes) (hi : inKey ≠ []) (he : exKey ≠ []) :
    ∃ b', putBranchPubKeys b inKey exKey = .ok b' ∧ fetchBranchPubKeys b' = .ok (inKey, exKey) :=
  branchPubKeys_roundtrip b inKey exKey hi he

/-- the JSON members `render` writes are the ones the Go struct tags declare today (names, order, omitempty,
    Go types), `export` reads the bucket in the modelled order and fills the modelled fields -/
theorem json_structure : JsonStructure := render_follows_tags

/-- `export` of a readable account bucket: every field is the stored byte string (hex) or counter -/
theorem export_fields (b : Bucket) (purpose coin usage i e : Nat) (pub : Bytes) (priv : Option Bytes)
    (cpub : Bytes) (cpriv cent : Option Bytes)
    (hu : fetchAccountUsage b = .ok usage) (hc : fetchChildNum b = .ok (i, e))
    (hm : fetchMasterKeyParams b = .ok (pub, priv)) (hk : fetchCryptoKeys b = .ok (cpub, cpriv, cent)) :
    exportKs b purpose coin = .ok
      { remarks := (fetchRemark b).getD [], version := fetchVersion b, cipher := asc MW.Gen.KsCodec.exportCipher,
        entropyEnc := hexEnc ((fetchEntropy b).getD []), kdf := asc MW.Gen.KsCodec.exportKDF,
        privParams := hexEnc (priv.getD []), cryptoKeyEntropyEnc := hexEnc (cent.getD []),
        purpose := purpose, coin := coin, account := usage, externalChildNum := e, internalChildNum := i } :=
  exportKs_ok b purpose coin usage i e pub priv cpub cpriv cent hu hc hm hk

/-- export → import preserves exactly what C04's `restore_same` relies on: the entropy ciphertext, the ciphertext
    of its key and the snacl parameters come back byte for byte, the counters as stored (external 0 → 1), the path
    constants are checked (coin type of the network, account 1), another coin type is refused -/
theorem export_import_preserves (b : Bucket) (purpose coin i e : Nat) (pub pp : Bytes) (params : Params)
    (cpub : Bytes) (cpriv : Option Bytes) (cent : Bytes)
    (hu : fetchAccountUsage b = .ok MW.Gen.Keystore.walletUsage) (hc : fetchChildNum b = .ok (i, e))
    (hm : fetchMasterKeyParams b = .ok (pub, some pp)) (hpp : unmarshal pp = .ok params)
    (hk : fetchCryptoKeys b = .ok (cpub, cpriv, some cent)) (hv : fetchVersion b = 0) :
    ∃ k, exportKs b purpose coin = .ok k ∧
      importView k coin = .ok
        { params := params, cEntEnc := cent, entEnc := (fetchEntropy b).getD [], version := 0,
          remarks := (fetchRemark b).getD [], account := MW.Gen.Keystore.walletUsage,
          externalHint := if e = 0 then 1 else e, internalHint := i } ∧
      (∀ other, other ≠ coin → importView k other = .error .coinType) :=
  import_of_export b purpose coin i e pub pp params cpub cpriv cent hu hc hm hpp hk hv

/-- an import refuses a file whose parameter blob is not 176 hex digits (= 88 bytes) -/
theorem import_refuses_bad_params (k : KeystoreJ) (coin : Nat) (hc : k.coin = coin)
    (ha : k.account = MW.Gen.Keystore.walletUsage) (hl : k.privParams.length ≠ 176) :
    ∃ e, importView k coin = .error e := KsCodecL.import_refuses_bad_params k coin hc ha hl

/-- the exported TEXT determines every field: reading `render k` back (`parseKeystore`: the reader of exactly the text
    encoding/json writes for these structs; compared with json.Unmarshal on every generated document) gives `k`, for every
    keystore value whose strings are valid UTF-8 and whose numbers fit their Go types … -/
theorem exported_text_determines_fields (k : KeystoreJ) (h : KsOk k) : parseKeystore (render k) = some k :=
  parseKeystore_render k h

/-- … hence no two such values share a keystore file … -/
theorem exported_text_injective (k k' : KeystoreJ) (h : KsOk k) (h' : KsOk k') (e : render k = render k') : k = k' :=
  render_injective k k' h h' e

/-- … and end to end: the file `export` writes for ANY account bucket whose remark is valid UTF-8 reads back as the exported
    value (hex strings, the two constants and uint32 counters are always within the types) -/
theorem export_text_roundtrip (b : Bucket) (purpose coin : Nat) (k : KeystoreJ) (hp : purpose ≤ 4294967295)
    (hc : coin ≤ 4294967295) (hr : Utf8Ok ((fetchRemark b).getD [])) (he : exportKs b purpose coin = .ok k) :
    parseKeystore (render k) = some k := KsCodecL.export_text_roundtrip b purpose coin k hp hc hr he

/-- for today's tables the table-driven account-row and BIP0044-record codecs ARE the format spec, on every input -/
theorem records_model_eq_spec (t : Nat) (raw bs pub priv : Bytes) :
    serializeAccountRow t raw = Spec.KsCodec.accountRow t raw ∧
    Spec.KsCodec.ofExcept (deserializeAccountRow bs) = Spec.KsCodec.readAccountRow bs ∧
    (8 + pub.length + priv.length < 4294967296 → serializeHDAccountKey pub priv = some (Spec.KsCodec.hdRecord pub priv)) ∧
    Spec.KsCodec.ofExcept (deserializeHDAccountKey bs) = Spec.KsCodec.readHdRecord bs :=
  ⟨serializeAccountRow_eq_spec t raw, deserializeAccountRow_eq_spec bs, serializeHDAccountKey_eq_spec pub priv,
   deserializeHDAccountKey_eq_spec bs⟩

/-! non-vacuity: a complete account bucket, its export, and the import view of the export -/
def demoParams : Params := ⟨List.replicate 32 7, List.replicate 32 9, 16, 8, 1⟩
def demoBucket : Bucket :=
  match (do
    let b ← putCoinType [] 297
    let b ← putAccountInfo b 1 [1, 2, 3] [4, 5]
    let b ← putBranchPubKeys b [6] [7]
    let b ← initBranchChildNum b
    let b ← updateChildNum b false 5
    let b ← putMasterKeyParams b (some [8]) (marshal demoParams)
    let b ← putEntropy b [9, 9]
    putCryptoKeys b (some [10]) (some [11]) (some [12, 13]) : Except Err Bucket) with
  | .ok b => b
  | .error _ => []
example : fetchAccountUsage demoBucket = .ok MW.Gen.Keystore.walletUsage := by decide
example : fetchChildNum demoBucket = .ok (0, 5) := by decide
example : (fetchMasterKeyParams demoBucket).toOption.map (·.2) = some (marshal demoParams) := by decide
example : fetchVersion demoBucket = 0 := by decide
example : (exportKs demoBucket 44 297).toOption.map (fun k => (k.entropyEnc, k.externalChildNum, k.account)) =
    some (asc "0909", 5, 1) := by decide
set_option maxRecDepth 8000 in
example : ((exportKs demoBucket 44 297).toOption.map (fun k => (importView k 297).toOption.map (fun v => (v.params, v.cEntEnc, v.entEnc, v.externalHint)))) =
    some (some (demoParams, [12, 13], [9, 9], 5)) := by decide
example : deserializeAccountRow (serializeAccountRow 0 [1, 2, 3]) = .ok (0, [1, 2, 3]) := by decide

/-! the text level: a value with every kind of character in the remark reads back; the UTF-8 hypothesis is necessary -/
def demoK : KeystoreJ :=
  { remarks := [60, 34, 92, 10, 1, 195, 169, 226, 128, 168, 240, 159, 152, 128], version := 0, cipher := asc "Stream cipher",
    entropyEnc := asc "0909", kdf := asc "scrypt", privParams := asc "00ff", cryptoKeyEntropyEnc := asc "0c0d",
    purpose := 44, coin := 297, account := 1, externalChildNum := 4294967295, internalChildNum := 0 }
set_option maxRecDepth 20000 in
example : parseKeystore (render demoK) = some demoK := by decide
example : KsOk demoK := by constructor <;> first | (unfold Utf8Ok; decide) | decide
set_option maxRecDepth 20000 in
example : parseKeystore (render { remarks := [255] }) ≠ some { remarks := [255] } := by decide
set_option maxRecDepth 20000 in
example : parseKeystore (render { demoK with version := 7, kdf := [] }) = some { demoK with version := 7, kdf := [] } := by decide

end MW.Props.C04Codec
