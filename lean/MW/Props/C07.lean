import MW.Model.Import
namespace MW.Props.C07
end MW.Props.C07
