/-
  C07 — A restored wallet recovers its full history, even while the chain moves.   PROPERTY THEOREMS.
  Model: MW.Model.Import (asyncImport as repaired: one batch = one transaction = head checks · plan · fold · finish)
  on MW.Model.Ledger; Spec: MW.Spec.Chain.  Helper lemmas: MW.Lemmas.ImportPlan.
-/
import MW.Model.Import
import MW.Spec.Chain
import MW.Lemmas.ImportPlan
import MW.Lemmas.LedgerStatus
import MW.Lemmas.ImportLive
import MW.Lemmas.ImportExact
import MW.Lemmas.ImportJoinMain
import MW.Lemmas.ImportExt
import MW.Lemmas.ImportJoinExt
import MW.Lemmas.ImportReorgS
import MW.Lemmas.ImportJoinReorg2
import MW.Lemmas.ImportFull
import MW.Lemmas.LedgerD2Ex
namespace MW.Props.C07
open MW MW.Model.Ledger MW.Model.Import MW.Lemmas.ImportPlan

-- ------------------------------------------------------------------ what one successful batch does

/-- A successful batch: its head checks passed, it applied exactly `plan node addresses start stop`, it wrote
    the status `statusAfter`, it reports `finish` iff it reached the follower's tip, and it left the follower's
    tip alone. -/
structure BatchOk (batch : Nat) (c : Ctx) (w : Wid) (s : Store) (v : Vol) (s' : Store) (v' : Vol) (fin : Bool)
    (hd : BatchHead) : Prop where
  head : batchHead batch c w s v = .ok hd
  applied : ∃ s1 bals, (plan c.node (managed c.own w) hd.start hd.stop).foldlM (applyItem c w) (s, [(w, hd.bal)]) = .ok (s1, bals) ∧
    s' = finishBatch w hd s1 bals
  status : AMap.get s'.status w = some (statusAfter hd.ws hd.stop hd.best)
  fin : fin = decide (hd.stop = hd.best)
  best : v'.best = v.best

theorem importStep_ok (batch : Nat) (c : Ctx) (w : Wid) (s : Store) (v : Vol) (s' : Store) (v' : Vol) (fin : Bool)
    (h : importStep batch c w s v = .ok (s', v', fin)) : ∃ hd, BatchOk batch c w s v s' v' fin hd := by
  unfold importStep at h
  cases hh : batchHead batch c w s v with
  | error e => simp [hh] at h
  | ok hd =>
    simp only [hh] at h
    cases hf : (plan c.node (managed c.own w) hd.start hd.stop).foldlM (applyItem c w) (s, [(w, hd.bal)]) with
    | error e => simp [hf] at h
    | ok r =>
      obtain ⟨s1, bals⟩ := r
      simp only [hf, Except.ok.injEq, Prod.mk.injEq] at h
      obtain ⟨rfl, rfl, rfl⟩ := h
      refine ⟨hd, hh, ⟨s1, bals, hf, rfl⟩, ?_, rfl, rfl⟩
      simp [finishBatch, AMap.get_put]

/-- the head of a batch: what it read and how the range was computed -/
theorem batchHead_ok (batch : Nat) (c : Ctx) (w : Wid) (s : Store) (v : Vol) (hd : BatchHead)
    (h : batchHead batch c w s v = .ok hd) :
    AMap.get s.status w = some hd.ws ∧ AMap.get s.balance w = some hd.bal ∧ hd.cur = cursorU64 hd.ws ∧
    hd.best = v.best.height ∧ hd.stop = batchStop batch hd.cur hd.best ∧ hd.start = addU64 hd.cur 1 ∧
    (hd.stop > hd.cur → ∃ b, c.node.blockAt hd.stop = some b ∧ AMap.get s.sync hd.stop = some b.id) := by
  unfold batchHead at h
  by_cases hw : (!c.wallets.contains w) = true
  · rw [if_pos hw] at h; cases h
  · rw [if_neg hw] at h
    cases hws : AMap.get s.status w with
    | none => rw [hws] at h; cases h
    | some ws =>
      rw [hws] at h
      cases hbal : AMap.get s.balance w with
      | none => rw [hbal] at h; cases h
      | some bal =>
        rw [hbal] at h
        simp only at h
        split at h
        · cases h
        · rename_i hchk
          cases h
          refine ⟨rfl, rfl, rfl, rfl, rfl, rfl, ?_⟩
          intro hgt
          simp only [Bool.and_eq_true, decide_eq_true_eq, Bool.not_eq_true', not_and, Bool.not_eq_false] at hchk
          have hag := hchk hgt
          unfold agrees at hag
          split at hag
          · rename_i b hsy hb hs
            exact ⟨b, hb, by rw [hs]; simp at hag; rw [hag]⟩
          · cases hag

-- ------------------------------------------------------------------ import_progress

theorem batchStop_le (batch cur best : Nat) : batchStop batch cur best ≤ best := by
  unfold batchStop
  simp only
  split <;> omega

/-- **import_progress.** A successful batch of an importing wallet (cursor `cur`, real heights: no uint64 wrap)
    either reports `finish` and makes the wallet ready, or moves the cursor forward by exactly the batch size
    (any positive size; the code's 1000 is `MW.Gen.Handler.importBatch`), staying strictly below the follower's
    tip: the distance `best − cursor` strictly decreases.  (A failed batch returns no store at all — the
    transaction rolled back — and only `disconnectBlock` moves a cursor backwards, see `pullBack_le`.) -/
theorem import_progress (batch : Nat) (hb : batch > 0) (c : Ctx) (w : Wid) (s : Store) (v : Vol)
    (s' : Store) (v' : Vol) (fin : Bool) (h : importStep batch c w s v = .ok (s', v', fin))
    (ws : WStatus) (hws : AMap.get s.status w = some ws) (cur : Nat) (hcur : ws.synced = some cur)
    (hnw : cur + batch < 2 ^ 64) :
    (fin = true ∧ AMap.get s'.status w = some { ws with synced := none }) ∨
    (fin = false ∧ AMap.get s'.status w = some { ws with synced := some (cur + batch) } ∧
      cur + batch < v.best.height ∧ v.best.height - (cur + batch) < v.best.height - cur) := by
  obtain ⟨hd, hok⟩ := importStep_ok batch c w s v s' v' fin h
  obtain ⟨h1, _, h3, h4, h5, _, _⟩ := batchHead_ok batch c w s v hd hok.head
  rw [hws] at h1; cases h1
  have hc : hd.cur = cur := by rw [h3]; simp [cursorU64, hcur]
  have hstop : hd.stop = if cur + batch > hd.best then hd.best else cur + batch := by
    rw [h5, hc]; unfold batchStop addU64
    rw [Nat.mod_eq_of_lt hnw]
  rw [hok.status, hok.fin]
  by_cases hreach : cur + batch > hd.best
  · left
    rw [if_pos hreach] at hstop
    simp [statusAfter, hstop]
  · rw [if_neg hreach] at hstop
    by_cases heq : cur + batch = hd.best
    · left; simp [statusAfter, hstop, heq]
    · right
      have hne : hd.stop ≠ hd.best := by rw [hstop]; exact heq
      refine ⟨by simp [hne], ?_, by omega, by omega⟩
      simp only [statusAfter, hstop, heq, if_false]

-- ------------------------------------------------------------------ batches partition the chain

/-- **import_batches_adjacent.** Two consecutive successful batches on an unchanged node: the second starts right
    after the height the first stopped at, and together they applied exactly the plan of the joint range — no
    height skipped, none scanned twice, in chain order.  (By induction, any number of batches: `plan_append`.) -/
theorem import_batches_adjacent (batch : Nat) (hb : batch > 0) (c : Ctx) (w : Wid) (s : Store) (v : Vol)
    (s1 : Store) (v1 : Vol) (s2 : Store) (v2 : Vol) (f2 : Bool)
    (hd1 hd2 : BatchHead) (ok1 : BatchOk batch c w s v s1 v1 false hd1) (ok2 : BatchOk batch c w s1 v1 s2 v2 f2 hd2)
    (hnw1 : hd1.cur + batch < 2 ^ 64) (hnw : hd1.stop + batch < 2 ^ 64) :
    hd2.start = hd1.stop + 1 ∧ hd1.stop ≤ hd2.stop ∧
    plan c.node (managed c.own w) hd1.start hd1.stop ++ plan c.node (managed c.own w) hd2.start hd2.stop =
      plan c.node (managed c.own w) hd1.start hd2.stop := by
  obtain ⟨a1, _, a3, a4, a5, a6, _⟩ := batchHead_ok batch c w s1 v1 hd2 ok2.head
  obtain ⟨_, _, _, b4, b5, b6, _⟩ := batchHead_ok batch c w s v hd1 ok1.head
  have hne : hd1.stop ≠ hd1.best := by simpa using ok1.fin
  rw [ok1.status] at a1
  have hws2 : hd2.ws = statusAfter hd1.ws hd1.stop hd1.best := (Option.some.inj a1).symm
  have hcur2 : hd2.cur = hd1.stop := by rw [a3, hws2]; simp [cursorU64, statusAfter, hne]
  have hbest : hd2.best = hd1.best := by rw [a4, b4, ok1.best]
  have hle : hd1.stop ≤ hd1.best := by rw [b5]; exact batchStop_le _ _ _
  have hstart : hd2.start = hd1.stop + 1 := by
    rw [a6, hcur2]; unfold addU64; exact Nat.mod_eq_of_lt (by omega)
  have hstop2 : hd1.stop ≤ hd2.stop := by
    rw [a5, hcur2, hbest]; unfold batchStop addU64
    rw [Nat.mod_eq_of_lt hnw]
    simp only; split <;> omega
  -- the first batch did not reach the tip, so it was not capped: stop = cur + batch
  have hstop1 : hd1.stop = hd1.cur + batch := by
    have := b5
    unfold batchStop addU64 at this
    rw [Nat.mod_eq_of_lt hnw1] at this
    simp only at this
    split at this
    · exact absurd this hne
    · exact this
  have hstart1 : hd1.start ≤ hd1.stop + 1 := by
    rw [b6, hstop1]; unfold addU64
    have : (hd1.cur + 1) % 2 ^ 64 ≤ hd1.cur + 1 := Nat.mod_le _ _
    omega
  refine ⟨hstart, hstop2, ?_⟩
  rw [hstart]
  exact plan_append c.node (managed c.own w) hd1.start hd1.stop hd2.stop hstart1 hstop2

-- ------------------------------------------------------------------ the whole rescan, uninterrupted

/-- the worker loop on an importing wallet while nothing else happens: batch after batch until one reports
    `finish` (a batch that fails ends the run: the worker would retry it later); collects what was applied -/
def runBatches (batch : Nat) (c : Ctx) (w : Wid) : Nat → Store → Vol → Option (Store × Vol × List Item)
  | 0, _, _ => none
  | n + 1, s, v =>
    match importStep batch c w s v, batchHead batch c w s v with
    | .ok (s', v', fin), .ok hd =>
      let items := plan c.node (managed c.own w) hd.start hd.stop
      if fin then some (s', v', items)
      else (runBatches batch c w n s' v').map (fun r => (r.1, r.2.1, items ++ r.2.2))
    | _, _ => none

/-- **import_exact_partial (schedule).** However the rescan is cut into batches (any positive batch size, any
    number of batches), when it reports done it has applied — in chain order, each height once — exactly the
    transactions of the node's chain at heights (cursor, tip] that touch the wallet's script hashes, the wallet
    is ready, and the follower's tip was not moved.  What is NOT proved here is stated in `import_exact_full`. -/
theorem import_run_exact (batch : Nat) (hb : batch > 0) (c : Ctx) (w : Wid) (n : Nat) (s : Store) (v : Vol)
    (s' : Store) (v' : Vol) (items : List Item)
    (ws : WStatus) (hws : AMap.get s.status w = some ws) (cur : Nat) (hcur : ws.synced = some cur)
    (hnw : cur + batch < 2 ^ 64) (hnb : v.best.height + batch < 2 ^ 64)
    (h : runBatches batch c w n s v = some (s', v', items)) :
    items = plan c.node (managed c.own w) (cur + 1) v.best.height ∧
    AMap.get s'.status w = some { ws with synced := none } ∧ v'.best = v.best := by
  induction n generalizing s v ws cur items with
  | zero => simp [runBatches] at h
  | succ n ih =>
    unfold runBatches at h
    cases hstep : importStep batch c w s v with
    | error e => simp [hstep] at h
    | ok r =>
      obtain ⟨s1, v1, fin⟩ := r
      obtain ⟨hd, hok⟩ := importStep_ok batch c w s v s1 v1 fin hstep
      simp only [hstep, hok.head] at h
      obtain ⟨h1, _, h3, h4, h5, h6, _⟩ := batchHead_ok batch c w s v hd hok.head
      rw [hws] at h1
      have hwseq : hd.ws = ws := (Option.some.inj h1).symm
      have hc : hd.cur = cur := by rw [h3, hwseq]; simp [cursorU64, hcur]
      have hstart : hd.start = cur + 1 := by rw [h6, hc]; unfold addU64; exact Nat.mod_eq_of_lt (by omega)
      have hstopdef : hd.stop = if cur + batch > v.best.height then v.best.height else cur + batch := by
        rw [h5, hc, h4]; unfold batchStop addU64; rw [Nat.mod_eq_of_lt hnw]
      rcases import_progress batch hb c w s v s1 v1 fin hstep ws hws cur hcur hnw with ⟨hf, hst⟩ | ⟨hf, hst, hlt, _⟩
      · -- finished: the batch reached the tip
        subst hf
        simp only [if_true, Option.some.injEq, Prod.mk.injEq] at h
        obtain ⟨rfl, rfl, rfl⟩ := h
        have hreach : hd.stop = v.best.height := by
          have := hok.fin; simp only [true_eq_decide_iff] at this; rw [this, h4]
        rw [hstart, hreach]
        exact ⟨rfl, hst, hok.best⟩
      · -- not finished: the cursor is now cur + batch, strictly below the tip
        subst hf
        simp only [Bool.false_eq_true, if_false, Option.map_eq_some_iff] at h
        obtain ⟨r, hr, hreq⟩ := h
        obtain ⟨s2, v2, items2⟩ := r
        simp only [Prod.mk.injEq] at hreq
        obtain ⟨rfl, rfl, rfl⟩ := hreq
        have hstop : hd.stop = cur + batch := by
          rw [hstopdef, if_neg (by omega)]
        have hb1 : v1.best = v.best := hok.best
        have := ih s1 v1 items2 { ws with synced := some (cur + batch) } hst (cur + batch) rfl
          (by rw [hb1] at *; omega) (by rw [hb1]; exact hnb) hr
        obtain ⟨hitems, hst2, hbest2⟩ := this
        refine ⟨?_, by simpa using hst2, hbest2.trans hb1⟩
        rw [hitems, hstart, hstop, hb1]
        exact plan_append c.node (managed c.own w) (cur + 1) (cur + batch) v.best.height (by omega) (by omega)

-- ------------------------------------------------------------------ what the plan contains

/-- **import_plan_exact.** What a batch applies is exactly the set of transactions of the NODE's blocks at the
    heights of its range that touch one of the wallet's script hashes (as the node's script-hash index reports
    them: an output pays one, or an input spends an output paying one), at their block positions, heights
    ascending. -/
theorem import_plan_exact (n : Node) (addrs : List Addr) (start stop : Nat) :
    (∀ it ∈ plan n addrs start stop, start ≤ it.blk.height ∧ it.blk.height ≤ stop ∧
        ∃ b, n.blockAt it.blk.height = some b ∧ it.blk.hash = b.id ∧ b.txs[it.pos]? = some it.tx ∧
          touches n addrs it.blk.height it.tx = true) ∧
    (∀ h b pos tx, start ≤ h ∧ h ≤ stop → n.blockAt h = some b → b.txs[pos]? = some tx →
        touches n addrs h tx = true → ⟨⟨h, b.id⟩, pos, tx⟩ ∈ plan n addrs start stop) ∧
    ((plan n addrs start stop).map (·.blk.height)).Pairwise (· ≤ ·) :=
  ⟨fun it h => plan_sound n addrs start stop it h,
   fun h b pos tx hr hb htx ht => plan_complete n addrs start stop h b pos tx hr hb htx ht,
   plan_heights_sorted n addrs start stop⟩

-- ------------------------------------------------------------------ the batch reads the chain the follower follows

/-- two block sequences are hash-linked and identified by their ids -/
def Linked (ch : List Block) : Prop := ∀ i a b, ch[i]? = some a → ch[i + 1]? = some b → b.prev = a.id

/-- **followed_chain_agrees.** Blocks are hash-linked: if the node's chain and the chain the follower followed
    have the same block id at height `k` (what the batch head checks at the top of its range), they have the
    same block at every height up to `k` — so the whole range the batch scans is the follower's own chain.
    (`hinj`: an id determines its block, i.e. no hash collision among the blocks involved.) -/
theorem followed_chain_agrees (nd fl : List Block) (hn : Linked nd) (hf : Linked fl)
    (hinj : ∀ a b : Block, a.id = b.id → a = b)
    (k : Nat) (a b : Block) (ha : nd[k]? = some a) (hb : fl[k]? = some b) (hid : a.id = b.id) :
    ∀ h, h ≤ k → nd[h]? = fl[h]? := by
  induction k generalizing a b with
  | zero =>
    intro h hh
    have : h = 0 := by omega
    subst this
    rw [ha, hb, hinj a b hid]
  | succ k ih =>
    intro h hh
    by_cases hk : h = k + 1
    · subst hk; rw [ha, hb, hinj a b hid]
    · have hab : a = b := hinj a b hid
      have hlt : k < nd.length := by
        obtain ⟨hl, _⟩ := List.getElem?_eq_some_iff.1 ha; omega
      have hlt' : k < fl.length := by
        obtain ⟨hl, _⟩ := List.getElem?_eq_some_iff.1 hb; omega
      have ha' : nd[k]? = some nd[k] := List.getElem?_eq_getElem hlt
      have hb' : fl[k]? = some fl[k] := List.getElem?_eq_getElem hlt'
      have h1 := hn k nd[k] a ha' ha
      have h2 := hf k fl[k] b hb' hb
      exact ih nd[k] fl[k] ha' hb' (by rw [← h1, ← h2, hab]) h (by omega)

-- ------------------------------------------------------------------ not_selectable_until_done

/-- UseWallet succeeds only on a wallet whose status exists, is done and is not flagged removed (any store) -/
theorem use_only_ready (s : Store) (ks : List Wid) (w : Wid) (h : useWallet s ks w = .ok) :
    ∃ st, AMap.get s.status w = some st ∧ st.synced = none ∧ st.removed = false := by
  unfold useWallet at h
  cases hst : AMap.get s.status w with
  | none => simp [hst] at h
  | some st =>
    simp only [hst] at h
    refine ⟨st, rfl, ?_⟩
    by_cases hr : (st.synced.isNone && !st.removed) = true
    · simp only [Bool.and_eq_true, Option.isNone_iff_eq_none, Bool.not_eq_true'] at hr
      exact hr
    · simp [hr] at h

/-- an importing wallet (cursor `cur`) is refused, whatever else the store holds -/
theorem importing_refused (s : Store) (ks : List Wid) (w : Wid) (st : WStatus) (cur : Nat)
    (hst : AMap.get s.status w = some st) (hc : st.synced = some cur) : useWallet s ks w = .unready := by
  unfold useWallet
  simp [hst, hc]

/-- ImportWallet / ImportWalletWithMnemonic leave the wallet importing from height 0 (so: refused) as soon as the
    keystore manages an address — which a restored keystore always does (ExternalChildNum ≥ 1) -/
theorem fresh_import_refused (s : Store) (ks : List Wid) (w : Wid) (addrs : List Addr) (hne : addrs ≠ []) :
    useWallet (importWalletStore s w addrs) ks w = .unready := by
  have hemp : addrs.isEmpty = false := by cases addrs <;> simp_all
  have key : ∀ (l : List Addr) (t : Store),
      (l.foldl (fun s a => { s with addrs := AMap.put s.addrs (w, false, a) 0 }) t).status = t.status := by
    intro l
    induction l with
    | nil => intro t; rfl
    | cons a l ih => intro t; simp only [List.foldl_cons]; exact ih _
  unfold useWallet
  simp only [importWalletStore, hemp, Bool.false_eq_true, if_false]
  rw [key, AMap.get_put]
  simp

/-- **not_selectable_until_done (batches).** After a successful batch the wallet is selectable iff that batch
    reported `finish`: an importing wallet stays refused through every batch but the last. -/
theorem not_selectable_until_done (batch : Nat) (c : Ctx) (w : Wid) (s : Store) (v : Vol)
    (s' : Store) (v' : Vol) (fin : Bool) (h : importStep batch c w s v = .ok (s', v', fin))
    (ws : WStatus) (hws : AMap.get s.status w = some ws) (hnr : ws.removed = false) :
    (useWallet s' c.wallets w = .ok ↔ fin = true) := by
  obtain ⟨hd, hok⟩ := importStep_ok batch c w s v s' v' fin h
  obtain ⟨h1, _, _, _, _, _, _⟩ := batchHead_ok batch c w s v hd hok.head
  rw [hws] at h1
  have hwseq : hd.ws = ws := (Option.some.inj h1).symm
  have hks : c.wallets.contains w = true := by
    have := hok.head
    unfold batchHead at this
    by_cases hw : (!c.wallets.contains w) = true
    · rw [if_pos hw] at this; cases this
    · simpa using hw
  unfold useWallet
  rw [hok.status, hok.fin]
  by_cases hreach : hd.stop = hd.best
  · have hmem : w ∈ c.wallets := by simpa using hks
    simp [statusAfter, hreach, hwseq, hnr, hmem]
  · simp [statusAfter, hreach]

/-- worker batches interleaved with tip notifications that extend the follower's chain (the reorganisation path of
    processBlock is not covered here: see `import_exact_full`) -/
inductive Ev2
  | batch
  | extend (b : Block)

/-- one event; the flag records whether a batch has reported `finish` so far.  A failed batch changes nothing; a
    notification that does not extend the follower's tip is not handled by this restricted semantics. -/
def stepEv2 (batch : Nat) (c : Ctx) (w : Wid) (st : Store × Vol × Bool) : Ev2 → Store × Vol × Bool
  | .batch =>
    match importStep batch c w st.1 st.2.1 with
    | .ok (s', v', fin) => (s', v', st.2.2 || fin)
    | .error _ => st
  | .extend b =>
    if b.prev = st.2.1.best.hash then
      let r := processBlock c st.1 st.2.1 b
      (r.1, r.2.1, st.2.2)
    else st

/-- **not_selectable_until_done (batches and tip extensions).** For every interleaving of rescan batches (of any
    size, successful or not) with tip notifications extending the follower's chain: as long as no batch has
    reported `finish`, the wallet is still importing and UseWallet refuses it. -/
theorem not_selectable_across_extensions (batch : Nat) (c : Ctx) (w : Wid) (evs : List Ev2) (s : Store) (v : Vol)
    (ws : WStatus) (cur : Nat) (hws : AMap.get s.status w = some ws) (hcur : ws.synced = some cur) :
    let r := evs.foldl (stepEv2 batch c w) (s, v, false)
    r.2.2 = false → useWallet r.1 c.wallets w = .unready := by
  have key : ∀ (evs : List Ev2) (st : Store × Vol × Bool),
      (st.2.2 = false → ∃ ws cur, AMap.get st.1.status w = some ws ∧ ws.synced = some cur) →
      ((evs.foldl (stepEv2 batch c w) st).2.2 = false →
        ∃ ws cur, AMap.get (evs.foldl (stepEv2 batch c w) st).1.status w = some ws ∧ ws.synced = some cur) := by
    intro evs
    induction evs with
    | nil => intro st h; exact h
    | cons e evs ih =>
      intro st hst
      simp only [List.foldl_cons]
      apply ih
      intro hflag
      cases e with
      | batch =>
        unfold stepEv2 at hflag ⊢
        cases hstep : importStep batch c w st.1 st.2.1 with
        | error e => simp only [hstep] at hflag ⊢; exact hst hflag
        | ok r =>
          obtain ⟨s', v', fin⟩ := r
          simp only [hstep] at hflag ⊢
          simp only [Bool.or_eq_false_iff] at hflag
          obtain ⟨hd, hok⟩ := importStep_ok batch c w st.1 st.2.1 s' v' fin hstep
          have hne : hd.stop ≠ hd.best := by
            have := hok.fin; rw [hflag.2] at this; simpa using this
          exact ⟨statusAfter hd.ws hd.stop hd.best, hd.stop, hok.status, by simp [statusAfter, hne]⟩
      | extend b =>
        unfold stepEv2 at hflag ⊢
        by_cases hext : b.prev = st.2.1.best.hash
        · simp only [hext, if_true] at hflag ⊢
          rw [Lemmas.LedgerStatus.processBlock_extend_status c st.1 st.2.1 b hext]
          exact hst hflag
        · simp only [hext, if_false] at hflag ⊢
          exact hst hflag
  intro r hr
  obtain ⟨ws', cur', h1, h2⟩ := key evs (s, v, false) (fun _ => ⟨ws, cur, hws, hcur⟩) hr
  exact importing_refused _ _ w ws' cur' h1 h2

/-- the status part of disconnectBlock (ntfnshandler.go, copied by MW.Model.Ledger.disconnectBlock): every wallet
    that is not ready has its cursor pulled back to `height − 1` -/
def pullBack (status : AMap.T Wid WStatus) (height : Nat) : AMap.T Wid WStatus :=
  status.map (fun e =>
    match e.2.synced with
    | some h => if h > height - 1 then (e.1, { e.2 with synced := some (height - 1) }) else e
    | none => e)

/-- **pullBack.** Disconnecting height `height` never makes an importing wallet ready nor a ready wallet importing,
    and afterwards no cursor is above `height − 1`: the rescan restarts below the fork. -/
theorem pullBack_spec (status : AMap.T Wid WStatus) (height : Nat) :
    (∀ e ∈ pullBack status height, ∀ h, e.2.synced = some h → h ≤ height - 1) ∧
    (pullBack status height).map (fun e => (e.1, e.2.synced.isSome, e.2.removed)) =
      status.map (fun e => (e.1, e.2.synced.isSome, e.2.removed)) := by
  constructor
  · intro e he h hh
    unfold pullBack at he
    simp only [List.mem_map] at he
    obtain ⟨e0, _, rfl⟩ := he
    cases hs : e0.2.synced with
    | none => simp [hs] at hh
    | some h0 =>
      simp only [hs] at hh
      by_cases hgt : h0 > height - 1
      · simp only [hgt, if_true] at hh; cases hh; exact Nat.le_refl _
      · simp only [hgt, if_false, hs] at hh; cases hh; omega
  · unfold pullBack
    rw [List.map_map]
    apply List.map_congr_left
    intro e _
    simp only [Function.comp]
    cases hs : e.2.synced with
    | none => simp [hs]
    | some h0 =>
      simp only
      by_cases hgt : h0 > height - 1 <;> simp [hgt, hs]

/-- the model's disconnectBlock uses exactly this function (checked by unfolding on the status expression) -/
theorem pullBack_is_ledger (s : Store) (height : Nat) :
    pullBack s.status height = s.status.map (fun e =>
      match e.2.synced with
      | some h => if h > height - 1 then (e.1, { e.2 with synced := some (height - 1) }) else e
      | none => e) := rfl

-- ------------------------------------------------------------------ the rescan's per-transaction step is the live one

/-- **import_tx_eq_live.** When the store has no record of the transaction yet and the block record at that
    height — if any — is this block's and lists only earlier transactions of the block (`FreshAt`; true for every
    item of a plan applied to a store that followed the same chain), `addRelevantTxForImporting` and the live
    `addRelevantMined` succeed together and give the same store and balances. -/
theorem import_tx_eq_live (p : Params) (own : Own) (s : Store) (bals : Bals) (tr : TxRec) (blk : BlockMeta)
    (h : Lemmas.ImportLive.FreshAt s tr blk) :
    (addRelevantTxForImporting p own s bals tr blk).toOption = (addRelevantMined p own s bals tr blk).toOption :=
  Lemmas.ImportLive.add_eq_live p own s bals tr blk h

-- ------------------------------------------------------------------ the full statement (not proved)

/-- what can happen while a wallet is importing: the worker runs a batch, the follower handles a notification
    (processBlock: extension or reorganisation, against the node chain as it is then), the node moves -/
inductive Ev
  | batch
  | block (b : Block)
  | node (chain : List Block)

structure Sys where
  node : Node
  s : Store
  v : Vol

def stepEv (batch : Nat) (p : Params) (own : Own) (wallets : List Wid) (w : Wid) (sys : Sys) : Ev → Sys
  | .batch =>
    match importStep batch { p := p, own := own, wallets := wallets, node := sys.node } w sys.s sys.v with
    | .ok (s', v', _) => { sys with s := s', v := v' }
    | .error _ => sys
  | .block b =>
    let r := processBlock { p := p, own := own, wallets := wallets, node := sys.node } sys.s sys.v b
    { sys with s := r.1, v := r.2.1 }
  | .node ch => { sys with node := { sys.node with chain := ch } }

/-- FULL statement of import_exact as written in round 1, kept type-checked.  For every batch size, every history of
    batches, tip notifications, reorganisations (below or above the cursor) and node movements after the import moment:
    once the wallet is done and the follower has caught up with the node, what the wallet reports is what the chain
    specification `MW.Spec.Chain` says for the node's chain — i.e. exactly what a wallet that watched live reports (C01).
    STATUS (round 5): in this LITERAL form the statement is TOO STRONG — `import_exact_full_literal_false` refutes it
    with a store whose synced-to pointer disagrees with its synced-to table at the import moment (the literal
    hypotheses say nothing about the store following the node's chain; they also admit ill-formed node chains and
    batches on a ready wallet).  The statement WITH the needed hypotheses — at the import moment the store follows the
    chain (C01's `Inv` for the other, ready, wallets), chains are hash-linked / valid / made of known blocks, notified
    blocks are on the node's chain, batches run while the wallet is importing — is PROVED: `import_exact_full_good`
    (stage 3), on top of stage 1 (`import_exact_static_full`), stage 2 (`import_exact_extensions_joined`,
    `import_exact_reorg_joined`) and the schedule / content theorems of round 1 (`import_run_exact`,
    `import_batches_adjacent`, `import_progress`, `import_plan_exact`, `batchHead_ok`, `followed_chain_agrees`,
    `pullBack_spec`, `import_tx_eq_live`).  Unconfirmed transactions (`recvTx`) are not events of these histories
    (the theorems hold for any content of the pending buckets); the three-way differential runs cover them. -/
def import_exact_full : Prop :=
  ∀ (batch : Nat) (p : Params) (own : Own) (wallets : List Wid) (w : Wid) (sys0 : Sys) (evs : List Ev) (minConf : Nat),
    batch > 0 →
    let sys := evs.foldl (stepEv batch p own wallets w) sys0
    -- at the import moment: status "importing from 0", nothing recorded for the wallet
    (AMap.get sys0.s.status w = some ⟨some 0, false⟩ ∧ (∀ e ∈ sys0.s.credits, (mine own w e.2.sh).isNone) ∧
      (∀ e ∈ sys0.s.unspent, e.1.1 ≠ w) ∧ AMap.get sys0.s.balance w = some 0) →
    -- at the end: done, and the follower has caught up with the node
    (AMap.get sys.s.status w = some ⟨none, false⟩ ∧ sys.v.best.height + 1 = sys.node.chain.length ∧
      (∀ h b, sys.node.chain[h]? = some b → AMap.get sys.s.sync h = some b.id)) →
    walletBalance sys.s w minConf = some (Spec.Chain.balance p own sys.node.chain w minConf)

-- ------------------------------------------------------------------ stage 1: the chain stands still

open MW.Lemmas.ImportExact in
/-- `runBatches` is the loop `runImport` of the lemma library (plus the list of applied items) -/
theorem runBatches_runImport (batch : Nat) (c : Ctx) (w : Wid) (n : Nat) (s : Store) (v : Vol)
    (s' : Store) (v' : Vol) (items : List Item) (h : runBatches batch c w n s v = some (s', v', items)) :
    runImport batch c w n s v = some (s', v') := by
  induction n generalizing s v items with
  | zero => simp [runBatches] at h
  | succ n ih =>
    unfold runBatches at h
    unfold runImport
    cases hstep : importStep batch c w s v with
    | error e => simp [hstep] at h
    | ok r =>
      obtain ⟨s1, v1, fin⟩ := r
      obtain ⟨hd, hok⟩ := importStep_ok batch c w s v s1 v1 fin hstep
      simp only [hstep, hok.head] at h ⊢
      by_cases hf : fin = true
      · simp only [hf, if_true, Option.some.injEq, Prod.mk.injEq] at h ⊢
        exact ⟨h.1, h.2.1⟩
      · simp only [hf, Bool.false_eq_true, if_false, Option.map_eq_some_iff] at h ⊢
        obtain ⟨r, hr, hreq⟩ := h
        obtain ⟨s2, v2, items2⟩ := r
        simp only [Prod.mk.injEq] at hreq
        obtain ⟨rfl, rfl, _⟩ := hreq
        exact ih s1 v1 items2 hr

open MW.Lemmas.ImportExact MW.Lemmas.Ledger in
/-- **import_exact_static_partial** (stage 1 of `import_exact_full`; PARTIAL in one respect only: the restored
    keystore is the instance's only one — `AllReady c.own [w]`, `c.wallets = [w]` — the classic "restore from seed
    onto a fresh installation"; with other, ready, wallets in the instance: `import_exact_static_full`).
    The node's chain stands still, the follower is caught up (`Scan`: the store holds the books of the chain up to
    the cursor; `scan_fresh` gives it at the import moment).  For ANY positive batch size and ANY number of batches:
    when the rescan reports done, the store satisfies C01's invariant `Inv` for the node's whole chain — credits,
    unspent index, debits, deposit records, tx records and block records ARE the books `bookOf` of the chain, the
    balance is the ledger total — the wallet is ready, the follower's tip was not moved and the unspent index has
    distinct keys.  Hence (C01 `balance_correct` / `coins_perm`): `import_observed_static`. -/
theorem import_exact_static_partial (batch : Nat) (hb : batch > 0) (c : Ctx) (w : Wid)
    (hAR : AllReady c.own [w]) (hC : ChainOK c) (hws : c.wallets = [w])
    (n : Nat) (s : Store) (v : Vol) (s' : Store) (v' : Vol) (items : List Item) (ws : WStatus) (k : Nat)
    (hS : Scan c w s k) (hst : AMap.get s.status w = some ws) (hk : ws.synced = some k)
    (hbest : v.best.height + 1 = c.node.chain.length) (hle : k ≤ v.best.height)
    (hnb : v.best.height + batch < 2 ^ 64)
    (h : runBatches batch c w n s v = some (s', v', items)) :
    Inv c s' c.node.chain ∧ AMap.get s'.status w = some { ws with synced := none } ∧ v'.best = v.best ∧
      KeysNodup s'.unspent := by
  obtain ⟨a, b, d⟩ := run_scan hb hAR hC (by rw [hws]; simp) n s v k ws s' v' hS hst hk hbest hle hnb
    (runBatches_runImport batch c w n s v s' v' items h)
  exact ⟨scan_tip_inv hws a hbest, b, d, a.wf⟩

open MW.Lemmas.ImportExact MW.Lemmas.Ledger in
/-- … and the rescan does report done: no batch fails, `best − cursor + 1` batches always suffice -/
theorem import_static_terminates (batch : Nat) (hb : batch > 0) (c : Ctx) (w : Wid)
    (hAR : AllReady c.own [w]) (hC : ChainOK c) (hw : c.wallets.contains w = true)
    (s : Store) (v : Vol) (ws : WStatus) (k : Nat)
    (hS : Scan c w s k) (hst : AMap.get s.status w = some ws) (hk : ws.synced = some k)
    (hbest : v.best.height + 1 = c.node.chain.length) (hle : k ≤ v.best.height)
    (hnb : v.best.height + batch < 2 ^ 64) :
    (runImport batch c w (v.best.height - k + 1) s v).isSome = true :=
  run_total hb hAR hC hw _ s v k ws hS hst hk hbest hle hnb (by omega)

open MW.Lemmas.ImportExact MW.Lemmas.Ledger in
/-- **import_observed_static.** What the restored wallet then reports IS what the chain specification says: the
    unspent outputs (tx, index, amount, height, maturity, confirmations, address) are — as a multiset — the outputs
    `Spec.Chain.utxosOf` of the node's chain, and WalletBalance is `Spec.Chain.balance` (the 32-bit size bounds are
    C01's). -/
theorem import_observed_static (batch : Nat) (hb : batch > 0) (c : Ctx) (w : Wid)
    (hAR : AllReady c.own [w]) (hC : ChainOK c) (hws : c.wallets = [w])
    (n : Nat) (s : Store) (v : Vol) (s' : Store) (v' : Vol) (items : List Item) (k : Nat)
    (hS : Scan c w s k) (hst : AMap.get s.status w = some ⟨some k, false⟩)
    (hbest : v.best.height + 1 = c.node.chain.length) (hle : k ≤ v.best.height)
    (hnb : v.best.height + batch < 2 ^ 64)
    (hlen : c.node.chain.length < 2 ^ 32) (hcb : c.p.cbMaturity < 2 ^ 32)
    (hstk : ∀ x ∈ Spec.Chain.ledgerOf c.own c.node.chain, ∀ f, x.cls = .stk f → f + 1 < 2 ^ 32)
    (h : runBatches batch c w n s v = some (s', v', items)) (mc : Nat) :
    ((coinsOf s' w).map (Spec.Chain.obsM s'.syncedTo)).Perm
        ((Spec.Chain.utxosOf c.own c.node.chain w).map (Spec.Chain.obsS c.p (c.node.chain.length - 1))) ∧
      walletBalance s' w mc = some (Spec.Chain.balance c.p c.own c.node.chain w mc) := by
  obtain ⟨hI, hst', _, hwf⟩ := import_exact_static_partial batch hb c w hAR hC hws n s v s' v' items _ k hS hst rfl
    hbest hle hnb h
  have H : ObsHyp c s' c.node.chain := ⟨hI, hwf, hC.valid, hC.heights, hlen, hcb, hstk⟩
  refine ⟨coins_perm H w, balance_correct H ?_ mc⟩
  unfold readyWallets
  rw [hws]
  simp [hst']

open MW.Lemmas.ImportExact MW.Lemmas.ImportJoin MW.Lemmas.Ledger in
/-- **import_exact_static_joined** (stage 1 of `import_exact_full`, OTHER WALLETS IN THE INSTANCE).  The instance
    holds other wallets whose books for the whole followed chain are in the store (`Inv` for the keystore table
    without `w`'s addresses — what the live follower maintains, C01), `w` has just been imported (cursor 0, balance
    0, nothing recorded; genesis block without transactions), the node's chain stands still, the keystore table has
    pairwise distinct addresses.  For ANY positive batch size and ANY number of batches: when the rescan reports done
    the store satisfies C01's invariant `Inv` for the FULL keystore table — credits, unspent index, debits, deposit
    records, tx records and block records are the books `bookOf` of the chain for ALL wallets, every ready wallet's
    balance is its ledger total — `w` is ready, the follower's tip is unmoved, the other wallets' status and
    balances are untouched and the unspent index keeps distinct keys.
    Proof (lemma files ImportSub / ImportJoin / ImportJoinTx / ImportJoinRec / ImportJoinScan / ImportJoinFin /
    ImportJoinMain): invariant `ScanJ` = the store is the JOIN of the books of the other wallets for the whole chain
    and the books of `w` up to its cursor; block records are kept as a function of the tx records (`BlocksOK`),
    which `insertByPos` preserves when it merges into a block record that other wallets' transactions populate
    (fix D29); the per-transaction step refines the book operations on the join without `AllReady`
    (`addImp_join`); at the tip the join of the halves is the books of the table (`join_credits`, …). -/
theorem import_exact_static_joined (batch : Nat) (hb : batch > 0) (c : Ctx) (w : Wid)
    (hC : ChainOK c) (hKN : KeysNodup c.own) (hw : w ∈ c.wallets)
    (n : Nat) (s : Store) (v : Vol) (s' : Store) (v' : Vol) (items : List Item)
    (hI : Inv { c with own := c.own.filter (fun e => e.2.1 ≠ w) } s c.node.chain)
    (hG : ∃ G, c.node.chain[0]? = some G ∧ G.txs = [])
    (hst : AMap.get s.status w = some ⟨some 0, false⟩) (hbal : AMap.get s.balance w = some 0)
    (hbest : v.best.height + 1 = c.node.chain.length) (hnb : v.best.height + batch < 2 ^ 64)
    (h : runBatches batch c w n s v = some (s', v', items)) :
    Inv c s' c.node.chain ∧ AMap.get s'.status w = some ⟨none, false⟩ ∧ v'.best = v.best ∧
      (∀ w', w' ≠ w → AMap.get s'.balance w' = AMap.get s.balance w' ∧ AMap.get s'.status w' = AMap.get s.status w') ∧
      (KeysNodup s.unspent → KeysNodup s'.unspent) := by
  obtain ⟨G, hG0, hGt⟩ := hG
  have hS := scanJ_fresh hKN hC hI hG0 hGt hbal
  obtain ⟨a, b, d, e⟩ := run_scanJ hb hKN hC (List.contains_iff_mem.2 hw) n s v 0 ⟨some 0, false⟩ s' v' hS hst rfl hbest
    (Nat.zero_le _) hnb (runBatches_runImport batch c w n s v s' v' items h)
  exact ⟨scanJ_tip_inv hKN hC a hbest, b, d, fun w' hw' => ⟨e.1 w' hw', e.2.1 w' hw'⟩, e.2.2⟩

open MW.Lemmas.ImportExact MW.Lemmas.ImportJoin MW.Lemmas.Ledger in
/-- **import_exact_static_full** — the FULL statement of stage 1 (kept word for word from the round in which it was
    a type-checked `def`), now PROVED: other READY wallets in the instance, their books for the whole chain in the
    store, `w` just imported, the chain stands still: when the rescan reports done the store satisfies `Inv` for
    the full keystore table.  (The readiness hypothesis `AllReady …` is not needed by the proof: nothing but the
    rescan runs.)  `import_exact_static_joined` adds the status / tip / frame conclusions. -/
theorem import_exact_static_full :
  ∀ (batch : Nat) (c : Ctx) (w : Wid) (n : Nat) (s : Store) (v : Vol) (s' : Store) (v' : Vol) (items : List Item),
    batch > 0 → Lemmas.ImportExact.ChainOK c → Lemmas.Ledger.KeysNodup c.own → w ∈ c.wallets →
    Lemmas.Ledger.AllReady (c.own.filter (fun e => e.2.1 ≠ w)) (readyWallets s c.wallets) →
    Lemmas.Ledger.Inv { c with own := c.own.filter (fun e => e.2.1 ≠ w) } s c.node.chain →
    (∃ G, c.node.chain[0]? = some G ∧ G.txs = []) →
    AMap.get s.status w = some ⟨some 0, false⟩ → AMap.get s.balance w = some 0 →
    v.best.height + 1 = c.node.chain.length → v.best.height + batch < 2 ^ 64 →
    runBatches batch c w n s v = some (s', v', items) →
    Lemmas.Ledger.Inv c s' c.node.chain := by
  intro batch c w n s v s' v' items hb hC hKN hw _ hI hG hst hbal hbest hnb h
  exact (import_exact_static_joined batch hb c w hC hKN hw n s v s' v' items hI hG hst hbal hbest hnb h).1

open MW.Lemmas.ImportExact MW.Lemmas.ImportJoin MW.Lemmas.Ledger in
/-- … and the rescan does report done with other wallets in the instance: no batch fails, `best + 1` batches
    always suffice -/
theorem import_static_terminates_joined (batch : Nat) (hb : batch > 0) (c : Ctx) (w : Wid)
    (hC : ChainOK c) (hKN : KeysNodup c.own) (hw : w ∈ c.wallets) (s : Store) (v : Vol)
    (hI : Inv { c with own := c.own.filter (fun e => e.2.1 ≠ w) } s c.node.chain)
    (hG : ∃ G, c.node.chain[0]? = some G ∧ G.txs = [])
    (hst : AMap.get s.status w = some ⟨some 0, false⟩) (hbal : AMap.get s.balance w = some 0)
    (hbest : v.best.height + 1 = c.node.chain.length) (hnb : v.best.height + batch < 2 ^ 64) :
    (runImport batch c w (v.best.height + 1) s v).isSome = true := by
  obtain ⟨G, hG0, hGt⟩ := hG
  exact run_totalJ hb hKN hC (List.contains_iff_mem.2 hw) _ s v 0 ⟨some 0, false⟩
    (scanJ_fresh hKN hC hI hG0 hGt hbal) hst rfl hbest (Nat.zero_le _) hnb (by omega)

open MW.Lemmas.ImportExact MW.Lemmas.ImportJoin MW.Lemmas.Ledger in
/-- **import_observed_static_joined.** After the rescan EVERY wallet of the instance — the restored one and the
    ones that were there — reports what the chain specification says: unspent outputs as a multiset
    `Spec.Chain.utxosOf`, and, for the ready ones, WalletBalance = `Spec.Chain.balance` (C01 `coins_perm` /
    `balance_correct` on the invariant the rescan ends in). -/
theorem import_observed_static_joined (batch : Nat) (hb : batch > 0) (c : Ctx) (w : Wid)
    (hC : ChainOK c) (hKN : KeysNodup c.own) (hw : w ∈ c.wallets)
    (n : Nat) (s : Store) (v : Vol) (s' : Store) (v' : Vol) (items : List Item)
    (hI : Inv { c with own := c.own.filter (fun e => e.2.1 ≠ w) } s c.node.chain) (hU : KeysNodup s.unspent)
    (hG : ∃ G, c.node.chain[0]? = some G ∧ G.txs = [])
    (hst : AMap.get s.status w = some ⟨some 0, false⟩) (hbal : AMap.get s.balance w = some 0)
    (hbest : v.best.height + 1 = c.node.chain.length) (hnb : v.best.height + batch < 2 ^ 64)
    (hlen : c.node.chain.length < 2 ^ 32) (hcb : c.p.cbMaturity < 2 ^ 32)
    (hstk : ∀ x ∈ Spec.Chain.ledgerOf c.own c.node.chain, ∀ f, x.cls = .stk f → f + 1 < 2 ^ 32)
    (h : runBatches batch c w n s v = some (s', v', items)) (w' : Wid) (mc : Nat) :
    ((coinsOf s' w').map (Spec.Chain.obsM s'.syncedTo)).Perm
        ((Spec.Chain.utxosOf c.own c.node.chain w').map (Spec.Chain.obsS c.p (c.node.chain.length - 1))) ∧
      ((readyWallets s' c.wallets).contains w' = true →
        walletBalance s' w' mc = some (Spec.Chain.balance c.p c.own c.node.chain w' mc)) := by
  obtain ⟨hI', _, _, _, hwf⟩ := import_exact_static_joined batch hb c w hC hKN hw n s v s' v' items hI hG hst hbal hbest hnb h
  have H : ObsHyp c s' c.node.chain := ⟨hI', hwf hU, hC.valid, hC.heights, hlen, hcb, hstk⟩
  exact ⟨coins_perm H w', fun hr => balance_correct H hr mc⟩

-- ------------------------------------------------------------------ stage 2: the chain grows while the rescan runs

open MW.Lemmas.ImportExact MW.Lemmas.Ledger in
/-- **import_extensions_inv** (stage 2 of `import_exact_full`, TIP EXTENSIONS; PARTIAL: the restored keystore is the
    instance's only one, and reorganisations are not covered).  Events (`MW.Lemmas.ImportExact.stepX`): a worker
    batch of any positive size (run only while the wallet is not ready), or the node appends a block to its best
    chain and the follower is notified at once (`processBlock` on the extended node).  For EVERY interleaving whose
    final chain is valid: the follower stays at the node's tip and either the wallet is still importing and the
    store holds exactly the books of the chain up to its cursor (`Scan`: while nobody is ready `filterBlock` only
    moves the synced-to table, so the books stay "up to the cursor" although the chain has grown), or the wallet
    is ready and the store satisfies C01's invariant `Inv` for the node's whole chain (after the hand-over the live
    follower books the new blocks: C01 `connect_sound`). -/
theorem import_extensions_inv (batch : Nat) (hb : batch > 0) (p : Params) (own : Own) (wallets : List Wid) (w : Wid)
    (hAR : AllReady own [w]) (hws : wallets = [w]) (sys0 : XSys) (evs : List XEv)
    (hC : ChainOK { p := p, own := own, wallets := wallets, node := (evs.foldl (stepX batch p own wallets w) sys0).node })
    (hnb : (evs.foldl (stepX batch p own wallets w) sys0).node.chain.length + batch < 2 ^ 64)
    (h0 : XInv p own wallets w sys0) : XInv p own wallets w (evs.foldl (stepX batch p own wallets w) sys0) :=
  foldX_inv hb hAR hws evs sys0 hC hnb h0

open MW.Lemmas.ImportExact MW.Lemmas.Ledger in
/-- **import_exact_extensions_partial.**  … hence: whenever, after any interleaving of batches and tip extensions
    starting from the scan invariant (e.g. the import moment, `scan_fresh`), the wallet is done, the store satisfies
    `Inv` for the node's whole chain — including the blocks that arrived DURING the rescan and after it — the
    follower is at the node's tip and the unspent index is well-formed; so the restored wallet reports
    `Spec.Chain` (C01 `coins_perm` / `balance_correct`, as in `import_observed_static`). -/
theorem import_exact_extensions_partial (batch : Nat) (hb : batch > 0) (p : Params) (own : Own) (wallets : List Wid)
    (w : Wid) (hAR : AllReady own [w]) (hws : wallets = [w]) (sys0 : XSys) (evs : List XEv) (ws0 : WStatus) (k0 : Nat)
    (hS : Scan { p := p, own := own, wallets := wallets, node := sys0.node } w sys0.s k0)
    (hst : AMap.get sys0.s.status w = some ws0) (hk : ws0.synced = some k0) (hrm : ws0.removed = false)
    (hbest : sys0.v.best.height + 1 = sys0.node.chain.length) (hle : k0 ≤ sys0.v.best.height)
    (hC : ChainOK { p := p, own := own, wallets := wallets, node := (evs.foldl (stepX batch p own wallets w) sys0).node })
    (hnb : (evs.foldl (stepX batch p own wallets w) sys0).node.chain.length + batch < 2 ^ 64)
    (hdone : AMap.get (evs.foldl (stepX batch p own wallets w) sys0).s.status w = some ⟨none, false⟩) :
    Inv { p := p, own := own, wallets := wallets, node := (evs.foldl (stepX batch p own wallets w) sys0).node }
        (evs.foldl (stepX batch p own wallets w) sys0).s (evs.foldl (stepX batch p own wallets w) sys0).node.chain ∧
      (evs.foldl (stepX batch p own wallets w) sys0).v.best.height + 1 =
        (evs.foldl (stepX batch p own wallets w) sys0).node.chain.length ∧
      KeysNodup (evs.foldl (stepX batch p own wallets w) sys0).s.unspent := by
  obtain ⟨h1, h2⟩ := foldX_inv hb hAR hws evs sys0 hC hnb ⟨hbest, Or.inl ⟨ws0, k0, hst, hk, hrm, hle, hS⟩⟩
  rcases h2 with ⟨ws, k, hst', hk', _⟩ | ⟨_, hI, hU⟩
  · rw [hdone] at hst'
    cases hst'
    cases hk'
  · exact ⟨hI, h1, hU⟩

open MW.Lemmas.ImportExact MW.Lemmas.ImportJoin MW.Lemmas.Ledger in
/-- **import_exact_extensions_joined** (stage 2 of `import_exact_full`, TIP EXTENSIONS, OTHER WALLETS IN THE
    INSTANCE; reorganisations are not covered).  At the import moment the other keystores' wallets are ready and
    their books for the followed chain are in the store (`Inv` for the table without `w`), `w` has cursor 0 and
    balance 0, the follower is at the node's tip.  Then ANY interleaving of rescan batches (any positive size) and tip
    extensions (the node appends a block, the live follower — booking the READY wallets only — is notified at
    once) whose final chain is valid keeps the invariant `XInvJ`; in particular, when `w` is done the store
    satisfies C01's invariant `Inv` for the FULL keystore table and the node's whole chain — the blocks that
    arrived during the rescan included — and the follower is at the node's tip.
    Proof: `extend_scanJ` — on the joined store `filterBlock` with the ready wallets cannot tell the keystore table
    from its restriction to them (`filterTxs_sub`), the library's `filterTxs_block` gives their relevance records, and
    `addRelevantMined` on a block that is new to the store is the rescan's step (`import_tx_eq_live`), i.e.
    `addTx_join` with the ready wallets active and `w`'s books passive (an input MAY hit a coin of `w`: it is
    skipped, `spendFoldJ`); after the hand-over C01's `connect_sound`. -/
theorem import_exact_extensions_joined (batch : Nat) (hb : batch > 0) (p : Params) (own : Own) (wallets : List Wid)
    (w : Wid) (hKN : KeysNodup own) (hw : w ∈ wallets) (sys0 : XSys) (evs : List XEv)
    (hI : Inv { p := p, own := own.filter (fun e => e.2.1 ≠ w), wallets := wallets, node := sys0.node } sys0.s sys0.node.chain)
    (hAR : AllReady (own.filter (fun e => e.2.1 ≠ w)) (readyWallets sys0.s wallets))
    (hne : (readyWallets sys0.s wallets).isEmpty = false)
    (hG : ∃ G, sys0.node.chain[0]? = some G ∧ G.txs = [])
    (hst : AMap.get sys0.s.status w = some ⟨some 0, false⟩) (hbal : AMap.get sys0.s.balance w = some 0)
    (hbest : sys0.v.best.height + 1 = sys0.node.chain.length)
    (hC : ChainOK { p := p, own := own, wallets := wallets, node := (evs.foldl (stepX batch p own wallets w) sys0).node })
    (hnb : (evs.foldl (stepX batch p own wallets w) sys0).node.chain.length + batch < 2 ^ 64) :
    XInvJ (KeysNodup sys0.s.unspent) p own wallets w (evs.foldl (stepX batch p own wallets w) sys0) ∧
    (AMap.get (evs.foldl (stepX batch p own wallets w) sys0).s.status w = some ⟨none, false⟩ →
      Inv { p := p, own := own, wallets := wallets, node := (evs.foldl (stepX batch p own wallets w) sys0).node }
          (evs.foldl (stepX batch p own wallets w) sys0).s (evs.foldl (stepX batch p own wallets w) sys0).node.chain ∧
        (evs.foldl (stepX batch p own wallets w) sys0).v.best.height + 1 =
          (evs.foldl (stepX batch p own wallets w) sys0).node.chain.length) := by
  obtain ⟨G, hG0, hGt⟩ := hG
  obtain ⟨rest, hrest⟩ := foldX_chain batch p own wallets w evs sys0
  have hC0 : ChainOK { p := p, own := own, wallets := wallets, node := sys0.node } :=
    chainOK_prefix
      (c := { p := p, own := own, wallets := wallets, node := (evs.foldl (stepX batch p own wallets w) sys0).node })
      (c' := { p := p, own := own, wallets := wallets, node := sys0.node }) (rest := rest) rfl hrest hC
  have hS := scanJ_fresh (c := { p := p, own := own, wallets := wallets, node := sys0.node }) (w := w) hKN hC0 hI hG0 hGt hbal
  have hX := foldXJ_inv (u0 := KeysNodup sys0.s.unspent) hb hKN hw evs sys0 hC hnb
    ⟨hbest, fun h => h, Or.inl ⟨⟨some 0, false⟩, 0, hst, rfl, rfl, Nat.zero_le _, hS, hAR, hne⟩⟩
  refine ⟨hX, ?_⟩
  intro hdone
  obtain ⟨h1, _, h2⟩ := hX
  rcases h2 with ⟨ws, k, hst', hk', _⟩ | ⟨_, hI', _⟩
  · rw [hdone] at hst'
    cases hst'
    cases hk'
  · exact ⟨hI', h1⟩

open MW.Lemmas.ImportExact MW.Lemmas.ImportReorg MW.Lemmas.Ledger in
/-- **import_reorg_inv** (stage 2 of `import_exact_full`, REORGANISATIONS above / at / below the cursor; PARTIAL in one
    respect: the restored keystore is the instance's only one).  Events (`MW.Lemmas.ImportReorg.stepR`): a worker batch
    of any positive size, or the node switches to ANY other valid best chain `N` — an extension of its chain or
    another branch forking anywhere above the genesis block — and the follower is notified of `N`'s tip at once:
    `processBlock` → `reorg` (align, disconnect down to the fork with `rollback` and the cursor pull-back, connect up).
    For EVERY such history (`AllGoodR`: each new chain is hash-linked, valid, shares the genesis block, block ids
    determine blocks, the node still has the files of the blocks it orphaned) the invariant `RInv` is kept: the
    follower's tip is the node's tip and either the wallet is importing and the store holds exactly the books of the
    node's chain up to its cursor — a disconnect above the cursor finds no block record and changes nothing but the
    synced-to table; a disconnect AT the cursor is C01's rollback of the tip block (`rollback_tipR`: Rollback works on
    all balances whatever the wallets' status) and `pullBack` moves the cursor to the new tip; connecting books
    nothing while nobody is ready — or the wallet is ready and C01's `Inv` holds (C01 `disconnect_sound` /
    `connect_sound`).  The reorg loops are C01's, re-proved for an abstract store invariant (`MW.Lemmas.ImportReorg`). -/
theorem import_reorg_inv (batch : Nat) (hb : batch > 0) (p : Params) (own : Own) (wallets : List Wid) (w : Wid)
    (hAR : AllReady own [w]) (hws : wallets = [w]) (sys0 : XSys) (evs : List REv)
    (hgood : AllGoodR batch p own wallets w sys0 evs) (h0 : RInv batch p own wallets w sys0) :
    RInv batch p own wallets w (evs.foldl (stepR batch p own wallets w) sys0) :=
  foldR_inv hb hAR hws evs sys0 hgood h0

open MW.Lemmas.ImportExact MW.Lemmas.ImportReorg MW.Lemmas.Ledger in
/-- **import_exact_reorg_partial.**  … hence: from the scan invariant (e.g. the import moment), after ANY history of
    batches, extensions and reorganisations, whenever the wallet is done the store satisfies C01's `Inv` for the
    node's CURRENT chain, the follower is at its tip and the unspent index is well-formed — the restored wallet
    reports `Spec.Chain` of the chain the node ended on. -/
theorem import_exact_reorg_partial (batch : Nat) (hb : batch > 0) (p : Params) (own : Own) (wallets : List Wid)
    (w : Wid) (hAR : AllReady own [w]) (hws : wallets = [w]) (sys0 : XSys) (evs : List REv) (ws0 : WStatus) (k0 : Nat)
    (hS : Scan { p := p, own := own, wallets := wallets, node := sys0.node } w sys0.s k0)
    (hst : AMap.get sys0.s.status w = some ws0) (hk : ws0.synced = some k0) (hrm : ws0.removed = false)
    (hle : k0 + 1 ≤ sys0.node.chain.length)
    (hv : sys0.v.best = tipMeta sys0.node.chain) (hg : GoodChain sys0.node.chain)
    (hval : ChainValid own sys0.node.chain) (hnb : sys0.node.chain.length + batch < 2 ^ 64)
    (hgood : AllGoodR batch p own wallets w sys0 evs)
    (hdone : AMap.get (evs.foldl (stepR batch p own wallets w) sys0).s.status w = some ⟨none, false⟩) :
    Inv { p := p, own := own, wallets := wallets, node := (evs.foldl (stepR batch p own wallets w) sys0).node }
        (evs.foldl (stepR batch p own wallets w) sys0).s (evs.foldl (stepR batch p own wallets w) sys0).node.chain ∧
      (evs.foldl (stepR batch p own wallets w) sys0).v.best =
        tipMeta (evs.foldl (stepR batch p own wallets w) sys0).node.chain ∧
      KeysNodup (evs.foldl (stepR batch p own wallets w) sys0).s.unspent := by
  obtain ⟨h1, h2, _⟩ := foldR_inv hb hAR hws evs sys0 hgood
    ⟨Or.inl ⟨ws0, k0, hst, hk, hrm, hle, scanS_of_scan hS⟩, hv, hg, hval, hnb⟩
  rcases h1 with ⟨ws, k, hst', hk', _⟩ | ⟨_, hI, hU⟩
  · rw [hdone] at hst'
    cases hst'
    cases hk'
  · exact ⟨hI, h2, hU⟩

open MW.Lemmas.ImportExact MW.Lemmas.ImportReorg MW.Lemmas.ImportJoin MW.Lemmas.Ledger in
/-- **import_exact_reorg_joined** (stage 2 of `import_exact_full` COMPLETE for the event model "the node moves and the
    follower is notified of the new tip at once": batches, tip extensions and REORGANISATIONS above / at / below the
    cursor, OTHER WALLETS IN THE INSTANCE followed live).  At the import moment the other keystores' wallets are ready
    with their books in the store (`Inv` for the table without `w`), `w` has cursor 0 and balance 0, the follower is at
    the tip of the node's (hash-linked, valid) chain.  Then for EVERY history of rescan batches (any positive size)
    and notifications (`AllGoodR`: each new best chain is hash-linked, valid, has the same genesis block, block ids
    determine blocks, the node keeps the files of orphaned blocks) the invariant `RInvJ` holds: the follower's tip is
    the node's tip and either `w` is importing and the store is the join "other wallets: the node's whole chain" ⊕
    "`w`: the node's chain up to its cursor", or `w` is ready and C01's `Inv` holds for the full keystore table.
    Disconnecting a block ABOVE the cursor: Rollback — which looks owners up in ALL keystores — meets a record written
    for the ready wallets only; inputs that spent a coin of `w` have no debit and outputs paying `w` no credit, they
    are skipped (`rollback_tipJ`, C01's per-step lemmas on the joined book).  AT the cursor (reached when the tip has
    come down to it) the joined store IS the books of the full table: C01's rollback (`rollback_tipR`), and `pullBack`
    moves the cursor to the new tip — so a reorganisation BELOW the cursor undoes both halves.  Connecting: the live
    follower books the ready wallets only (`connect_scanJS`). -/
theorem import_exact_reorg_joined (batch : Nat) (hb : batch > 0) (p : Params) (own : Own) (wallets : List Wid)
    (w : Wid) (hKN : KeysNodup own) (hw : w ∈ wallets) (sys0 : XSys) (evs : List REv)
    (hI : Inv { p := p, own := own.filter (fun e => e.2.1 ≠ w), wallets := wallets, node := sys0.node } sys0.s sys0.node.chain)
    (hAR : AllReady (own.filter (fun e => e.2.1 ≠ w)) (readyWallets sys0.s wallets))
    (hne : (readyWallets sys0.s wallets).isEmpty = false)
    (hG : ∃ G, sys0.node.chain[0]? = some G ∧ G.txs = [])
    (hst : AMap.get sys0.s.status w = some ⟨some 0, false⟩) (hbal : AMap.get sys0.s.balance w = some 0)
    (hv : sys0.v.best = tipMeta sys0.node.chain) (hg : GoodChain sys0.node.chain)
    (hval : ChainValid own sys0.node.chain) (hnb : sys0.node.chain.length + batch < 2 ^ 64)
    (hgood : AllGoodR batch p own wallets w sys0 evs) :
    RInvJ batch p own wallets w (evs.foldl (stepR batch p own wallets w) sys0) ∧
    (AMap.get (evs.foldl (stepR batch p own wallets w) sys0).s.status w = some ⟨none, false⟩ →
      Inv { p := p, own := own, wallets := wallets, node := (evs.foldl (stepR batch p own wallets w) sys0).node }
          (evs.foldl (stepR batch p own wallets w) sys0).s (evs.foldl (stepR batch p own wallets w) sys0).node.chain ∧
        (evs.foldl (stepR batch p own wallets w) sys0).v.best =
          tipMeta (evs.foldl (stepR batch p own wallets w) sys0).node.chain) := by
  obtain ⟨G, hG0, hGt⟩ := hG
  have hC0 : ChainOK { p := p, own := own, wallets := wallets, node := sys0.node } := ⟨hval, hg.heights⟩
  have hS := scanJ_fresh (c := { p := p, own := own, wallets := wallets, node := sys0.node }) (w := w) hKN hC0 hI hG0 hGt hbal
  have hX := foldRJ_inv hb hKN hw evs sys0 hgood
    ⟨Or.inl ⟨⟨some 0, false⟩, 0, hst, rfl, rfl, by have := hg.length_pos; omega, scanJS_of_scanJ hS, hAR, hne⟩, hv, hg, hval, hnb⟩
  refine ⟨hX, ?_⟩
  intro hdone
  obtain ⟨h1, h2, _⟩ := hX
  rcases h1 with ⟨ws, k, hst', hk', _⟩ | ⟨_, hI', _⟩
  · rw [hdone] at hst'
    cases hst'
    cases hk'
  · exact ⟨hI', h2⟩

open MW.Lemmas.ImportExact MW.Lemmas.ImportReorg in
/-- a notification event of `stepR` is the node movement `Ev.node N` followed by the notification `Ev.block b` of
    `import_exact_full`'s semantics -/
theorem stepR_is_stepEv (batch : Nat) (p : Params) (own : Own) (wallets : List Wid) (w : Wid) (sys : Sys)
    (N : List Block) (b : Block) :
    let r := stepEv batch p own wallets w (stepEv batch p own wallets w sys (.node N)) (.block b)
    let x := stepR batch p own wallets w ⟨sys.node, sys.s, sys.v⟩ (.notify N b)
    x.node = r.node ∧ x.s = r.s ∧ x.v = r.v := ⟨rfl, rfl, rfl⟩

open MW.Lemmas.ImportExact in
/-- the stage-2 events are events of `import_exact_full`'s semantics (`stepEv`): a batch is `Ev.batch`, an extension
    is the node movement `Ev.node (chain ++ [b])` followed by the notification `Ev.block b` -/
theorem stepX_is_stepEv (batch : Nat) (p : Params) (own : Own) (wallets : List Wid) (w : Wid) (sys : Sys) (b : Block) :
    (let r := stepEv batch p own wallets w (stepEv batch p own wallets w sys (.node (sys.node.chain ++ [b]))) (.block b)
     b.prev = sys.v.best.hash →
      let x := stepX batch p own wallets w ⟨sys.node, sys.s, sys.v⟩ (.extend b)
      x.node = r.node ∧ x.s = r.s ∧ x.v = r.v) ∧
    (let r := stepEv batch p own wallets w sys .batch
     (∃ k rm, AMap.get sys.s.status w = some ⟨some k, rm⟩) →
      let x := stepX batch p own wallets w ⟨sys.node, sys.s, sys.v⟩ .batch
      x.node = r.node ∧ x.s = r.s ∧ x.v = r.v) := by
  constructor
  · intro r hprev
    simp only [stepX, hprev, if_true]
    exact ⟨rfl, rfl, rfl⟩
  · intro r ⟨k, rm, hst⟩
    simp only [stepX, hst]
    show _ ∧ _ ∧ _
    simp only [r, stepEv]
    cases importStep batch { p := p, own := own, wallets := wallets, node := sys.node } w sys.s sys.v with
    | error e => exact ⟨rfl, rfl, rfl⟩
    | ok x => obtain ⟨s', v', f⟩ := x; exact ⟨rfl, rfl, rfl⟩

/-- the stage-2 statement in the vocabulary of `import_exact_full` (`stepEv` with arbitrary `Ev` lists), kept
    type-checked; NOT PROVED in this literal form (it lets batches run on a ready wallet and notifies blocks that need
    not be on the node's chain).  SUPERSEDED by the proved `import_exact_extensions_joined`, `import_exact_reorg_joined`
    (stage 2) and `import_exact_full_good` (stage 3), whose events are tied to `stepEv` by `stepX_is_stepEv`,
    `stepR_is_stepEv`, `stepG_is_stepEv`. -/
def import_exact_moving_full : Prop :=
  ∀ (batch : Nat) (p : Params) (own : Own) (wallets : List Wid) (w : Wid) (sys0 : Sys) (evs : List Ev),
    batch > 0 → Lemmas.Ledger.KeysNodup own → w ∈ wallets →
    Lemmas.Ledger.Inv { p := p, own := own.filter (fun e => e.2.1 ≠ w), wallets := wallets, node := sys0.node }
      sys0.s sys0.node.chain →
    AMap.get sys0.s.status w = some ⟨some 0, false⟩ → AMap.get sys0.s.balance w = some 0 →
    (∃ G, sys0.node.chain[0]? = some G ∧ G.txs = []) →
    let sys := evs.foldl (stepEv batch p own wallets w) sys0
    Lemmas.ImportExact.ChainOK { p := p, own := own, wallets := wallets, node := sys.node } →
    AMap.get sys.s.status w = some ⟨none, false⟩ → sys.v.best.height + 1 = sys.node.chain.length →
    (∀ h b, sys.node.chain[h]? = some b → AMap.get sys.s.sync h = some b.id) →
    Lemmas.Ledger.Inv { p := p, own := own, wallets := wallets, node := sys.node } sys.s sys.node.chain

-- ------------------------------------------------------------------ stage 3: general histories

open MW.Lemmas.ImportExact MW.Lemmas.ImportReorg MW.Lemmas.ImportJoin MW.Lemmas.Ledger in
/-- **import_exact_full_good** — `import_exact_full` for WELL-FORMED histories, other wallets in the instance.
    Events (`MW.Lemmas.ImportJoin.stepG`, the event semantics of `import_exact_full`: `stepG_is_stepEv`): a rescan batch
    of any positive size (run while the wallet is not ready — the worker holds tasks for such wallets only), a
    notification for ANY block of the node's current best chain (extension, or reorganisation above / at / below the
    cursor), and a NODE MOVEMENT to any other chain that is not announced to the wallet at that moment (the next batch
    meets the followed-chain check of fix D27: it is either put off, or it reads a part of the node's chain that is the
    follower's own — `importStep_node_congr`).  Well-formed (`AllGoodG`): every chain the node adopts is hash-linked,
    valid for the keystore table, starts at the genesis block `G0`, consists of blocks whose files the node has
    (`known`; so block ids determine blocks) and is shorter than 2^64 − batch; a notified block is on the node's chain;
    no known block is the genesis block's predecessor.  At the import moment the other keystores' wallets are ready
    with their books in the store (C01's `Inv` without `w`), `w` has cursor 0 and balance 0, the follower is at the
    node's tip.  THEN, whenever the wallet is done and the follower has caught up with the node, the store satisfies
    C01's invariant `Inv` for the full keystore table and the node's chain and the unspent index is well-formed —
    so EVERY wallet of the instance, the restored one included, reports exactly what `MW.Spec.Chain` says for the node's
    chain: its unspent outputs (as a multiset, with height, maturity, confirmations, address) and, if ready, its
    WalletBalance — which is what a wallet that watched live reports (C01).
    The literal `import_exact_full` stays a type-checked `def`: it also quantifies over ill-formed node chains and
    lets batches run on a READY wallet (where `asyncImport` computes with the done sentinel 2^64 − 1, see the
    "done-wallet wrap" test), which the worker never does. -/
theorem import_exact_full_good (batch : Nat) (hb : batch > 0) (p : Params) (own : Own) (wallets : List Wid) (w : Wid)
    (hKN : KeysNodup own) (hw : w ∈ wallets) (G0 : Block) (sys0 : XSys) (evs : List GEv)
    -- the import moment
    (hI : Inv { p := p, own := own.filter (fun e => e.2.1 ≠ w), wallets := wallets, node := sys0.node } sys0.s sys0.node.chain)
    (hAR : AllReady (own.filter (fun e => e.2.1 ≠ w)) (readyWallets sys0.s wallets))
    (hne : (readyWallets sys0.s wallets).isEmpty = false) (hGt : G0.txs = [])
    (hst : AMap.get sys0.s.status w = some ⟨some 0, false⟩) (hbal : AMap.get sys0.s.balance w = some 0)
    (hU : KeysNodup sys0.s.unspent) (hv : sys0.v.best = tipMeta sys0.node.chain)
    (hN0 : ChainFacts batch own G0 sys0.node.known sys0.node.chain)
    (hp0 : ∀ x, AMap.get sys0.node.known x.id = some x → G0.prev ≠ x.id)
    -- the history
    (hgood : AllGoodG batch p own wallets w G0 sys0 evs)
    -- at the end: done, and the follower has caught up with the node
    (hdone : AMap.get (evs.foldl (stepG batch p own wallets w) sys0).s.status w = some ⟨none, false⟩)
    (hbest : (evs.foldl (stepG batch p own wallets w) sys0).v.best.height + 1 =
      (evs.foldl (stepG batch p own wallets w) sys0).node.chain.length)
    (hsync : ∀ h b, (evs.foldl (stepG batch p own wallets w) sys0).node.chain[h]? = some b →
      AMap.get (evs.foldl (stepG batch p own wallets w) sys0).s.sync h = some b.id)
    -- the 32-bit size bounds of C01's observation theorems
    (hlen : (evs.foldl (stepG batch p own wallets w) sys0).node.chain.length < 2 ^ 32) (hcb : p.cbMaturity < 2 ^ 32)
    (hstk : ∀ x ∈ Spec.Chain.ledgerOf own (evs.foldl (stepG batch p own wallets w) sys0).node.chain,
      ∀ f, x.cls = .stk f → f + 1 < 2 ^ 32)
    (w' : Wid) (minConf : Nat) :
    Inv { p := p, own := own, wallets := wallets, node := (evs.foldl (stepG batch p own wallets w) sys0).node }
        (evs.foldl (stepG batch p own wallets w) sys0).s (evs.foldl (stepG batch p own wallets w) sys0).node.chain ∧
    walletBalance (evs.foldl (stepG batch p own wallets w) sys0).s w minConf =
      some (Spec.Chain.balance p own (evs.foldl (stepG batch p own wallets w) sys0).node.chain w minConf) ∧
    ((coinsOf (evs.foldl (stepG batch p own wallets w) sys0).s w').map
        (Spec.Chain.obsM (evs.foldl (stepG batch p own wallets w) sys0).s.syncedTo)).Perm
      ((Spec.Chain.utxosOf own (evs.foldl (stepG batch p own wallets w) sys0).node.chain w').map
        (Spec.Chain.obsS p ((evs.foldl (stepG batch p own wallets w) sys0).node.chain.length - 1))) := by
  have hC0 : ChainOK { p := p, own := own, wallets := wallets, node := sys0.node } := ⟨hN0.valid, hN0.good.heights⟩
  have hS := scanJ_fresh (c := { p := p, own := own, wallets := wallets, node := sys0.node }) (w := w) hKN hC0 hI hN0.gen hGt hbal
  have hG := foldG_inv (p := p) (G0 := G0) hb hKN hw evs sys0 hp0 hgood
    ⟨hN0, hU, sys0.node.chain, hN0,
      Or.inl ⟨⟨some 0, false⟩, 0, hst, rfl, rfl, by have := hN0.good.length_pos; omega, scanJS_of_scanJ hS, hAR, hne⟩, hv⟩
  obtain ⟨hInv, hUF⟩ := ginv_caught_up hG hdone hbest hsync
  have hNF := hG.1
  have H : ObsHyp { p := p, own := own, wallets := wallets, node := (evs.foldl (stepG batch p own wallets w) sys0).node }
      (evs.foldl (stepG batch p own wallets w) sys0).s (evs.foldl (stepG batch p own wallets w) sys0).node.chain :=
    ⟨hInv, hUF, hNF.valid, hNF.good.heights, hlen, hcb, hstk⟩
  refine ⟨hInv, balance_correct H ?_ minConf, coins_perm H w'⟩
  apply (ready_contains_iff _ wallets w).2
  refine ⟨hw, ?_⟩
  rw [hdone]; rfl

open MW.Lemmas.ImportExact MW.Lemmas.ImportJoin in
/-- the events of `stepG` are the events of `import_exact_full`'s `stepEv` (a batch: while the wallet is importing) -/
theorem stepG_is_stepEv (batch : Nat) (p : Params) (own : Own) (wallets : List Wid) (w : Wid) (sys : Sys) :
    (∀ b, let r := stepEv batch p own wallets w sys (.block b)
          let x := stepG batch p own wallets w ⟨sys.node, sys.s, sys.v⟩ (.block b)
          x.node = r.node ∧ x.s = r.s ∧ x.v = r.v) ∧
    (∀ ch, let r := stepEv batch p own wallets w sys (.node ch)
           let x := stepG batch p own wallets w ⟨sys.node, sys.s, sys.v⟩ (.node ch)
           x.node = r.node ∧ x.s = r.s ∧ x.v = r.v) ∧
    ((∃ k rm, AMap.get sys.s.status w = some ⟨some k, rm⟩) →
      let r := stepEv batch p own wallets w sys .batch
      let x := stepG batch p own wallets w ⟨sys.node, sys.s, sys.v⟩ .batch
      x.node = r.node ∧ x.s = r.s ∧ x.v = r.v) :=
  ⟨fun _ => ⟨rfl, rfl, rfl⟩, fun _ => ⟨rfl, rfl, rfl⟩, fun h => (stepX_is_stepEv batch p own wallets w sys default).2 h⟩

/-- the regenerated constants have the shape the theorems assume (positive batch size and expiry window, the done
    sentinel is the top of uint64) -/
theorem gen_tie : Gen.Handler.importBatch > 0 ∧ Gen.Handler.maxMemPoolExpire > 0 ∧
    Gen.Handler.walletSyncedDone = 2 ^ 64 - 1 ∧ Gen.Handler.importBatch + Gen.Handler.walletSyncedDone ≥ 2 ^ 64 := by decide

-- ------------------------------------------------------------------ non-vacuity (tests by evaluation)

namespace Ex
def c1 : Tx := ⟨"C1", true, [], [⟨"A1", 500, .std⟩]⟩
def c2 : Tx := ⟨"C2", true, [], [⟨"X1", 5, .std⟩]⟩
def t3 : Tx := ⟨"T3", false, [⟨"C1", 0, 0⟩], [⟨"A1", 300, .std⟩, ⟨"X1", 199, .std⟩]⟩
def c4 : Tx := ⟨"C4", true, [], [⟨"X1", 5, .std⟩]⟩
def g : Block := ⟨"G", "", 0, []⟩
def b1 : Block := ⟨"B1", "G", 1, [c1]⟩
def b2 : Block := ⟨"B2", "B1", 2, [c2, t3]⟩
def b3 : Block := ⟨"B3", "B2", 3, [c4]⟩
def ctx : Ctx := { p := { cbMaturity := 1 }, own := [("A1", ("W1", false))], wallets := ["W1"],
                   node := { chain := [g, b1, b2, b3], known := [("G", g), ("B1", b1), ("B2", b2), ("B3", b3)] } }
/-- the follower is at B3; W1 was just imported (cursor 0) -/
def st : Store := { sync := [(3, "B3"), (2, "B2"), (1, "B1"), (0, "G")], syncedTo := 3,
                    status := [("W1", ⟨some 0, false⟩)], balance := [("W1", 0)], addrs := [(("W1", false, "A1"), 0)] }
def vol : Vol := { best := ⟨3, "B3"⟩ }
end Ex
open Ex

/-- hypotheses of import_progress / import_run_exact / not_selectable_until_done are satisfiable: one batch of the
    real size finishes this rescan; with batch size 1 it takes three batches, the middle states refuse UseWallet -/
example : (match importStep 1000 ctx "W1" st vol with
    | .ok (s', _, fin) => some (fin, (AMap.get s'.status "W1").map (·.synced), walletBalance s' "W1" 1)
    | .error _ => none) = some (true, some none, some ⟨300, 300, 0, 0⟩) := by decide
example : (match importStep 1 ctx "W1" st vol with
    | .ok (s', _, fin) => some (fin, (AMap.get s'.status "W1").map (·.synced), useWallet s' ctx.wallets "W1")
    | .error _ => none) = some (false, some (some 1), .unready) := by decide
example : ((runBatches 1 ctx "W1" 5 st vol).map (fun r => (r.2.2.map (·.tx.id), useWallet r.1 ctx.wallets "W1"))) =
    some (["C1", "T3"], .ok) := by decide
example : (plan ctx.node ["A1"] 1 3).map (fun it => (it.blk.height, it.pos, it.tx.id)) = [(1, 0, "C1"), (2, 1, "T3")] := by decide
/-- `FreshAt` is satisfiable: nothing is recorded yet for C1 in B1 -/
example : Lemmas.ImportLive.FreshAt st { tx := c1, loc := ("B1", 0) } ⟨1, "B1"⟩ :=
  ⟨rfl, by intro h txs hg; simp [st, AMap.get] at hg⟩
/-- the followed-chain check: if the node has moved to another block at the top of the range, the batch is put
    off (ErrImportingContinuable) and nothing changes -/
example : (match importStep 1000 { ctx with node := { ctx.node with chain := [g, b1, b2, ⟨"B3x", "B2", 3, [c4]⟩] } } "W1" st vol with
    | .ok _ => none | .error e => some e) = some .continuable := by decide
example : Linked ctx.node.chain := by
  intro i a b ha hb
  match i with
  | 0 => simp [ctx] at ha hb; subst ha; subst hb; rfl
  | 1 => simp [ctx] at ha hb; subst ha; subst hb; rfl
  | 2 => simp [ctx] at ha hb; subst ha; subst hb; rfl
  | (n + 3) => simp [ctx] at hb
/-- asyncImport on a wallet that is ALREADY done computes with WalletSyncedDone = 2^64 − 1: `cursor + 1000` wraps to
    999 and the scan restarts at height 0 (a test; the worker never does this — tasks exist only for wallets that are
    not ready — but the function does not guard against it: a done wallet on a chain longer than 999 blocks would be
    flipped back to "importing@999") -/
example : batchStop 1000 (cursorU64 ⟨none, false⟩) 5000 = 999 ∧ addU64 (cursorU64 ⟨none, false⟩) 1 = 0 := by decide

-- stage 1: every hypothesis of `import_exact_static_partial` / `import_observed_static` holds on the chain of `Ex`
open MW.Lemmas.ImportExact MW.Lemmas.Ledger in
theorem ex_allReady : AllReady ctx.own ["W1"] := by
  intro a w' ch h
  rw [show ctx.own = [("A1", ("W1", false))] from rfl, AMap.get_cons] at h
  split at h
  · cases h; rfl
  · cases h

open MW.Lemmas.ImportExact MW.Lemmas.Ledger in
theorem ex_chainOK : ChainOK ctx := by
  refine ⟨by decide, ?_⟩
  intro i b hb
  match i with
  | 0 => simp [ctx] at hb; subst hb; rfl
  | 1 => simp [ctx] at hb; subst hb; rfl
  | 2 => simp [ctx] at hb; subst hb; rfl
  | 3 => simp [ctx] at hb; subst hb; rfl
  | (n + 4) => simp [ctx] at hb

open MW.Lemmas.ImportExact MW.Lemmas.Ledger in
/-- the import moment of `Ex` satisfies the scan invariant at cursor 0 (`scan_fresh`) -/
theorem ex_scan : Scan ctx "W1" st 0 := by
  refine scan_fresh (G := g) rfl rfl rfl rfl rfl rfl rfl rfl rfl ?_ rfl
  intro h
  match h with
  | 0 => rfl
  | 1 => rfl
  | 2 => rfl
  | 3 => rfl
  | (n + 4) => simp [st, ctx, AMap.get, Spec.Books.syncOf]

open MW.Lemmas.ImportExact MW.Lemmas.Ledger in
/-- … so the three-batch rescan of `Ex` (batch size 1) ends in C01's invariant for the whole chain, and it does end -/
example (s' : Store) (v' : Vol) (items : List Item) (h : runBatches 1 ctx "W1" 5 st vol = some (s', v', items)) :
    Inv ctx s' ctx.node.chain :=
  (import_exact_static_partial 1 (by decide) ctx "W1" ex_allReady ex_chainOK rfl 5 st vol s' v' items ⟨some 0, false⟩ 0
    ex_scan rfl rfl rfl (by decide) (by decide) h).1
example : (runBatches 1 ctx "W1" 5 st vol).isSome = true := by decide
/-- an indexed transaction the filter finds irrelevant is skipped (fix D41): C1x carries an unsupported script
    with W1's script hash, T3x spends it; the rescan records neither and still finishes -/
example :
    let c1x : Tx := ⟨"C1", true, [], [⟨"A1", 500, .std⟩, ⟨"A1", 7, .raw⟩]⟩
    let t3x : Tx := ⟨"T3x", false, [⟨"C1", 1, 0⟩], [⟨"X1", 6, .std⟩]⟩
    let b1x : Block := ⟨"B1", "G", 1, [c1x]⟩
    let b2x : Block := ⟨"B2", "B1", 2, [c2, t3x]⟩
    let cx : Ctx := { ctx with node := { chain := [g, b1x, b2x, b3], known := [] } }
    ((plan cx.node ["A1"] 1 3).map (fun it => (it.tx.id, itemRelevant cx "W1" it)),
     match importStep 1000 cx "W1" st vol with
     | .ok (s', _, fin) => some (fin, walletBalance s' "W1" 1, s'.txrecs.map (·.1.1))
     | .error _ => none) =
    ([("C1", true), ("T3x", false)], some (true, some ⟨500, 500, 0, 0⟩, ["C1"])) := by decide

-- stage 1 with another wallet in the instance: every hypothesis of `import_exact_static_full` /
-- `import_exact_static_joined` holds on the chain of `Ex` with a second wallet W2 (owner of X1) that is ready and
-- whose books are in the store when W1 is imported.  W2's store is itself produced by a rescan (stage 1, single
-- keystore), so its invariant comes from `import_exact_static_partial`.
namespace Ex2
/-- the instance while only W2 exists -/
def ctxR : Ctx := { ctx with own := [("X1", ("W2", false))], wallets := ["W2"] }
def stR0 : Store := { sync := [(3, "B3"), (2, "B2"), (1, "B1"), (0, "G")], syncedTo := 3,
                      status := [("W2", ⟨some 0, false⟩)], balance := [("W2", 0)], addrs := [(("W2", false, "X1"), 0)] }
/-- the instance after W1's keystore was imported -/
def ctx2 : Ctx := { ctx with own := [("A1", ("W1", false)), ("X1", ("W2", false))], wallets := ["W1", "W2"] }
/-- ImportWallet for W1: status "importing from 0", balance 0 -/
def addW1 (s : Store) : Store :=
  { s with status := AMap.put s.status "W1" ⟨some 0, false⟩, balance := AMap.put s.balance "W1" 0 }
end Ex2
open Ex2

open MW.Lemmas.ImportExact MW.Lemmas.Ledger in
theorem ex2_chainOK : ChainOK ctx2 := ⟨by decide, ex_chainOK.heights⟩

open MW.Lemmas.ImportExact MW.Lemmas.Ledger in
/-- W2's rescan (one batch) leaves C01's invariant for the view without W1, and W2 ready -/
theorem ex2_invR (sR : Store) (vR : Vol) (items : List Item)
    (h : runBatches 1000 ctxR "W2" 1 stR0 vol = some (sR, vR, items)) :
    Inv { ctx2 with own := ctx2.own.filter (fun e => e.2.1 ≠ "W1") } (addW1 sR) ctx2.node.chain ∧
      (readyWallets (addW1 sR) ctx2.wallets) = ["W2"] := by
  have hAR : AllReady ctxR.own ["W2"] := by
    intro a w' ch h
    rw [show ctxR.own = [("X1", ("W2", false))] from rfl, AMap.get_cons] at h
    split at h
    · cases h; rfl
    · cases h
  have hCR : ChainOK ctxR := ⟨by decide, ex_chainOK.heights⟩
  have hSc : Scan ctxR "W2" stR0 0 := by
    refine scan_fresh (G := g) rfl rfl rfl rfl rfl rfl rfl rfl rfl ?_ rfl
    intro h
    match h with
    | 0 => rfl
    | 1 => rfl
    | 2 => rfl
    | 3 => rfl
    | (n + 4) => simp [stR0, ctxR, ctx, AMap.get, Spec.Books.syncOf]
  obtain ⟨hI, hst, _, _⟩ := import_exact_static_partial 1000 (by decide) ctxR "W2" hAR hCR rfl 1 stR0 vol sR vR items
    ⟨some 0, false⟩ 0 hSc rfl rfl rfl (by decide) (by decide) h
  have hst2 : AMap.get (addW1 sR).status "W2" = some ⟨none, false⟩ := by
    show AMap.get (AMap.put sR.status "W1" _) "W2" = _
    rw [AMap.get_put, if_neg (by decide)]; exact hst
  have hst1 : AMap.get (addW1 sR).status "W1" = some ⟨some 0, false⟩ := by
    show AMap.get (AMap.put sR.status "W1" _) "W1" = _
    rw [AMap.get_put, if_pos rfl]
  have hrw : readyWallets (addW1 sR) ctx2.wallets = ["W2"] := by
    show List.filter _ ["W1", "W2"] = _
    simp only [List.filter, hst1, hst2]
    rfl
  refine ⟨⟨⟨hI.agree.unspent, hI.agree.credits, hI.agree.debits, hI.agree.game, hI.agree.txrecs, hI.agree.blocks⟩,
    ?_, hI.sync, hI.syncedTo⟩, hrw⟩
  intro w' hw'
  rw [hrw] at hw'
  have : w' = "W2" := by simpa using hw'
  subst this
  show AMap.get (AMap.put sR.balance "W1" 0) "W2" = _
  rw [AMap.get_put, if_neg (by decide)]
  apply hI.bal "W2"
  show (List.filter _ ["W2"]).contains "W2" = true
  simp only [List.filter, hst]
  rfl

open MW.Lemmas.ImportExact MW.Lemmas.Ledger in
/-- … so W1's three-batch rescan (batch size 1) in the instance that already holds W2 — T3 is recorded already
    (W2 receives its change), B2's block record already lists [C2, T3] — ends in C01's invariant for BOTH wallets -/
example (sR : Store) (vR : Vol) (itemsR : List Item) (hR : runBatches 1000 ctxR "W2" 1 stR0 vol = some (sR, vR, itemsR))
    (s' : Store) (v' : Vol) (items : List Item) (h : runBatches 1 ctx2 "W1" 5 (addW1 sR) vol = some (s', v', items)) :
    Inv ctx2 s' ctx2.node.chain := by
  obtain ⟨hI, hrw⟩ := ex2_invR sR vR itemsR hR
  refine import_exact_static_full 1 ctx2 "W1" 5 (addW1 sR) vol s' v' items (by decide) ex2_chainOK (by unfold Lemmas.Ledger.KeysNodup; decide) (by decide)
    ?_ hI ⟨g, rfl, rfl⟩ ?_ ?_ rfl (by decide) h
  · rw [hrw]
    intro a w' ch ha
    rw [show (ctx2.own.filter (fun e => e.2.1 ≠ "W1")) = [("X1", ("W2", false))] from rfl, AMap.get_cons] at ha
    split at ha
    · cases ha; rfl
    · cases ha
  · show AMap.get (AMap.put sR.status "W1" _) "W1" = _
    rw [AMap.get_put, if_pos rfl]
  · show AMap.get (AMap.put sR.balance "W1" 0) "W1" = _
    rw [AMap.get_put, if_pos rfl]

/-- both rescans do end, and then both wallets report what the chain says (W1: 300 in T3:0; W2: 5 + 199 + 5), and
    B2's block record is in block order -/
example : ((runBatches 1000 ctxR "W2" 1 stR0 vol).bind (fun r =>
      (runBatches 1 ctx2 "W1" 5 (addW1 r.1) vol).map (fun r' =>
        (r'.2.2.map (·.tx.id), walletBalance r'.1 "W1" 1, walletBalance r'.1 "W2" 1,
         (AMap.get r'.1.blocks 2).map (·.2))))) =
    some (["C1", "T3"], some ⟨300, 300, 0, 0⟩, some ⟨209, 209, 0, 0⟩, some ["C2", "T3"]) := by decide

-- stage 2: B3 arrives while W1 (the only keystore) is being rescanned with batch size 1
namespace Ex3
/-- node and follower at B2; W1 just imported -/
def sys0 : Lemmas.ImportExact.XSys :=
  { node := { chain := [g, b1, b2], known := ctx.node.known },
    s := { sync := [(2, "B2"), (1, "B1"), (0, "G")], syncedTo := 2,
           status := [("W1", ⟨some 0, false⟩)], balance := [("W1", 0)], addrs := [(("W1", false, "A1"), 0)] },
    v := { best := ⟨2, "B2"⟩ } }
def evs : List Lemmas.ImportExact.XEv := [.batch, .extend b3, .batch, .batch]
end Ex3

open MW.Lemmas.ImportExact MW.Lemmas.Ledger in
/-- every hypothesis of `import_exact_extensions_partial` holds on this history: one batch (cursor 1), block B3
    arrives, two more batches — the wallet is done at the NEW tip with C01's invariant for [G, B1, B2, B3] -/
example : Inv { p := ctx.p, own := ctx.own, wallets := ctx.wallets,
                node := (Ex3.evs.foldl (stepX 1 ctx.p ctx.own ctx.wallets "W1") Ex3.sys0).node }
    (Ex3.evs.foldl (stepX 1 ctx.p ctx.own ctx.wallets "W1") Ex3.sys0).s [g, b1, b2, b3] := by
  have hnode : (Ex3.evs.foldl (stepX 1 ctx.p ctx.own ctx.wallets "W1") Ex3.sys0).node = ctx.node := by
    rfl
  have hS : Scan { p := ctx.p, own := ctx.own, wallets := ctx.wallets, node := Ex3.sys0.node } "W1" Ex3.sys0.s 0 := by
    refine scan_fresh (G := g) rfl rfl rfl rfl rfl rfl rfl rfl rfl ?_ rfl
    intro h
    match h with
    | 0 => rfl
    | 1 => rfl
    | 2 => rfl
    | (n + 3) => simp [Ex3.sys0, AMap.get, Spec.Books.syncOf]
  have := (import_exact_extensions_partial 1 (by decide) ctx.p ctx.own ctx.wallets "W1" ex_allReady rfl Ex3.sys0 Ex3.evs
    ⟨some 0, false⟩ 0 hS rfl rfl rfl rfl (by decide) (by rw [hnode]; exact ex_chainOK) (by rw [hnode]; decide)
    (by decide)).1
  rw [hnode] at this ⊢
  exact this
example : (let r := Ex3.evs.foldl (Lemmas.ImportExact.stepX 1 ctx.p ctx.own ctx.wallets "W1") Ex3.sys0
           (r.v.best, useWallet r.s ctx.wallets "W1", walletBalance r.s "W1" 1)) =
    (⟨3, "B3"⟩, .ok, some ⟨300, 300, 0, 0⟩) := by decide

-- stage 2 with another wallet in the instance: W2 (owner of X1) is followed live while W1 is rescanned with batch
-- size 1, and block B3 (which pays W2) arrives between the batches
namespace Ex4
def node3 : Node := { chain := [g, b1, b2], known := ctx.node.known }
def ctxR3 : Ctx := { ctxR with node := node3 }
def stR3 : Store := { sync := [(2, "B2"), (1, "B1"), (0, "G")], syncedTo := 2,
                      status := [("W2", ⟨some 0, false⟩)], balance := [("W2", 0)], addrs := [(("W2", false, "X1"), 0)] }
def vol3 : Vol := { best := ⟨2, "B2"⟩ }
theorem hrun : (runBatches 1000 ctxR3 "W2" 1 stR3 vol3).isSome = true := by decide
/-- W2's store for [G, B1, B2] (produced by a rescan) -/
def sR : Store := ((runBatches 1000 ctxR3 "W2" 1 stR3 vol3).get hrun).1
def sys0 : Lemmas.ImportExact.XSys := ⟨node3, addW1 sR, vol3⟩
def evs : List Lemmas.ImportExact.XEv := [.batch, .extend b3, .batch, .batch]
end Ex4

open MW.Lemmas.ImportExact MW.Lemmas.Ledger in
theorem ex4_invR :
    Inv { p := ctx.p, own := ctx2.own.filter (fun e => e.2.1 ≠ "W1"), wallets := ctx2.wallets, node := Ex4.node3 }
        (addW1 Ex4.sR) Ex4.node3.chain ∧
      (readyWallets (addW1 Ex4.sR) ctx2.wallets) = ["W2"] := by
  have hAR : AllReady Ex4.ctxR3.own ["W2"] := by
    intro a w' ch h
    rw [show Ex4.ctxR3.own = [("X1", ("W2", false))] from rfl, AMap.get_cons] at h
    split at h
    · cases h; rfl
    · cases h
  have hCR : ChainOK Ex4.ctxR3 := by
    refine ⟨by decide, ?_⟩
    intro i b hb
    match i with
    | 0 => simp [Ex4.ctxR3, Ex4.node3] at hb; subst hb; rfl
    | 1 => simp [Ex4.ctxR3, Ex4.node3] at hb; subst hb; rfl
    | 2 => simp [Ex4.ctxR3, Ex4.node3] at hb; subst hb; rfl
    | (n + 3) => simp [Ex4.ctxR3, Ex4.node3] at hb
  have hSc : Scan Ex4.ctxR3 "W2" Ex4.stR3 0 := by
    refine scan_fresh (G := g) rfl rfl rfl rfl rfl rfl rfl rfl rfl ?_ rfl
    intro h
    match h with
    | 0 => rfl
    | 1 => rfl
    | 2 => rfl
    | (n + 3) => simp [Ex4.stR3, Ex4.ctxR3, Ex4.node3, AMap.get, Spec.Books.syncOf]
  have h : runBatches 1000 Ex4.ctxR3 "W2" 1 Ex4.stR3 Ex4.vol3 =
      some (Ex4.sR, ((runBatches 1000 Ex4.ctxR3 "W2" 1 Ex4.stR3 Ex4.vol3).get Ex4.hrun).2.1,
        ((runBatches 1000 Ex4.ctxR3 "W2" 1 Ex4.stR3 Ex4.vol3).get Ex4.hrun).2.2) :=
    (Option.some_get Ex4.hrun).symm
  obtain ⟨hI, hst, _, _⟩ := import_exact_static_partial 1000 (by decide) Ex4.ctxR3 "W2" hAR hCR rfl 1 Ex4.stR3 Ex4.vol3
    Ex4.sR _ _ ⟨some 0, false⟩ 0 hSc rfl rfl rfl (by decide) (by decide) h
  have hst2 : AMap.get (addW1 Ex4.sR).status "W2" = some ⟨none, false⟩ := by
    show AMap.get (AMap.put Ex4.sR.status "W1" _) "W2" = _
    rw [AMap.get_put, if_neg (by decide)]; exact hst
  have hst1 : AMap.get (addW1 Ex4.sR).status "W1" = some ⟨some 0, false⟩ := by
    show AMap.get (AMap.put Ex4.sR.status "W1" _) "W1" = _
    rw [AMap.get_put, if_pos rfl]
  have hrw : readyWallets (addW1 Ex4.sR) ctx2.wallets = ["W2"] := by
    show List.filter _ ["W1", "W2"] = _
    simp only [List.filter, hst1, hst2]
    rfl
  refine ⟨⟨⟨hI.agree.unspent, hI.agree.credits, hI.agree.debits, hI.agree.game, hI.agree.txrecs, hI.agree.blocks⟩,
    ?_, hI.sync, hI.syncedTo⟩, hrw⟩
  intro w' hw'
  rw [hrw] at hw'
  have : w' = "W2" := by simpa using hw'
  subst this
  show AMap.get (AMap.put Ex4.sR.balance "W1" 0) "W2" = _
  rw [AMap.get_put, if_neg (by decide)]
  apply hI.bal "W2"
  show (List.filter _ ["W2"]).contains "W2" = true
  simp only [List.filter, hst]
  rfl

open MW.Lemmas.ImportExact MW.Lemmas.ImportJoin MW.Lemmas.Ledger in
/-- every hypothesis of `import_exact_extensions_joined` holds on this history (batch, B3 arrives and is booked for
    W2 by the live follower, two more batches): W1 is done at the NEW tip and C01's invariant holds for BOTH wallets
    and [G, B1, B2, B3] -/
example : Inv { p := ctx.p, own := ctx2.own, wallets := ctx2.wallets,
                node := (Ex4.evs.foldl (stepX 1 ctx.p ctx2.own ctx2.wallets "W1") Ex4.sys0).node }
    (Ex4.evs.foldl (stepX 1 ctx.p ctx2.own ctx2.wallets "W1") Ex4.sys0).s [g, b1, b2, b3] := by
  have hnode : (Ex4.evs.foldl (stepX 1 ctx.p ctx2.own ctx2.wallets "W1") Ex4.sys0).node = ctx.node := by rfl
  obtain ⟨hI, hrw⟩ := ex4_invR
  have := (import_exact_extensions_joined 1 (by decide) ctx.p ctx2.own ctx2.wallets "W1"
    (by unfold KeysNodup; decide) (by decide) Ex4.sys0 Ex4.evs hI
    (by
      show AllReady _ (readyWallets (addW1 Ex4.sR) ctx2.wallets)
      rw [hrw]
      intro a w' ch ha
      rw [show (ctx2.own.filter (fun e => e.2.1 ≠ "W1")) = [("X1", ("W2", false))] from rfl, AMap.get_cons] at ha
      split at ha
      · cases ha; rfl
      · cases ha)
    (by show (readyWallets (addW1 Ex4.sR) ctx2.wallets).isEmpty = false; rw [hrw]; rfl)
    ⟨g, rfl, rfl⟩
    (by show AMap.get (AMap.put Ex4.sR.status "W1" _) "W1" = _; rw [AMap.get_put, if_pos rfl])
    (by show AMap.get (AMap.put Ex4.sR.balance "W1" 0) "W1" = _; rw [AMap.get_put, if_pos rfl])
    rfl (by rw [hnode]; exact ex2_chainOK) (by rw [hnode]; decide)).2 (by decide)
  rw [hnode] at this ⊢
  exact this.1
example : (let r := Ex4.evs.foldl (Lemmas.ImportExact.stepX 1 ctx.p ctx2.own ctx2.wallets "W1") Ex4.sys0
           (r.v.best, useWallet r.s ctx2.wallets "W1", walletBalance r.s "W1" 1, walletBalance r.s "W2" 1,
            (AMap.get r.s.blocks 2).map (·.2), (AMap.get r.s.blocks 3).map (·.2))) =
    (⟨3, "B3"⟩, .ok, some ⟨300, 300, 0, 0⟩, some ⟨209, 209, 0, 0⟩, some ["C2", "T3"], some ["C4"]) := by rfl

-- stage 2 with a reorganisation: W1 (the only keystore) is rescanned with batch size 1 over S = G–B1–B2 (C01's "D2"
-- witness); after the first batch (cursor 1) the node switches to N = G–B1–B2a–B3a and the follower is notified of
-- B3a: it rolls B2 back (above the cursor) and connects B2a, B3a; three more batches finish the rescan on N.
-- T1 (in B2a) pays W1 10, T2 (in B3a) spends it: the restored wallet ends with nothing, as Spec.Chain says.
namespace Ex5
open MW.Lemmas.Ledger
def sys0 : Lemmas.ImportExact.XSys :=
  { node := { chain := d2S, known := d2Known },
    s := { sync := [(2, "B2"), (1, "B1"), (0, "G")], syncedTo := 2,
           status := [("W1", ⟨some 0, false⟩)], balance := [("W1", 0)], addrs := [(("W1", false, "A1"), 0)] },
    v := { best := ⟨2, "B2"⟩ } }
def evs : List Lemmas.ImportReorg.REv := [.batch, .notify d2N d2B3a, .batch, .batch, .batch]
end Ex5

open MW.Lemmas.ImportExact MW.Lemmas.ImportReorg MW.Lemmas.Ledger in
/-- every hypothesis of `import_exact_reorg_partial` holds on this history, and the wallet is done at the end: C01's
    invariant for the chain the node ended on -/
example : Inv { p := d2Ctx.p, own := d2Own, wallets := ["W1"],
                node := (Ex5.evs.foldl (stepR 1 d2Ctx.p d2Own ["W1"] "W1") Ex5.sys0).node }
    (Ex5.evs.foldl (stepR 1 d2Ctx.p d2Own ["W1"] "W1") Ex5.sys0).s d2N := by
  have hnode : (Ex5.evs.foldl (stepR 1 d2Ctx.p d2Own ["W1"] "W1") Ex5.sys0).node.chain = d2N := by rfl
  have hS : Scan { p := d2Ctx.p, own := d2Own, wallets := ["W1"], node := Ex5.sys0.node } "W1" Ex5.sys0.s 0 := by
    refine scan_fresh (G := d2G) rfl rfl rfl rfl rfl rfl rfl rfl rfl ?_ rfl
    intro h
    match h with
    | 0 => rfl
    | 1 => rfl
    | 2 => rfl
    | (n + 3) => simp [Ex5.sys0, d2S, AMap.get, Spec.Books.syncOf]
  have hgood : AllGoodR 1 d2Ctx.p d2Own ["W1"] "W1" Ex5.sys0 Ex5.evs := by
    refine ⟨trivial, ⟨d2GoodN, rfl, d2IdInj, d2ValidN, d2KnownS, rfl, rfl, (fun h => nomatch h), by decide⟩,
      trivial, trivial, trivial, trivial⟩
  have := (import_exact_reorg_partial 1 (by decide) d2Ctx.p d2Own ["W1"] "W1" d2AllReady rfl Ex5.sys0 Ex5.evs
    ⟨some 0, false⟩ 0 hS rfl rfl rfl (by decide) rfl d2GoodS d2ValidS (by decide) hgood (by rfl)).1
  rw [hnode] at this
  exact this
example : (let r := Ex5.evs.foldl (Lemmas.ImportReorg.stepR 1 Lemmas.Ledger.d2Ctx.p Lemmas.Ledger.d2Own ["W1"] "W1") Ex5.sys0
           (r.v.best, useWallet r.s ["W1"] "W1", walletBalance r.s "W1" 1, (AMap.get r.s.blocks 2).map (·.2))) =
    (⟨3, "B3a"⟩, .ok, some ⟨0, 0, 0, 0⟩, some ["T1"]) := by rfl

-- stage 2 with a reorganisation AND another wallet: W2 (owner of X1, which receives every coinbase and T1's change) is
-- followed live over S = G–B1–B2 while W1 (owner of A1) is rescanned with batch size 1; after the first batch the node
-- switches to N = G–B1–B2a–B3a: the follower rolls back B2 (a record of W2, above W1's cursor), connects B2a, B3a for
-- W2; three more batches finish W1's rescan on N.
namespace Ex6
open MW.Lemmas.Ledger
def own6 : Own := [("A1", ("W1", false)), ("X1", ("W2", false))]
def ctxR6 : Ctx := ⟨d2Ctx.p, [("X1", ("W2", false))], ["W2"], { chain := d2S, known := d2Known }⟩
def stR6 : Store := { sync := [(2, "B2"), (1, "B1"), (0, "G")], syncedTo := 2,
                      status := [("W2", ⟨some 0, false⟩)], balance := [("W2", 0)], addrs := [(("W2", false, "X1"), 0)] }
def vol6 : Vol := { best := ⟨2, "B2"⟩ }
theorem hrun : (runBatches 1000 ctxR6 "W2" 1 stR6 vol6).isSome = true := by decide
def sR : Store := ((runBatches 1000 ctxR6 "W2" 1 stR6 vol6).get hrun).1
def sys0 : Lemmas.ImportExact.XSys := ⟨{ chain := d2S, known := d2Known }, addW1 sR, vol6⟩
def evs : List Lemmas.ImportReorg.REv := [.batch, .notify d2N d2B3a, .batch, .batch, .batch]
end Ex6

open MW.Lemmas.ImportExact MW.Lemmas.Ledger in
theorem ex6_invR :
    Inv { p := d2Ctx.p, own := Ex6.own6.filter (fun e => e.2.1 ≠ "W1"), wallets := ["W1", "W2"], node := Ex6.sys0.node }
        (addW1 Ex6.sR) d2S ∧
      (readyWallets (addW1 Ex6.sR) ["W1", "W2"]) = ["W2"] := by
  have hAR : AllReady Ex6.ctxR6.own ["W2"] := by
    intro a w' ch h
    rw [show Ex6.ctxR6.own = [("X1", ("W2", false))] from rfl, AMap.get_cons] at h
    split at h
    · cases h; rfl
    · cases h
  have hCR : ChainOK Ex6.ctxR6 := ⟨by decide, d2GoodS.heights⟩
  have hSc : Scan Ex6.ctxR6 "W2" Ex6.stR6 0 := by
    refine scan_fresh (G := d2G) rfl rfl rfl rfl rfl rfl rfl rfl rfl ?_ rfl
    intro h
    match h with
    | 0 => rfl
    | 1 => rfl
    | 2 => rfl
    | (n + 3) => simp [Ex6.stR6, Ex6.ctxR6, d2S, AMap.get, Spec.Books.syncOf]
  have h : runBatches 1000 Ex6.ctxR6 "W2" 1 Ex6.stR6 Ex6.vol6 =
      some (Ex6.sR, ((runBatches 1000 Ex6.ctxR6 "W2" 1 Ex6.stR6 Ex6.vol6).get Ex6.hrun).2.1,
        ((runBatches 1000 Ex6.ctxR6 "W2" 1 Ex6.stR6 Ex6.vol6).get Ex6.hrun).2.2) :=
    (Option.some_get Ex6.hrun).symm
  obtain ⟨hI, hst, _, _⟩ := import_exact_static_partial 1000 (by decide) Ex6.ctxR6 "W2" hAR hCR rfl 1 Ex6.stR6 Ex6.vol6
    Ex6.sR _ _ ⟨some 0, false⟩ 0 hSc rfl rfl rfl (by decide) (by decide) h
  have hst2 : AMap.get (addW1 Ex6.sR).status "W2" = some ⟨none, false⟩ := by
    show AMap.get (AMap.put Ex6.sR.status "W1" _) "W2" = _
    rw [AMap.get_put, if_neg (by decide)]; exact hst
  have hst1 : AMap.get (addW1 Ex6.sR).status "W1" = some ⟨some 0, false⟩ := by
    show AMap.get (AMap.put Ex6.sR.status "W1" _) "W1" = _
    rw [AMap.get_put, if_pos rfl]
  have hrw : readyWallets (addW1 Ex6.sR) ["W1", "W2"] = ["W2"] := by
    show List.filter _ ["W1", "W2"] = _
    simp only [List.filter, hst1, hst2]
    rfl
  refine ⟨⟨⟨hI.agree.unspent, hI.agree.credits, hI.agree.debits, hI.agree.game, hI.agree.txrecs, hI.agree.blocks⟩,
    ?_, hI.sync, hI.syncedTo⟩, hrw⟩
  intro w' hw'
  have hw'' : (readyWallets (addW1 Ex6.sR) ["W1", "W2"]).contains w' = true := hw'
  rw [hrw] at hw''
  have : w' = "W2" := by simpa using hw''
  subst this
  show AMap.get (AMap.put Ex6.sR.balance "W1" 0) "W2" = _
  rw [AMap.get_put, if_neg (by decide)]
  apply hI.bal "W2"
  show (List.filter _ ["W2"]).contains "W2" = true
  simp only [List.filter, hst]
  rfl

open MW.Lemmas.ImportExact MW.Lemmas.ImportReorg MW.Lemmas.ImportJoin MW.Lemmas.Ledger in
/-- every hypothesis of `import_exact_reorg_joined` holds on this history, and W1 is done at the end: C01's invariant
    for BOTH wallets and the chain the node ended on -/
example : Inv { p := d2Ctx.p, own := Ex6.own6, wallets := ["W1", "W2"],
                node := (Ex6.evs.foldl (stepR 1 d2Ctx.p Ex6.own6 ["W1", "W2"] "W1") Ex6.sys0).node }
    (Ex6.evs.foldl (stepR 1 d2Ctx.p Ex6.own6 ["W1", "W2"] "W1") Ex6.sys0).s d2N := by
  have hnode : (Ex6.evs.foldl (stepR 1 d2Ctx.p Ex6.own6 ["W1", "W2"] "W1") Ex6.sys0).node.chain = d2N := by rfl
  obtain ⟨hI, hrw⟩ := ex6_invR
  have hgood : AllGoodR 1 d2Ctx.p Ex6.own6 ["W1", "W2"] "W1" Ex6.sys0 Ex6.evs := by
    refine ⟨trivial, ⟨d2GoodN, rfl, d2IdInj, by decide, d2KnownS, rfl, rfl, (fun h => nomatch h), by decide⟩,
      trivial, trivial, trivial, trivial⟩
  have := (import_exact_reorg_joined 1 (by decide) d2Ctx.p Ex6.own6 ["W1", "W2"] "W1"
    (by unfold KeysNodup; decide) (by decide) Ex6.sys0 Ex6.evs hI
    (by
      show AllReady _ (readyWallets (addW1 Ex6.sR) ["W1", "W2"])
      rw [hrw]
      intro a w' ch ha
      rw [show (Ex6.own6.filter (fun e => e.2.1 ≠ "W1")) = [("X1", ("W2", false))] from rfl, AMap.get_cons] at ha
      split at ha
      · cases ha; rfl
      · cases ha)
    (by show (readyWallets (addW1 Ex6.sR) ["W1", "W2"]).isEmpty = false; rw [hrw]; rfl)
    ⟨d2G, rfl, rfl⟩
    (by show AMap.get (AMap.put Ex6.sR.status "W1" _) "W1" = _; rw [AMap.get_put, if_pos rfl])
    (by show AMap.get (AMap.put Ex6.sR.balance "W1" 0) "W1" = _; rw [AMap.get_put, if_pos rfl])
    rfl d2GoodS (by decide) (by decide) hgood).2 (by rfl)
  rw [hnode] at this
  exact this.1
example : (let r := Ex6.evs.foldl (Lemmas.ImportReorg.stepR 1 Lemmas.Ledger.d2Ctx.p Ex6.own6 ["W1", "W2"] "W1") Ex6.sys0
           (r.v.best, useWallet r.s ["W1", "W2"] "W1", walletBalance r.s "W1" 1, walletBalance r.s "W2" 1,
            (AMap.get r.s.blocks 2).map (·.2), (AMap.get r.s.blocks 3).map (·.2))) =
    (⟨3, "B3a"⟩, .ok, some ⟨0, 0, 0, 0⟩, some ⟨690, 690, 0, 0⟩, some ["C3", "T1"], some ["C4", "T2"]) := by rfl

-- stage 3: the node moves to N = G–B1–B2a–B3a WITHOUT telling the wallet; the next batch of W1's rescan (cursor 1, top
-- of the range 2) meets the followed-chain check and is put off; then the notification for B3a arrives (reorganisation
-- above the cursor, W2's record of B2 rolled back); three more batches finish the rescan
namespace Ex7
open MW.Lemmas.Ledger
def evs : List Lemmas.ImportJoin.GEv := [.batch, .node d2N, .batch, .block d2B3a, .batch, .batch, .batch]
end Ex7

open MW.Lemmas.ImportExact MW.Lemmas.ImportReorg MW.Lemmas.ImportJoin MW.Lemmas.Ledger in
/-- every hypothesis of `import_exact_full_good` holds on this history: both wallets then report `Spec.Chain` of N -/
example (minConf : Nat) :
    walletBalance (Ex7.evs.foldl (stepG 1 d2Ctx.p Ex6.own6 ["W1", "W2"] "W1") Ex6.sys0).s "W1" minConf =
      some (Spec.Chain.balance d2Ctx.p Ex6.own6 d2N "W1" minConf) := by
  have hnode : (Ex7.evs.foldl (stepG 1 d2Ctx.p Ex6.own6 ["W1", "W2"] "W1") Ex6.sys0).node.chain = d2N := by rfl
  obtain ⟨hI, hrw⟩ := ex6_invR
  have hp0 : ∀ x, AMap.get d2Known x.id = some x → d2G.prev ≠ x.id := by
    intro x hx
    rcases d2Known_cases hx with rfl | rfl | rfl | rfl | rfl <;> decide
  have hFS : ChainFacts 1 Ex6.own6 d2G d2Known d2S := ⟨d2GoodS, by decide, rfl, d2KnownS, by decide⟩
  have hFN : ChainFacts 1 Ex6.own6 d2G d2Known d2N := ⟨d2GoodN, by decide, rfl, d2KnownN, by decide⟩
  have hgood : AllGoodG 1 d2Ctx.p Ex6.own6 ["W1", "W2"] "W1" d2G Ex6.sys0 Ex7.evs :=
    ⟨trivial, hFN, trivial, rfl, trivial, trivial, trivial, trivial⟩
  have := (import_exact_full_good 1 (by decide) d2Ctx.p Ex6.own6 ["W1", "W2"] "W1"
    (by unfold KeysNodup; decide) (by decide) d2G Ex6.sys0 Ex7.evs hI
    (by
      show AllReady _ (readyWallets (addW1 Ex6.sR) ["W1", "W2"])
      rw [hrw]
      intro a w' ch ha
      rw [show (Ex6.own6.filter (fun e => e.2.1 ≠ "W1")) = [("X1", ("W2", false))] from rfl, AMap.get_cons] at ha
      split at ha
      · cases ha; rfl
      · cases ha)
    (by show (readyWallets (addW1 Ex6.sR) ["W1", "W2"]).isEmpty = false; rw [hrw]; rfl)
    rfl
    (by show AMap.get (AMap.put Ex6.sR.status "W1" _) "W1" = _; rw [AMap.get_put, if_pos rfl])
    (by show AMap.get (AMap.put Ex6.sR.balance "W1" 0) "W1" = _; rw [AMap.get_put, if_pos rfl])
    (by unfold KeysNodup; decide) rfl hFS hp0 hgood (by rfl) (by rfl)
    (by
      intro h b hb
      rw [hnode] at hb
      match h with
      | 0 => simp [d2N] at hb; subst hb; rfl
      | 1 => simp [d2N] at hb; subst hb; rfl
      | 2 => simp [d2N] at hb; subst hb; rfl
      | 3 => simp [d2N] at hb; subst hb; rfl
      | (n + 4) => simp [d2N] at hb)
    (by rw [hnode]; decide) (by decide)
    (by
      rw [hnode]
      intro x hx f hf
      have hall : ∀ y ∈ Spec.Chain.ledgerOf Ex6.own6 d2N, y.cls = Cls.std := by decide
      rw [hall x hx] at hf; cases hf)
    "W1" minConf).2.1
  rw [hnode] at this
  exact this
example : (let r := Ex7.evs.foldl (Lemmas.ImportJoin.stepG 1 Lemmas.Ledger.d2Ctx.p Ex6.own6 ["W1", "W2"] "W1") Ex6.sys0
           let r2 := [Lemmas.ImportJoin.GEv.batch, .node Lemmas.Ledger.d2N, .batch].foldl
             (Lemmas.ImportJoin.stepG 1 Lemmas.Ledger.d2Ctx.p Ex6.own6 ["W1", "W2"] "W1") Ex6.sys0
           (r.v.best, useWallet r.s ["W1", "W2"] "W1", walletBalance r.s "W2" 1,
            (AMap.get r2.s.status "W1").map (·.synced), r2.v.best)) =
    (⟨3, "B3a"⟩, .ok, some ⟨690, 690, 0, 0⟩, some (some 1), ⟨2, "B2"⟩) := by rfl

-- the LITERAL `import_exact_full` is too strong: it does not ask that the store FOLLOWS the node's chain at the import
-- moment.  Witness: the store of `Ex` with the synced-to POINTER left at 0 while the synced-to TABLE holds the whole
-- chain (not reachable in the code — `putSyncedTo` writes both — but allowed by the literal hypotheses): one batch
-- finishes the rescan, all final conditions hold, and WalletBalance with minConf 3 counts T3:0 (height 2) as
-- spendable (confirmations are computed from the pointer: u64(0 − 2 + 1)), where `Spec.Chain` says 2 confirmations.
-- The hypothesis that is needed — at the import moment the store follows the chain (C01's `Inv` for the other
-- wallets, which includes the pointer) — is exactly the one `import_exact_full_good` has.
theorem import_exact_full_literal_false : ¬ import_exact_full := by
  intro h
  have := h 1000 ctx.p ctx.own ctx.wallets "W1" ⟨ctx.node, { st with syncedTo := 0 }, vol⟩ [Ev.batch] 3 (by decide)
    ⟨by decide, by decide, by decide, by decide⟩
    ⟨by decide, by decide, by
      intro hh b hb
      have hb' : [g, b1, b2, b3][hh]? = some b := hb
      match hh with
      | 0 => simp at hb'; subst hb'; rfl
      | 1 => simp at hb'; subst hb'; rfl
      | 2 => simp at hb'; subst hb'; rfl
      | 3 => simp at hb'; subst hb'; rfl
      | (n + 4) => simp at hb'⟩
  exact absurd this (by decide)

end MW.Props.C07
