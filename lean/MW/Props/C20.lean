/-
  C20 — Shutdown always completes; follower and background worker never deadlock.  PROPERTY THEOREMS.

  Model: MW.Model.Proto (transition system of follower, worker, stop sequence, producers; Go select /
  rendezvous semantics as stated there). The communication skeleton, the capacities and the allocation
  site of the task queue are regenerated from the source (MW.Gen.Proto) and matched below; the three
  places the D12 fix touched are the `Shape` parameter, so the theorems speak about the skeleton of the
  working tree (`Shape.current = Shape.fixed`) and about the concrete alternative before the fix
  (`Shape.preFix`).
-/
import MW.Model.Proto
import MW.Gen.Proto
import MW.Lemmas.Proto
import MW.Spec.Live
import MW.Lemmas.ProtoLive
import MW.Lemmas.ProtoStop
import MW.Lemmas.ProtoLiveEx
import MW.Lemmas.ProtoLive2
namespace MW.Props.C20
open MW.Model.Proto MW.Model.Proto.Skel MW.Lemmas.Proto MW.Spec.Live

/-! ### the generated skeleton is the one the model was written for -/

theorem shape_current : Shape.current = Shape.fixed := by decide

theorem handle_shape : MW.Gen.Proto.handle =
    [.call "defer Done", .loop,
     .sel ["recv quit", "recv sigSuspend", "recv queueBlock", "recv queueMsgTx"] false,
       .ret,                                                -- quit
       .sel ["recv sigResume", "recv quit"] false, .ret,    -- suspended: resume or quit
       .call "processConnectedBlock", .call "proccessReceivedTx"] := by decide

theorem worker_shape : MW.Gen.Proto.worker =
    [.call "defer Done", .loop, .sel ["recv quit", "recv taskChan"] false,
       .ret,                                                -- quit
       .call "asyncImport", .ret /- ErrTaskAbort -/, .call "PushImport",
       .call "asyncRemove", .call "PushRemove"] := by decide

theorem asyncImport_shape : MW.Gen.Proto.asyncImport =
    [.ret, .call "suspend", .ret /- abort -/, .call "defer resume", .call "Update", .ret, .ret] := by decide

/-- one-phase removal (since the D30 fix): every round – including the first – checks quit, suspends the
    follower, runs one database transaction, resumes -/
theorem asyncRemove_shape : MW.Gen.Proto.asyncRemove =
    [.ret, .loop, .sel ["recv quit"] true, .ret /- abort -/,
       .call "suspend", .ret /- abort -/, .call "Update", .call "resume", .ret /- error -/, .ret /- finished -/] := by decide

theorem suspend_shape : MW.Gen.Proto.suspend = [.sel ["send sigSuspend", "recv quit"] false, .ret, .ret] := by decide
theorem resume_shape : MW.Gen.Proto.resume = [.sel ["send sigResume", "recv quit"] false] := by decide

theorem stop_shape : MW.Gen.Proto.handlerStop = [.close "quit", .call "Wait", .call "CloseDB"] ∧
    MW.Gen.Proto.walletStop = [.call "UnregisterListener", .call "Add", .call "Stop", .call "Wait", .ret] ∧
    MW.Gen.Proto.walletCloseDB = [.call "Close", .call "Done"] := by decide

/-- pushes never block (select with default), producers block on a full queue, API calls that queue a
    task hold w.mu and ask IsWorkerBusy first -/
theorem push_shapes : MW.Gen.Proto.pushImport = [.sel ["send taskChan"] true] ∧
    MW.Gen.Proto.pushRemove = [.sel ["send taskChan"] true] ∧
    MW.Gen.Proto.onBlockConnected = [.send "queueBlock", .ret] ∧
    MW.Gen.Proto.onTransactionReceived = [.send "queueMsgTx", .ret] ∧
    MW.Gen.Proto.importWallet.take 3 = [.call "Lock", .call "defer Unlock", .call "IsWorkerBusy"] ∧
    MW.Gen.Proto.importWalletWithMnemonic.take 3 = [.call "Lock", .call "defer Unlock", .call "IsWorkerBusy"] ∧
    MW.Gen.Proto.removeWallet.take 3 = [.call "Lock", .call "defer Unlock", .call "IsWorkerBusy"] := by decide

/-- D10: the task queue is allocated (and re-filled) before the goroutines exist -/
theorem task_queue_before_goroutines : MW.Gen.Proto.taskChanInitBeforeGo = true ∧
    MW.Gen.Proto.handlerStart.drop (MW.Gen.Proto.handlerStart.length - 5) = [.call "initTaskChan", .call "Add", .call "go handle", .call "go worker", .ret] := by decide

theorem channel_kinds : MW.Gen.Proto.sigSuspendCap = 0 ∧ MW.Gen.Proto.sigResumeCap = 0 ∧ MW.Gen.Proto.quitCap = 0 ∧
    MW.Gen.Proto.queueBlockCap = 1024 ∧ MW.Gen.Proto.queueMsgTxCap = 1024 ∧
    MW.Gen.Proto.taskChanCapAtLeastBusyPlusOne = true ∧ MW.Gen.Proto.isBusyIsLenGeMax = true := by decide

/-- whatever the number of wallets, the task queue is strictly larger than the busy mark -/
theorem cfg_current_ok (n : Nat) : (Cfg.current n).busy < (Cfg.current n).cap := by
  show MW.Gen.Proto.maxWaitingTaskNum < max n (MW.Gen.Proto.maxWaitingTaskNum + 1)
  exact Nat.lt_of_lt_of_le (Nat.lt_succ_self _) (Nat.le_max_right _ _)

/-! ### the theorems -/

/-- no_deadlock: in every reachable state of the current skeleton – all capacities with busy < cap, all
    initial queue contents, all interleavings with producers, API calls and the stop request – some step of
    the follower, the worker or the stop sequence is enabled, or everything has terminated (`Final`), or
    there is neither work nor a stop request (`Quiescent`). -/
theorem no_deadlock (c : Cfg) (hc : c.busy < c.cap) (s : St) (h : Reach .fixed c s) :
    CoreEnabled .fixed c s ∨ Final s ∨ Quiescent s :=
  no_deadlock_of_inv (inv_reach hc h)

/-- … in particular for the configuration of the working tree -/
theorem no_deadlock_current (n : Nat) (s : St) (h : Reach Shape.current (Cfg.current n) s) :
    CoreEnabled Shape.current (Cfg.current n) s ∨ Final s ∨ Quiescent s := by
  rw [shape_current] at h ⊢
  exact no_deadlock _ (cfg_current_ok n) s h

/-- prefix_deadlock: the skeleton before the D12 fix has a reachable state that is stuck for good: the
    worker stands at the bare send of suspend(), the follower has returned on quit, Stop waits for the
    wait group (witness: one queued import, stop request right after the worker took it). -/
theorem prefix_deadlock : ∃ (c : Cfg) (s : St), c.busy < c.cap ∧ Reach .preFix c s ∧
    ¬ CoreEnabled .preFix c s ∧ ¬ Final s ∧ ¬ Quiescent s :=
  ⟨cfg4, stuck, by decide, stuck_reachable, stuck_is_stuck.1, stuck_is_stuck.2.1, stuck_is_stuck.2.2⟩

/-- stop_terminates: once quit is closed, every step of follower, worker and stop sequence strictly
    decreases `stopMeasure` – for every state (hence every placement of the stop request relative to every
    other step) and every queue content. -/
theorem stop_terminates (c : Cfg) (s s' : St) (l : Label) (hl : l.core = true) (hq : s.quit = true)
    (hf : fire .fixed c l s = some s') : stopMeasure s' < stopMeasure s :=
  measure_decreases hl hq hf

/-- … so after the stop request at most `stopMeasure s` further steps happen (a bound that is linear in the
    queue contents), -/
theorem stop_bounded (c : Cfg) (s s' : St) (n : Nat) (hp : CorePath .fixed c s n s') (hq : s.quit = true) :
    n ≤ stopMeasure s := by
  have := path_bounded hp hq
  omega

/-- … and when nothing more can happen, Stop has returned with the wallet database closed. -/
theorem stop_completes (c : Cfg) (hc : c.busy < c.cap) (s : St) (h : Reach .fixed c s) (hq : s.quit = true)
    (hn : ¬ CoreEnabled .fixed c s) : Final s ∧ s.dbOpen = false := by
  have hi := inv_reach hc h
  rcases no_deadlock c hc s h with h1 | h1 | h1
  · exact absurd h1 hn
  · exact ⟨h1, hi.db.2 h1.1⟩
  · have := hi.spQuit.1 h1.1
    simp [hq] at this

/-- the database is closed only after both goroutines have returned (Stop never closes it under a running
    step) – any skeleton -/
theorem db_closed_after_goroutines (sh : Shape) (c : Cfg) (hc : c.busy < c.cap) (s : St) (h : Reach sh c s)
    (hd : s.dbOpen = false) : s.hp = .done ∧ s.wp = .done :=
  db_closed_of_inv (inv_reach hc h) hd

/-- queue_never_drops: the drop branch of a push (worker re-queue or API call) is never enabled: an accepted
    import / removal is never lost at the queue. (Needs only busy < cap; any skeleton.) -/
theorem queue_never_drops (sh : Shape) (c : Cfg) (hc : c.busy < c.cap) (s : St) (h : Reach sh c s) :
    fire sh c .wPushDrop s = none ∧ fire sh c .aPushDrop s = none ∧ s.nt ≤ c.cap := by
  have hi := inv_reach hc h
  refine ⟨(no_drop_of_inv hc hi).1, (no_drop_of_inv hc hi).2, ?_⟩
  have h8 := hi.chk
  cases hap : s.ap <;> simp [hap, bound] at h8 <;> omega

/-- progress_partial (round 3: the ranking-function lemmas; superseded by `progress` below, kept): each follower
    step strictly decreases the follower's pending work and no other step of the system increases it; no step of
    the system increases the number of pending tasks. -/
theorem progress_partial (sh : Shape) (c : Cfg) (s s' : St) (l : Label) (hl : l.core = true)
    (hf : fire sh c l s = some s') :
    (Label.follower l = true → followerWork s' < followerWork s) ∧
    (Label.follower l = false → followerWork s' ≤ followerWork s) ∧
    workerPending s' ≤ workerPending s :=
  ⟨fun h => follower_step_decreases h hf, fun h => others_keep_followerWork hl h hf, core_keeps_workerPending hl hf⟩

/-! ### liveness over infinite runs (MW.Spec.Live)

A run is ANY infinite sequence of states of `fire .fixed c` with the labels taken (`none` = stutter), from an
initial state: `IsRun`. The history observers `obs run ls i : G` are functions of the labels taken before `i`:
`annB` / `procB` count the blocks announced (queued at start + `eBlk`) and the blocks whose
processConnectedBlock returned (`hDoneBlk`) – the queue is FIFO, so the k-th announced block has been processed
exactly when `procB ≥ k`; tasks are numbered in acceptance order (`next` = number accepted so far), `q` is the
FIFO task queue, `hand` the worker's task, `fin` the finished ones, `used t` the database rounds of task `t`
that ended "not finished" (`wCommitI .more / .errRetry`, `wCommitR .more / .err`), `lost` the tasks dropped at
a full queue. `FairRun`: every step of follower / worker / stop sequence weakly fair, the three data branches of
the follower's outer select (`hTakeBlk`, `hTakeTx`, `sus`) strongly fair. -/

/-- PROGRESS. In every run of the current skeleton that is fair (`FairRun`), in which no stop is requested
    ("while the wallet runs") and every task needs finitely many database rounds (task `t` at most `B t`
    unfinished rounds – the explicit finiteness parameter: by design a failing round is retried without bound):
    (a) every block announced by instant `i` has been processed by some instant `j` (per item: the k-th
        announced block for every k ≤ annB i – not merely "the queue is empty at some time", which fails when
        producers keep announcing), likewise every unconfirmed transaction;
    (b) every import / removal accepted by instant `i` has finished by some instant `j`;
    (c) no accepted task is ever lost: each is in the queue, in the worker's hands or finished. -/
theorem progress (c : Cfg) (hc : c.busy < c.cap) (B : Nat → Nat) (run : Nat → St) (ls : Nat → Option Label)
    (hr : IsRun c run ls) (hf : FairRun c run ls) (hnq : ∀ i, (run i).quit = false)
    (hbud : ∀ i t, (obs run ls i).used t ≤ B t) :
    (∀ i, ∃ j, i ≤ j ∧ (obs run ls i).annB ≤ (obs run ls j).procB) ∧
    (∀ i, ∃ j, i ≤ j ∧ (obs run ls i).annT ≤ (obs run ls j).procT) ∧
    (∀ i k, k < (obs run ls i).next → ∃ j, i ≤ j ∧ k ∈ (obs run ls j).fin) ∧
    (∀ i, (obs run ls i).lost = [] ∧
      ∀ k, k < (obs run ls i).next → Pend k (obs run ls i) ∨ k ∈ (obs run ls i).fin) :=
  MW.Lemmas.ProtoLive.progress_run hc B hr hf hnq hbud

/-- FOLLOWER PROGRESS without any assumption on the tasks: however often the worker's tasks are retried (no budget
    hypothesis), every announced block and every unconfirmed transaction is eventually processed – the follower
    is suspended for ONE database transaction of the worker at a time. -/
theorem follower_progress (c : Cfg) (hc : c.busy < c.cap) (run : Nat → St) (ls : Nat → Option Label)
    (hr : IsRun c run ls) (hf : FairRun c run ls) (hnq : ∀ i, (run i).quit = false) :
    (∀ i, ∃ j, i ≤ j ∧ (obs run ls i).annB ≤ (obs run ls j).procB) ∧
    (∀ i, ∃ j, i ≤ j ∧ (obs run ls i).annT ≤ (obs run ls j).procT) :=
  MW.Lemmas.ProtoLive.follower_run hc hr hf hnq

/-- … for the configuration of the working tree (`Shape.current = Shape.fixed` by `shape_current`) -/
theorem progress_current (n : Nat) (B : Nat → Nat) (run : Nat → St) (ls : Nat → Option Label)
    (hr : IsRun (Cfg.current n) run ls) (hf : FairRun (Cfg.current n) run ls) (hnq : ∀ i, (run i).quit = false)
    (hbud : ∀ i t, (obs run ls i).used t ≤ B t) :
    (∀ i, ∃ j, i ≤ j ∧ (obs run ls i).annB ≤ (obs run ls j).procB) ∧
    (∀ i k, k < (obs run ls i).next → ∃ j, i ≤ j ∧ k ∈ (obs run ls j).fin) :=
  have h := progress (Cfg.current n) (cfg_current_ok n) B run ls hr hf hnq hbud
  ⟨h.1, h.2.2.1⟩

/-- the hypotheses of `progress` are met by a concrete run with work in it: one import queued and one block
    announced at the start (`okRun`: wTakeImp, hTakeBlk, hDoneBlk, sus, wCommitI .fin, res, then idle); budget 0;
    and the conclusions are not vacuous there: task 0 and block 1 are pending at instant 0, done at instant 6 -/
example : IsRun cfg4 MW.Lemmas.ProtoLiveEx.okRun MW.Lemmas.ProtoLiveEx.okLab ∧
    FairRun cfg4 MW.Lemmas.ProtoLiveEx.okRun MW.Lemmas.ProtoLiveEx.okLab ∧
    (∀ i, (MW.Lemmas.ProtoLiveEx.okRun i).quit = false) ∧
    (∀ i t, (obs MW.Lemmas.ProtoLiveEx.okRun MW.Lemmas.ProtoLiveEx.okLab i).used t ≤ 0) ∧
    (obs MW.Lemmas.ProtoLiveEx.okRun MW.Lemmas.ProtoLiveEx.okLab 0).next = 1 ∧
    (obs MW.Lemmas.ProtoLiveEx.okRun MW.Lemmas.ProtoLiveEx.okLab 0).annB = 1 ∧
    0 ∈ (obs MW.Lemmas.ProtoLiveEx.okRun MW.Lemmas.ProtoLiveEx.okLab 6).fin ∧
    (obs MW.Lemmas.ProtoLiveEx.okRun MW.Lemmas.ProtoLiveEx.okLab 6).procB = 1 :=
  ⟨MW.Lemmas.ProtoLiveEx.ok_isRun, MW.Lemmas.ProtoLiveEx.ok_fair, MW.Lemmas.ProtoLiveEx.ok_quit,
   MW.Lemmas.ProtoLiveEx.ok_used, MW.Lemmas.ProtoLiveEx.ok_content⟩

/-- the select fairness in `FairRun` is NECESSARY: there is a run (one block queued, a never-ending flood of
    unconfirmed transactions, the follower's select always takes the transaction) in which every step of
    follower / worker / stop sequence is weakly fair, the other two select branches are even strongly fair, no
    stop is requested, no task exists – and the announced block is never processed. -/
theorem weak_fairness_not_enough : ∃ (c : Cfg) (run : Nat → St) (ls : Nat → Option Label), c.busy < c.cap ∧
    IsRun c run ls ∧ (∀ l : Label, l.core = true → WF (fire .fixed c) run ls l) ∧
    SF (fire .fixed c) run ls .sus ∧ SF (fire .fixed c) run ls .hTakeTx ∧
    (∀ i, (run i).quit = false) ∧ (∀ i t, (obs run ls i).used t ≤ 0) ∧
    ¬ ∃ j, (obs run ls 0).annB ≤ (obs run ls j).procB :=
  MW.Lemmas.ProtoLiveEx.weak_not_enough

/-- strong fairness of the hand-shake branch `sus` is NECESSARY as well: weak fairness everywhere, the block and
    transaction branches strongly fair, no stop request, no retries – and a flood of blocks keeps the follower
    from ever taking the worker's suspend: the accepted import never finishes ("follower and worker never block
    each other permanently" needs the select to be fair) -/
theorem sus_fairness_needed : ∃ (c : Cfg) (run : Nat → St) (ls : Nat → Option Label), c.busy < c.cap ∧
    IsRun c run ls ∧ (∀ l : Label, l.core = true → WF (fire .fixed c) run ls l) ∧
    SF (fire .fixed c) run ls .hTakeBlk ∧ SF (fire .fixed c) run ls .hTakeTx ∧
    (∀ i, (run i).quit = false) ∧ (∀ i t, (obs run ls i).used t ≤ 0) ∧
    0 < (obs run ls 0).next ∧ ∀ j, 0 ∉ (obs run ls j).fin :=
  MW.Lemmas.ProtoLiveEx.sus_fairness_needed

/-- the budget hypothesis of `progress` is NECESSARY: a fair run without stop request in which an accepted import
    never finishes (every database round ends "more": the rounds are not bounded) -/
theorem budget_needed : ∃ (c : Cfg) (run : Nat → St) (ls : Nat → Option Label), c.busy < c.cap ∧ IsRun c run ls ∧
    FairRun c run ls ∧ (∀ i, (run i).quit = false) ∧ 0 < (obs run ls 0).next ∧ ∀ j, 0 ∉ (obs run ls j).fin :=
  MW.Lemmas.ProtoLiveEx.budget_needed

/-- the round-3 formulation of the full statement, kept type-checked: it is FALSE (`C20_full_progress_false`) –
    weak fairness does not force the select to take the block branch, and "followerWork = 0 at some later
    instant" fails anyway while producers keep announcing. `progress` is the corrected statement. -/
def C20_full_progress : Prop :=
  ∀ (c : Cfg) (run : Nat → St), c.busy < c.cap → Init c (run 0) →
    (∀ i, ∃ l, fire .fixed c l (run i) = some (run (i + 1))) →
    -- weak fairness: a core label enabled from some point on is eventually taken
    (∀ l, l.core = true → ∀ i, (∀ j, i ≤ j → (fire .fixed c l (run j)).isSome) → ∃ j, i ≤ j ∧ fire .fixed c l (run j) = some (run (j + 1))) →
    ∀ i, (∀ j, (run j).quit = false) → ∃ j, i ≤ j ∧ followerWork (run j) = 0

theorem C20_full_progress_false : ¬ C20_full_progress := MW.Lemmas.ProtoLiveEx.old_progress_false

/-- STOP-SIDE LIVENESS (the infinite-run form of stop_terminates / stop_completes). In every run in which each
    step of follower, worker and stop sequence is weakly fair (no select fairness needed: after close(quit) every
    step decreases `stopMeasure`) and no API call pushes a task after the stop request (loader.go stops the API
    server before the wallet manager), a stop request at any instant is followed by the final state: Stop has
    returned, both goroutines have returned, the database is closed. -/
theorem stop_live (c : Cfg) (hc : c.busy < c.cap) (run : Nat → St) (ls : Nat → Option Label) (hr : IsRun c run ls)
    (hwf : ∀ l : Label, l.core = true → WF (fire .fixed c) run ls l)
    (hapi : ∀ j, (run j).quit = true → ls j ≠ some .aPush) :
    ∀ i, (run i).quit = true → ∃ j, i ≤ j ∧ Final (run j) ∧ (run j).dbOpen = false :=
  MW.Lemmas.ProtoStop.stop_live hc hr hwf hapi

/-- the quiet-API hypothesis of `stop_live` is NECESSARY under weak fairness: if API calls keep queueing removals
    after the stop request and the worker's select keeps preferring the queue to quit, Stop never returns -/
theorem stop_needs_quiet_api : ∃ (c : Cfg) (run : Nat → St) (ls : Nat → Option Label), c.busy < c.cap ∧
    IsRun c run ls ∧ (∀ l : Label, l.core = true → WF (fire .fixed c) run ls l) ∧ (run 1).quit = true ∧
    ∀ j, ¬ Final (run j) :=
  MW.Lemmas.ProtoLiveEx.stop_needs_quiet_api

/-- the hypotheses of `stop_live` are met by a concrete run with a stop request (a task still queued): eStop,
    hQuit, wQuit, sWait, sClose, then nothing -/
example : IsRun cfg4 MW.Lemmas.ProtoLiveEx.stopRun MW.Lemmas.ProtoLiveEx.stopLab ∧
    (∀ l : Label, l.core = true → WF (fire .fixed cfg4) MW.Lemmas.ProtoLiveEx.stopRun MW.Lemmas.ProtoLiveEx.stopLab l) ∧
    (∀ j, (MW.Lemmas.ProtoLiveEx.stopRun j).quit = true → MW.Lemmas.ProtoLiveEx.stopLab j ≠ some .aPush) ∧
    (MW.Lemmas.ProtoLiveEx.stopRun 1).quit = true :=
  ⟨MW.Lemmas.ProtoLiveEx.stop_isRun, MW.Lemmas.ProtoLiveEx.stop_wf, fun j _ => MW.Lemmas.ProtoLiveEx.stop_noPush j, rfl⟩

/-- the round-3 intent, with the hypothesis it needs: when the producers are quiet from some instant on, the
    follower's queues drain and `followerWork` is 0 from some instant on -/
theorem follower_drains (c : Cfg) (hc : c.busy < c.cap) (run : Nat → St) (ls : Nat → Option Label)
    (hr : IsRun c run ls) (hf : FairRun c run ls) (hnq : ∀ i, (run i).quit = false) (i0 : Nat)
    (hquiet : ∀ j, i0 ≤ j → ls j ≠ some .eBlk ∧ ls j ≠ some .eTx) :
    ∃ j, i0 ≤ j ∧ ∀ j', j ≤ j' → followerWork (run j') = 0 :=
  MW.Lemmas.ProtoLive2.follower_drains hc hr hf hnq i0 hquiet

/-- LIFE CYCLE (no global "no stop request" hypothesis): in a fair run with bounded task rounds and an API that is
    quiet after the stop request, everything announced / accepted by instant `i` is processed / finished at some
    later instant – or a stop has been requested, and then the run reaches the final state, database closed. -/
theorem life_cycle (c : Cfg) (hc : c.busy < c.cap) (B : Nat → Nat) (run : Nat → St) (ls : Nat → Option Label)
    (hr : IsRun c run ls) (hf : FairRun c run ls) (hbud : ∀ i t, (obs run ls i).used t ≤ B t)
    (hapi : ∀ j, (run j).quit = true → ls j ≠ some .aPush) (i : Nat) :
    ((∃ j, i ≤ j ∧ (obs run ls i).annB ≤ (obs run ls j).procB) ∧
     (∀ k, k < (obs run ls i).next → ∃ j, i ≤ j ∧ k ∈ (obs run ls j).fin)) ∨
    ∃ j, i ≤ j ∧ Final (run j) ∧ (run j).dbOpen = false :=
  MW.Lemmas.ProtoLive2.life_cycle hc B hr hf hbud hapi i

/-- the extra hypotheses of `follower_drains` and `life_cycle` hold in the run `okRun` above (no producer step at
    all; no stop request, hence no API push after one) -/
example : (∀ j, 0 ≤ j → MW.Lemmas.ProtoLiveEx.okLab j ≠ some .eBlk ∧ MW.Lemmas.ProtoLiveEx.okLab j ≠ some .eTx) ∧
    (∀ j, (MW.Lemmas.ProtoLiveEx.okRun j).quit = true → MW.Lemmas.ProtoLiveEx.okLab j ≠ some .aPush) :=
  ⟨fun j _ => MW.Lemmas.ProtoLiveEx.ok_quiet j, MW.Lemmas.ProtoLiveEx.ok_noPush⟩

-- non-vacuity
example : Reach .fixed cfg4 { nt := 2, nb := 5 } := .init (by simp [Init, cfg4])
example : ∃ s', fire .fixed cfg4 .wTakeImp { nt := 2 } = some s' := ⟨_, rfl⟩
example : CorePath .fixed cfg4 { quit := true, sp := .waiting } 2 { quit := true, sp := .waiting, hp := .done, wp := .done } :=
  .cons .hQuit rfl rfl (.cons .wQuit rfl rfl (.nil _))
example : ¬ CoreEnabled .fixed cfg4 { quit := true, dbOpen := false, sp := .done, hp := .done, wp := .done } := by
  rintro ⟨l, hl, hf⟩
  cases l <;> simp [Label.core] at hl <;> simp [fire, susNext, susAbort, resNext] at hf
example : (Cfg.current 7).cap = 7 := by decide
example : Label.follower .hTakeBlk = true := rfl

end MW.Props.C20
