/-
  C17 — Queries racing with synchronisation see one block boundary; no data races.  PROPERTY THEOREMS.

  (a) isolation.  Model: MW.Model.Iso (read trees over store versions, read transactions with or
      without a snapshot, calls as sequences of read transactions); ledger queries and `confs` from
      MW.Model.Ledger.  The ldb driver's read-transaction semantics is a regenerated fact
      (MW.Gen.Iso.readTxSnapshot).
  (b) race freedom (partial by nature): see the second half of this file (lock table).
-/
import MW.Model.Iso
import MW.Gen.Iso
import MW.Lemmas.Iso
import MW.Props.C01
import MW.Model.Locks
import MW.Gen.Locks
import MW.Gen.LockBal
import MW.Lemmas.Locks
import MW.Lemmas.IsoBridge
namespace MW.Props.C17
open MW MW.Model.Ledger MW.Model.Iso MW.Lemmas.Iso

/-! ### (a) isolation -/

/-- view_snapshot (general form): with snapshot-backed read transactions, a call that is ONE read
    transaction answers exactly what the same query answers on a single version `Sᵢ`, and `i` lies
    between the number of commits at the call's first read and at its end — for every sequence of
    versions, every monotone schedule and every starting point. -/
theorem view_snapshot {σ α : Type} (vs : Nat → σ) (v : Nat → Nat) (hv : Mono v) (q : Q σ α) (j : Nat) :
    ∃ i, v j ≤ i ∧ i ≤ v ((single q).run true vs v j).2 ∧
      ((single q).run true vs v j).1 = q.evalOn (vs i) :=
  ⟨v j, Nat.le_refl _, hv _ _ (run_counter true vs v (single q) j), rfl⟩

/-- view_snapshot for WalletBalance(detail): the answer is `Ledger.walletBalance` of ONE version -/
theorem balance_snapshot (vs : Nat → Store) (v : Nat → Nat) (hv : Mono v) (w : Wid) (mc : Nat) (j : Nat) :
    ∃ i, v j ≤ i ∧ i ≤ v ((single (balanceQ w mc)).run true vs v j).2 ∧
      ((single (balanceQ w mc)).run true vs v j).1 = walletBalance (vs i) w mc := by
  obtain ⟨i, h1, h2, h3⟩ := view_snapshot vs v hv (balanceQ w mc) j
  exact ⟨i, h1, h2, h3.trans (balanceQ_evalOn _ _ _)⟩

/-- view_snapshot for GetUtxo: the coin list (with the reported confirmations) of ONE version -/
theorem utxos_snapshot (vs : Nat → Store) (v : Nat → Nat) (hv : Mono v) (w : Wid) (j : Nat) :
    ∃ i, v j ≤ i ∧ i ≤ v ((single (utxosQ w)).run true vs v j).2 ∧
      ((single (utxosQ w)).run true vs v j).1 = listCoins (vs i).syncedTo (coinsOf (vs i) w) :=
  view_snapshot vs v hv (utxosQ w) j

/-- view_snapshot for the coin selection of a transaction-building call -/
theorem select_snapshot (vs : Nat → Store) (v : Nat → Nat) (hv : Mono v) (w : Wid)
    (pick : List Listed → List Listed) (j : Nat) :
    ∃ i, v j ≤ i ∧ i ≤ v ((single (selectQ w pick)).run true vs v j).2 ∧
      ((single (selectQ w pick)).run true vs v j).1 =
        pick ((listCoins (vs i).syncedTo (coinsOf (vs i) w)).filter (eligible (vs i).pendIns)) :=
  view_snapshot vs v hv (selectQ w pick) j

/-- hence (with C01's height invariant of a version, `HeightsOk` – a THEOREM for every store a C01 history reaches:
    `heightsOk_reached` below): a coin counted as spendable /
    withdrawable in a balance answer really has that many confirmations in that version – the count is
    the true depth `tip − height + 1`, no wrap-around – so an immature or still locked coin is never
    counted (`MW.Props.C01.maturity_iff_*` turn "depth ≥ recorded maturity" into the consensus rule). -/
theorem snapshot_no_immature (S : Store) (w : Wid) (h : HeightsOk S w) (mc : Nat) (c : Coin)
    (hc : c ∈ coinsOf S w) (hs : countedSpendable mc S.syncedTo c = true) :
    S.syncedTo - c.blk.height + 1 ≥ mc ∧ S.syncedTo - c.blk.height + 1 ≥ c.cred.maturity := by
  unfold countedSpendable at hs
  rw [confs_exact h hc] at hs
  simpa using hs

/-- … and the coin scan of one version names every outpoint at most once (no coin counted twice) -/
theorem snapshot_no_double_count (S : Store) (w : Wid) (h : NodupKeys S.unspent) :
    ((coinsOf S w).map (fun c => (c.tx, c.idx))).Nodup := coinsOf_nodup S w h

/-- the reported (uint32) confirmation count of a listed coin is the true depth, under the same invariant -/
theorem snapshot_listed_confs (S : Store) (w : Wid) (h : HeightsOk S w) (l : Listed)
    (hl : l ∈ listCoins S.syncedTo (coinsOf S w)) :
    l.confs32 = S.syncedTo - l.coin.blk.height + 1 := by
  unfold listCoins at hl
  rcases List.mem_map.1 hl with ⟨c, hc, rfl⟩
  exact confs32_exact h hc

/-- build_consistent: a transaction-building call (selection transaction, then one lookup transaction per
    selected coin) that SUCCEEDS returns inputs that are all eligible coins of ONE version `Sᵢ` between its
    start and its end – whatever commits land between its reads and between its transactions – for
    every selection function that only picks among the candidates it is given. -/
theorem build_consistent (vs : Nat → Store) (v : Nat → Nat) (hv : Mono v) (w : Wid)
    (pick : List Listed → List Listed) (hp : ∀ l, (pick l).Sublist l) (j : Nat) (sel : List Listed)
    (hs : ((buildCall w pick).run true vs v j).1 = some sel) :
    ∃ i, v j ≤ i ∧ i ≤ v ((buildCall w pick).run true vs v j).2 ∧
      sel.Sublist ((listCoins (vs i).syncedTo (coinsOf (vs i) w)).filter (eligible (vs i).pendIns)) := by
  refine ⟨v j, Nat.le_refl _, hv _ _ (run_counter true vs v _ j), ?_⟩
  simp only [buildCall, Call.run, beginRead, if_true, runTx_pinned, run_map] at hs
  split at hs
  · simp only [Option.some.injEq] at hs
    rw [← hs, selectQ_evalOn]
    exact hp _
  · simp at hs

/-- … so, under the invariant of that version, every input is mature there and no input occurs twice -/
theorem build_inputs_mature (S : Store) (w : Wid) (h : HeightsOk S w) (sel : List Listed)
    (hs : sel.Sublist ((listCoins S.syncedTo (coinsOf S w)).filter (eligible S.pendIns))) (l : Listed) (hl : l ∈ sel) :
    S.syncedTo - l.coin.blk.height + 1 ≥ l.coin.cred.maturity ∧ l.coin.cred.cls = .standard ∧
      AMap.get S.pendIns (l.coin.tx, l.coin.idx) = none := by
  have hm := List.mem_filter.1 (hs.subset hl)
  have hc := snapshot_listed_confs S w h l hm.1
  have he := hm.2
  simp only [eligible, Bool.and_eq_true, decide_eq_true_eq, Option.isNone_iff_eq_none, Bool.not_eq_true'] at he
  exact ⟨by rw [← hc]; exact he.1.1.1, he.2, he.1.1.2⟩

/-! #### `HeightsOk` is not an assumption: it follows from the ledger invariant of C01 -/

section bridge
open MW.Lemmas.Ledger MW.Lemmas.IsoBridge MW.Spec.Chain

/-- THE BRIDGE C01 ⇒ C17: a store that holds the books of a valid chain whose heights are positions
    (`MW.Lemmas.Ledger.Inv`, the invariant of `MW.Props.C01`), with a well-formed unspent index and a synced height
    below 2^31, satisfies `HeightsOk` for every wallet -/
theorem heightsOk_of_ledger_inv {c : Ctx} {s : Store} {chain : List Block} (hI : Inv c s chain)
    (hWF : KeysNodup s.unspent) (hV : ChainValid c.own chain) (hH : HeightsOK chain)
    (hb : s.syncedTo < 2^31) (w : Wid) : HeightsOk s w := heightsOk_of_inv hI hWF hV hH hb w

/-- `HeightsOk` in every store a C01 history reaches – ANY finite history of node events (extend, reorganise)
    and handler steps (`RunHyp`), at ANY point of it (notifications pending or not); the only hypothesis left is
    the size bound -/
theorem heightsOk_reached (e : Env) (G : Block) (w0 : World) (evs : List Ev) (H : RunHyp e G w0 evs)
    (h0 : Inv (e.ctx w0.chain) w0.s w0.chain) (hv0 : w0.v.best = tipMeta w0.chain) (hq0 : w0.queue = [])
    (hwf0 : KeysNodup w0.s.unspent) (hb : (runW e w0 evs).s.syncedTo < 2^31) (w : Wid) :
    HeightsOk (runW e w0 evs).s w := MW.Lemmas.IsoBridge.heightsOk_reached e G w0 evs H h0 hv0 hq0 hwf0 hb w

/-- … with addresses issued along the way (`RunHypI`) -/
theorem heightsOk_reached_issue (e : Env) (G : Block) (x0 : WorldI) (evs : List EvI) (H : RunHypI e G x0 evs)
    (h0 : Inv ({ e with own := x0.own }.ctx x0.w.chain) x0.w.s x0.w.chain)
    (hv0 : x0.w.v.best = tipMeta x0.w.chain) (hq0 : x0.w.queue = [])
    (hwf0 : KeysNodup x0.w.s.unspent) (hb : (runI e x0 evs).w.s.syncedTo < 2^31) (w : Wid) :
    HeightsOk (runI e x0 evs).w.s w :=
  MW.Lemmas.IsoBridge.heightsOk_reached_issue e G x0 evs H h0 hv0 hq0 hwf0 hb w

/-- the store versions a query can see – version `i` = the store after the first `pre i` events of a C01 history,
    each handler step being one commit – all satisfy `HeightsOk` -/
theorem versions_heightsOk (e : Env) (G : Block) (w0 : World) (evs : List Ev) (H : RunHyp e G w0 evs)
    (h0 : Inv (e.ctx w0.chain) w0.s w0.chain) (hv0 : w0.v.best = tipMeta w0.chain) (hq0 : w0.queue = [])
    (hwf0 : KeysNodup w0.s.unspent) (vs : Nat → Store) (pre : Nat → Nat)
    (hvs : ∀ i, vs i = (runW e w0 (evs.take (pre i))).s) (hb : ∀ i, (vs i).syncedTo < 2^31) (i : Nat) (w : Wid) :
    HeightsOk (vs i) w := MW.Lemmas.IsoBridge.versions_heightsOk e G w0 evs H h0 hv0 hq0 hwf0 vs pre hvs hb i w

/-- NO UNSIGNED WRAP, NO IMMATURE COIN COUNTED – WITHOUT THE ASSUMPTION: in a store reached by a C01 history a coin
    counted as spendable / withdrawable has true depth `tip − height + 1 ≥ minConf` and `≥` its recorded maturity -/
theorem reached_no_immature (e : Env) (G : Block) (w0 : World) (evs : List Ev) (H : RunHyp e G w0 evs)
    (h0 : Inv (e.ctx w0.chain) w0.s w0.chain) (hv0 : w0.v.best = tipMeta w0.chain) (hq0 : w0.queue = [])
    (hwf0 : KeysNodup w0.s.unspent) (hb : (runW e w0 evs).s.syncedTo < 2^31) (w : Wid) (mc : Nat) (c : Coin)
    (hc : c ∈ coinsOf (runW e w0 evs).s w) (hs : countedSpendable mc (runW e w0 evs).s.syncedTo c = true) :
    (runW e w0 evs).s.syncedTo - c.blk.height + 1 ≥ mc ∧
      (runW e w0 evs).s.syncedTo - c.blk.height + 1 ≥ c.cred.maturity :=
  snapshot_no_immature _ w (heightsOk_reached e G w0 evs H h0 hv0 hq0 hwf0 hb w) mc c hc hs

/-- … the reported confirmation count of a listed coin is its true depth -/
theorem reached_listed_confs (e : Env) (G : Block) (w0 : World) (evs : List Ev) (H : RunHyp e G w0 evs)
    (h0 : Inv (e.ctx w0.chain) w0.s w0.chain) (hv0 : w0.v.best = tipMeta w0.chain) (hq0 : w0.queue = [])
    (hwf0 : KeysNodup w0.s.unspent) (hb : (runW e w0 evs).s.syncedTo < 2^31) (w : Wid) (l : Listed)
    (hl : l ∈ listCoins (runW e w0 evs).s.syncedTo (coinsOf (runW e w0 evs).s w)) :
    l.confs32 = (runW e w0 evs).s.syncedTo - l.coin.blk.height + 1 :=
  snapshot_listed_confs _ w (heightsOk_reached e G w0 evs H h0 hv0 hq0 hwf0 hb w) l hl

/-- … the coin scan names no outpoint twice (the unspent index stays well-formed along the history) -/
theorem reached_no_double_count (e : Env) (w0 : World) (evs : List Ev) (hwf0 : KeysNodup w0.s.unspent) (w : Wid) :
    ((coinsOf (runW e w0 evs).s w).map (fun c => (c.tx, c.idx))).Nodup :=
  snapshot_no_double_count _ w ((nodupKeys_iff _).2 (wf_runW e w0 evs hwf0))

/-- … and the inputs a successful transaction-building call selects from such a version are mature there -/
theorem reached_inputs_mature (e : Env) (G : Block) (w0 : World) (evs : List Ev) (H : RunHyp e G w0 evs)
    (h0 : Inv (e.ctx w0.chain) w0.s w0.chain) (hv0 : w0.v.best = tipMeta w0.chain) (hq0 : w0.queue = [])
    (hwf0 : KeysNodup w0.s.unspent) (hb : (runW e w0 evs).s.syncedTo < 2^31) (w : Wid) (sel : List Listed)
    (hs : sel.Sublist ((listCoins (runW e w0 evs).s.syncedTo (coinsOf (runW e w0 evs).s w)).filter
      (eligible (runW e w0 evs).s.pendIns))) (l : Listed) (hl : l ∈ sel) :
    (runW e w0 evs).s.syncedTo - l.coin.blk.height + 1 ≥ l.coin.cred.maturity ∧ l.coin.cred.cls = .standard ∧
      AMap.get (runW e w0 evs).s.pendIns (l.coin.tx, l.coin.idx) = none :=
  build_inputs_mature _ w (heightsOk_reached e G w0 evs H h0 hv0 hq0 hwf0 hb w) sel hs l hl

/-- A BALANCE QUERY RACING WITH THE FOLLOWER, end to end: the store versions are those of a C01 history (one per
    commit), read transactions are snapshot-backed; the answer is `walletBalance` of ONE version between the call's
    start and end, and that version satisfies `HeightsOk` – so every coin it counts has its true depth -/
theorem balance_snapshot_reached (e : Env) (G : Block) (w0 : World) (evs : List Ev) (H : RunHyp e G w0 evs)
    (h0 : Inv (e.ctx w0.chain) w0.s w0.chain) (hv0 : w0.v.best = tipMeta w0.chain) (hq0 : w0.queue = [])
    (hwf0 : KeysNodup w0.s.unspent) (vs : Nat → Store) (pre : Nat → Nat)
    (hvs : ∀ i, vs i = (runW e w0 (evs.take (pre i))).s) (hb : ∀ i, (vs i).syncedTo < 2^31)
    (v : Nat → Nat) (hv : Mono v) (w : Wid) (mc : Nat) (j : Nat) :
    ∃ i, v j ≤ i ∧ i ≤ v ((single (balanceQ w mc)).run true vs v j).2 ∧
      ((single (balanceQ w mc)).run true vs v j).1 = walletBalance (vs i) w mc ∧ HeightsOk (vs i) w := by
  obtain ⟨i, h1, h2, h3⟩ := balance_snapshot vs v hv w mc j
  exact ⟨i, h1, h2, h3, versions_heightsOk e G w0 evs H h0 hv0 hq0 hwf0 vs pre hvs hb i w⟩

/-- non-vacuity: the hypotheses hold on the worked history of C01 (with a reorganisation) and its fresh store -/
example : RunHyp hxEnv hxG hxW0 hxEvs := hxRunHyp
example : KeysNodup hxW0.s.unspent := by unfold KeysNodup; decide
example : (runW hxEnv hxW0 hxEvs).s.syncedTo < 2^31 := by decide
example (w : Wid) : HeightsOk (runW hxEnv hxW0 hxEvs).s w :=
  heightsOk_reached hxEnv hxG hxW0 hxEvs hxRunHyp
    ((inv_ctx_irrel (c := obCtx) (c' := hxEnv.ctx [hxG]) rfl rfl rfl).1 obInv0) rfl rfl
    (by unfold KeysNodup; decide) (by decide) w
/-- … and the bridge has content: the reached store lists coins -/
example : (coinsOf (runW hxEnv hxW0 hxEvs).s "w1").length = 2 := by decide

end bridge

/-! #### the unfixed driver: no snapshot -/

/-- witness stores: wallet W1 receives three coinbases (100, 200, 400) at heights 1, 2, 3; coinbase
    maturity 4 (the harness parameter; the recorded maturity of each credit) -/
def wCred (amt : Nat) : Credit := { amt := amt, spent := false, change := false, cls := .standard, maturity := 4, sh := "A1", spentBy := none }
def wS0 : Store :=
  { syncedTo := 1, balance := [("W1", 100)],
    credits := [(⟨"C1", ⟨1, "B1"⟩, 0⟩, wCred 100)],
    unspent := [(("W1", "C1", 0), ⟨1, "B1"⟩)] }
def wS1 : Store :=
  { syncedTo := 2, balance := [("W1", 300)],
    credits := [(⟨"C2", ⟨2, "B2"⟩, 0⟩, wCred 200), (⟨"C1", ⟨1, "B1"⟩, 0⟩, wCred 100)],
    unspent := [(("W1", "C2", 0), ⟨2, "B2"⟩), (("W1", "C1", 0), ⟨1, "B1"⟩)] }
def wS2 : Store :=
  { syncedTo := 3, balance := [("W1", 700)],
    credits := [(⟨"C3", ⟨3, "B3"⟩, 0⟩, wCred 400), (⟨"C2", ⟨2, "B2"⟩, 0⟩, wCred 200), (⟨"C1", ⟨1, "B1"⟩, 0⟩, wCred 100)],
    unspent := [(("W1", "C3", 0), ⟨3, "B3"⟩), (("W1", "C2", 0), ⟨2, "B2"⟩), (("W1", "C1", 0), ⟨1, "B1"⟩)] }
def wVs (i : Nat) : Store := if i = 0 then wS0 else if i = 1 then wS1 else wS2
/-- both commits land after the first read (the tip height) and before the coin scan -/
def wSched (j : Nat) : Nat := if j = 0 then 0 else 2

theorem wSched_mono : Mono wSched := by
  intro a b h
  unfold wSched
  by_cases ha : a = 0 <;> by_cases hb : b = 0 <;> simp [ha, hb] <;> omega

/-- nosnapshot_counterexample: WITHOUT a snapshot there is a two-commit schedule in which the balance
    query reports 400 as spendable although in every version between its start and its end no coin at
    all is mature (spendable 0): the tip height of S₀ is mixed with the coins of S₂ and the unsigned
    confirmation count of the coin at height 3 wraps to 2^64−1. (Concrete witness, by evaluation; the
    same history is corpus/iso/C17-d9-witness.ops and was replayed on the real code.) -/
theorem nosnapshot_counterexample :
    ∃ (vs : Nat → Store) (v : Nat → Nat), Mono v ∧ (∀ j, v j ≤ 2) ∧
      ((single (balanceQ "W1" 1)).run false vs v 0).1 = some ⟨700, 400, 0, 0⟩ ∧
      (∀ i, i ≤ 2 → (walletBalance (vs i) "W1" 1).map (·.spendable) = some 0) ∧
      (∀ i, i ≤ 2 → HeightsOk (vs i) "W1") := by
  refine ⟨wVs, wSched, wSched_mono, ?_, by decide, ?_, ?_⟩
  · intro j; unfold wSched; split <;> omega
  · intro i hi
    have : i = 0 ∨ i = 1 ∨ i = 2 := by omega
    rcases this with rfl | rfl | rfl <;> decide
  · intro i hi
    have : i = 0 ∨ i = 1 ∨ i = 2 := by omega
    rcases this with rfl | rfl | rfl <;> (constructor; decide; decide)

/-- the same schedule under snapshot semantics answers as of S₀ -/
example : ((single (balanceQ "W1" 1)).run true wVs wSched 0).1 = walletBalance wS0 "W1" 1 := rfl
example : walletBalance wS0 "W1" 1 = some ⟨100, 0, 0, 0⟩ := by decide

/-- the driver this tree was built from serves read transactions from a snapshot (regenerated fact) -/
theorem driver_takes_snapshot : MW.Gen.Iso.readTxSnapshot = true := by decide

/-- every query reads the tip height and scans the coins inside ONE read transaction (regenerated fact),
    so `single` is the right shape for them -/
theorem queries_single_view : MW.Gen.Iso.queryViews.all (fun r => r.2.1 == 1 && r.2.2) = true := by decide

theorem confs_shape : MW.Gen.Iso.confsUnsigned = true := by decide

-- non-vacuity of the hypotheses used above
example : Mono (fun j => j / 3) := fun _ _ h => Nat.div_le_div_right h
example : HeightsOk wS2 "W1" := by constructor <;> decide
example : NodupKeys wS2.unspent := by unfold NodupKeys; decide
example : ∀ l : List Listed, ((fun (l : List Listed) => l.take 2) l).Sublist l := fun l => List.take_sublist 2 l
example : countedSpendable 1 6 ⟨"W1", "C1", 0, ⟨1, "B1"⟩, wCred 100⟩ = true := by decide

/-! ### (b) race freedom — PARTIAL by nature

  A theorem about the access table the extractor regenerates from the source (field, site, read/write,
  lexically held mutexes incl. those every caller holds, goroutine roles, suspend/resume window), judged in
  the role model of MW.Model.Locks. The Go memory model, aliasing between instances of the same type and
  accesses the extractor cannot see syntactically are outside it; the race-detector runs of the `race`
  engine search for what the table misses. -/
section locks
open MW.Model.Locks

set_option maxRecDepth 100000 in
/-- lockset_safe: every two conflicting accesses of the generated table that can run concurrently share a
    mutex (held exclusively on at least one side) or are ordered by the hand-shake / goroutine creation. -/
theorem lockset_table_ok : tableOk MW.Gen.Locks.table = true := by decide

theorem lockset_safe (a b : Access) (ha : a ∈ MW.Gen.Locks.table) (hb : b ∈ MW.Gen.Locks.table)
    (hc : conflicting a b = true) :
    commonLock a b = true ∨ ∀ ra ∈ a.roles, ∀ rb ∈ b.roles, unordered a b ra rb = false :=
  MW.Lemmas.Locks.tableOk_sound _ lockset_table_ok a b ha hb hc

/-- lock_balance: in every function and function literal of masswallet, keystore, txmgr, db/ldb and api (regenerated by a
    path-sensitive walk over the statement tree: branches followed separately, loop bodies must leave the lock state as
    they found it) every mutex that is locked is released on EVERY path out of the function – by a deferred unlock or
    by an explicit unlock before each return – with exactly one deliberate hand-over: `BeginTx` returns holding the
    writer mutex `muTr`, which `Commit` / `Rollback` release (C11's single-writer rule). A lock left held on an early
    return (seed C19-3: filterTx kept memMtx, the follower blocked for ever) makes this list longer. -/
theorem lock_balance : MW.Gen.LockBal.leaks = ["ldb.LevelDB.BeginTx:l.muTr:return"] := by decide
/-- … and the walk saw the code: at least 50 `Lock()` / `RLock()` sites in at least 40 functions -/
theorem lock_balance_nonvacuous : MW.Gen.LockBal.lockSites ≥ 50 ∧ MW.Gen.LockBal.funcsWithLocks ≥ 40 := by decide

/-- the hand-shake question of the task: `h.bestBlock` is read and `h.expiredMempool` is written by the
    worker (asyncImport) without memMtx – every such access lies inside a suspend()…resume() window, so the
    only other goroutine touching those fields (the follower, under memMtx) is ordered with it. -/
theorem worker_unlocked_accesses_in_window :
    (MW.Gen.Locks.table.filter (fun a =>
        (a.field = "NtfnsHandler.bestBlock" || a.field = "NtfnsHandler.expiredMempool") &&
        a.roles.contains .worker && a.locks.isEmpty && a.fn = "NtfnsHandler.asyncImport")).all (·.window) = true ∧
    (MW.Gen.Locks.table.filter (fun a =>
        (a.field = "NtfnsHandler.bestBlock" || a.field = "NtfnsHandler.expiredMempool") &&
        a.roles.contains .api)).isEmpty = true := by decide

/-- the task queue pointer is written during initialisation only (D10) -/
theorem taskChan_written_in_init_only :
    (MW.Gen.Locks.table.filter (fun a => a.field = "NtfnsHandler.taskChan" && a.write)).all
      (fun a => a.roles == [.init]) = true := by decide

-- non-vacuity: the table has conflicting concurrent pairs that the check must (and does) justify
example : (MW.Gen.Locks.table.filter (fun a => a.write)).length > 10 := by decide
example : ∃ a ∈ MW.Gen.Locks.table, ∃ b ∈ MW.Gen.Locks.table, conflicting a b = true ∧ commonLock a b = true := by decide
/-- the check is not vacuous: an unlocked write next to a locked read is rejected -/
example : tableOk [⟨"F", "x.go:1", "f", true, [], [.worker], false⟩, ⟨"F", "x.go:2", "g", false, [("M", true)], [.api], false⟩] = false := by decide
/-- … and accepted when the worker's access is in the window and the other side is the follower -/
example : tableOk [⟨"F", "x.go:1", "f", true, [], [.worker], true⟩, ⟨"F", "x.go:2", "g", false, [("M", true)], [.follower], false⟩] = true := by decide
end locks

end MW.Props.C17
