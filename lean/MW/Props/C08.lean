/-
  C08 — Removing a wallet erases it completely and leaves every other wallet intact.   PROPERTY THEOREMS.
  Model: MW.Model.Remove (asyncRemove as repaired: every step is one transaction running RemoveRelevantTx; the
  finishing step also deletes the id-keyed records, the status and the keystore), on MW.Model.Ledger.Store.
  Helper lemmas: MW.Lemmas.RemoveScan, MW.Lemmas.RemoveStep.  Key layouts: MW.Gen.Layout (regenerated).
-/
import MW.Model.Remove
import MW.Gen.Layout
import MW.Lemmas.RemoveStep
import MW.Lemmas.RemoveFrame
namespace MW.Props.C08
open MW MW.Model.Ledger MW.Model.Remove MW.Lemmas.RemoveScan MW.Lemmas.RemoveStep MW.Lemmas.RemoveFrame

-- ------------------------------------------------------------------ remove_erases

/-- No bucket of `s` has an entry whose key or value mentions wallet `w` or one of its script hashes.
    The record types of the other buckets (tx records, block records, debits, sync table, unmined inputs) have no
    wallet-id or script-hash component at all (MW.Gen.Layout: keyTxRecord, keyBlockRecord, keyDebit/putDebit,
    canonicalOutPoint); serialized pending transactions are dealt with in `remove_pending_kept`. -/
structure Clean (s : Store) (w : Wid) (addrs : List Addr) : Prop where
  unspent : ∀ e ∈ s.unspent, e.1.1 ≠ w
  addrRecs : ∀ e ∈ s.addrs, e.1.1 ≠ w
  game : ∀ e ∈ s.game, e.1.wallet ≠ w
  pendGame : ∀ e ∈ s.pendGame, e.1.1 ≠ w
  balance : ∀ e ∈ s.balance, e.1 ≠ w
  status : ∀ e ∈ s.status, e.1 ≠ w
  credits : ∀ e ∈ s.credits, addrs.contains e.2.sh = false
  pendCred : ∀ e ∈ s.pendCred, addrs.contains e.2.sh = false

/-- **remove_erases.** For every store, wallet, address set and step size: after the removal step that reports
    `finish`, nothing keyed by the wallet id and no credit (mined or unmined) paying one of its script hashes is
    left.  (`addrs ≠ []`: a keystore always manages at least one address; with none, RemoveRelevantTx returns at
    once and only the id-keyed part of the statement applies.) -/
theorem remove_erases (limit : Nat) (c : Ctx) (w : Wid) (addrs : List Addr) (s : Store) (o : StepOut)
    (hne : addrs ≠ []) (h : removeStep limit c w addrs s = some o) (hf : o.finish = true) : Clean o.s w addrs := by
  unfold removeStep at h
  cases hr : removeRelevantTx limit c s addrs with
  | none => simp [hr] at h
  | some o1 =>
    simp only [hr] at h
    have spec := removeRelevantTx_spec limit c s addrs o1 hne hr
    by_cases hfin : o1.finish = true
    · simp only [hfin, if_true, Option.some.injEq] at h
      subst h
      obtain ⟨s1, _, hcd, hfe, hnf⟩ := spec.credits
      have hclean := removeRelevantCredit_clean limit s1 addrs (by rw [← hfe]; exact hfin) hnf
      have hcred : o1.s.credits = (removeRelevantCredit limit s1 addrs).s.credits := congrArg Prod.fst hcd
      refine ⟨?_, ?_, ?_, ?_, ?_, ?_, ?_, ?_⟩
      · intro e he
        have : e ∈ o1.s.unspent.filter (fun e => e.1.1 != w) := he
        simpa using (List.mem_filter.1 this).2
      · intro e he
        have : e ∈ o1.s.addrs.filter (fun e => e.1.1 != w) := he
        simpa using (List.mem_filter.1 this).2
      · intro e he
        have : e ∈ o1.s.game.filter (fun e => e.1.wallet != w) := he
        simpa using (List.mem_filter.1 this).2
      · intro e he
        have : e ∈ o1.s.pendGame.filter (fun e => e.1.1 != w) := he
        simpa using (List.mem_filter.1 this).2
      · intro e he
        exact ((mem_erase _ _ _).1 he).2
      · intro e he
        exact ((mem_erase _ _ _).1 he).2
      · intro e he
        have : e ∈ o1.s.credits := he
        rw [hcred] at this
        exact hclean e this
      · intro e he
        have : e ∈ o1.s.pendCred := he
        rw [spec.pendCred] at this
        simpa using (List.mem_filter.1 this).2
    · simp only [hfin, Bool.false_eq_true, if_false, Option.some.injEq] at h
      subst h
      exact absurd hf hfin


-- ------------------------------------------------------------------ remove_frames

/-- What one removal step (finishing or not) leaves untouched: every record that is not keyed by the removed
    wallet id and does not pay one of its script hashes, the debits of other wallets' credits, and the
    transaction / block records of every transaction another wallet needs. -/
structure Frames (c : Ctx) (s s' : Store) (w : Wid) (addrs : List Addr) : Prop where
  unspent : ∀ e, e.1.1 ≠ w → (e ∈ s'.unspent ↔ e ∈ s.unspent)
  addrRecs : ∀ e, e.1.1 ≠ w → (e ∈ s'.addrs ↔ e ∈ s.addrs)
  game : ∀ e, e.1.wallet ≠ w → (e ∈ s'.game ↔ e ∈ s.game)
  pendGame : ∀ e, e.1.1 ≠ w → (e ∈ s'.pendGame ↔ e ∈ s.pendGame)
  balance : ∀ e, e.1 ≠ w → (e ∈ s'.balance ↔ e ∈ s.balance)
  status : ∀ e, e.1 ≠ w → (e ∈ s'.status ↔ e ∈ s.status)
  sync : s'.sync = s.sync ∧ s'.syncedTo = s.syncedTo
  credits : ∀ e, addrs.contains e.2.sh = false → (e ∈ s'.credits ↔ e ∈ s.credits)
  pendCred : ∀ e, addrs.contains e.2.sh = false → (e ∈ s'.pendCred ↔ e ∈ s.pendCred)
  /-- the debit of a credit that exists and pays another script hash is kept -/
  debits : ∀ x ∈ s.debits, ∀ cr ∈ s.credits, cr.1 = x.2.2 → addrs.contains cr.2.sh = false → x ∈ s'.debits
  /-- the tx record of a transaction that is not removable (see `needed_not_removable`) is kept … -/
  txrecs : ∀ x ∈ s.txrecs, (∀ tx, c.node.txByFileLoc x.2 = some tx → removable c.own s addrs tx = false) → x ∈ s'.txrecs
  /-- … and so is its entry in the block record, which is what Rollback walks -/
  blocks : ∀ h bh txs t, AMap.get s.blocks h = some (bh, txs) → t ∈ txs →
    (∀ x ∈ s.txrecs, x.1.1 = t → x.1.2.height = h →
      ∀ tx, c.node.txByFileLoc x.2 = some tx → removable c.own s addrs tx = false) →
    ∃ txs', AMap.get s'.blocks h = some (bh, txs') ∧ t ∈ txs'

/-- A transaction is NOT removable as soon as one output pays an address another keystore manages, or one input
    spends an output recorded as a credit (mined or unmined) of another script hash — the spender side is what
    the repair of defect D11 added. -/
theorem needed_not_removable (own : Own) (s : Store) (addrs : List Addr) (tx : Tx)
    (h : (∃ o ∈ tx.outs, o.cls ≠ .raw ∧ addrs.contains o.addr = false ∧ (AMap.get own o.addr).isSome = true) ∨
         (tx.cb = false ∧ ∃ i ∈ tx.ins,
            (∃ e ∈ s.credits, e.1.tx = i.tx ∧ e.1.idx = i.idx ∧ addrs.contains e.2.sh = false) ∨
            (∃ cr, AMap.get s.pendCred (i.tx, i.idx) = some cr ∧ addrs.contains cr.sh = false))) :
    removable own s addrs tx = false := by
  unfold removable spendsCreditOfOtherWallet
  simp only [Bool.and_eq_false_iff, Bool.not_eq_false', List.any_eq_true, Bool.and_eq_true, bne_iff_ne, ne_eq,
    Bool.not_eq_true', Bool.or_eq_true, decide_eq_true_eq]
  rcases h with ⟨o, ho, hraw, hna, hown⟩ | ⟨hcb, i, hi, hor⟩
  · exact Or.inl ⟨o, ho, ⟨hraw, hna⟩, hown⟩
  · refine Or.inr ⟨hcb, i, hi, ?_⟩
    rcases hor with ⟨e, he, h1, h2, h3⟩ | ⟨cr, hg, hn⟩
    · exact Or.inl ⟨e, he, ⟨h1, h2⟩, h3⟩
    · right; rw [hg]; simpa using hn

/-- **remove_frames.** For every store whose credits and tx-record buckets are functional (one entry per key)
    and whose spent credits name their own debit, every removal step — finishing or not — leaves all of the
    above untouched: in particular the records Rollback needs to undo ANOTHER wallet's debits and credits of a
    shared transaction survive, so later reorganisations across it still work. -/
theorem remove_frames (limit : Nat) (c : Ctx) (w : Wid) (addrs : List Addr) (s : Store) (o : StepOut)
    (hne : addrs ≠ []) (hfc : Functional s.credits) (hft : Functional s.txrecs) (hback : SpenderBack s)
    (h : removeStep limit c w addrs s = some o) : Frames c s o.s w addrs := by
  unfold removeStep at h
  cases hr : removeRelevantTx limit c s addrs with
  | none => simp [hr] at h
  | some o1 =>
    simp only [hr] at h
    -- first: the frame of RemoveRelevantTx itself (store o1.s)
    obtain ⟨uh, del1, s2, del2, hnf, hmt, ho1⟩ := (removeRelevantTx_pipeline limit c s addrs o1 hne hr).ex
    let s0 := (removeRelevantUnminedCredit s addrs).1
    let s1 := (removeUnminedTxs c.own s0 addrs uh).1
    let sc := removeRelevantCredit limit s1 addrs
    have hs1cd : cd s1 = cd s := by
      show cd (removeUnminedTxs c.own _ addrs uh).1 = _
      rw [unminedTxs_proj cd (fun _ _ => rfl), unminedCredit_cd]
    have hs1c : s1.credits = s.credits := congrArg Prod.fst hs1cd
    have hs1d : s1.debits = s.debits := congrArg Prod.snd hs1cd
    have hs1recs : recs s1 = recs s := by
      show recs (removeUnminedTxs c.own _ addrs uh).1 = _
      rw [unminedTxs_proj recs (fun _ _ => rfl), unminedCredit_recs]
    have hs1pc : s1.pendCred = s.pendCred.filter (fun e => !addrs.contains e.2.sh) := by
      show (removeUnminedTxs c.own _ addrs uh).1.pendCred = _
      rw [unminedTxs_proj Store.pendCred (fun _ _ => rfl), unminedCredit_pendCred]
    have hscrecs : recs sc.s = recs s := (scan_recs_pending limit s1 addrs).1.trans hs1recs
    have ho1s : o1.s = checkBlockRecords s2 del2 := by rw [ho1]
    have hcd2 : cd s2 = cd sc.s := minedTxs_proj cd (fun _ _ => rfl) c _ addrs _ (s2, del2) hmt
    have ho1cd : cd o1.s = cd sc.s := by rw [ho1s, blockRecords_proj cd (fun _ _ => rfl)]; exact hcd2
    have ho1c : o1.s.credits = sc.s.credits := congrArg Prod.fst ho1cd
    have ho1d : o1.s.debits = sc.s.debits := congrArg Prod.snd ho1cd
    have hspec := removeRelevantTx_spec limit c s addrs o1 hne hr
    have hfc1 : Functional s1.credits := by rw [hs1c]; exact hfc
    have hback1 : SpenderBack s1 := by
      intro e he dk hdk x hx hxk
      rw [hs1c] at he; rw [hs1d] at hx
      exact hback e he dk hdk x hx hxk
    -- credits of other script hashes
    have hcred : ∀ e, addrs.contains e.2.sh = false → (e ∈ o1.s.credits ↔ e ∈ s.credits) := by
      intro e hn
      rw [ho1c]
      constructor
      · intro he; rw [← hs1c]; exact scan_credits_sub limit addrs s1.credits { s := s1 } e he
      · intro he; exact removeRelevantCredit_keeps_credit limit s1 addrs hfc1 e (by rw [hs1c]; exact he) hn
    have hpend : ∀ e, addrs.contains e.2.sh = false → (e ∈ o1.s.pendCred ↔ e ∈ s.pendCred) := by
      intro e hn
      rw [hspec.pendCred, List.mem_filter]
      constructor
      · exact fun h => h.1
      · exact fun h => ⟨h, by rw [hn]; rfl⟩
    have hdeb : ∀ x ∈ s.debits, ∀ cr ∈ s.credits, cr.1 = x.2.2 → addrs.contains cr.2.sh = false → x ∈ o1.s.debits := by
      intro x hx cr hcr hk hn
      rw [ho1d]
      exact removeRelevantCredit_keeps_debit limit s1 addrs hfc1 hback1 x (by rw [hs1d]; exact hx) cr
        (by rw [hs1c]; exact hcr) hk hn
    -- removable is judged on sc.s; it is stable from s
    have hmono : ∀ tx, removable c.own s addrs tx = false → removable c.own sc.s addrs tx = false := by
      intro tx hrm
      refine removable_mono c.own s sc.s addrs tx ?_ ?_ hrm
      · intro x hx hn
        exact removeRelevantCredit_keeps_credit limit s1 addrs hfc1 x (by rw [hs1c]; exact hx) hn
      · intro k v hg hn
        rw [scan_pendCred, hs1pc]
        exact get_filter_of_get _ _ k v hg (by show (!addrs.contains v.sh) = true; rw [hn]; rfl)
    have hsctx : sc.s.txrecs = s.txrecs := congrArg Prod.fst hscrecs
    have hscbl : sc.s.blocks = s.blocks := congrArg Prod.snd hscrecs
    have htx : ∀ x ∈ s.txrecs, (∀ tx, c.node.txByFileLoc x.2 = some tx → removable c.own s addrs tx = false) →
        x ∈ o1.s.txrecs := by
      intro x hx hneed
      rw [ho1s, blockRecords_proj Store.txrecs (fun _ _ => rfl)]
      exact minedTxs_kept c sc.s addrs sc.heightOf (s2, del2) hmt (by rw [hsctx]; exact hft) x (by rw [hsctx]; exact hx)
        (fun tx htx => hmono tx (hneed tx htx))
    have hblk : ∀ h bh txs t, AMap.get s.blocks h = some (bh, txs) → t ∈ txs →
        (∀ x ∈ s.txrecs, x.1.1 = t → x.1.2.height = h →
          ∀ tx, c.node.txByFileLoc x.2 = some tx → removable c.own s addrs tx = false) →
        ∃ txs', AMap.get o1.s.blocks h = some (bh, txs') ∧ t ∈ txs' := by
      intro h bh txs t hg ht hneed
      rw [ho1s]
      have hb2 : s2.blocks = s.blocks := by
        rw [minedTxs_proj Store.blocks (fun _ _ => rfl) c _ addrs _ (s2, del2) hmt]; exact hscbl
      refine blockRecords_kept s2 del2 h bh txs t (by rw [hb2]; exact hg) ht ?_
      intro hin
      obtain ⟨rec, tx, hrm, hid, hh, hloc, hrem⟩ := minedTxs_reported c sc.s addrs sc.heightOf (s2, del2) hmt (h, t) hin
      rw [hsctx] at hrm
      have := hmono tx (hneed rec hrm hid hh tx hloc)
      rw [this] at hrem; cases hrem
    have hcore := hspec.ids
    simp only [core, Prod.mk.injEq] at hcore
    obtain ⟨hu, ha, hg, hpg, hb, hst, hsy, hsyt⟩ := hcore
    by_cases hfin : o1.finish = true
    · simp only [hfin, if_true, Option.some.injEq] at h
      subst h
      refine ⟨?_, ?_, ?_, ?_, ?_, ?_, ⟨hsy, hsyt⟩, hcred, hpend, hdeb, htx, hblk⟩
      · intro e hn
        show e ∈ o1.s.unspent.filter (fun e => e.1.1 != w) ↔ _
        rw [List.mem_filter, hu]; simp [hn]
      · intro e hn
        show e ∈ o1.s.addrs.filter (fun e => e.1.1 != w) ↔ _
        rw [List.mem_filter, ha]; simp [hn]
      · intro e hn
        show e ∈ o1.s.game.filter (fun e => e.1.wallet != w) ↔ _
        rw [List.mem_filter, hg]; simp [hn]
      · intro e hn
        show e ∈ o1.s.pendGame.filter (fun e => e.1.1 != w) ↔ _
        rw [List.mem_filter, hpg]; simp [hn]
      · intro e hn
        show e ∈ AMap.erase o1.s.balance w ↔ _
        rw [mem_erase, hb]; simp [hn]
      · intro e hn
        show e ∈ AMap.erase o1.s.status w ↔ _
        rw [mem_erase, hst]; simp [hn]
    · simp only [hfin, Bool.false_eq_true, if_false, Option.some.injEq] at h
      subst h
      exact ⟨fun e _ => by rw [hu], fun e _ => by rw [ha], fun e _ => by rw [hg], fun e _ => by rw [hpg],
        fun e _ => by rw [hb], fun e _ => by rw [hst], ⟨hsy, hsyt⟩, hcred, hpend, hdeb, htx, hblk⟩

end MW.Props.C08
