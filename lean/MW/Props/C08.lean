/-
  C08 — Removing a wallet erases it completely and leaves every other wallet intact.   PROPERTY THEOREMS.
  Model: MW.Model.Remove (asyncRemove as repaired: every step is one transaction running RemoveRelevantTx; the
  finishing step also deletes the id-keyed records, the status and the keystore), on MW.Model.Ledger.Store.
  Helper lemmas: MW.Lemmas.RemoveScan, MW.Lemmas.RemoveStep.  Key layouts: MW.Gen.Layout (regenerated).
-/
import MW.Model.Remove
import MW.Gen.Layout
import MW.Gen.Handler
import MW.Lemmas.RemoveStep
import MW.Lemmas.RemoveFrame
import MW.Lemmas.RemoveProgress
import MW.Lemmas.Layout
import MW.Model.Import
import MW.Lemmas.RemoveMain
import MW.Lemmas.RemoveHistory
import MW.Lemmas.RemoveEx
import MW.Lemmas.TxmgrCodecRec
import MW.Lemmas.RemoveReach2
import MW.Lemmas.RemoveMidCex
import MW.Lemmas.RemoveKeep
import MW.Lemmas.RemoveInterleave2Ex
import MW.Lemmas.RemoveInterleave3Ex
import MW.Lemmas.RemoveInterleave4Ex
import MW.Lemmas.RemoveInterleave5Ex
import MW.Lemmas.RemoveInterleave6Ex
import MW.Lemmas.RemoveJoinEx
import MW.Lemmas.RemoveFlaggedEx
import MW.Lemmas.RemoveSimEx
import MW.Lemmas.RemoveSimWEx
import MW.Lemmas.RemoveSimWConn
import MW.Lemmas.RemoveSimWFrame
import MW.Lemmas.RemoveUpperW
import MW.Lemmas.RemoveBelowEx
namespace MW.Props.C08
open MW MW.Model.Ledger MW.Model.Remove MW.Lemmas.RemoveScan MW.Lemmas.RemoveStep MW.Lemmas.RemoveFrame
  MW.Lemmas.RemoveProgress
open MW.Lemmas.RemoveMain (run RunRes)

-- ------------------------------------------------------------------ remove_erases

/-- No bucket of `s` has an entry whose key or value mentions wallet `w` or one of its script hashes.
    The record types of the other buckets (tx records, block records, debits, sync table, unmined inputs) have no
    wallet-id or script-hash component at all (MW.Gen.Layout: keyTxRecord, keyBlockRecord, keyDebit/putDebit,
    canonicalOutPoint); serialized pending transactions are dealt with in `remove_pending_kept`. -/
structure Clean (s : Store) (w : Wid) (addrs : List Addr) : Prop where
  unspent : ∀ e ∈ s.unspent, e.1.1 ≠ w
  addrRecs : ∀ e ∈ s.addrs, e.1.1 ≠ w
  game : ∀ e ∈ s.game, e.1.wallet ≠ w
  pendGame : ∀ e ∈ s.pendGame, e.1.1 ≠ w
  balance : ∀ e ∈ s.balance, e.1 ≠ w
  status : ∀ e ∈ s.status, e.1 ≠ w
  credits : ∀ e ∈ s.credits, addrs.contains e.2.sh = false
  pendCred : ∀ e ∈ s.pendCred, addrs.contains e.2.sh = false

/-- **remove_erases.** For every store, wallet, address set and step size: after the removal step that reports
    `finish`, nothing keyed by the wallet id and no credit (mined or unmined) paying one of its script hashes is
    left.  (`addrs ≠ []`: a keystore always manages at least one address; with none, RemoveRelevantTx returns at
    once and only the id-keyed part of the statement applies.) -/
theorem remove_erases (limit : Nat) (c : Ctx) (w : Wid) (addrs : List Addr) (s : Store) (o : StepOut)
    (hne : addrs ≠ []) (h : removeStep limit c w addrs s = some o) (hf : o.finish = true) : Clean o.s w addrs := by
  unfold removeStep at h
  cases hr : removeRelevantTx limit c s addrs with
  | none => simp [hr] at h
  | some o1 =>
    simp only [hr] at h
    have spec := removeRelevantTx_spec limit c s addrs o1 hne hr
    by_cases hfin : o1.finish = true
    · simp only [hfin, if_true, Option.some.injEq] at h
      subst h
      obtain ⟨s1, _, hcd, hfe, hnf⟩ := spec.credits
      have hclean := removeRelevantCredit_clean limit s1 addrs (by rw [← hfe]; exact hfin) hnf
      have hcred : o1.s.credits = (removeRelevantCredit limit s1 addrs).s.credits := congrArg Prod.fst hcd
      refine ⟨?_, ?_, ?_, ?_, ?_, ?_, ?_, ?_⟩
      · intro e he
        have : e ∈ o1.s.unspent.filter (fun e => e.1.1 != w) := he
        simpa using (List.mem_filter.1 this).2
      · intro e he
        have : e ∈ o1.s.addrs.filter (fun e => e.1.1 != w) := he
        simpa using (List.mem_filter.1 this).2
      · intro e he
        have : e ∈ o1.s.game.filter (fun e => e.1.wallet != w) := he
        simpa using (List.mem_filter.1 this).2
      · intro e he
        have : e ∈ o1.s.pendGame.filter (fun e => e.1.1 != w) := he
        simpa using (List.mem_filter.1 this).2
      · intro e he
        exact ((mem_erase _ _ _).1 he).2
      · intro e he
        exact ((mem_erase _ _ _).1 he).2
      · intro e he
        have : e ∈ o1.s.credits := he
        rw [hcred] at this
        exact hclean e this
      · intro e he
        have : e ∈ o1.s.pendCred := he
        rw [spec.pendCred] at this
        simpa using (List.mem_filter.1 this).2
    · simp only [hfin, Bool.false_eq_true, if_false, Option.some.injEq] at h
      subst h
      exact absurd hf hfin


-- ------------------------------------------------------------------ remove_frames

/-- What one removal step (finishing or not) leaves untouched: every record that is not keyed by the removed
    wallet id and does not pay one of its script hashes, the debits of other wallets' credits, and the
    transaction / block records of every transaction another wallet needs. -/
structure Frames (c : Ctx) (s s' : Store) (w : Wid) (addrs : List Addr) : Prop where
  unspent : ∀ e, e.1.1 ≠ w → (e ∈ s'.unspent ↔ e ∈ s.unspent)
  addrRecs : ∀ e, e.1.1 ≠ w → (e ∈ s'.addrs ↔ e ∈ s.addrs)
  game : ∀ e, e.1.wallet ≠ w → (e ∈ s'.game ↔ e ∈ s.game)
  pendGame : ∀ e, e.1.1 ≠ w → (e ∈ s'.pendGame ↔ e ∈ s.pendGame)
  balance : ∀ e, e.1 ≠ w → (e ∈ s'.balance ↔ e ∈ s.balance)
  status : ∀ e, e.1 ≠ w → (e ∈ s'.status ↔ e ∈ s.status)
  sync : s'.sync = s.sync ∧ s'.syncedTo = s.syncedTo
  credits : ∀ e, addrs.contains e.2.sh = false → (e ∈ s'.credits ↔ e ∈ s.credits)
  pendCred : ∀ e, addrs.contains e.2.sh = false → (e ∈ s'.pendCred ↔ e ∈ s.pendCred)
  /-- the debit of a credit that exists and pays another script hash is kept -/
  debits : ∀ x ∈ s.debits, ∀ cr ∈ s.credits, cr.1 = x.2.2 → addrs.contains cr.2.sh = false → x ∈ s'.debits
  /-- the tx record of a transaction that is not removable (see `needed_not_removable`) is kept … -/
  txrecs : ∀ x ∈ s.txrecs, (∀ tx, c.node.txByFileLoc x.2 = some tx → removable c.own s addrs tx = false) → x ∈ s'.txrecs
  /-- … and so is its entry in the block record, which is what Rollback walks -/
  blocks : ∀ h bh txs t, AMap.get s.blocks h = some (bh, txs) → t ∈ txs →
    (∀ x ∈ s.txrecs, x.1.1 = t → x.1.2.height = h →
      ∀ tx, c.node.txByFileLoc x.2 = some tx → removable c.own s addrs tx = false) →
    ∃ txs', AMap.get s'.blocks h = some (bh, txs') ∧ t ∈ txs'

/-- A transaction is NOT removable as soon as one output pays an address another keystore manages, or one input
    spends an output recorded as a credit (mined or unmined) of another script hash — the spender side is what
    the repair of defect D11 added. -/
theorem needed_not_removable (own : Own) (s : Store) (addrs : List Addr) (tx : Tx)
    (h : (∃ o ∈ tx.outs, o.cls ≠ .raw ∧ addrs.contains o.addr = false ∧ (AMap.get own o.addr).isSome = true) ∨
         (tx.cb = false ∧ ∃ i ∈ tx.ins,
            (∃ e ∈ s.credits, e.1.tx = i.tx ∧ e.1.idx = i.idx ∧ addrs.contains e.2.sh = false) ∨
            (∃ cr, AMap.get s.pendCred (i.tx, i.idx) = some cr ∧ addrs.contains cr.sh = false))) :
    removable own s addrs tx = false := by
  unfold removable spendsCreditOfOtherWallet
  simp only [Bool.and_eq_false_iff, Bool.not_eq_false', List.any_eq_true, Bool.and_eq_true, bne_iff_ne, ne_eq,
    Bool.not_eq_true', Bool.or_eq_true, decide_eq_true_eq]
  rcases h with ⟨o, ho, hraw, hna, hown⟩ | ⟨hcb, i, hi, hor⟩
  · exact Or.inl ⟨o, ho, ⟨hraw, hna⟩, hown⟩
  · refine Or.inr ⟨hcb, i, hi, ?_⟩
    rcases hor with ⟨e, he, h1, h2, h3⟩ | ⟨cr, hg, hn⟩
    · exact Or.inl ⟨e, he, ⟨h1, h2⟩, h3⟩
    · right; rw [hg]; simpa using hn

/-- **remove_frames.** For every store whose credits and tx-record buckets are functional (one entry per key)
    and whose spent credits name their own debit, every removal step — finishing or not — leaves all of the
    above untouched: in particular the records Rollback needs to undo ANOTHER wallet's debits and credits of a
    shared transaction survive, so later reorganisations across it still work. -/
theorem remove_frames (limit : Nat) (c : Ctx) (w : Wid) (addrs : List Addr) (s : Store) (o : StepOut)
    (hne : addrs ≠ []) (hfc : Functional s.credits) (hft : Functional s.txrecs) (hback : SpenderBack s)
    (h : removeStep limit c w addrs s = some o) : Frames c s o.s w addrs := by
  unfold removeStep at h
  cases hr : removeRelevantTx limit c s addrs with
  | none => simp [hr] at h
  | some o1 =>
    simp only [hr] at h
    -- first: the frame of RemoveRelevantTx itself (store o1.s)
    obtain ⟨uh, del1, del3, s2, del2, hnf, hmt, ho1⟩ := (removeRelevantTx_pipeline limit c s addrs o1 hne hr).ex
    let s0 := (removeRelevantUnminedCredit s addrs).1
    let s1 := (removeUnminedTxs c.own s0 addrs uh).1
    let sc := removeRelevantCredit limit s1 addrs
    let s1' := (removeUnminedTxs c.own sc.s addrs sc.spenders).1
    have hs1'cd : cd s1' = cd sc.s := unminedTxs_proj cd (fun _ _ => rfl) (fun _ _ => rfl) c.own sc.s addrs sc.spenders
    have hs1'pc : s1'.pendCred = sc.s.pendCred := unminedTxs_proj Store.pendCred (fun _ _ => rfl) (fun _ _ => rfl) c.own sc.s addrs sc.spenders
    have hs1'recs : recs s1' = recs sc.s := unminedTxs_proj recs (fun _ _ => rfl) (fun _ _ => rfl) c.own sc.s addrs sc.spenders
    have hs1cd : cd s1 = cd s := by
      show cd (removeUnminedTxs c.own _ addrs uh).1 = _
      rw [unminedTxs_proj cd (fun _ _ => rfl) (fun _ _ => rfl), unminedCredit_cd]
    have hs1c : s1.credits = s.credits := congrArg Prod.fst hs1cd
    have hs1d : s1.debits = s.debits := congrArg Prod.snd hs1cd
    have hs1recs : recs s1 = recs s := by
      show recs (removeUnminedTxs c.own _ addrs uh).1 = _
      rw [unminedTxs_proj recs (fun _ _ => rfl) (fun _ _ => rfl), unminedCredit_recs]
    have hs1pc : s1.pendCred = s.pendCred.filter (fun e => !addrs.contains e.2.sh) := by
      show (removeUnminedTxs c.own _ addrs uh).1.pendCred = _
      rw [unminedTxs_proj Store.pendCred (fun _ _ => rfl) (fun _ _ => rfl), unminedCredit_pendCred]
    have hscrecs : recs sc.s = recs s := (scan_recs_pending limit s1 addrs).1.trans hs1recs
    have ho1s : o1.s = checkBlockRecords s2 del2 := by rw [ho1]
    have hcd2 : cd s2 = cd sc.s := (minedTxs_proj cd (fun _ _ => rfl) c _ addrs _ (s2, del2) hmt).trans hs1'cd
    have ho1cd : cd o1.s = cd sc.s := by rw [ho1s, blockRecords_proj cd (fun _ _ => rfl)]; exact hcd2
    have ho1c : o1.s.credits = sc.s.credits := congrArg Prod.fst ho1cd
    have ho1d : o1.s.debits = sc.s.debits := congrArg Prod.snd ho1cd
    have hspec := removeRelevantTx_spec limit c s addrs o1 hne hr
    have hfc1 : Functional s1.credits := by rw [hs1c]; exact hfc
    have hback1 : SpenderBack s1 := by
      intro e he dk hdk x hx hxk
      rw [hs1c] at he; rw [hs1d] at hx
      exact hback e he dk hdk x hx hxk
    -- credits of other script hashes
    have hcred : ∀ e, addrs.contains e.2.sh = false → (e ∈ o1.s.credits ↔ e ∈ s.credits) := by
      intro e hn
      rw [ho1c]
      constructor
      · intro he; rw [← hs1c]; exact scan_credits_sub limit addrs s1.credits { s := s1 } e he
      · intro he; exact removeRelevantCredit_keeps_credit limit s1 addrs hfc1 e (by rw [hs1c]; exact he) hn
    have hpend : ∀ e, addrs.contains e.2.sh = false → (e ∈ o1.s.pendCred ↔ e ∈ s.pendCred) := by
      intro e hn
      rw [hspec.pendCred, List.mem_filter]
      constructor
      · exact fun h => h.1
      · exact fun h => ⟨h, by rw [hn]; rfl⟩
    have hdeb : ∀ x ∈ s.debits, ∀ cr ∈ s.credits, cr.1 = x.2.2 → addrs.contains cr.2.sh = false → x ∈ o1.s.debits := by
      intro x hx cr hcr hk hn
      rw [ho1d]
      exact removeRelevantCredit_keeps_debit limit s1 addrs hfc1 hback1 x (by rw [hs1d]; exact hx) cr
        (by rw [hs1c]; exact hcr) hk hn
    -- removable is judged on the store the tx-record loop starts from (s1'); it is stable from s
    have hmono : ∀ tx, removable c.own s addrs tx = false → removable c.own s1' addrs tx = false := by
      intro tx hrm
      refine removable_mono c.own s s1' addrs tx ?_ ?_ hrm
      · intro x hx hn
        rw [show s1'.credits = sc.s.credits from congrArg Prod.fst hs1'cd]
        exact removeRelevantCredit_keeps_credit limit s1 addrs hfc1 x (by rw [hs1c]; exact hx) hn
      · intro k v hg hn
        rw [hs1'pc, scan_pendCred, hs1pc]
        exact get_filter_of_get _ _ k v hg (by show (!addrs.contains v.sh) = true; rw [hn]; rfl)
    have hsctx : s1'.txrecs = s.txrecs := congrArg Prod.fst (hs1'recs.trans hscrecs)
    have hscbl : s1'.blocks = s.blocks := congrArg Prod.snd (hs1'recs.trans hscrecs)
    have htx : ∀ x ∈ s.txrecs, (∀ tx, c.node.txByFileLoc x.2 = some tx → removable c.own s addrs tx = false) →
        x ∈ o1.s.txrecs := by
      intro x hx hneed
      rw [ho1s, blockRecords_proj Store.txrecs (fun _ _ => rfl)]
      exact minedTxs_kept c s1' addrs sc.heightOf (s2, del2) hmt (by rw [hsctx]; exact hft) x (by rw [hsctx]; exact hx)
        (fun tx htx => hmono tx (hneed tx htx))
    have hblk : ∀ h bh txs t, AMap.get s.blocks h = some (bh, txs) → t ∈ txs →
        (∀ x ∈ s.txrecs, x.1.1 = t → x.1.2.height = h →
          ∀ tx, c.node.txByFileLoc x.2 = some tx → removable c.own s addrs tx = false) →
        ∃ txs', AMap.get o1.s.blocks h = some (bh, txs') ∧ t ∈ txs' := by
      intro h bh txs t hg ht hneed
      rw [ho1s]
      have hb2 : s2.blocks = s.blocks := by
        rw [minedTxs_proj Store.blocks (fun _ _ => rfl) c _ addrs _ (s2, del2) hmt]; exact hscbl
      refine blockRecords_kept s2 del2 h bh txs t (by rw [hb2]; exact hg) ht ?_
      intro hin
      obtain ⟨rec, tx, hrm, hid, hh, hloc, hrem⟩ := minedTxs_reported c s1' addrs sc.heightOf (s2, del2) hmt (h, t) hin
      rw [hsctx] at hrm
      have := hmono tx (hneed rec hrm hid hh tx hloc)
      rw [this] at hrem; cases hrem
    have hcore := hspec.ids
    simp only [core, Prod.mk.injEq] at hcore
    obtain ⟨hu, ha, hg, hpg, hb, hst, hsy, hsyt⟩ := hcore
    by_cases hfin : o1.finish = true
    · simp only [hfin, if_true, Option.some.injEq] at h
      subst h
      refine ⟨?_, ?_, ?_, ?_, ?_, ?_, ⟨hsy, hsyt⟩, hcred, hpend, hdeb, htx, hblk⟩
      · intro e hn
        show e ∈ o1.s.unspent.filter (fun e => e.1.1 != w) ↔ _
        rw [List.mem_filter, hu]; simp [hn]
      · intro e hn
        show e ∈ o1.s.addrs.filter (fun e => e.1.1 != w) ↔ _
        rw [List.mem_filter, ha]; simp [hn]
      · intro e hn
        show e ∈ o1.s.game.filter (fun e => e.1.wallet != w) ↔ _
        rw [List.mem_filter, hg]; simp [hn]
      · intro e hn
        show e ∈ o1.s.pendGame.filter (fun e => e.1.1 != w) ↔ _
        rw [List.mem_filter, hpg]; simp [hn]
      · intro e hn
        show e ∈ AMap.erase o1.s.balance w ↔ _
        rw [mem_erase, hb]; simp [hn]
      · intro e hn
        show e ∈ AMap.erase o1.s.status w ↔ _
        rw [mem_erase, hst]; simp [hn]
    · simp only [hfin, Bool.false_eq_true, if_false, Option.some.injEq] at h
      subst h
      exact ⟨fun e _ => by rw [hu], fun e _ => by rw [ha], fun e _ => by rw [hg], fun e _ => by rw [hpg],
        fun e _ => by rw [hb], fun e _ => by rw [hst], ⟨hsy, hsyt⟩, hcred, hpend, hdeb, htx, hblk⟩


/-- **remove_pending_kept.** A pending transaction that another wallet needs (not removable: it pays another
    keystore's address or spends another wallet's mined / unmined credit) keeps its record through both passes over
    the pending set — with its full bytes, which may name the removed wallet's script hashes in its outputs: that is
    the one place where they legitimately remain.  (What is removable goes: the transactions found through the
    wallet's unmined credits AND, since the repair of the spender leak, those found through the spent marks of its
    deleted credits.) -/
theorem remove_pending_kept (limit : Nat) (c : Ctx) (w : Wid) (addrs : List Addr) (s : Store) (o : StepOut)
    (hne : addrs ≠ []) (hfp : Functional s.pending) (hfc : Functional s.credits)
    (h : removeStep limit c w addrs s = some o)
    (x : TxId × Tx) (hx : x ∈ s.pending) (hneeded : removable c.own s addrs x.2 = false) : x ∈ o.s.pending := by
  unfold removeStep at h
  cases hr : removeRelevantTx limit c s addrs with
  | none => simp [hr] at h
  | some o1 =>
    simp only [hr] at h
    obtain ⟨uh, del1, del3, s2, del2, hnf, hmt, ho1⟩ := (removeRelevantTx_pipeline limit c s addrs o1 hne hr).ex
    let s0 := (removeRelevantUnminedCredit s addrs).1
    let s1 := (removeUnminedTxs c.own s0 addrs uh).1
    let sc := removeRelevantCredit limit s1 addrs
    have hp0 : s0.pending = s.pending := unminedCredit_pending s addrs
    have hc0 : s0.credits = s.credits := congrArg Prod.fst (unminedCredit_cd s addrs)
    have hpc0 : s0.pendCred = s.pendCred.filter (fun e => !addrs.contains e.2.sh) := unminedCredit_pendCred s addrs
    have hs1c : s1.credits = s.credits :=
      (congrArg Prod.fst (unminedTxs_proj cd (fun _ _ => rfl) (fun _ _ => rfl) c.own s0 addrs uh)).trans hc0
    have hs1pc : s1.pendCred = s0.pendCred := unminedTxs_proj Store.pendCred (fun _ _ => rfl) (fun _ _ => rfl) c.own s0 addrs uh
    -- first pass: judged on s0
    have hn0 : removable c.own s0 addrs x.2 = false := by
      refine removable_mono c.own s s0 addrs x.2 ?_ ?_ hneeded
      · intro y hy _; rw [hc0]; exact hy
      · intro k v hg hn
        rw [hpc0]
        exact get_filter_of_get _ _ k v hg (by show (!addrs.contains v.sh) = true; rw [hn]; rfl)
    have hk1 : x ∈ s1.pending :=
      unminedTxs_kept c.own s0 addrs uh (by rw [hp0]; exact hfp) x (by rw [hp0]; exact hx) hn0
    -- second pass: judged on the store the credit scan leaves
    have hscp : sc.s.pending = s1.pending := (scan_recs_pending limit s1 addrs).2
    have hfun1 : Functional s1.pending := by
      intro e e' he he' hk
      have hsub : ∀ y ∈ s1.pending, y ∈ s.pending := by
        intro y hy
        have : ∀ (l : List TxId) (acc : Store × List TxId), (∀ z ∈ acc.1.pending, z ∈ s.pending) →
            ∀ z ∈ (l.foldl (unminedStep c.own addrs) acc).1.pending, z ∈ s.pending := by
          intro l
          induction l with
          | nil => intro acc ha; exact ha
          | cons a l ih =>
            intro acc ha
            simp only [List.foldl_cons]
            apply ih
            rcases unminedStep_cases c.own addrs acc a with h' | ⟨_, _, _, h'⟩ <;> rw [h']
            · exact ha
            · intro z hz; exact ha z (erase_subset _ _ _ hz)
        exact this uh (s0, []) (by intro z hz; rw [hp0] at hz; exact hz) y hy
      exact hfp e e' (hsub e he) (hsub e' he') hk
    have hn2 : removable c.own sc.s addrs x.2 = false := by
      refine removable_mono c.own s sc.s addrs x.2 ?_ ?_ hneeded
      · intro y hy hn
        exact removeRelevantCredit_keeps_credit limit s1 addrs (by rw [hs1c]; exact hfc) y (by rw [hs1c]; exact hy) hn
      · intro k v hg hn
        rw [scan_pendCred, hs1pc, hpc0]
        exact get_filter_of_get _ _ k v hg (by show (!addrs.contains v.sh) = true; rw [hn]; rfl)
    have hk2 : x ∈ (removeUnminedTxs c.own sc.s addrs sc.spenders).1.pending :=
      unminedTxs_kept c.own sc.s addrs sc.spenders (by rw [hscp]; exact hfun1) x (by rw [hscp]; exact hk1) hn2
    have h1 : o1.s.pending = (removeUnminedTxs c.own sc.s addrs sc.spenders).1.pending := by
      rw [ho1]
      show (checkBlockRecords s2 del2).pending = _
      rw [blockRecords_proj Store.pending (fun _ _ => rfl),
          minedTxs_proj Store.pending (fun _ _ => rfl) c _ addrs _ (s2, del2) hmt]
    by_cases hfin : o1.finish = true
    · simp only [hfin, if_true, Option.some.injEq] at h
      have ho : o = _ := h.symm
      subst ho
      show x ∈ o1.s.pending
      rw [h1]; exact hk2
    · simp only [hfin, Bool.false_eq_true, if_false, Option.some.injEq] at h
      have ho : o = o1 := h.symm
      subst ho
      rw [h1]; exact hk2

/-- The ORIGINAL full statement of "the survivors stay correct under LATER reorganisations", kept type-checked: rolling
    back after a removal step gives, on every other wallet's projection, what rolling back before it gives — for
    ARBITRARY stores, with no hypothesis.  NOT PROVED in this form and not expected to hold in it: without store
    invariants the credit scan can delete another wallet's credit (two entries under one key: see the last `example` of this file), and `rollback` has error exits that a removal can open or close.  It is SUPERSEDED by the route
    `remove ⊨ project` below (`remove_projects`, `remove_run_projects`, `remove_then_history_correct`): under C01's
    invariant `Inv c s chain` the removal leaves `Inv c' s' chain` for the context without the removed keystore, and then
    EVERY later block, reorganisation and query is covered by C01's theorems for `c'` — which is strictly more than this
    statement asks (success of the rollback, every bucket, any number of later events). -/
def remove_frames_rollback_full : Prop :=
  ∀ (limit : Nat) (c : Ctx) (w w' : Wid) (addrs : List Addr) (s : Store) (o : StepOut) (height : Nat) (r r' : Store),
    w' ≠ w → removeStep limit c w addrs s = some o →
    rollback c s height = .ok r → rollback c o.s height = .ok r' →
    (∀ e, e.1.1 = w' → (e ∈ r'.unspent ↔ e ∈ r.unspent)) ∧ AMap.get r'.balance w' = AMap.get r.balance w'

-- ------------------------------------------------------------------ remove ⊨ project  (C01's invariant through a removal)

open MW.Spec.Chain MW.Spec.Books MW.Lemmas.Ledger MW.Lemmas.RemoveProj MW.Lemmas.RemoveInv in
/-- **books_minus** (a statement about MW.Spec.Books alone).  For a valid chain, the books for the keystore view
    without wallet `w` are the books for the full view restricted to the other wallets: the ledger list filtered (same
    order), the credits of other script hashes, their debits, the deposit records keyed by other wallets, and the tx
    records of exactly the transactions another wallet needs (`NeededBy`). -/
theorem books_minus {own own' : Own} {w : Wid} (hO : OwnMinus own own' w) (p : Params) {chain : List Block}
    (hV : ChainValid own chain) : BookMinus own own' w (occs chain) (bookOf p own chain) (bookOf p own' chain) :=
  bookOf_minus hO p hV

open MW.Spec.Chain MW.Spec.Books MW.Lemmas.Ledger MW.Lemmas.RemoveProj MW.Lemmas.RemoveBooks in
/-- … and the block records are a function of the tx records (for ANY keystore view): a block record lists, in block
    order, the transactions of the block that have a tx record — so the block records of the restricted books are the
    full ones filtered by "still has a tx record", which is what checkBlockRecordAfterTxRemoved computes -/
theorem books_blocks_by_txrecs (p : Params) (own : Own) (chain : List Block) (hV : ChainValid own chain)
    (hH : HeightsOK chain) (h : Nat) :
    (bookOf p own chain).blocks h = blockRecOf (fun k => ((bookOf p own chain).txrecs k).isSome) chain h :=
  blocks_eq_blockRecOf p own chain hV hH h

open MW.Lemmas.Ledger MW.Lemmas.RemoveProj in
/-- a chain valid for the full keystore view is valid for the view without `w` -/
theorem chain_valid_minus {own own' : Own} {w : Wid} (hO : OwnMinus own own' w) {chain : List Block}
    (h : ChainValid own chain) : ChainValid own' chain := chainValid_minus hO h

open MW.Lemmas.Ledger MW.Lemmas.RemoveProj in
/-- the driver's `dropKeystore` (filter on the wallet component) produces such a view -/
theorem own_minus_filter {own : Own} (hn : KeysNodup own) (w : Wid) :
    OwnMinus own (own.filter (fun e => e.2.1 != w)) w := ownMinus_filter hn w

open MW.Spec.Books MW.Lemmas.Ledger MW.Lemmas.RemoveInv in
/-- **remove_projects** (`remove ⊨ project`, a wallet removed in ONE transaction — what the code does after the D30
    repair for a wallet with fewer credits than the step size).  If the store holds the books of `chain` (C01's `Inv`),
    its credits bucket has one entry per key, no unmined credit belongs to a transaction of the chain, and `addrs` are the
    script hashes the keystore view gives to `w` (`RemHyp`), then after the finishing removal step the store holds the
    books of `chain` for the keystore view WITHOUT `w` — C01's invariant for the context `c'`, for any wallet list
    `ws'` ⊆ `c.wallets`.  (The AllReady gap: `Inv` for the input needs no readiness of `w` — a flagged wallet is simply
    not ready — and in `c'` the removed wallet owns nothing: `remove_all_ready`.) -/
theorem remove_projects (limit : Nat) {c : Ctx} {w : Wid} {addrs : List Addr} {own' : Own} {chain : List Block}
    (H : RemHyp c w addrs own' chain) {s : Store} (hI : Inv c s chain)
    (hn : KeysNodup s.credits) (hp : ∀ e ∈ s.pendCred, e.1.1 ∉ idsOf (occs chain))
    (ws' : List Wid) (hws : ∀ x ∈ ws', x ∈ c.wallets)
    {o : StepOut} (h : removeStep limit c w addrs s = some o) (hf : o.finish = true) :
    Inv { c with own := own', wallets := ws' } o.s chain :=
  MW.Lemmas.RemoveMain.remove_projects limit H hI hn hp ws' hws h hf

open MW.Spec.Books MW.Lemmas.Ledger MW.Lemmas.RemoveInv in
/-- after the finishing step every owner of an address of `c'` is ready, if the OTHER owners were -/
theorem remove_all_ready (limit : Nat) {c : Ctx} {w : Wid} {addrs : List Addr} {own' : Own} {chain : List Block}
    (H : RemHyp c w addrs own' chain) {s : Store} (ws' : List Wid)
    (hAR : ∀ a w' ch, AMap.get c.own a = some (w', ch) → w' ≠ w → (readyWallets s ws').contains w' = true)
    {o : StepOut} (h : removeStep limit c w addrs s = some o) (hf : o.finish = true) :
    AllReady own' (readyWallets o.s ws') := MW.Lemmas.RemoveMain.finish_allReady limit H ws' hAR h hf

open MW.Spec.Books MW.Lemmas.Ledger MW.Lemmas.RemoveInv in
/-- **remove_mid.** The MULTI-STEP case: `Mid` — every mined bucket lies between the books for the full keystore view and
    the books for the view without `w`; what is missing belongs to `w`; every leftover of `w` is still reachable from a
    credit of `w` — follows from `Inv` and is kept by EVERY removal step that does not finish … -/
theorem remove_mid_of_inv {c : Ctx} {w : Wid} {addrs : List Addr} {own' : Own} {chain : List Block}
    (H : RemHyp c w addrs own' chain) {s : Store} (hI : Inv c s chain)
    (hn : KeysNodup s.credits) (hp : ∀ e ∈ s.pendCred, e.1.1 ∉ idsOf (occs chain)) : Mid c w addrs own' s chain :=
  inv_to_mid H hI hn hp

open MW.Lemmas.RemoveInv in
theorem remove_mid_step (limit : Nat) {c : Ctx} {w : Wid} {addrs : List Addr} {own' : Own} {chain : List Block}
    (H : RemHyp c w addrs own' chain) {s : Store} (hM : Mid c w addrs own' s chain)
    {o : StepOut} (h : removeStep limit c w addrs s = some o) (hf : o.finish = false) : Mid c w addrs own' o.s chain :=
  MW.Lemmas.RemoveMain.parked_step limit H hM h hf

open MW.Spec.Books MW.Lemmas.Ledger MW.Lemmas.RemoveInv in
/-- … in every such intermediate state (follower running, restarts: a step reads the persistent store only) what the
    queries read for another wallet `w'` — unspent index, the credits of its coins, balance — is what the books for the
    view without `w` say (the survivors' projection) … -/
theorem remove_mid_survivors {c : Ctx} {w : Wid} {addrs : List Addr} {own' : Own} {chain : List Block}
    (H : RemHyp c w addrs own' chain) {s : Store} (hM : Mid c w addrs own' s chain) {w' : Wid} (hw' : w' ≠ w) :
    (∀ tx idx, AMap.get s.unspent (w', tx, idx) =
      ((lookupU (bookOf c.p own' chain).L tx idx).filter (fun u => decide (u.wallet = w'))).map (·.blk)) ∧
    (∀ k cr, (bookOf c.p own' chain).credits k = some cr → AMap.get s.credits k = some cr) ∧
    ((readyWallets s c.wallets).contains w' = true →
      AMap.get s.balance w' = some (totalU (bookOf c.p own' chain).L w')) :=
  MW.Lemmas.RemoveMain.mid_survivors H hM hw'

open MW.Spec.Books MW.Lemmas.Ledger MW.Lemmas.RemoveInv in
/-- … and **remove_run_projects**: the worker loop, however many transactions it takes (any step size), ends in C01's
    invariant for the context without the removed keystore -/
theorem remove_run_projects (limit : Nat) {c : Ctx} {w : Wid} {addrs : List Addr} {own' : Own} {chain : List Block}
    (H : RemHyp c w addrs own' chain) (ws' : List Wid) (hws : ∀ x ∈ ws', x ∈ c.wallets)
    (n : Nat) {s s' : Store} (hI : Inv c s chain) (hn : KeysNodup s.credits)
    (hp : ∀ e ∈ s.pendCred, e.1.1 ∉ idsOf (occs chain)) (h : run limit c w addrs n s = .done s') :
    Inv { c with own := own', wallets := ws' } s' chain :=
  MW.Lemmas.RemoveMain.run_projects limit H ws' hws n (inv_to_mid H hI hn hp) h

open MW.Spec.Chain MW.Spec.Books MW.Lemmas.Ledger MW.Lemmas.RemoveInv MW.Lemmas.RemoveHistory in
/-- **remove_then_history_correct.**  Removal followed by ANY history of node events (extend, reorganise to any branch)
    and handler steps, in the environment without the removed keystore: whenever no notification is pending the wallet
    holds exactly the books of the node's best chain for the remaining keystores and the follower's tip is the node's
    tip.  (`RunHyp` for the environment without `w`: C01's hypotheses — valid chains of known blocks from one genesis,
    every remaining owner ready.) -/
theorem remove_then_history_correct (limit : Nat) {e : Env} {G : Block} {chain : List Block} {w : Wid}
    {addrs : List Addr} {own' : Own} (H : RemHyp (e.ctx chain) w addrs own' chain)
    {s : Store} (hI : Inv (e.ctx chain) s chain) (hn : KeysNodup s.credits)
    (hp : ∀ x ∈ s.pendCred, x.1.1 ∉ idsOf (occs chain))
    {o : StepOut} (h : removeStep limit (e.ctx chain) w addrs s = some o) (hf : o.finish = true)
    (v : Vol) (hv : v.best = tipMeta chain) (evs : List Ev)
    (HR : RunHyp (envMinus e own') G { chain := chain, queue := [], s := o.s, v := v } evs) :
    (runW (envMinus e own') { chain := chain, queue := [], s := o.s, v := v } evs).queue = [] →
      Inv ((envMinus e own').ctx (runW (envMinus e own') { chain := chain, queue := [], s := o.s, v := v } evs).chain)
          (runW (envMinus e own') { chain := chain, queue := [], s := o.s, v := v } evs).s
          (runW (envMinus e own') { chain := chain, queue := [], s := o.s, v := v } evs).chain ∧
        (runW (envMinus e own') { chain := chain, queue := [], s := o.s, v := v } evs).v.best =
          tipMeta (runW (envMinus e own') { chain := chain, queue := [], s := o.s, v := v } evs).chain :=
  MW.Lemmas.RemoveHistory.remove_then_history_correct limit H hI hn hp h hf v hv evs HR

open MW.Spec.Chain MW.Spec.Books MW.Lemmas.Ledger MW.Lemmas.RemoveInv MW.Lemmas.RemoveHistory in
/-- … observed: for every remaining ready wallet the reported unspent outputs are — as a multiset — the spec ledger's
    (`utxosOf`), WalletBalance is the spec's, and the spec ledger for the remaining keystores IS `ledgerOf` of the node's
    chain for the ORIGINAL keystore view minus the removed wallet's coins -/
theorem remove_then_history_observed (limit : Nat) {e : Env} {G : Block} {chain : List Block} {w : Wid}
    {addrs : List Addr} {own' : Own} (H : RemHyp (e.ctx chain) w addrs own' chain)
    {s : Store} (hI : Inv (e.ctx chain) s chain) (hn : KeysNodup s.credits) (hnu : KeysNodup s.unspent)
    (hp : ∀ x ∈ s.pendCred, x.1.1 ∉ idsOf (occs chain))
    {o : StepOut} (h : removeStep limit (e.ctx chain) w addrs s = some o) (hf : o.finish = true)
    (v : Vol) (hv : v.best = tipMeta chain) (evs : List Ev)
    (HR : RunHyp (envMinus e own') G { chain := chain, queue := [], s := o.s, v := v } evs)
    (hq : (runW (envMinus e own') { chain := chain, queue := [], s := o.s, v := v } evs).queue = [])
    (hlen : (runW (envMinus e own') { chain := chain, queue := [], s := o.s, v := v } evs).chain.length < 2^32)
    (hcb : e.p.cbMaturity < 2^32)
    (hstk : ∀ x ∈ ledgerOf own' (runW (envMinus e own') { chain := chain, queue := [], s := o.s, v := v } evs).chain,
      ∀ f, x.cls = .stk f → f + 1 < 2^32)
    (w' : Wid) (hw' : (readyWallets o.s e.wallets).contains w' = true) (mc : Nat) :
    ((coinsOf (runW (envMinus e own') { chain := chain, queue := [], s := o.s, v := v } evs).s w').map
        (obsM (runW (envMinus e own') { chain := chain, queue := [], s := o.s, v := v } evs).s.syncedTo)).Perm
      ((utxosOf own' (runW (envMinus e own') { chain := chain, queue := [], s := o.s, v := v } evs).chain w').map
        (obsS e.p ((runW (envMinus e own') { chain := chain, queue := [], s := o.s, v := v } evs).chain.length - 1))) ∧
    walletBalance (runW (envMinus e own') { chain := chain, queue := [], s := o.s, v := v } evs).s w' mc =
      some (Spec.Chain.balance e.p own' (runW (envMinus e own') { chain := chain, queue := [], s := o.s, v := v } evs).chain w' mc) ∧
    ledgerOf own' (runW (envMinus e own') { chain := chain, queue := [], s := o.s, v := v } evs).chain =
      (ledgerOf e.own (runW (envMinus e own') { chain := chain, queue := [], s := o.s, v := v } evs).chain).filter
        (fun x => decide (x.wallet ≠ w)) :=
  MW.Lemmas.RemoveHistory.remove_then_history_observed limit H hI hn hnu hp h hf v hv evs HR hq hlen hcb hstk w' hw' mc

/-- non-vacuity of `remove_projects` / `RemHyp` / `Inv` / `KeysNodup` / the pending hypothesis: a two-wallet store BUILT
    BY THE MODEL (fresh store + `connectAll` over a chain with the D11 transaction) meets them all, the removal of W2
    finishes in one step, and the conclusion holds for it (MW.Lemmas.RemoveEx) -/
example := @MW.Lemmas.RemoveEx.remHyp
example := @MW.Lemmas.RemoveEx.inv
example := @MW.Lemmas.RemoveEx.st_nodup
example := @MW.Lemmas.RemoveEx.st_pend
example := @MW.Lemmas.RemoveEx.st_finishes
example := @MW.Lemmas.RemoveEx.st_after
example := @MW.Lemmas.RemoveEx.ex_projects

-- ------------------------------------------------------------------ remove_resumes

/-- **remove_progress.** A step that does not finish leaves strictly fewer credits of the removed wallet
    (for ANY positive step size; the code's 20000 is `MW.Gen.Handler.removeCreditStep`). -/
theorem remove_progress (limit : Nat) (hl : limit > 0) (c : Ctx) (w : Wid) (addrs : List Addr) (s : Store) (o : StepOut)
    (hne : addrs ≠ []) (h : removeStep limit c w addrs s = some o) (hnf : o.finish = false) :
    left o.s addrs < left s addrs := by
  unfold removeStep at h
  cases hr : removeRelevantTx limit c s addrs with
  | none => simp [hr] at h
  | some o1 =>
    simp only [hr] at h
    by_cases hfin : o1.finish = true
    · simp only [hfin, if_true, Option.some.injEq] at h
      have ho : o = _ := h.symm
      subst ho
      simp at hnf
    · simp only [hfin, Bool.false_eq_true, if_false, Option.some.injEq] at h
      have ho : o = o1 := h.symm
      subst ho
      obtain ⟨s1, hcd1, hcd, hfe, _⟩ := (removeRelevantTx_spec limit c s addrs o hne hr).credits
      have h1 : o.s.credits = (removeRelevantCredit limit s1 addrs).s.credits := congrArg Prod.fst hcd
      have h2 : s1.credits = s.credits := congrArg Prod.fst hcd1
      have := removeRelevantCredit_decreases limit hl s1 addrs (by rw [← hfe]; exact hnf)
      unfold left at this ⊢
      rw [h1, ← h2]; exact this

-- the worker loop of asyncRemove (`RunRes`, `run`: restarted or not, every step starts from the persistent store alone —
-- `removeStep` has no volatile argument) is defined in MW.Lemmas.RemoveMain, where `run_projects` is proved about it.

/-- **remove_resumes.** From any store — in particular the one a crash or shutdown between two steps left
    behind — the removal ends after at most (credits of the wallet + 1) steps: either it completes, or a step's
    transaction fails (and rolls back); it never goes on for ever. -/
theorem remove_resumes (limit : Nat) (hl : limit > 0) (c : Ctx) (w : Wid) (addrs : List Addr) (hne : addrs ≠ [])
    (n : Nat) (s : Store) (hn : left s addrs < n) : run limit c w addrs n s ≠ .outOfFuel := by
  induction n generalizing s with
  | zero => omega
  | succ n ih =>
    unfold run
    cases hstep : removeStep limit c w addrs s with
    | none => simp
    | some o =>
      simp only
      by_cases hfin : o.finish = true
      · simp [hfin]
      · simp only [hfin, Bool.false_eq_true, if_false]
        have hdec := remove_progress limit hl c w addrs s o hne hstep (by simpa using hfin)
        exact ih o.s (by omega)

/-- when the run completes, the wallet is erased (remove_erases at the last step) -/
theorem run_done_clean (limit : Nat) (c : Ctx) (w : Wid) (addrs : List Addr) (hne : addrs ≠ [])
    (n : Nat) (s s' : Store) (h : run limit c w addrs n s = .done s') : Clean s' w addrs := by
  induction n generalizing s with
  | zero => simp [run] at h
  | succ n ih =>
    unfold run at h
    cases hstep : removeStep limit c w addrs s with
    | none => simp [hstep] at h
    | some o =>
      simp only [hstep] at h
      by_cases hfin : o.finish = true
      · simp only [hfin, if_true, RunRes.done.injEq] at h
        subst h
        exact remove_erases limit c w addrs s o hne hstep hfin
      · simp only [hfin, Bool.false_eq_true, if_false] at h
        exact ih o.s h

-- ------------------------------------------------------------------ remove_gated

/-- **remove_gated.** RemoveWallet is accepted only when the worker queue has room, the keystore exists, the
    passphrase is right and the wallet is ready (not importing); then exactly the removal flag is set. -/
theorem remove_gated (q : Nat) (ks : List Wid) (passOk : Bool) (s : Store) (w : Wid)
    (h : (removeWallet q ks passOk s w).1 = .ok) :
    q < Gen.Handler.maxWaitingTaskNum ∧ ks.contains w = true ∧ passOk = true ∧
    ∃ st, AMap.get s.status w = some st ∧ st.synced = none ∧
      (removeWallet q ks passOk s w).2 = { s with status := AMap.put s.status w { st with removed := true } } := by
  unfold removeWallet at h ⊢
  by_cases h1 : q ≥ Gen.Handler.maxWaitingTaskNum
  · rw [if_pos h1] at h; cases h
  · rw [if_neg h1] at h ⊢
    by_cases h2 : (!ks.contains w) = true
    · rw [if_pos h2] at h; cases h
    · rw [if_neg h2] at h ⊢
      by_cases h3 : (!passOk) = true
      · rw [if_pos h3] at h; cases h
      · rw [if_neg h3] at h ⊢
        cases hst : AMap.get s.status w with
        | none => rw [hst] at h; cases h
        | some st =>
          rw [hst] at h
          simp only at h ⊢
          by_cases h4 : st.synced.isSome = true
          · rw [if_pos h4] at h; cases h
          · rw [if_neg h4]
            refine ⟨by omega, by simpa using h2, by simpa using h3, st, rfl, by simpa using h4, rfl⟩

/-- a refused request changes nothing -/
theorem remove_refused_unchanged (q : Nat) (ks : List Wid) (passOk : Bool) (s : Store) (w : Wid)
    (h : (removeWallet q ks passOk s w).1 ≠ .ok) : (removeWallet q ks passOk s w).2 = s := by
  unfold removeWallet at h ⊢
  repeat' split
  all_goals first | rfl | (exfalso; apply h; simp_all)

/-- … and it is refused while the wallet is importing, whatever the passphrase -/
theorem remove_refused_while_importing (q : Nat) (ks : List Wid) (passOk : Bool) (s : Store) (w : Wid)
    (st : WStatus) (hst : AMap.get s.status w = some st) (cur : Nat) (hc : st.synced = some cur) :
    (removeWallet q ks passOk s w).1 ≠ .ok := by
  intro h
  obtain ⟨_, _, _, st', hst', hsy, _⟩ := remove_gated q ks passOk s w h
  rw [hst] at hst'; cases hst'
  rw [hc] at hsy; cases hsy

-- ------------------------------------------------------------------ reimport_ok

/-- **reimport_ok.** After the finishing step the wallet has no status and no balance record (it is not listed
    and is not an importing wallet), so importing the same keystore again starts from a blank slate: status
    "importing from height 0" (not selectable), balance 0, and none of its old credits in the way. -/
theorem reimport_ok (limit : Nat) (c : Ctx) (w : Wid) (addrs : List Addr) (s : Store) (o : StepOut)
    (hne : addrs ≠ []) (h : removeStep limit c w addrs s = some o) (hf : o.finish = true) :
    AMap.get o.s.status w = none ∧ AMap.get o.s.balance w = none ∧
    (∀ e ∈ o.s.credits, addrs.contains e.2.sh = false) ∧
    let s' := Model.Import.importWalletStore o.s w addrs
    AMap.get s'.status w = some ⟨some 0, false⟩ ∧ AMap.get s'.balance w = some 0 ∧
    Model.Import.useWallet s' (w :: c.wallets) w = .unready := by
  have hc := remove_erases limit c w addrs s o hne h hf
  have hs : AMap.get o.s.status w = none := get_eq_none_of_forall _ _ hc.status
  have hb : AMap.get o.s.balance w = none := get_eq_none_of_forall _ _ hc.balance
  refine ⟨hs, hb, hc.credits, ?_⟩
  have hemp : addrs.isEmpty = false := by cases addrs <;> simp_all
  have key : ∀ (l : List Addr) (t : Store), (l.foldl (fun s a => { s with addrs := AMap.put s.addrs (w, false, a) 0 }) t).status = t.status ∧
      (l.foldl (fun s a => { s with addrs := AMap.put s.addrs (w, false, a) 0 }) t).balance = t.balance := by
    intro l
    induction l with
    | nil => intro t; exact ⟨rfl, rfl⟩
    | cons a l ih => intro t; simp only [List.foldl_cons]; exact ⟨(ih _).1, (ih _).2⟩
  simp only [Model.Import.importWalletStore, hemp, Bool.false_eq_true, if_false]
  refine ⟨?_, ?_, ?_⟩
  · rw [(key _ _).1, AMap.get_put]; simp
  · rw [(key _ _).2, AMap.get_put]; simp
  · unfold Model.Import.useWallet
    rw [(key _ _).1, AMap.get_put]; simp

-- ------------------------------------------------------------------ layout_prefix_exact

/-- **layout_prefix_exact.** Every key that the removal deletes by a prefix scan on the wallet id starts with
    the wallet id as a fixed 42-byte field (regenerated from txmgr/utxostore_db.go: MW.Gen.Layout) … -/
theorem layout_id_first : ∀ L ∈ Gen.Layout.idPrefixed,
    L.fields.head? = some ⟨"walletId", 0, Gen.Layout.walletIdLen⟩ := by decide

/-- … and for byte strings of that fixed width a prefix scan is exact: key `id' ++ rest` is hit by the scan for
    `id` iff `id' = id`.  (With variable-width ids, `ab` would also hit the keys of wallet `abc`.)  This is why the
    model's `removeWalletIndexes` may filter on equality of the wallet component. -/
theorem layout_prefix_exact (id id' rest : List UInt8)
    (h : id.length = Gen.Layout.walletIdLen) (h' : id'.length = Gen.Layout.walletIdLen) :
    id.isPrefixOf (id' ++ rest) = true ↔ id' = id := by
  rw [Lemmas.Layout.isPrefixOf_append_iff id id' rest (h.trans h'.symm)]
  exact eq_comm

/-- the same fact fails without the fixed width — the hypothesis is needed (a test, by evaluation) -/
example : ([1, 2] : List UInt8).isPrefixOf ([1, 2, 3] ++ [9]) = true ∧ ([1, 2, 3] : List UInt8) ≠ [1, 2] := by decide


/-- the regenerated constants have the shape the theorems assume -/
theorem gen_tie : Gen.Handler.removeCreditStep > 0 ∧ Gen.Handler.maxWaitingTaskNum > 0 ∧
    Gen.Layout.walletIdLen = Gen.Handler.walletIdLen ∧ Gen.Layout.idPrefixed.length = 4 := by decide

-- ------------------------------------------------------------------ non-vacuity: a concrete store meeting every hypothesis

namespace Ex
/-- wallet W1 (address A1) received C1:0 in block B1; transaction T3 in block B6 spends it and pays ONLY wallet W2
    (address A2) and a stranger — the situation of defect D11 — and W2 is being removed. -/
def c1 : Tx := ⟨"C1", true, [], [⟨"A1", 500, .std⟩]⟩
def t3 : Tx := ⟨"T3", false, [⟨"C1", 0, 0⟩], [⟨"A2", 300, .std⟩, ⟨"X1", 199, .std⟩]⟩
def t4 : Tx := ⟨"T4", true, [], [⟨"A2", 7, .std⟩]⟩
def b1 : Block := ⟨"B1", "G", 1, [c1]⟩
def b6 : Block := ⟨"B6", "B1", 2, [t4, t3]⟩
def ctx : Ctx := { p := {}, own := [("A1", ("W1", false)), ("A2", ("W2", false))], wallets := ["W1", "W2"],
                   node := { chain := [⟨"G", "", 0, []⟩, b1, b6], known := [("B1", b1), ("B6", b6)] } }
def k1 : CredKey := ⟨"C1", ⟨1, "B1"⟩, 0⟩
def k3 : CredKey := ⟨"T3", ⟨2, "B6"⟩, 0⟩
def k4 : CredKey := ⟨"T4", ⟨2, "B6"⟩, 0⟩
def st : Store :=
  { credits := [(k4, ⟨7, false, false, .standard, 0, "A2", none⟩), (k3, ⟨300, false, false, .standard, 0, "A2", none⟩),
                (k1, ⟨500, true, false, .standard, 0, "A1", some k3⟩)],
    debits := [(k3, (500, k1))],
    unspent := [(("W2", "T4", 0), ⟨2, "B6"⟩), (("W2", "T3", 0), ⟨2, "B6"⟩)],
    balance := [("W1", 0), ("W2", 307)],
    txrecs := [(("T4", ⟨2, "B6"⟩), ("B6", 0)), (("T3", ⟨2, "B6"⟩), ("B6", 1)), (("C1", ⟨1, "B1"⟩), ("B1", 0))],
    blocks := [(2, ("B6", ["T4", "T3"])), (1, ("B1", ["C1"]))],
    status := [("W1", ⟨none, false⟩), ("W2", ⟨none, true⟩)],
    addrs := [(("W1", false, "A1"), 1), (("W2", false, "A2"), 2)] }

/-- the rule as it was before the repair of D11: outputs only -/
def removableOld (own : Own) (addrs : List Addr) (tx : Tx) : Bool :=
  !(tx.outs.any (fun o => o.cls != .raw && !addrs.contains o.addr && (AMap.get own o.addr).isSome))
end Ex
open Ex

/-- hypotheses of remove_erases / remove_frames are met (tests by evaluation on the concrete store) -/
example : (removeStep 20000 ctx "W2" ["A2"] st).map (·.finish) = some true := by decide
example : Functional st.credits := by
  intro e e' he he' hk
  simp [st] at he he'
  rcases he with rfl | rfl | rfl <;> rcases he' with rfl | rfl | rfl <;> first | rfl | (exfalso; revert hk; decide)
example : Functional st.txrecs := by
  intro e e' he he' hk
  simp [st] at he he'
  rcases he with rfl | rfl | rfl <;> rcases he' with rfl | rfl | rfl <;> first | rfl | (exfalso; revert hk; decide)
example : SpenderBack st := by
  intro e he dk hdk x hx hxk
  simp [st] at he hx
  subst hx
  rcases he with rfl | rfl | rfl
  · cases hdk
  · cases hdk
  · rfl

/-- D11, as a test on the concrete store: the old outputs-only rule would have deleted T3's record, the repaired
    rule keeps it (T3 spends W1's credit), and after the finishing step the record and its block-record entry —
    what Rollback needs to give W1 its coin back — are still there, while the coinbase T4 that paid only W2 is gone -/
example : removableOld ctx.own ["A2"] t3 = true ∧ removable ctx.own st ["A2"] t3 = false := by decide
example : (removeStep 20000 ctx "W2" ["A2"] st).map (fun o => (o.s.txrecs.map (·.1.1), o.s.blocks.map (·.2.2), o.s.debits.length)) =
    some (["T3", "C1"], [["T3"], ["C1"]], 1) := by decide

/-- the spender leak, as a test: a pending transaction that only SPENDS a coin of the removed wallet (it has no unmined
    credit of it) is found through the spent mark of the deleted credit and goes with the wallet -/
example : (removeStep 20000 ctx "W2" ["A2"]
      { st with pending := [("P1", ⟨"P1", false, [⟨"T4", 0, 0⟩], [⟨"X9", 5, .std⟩]⟩)], pendIns := [(("T4", 0), ["P1"])] }).map
    (fun o => (o.s.pending.length, o.s.pendIns.length, o.removedTx)) = some (0, 0, ["P1", "T4"]) := by decide

/-- remove_pending_kept, hypotheses met on a store with two pending transactions (tests): P1 only spends W2's coin T4:0
    and goes; P2 spends W2's coin T3:0 but pays W1 (not removable), keeps its record AND its spent mark, so that a
    confirmed double spend of T3:0 still finds it -/
def stP : Store :=
  { st with pending := [("P1", ⟨"P1", false, [⟨"T4", 0, 0⟩], [⟨"X9", 5, .std⟩]⟩), ("P2", ⟨"P2", false, [⟨"T3", 0, 0⟩], [⟨"A1", 5, .std⟩]⟩)],
            pendIns := [(("T4", 0), ["P1"]), (("T3", 0), ["P2"])] }
example : Functional stP.pending := by
  intro e e' he he' hk
  simp [stP] at he he'
  rcases he with rfl | rfl <;> rcases he' with rfl | rfl <;> first | rfl | (exfalso; revert hk; decide)
example : stP.pending.map (fun x => removable ctx.own stP ["A2"] x.2) = [true, false] := by decide
example : (removeStep 20000 ctx "W2" ["A2"] stP).map (fun o => (o.s.pending.map (·.1), o.s.pendIns)) =
    some (["P2"], [(("T3", 0), ["P2"])]) := by decide

/-- remove_progress / remove_resumes: with step size 1 the same removal needs two steps (tests) -/
example : (removeStep 1 ctx "W2" ["A2"] st).map (fun o => (o.finish, left o.s ["A2"])) = some (false, 1) ∧ left st ["A2"] = 2 := by decide
example : (match run 1 ctx "W2" ["A2"] 3 st with | .done s' => some (s'.credits.length, s'.status.length) | _ => none) = some (1, 1) := by decide

/-- remove_gated (tests): accepted with the right passphrase on a ready wallet; refused when importing -/
example : (removeWallet 0 ["W1", "W2"] true st "W1").1 = .ok := by decide
example : (removeWallet 0 ["W1"] true { st with status := [("W1", ⟨some 5, false⟩)] } "W1").1 = .unready := by decide
example : (removeWallet 0 ["W1", "W2"] false st "W1").1 = .badPass ∧ (removeWallet 3 ["W1", "W2"] true st "W1").1 = .busy := by decide

/-- the hypothesis `KeysNodup s.credits` is needed (a test, by evaluation): with a second, shadowed entry under the key of
    W1's credit that pays W2's script hash, the scan for W2 erases the key — W1's credit is gone although `AMap.get`
    (hence `Inv`) never saw the shadowed entry -/
example : let s : Store := { credits := [(k1, ⟨500, false, false, .standard, 0, "A1", none⟩),
                                        (k1, ⟨1, false, false, .standard, 0, "A2", none⟩)] }
    AMap.get s.credits k1 = some ⟨500, false, false, .standard, 0, "A1", none⟩ ∧
    (removeStep 20000 ctx "W2" ["A2"] s).map (fun o => AMap.get o.s.credits k1) = some none := by decide
-- ------------------------------------------------------------------ Round 5: reachable stores; removal INTERLEAVED with the follower

section Round5
open MW.Spec.Chain MW.Spec.Books MW.Spec.Pending MW.Lemmas.Ledger MW.Lemmas.RemoveProj MW.Lemmas.RemoveInv MW.Lemmas.RemoveChar
  MW.Lemmas.RemoveUpper MW.Lemmas.RemoveJoin MW.Lemmas.RemoveFlagged MW.Lemmas.RemoveInterleave MW.Lemmas.RemoveGlue
  MW.Lemmas.RemoveSim MW.Lemmas.ImportJoin MW.Lemmas.PendHist MW.Lemmas.PendHist.Cred MW.Lemmas.PendHist.CredRb
  MW.Lemmas.LedgerPending MW.Lemmas.RemovePend

/-- **credits_nodup_follower** — the hypothesis `KeysNodup s.credits` of `remove_projects` is an invariant of the follower:
    along every C01 history (node events, handler steps: extensions, reorganisations, unconfirmed transactions) the keys
    of the credit bucket stay pairwise distinct. -/
theorem credits_nodup_follower (e : MW.Lemmas.Ledger.Env) (w0 : World) (evs : List Ev) (h : KeysNodup w0.s.credits) :
    KeysNodup (runW e w0 evs).s.credits := MW.Lemmas.LedgerWFCred.credNodup_runW e w0 evs h

/-- … along every C09 history (receive / connect / disconnect steps), with no domain hypothesis -/
theorem credits_nodup_pending_history (E : HEnv) (evs : List HEv) (w : HW) (h : KeysNodup w.s.credits) :
    KeysNodup (runH E w evs).s.credits := MW.Lemmas.LedgerWFCred.credNodup_runH E evs w h

/-- … and through every removal step -/
theorem credits_nodup_remove_step {limit : Nat} {c : Ctx} {w : Wid} {addrs : List Addr} {s : Store} {o : StepOut}
    (hne : addrs ≠ []) (hn : KeysNodup s.credits) (h : removeStep limit c w addrs s = some o) :
    KeysNodup o.s.credits := MW.Lemmas.RemoveReach.credNodup_removeStep hne hn h

/-- **pending_off_reachable** — the hypothesis `pendOff` of `remove_projects` ("no unmined credit belongs to a
    transaction of the wallet's chain") holds in every store reached by a C09 history inside the domain of
    `pending_refines` (`HOKf`: nothing is assumed about the pending-credit buckets). -/
theorem pending_off_reachable {rank : TxId → Nat} {E : HEnv} (evs : List HEv) (w0 : HW) (H0 : HInvC rank E w0)
    (hn0 : KeysNodup w0.s.credits) (hD : ∀ x ∈ worldsH E w0 evs, HOKf rank E x.1 x.2) :
    Inv (E.ctx (runH E w0 evs).node) (runH E w0 evs).s (runH E w0 evs).sp.chain ∧
    KeysNodup (runH E w0 evs).s.credits ∧
    (∀ e ∈ (runH E w0 evs).s.pendCred, e.1.1 ∉ idsOf (occs (runH E w0 evs).sp.chain)) :=
  MW.Lemmas.RemoveReach.reachable_ready_full evs w0 H0 hn0 hD

/-- **remove_projects_reachable** — `remove_projects` on reachable stores: after ANY C09 history inside the domain,
    from a world satisfying C09's invariant whose credit keys are distinct (the fresh store), a finishing removal step
    leaves C01's invariant for the context without the keystore.  Only `RemHyp` (the keystore view, the chain) is left. -/
theorem remove_projects_reachable {rank : TxId → Nat} {E : HEnv} (evs : List HEv) (w0 : HW) (H0 : HInvC rank E w0)
    (hn0 : KeysNodup w0.s.credits) (hD : ∀ x ∈ worldsH E w0 evs, HOKf rank E x.1 x.2)
    (limit : Nat) {w : Wid} {addrs : List Addr} {own' : Own}
    (H : RemHyp (E.ctx (runH E w0 evs).node) w addrs own' (runH E w0 evs).sp.chain)
    (ws' : List Wid) (hws : ∀ x ∈ ws', x ∈ E.wallets)
    {o : StepOut} (h : removeStep limit (E.ctx (runH E w0 evs).node) w addrs (runH E w0 evs).s = some o)
    (hf : o.finish = true) :
    Inv { (E.ctx (runH E w0 evs).node) with own := own', wallets := ws' } o.s (runH E w0 evs).sp.chain :=
  MW.Lemmas.RemoveReach.remove_projects_reachable_full evs w0 H0 hn0 hD limit H ws' hws h hf

/-- … and the worker loop, however many transactions it takes -/
theorem remove_run_projects_reachable {rank : TxId → Nat} {E : HEnv} (evs : List HEv) (w0 : HW) (H0 : HInvC rank E w0)
    (hn0 : KeysNodup w0.s.credits) (hD : ∀ x ∈ worldsH E w0 evs, HOKf rank E x.1 x.2)
    (limit : Nat) {w : Wid} {addrs : List Addr} {own' : Own}
    (H : RemHyp (E.ctx (runH E w0 evs).node) w addrs own' (runH E w0 evs).sp.chain)
    (ws' : List Wid) (hws : ∀ x ∈ ws', x ∈ E.wallets) (n : Nat) {s' : Store}
    (h : run limit (E.ctx (runH E w0 evs).node) w addrs n (runH E w0 evs).s = .done s') :
    Inv { (E.ctx (runH E w0 evs).node) with own := own', wallets := ws' } s' (runH E w0 evs).sp.chain :=
  MW.Lemmas.RemoveReach.run_projects_reachable_full evs w0 H0 hn0 hD limit H ws' hws n h

/-- non-vacuity: the concrete C09 history of `MW.Lemmas.PendHistEx`, then the removal of W1 (all hypotheses met) -/
example (o : StepOut) (h : removeStep 20000 (MW.Lemmas.PendHist.exE.ctx MW.Lemmas.RemoveReach.exWf.node) "W1" ["A1"]
      MW.Lemmas.RemoveReach.exWf.s = some o) :
    Inv { (MW.Lemmas.PendHist.exE.ctx MW.Lemmas.RemoveReach.exWf.node) with own := MW.Lemmas.RemoveReach.exOwn', wallets := [] }
      o.s MW.Lemmas.RemoveReach.exWf.sp.chain := MW.Lemmas.RemoveReach.ex_projects_reachable o h

/-- THE FULL INTERLEAVING STATEMENT, kept type-checked — OPEN: from C01's invariant for the full keystore table, with
    `w` flagged and every other keystore's wallet ready, ANY history of removal steps, announced node states (extensions
    and reorganisations), unconfirmed transactions and restarts that ends with the finishing step leaves C01's invariant
    for the table without `w` on the chain the follower was last told about.
    Status: it was FALSE of the model of the code before the D45 repair (`remove_interleaved_unrepaired_false`: a
    reorganisation between two steps below a block connected before the first step left a debit for ever).  The model
    now follows the repaired code (`MW.Model.Remove.inUse`): the refuting history ends in the invariant
    (`remove_interleaved_cex_repaired`), every removal step keeps "each credit / debit has its tx record", which is what
    Rollback needs to reach them (`remove_step_keeps_reach`), and the proved domains are unchanged (`remove_interleaved_ext`,
    `…_above`, `…_above_nopend`, `remove_after_follower_projects`).  Not proved: reorganisations between two steps that go
    below the tip the follower had at the first step — until Round 7: `remove_interleaved_below` (section Round7 below)
    proves the statement for histories inside `DomW`, reorganisations of ANY depth between the steps included.  What
    still separates this `def` from a theorem: its hypotheses give the pending-side clause only at the START (`DomW` asks
    `PendOK` at every removal step; carried as an invariant only in the domains of `remove_interleaved_above_nopend`),
    they do not ask that block ids determine blocks (`IdInj`) nor that a restarted follower reports the stored best
    block, and a genesis re-announcement is not excluded. -/
def remove_interleaved_projects_full : Prop :=
  ∀ (limit : Nat) (c : Ctx) (w : Wid) (addrs : List Addr) (own' : Own) (G : Block) (x0 x : ISt) (evs : List IEv)
    (ws' : List Wid),
    limit > 0 → KeysNodup c.own →
    RemHyp c w addrs own' c.node.chain → GoodChain c.node.chain → c.node.chain[0]? = some G →
    x0.node = c.node → x0.fin = false → x0.v.best = tipMeta c.node.chain →
    Inv c x0.s c.node.chain → KeysNodup x0.s.credits → KeysNodup x0.s.unspent →
    (∀ e ∈ x0.s.pendCred, e.1.1 ∉ idsOf (occs c.node.chain)) →
    AMap.get x0.s.status w = some ⟨none, true⟩ →
    (∀ a w' ch, AMap.get c.own a = some (w', ch) → w' ≠ w → (readyWallets x0.s c.wallets).contains w' = true) →
    (∀ ev ∈ evs, EvOK c.own G c.node.known ev) →
    (∀ y ∈ ws', y ∈ c.wallets) →
    irun limit c w addrs x0 evs = some x → x.fin = true →
    Inv { c with own := own', wallets := ws', node := x.node } x.s x.node.chain

/-- **remove_interleaved_cex_repaired.**  The history that refuted the full statement for the unrepaired model (W2's
    coinbase C1 pays W2 twice and W1 once, X3 spends both coins of W2; step size 1: step · reorganisation below C1's block ·
    step) ends, on the model of the REPAIRED code, in C01's invariant for W1's keystore alone on the new chain: the first
    step keeps X3's tx record (its debit of the second coin is left), so the reorganisation rolls X3 back. -/
theorem remove_interleaved_cex_repaired (x : ISt)
    (h : irun 1 MW.Lemmas.RemoveMidCex.ctx "W2" ["A2"] MW.Lemmas.RemoveMidCex.x0 MW.Lemmas.RemoveMidCex.evs = some x) :
    x.fin = true ∧ x.node = MW.Lemmas.RemoveMidCex.nodeB ∧
    Inv { MW.Lemmas.RemoveMidCex.ctx with own := MW.Lemmas.RemoveMidCex.own', wallets := ["W1"], node := x.node } x.s
      x.node.chain :=
  MW.Lemmas.RemoveMidCex.interleaved_inv x h

/-- **remove_interleaved_unrepaired_false.**  Necessity of the repair, at model level: with `minedStep` as it was before
    D45 (`MW.Lemmas.RemoveMidCex.Unrepaired`: a removable tx record is erased whatever is left under its key) the same
    history runs to its finishing step and does NOT end in the invariant — the debit (X3, B2, 0) stays for ever.  Every
    hypothesis of the full statement holds of this history (`RemoveMidCex.remHyp`, `inv_stF`, `evs_ok`, …). -/
theorem remove_interleaved_unrepaired_false :
    (MW.Lemmas.RemoveMidCex.Unrepaired.irun 1 MW.Lemmas.RemoveMidCex.ctx "W2" ["A2"] MW.Lemmas.RemoveMidCex.x0
        MW.Lemmas.RemoveMidCex.evs).isSome = true ∧
    ∀ x, MW.Lemmas.RemoveMidCex.Unrepaired.irun 1 MW.Lemmas.RemoveMidCex.ctx "W2" ["A2"] MW.Lemmas.RemoveMidCex.x0
        MW.Lemmas.RemoveMidCex.evs = some x →
      x.fin = true ∧ x.node = MW.Lemmas.RemoveMidCex.nodeB ∧
      ¬ Inv { MW.Lemmas.RemoveMidCex.ctx with own := MW.Lemmas.RemoveMidCex.own', wallets := ["W1"], node := x.node } x.s
        x.node.chain :=
  ⟨MW.Lemmas.RemoveMidCex.Unrepaired.run_some, MW.Lemmas.RemoveMidCex.Unrepaired.interleaved_not_inv⟩

/-- **remove_step_keeps_reach.**  The D45 repair as an invariant, for ARBITRARY stores, any step size: if every credit and
    every debit has the tx record of its transaction (`Reach`: that is how Rollback finds them — block record → tx record →
    the credits / debits under its key), then so it is after one transaction of asyncRemove, finishing or not. -/
theorem remove_step_keeps_reach (limit : Nat) (c : Ctx) (w : Wid) (addrs : List Addr) (s : Store) (o : StepOut)
    (hne : addrs ≠ []) (h : removeStep limit c w addrs s = some o) (hR : MW.Lemmas.RemoveKeep.Reach s) :
    MW.Lemmas.RemoveKeep.Reach o.s :=
  MW.Lemmas.RemoveKeep.removeStep_reach limit c w addrs s o hne h hR

/-- … it holds whenever the removal starts (C01's invariant gives it) … -/
theorem remove_reach_of_inv {c : Ctx} {s : Store} {chain : List Block} (hI : Inv c s chain)
    (hV : ChainValid c.own chain) : MW.Lemmas.RemoveKeep.Reach s :=
  MW.Lemmas.RemoveKeep.inv_reach hI hV

/-- … and the worker loop keeps it however many transactions it takes -/
theorem remove_run_keeps_reach (limit : Nat) (c : Ctx) (w : Wid) (addrs : List Addr) (hne : addrs ≠ []) (n : Nat)
    {s s' : Store} (hR : MW.Lemmas.RemoveKeep.Reach s) (h : run limit c w addrs n s = .done s') :
    MW.Lemmas.RemoveKeep.Reach s' :=
  MW.Lemmas.RemoveKeep.run_reach limit c w addrs hne n hR h

/-- non-vacuity: the flagged store of the counterexample satisfies `Reach`; after the first step (size 1) the debit
    (X3, B2, 0) is left and so is X3's tx record -/
example : MW.Lemmas.RemoveKeep.Reach MW.Lemmas.RemoveMidCex.stF :=
  MW.Lemmas.RemoveKeep.inv_reach MW.Lemmas.RemoveMidCex.inv_stF MW.Lemmas.RemoveMidCex.validA

/-- **remove_flagged_follower_keeps.**  While `w` is flagged for removal (not ready) and no removal step has run, a
    notification of ANY block of the node's best chain — tip extension or reorganisation, above, at or below the height
    at which the wallet was flagged — succeeds and keeps the joined-store invariant `FJ` (C07's `ScanJS` with a ghost
    height: the other wallets booked for the whole followed chain, `w` up to the flag height). -/
theorem remove_flagged_follower_keeps {c : Ctx} {w : Wid} (hKN : KeysNodup c.own) {S : List Block}
    (hgN : GoodChain c.node.chain) (hgS : GoodChain S) (hgen : S[0]? = c.node.chain[0]?)
    (hinj : IdInj (S ++ c.node.chain)) (hvN : ChainValid c.own c.node.chain) (hvS : ChainValid c.own S)
    (hkn : ∀ x ∈ S, AMap.get c.node.known x.id = some x)
    {s : Store} {v : Vol} {b : Block} (hI : FJ c w s S) (hb : c.node.chain[b.height]? = some b)
    (hv : v.best = tipMeta S) (hg0 : b.height = 0 → b.prev ≠ (tipMeta S).hash) :
    ∃ s' v', processBlock c s v b = (s', v', true) ∧ FJ c w s' (c.node.chain.take (b.height + 1)) ∧
      v'.best = tipMeta (c.node.chain.take (b.height + 1)) :=
  fj_processBlock hKN hgN hgS hgen hinj hvN hvS hkn hI hb hv hg0

/-- RemoveWallet on a store satisfying C01's invariant starts the flagged phase -/
theorem remove_flag_starts {c : Ctx} {w : Wid} {s : Store} {chain : List Block} {q : Nat} {ks : List Wid} {po : Bool}
    (hKN : KeysNodup c.own) (hI : Inv c s chain) (hV : ChainValid c.own chain) (hH : HeightsOK chain) (hne : chain ≠ [])
    (hrw : (readyWallets s c.wallets).contains w = true) (hAR : AllReady c.own (readyWallets s c.wallets))
    (hother : ∃ w', w' ≠ w ∧ (readyWallets s c.wallets).contains w' = true)
    (hgate : (removeWallet q ks po s w).1 = .ok) : FJ c w (removeWallet q ks po s w).2 chain :=
  inv_flag_to_fj hKN hI hV hH hne hrw hAR hother hgate

/-- **remove_flagged_run_projects.**  Follower activity between RemoveWallet and the first removal step is covered:
    from ANY store of the flagged phase (`FJ`, reached through `remove_flagged_follower_keeps`), the worker loop — however
    many transactions it takes — ends in C01's invariant for the context without the keystore, on the chain then followed. -/
theorem remove_flagged_run_projects {limit : Nat} {c : Ctx} {w : Wid} {addrs : List Addr} {own' : Own} {X : List Block}
    {s s' : Store} {ws' : List Wid} {n : Nat}
    (hFJ : FJ c w s X) (hO : OwnMinus c.own own' w) (hman : ∀ a, addrs.contains a = isW c.own w a) (hne : addrs ≠ [])
    (hKN : KeysNodup c.own) (hV : ChainValid c.own X) (hH : HeightsOK X)
    (hkn : ∀ x ∈ X, AMap.get c.node.known x.id = some x)
    (hn : KeysNodup s.credits) (hp : PendOK addrs s X) (hws : ∀ x ∈ ws', x ∈ c.wallets)
    (hrun : run limit c w addrs n s = .done s') : Inv { c with own := own', wallets := ws' } s' X :=
  flagged_run_projects hFJ hO hman hne hKN hV hH hkn hn hp hws hrun

/-- **remove_after_follower_projects.**  Histories (`irun`: the model functions the driver executes) in which the
    follower's BLOCK events — extensions and reorganisations of any depth — come before the first removal step, with
    unconfirmed transactions and restarts anywhere and any number of removal steps: the finishing step leaves C01's
    invariant for the table without `w` on the chain the follower was last told about.  Domain `DomA`: at a removal step
    no unmined credit of ANOTHER wallet belongs to a chain transaction (`PendOK`); an announced node state is a valid
    well-formed chain of known blocks announced by its tip; a restart keeps the follower's best block. -/
theorem remove_after_follower_projects {limit : Nat} {c : Ctx} {w : Wid} {addrs : List Addr} {own' : Own} {G : Block}
    {x0 x : ISt} {evs : List IEv} {ws' : List Wid}
    (hP : Phase1 c w G x0) (hS : Static c w addrs own') (hD : DomA limit c w addrs G false x0 evs)
    (hrun : irun limit c w addrs x0 evs = some x) (hfin : x.fin = true) (hws : ∀ y ∈ ws', y ∈ c.wallets) :
    Inv { c with own := own', wallets := ws', node := x.node } x.s x.node.chain :=
  MW.Lemmas.RemoveInterleave.remove_after_follower_projects hP hS hD hrun hfin hws

/-- **remove_interleaved_ext.**  THE POSITIVE INTERLEAVING THEOREM: histories inside `DomB` — tip notifications for ANY
    announced node state (extensions, reorganisations of any depth) before the first removal step, EXTENSIONS of the stored
    chain between the removal steps, unconfirmed transactions and restarts anywhere, any number of removal steps of any
    size — that end with the finishing step leave C01's invariant for the table without `w`, on the chain the follower
    was last told about.  What `DomB` excludes is exactly the counterexample's shape: a REORGANISATION between two removal
    steps (`remove_interleaved_projects_literal_false`).  Proof: a ghost store (the store without the removal steps so
    far) keeps C07's joined-store invariant under the new block (`connect_scanJS'`); `filterBlock` on the real store
    SIMULATES `filterBlock` on the ghost (`MW.Lemmas.RemoveSim.filterBlock_sim`: same relevance records, same writes, the
    records of `w` that are missing are never read); the in-progress invariant is rebuilt for the longer chain. -/
theorem remove_interleaved_ext {limit : Nat} {c : Ctx} {w : Wid} {addrs : List Addr} {own' : Own} {G : Block}
    {x0 x : ISt} {evs : List IEv} {ws' : List Wid}
    (hP : Phase1 c w G x0) (hS : Static c w addrs own') (hD : DomB limit c w addrs G false x0 evs)
    (hrun : irun limit c w addrs x0 evs = some x) (hfin : x.fin = true) (hws : ∀ y ∈ ws', y ∈ c.wallets) :
    Inv { c with own := own', wallets := ws', node := x.node } x.s x.node.chain :=
  MW.Lemmas.RemoveInterleave.remove_interleaved_ext hP hS hD hrun hfin hws

/-- **remove_interleaved_above.**  The widest positive interleaving theorem: histories inside `DomC` — ANY announced node
    states (extensions, reorganisations of any depth) before the first removal step; after it, extensions AND
    REORGANISATIONS THAT FORK ABOVE THE FLOOR, the floor being the follower's tip height when the first removal step ran
    (only blocks connected after that step are rolled back); unconfirmed transactions and restarts anywhere; any number of
    removal steps of any size — that end with the finishing step leave C01's invariant for the table without `w`, on the
    chain the follower was last told about.  The counterexample of `remove_interleaved_projects_literal_false` is outside
    `DomC` exactly at the floor clause (its reorganisation replaces blocks connected BEFORE the first step).  Proof:
    everything of `w`'s half of the joined book sits under blocks of height ≤ the flag height ≤ floor, so the ghost store
    and the real store agree under every block above the floor; `disconnectBlock` on the real store simulates
    `disconnectBlock` on the ghost (`MW.Lemmas.RemoveSim.disconnectBlock_sim`), the ghost moves by C07's
    `disconnect_scanJS_above'`, the in-progress invariant is rebuilt for the shorter chain (`midC_shrink`), and C07's
    abstract reorganisation loops are re-proved with a floor (`MW.Lemmas.ImportReorg.processBlock_reachesIF`). -/
theorem remove_interleaved_above {limit : Nat} {c : Ctx} {w : Wid} {addrs : List Addr} {own' : Own} {G : Block}
    {x0 x : ISt} {evs : List IEv} {ws' : List Wid}
    (hP : Phase1 c w G x0) (hS : Static c w addrs own') (hD : DomC limit c w addrs G none x0 evs)
    (hrun : irun limit c w addrs x0 evs = some x) (hfin : x.fin = true) (hws : ∀ y ∈ ws', y ∈ c.wallets) :
    Inv { c with own := own', wallets := ws', node := x.node } x.s x.node.chain :=
  MW.Lemmas.RemoveInterleave.remove_interleaved_above hP hS hD hrun hfin hws

/-- **remove_interleaved_above_nopend.**  `remove_interleaved_above` WITHOUT the pending-side hypothesis at the removal
    steps (domain `DomF`): the pending-side invariant `PCI` at the start is carried through unconfirmed transactions
    (delivered id not on the followed chain, an id already pending denotes the same transaction), removal steps,
    extensions, and — once the first step has run — reorganisations above the floor (`pci_disconnect`: Rollback
    re-creates the unmined credits of the transactions it puts back, which then are not on the shorter chain;
    `pci_connect`); a notification's blocks must not reuse the id of a pending transaction or of a transaction of the
    stored chain for a different transaction (`AllowedAt`).  Before the first removal step `DomF` admits extensions only
    (reorganisations there: `remove_interleaved_above`, with `PendOK` at the steps). -/
theorem remove_interleaved_above_nopend {limit : Nat} {c : Ctx} {w : Wid} {addrs : List Addr} {own' : Own} {G : Block}
    {x0 x : ISt} {evs : List IEv} {ws' : List Wid}
    (hP : Phase1 c w G x0) (hS : Static c w addrs own') (hPCI : PCI c addrs x0.s x0.node.chain)
    (hD : DomF limit c w addrs G none x0 evs) (hrun : irun limit c w addrs x0 evs = some x) (hfin : x.fin = true)
    (hws : ∀ y ∈ ws', y ∈ c.wallets) :
    Inv { c with own := own', wallets := ws', node := x.node } x.s x.node.chain :=
  MW.Lemmas.RemoveInterleave.remove_interleaved_above_nopend hP hS hPCI hD hrun hfin hws

/-- the rollback half of the simulation, for ARBITRARY stores: disconnecting the tip block on a store `s` that is `g`
    minus records of script hashes no ready wallet owns, when the records under the tip block agree key by key and its
    debits spend credits that are not of those script hashes, succeeds whenever it does on `g`, with related results -/
theorem remove_disconnect_simulation {addrs : List Addr} {c : Ctx} {g s g' : Store} {h : Nat} {bh : BlkId}
    {txs : List TxId} (hSub : Sub addrs g s) (hng : KeysNodup g.credits) (hns : KeysNodup s.credits)
    (hh : g.syncedTo = h) (h0 : h ≠ 0) (hrec : AMap.get g.blocks h = some (bh, txs)) (hN : NewEq ⟨h, bh⟩ g s)
    (hdeb : ∀ id i d cr, AMap.get g.debits ⟨id, ⟨h, bh⟩, i⟩ = some d → AMap.get g.credits d.2 = some cr →
      addrs.contains cr.sh = false)
    (hg : disconnectBlock c g h = .ok g') :
    ∃ s', disconnectBlock c s h = .ok s' ∧ Sub addrs g' s' ∧ NewEq ⟨h, bh⟩ g' s' := by
  obtain ⟨s', h1, h2, _, _, h3, _⟩ := disconnectBlock_sim hSub hng hns hh h0 hrec hN hdeb hg
  exact ⟨s', h1, h2, h3⟩

/-- **remove_interleaved_extensions.**  Histories whose block events are all tip EXTENSIONS (domain `DomE`: a delivered
    unconfirmed transaction is not on the followed chain and an id already pending denotes the same transaction; a
    notification announces a valid well-formed chain of known blocks that extends the stored one, ids of the block's
    transactions distinct, a block transaction with a pending id IS the pending one; a restart keeps the best block;
    NOTHING is asked at a removal step): from the start invariant `Phase1` and the pending-side invariant `PCI` (an unmined
    credit of another wallet belongs to a pending transaction at an output paying a managed address, none belongs to a
    chain transaction — `MW.Lemmas.RemovePend`), the finishing step leaves C01's invariant for the table without `w`. -/
theorem remove_interleaved_extensions {limit : Nat} {c : Ctx} {w : Wid} {addrs : List Addr} {own' : Own} {G : Block}
    {x0 x : ISt} {evs : List IEv} {ws' : List Wid}
    (hP : Phase1 c w G x0) (hS : Static c w addrs own') (hPCI : PCI c addrs x0.s x0.node.chain)
    (hD : DomE limit c w addrs G x0 evs) (hrun : irun limit c w addrs x0 evs = some x) (hfin : x.fin = true)
    (hws : ∀ y ∈ ws', y ∈ c.wallets) :
    Inv { c with own := own', wallets := ws', node := x.node } x.s x.node.chain :=
  MW.Lemmas.RemoveInterleave.remove_interleaved_extensions hP hS hPCI hD hrun hfin hws

/-- **remove_interleaved_reachable.**  END TO END: a C09 history inside the domain of `pending_refines` (`HOKf`) from a
    world satisfying C09's invariant with distinct keys in the credit and pending-credit buckets (the fresh wallet)
    ends in a world `W` in sync with its node; RemoveWallet is accepted there for a ready wallet `w` while another wallet
    stays ready; then ANY interleaving of removal steps, new blocks, unconfirmed transactions and restarts inside `DomE`
    that ends with the finishing step leaves C01's invariant for the table without `w` — so every later block,
    reorganisation and query is C01's theorem for the remaining keystores.  (C09's invariant carries no chain facts: the
    well-formedness of `W`'s chain is asked for.) -/
theorem remove_interleaved_reachable {rank : TxId → Nat} {E : HEnv} (evs0 : List HEv) (w0 : HW) (H0 : HInvC rank E w0)
    (hn0 : KeysNodup w0.s.credits) (hp0 : KeysNodup w0.s.pendCred)
    (hD0 : ∀ x ∈ worldsH E w0 evs0, HOKf rank E x.1 x.2)
    (W : HW) (hW : W = runH E w0 evs0) (hsync : W.node.chain = W.sp.chain)
    {G : Block} (hgood : GoodChain W.sp.chain) (hvalid : ChainValid E.own W.sp.chain) (hgen : W.sp.chain[0]? = some G)
    (hknown : ∀ y ∈ W.sp.chain, AMap.get W.node.known y.id = some y)
    {q : Nat} {ks : List Wid} {po : Bool} {w : Wid} (hgate : (removeWallet q ks po W.s w).1 = .ok)
    (hrw : (readyWallets W.s E.wallets).contains w = true)
    (hother : ∃ w', w' ≠ w ∧ (readyWallets W.s E.wallets).contains w' = true)
    {addrs : List Addr} {own' : Own} (hS : Static (E.ctx W.node) w addrs own')
    {v : Vol} (hv : v.best = tipMeta W.sp.chain)
    {limit : Nat} {evs : List IEv} {x : ISt} {ws' : List Wid}
    (hD : DomE limit (E.ctx W.node) w addrs G { s := (removeWallet q ks po W.s w).2, v := v, node := W.node } evs)
    (hrun : irun limit (E.ctx W.node) w addrs { s := (removeWallet q ks po W.s w).2, v := v, node := W.node } evs =
      some x)
    (hfin : x.fin = true) (hws : ∀ y ∈ ws', y ∈ E.wallets) :
    Inv { (E.ctx W.node) with own := own', wallets := ws', node := x.node } x.s x.node.chain :=
  MW.Lemmas.RemoveInterleave.remove_interleaved_reachable evs0 w0 H0 hn0 hp0 hD0 W hW hsync hgood hvalid hgen hknown hgate
    hrw hother hS hv hD hrun hfin hws

/-- **remove_connect_simulation** — the structural heart of the extension step, for ARBITRARY stores: if `filterBlock`
    succeeds on a store `g`, it succeeds with the same confirmed ids on every store `s` that is `g` minus records of
    script hashes no ready wallet owns (`Sub`), and the results are related in the same way (`NewEq`: the new block's
    records agree key by key; frame clauses for the old keys). -/
theorem remove_connect_simulation {addrs : List Addr} {ready : List Wid} {c : Ctx} {g s g' : Store} {b : Block}
    {conf : List TxId} (hSub : Sub addrs g s) (hng : KeysNodup g.credits) (hns : KeysNodup s.credits)
    (hF : Fresh ⟨b.height, b.id⟩ g) (hFs : AMap.get s.blocks b.height = none) (hC : CoinsOK addrs ready g)
    (hfind : ∀ id, existCreditFromTx g id = true → (c.node.fetchTx id).isSome = true)
    (hown : ∀ (id : TxId) (pt : Tx) (idx : Nat) (o : Out) (w' : Wid) (ch : Bool), existCreditFromTx g id = true →
      existCreditFromTx s id = false → c.node.fetchTx id = some pt → pt.outs[idx]? = some o → o.cls ≠ .raw →
      AMap.get c.own o.addr = some (w', ch) → ready.contains w' = false)
    (hrel : ∀ a w' ch, AMap.get c.own a = some (w', ch) → ready.contains w' = true → addrs.contains a = false)
    (hg : filterBlock c g ready b = .ok (g', conf)) :
    ∃ s', filterBlock c s ready b = .ok (s', conf) ∧ Sub addrs g' s' ∧ NewEq ⟨b.height, b.id⟩ g' s' := by
  obtain ⟨s', h1, h2, h3, _⟩ := filterBlock_sim hSub hng hns hF hFs hC hfind hown hrel hg
  exact ⟨s', h1, h2, h3⟩

/-- non-vacuity of `remove_interleaved_ext`: reorganisation, step, a NEW BLOCK in which W1 spends and is paid, step -/
example : (irun 1 MW.Lemmas.RemoveMidCex.ctx "W2" ["A2"] MW.Lemmas.RemoveMidCex.x0
    MW.Lemmas.RemoveInterleave3Ex.evsD).isSome = true := MW.Lemmas.RemoveInterleave3Ex.runD_some

/-- the hypotheses of the full statement (plus: the flagged wallet's balance entry is still its ledger total, some
    wallet is ready) give the start invariant `Phase1` -/
theorem remove_interleaved_start {c : Ctx} {w : Wid} {addrs : List Addr} {own' : Own} {G : Block} {x0 : ISt}
    (hKN : KeysNodup c.own) (H : RemHyp c w addrs own' c.node.chain)
    (hg : GoodChain c.node.chain) (hgen : c.node.chain[0]? = some G)
    (hnode : x0.node = c.node) (hfin : x0.fin = false) (hbest : x0.v.best = tipMeta c.node.chain)
    (hI : Inv c x0.s c.node.chain) (hn : KeysNodup x0.s.credits)
    (hflag : AMap.get x0.s.status w = some ⟨none, true⟩)
    (hothers : ∀ a w' ch, AMap.get c.own a = some (w', ch) → w' ≠ w →
      (readyWallets x0.s c.wallets).contains w' = true)
    (hbalw : AMap.get x0.s.balance w = some (totalU (bookOf c.p c.own c.node.chain).L w))
    (hrne : (readyWallets x0.s c.wallets).isEmpty = false) : Phase1 c w G x0 :=
  phase1_of_inv hKN H hg hgen hnode hfin hbest hI hn hflag hothers hbalw hrne

/-- **remove_mid_step_upper** — the in-progress invariant relative to an ABSTRACT upper book (`MidU`, `UpperOK`): every
    RemoveRelevantTx keeps it; `Mid` is the instance `U = bookOf c.p c.own chain` (`upperOK_bookOf`, `mid_to_midU`). -/
theorem remove_mid_step_upper {c : Ctx} {w : Wid} {addrs : List Addr} {own' : Own} {chain : List Block} {U : Book}
    (limit : Nat) (H : RemHyp c w addrs own' chain) (HU : UpperOK c w own' chain U) {s : Store}
    (hM : MidU c w addrs own' s chain U) {o : StepOut} (h : removeRelevantTx limit c s addrs = some o) :
    MidU c w addrs own' o.s chain U ∧
      (o.finish = true → ∀ k cr, AMap.get o.s.credits k = some cr → isW c.own w cr.sh = false) :=
  mid_step_U limit H HU hM h

/-- the finishing step, from `MidU` for any upper book satisfying `UpperOK` -/
theorem remove_finish_projects_upper {c : Ctx} {w : Wid} {addrs : List Addr} {own' : Own} {chain : List Block} {U : Book}
    (limit : Nat) (H : RemHyp c w addrs own' chain) (HU : UpperOK c w own' chain U) {s : Store}
    (hM : MidU c w addrs own' s chain U) (ws' : List Wid) (hws : ∀ x ∈ ws', x ∈ c.wallets)
    {o : StepOut} (h : removeStep limit c w addrs s = some o) (hf : o.finish = true) :
    Inv { c with own := own', wallets := ws' } o.s chain := finish_projects_U limit H HU hM ws' hws h hf

/-- **remove_upper_join** — the joined book (other wallets for the whole chain ⊕ `w` up to the flag height `k`) is an
    upper book: everything the removal proofs use about the books of a chain holds of it. -/
theorem remove_upper_join {c : Ctx} {w : Wid} {addrs : List Addr} {own' : Own} {chain : List Block} {k : Nat}
    (H : RemHyp c w addrs own' chain) (hKN : KeysNodup c.own) (hk : k + 1 ≤ chain.length) :
    UpperOK c w own' chain (joinBookK c w own' chain k) := upperOK_join H hKN hk

end Round5


-- ------------------------------------------------------------------ Round 7: reorganisations BELOW the floor, step by step
section Round7
open MW.Lemmas.RemoveSim MW.Lemmas.RemoveSimW MW.Lemmas.RemoveKeep MW.Lemmas.RemoveUpper MW.Lemmas.RemoveInv
  MW.Lemmas.RemoveInterleave MW.Lemmas.Ledger MW.Lemmas.LedgerWFCred MW.Spec.Chain MW.Spec.Books

/-- **remove_relaxed_step** (step 1 towards the full interleaving statement).  `SubW w addrs g s`: the real store `s` is
    the ghost store `g` (the store as it would be had no removal step run) minus credits paying `addrs` — each with its
    debit (`debGone`) —, minus tx records, with the block records trimmed accordingly (`BlkRel`); the buckets keyed by
    wallet id agree OFF `w` only (after a rollback below the floor the entries of `w` are stale on the real store).  A
    removal step that does not finish keeps the relation (the ghost is fixed). -/
theorem remove_relaxed_step {limit : Nat} {c : Ctx} {w : Wid} {addrs : List Addr} {g s : Store} {o : StepOut}
    (hne : addrs ≠ []) (hG : SubW w addrs g s) (hn : KeysNodup s.credits) (hGD : GhostDeb g) (hGB : GhostBlk g)
    (h : removeStep limit c w addrs s = some o) (hf : o.finish = false) : SubW w addrs g o.s :=
  subW_removeStep_parked hne hG hn hGD hGB h hf

/-- non-vacuity: the first step (size 1) of the D45 history — the real store then lacks the credit (C1, B1, 1) and the
    debit (X3, B2, 1) which the ghost has -/
example : SubW "W2" ["A2"] MW.Lemmas.RemoveMidCex.stF s1 ∧
    AMap.get s1.credits ⟨"C1", ⟨1, "B1"⟩, 1⟩ = none ∧
    (AMap.get MW.Lemmas.RemoveMidCex.stF.credits ⟨"C1", ⟨1, "B1"⟩, 1⟩).isSome = true := ⟨subW_s1, s1_lacks.1, s1_lacks.2.1⟩

/-- **remove_disconnect_below** (step 2).  ONE block disconnected under the relaxed relation, WITHOUT `NewEq` (the
    records under the block need not agree: the block may have been connected before the first removal step).  `g` has
    its tip at height `h`, `s` is `g` minus records of `w`, every credit / debit left in `s` has its tx record (`Reach`,
    kept by every removal step since the D45 repair: `remove_step_keeps_reach`), the ghost's credits pay the address of
    the output they record (`GhostCV`), `addrs` are `w`'s in the keystore view (`OwnW`).  If `disconnectBlock` succeeds on
    both stores — in `irun … = some x` every notification succeeded on the real store, the ghost succeeds by
    `remove_flagged_follower_keeps` — the results are related again, and `Reach` of the new real store follows from
    `Reach` of the new ghost.  What the ghost rolls back alone (records the real store lacks) touches only entries keyed
    by `w`.  NOT decided here: whether Rollback can fail on the real store on stale entries of `w`. -/
theorem remove_disconnect_below {c : Ctx} {w : Wid} {addrs : List Addr} {g s g' s' : Store} {h : Nat}
    (hOwn : OwnW c w addrs) (hSub : SubW w addrs g s) (hR : Reach s) (hCV : GhostCV c g) (hh : g.syncedTo = h)
    (hg : disconnectBlock c g h = .ok g') (hs : disconnectBlock c s h = .ok s') :
    SubW w addrs g' s' ∧ (Reach g' → Reach s') := disconnectBlock_rel hOwn hSub hR hCV hh hg hs

/-- non-vacuity: on the D45 history the tip block B2 — connected BEFORE the first removal step; X3's debit of the
    deleted credit is under it — is disconnected on the flagged store and on the store after the first step -/
example : ∃ g' s', disconnectBlock { MW.Lemmas.RemoveMidCex.ctx with node := MW.Lemmas.RemoveMidCex.nodeB }
      MW.Lemmas.RemoveMidCex.stF 2 = .ok g' ∧
    disconnectBlock { MW.Lemmas.RemoveMidCex.ctx with node := MW.Lemmas.RemoveMidCex.nodeB } s1 2 = .ok s' ∧
    SubW "W2" ["A2"] g' s' := disconnect_ex

/-- **remove_reorg_disconnect_below** (step 3, the disconnect half of a reorganisation, ANY number of blocks).  The
    loops of reorg step 2 (disconnectDown, walkBack, the final disconnect) branch on heights, the synced-to table and the
    block files only, so two successful runs stay in lock step; `J g k` is any ghost-side invariant "the ghost follows
    the chain up to height `k`" that provides the ghost's tip height, `GhostCV`, `Reach` and is kept by the ghost's
    disconnects (instance: `FJ`, `remove_flagged_follower_keeps`). -/
theorem remove_reorg_disconnect_below {c : Ctx} {w : Wid} {addrs : List Addr} {J : Store → Nat → Prop}
    (hOwn : OwnW c w addrs)
    (hJs : ∀ g k, J g k → g.syncedTo = k ∧ GhostCV c g ∧ Reach g)
    (hJd : ∀ g g' k, 0 < k → J g k → disconnectBlock c g k = .ok g' → J g' (k - 1))
    {g s : Store} {best : BlockMeta} {nb : Block} {tc : List Block} {rg rs : Store × List Nat × List Block}
    (hJ : J g best.height) (hSub : SubW w addrs g s) (hR : Reach s)
    (hg : reorgDisconnect c g best nb tc = .ok rg) (hs : reorgDisconnect c s best nb tc = .ok rs) :
    SubW w addrs rg.1 rs.1 ∧ Reach rs.1 ∧ rs.2 = rg.2 := reorgDisconnect_subW hOwn hJs hJd hJ hSub hR hg hs

/-- **remove_connect_relaxed** (the connect half).  `filterBlock` for a ready set without `w`: if it succeeds on the
    ghost it succeeds on the real store with the same confirmed ids, and the results are related by `SubW` again
    (`remove_connect_simulation` with the wallet-keyed buckets of `w` free). -/
theorem remove_connect_relaxed {w : Wid} {addrs : List Addr} {ready : List Wid} {c : Ctx} {g s g' : Store} {b : Block}
    {conf : List TxId}
    (hSub : SubW w addrs g s) (hnr : ready.contains w = false)
    (hng : KeysNodup g.credits) (hns : KeysNodup s.credits)
    (hF : Fresh ⟨b.height, b.id⟩ g) (hFs : AMap.get s.blocks b.height = none) (hC : CoinsOK addrs ready g)
    (hfind : ∀ id, existCreditFromTx g id = true → (c.node.fetchTx id).isSome = true)
    (hown : ∀ (id : TxId) (pt : Tx) (idx : Nat) (o : Out) (w' : Wid) (ch : Bool), existCreditFromTx g id = true →
      existCreditFromTx s id = false → c.node.fetchTx id = some pt → pt.outs[idx]? = some o → o.cls ≠ .raw →
      AMap.get c.own o.addr = some (w', ch) → ready.contains w' = false)
    (hrel : ∀ a w' ch, AMap.get c.own a = some (w', ch) → ready.contains w' = true → addrs.contains a = false)
    (hdeb : ∀ dk d, AMap.get g.debits dk = some d → d.2.blk ≠ ⟨b.height, b.id⟩)
    (hg : filterBlock c g ready b = .ok (g', conf)) :
    ∃ s', filterBlock c s ready b = .ok (s', conf) ∧ SubW w addrs g' s' ∧
      KeysNodup s'.credits ∧ KeysNodup g'.credits ∧ CoinsOK addrs ready g' :=
  filterBlock_simW hSub hnr hng hns hF hFs hC hfind hown hrel hdeb hg

/-- **remove_finish_relaxed.**  The in-progress invariant with the buckets keyed by wallet id characterised OFF `w` only
    (`MidUW`; `MidU` implies it): every step keeps it, the finishing step — which deletes every entry keyed by `w` —
    gives C01's invariant for the context without the keystore, the worker loop likewise. -/
theorem remove_finish_relaxed {c : Ctx} {w : Wid} {addrs : List Addr} {own' : Own} {chain : List Block} {U : Book}
    (limit : Nat) (H : RemHyp c w addrs own' chain) (HU : UpperOK c w own' chain U) {s : Store}
    (hM : MidUW c w addrs own' s chain U) (ws' : List Wid) (hws : ∀ x ∈ ws', x ∈ c.wallets)
    {o : StepOut} (h : removeStep limit c w addrs s = some o) (hf : o.finish = true) :
    Inv { c with own := own', wallets := ws' } o.s chain := finish_projects_UW limit H HU hM ws' hws h hf

theorem remove_parked_relaxed {c : Ctx} {w : Wid} {addrs : List Addr} {own' : Own} {chain : List Block} {U : Book}
    (limit : Nat) (H : RemHyp c w addrs own' chain) (HU : UpperOK c w own' chain U) {s : Store}
    (hM : MidUW c w addrs own' s chain U) {o : StepOut} (h : removeStep limit c w addrs s = some o)
    (hf : o.finish = false) : MidUW c w addrs own' o.s chain U := parked_step_UW limit H HU hM h hf

/-- non-vacuity of the two: the concrete store of `MW.Lemmas.RemoveEx` satisfies `MidU`, hence `MidUW` -/
example : MidUW MW.Lemmas.RemoveEx.ctx "W2" ["A2"] MW.Lemmas.RemoveEx.own' MW.Lemmas.RemoveEx.st MW.Lemmas.RemoveEx.chain
    (bookOf MW.Lemmas.RemoveEx.ctx.p MW.Lemmas.RemoveEx.ctx.own MW.Lemmas.RemoveEx.chain) :=
  midUW_of_midU (mid_to_midU (inv_to_mid MW.Lemmas.RemoveEx.remHyp MW.Lemmas.RemoveEx.inv MW.Lemmas.RemoveEx.st_nodup
    MW.Lemmas.RemoveEx.st_pend))

/-- **remove_disconnect_frame** — what `disconnectBlock` of the tip leaves alone, for ANY store: tx records, debits and
    credits off the tip's height are unchanged (a credit may be un-spent because a debit at the tip's height pointing at
    it went), nothing appears, the other block records stay and the tip's is gone. -/
theorem remove_disconnect_frame {c : Ctx} {s s' : Store} {h : Nat} (hh : s.syncedTo = h)
    (hd : disconnectBlock c s h = .ok s') :
    RbFrame h s s' ∧ (∀ h', h' ≠ h → AMap.get s'.blocks h' = AMap.get s.blocks h') ∧ AMap.get s'.blocks h = none :=
  disconnectBlock_frame hh hd


/-- **remove_interleaved_below** (step 4: the assembly).  REORGANISATIONS OF ANY DEPTH BETWEEN THE REMOVAL STEPS — above
    or BELOW the tip the follower had at the first step, also below the height at which the wallet was flagged.  From a
    store that follows the chain with `w` flagged (`Phase1`), any history inside `DomW` (= `DomC` of
    `remove_interleaved_above` WITHOUT its floor clause: a removal step needs the pending-side clause `PendOK`; a tip
    notification announces any node state — `NodeOK`, block ids determine blocks; unconfirmed transactions anywhere; a
    restarted follower reports the stored best block) that RUNS — `irun … = some x`: every database transaction of the
    history succeeded, in particular the follower's on the real store — and ends with the finishing step leaves C01's
    invariant for the table without `w`, on the chain the follower was last told about.
    Proof: invariant `PhaseW` = a ghost store following the chain with `w` flagged (`GhostX`) + the real store related by
    `SubW` + `Reach` + the relaxed in-progress invariant `MidCW`; a notification is run on both stores
    (`p2w_processM`: the ghost's run exists by `FJ`, the disconnect loops are in lock step, each disconnected block is
    `p2w_disc` — `remove_disconnect_below` + `midUW_shrink`, the ghost height drops when the block was at it — each
    connected block `p2w_connect`).  This closes gap (1) of Round 6 for `remove_interleaved_projects_full`; what keeps the
    latter an open `def` is the pending side (`PendOK` at the steps is a domain clause here) and the side conditions on
    notifications / restarts, as for `remove_interleaved_above`.  NOT proved: that the follower's transaction cannot
    FAIL on the real store because of stale entries of `w` (then `irun` is `none` and the statement says nothing). -/
theorem remove_interleaved_below {limit : Nat} {c : Ctx} {w : Wid} {addrs : List Addr} {own' : Own} {G : Block}
    {x0 x : ISt} {evs : List IEv} {ws' : List Wid}
    (hP : Phase1 c w G x0) (hS : Static c w addrs own') (hD : DomW limit c w addrs G x0 evs)
    (hrun : irun limit c w addrs x0 evs = some x) (hfin : x.fin = true) (hws : ∀ y ∈ ws', y ∈ c.wallets) :
    Inv { c with own := own', wallets := ws', node := x.node } x.s x.node.chain :=
  MW.Lemmas.RemoveInterleave.remove_interleaved_below hP hS hD hrun hfin hws

/-- non-vacuity: the D45 history (removal step · the node replaces B1 and B2, connected before the first step · finishing
    step) is inside `DomW`, it runs, and — by the general theorem, not by evaluation — ends in C01's invariant for W1
    alone on chain B -/
example (x : ISt) (h : irun 1 MW.Lemmas.RemoveMidCex.ctx "W2" ["A2"] MW.Lemmas.RemoveMidCex.x0
      MW.Lemmas.RemoveMidCex.evs = some x) :
    x.node = MW.Lemmas.RemoveMidCex.nodeB ∧
    Inv { MW.Lemmas.RemoveMidCex.ctx with own := MW.Lemmas.RemoveMidCex.own', wallets := ["W1"], node := x.node } x.s
      x.node.chain := MW.Lemmas.RemoveBelowEx.d45_history_inv x h

/-- **remove_notify_below** — one tip notification (extension or reorganisation of any depth) between two removal steps:
    if its database transaction succeeded on the real store, the in-progress state holds for the announced chain -/
theorem remove_notify_below {limit : Nat} {c : Ctx} {w : Wid} {addrs : List Addr} {own' : Own} {G : Block} {x x' : ISt}
    {n : Node} {b : Block} (hS : Static c w addrs own') (hP : PhaseW c w addrs own' G x)
    (hN : NodeOK c.own G x.node.known n b) (hinj : IdInj (x.node.chain ++ n.chain))
    (hg0 : b.height = 0 → b.prev ≠ x.v.best.hash)
    (h : istep limit c w addrs x (.notify n b) = some x') : PhaseW c w addrs own' G x' :=
  phaseW_notify hS hP hN hinj hg0 h


/-- **remove_interleaved_below_from_inv** — `remove_interleaved_below` stated from the hypotheses of the full statement
    `remove_interleaved_projects_full` (C01's invariant for the full keystore table, `w` flagged, every other keystore's
    wallet ready, …) plus: the flagged wallet's balance entry is its ledger total, some wallet is ready, and the history is
    inside `DomW`.  The differences to the open `def` are exactly these three. -/
theorem remove_interleaved_below_from_inv (limit : Nat) (c : Ctx) (w : Wid) (addrs : List Addr) (own' : Own) (G : Block)
    (x0 x : ISt) (evs : List IEv) (ws' : List Wid)
    (hKN : KeysNodup c.own) (H : RemHyp c w addrs own' c.node.chain) (hg : GoodChain c.node.chain)
    (hgen : c.node.chain[0]? = some G) (hnode : x0.node = c.node) (hfin : x0.fin = false)
    (hbest : x0.v.best = tipMeta c.node.chain) (hI : Inv c x0.s c.node.chain) (hn : KeysNodup x0.s.credits)
    (hflag : AMap.get x0.s.status w = some ⟨none, true⟩)
    (hothers : ∀ a w' ch, AMap.get c.own a = some (w', ch) → w' ≠ w →
      (readyWallets x0.s c.wallets).contains w' = true)
    (hbalw : AMap.get x0.s.balance w = some (totalU (bookOf c.p c.own c.node.chain).L w))
    (hrne : (readyWallets x0.s c.wallets).isEmpty = false)
    (hD : DomW limit c w addrs G x0 evs) (hws : ∀ y ∈ ws', y ∈ c.wallets)
    (hrun : irun limit c w addrs x0 evs = some x) (hfinx : x.fin = true) :
    Inv { c with own := own', wallets := ws', node := x.node } x.s x.node.chain :=
  MW.Lemmas.RemoveInterleave.remove_interleaved_below
    (phase1_of_inv hKN H hg hgen hnode hfin hbest hI hn hflag hothers hbalw hrne) ⟨H.minus, H.managed, H.ne, hKN⟩ hD hrun
    hfinx hws


/-- non-vacuity: every hypothesis, on the D45 history -/
example (x : ISt) (h : irun 1 MW.Lemmas.RemoveMidCex.ctx "W2" ["A2"] MW.Lemmas.RemoveMidCex.x0
      MW.Lemmas.RemoveMidCex.evs = some x) (hf : x.fin = true) :
    Inv { MW.Lemmas.RemoveMidCex.ctx with own := MW.Lemmas.RemoveMidCex.own', wallets := ["W1"], node := x.node } x.s
      x.node.chain :=
  remove_interleaved_below_from_inv 1 MW.Lemmas.RemoveMidCex.ctx "W2" ["A2"] MW.Lemmas.RemoveMidCex.own'
    MW.Lemmas.RemoveMidCex.g MW.Lemmas.RemoveMidCex.x0 x MW.Lemmas.RemoveMidCex.evs ["W1"]
    MW.Lemmas.RemoveMidCex.own_nodup MW.Lemmas.RemoveMidCex.remHyp MW.Lemmas.RemoveMidCex.goodA rfl rfl rfl rfl
    MW.Lemmas.RemoveMidCex.inv_stF MW.Lemmas.RemoveMidCex.stF_nodup MW.Lemmas.RemoveMidCex.stF_flagged
    MW.Lemmas.RemoveMidCex.others_ready (by decide)
    (by show (readyWallets MW.Lemmas.RemoveMidCex.stF ["W1", "W2"]).isEmpty = false
        rw [MW.Lemmas.RemoveMidCex.readyF]; rfl)
    MW.Lemmas.RemoveBelowEx.domW MW.Lemmas.RemoveInterleave2Ex.only_w1 h hf

end Round7

-- ------------------------------------------------------------------ byte level (Round 4): id-prefix scans on real byte keys
section Codec
open MW.Model.TxmgrCodec MW.TxmgrCodec MW.Gen.Codec

/-- RemoveUnspentByWalletId: deleteByPrefix([]byte(walletId)) hits exactly the unspent keys of that wallet -/
theorem codec_scan_unspent_by_wallet (w : Bytes) (u : UnspentKeyB) (hw : w.length = 42) (hu : u.WF = true) :
    w.isPrefixOf (canonicalUnspentKey u) = true ↔ u.wallet = w := scan_unspent_by_wallet w u hw hu
/-- RemoveAddressByWalletId / fetchAddressesByWalletId -/
theorem codec_scan_addresses_by_wallet (w : Bytes) (a : AddrKeyB) (hw : w.length = 42) (ha : a.WF = true) :
    w.isPrefixOf (encode wKeyAddressRecord a.vals) = true ↔ a.wallet = w := scan_addresses_by_wallet w a hw ha
example : (⟨List.replicate 42 0xff, List.replicate 32 0xff, 0⟩ : UnspentKeyB).WF = true ∧
    (⟨List.replicate 42 0xff, 1, [0x6d, 0x73]⟩ : AddrKeyB).WF = true := by decide
end Codec

end MW.Props.C08
