import MW.Model.Remove
namespace MW.Props.C08
end MW.Props.C08
