/-
  C19 — No client request or chain event can crash or silently stall the wallet.

  Model: MW.Model.Api (the partial-operation skeleton of every function of the anchored files, in the
  language of MW.Model.ApiDsl). Facts: MW.Gen.Sites (regenerated from the Go source on every run).
  Lemmas: MW.Lemmas.ApiSound (soundness of the static checker), MW.Lemmas.ApiSafe* (the checker accepts
  every entry point; reflective proofs evaluated by the kernel), MW.Lemmas.ApiStall (inversion of `run`,
  the output step of filterTx never returns).

  What `run` can end in:  `.ok _` (the handler answered: a response or an error class in `out`),
  `.error (.contract f)` (an answer of code OUTSIDE the anchored files broke the contract the skeleton
  states for it – the explicit assumptions of this property, see notes/C19.md), `.error .fuel`
  (evaluation budget, not a behaviour), `.error (.unknownFn _)` (cannot happen: `fnIndex_ok`), and
  `.error (.panic kind text)` – a Go run-time panic at the site `text`. The theorems say the last one is
  impossible for every request, every wallet state and every block / transaction.
-/
import MW.Lemmas.ApiSound
import MW.Lemmas.ApiSafe
import MW.Lemmas.ApiStall
import MW.Lemmas.ApiBackedEx
import MW.Lemmas.ApiBackedLedger2
import MW.Lemmas.ApiGhostEx
import MW.Gen.Sites
namespace MW.Props.C19
open MW.Model.Api MW.Lemmas.ApiSound MW.Lemmas.ApiSafe
open MW.Lemmas.ApiStall (supportedOracle)
open MW.Lemmas.ApiContracts (CallNode Holds progCalls)
open MW.Lemmas.ApiBacked (Backed ScriptBacked LedgerBacked AmountBacked KeystoreBacked isBacked backedOracle)

/-- TIE B. The skeleton model contains exactly the partial-operation sites (index, slice, map assignment,
    dereference of a possibly-nil result, type assertion, request-field conversion) that the extractor finds
    in today's source, function by function, in evaluation order. A site added, removed or moved in the Go
    code breaks this theorem. -/
theorem sites_match : siteTable = MW.Gen.Sites.table := by decide +kernel

/-- the position constants `Fn.*` used by `invoke` (generated from the source, MW.Gen.ApiFn) and the generated
    site table list the same functions in the same order, and every hand-written skeleton is attached to a
    position of that table -/
theorem fnIndex_ok : Fn.keys = MW.Gen.Sites.table.map (·.1) ∧ Fn.keys.length = Fn.count ∧
    bodies.all (fun p => decide (p.1 < Fn.count)) = true := by decide +kernel

/-- every table position is defined: `invoke` of a table index never ends in `unknownFn` (a function of the
    anchored files without a hand-written skeleton has the empty one – admissible exactly when it has no
    site, which `sites_match` checks) -/
theorem progs_total (f : Nat) (h : f < Fn.count) : (prog f).isSome = true := by
  unfold prog
  split <;> simp [h]

/-- SOUNDNESS OF THE CHECKER (all programs, all skeletons): a skeleton the checker accepts from no
    assumptions never panics – for every initial state (= every argument tuple and every wallet / store /
    chain state the abstract values stand for), every oracle (= every behaviour of the code outside the
    anchored files) and every evaluation budget. `X`/`I`: result / input variables of functions (they only
    make the checker forget facts), `C`: functions declared closed, each accepted from no assumptions. -/
theorem skeleton_safe (P : Prog) (X I : Nat → List Var) (C : Nat → Bool) (hC : ClosedOK P X I C)
    (s : Stmt) (fuel : Nat) (h : safe P X I C fuel s = true)
    (O : Oracle) (n : Nat) (σ : State) (kind text : String) :
    run P O n s σ ≠ .error (.panic kind text) :=
  safe_never_panics P X I C hC s fuel h O n σ kind text

/-- the closed functions of the model are accepted from no assumptions (69 kernel evaluations) -/
theorem closed_functions_ok : ClosedOK prog exports imports closed := closed_ok

/-- non-vacuity of `skeleton_safe`'s hypothesis: a skeleton with a guarded index operation is accepted,
    the same skeleton without the guard is rejected -/
example : safe prog exports imports closed 20 (.ite (.atom (.le (V "xs") (V "i"))) .ret (.site "index" "xs[i]" (some (.lt (V "i") (V "xs"))))) = true := by
  decide +kernel
example : safe prog exports imports closed 20 (.site "index" "xs[i]" (some (.lt (V "i") (V "xs")))) = false := by decide +kernel
/-- … and an unguarded index operation really panics in the semantics (the checker is not vacuous) -/
example : run prog (fun _ _ => []) 5 (.site "index" "xs[i]" (some (.lt (V "i") (V "xs")))) (fun _ => 0)
    = .error (.panic "index" "xs[i]") := by rfl

/-- HANDLER TOTALITY. For every gRPC handler of api/wallet_service.go and api/tx_service.go (33 methods:
    all of the service except the three block queries of block_service.go, which is not anchored), the run
    of its skeleton – with the skeletons of all WalletManager / follower functions it calls executed in
    place – never ends in a panic: whatever the request fields (lengths, hex-ness, amounts, ids, indexes,
    flags: the initial state and the `in.*` oracle answers), whatever wallet is or is not in use, importing
    or being removed, whatever coins are pending, spent or reserved (the answers of the keystore / txmgr /
    node oracles). -/
theorem handler_total (r : Nat) (hr : r ∈ rootIdList) (O : Oracle) (n : Nat) (σ : State) (kind text : String) :
    run prog O n (.invoke r) σ ≠ .error (.panic kind text) :=
  skeleton_safe prog exports imports closed closed_ok (.invoke r) checkFuel (roots_safe r hr) O n σ kind text

/-- the entry points `handler_total` / `follower_total` quantify over are the ones listed in
    `MW.Model.Api.roots` (33 handlers, then the follower / worker / start-up / shutdown paths) -/
theorem roots_are : rootIdList = roots.filterMap fnOf := rootIdList_eq

/-- FOLLOWER TOTALITY. Every block and unconfirmed transaction the node can deliver is processed by
    `handle` → `processConnectedBlock` (extend and reorganise) / `proccessReceivedTx` → `filterBlock` /
    `filterTx`, and every import / removal task by `worker` → `asyncImport` / `asyncRemove`, without a
    panic; so are start-up (`WalletManager.Start`: catch-up, task queue) and shutdown. Same statement as
    `handler_total`, named for the follower entry points. -/
theorem follower_total (O : Oracle) (n : Nat) (σ : State) (kind text : String) :
    run prog O n (.invoke Fn.handle) σ ≠ .error (.panic kind text) ∧
    run prog O n (.invoke Fn.worker) σ ≠ .error (.panic kind text) ∧
    run prog O n (.invoke Fn.processConnectedBlock) σ ≠ .error (.panic kind text) ∧
    run prog O n (.invoke Fn.proccessReceivedTx) σ ≠ .error (.panic kind text) ∧
    run prog O n (.invoke Fn.asyncImport) σ ≠ .error (.panic kind text) ∧
    run prog O n (.invoke Fn.asyncRemove) σ ≠ .error (.panic kind text) ∧
    run prog O n (.invoke Fn.Start_wallet) σ ≠ .error (.panic kind text) :=
  ⟨skeleton_safe _ _ _ _ closed_ok _ _ safe_handle O n σ kind text, skeleton_safe _ _ _ _ closed_ok _ _ safe_worker O n σ kind text,
   skeleton_safe _ _ _ _ closed_ok _ _ safe_processConnectedBlock O n σ kind text,
   skeleton_safe _ _ _ _ closed_ok _ _ safe_proccessReceivedTx O n σ kind text,
   skeleton_safe _ _ _ _ closed_ok _ _ safe_asyncImport O n σ kind text, skeleton_safe _ _ _ _ closed_ok _ _ safe_asyncRemove O n σ kind text,
   skeleton_safe _ _ _ _ closed_ok _ _ safe_Start_wm O n σ kind text⟩

/-- the trichotomy behind "a response or an error, never a panic": a run of a handler ends in a value
    (normal end or `return`: the class is in `out`), in a broken contract of outside code, or out of budget -/
theorem handler_outcome (r : Nat) (hr : r ∈ rootIdList) (O : Oracle) (n : Nat) (σ : State) :
    (∃ fl, run prog O n (.invoke r) σ = .ok fl) ∨ (∃ f, run prog O n (.invoke r) σ = .error (.contract f)) ∨
    run prog O n (.invoke r) σ = .error .fuel ∨ (∃ f, run prog O n (.invoke r) σ = .error (.unknownFn f)) := by
  have h := handler_total r hr O n σ
  cases hrun : run prog O n (.invoke r) σ with
  | ok fl => exact Or.inl ⟨fl, rfl⟩
  | error e =>
    cases e with
    | panic k t => exact absurd hrun (h k t)
    | contract f => exact Or.inr (Or.inl ⟨f, rfl⟩)
    | fuel => exact Or.inr (Or.inr (Or.inl rfl))
    | unknownFn f => exact Or.inr (Or.inr (Or.inr ⟨f, rfl⟩))

-- ------------------------------------------------------------------ no_stall

/-- C16's contract as a hypothesis on the oracle: `utils.ParsePkScript` either succeeds or fails with
    ErrUnsupportedScript (outs = [ps, pserr, pserr.unsupported]); it has no other failure. (C16 proves the
    classification total; the D6 / D15 fixes made the wallet report every non-template script and every
    binding target without address form as unsupported.) -/
structure C16Contract (O : Oracle) : Prop where
  parse_total : ∀ σ, (O "utils.ParsePkScript" σ).getD 1 0 = 0 ∨ (O "utils.ParsePkScript" σ).getD 2 0 ≠ 0

/-- the hypothesis is satisfiable: an oracle that calls every script unsupported -/
example : C16Contract (fun f _ => if f = "utils.ParsePkScript" then [0, 1, 1] else []) :=
  ⟨fun _ => Or.inr (by simp)⟩

/-- NO STALL, full statement: under C16's contract and a keystore lookup that does not fail, one step of
    filterTx's output loop never leaves the loop with an error – so a block is never refused because of the
    script of one of its outputs. For EVERY evaluation budget `n`, BOTH branches: an unsupported script is
    skipped (`continue`); for a supported script `merr = nil`, so `if merr != nil { return }` is not taken
    and the step ends normally. (The run can still end in `Fault.contract "utils.ParsePkScript"` – success
    with a nil script class – or out of budget; neither is a return.) -/
theorem no_stall_full :
  ∀ (O : Oracle) (n : Nat) (σ : State), C16Contract O →
    (∀ τ, (O "w.ksmgr.GetManagedAddressByScriptHash" τ).getD 1 0 = 0) →
    ∀ τ, run prog O n filterTxOutStep σ ≠ .ok (.retd τ) :=
  fun O n σ hc hk τ => MW.Lemmas.ApiStall.filterTxOutStep_no_retd prog O n σ hc.parse_total hk τ

/-- NO STALL, the whole loop: the statement `for … range tx.TxOut { filterTxOutStep }` exactly as it stands in
    `f_filterTx` (MW.Model.Api, with its declared invariant) is never left by `return`, for any number of
    outputs, any budget, any oracle meeting C16's contract and a keystore lookup that does not fail: filterTx
    goes on to its classification of the transaction whatever the scripts of the outputs are. -/
theorem no_stall_loop (O : Oracle) (n : Nat) (σ : State) (hc : C16Contract O)
    (hk : ∀ τ, (O "w.ksmgr.GetManagedAddressByScriptHash" τ).getD 1 0 = 0) :
    ∀ τ, run prog O n (.loop "ft.o" "tx.TxOut" [.nz "rec"] filterTxOutStep) σ ≠ .ok (.retd τ) :=
  fun τ => MW.Lemmas.ApiStall.filterTxOutLoop_no_retd prog O n σ _ hc.parse_total hk τ

/-- the hypotheses of `no_stall_full` are jointly satisfiable by an oracle that takes the supported-script
    branch (`MW.Lemmas.ApiStall.supportedOracle`: ps = 1, pserr = 0; ma = 1, merr = 0) -/
example : C16Contract supportedOracle ∧ (∀ τ, (supportedOracle "w.ksmgr.GetManagedAddressByScriptHash" τ).getD 1 0 = 0) ∧
    ∀ σ, (supportedOracle "utils.ParsePkScript" σ).getD 1 0 = 0 ∧ (supportedOracle "utils.ParsePkScript" σ).getD 0 0 ≠ 0 :=
  ⟨⟨fun _ => Or.inl (by simp [supportedOracle])⟩, fun _ => by simp [supportedOracle], fun _ => by simp [supportedOracle]⟩

/-- … and for it the step really runs through that branch and ends normally (budget 7 = depth of the
    branch; 6 ends in `Fault.fuel`), with `ps`, `ma` set and `err` untouched: `no_stall_full` is not vacuous
    on the branch it adds to `no_stall_partial` -/
example : ∃ τ, run prog supportedOracle 7 filterTxOutStep (fun _ => 0) = .ok (.norm τ) ∧
    τ "ps" = 1 ∧ τ "ma" = 1 ∧ τ "merr" = 0 ∧ τ "err" = 0 := by
  simp [supportedOracle, filterTxOutStep, run, setMany, onOk, Clause.eval, Atom.eval, Cond.eval, nz, State.set, V, D, ifR]

/-- NO STALL (partial: the unsupported-script branch). When ParsePkScript reports ErrUnsupportedScript the
    step ends normally with `err` untouched: the loop goes on to the next output and filterTx / filterBlock
    do not fail because of that script. (Kept; `no_stall_full` above now covers both branches and every
    budget.) -/
theorem no_stall_partial (O : Oracle) (n : Nat) (σ : State)
    (hu : (O "utils.ParsePkScript" σ).getD 1 0 ≠ 0 ∧ (O "utils.ParsePkScript" σ).getD 2 0 ≠ 0) :
    ∀ τ, run prog O (n + 6) filterTxOutStep σ ≠ .ok (.retd τ) := by
  intro τ
  obtain ⟨h1, h2⟩ := hu
  generalize hO : O "utils.ParsePkScript" σ = ans at h1 h2
  match ans, h1, h2 with
  | [], h1, _ => simp at h1
  | [_], h1, _ => simp at h1
  | [_, _], _, h2 => simp at h2
  | a :: b :: c :: rest, h1, h2 =>
    simp only [List.getD_cons_succ, List.getD_cons_zero] at h1 h2
    simp [filterTxOutStep, run, hO, setMany, onOk, Clause.eval, Atom.eval, Cond.eval, nz, State.set, h1, h2, V]

/-- the hypothesis of `no_stall_partial` is satisfiable -/
example : ∃ (O : Oracle) (σ : State), (O "utils.ParsePkScript" σ).getD 1 0 ≠ 0 ∧ (O "utils.ParsePkScript" σ).getD 2 0 ≠ 0 :=
  ⟨fun _ _ => [0, 1, 1], fun _ => 0, by simp⟩

-- ------------------------------------------------------------------ the contracts of outside code, reduced

/-- THE CONTRACT TABLE IS COMPLETE AND EXACT: every call node of the model that carries a contract is a driver
    mark or belongs to a callee classified in `MW.Lemmas.ApiBacked.classTable` (model / modelOpen / goLang /
    external / internal); the table names no callee twice and none the model does not call with a contract. -/
theorem contracts_classified :
    progCalls.all (fun c => c.2.2.isEmpty || MW.Lemmas.ApiBacked.isMark c.1 || (MW.Lemmas.ApiBacked.classOf c.1).isSome) = true ∧
    (MW.Lemmas.ApiBacked.classTable.map (·.1)).Nodup ∧
    MW.Lemmas.ApiBacked.classTable.all (fun p => progCalls.any (fun c => c.1 == p.1 && !c.2.2.isEmpty)) = true :=
  ⟨MW.Lemmas.ApiBacked.classTable_complete, MW.Lemmas.ApiBacked.classTable_exact⟩

/-- WHY A RUN ENDS IN `Fault.contract g` (every table, oracle, budget): it passed a call node of `g` in a state
    where the oracle's answer broke that node's contract -/
theorem contract_fault_inv (P : Prog) (O : Oracle) (n : Nat) (s : Stmt) (σ : State) (g : String)
    (h : run P O n s σ = .error (.contract g)) :
    ∃ c, MW.Lemmas.ApiContracts.Occurs P s c ∧ c.1 = g ∧ ∃ τ, ¬ MW.Lemmas.ApiContracts.HoldsAt O c τ :=
  MW.Lemmas.ApiContracts.fault_inv P O n s σ _ h

/-- CONTRACT (script, from the C16 model): `err == nil → ps != nil` at every `utils.ParsePkScript` node, when the
    answer is computed by `MW.Model.Script.parsePkScript` from some script -/
theorem contract_script_ParsePkScript (O : Oracle) (h : ScriptBacked O) :
    ∀ c ∈ MW.Lemmas.ApiBacked.parseNodes, Holds O c := MW.Lemmas.ApiBacked.contract_script_ParsePkScript h

/-- … and C16's classification result, the hypothesis `C16Contract` of `no_stall_full`, is then a theorem -/
theorem contract_script_C16 (O : Oracle) (h : ScriptBacked O) : C16Contract O :=
  ⟨MW.Lemmas.ApiBacked.script_backed_total h⟩

/-- CONTRACT (ledger, from C01's invariant): the five clauses of `w.txStore.ExistsTx` – in particular
    `err == nil → vout < len(prevTx.TxOut)`: under `Inv c s chain` and `ChainValid` a credit / unspent entry belongs
    to an existing output of a transaction of the chain – when the answer is computed by
    `MW.Model.ApiLedger.existsTx` on such a store for the outpoint index the skeleton holds in `vout` -/
theorem contract_ledger_ExistsTx (O : Oracle) (h : LedgerBacked O) : Holds O MW.Lemmas.ApiBacked.existsTxNode :=
  MW.Lemmas.ApiBacked.contract_ledger_ExistsTx h

theorem contract_ledger_ExistUnminedTx (O : Oracle) (h : LedgerBacked O) :
    Holds O MW.Lemmas.ApiBacked.existUnminedNode := MW.Lemmas.ApiBacked.contract_ledger_ExistUnminedTx h

/-- the model-level fact behind it: a successful ExistsTx returns a transaction that has the requested output -/
theorem ledger_existsTx_index {c : MW.Model.Ledger.Ctx} {s : MW.Model.Ledger.Store} {chain : List MW.Model.Ledger.Block}
    (hI : MW.Lemmas.Ledger.Inv c s chain) (hV : MW.Lemmas.Ledger.ChainValid c.own chain)
    (hid : MW.Lemmas.ApiBacked.TxIdsAgree chain c.node) {len : MW.Model.Ledger.Tx → Nat} {cur tx : String} {idx : Nat}
    {t : MW.Model.Ledger.Tx} {blk : MW.Model.Ledger.BlockMeta}
    (h : MW.Model.ApiLedger.existsTx len s c.node cur tx idx = some (t, blk)) : idx < t.outs.length ∧ t.id = tx :=
  MW.Lemmas.ApiBacked.existsTx_index hI hV hid h

/-- … with C01's own hypotheses only (no `TxIdsAgree`): when the wallet's chain is a prefix of the node's valid best
    chain – the follower is level with the node or behind it on the same branch – ids name one transaction because a
    valid chain has no duplicate transaction id (`txIdsAgree_of_prefix`) -/
theorem ledger_existsTx_index_prefix {c : MW.Model.Ledger.Ctx} {s : MW.Model.Ledger.Store} {chain rest : List MW.Model.Ledger.Block}
    (hI : MW.Lemmas.Ledger.Inv c s chain) (hN : c.node.chain = chain ++ rest)
    (hV : MW.Lemmas.Ledger.ChainValid c.own c.node.chain) {len : MW.Model.Ledger.Tx → Nat} {cur tx : String} {idx : Nat}
    {t : MW.Model.Ledger.Tx} {blk : MW.Model.Ledger.BlockMeta}
    (h : MW.Model.ApiLedger.existsTx len s c.node cur tx idx = some (t, blk)) : idx < t.outs.length ∧ t.id = tx :=
  MW.Lemmas.ApiBacked.existsTx_index_prefix hI hN hV h

/-- its hypotheses hold for the worked store (node chain = wallet chain G – b1 – c2, `rest = []`) with a successful lookup -/
example : MW.Lemmas.ApiBacked.exCtx.node.chain = MW.Lemmas.ApiBacked.exChain ++ [] ∧
    MW.Lemmas.Ledger.ChainValid MW.Lemmas.ApiBacked.exCtx.own MW.Lemmas.ApiBacked.exCtx.node.chain ∧
    (MW.Model.ApiLedger.existsTx MW.Lemmas.ApiBacked.exLen MW.Lemmas.ApiBacked.exStore MW.Lemmas.ApiBacked.exCtx.node "w1" "c1" 0).isSome = true :=
  ⟨rfl, MW.Lemmas.ApiBacked.exValid, by rw [MW.Lemmas.ApiBacked.exExists0]; rfl⟩

/-- CONTRACTS (amount, from the C15 model): `strings.Split(s, ".")` has ≥ 1 part (Dec.splitDot), the decimal string
    of `u + 10^8` has ≥ 9 digits (Dec.render) -/
theorem contract_amount (O : Oracle) (h : AmountBacked O) :
    Holds O MW.Lemmas.ApiBacked.splitNode ∧ Holds O MW.Lemmas.ApiBacked.stringNode :=
  ⟨MW.Lemmas.ApiBacked.contract_amount_Split h, MW.Lemmas.ApiBacked.contract_amount_String h⟩

/-- CONTRACTS (keystore, from the C04/C12 model): a successful `NextAddresses(…, 1, …)` returns one non-nil managed
    address (`ksNextAddresses`); the lookups `Address`, `GetAddrManager`, `GetAddrManagerByAccountID`,
    `GetManagedAddressByScriptHashInCurrent` return a value or an error -/
theorem contract_keystore (O : Oracle) (h : KeystoreBacked O) :
    Holds O MW.Lemmas.ApiBacked.nextAddressesNode ∧ ∀ c ∈ MW.Lemmas.ApiBacked.lookupNodes, Holds O c :=
  ⟨MW.Lemmas.ApiBacked.contract_keystore_NextAddresses h, MW.Lemmas.ApiBacked.contract_keystore_lookups h⟩

/-- HANDLER TOTALITY, REDUCED ASSUMPTIONS. For an oracle that answers the class-(a) callees (11 callees, 17 call-node
    variants: script, ledger, amount, keystore) by running the Lean models of C16 / C01 / C15 / C04-C12, every run of
    every entry point ends in a value, out of budget, or in a broken contract of a callee that is NOT class (a):
    no panic (`handler_total`), no `unknownFn` (every invoked position is defined), and no broken contract of a
    backed callee (proved, `contract_*`). What remains assumed is exactly the contracts of classes (a-), (b), (c), (d)
    of the table. -/
theorem handler_total_reduced (r : Nat) (hr : r ∈ rootIdList) (O : Oracle) (hB : Backed O) (n : Nat) (σ : State) :
    (∃ fl, run prog O n (.invoke r) σ = .ok fl) ∨ run prog O n (.invoke r) σ = .error .fuel ∨
    ∃ g, isBacked g = false ∧ run prog O n (.invoke r) σ = .error (.contract g) :=
  MW.Lemmas.ApiBacked.reduced_outcome hB r hr n σ

/-- the same for the follower / worker / start-up entry points by name -/
theorem follower_total_reduced (O : Oracle) (hB : Backed O) (n : Nat) (σ : State) :
    ∀ r ∈ [Fn.handle, Fn.worker, Fn.processConnectedBlock, Fn.proccessReceivedTx, Fn.asyncImport, Fn.asyncRemove, Fn.Start_wallet],
      (∃ fl, run prog O n (.invoke r) σ = .ok fl) ∨ run prog O n (.invoke r) σ = .error .fuel ∨
      ∃ g, isBacked g = false ∧ run prog O n (.invoke r) σ = .error (.contract g) :=
  fun r hr => MW.Lemmas.ApiBacked.reduced_outcome hB r (MW.Lemmas.ApiBacked.followerRoots_mem r hr) n σ

/-- `Backed` is satisfiable by an oracle that runs the models on concrete inputs, non-trivially: its ExistsTx answer
    for vout = 0 is the SUCCESS answer computed from the store reached by the worked reorganisation history of
    MW.Lemmas.LedgerHistoryEx (credit (c1, 0) of wallet "w1", one output) -/
example : Backed backedOracle ∧ ∀ σ : State, σ (V "vout") = 0 → backedOracle "w.txStore.ExistsTx" σ = [1, 1, 0, 0, 1] :=
  ⟨MW.Lemmas.ApiBacked.backedOracle_backed, MW.Lemmas.ApiBacked.backedOracle_existsTx⟩

/-- the backed callees -/
example : MW.Lemmas.ApiBacked.backedNames = ["acctM.Address", "ks.Address(from)", "strings.Split(s, \".\")", "u.String",
    "utils.ParsePkScript", "w.ksmgr.GetAddrManager", "w.ksmgr.GetAddrManagerByAccountID",
    "w.ksmgr.GetManagedAddressByScriptHashInCurrent", "w.ksmgr.NextAddresses", "w.txStore.ExistUnminedTx",
    "w.txStore.ExistsTx"] := by decide +kernel

/-- NO STALL with C16's contract PROVED instead of assumed: for a script-backed oracle only the keystore lookup
    hypothesis of `no_stall_loop` remains -/
theorem no_stall_backed (O : Oracle) (n : Nat) (σ : State) (hs : ScriptBacked O)
    (hk : ∀ τ, (O "w.ksmgr.GetManagedAddressByScriptHash" τ).getD 1 0 = 0) :
    ∀ τ, run prog O n (.loop "ft.o" "tx.TxOut" [.nz "rec"] filterTxOutStep) σ ≠ .ok (.retd τ) :=
  no_stall_loop O n σ (contract_script_C16 O hs) hk

example : ScriptBacked backedOracle := MW.Lemmas.ApiBacked.backedOracle_backed.script

-- ==================================================================== Round 5: the follower tail the driver runs, ghost state

/-- FOLLOWER TOTALITY for the statement the differential driver executes on `recvtx` (the hook VerifProcessTx enters
    proccessReceivedTx below its sync-height gate): `recvTxTail` - the term `f_proccessReceivedTx` ends with - never
    panics, for every oracle, budget and state. (Block deliveries run `.invoke Fn.processConnectedBlock`, worker steps
    `.invoke Fn.asyncImport` / `.invoke Fn.asyncRemove`: `follower_total`.) -/
theorem recv_tail_total (O : Oracle) (n : Nat) (σ : State) (kind text : String) :
    run prog O n recvTxTail σ ≠ .error (.panic kind text) :=
  skeleton_safe prog exports imports closed closed_ok recvTxTail checkFuel (by decide +kernel) O n σ kind text

/-- GHOST STATE, general theorem (every table, oracle, budget, statement, state). Let `G` be a predicate on skeleton
    states that reads only the variables `gv` and is re-established by the oracle's answer at every call node of `L`
    (`Ghost`); let the statement and the bodies of the positions `R` it can invoke keep `gv` intact except through the
    nodes of `L` (`frameOK`, a syntactic check). Then a run from a `G`-state ends in a `G`-state, and if it ends in
    `Fault.contract g` it passed a call node of `g` in a state that satisfies `G` and whose answer broke the contract:
    the invariant is carried by `run`, so a contract may rely on what an EARLIER call of the same run established. -/
theorem ghost_run_carries (P : Prog) (O : Oracle) (G : State → Prop) (gv : List Var) (L : List CallNode) (R : List Nat)
    (hG : MW.Lemmas.ApiGhost.Ghost O G gv L)
    (hP : ∀ f, R.contains f = true → ∀ body, P f = some body → MW.Lemmas.ApiGhost.frameOK gv L R body = true)
    (n : Nat) (s : Stmt) (σ : State) (hs : MW.Lemmas.ApiGhost.frameOK gv L R s = true) (h0 : G σ) :
    (∀ fl, run P O n s σ = .ok fl → G (MW.Lemmas.ApiGhost.flowState fl)) ∧
    (∀ g, run P O n s σ = .error (.contract g) →
      ∃ c, MW.Lemmas.ApiContracts.Occurs P s c ∧ c.1 = g ∧ ∃ τ, G τ ∧ ¬ MW.Lemmas.ApiContracts.HoldsAt O c τ) := by
  have h := MW.Lemmas.ApiGhost.run_carries hG hP n s σ hs h0
  refine ⟨fun fl hr => ?_, fun g hr => ?_⟩
  · rw [hr] at h; exact h
  · rw [hr] at h; exact h

/-- the ghost frame of `prevTx` / `prevTx.TxOut` covers every entry point except the follower's block / transaction
    path (filterTx assigns `prevTx = &bro.MsgTx`): all 33 gRPC handlers, worker, asyncImport, asyncRemove, … -/
theorem ghost_reach_roots :
    (roots.filter (fun k => match fnOf k with | some f => !MW.Lemmas.ApiGhostUtxo.reachU.contains f | none => true)) =
      ["masswallet/ntfnshandler.go:handle", "masswallet/ntfnshandler.go:NtfnsHandler.processConnectedBlock",
       "masswallet/ntfnshandler.go:NtfnsHandler.proccessReceivedTx", "masswallet/wallet.go:WalletManager.Start"] := by
  decide +kernel

/-- CONTRACT (ledger + ghost state; was class a-): `w.txStore.ExistsUtxo` - `oerr == nil → flags != nil ∧
    vout < len(prevTx.TxOut)`, where the length was read by an EARLIER call of the run. Ghost state: which transaction a
    non-nil `prevTx` denotes (`W.obj`); run invariant `GU W`: the shadow variable `prevTx.TxOut` holds the number of
    outputs of that transaction. If every call that writes `prevTx` / `prevTx.TxOut` keeps the shadow right (`Shadow`:
    in Go the length IS read off the pointer) and ExistsUtxo is answered by MW.Model.ApiLedger.existsUtxo - the function
    the driver executes - for the outpoint (id of that transaction, `vout`) over a store satisfying C01's `Inv` for a
    `ChainValid` chain, then no run of a gRPC handler (any position of `reachU`) from a `GU`-state (the initial state of a
    request is one) ends in `Fault.contract "w.txStore.ExistsUtxo"`. PARTIAL: for an UNMINED credit the bound is the
    world hypothesis `W.pend` (see `contract_ledger_ExistsUtxo_full`); for a mined credit it is proved from C01
    (`creditBlock_created`) and `W.ids` (an id names one transaction). -/
theorem contract_ledger_ExistsUtxo_partial (W : MW.Lemmas.ApiGhostUtxo.UtxoWorld) (O : Oracle)
    (hS : MW.Lemmas.ApiGhostUtxo.Shadow O W) (hU : MW.Lemmas.ApiGhostUtxo.UtxoBacked O W)
    (r : Nat) (hr : MW.Lemmas.ApiGhostUtxo.reachU.contains r = true) (n : Nat) (σ : State)
    (h0 : MW.Lemmas.ApiGhostUtxo.GU W σ) :
    run prog O n (.invoke r) σ ≠ .error (.contract "w.txStore.ExistsUtxo") :=
  MW.Lemmas.ApiGhostUtxo.no_ExistsUtxo_fault hS hU r hr n σ h0

/-- what is missing for the full statement: the world hypothesis `pend` as a consequence of the ledger / pending
    invariants (an unmined credit belongs to an existing output of the pending transaction of that id). C09's `PendWF`
    relates the unmined-inputs bucket to the pending set, not yet the unmined-credits bucket. -/
def contract_ledger_ExistsUtxo_full : Prop :=
  ∀ (c : MW.Model.Ledger.Ctx) (s : MW.Model.Ledger.Store) (chain : List MW.Model.Ledger.Block),
    MW.Lemmas.Ledger.Inv c s chain → ∀ (tx : String) (i : Nat) (t : MW.Model.Ledger.Tx),
      (MW.AMap.get s.pendCred (tx, i)).isSome = true → MW.AMap.get s.pending tx = some t → i < t.outs.length

/-- non-vacuity: a world over the store of C01's worked reorganisation history and an oracle meet `Shadow` and
    `UtxoBacked`; the initial state satisfies the invariant; and on that store the model function does find the
    coinbase credit (c1, 0) and nothing at (c1, 1) -/
example : MW.Lemmas.ApiGhostUtxo.Shadow MW.Lemmas.ApiGhostUtxo.ghostOracle MW.Lemmas.ApiGhostUtxo.exWorld ∧
    MW.Lemmas.ApiGhostUtxo.UtxoBacked MW.Lemmas.ApiGhostUtxo.ghostOracle MW.Lemmas.ApiGhostUtxo.exWorld ∧
    MW.Lemmas.ApiGhostUtxo.GU MW.Lemmas.ApiGhostUtxo.exWorld (fun _ => 0) ∧
    MW.Model.ApiLedger.existsUtxo MW.Lemmas.ApiBacked.exStore "w1" "c1" 0 = 0 ∧
    MW.Model.ApiLedger.existsUtxo MW.Lemmas.ApiBacked.exStore "w1" "c1" 1 = 2 :=
  ⟨MW.Lemmas.ApiGhostUtxo.ghostOracle_shadow, MW.Lemmas.ApiGhostUtxo.ghostOracle_backed,
   MW.Lemmas.ApiGhostUtxo.GU_init _, MW.Lemmas.ApiGhostUtxo.exUtxo0, MW.Lemmas.ApiGhostUtxo.exUtxo1⟩

end MW.Props.C19
