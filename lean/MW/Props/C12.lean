/-
  C12 — Addresses are issued once, in order, durably, and stay rediscoverable.   PROPERTY THEOREMS.

  Model: MW.Model.Keystore (nextAddresses with its gap-limit window over the address-manager cache,
  updateManagedAddress, loadAddrManager, the restore scan of createManagerKeyScope, wallet.go
  NewAddress); Spec: MW.Spec.Keystore (addrAt, mayIssue, GapOK). Key derivation is an abstract
  `Curve` (any structure satisfying the BIP-32 neuter/child law); the chain's "script hash used"
  index is an arbitrary predicate `used` that chain events replace arbitrarily (`Ev.chain`).

  A wallet state is (account bucket `r`, cache `m`, `used`); `WOK` says it is well-formed (it is for a
  freshly created or restored wallet: `wok_created`, and every event keeps it: `runW_sim`).
  `runW gap s evs` runs NewAddress / chain change / restart / load-or-clear private key events and
  returns the final state and the answer to every NewAddress request.
-/
import MW.Lemmas.KsRestore
import MW.Gen.Keystore
import MW.Model.Ledger
import MW.Spec.Chain
import MW.Lemmas.LedgerFUEx
import MW.Drv.Led
namespace MW.Props.C12
open MW MW.Model.Keystore MW.Spec.Keystore
open MW.Lemmas.KsMgr MW.Lemmas.KsIssue MW.Lemmas.KsAbs MW.Lemmas.KsRestore

variable {Priv Pub Addr : Type} [DecidableEq Addr]

/-- ISSUE IN ORDER. From any well-formed state with n₀ addresses issued, the successful answers of any
    run are exactly the addresses at indexes n₀, n₀+1, … of the wallet's external key chain, in order,
    and the child number advanced by exactly their count (no index skipped or repeated). -/
theorem issue_in_order (sch : Curve Priv Pub Addr) (gap : Nat) (s : WSt Priv Pub Addr) (hW : WOK sch s.r s.m)
    (evs : List (Ev Addr)) :
    oks (runW sch.toScheme gap s evs).2 =
      (List.range' s.r.exNum ((runW sch.toScheme gap s evs).1.r.exNum - s.r.exNum)).map (extAddr sch.toScheme s.r) ∧
    s.r.exNum ≤ (runW sch.toScheme gap s evs).1.r.exNum := by
  obtain ⟨h1, h2, _, _⟩ := runW_sim sch gap evs s hW
  have h3 := abs_in_order (extAddr sch.toScheme s.r) gap evs s.r.exNum s.used
  rw [h1]
  rw [h2] at h3
  exact h3

/-- the external chain of a record written for a secret is the spec's address sequence of that secret -/
theorem extAddr_eq_addrAt (sch : Curve Priv Pub Addr) (r : Rec Priv Pub) (mn pass : String) (coin : Nat)
    (h : r.acctPub = acctPub sch.toScheme mn pass coin) (i : Nat) :
    extAddr sch.toScheme r i = addrAt sch.toScheme mn pass coin externalBranch i := by
  unfold extAddr extPub addrAt pubAt; rw [h]

/-- ISSUE FRESH. If the address sequence is injective (distinct indexes give distinct script hashes), no
    address is ever returned twice, across restarts, chain changes and key loading. -/
theorem issue_fresh (sch : Curve Priv Pub Addr) (gap : Nat) (s : WSt Priv Pub Addr) (hW : WOK sch s.r s.m)
    (hinj : ∀ i j, extAddr sch.toScheme s.r i = extAddr sch.toScheme s.r j → i = j)
    (evs : List (Ev Addr)) :
    (oks (runW sch.toScheme gap s evs).2).Nodup := by
  rw [(issue_in_order sch gap s hW evs).1]
  have := List.nodup_range' (s := s.r.exNum) (n := (runW sch.toScheme gap s evs).1.r.exNum - s.r.exNum) 1
  exact List.Pairwise.map _ (fun a b hab h => hab (hinj a b h)) this

/-- ISSUE DURABLE. Restarts (the cache is rebuilt from the database) and loading / clearing private keys
    change no answer and no child number: the run answers exactly as the run without those events. -/
theorem issue_durable (sch : Curve Priv Pub Addr) (gap : Nat) (s : WSt Priv Pub Addr) (hW : WOK sch s.r s.m)
    (evs : List (Ev Addr)) :
    (runW sch.toScheme gap s evs).2 = (runW sch.toScheme gap s (evs.filter visible)).2 ∧
    (runW sch.toScheme gap s evs).1.r.exNum = (runW sch.toScheme gap s (evs.filter visible)).1.r.exNum := by
  obtain ⟨h1, h2, _, _⟩ := runW_sim sch gap evs s hW
  obtain ⟨g1, g2, _, _⟩ := runW_sim sch gap (evs.filter visible) s hW
  rw [abs_filter] at g1 g2
  constructor
  · rw [h1, g1]
  · have := h2.symm.trans g2
    exact congrArg Prod.fst this

/-- a restart right before a request does not change its answer (one-step form of issue_durable) -/
theorem issue_after_restart (sch : Curve Priv Pub Addr) (gap : Nat) (r : Rec Priv Pub) (m : Mgr Pub Addr)
    (used : Addr → Bool) (hW : WOK sch r m) :
    nextAddresses sch.toScheme r (loadMgr sch.toScheme r.pubs) used false 1 gap =
      nextAddresses sch.toScheme r m used false 1 gap := by
  rw [nextAddresses_one sch r m used gap hW, nextAddresses_one sch r _ used gap (wok_restart sch r m hW)]

/-- REFUSE IFF. With a gap limit ≥ 1 and room in the index space, NewAddress's keystore step is refused
    exactly when at least `gap` addresses were issued and none of the last `gap` has chain history;
    otherwise it returns the address at the next index and advances the child number by one. -/
theorem refuse_iff (sch : Curve Priv Pub Addr) (gap : Nat) (r : Rec Priv Pub) (m : Mgr Pub Addr)
    (used : Addr → Bool) (hW : WOK sch r m) (hg : gap ≠ 0) (hroom : r.exNum + 1 ≤ maxAddrs) :
    (nextAddresses sch.toScheme r m used false 1 gap = .error .gapLimit ↔
      gap ≤ r.exNum ∧ ∀ k, r.exNum - gap ≤ k → k < r.exNum → used (extAddr sch.toScheme r k) = false) ∧
    (nextAddresses sch.toScheme r m used false 1 gap ≠ .error .gapLimit →
      ∃ r' ma, nextAddresses sch.toScheme r m used false 1 gap = .ok (r', [ma]) ∧
        ma.addr = extAddr sch.toScheme r r.exNum ∧ ma.branch = externalBranch ∧ ma.index = r.exNum ∧
        r'.exNum = r.exNum + 1) := by
  rw [nextAddresses_one sch r m used gap hW]
  have h1 : ¬ (r.exNum + 1 > maxAddrs) := by omega
  simp only [h1, hg, if_false]
  cases hm : mayIssue (fun i => used (extAddr sch.toScheme r i)) gap r.exNum with
  | false =>
    have := (not_mayIssue_iff (fun i => used (extAddr sch.toScheme r i)) gap r.exNum hg).mp hm
    simp only [Bool.false_eq_true, if_false]
    exact ⟨⟨fun _ => this, fun _ => trivial⟩, fun h => absurd rfl h⟩
  | true =>
    simp only [if_true]
    constructor
    · constructor
      · intro h; cases h
      · intro h
        have := (not_mayIssue_iff (fun i => used (extAddr sch.toScheme r i)) gap r.exNum hg).mpr h
        rw [hm] at this; cases this
    · intro _
      exact ⟨_, _, rfl, rfl, rfl, rfl, rfl⟩

/-- wallet.go NewAddress on the wallet in use is the keystore step plus one address record
    (class as requested, first-use height 0 = listed, unused) -/
theorem walletNewAddress_eq (sch : Scheme Priv Pub Addr) (ks : KS Priv Pub Addr) (arecs : AddrRecs Addr)
    (used : Addr → Bool) (gap : Nat) (stk : Bool) (id : String) (r : Rec Priv Pub) (m : Mgr Pub Addr)
    (hc : ks.current = some id) (hr : AMap.get ks.recs id = some r) (hm : AMap.get ks.mgrs id = some m) :
    walletNewAddress sch ks arecs used gap stk =
      match nextAddresses sch r m used false 1 gap with
      | .error e => .error e
      | .ok (r', [ma]) =>
        .ok ({ ks with recs := AMap.put ks.recs id r', mgrs := AMap.put ks.mgrs id (updateManaged m [ma]) },
             AMap.put arecs (id, stk, ma.addr) 0, ma)
      | .ok _ => .error .inconsistent := by
  unfold walletNewAddress ksNextAddresses
  simp only [hc, hr, hm]
  cases hn : nextAddresses sch r m used false 1 gap with
  | error e => rfl
  | ok x =>
    obtain ⟨r', mas⟩ := x
    match mas with
    | [] => rfl
    | [ma] => simp [hc]
    | _ :: _ :: _ => rfl

/-- an issued address is listed at once: NewAddress leaves its address record (unused) in the ledger -/
theorem issued_is_listed (sch : Scheme Priv Pub Addr) (ks ks' : KS Priv Pub Addr) (arecs arecs' : AddrRecs Addr)
    (used : Addr → Bool) (gap : Nat) (stk : Bool) (ma : MAddr Pub Addr)
    (h : walletNewAddress sch ks arecs used gap stk = .ok (ks', arecs', ma)) :
    ∃ id, ks'.current = some id ∧ AMap.get arecs' (id, stk, ma.addr) = some 0 := by
  unfold walletNewAddress at h
  cases hn : ksNextAddresses sch ks used false 1 gap with
  | error e => rw [hn] at h; cases h
  | ok x =>
    obtain ⟨ks1, mas⟩ := x
    rw [hn] at h
    match mas, h with
    | [ma1], h =>
      simp only at h
      cases hc : ks1.current with
      | none => rw [hc] at h; cases h
      | some id =>
        rw [hc] at h
        simp only [Except.ok.injEq, Prod.mk.injEq] at h
        obtain ⟨rfl, rfl, rfl⟩ := h
        exact ⟨id, hc, by rw [AMap.get_put]; simp⟩

/-- GAP INVARIANT. Along any run in which chain usage only grows (no payment that was seen is
    reorganised away), every issued index j ≥ gap has an index with chain history among the `gap`
    indexes before it — in the final state, whatever restarts happened. -/
theorem gap_invariant (sch : Curve Priv Pub Addr) (gap : Nat) (s : WSt Priv Pub Addr) (hW : WOK sch s.r s.m)
    (h0 : GapOK (fun i => s.used (extAddr sch.toScheme s.r i)) gap s.r.exNum)
    (evs : List (Ev Addr)) (hM : MonoRun (extAddr sch.toScheme s.r) s.used evs) :
    GapOK (fun i => (runW sch.toScheme gap s evs).1.used (extAddr sch.toScheme s.r i)) gap
      (runW sch.toScheme gap s evs).1.r.exNum := by
  obtain ⟨_, h2, _, _⟩ := runW_sim sch gap evs s hW
  have := abs_gap_invariant (extAddr sch.toScheme s.r) gap evs s.r.exNum s.used h0 hM
  rw [h2] at this
  exact this

/-- GAP INVARIANT at the moment of issue (no hypothesis on the chain): whenever a request is granted at
    child number n ≥ gap, one of the `gap` addresses before it has chain history at that moment. -/
theorem gap_at_issue (sch : Curve Priv Pub Addr) (gap : Nat) (r r' : Rec Priv Pub) (m : Mgr Pub Addr)
    (used : Addr → Bool) (mas : List (MAddr Pub Addr)) (hW : WOK sch r m) (hge : gap ≤ r.exNum)
    (h : nextAddresses sch.toScheme r m used false 1 gap = .ok (r', mas)) :
    ∃ k, r.exNum - gap ≤ k ∧ k < r.exNum ∧ used (extAddr sch.toScheme r k) = true := by
  rw [nextAddresses_one sch r m used gap hW] at h
  by_cases h1 : r.exNum + 1 > maxAddrs
  · simp [h1] at h
  · by_cases hg : gap = 0
    · simp [h1, hg] at h
    · simp only [h1, hg, if_false] at h
      cases hm : mayIssue (fun i => used (extAddr sch.toScheme r i)) gap r.exNum with
      | false => simp [hm] at h
      | true =>
        rcases (mayIssue_iff _ gap r.exNum).mp hm with h0 | h0 | ⟨k, a, b, c⟩
        · omega
        · omega
        · exact ⟨k, a, by omega, c⟩

/-- a wallet with nothing issued satisfies the gap invariant -/
example (used : Nat → Bool) (gap : Nat) : GapOK used gap 0 := fun _ _ h => absurd h (Nat.not_lt_zero _)

/-- RESTORE DISCOVERS (for every gap ≥ 2 — indeed ≥ 0 — and every hint ≥ 0; ImportKeystore* turn an
    external hint 0 into 1). If every issued index j ≥ gap has a used index among the `gap` indexes
    before it at restore time (`GapOK`: what gap_invariant guarantees while usage only grows), the restore
    scan of the external branch stores the key of EVERY issued index that has chain history, and the new
    child number lies beyond all of them. `n` is the number of addresses the old wallet had issued. -/
theorem restore_discovers (sch : Scheme Priv Pub Addr) (brPub : Pub) (used : Addr → Bool)
    (gap hint fuel n n' : Nat) (l : List (Nat × Pub)) (_hgap : 2 ≤ gap) (hh : hint ≠ 0)
    (hG : GapOK (fun i => used (sch.addrOf (sch.ckdPub brPub i))) gap n) (hov : n + gap < 2^32)
    (h : restoreBranch sch brPub used gap hint fuel = .ok (n', l)) :
    ∀ k, k < n → used (sch.addrOf (sch.ckdPub brPub k)) = true → k < n' ∧ (k, sch.ckdPub brPub k) ∈ l :=
  restoreBranch_discovers sch brPub used gap hint fuel n n' l hh hG hov h

/-- the scan loop of the restore terminates: with no used index at or beyond N, any fuel above
    max N hint + gap + 1 is enough (the driver supplies more than that) -/
theorem restore_terminates (sch : Scheme Priv Pub Addr) (brPub : Pub) (used : Addr → Bool) (gap hint N fuel : Nat)
    (hN : ∀ i, N ≤ i → used (sch.addrOf (sch.ckdPub brPub i)) = false)
    (hov1 : N + gap < 2^32) (hov2 : hint + gap < 2^32) (hf : max N hint + gap + 1 < fuel) :
    ∃ r, restoreBranch sch brPub used gap hint fuel = .ok r :=
  restoreBranch_fuel sch brPub used gap hint N fuel hN hov1 hov2 hf

/-- RESTORE DISCOVERS at wallet level: after ImportKeystoreWithMnemonic succeeds, every address of the
    secret's external chain below `n` that has chain history is in the restored wallet's cache, under
    the restored wallet's id. -/
theorem restore_discovers_wallet (sch : Curve Priv Pub Addr) (ks ks' : KS Priv Pub Addr) (mn pass : String)
    (coin hintEx hintIn gap fuel n : Nat) (used : Addr → Bool) (id : String) (_hgap : 2 ≤ gap)
    (hG : GapOK (fun i => used (addrAt sch.toScheme mn pass coin externalBranch i)) gap n) (hov : n + gap < 2^32)
    (h : importMnemonic sch.toScheme ks mn pass coin hintEx hintIn used gap fuel = .ok (ks', id)) :
    id = walletId sch.toScheme mn pass coin ∧
    ∃ m, AMap.get ks'.mgrs id = some m ∧
      ∀ k, k < n → used (addrAt sch.toScheme mn pass coin externalBranch k) = true →
        AMap.get m.index (externalBranch, k) = some (addrAt sch.toScheme mn pass coin externalBranch k) ∧
        (AMap.get m.addrs (addrAt sch.toScheme mn pass coin externalBranch k)).isSome = true := by
  unfold importMnemonic at h
  dsimp only at h
  cases hc : createScope sch.toScheme ks mn pass coin (if hintEx = 0 then 1 else hintEx) hintIn used gap fuel with
  | error e => rw [hc] at h; cases h
  | ok x =>
    obtain ⟨id0, r⟩ := x
    rw [hc] at h
    simp only [Except.ok.injEq, Prod.mk.injEq] at h
    obtain ⟨rfl, rfl⟩ := h
    have hC := createScope_ok sch.toScheme ks mn pass coin _ hintIn used gap fuel id0 r hc
    refine ⟨hC.id_eq, loadMgr sch.toScheme r.pubs, by simp [KS.install, AMap.get_put], ?_⟩
    intro k hk hu
    -- the external branch key of the record is the neutered branch key = public derivation
    have hex : ∀ i, sch.ckdPub r.exPub i = pubAt sch.toScheme mn pass coin externalBranch i := by
      intro i; rw [hC.exPub_eq, sch.neuter_ckd]; rfl
    obtain ⟨l, hl⟩ := hC.exBranch
    have hh : (if hintEx = 0 then 1 else hintEx) ≠ 0 := by by_cases h0 : hintEx = 0 <;> simp [h0]
    have hG' : GapOK (fun i => used (sch.addrOf (sch.ckdPub r.exPub i))) gap n := by
      intro j a b; obtain ⟨k', c, d, e⟩ := hG j a b
      exact ⟨k', c, d, by simpa [hex, addrAt] using e⟩
    have hu' : used (sch.addrOf (sch.ckdPub r.exPub k)) = true := by simpa [hex, addrAt] using hu
    obtain ⟨hlt, _⟩ := restoreBranch_discovers sch.toScheme r.exPub used gap _ fuel n r.exNum l hh hG' hov hl k hk hu'
    have hp : AMap.get r.pubs (externalBranch, k) = some (sch.ckdPub r.exPub k) := by
      rw [hC.pubs]; simp [hlt]
    constructor
    · rw [loadMgr_index, hp]; simp [hex, addrAt]
    · have := loadMgr_has sch.toScheme r.pubs (externalBranch, k) _ hp
      simpa [hex, addrAt] using this

-- ------------------------------------------------------------------ the counterexample

/-- a tiny concrete curve: keys are derivation paths, neutering is the identity -/
def pathCurve : Curve (List Nat) (List Nat) (List Nat) where
  master _ _ _ := []
  ckdPriv k i := k ++ [i]
  ckdPub k i := k ++ [i]
  pubOf k := k
  idOf _ := "w"
  addrOf k := k
  neuter_ckd _ _ := rfl

/-- the wallet right after CreateWallet (nothing issued) on `pathCurve` -/
def w0 : WSt (List Nat) (List Nat) (List Nat) :=
  { r := { mnemonic := "m", pass := "p", pubParams := "q", coin := 1, acctPub := [], acctPriv := [],
           inPub := [1], exPub := [0], exNum := 0, inNum := 0, pubs := [] },
    m := {}, used := fun _ => false }

theorem w0_ok : WOK pathCurve w0.r w0.m :=
  ⟨rfl, fun i h => absurd h (Nat.not_lt_zero i), fun i h => absurd h (Nat.not_lt_zero i), addrsOK_empty⟩

/-- RESTORE MISSES AFTER REORG (the unrestricted rediscovery claim is FALSE of the gap-limit scheme).
    Gap 2: issue indexes 0 and 1; the chain pays index 1; issue 2 and 3 (granted because 1 has history);
    a reorganisation removes that payment and the new chain pays index 3 instead. A restore (hint 1, i.e.
    the user's hint 0) scans indexes 0,1,2, finds nothing, and misses the funded address at index 3.
    The same history is replayed on the real code: corpus/ks/C12-restore-misses-after-reorg.ops. -/
theorem restore_misses_after_reorg :
    ∃ (evs : List (Ev (List Nat))) (gap hint : Nat),
      let s := (runW pathCurve.toScheme gap w0 evs).1
      (runW pathCurve.toScheme gap w0 evs).2 = [.ok [0, 0], .ok [0, 1], .ok [0, 2], .ok [0, 3]] ∧
      ∃ k, k < s.r.exNum ∧ s.used (extAddr pathCurve.toScheme s.r k) = true ∧
        ∃ n' l, restoreBranch pathCurve.toScheme s.r.exPub s.used gap hint 100 = .ok (n', l) ∧ ¬ (k < n') := by
  refine ⟨[.issue, .issue, .chain (fun a => a == [0, 1]), .issue, .issue, .chain (fun a => a == [0, 3])], 2, 1, ?_⟩
  refine ⟨rfl, 3, by decide, rfl, 1, [(0, [0, 0])], rfl, by decide⟩

/-- … and the hypothesis of restore_discovers indeed fails on that final state (index 3 ≥ gap has no used
    index among 1, 2) -/
example : ¬ GapOK (fun i => (fun a => a == [0, 3]) (extAddr pathCurve.toScheme w0.r i)) 2 4 := by
  intro h
  obtain ⟨k, a, b, c⟩ := h 3 (by decide) (by decide)
  have : k = 1 ∨ k = 2 := by omega
  rcases this with rfl | rfl <;> simp [extAddr, extPub, pathCurve, w0] at c

-- ------------------------------------------------------------------ well-formedness is reachable; non-vacuity

/-- a freshly created or restored account bucket with its freshly loaded cache is a well-formed wallet
    state (so every theorem above applies to every wallet the keystore can produce) -/
theorem wok_created (sch : Curve Priv Pub Addr) (ks : KS Priv Pub Addr) (mn pass : String)
    (coin hintEx hintIn : Nat) (used : Addr → Bool) (gap fuel : Nat) (id : String) (r : Rec Priv Pub)
    (h : createScope sch.toScheme ks mn pass coin hintEx hintIn used gap fuel = .ok (id, r)) :
    WOK sch r (loadMgr sch.toScheme r.pubs) ∧ r.acctPub = acctPub sch.toScheme mn pass coin := by
  have hC := createScope_ok sch.toScheme ks mn pass coin hintEx hintIn used gap fuel id r h
  have hacct : r.acctPub = sch.pubOf r.acctPriv := by rw [hC.acctPub_eq, hC.acctPriv_eq]
  have hex : ∀ i, sch.ckdPub r.exPub i = extPub sch.toScheme r i := by
    intro i; unfold extPub; rw [hC.exPub_eq, sch.neuter_ckd, hC.acctPub_eq]
  have hp : ∀ i, i < r.exNum → AMap.get r.pubs (externalBranch, i) = some (extPub sch.toScheme r i) := by
    intro i hi; rw [hC.pubs]; simp [hi, hex]
  exact ⟨⟨hacct, hp, coh_loadMgr sch.toScheme r.pubs externalBranch r.exNum _ hp, loadMgr_addrsOK sch.toScheme r.pubs⟩,
    hC.acctPub_eq⟩

/-- non-vacuity: `w0` is well-formed (w0_ok), its address sequence is injective, the empty wallet meets
    GapOK, a run with growing usage exists, and restore hypotheses are met by a concrete chain -/
example : ∀ i j, extAddr pathCurve.toScheme w0.r i = extAddr pathCurve.toScheme w0.r j → i = j := by
  intro i j h; simpa [extAddr, extPub, pathCurve, w0] using h
example : MonoRun (extAddr pathCurve.toScheme w0.r) w0.used
    [.issue, .chain (fun a => a == [0, 0]), .restart, .issue, .chain (fun a => a == [0, 0] || a == [0, 1])] := by
  refine ⟨fun i h => ?_, fun i h => ?_, trivial⟩
  · simp [w0] at h
  · simp at h ⊢; exact Or.inl h
example : GapOK (fun i => (fun a => a == [0, 1]) (pathCurve.addrOf (pathCurve.ckdPub [0] i))) 2 4 := by
  intro j a b
  have : j = 2 ∨ j = 3 := by omega
  rcases this with rfl | rfl <;> exact ⟨1, by decide, by decide, by decide⟩
example : ∀ i, 2 ≤ i → (fun a => a == [0, 1]) (pathCurve.addrOf (pathCurve.ckdPub [0] i)) = false := by
  intro i hi; simp [pathCurve]; omega
/-- on the monotone variant of the history (the payment to index 1 stays) the restore finds index 1 and 3 -/
example : restoreBranch pathCurve.toScheme [0] (fun a => a == [0, 1] || a == [0, 3]) 2 1 100
    = .ok (4, [(0, [0, 0]), (1, [0, 1]), (2, [0, 2]), (3, [0, 3])]) := by rfl

/-- non-vacuity of restore_discovers_wallet: an import that succeeds (gap 2, hint 0, chain paying index 1) -/
example : ∃ ks' id, importMnemonic pathCurve.toScheme ({ pubPass := "q" } : KS (List Nat) (List Nat) (List Nat))
    "m" "p" 1 0 0 (fun a => a == [0, 1]) 2 100 = .ok (ks', id) := ⟨_, _, rfl⟩
/-- non-vacuity of refuse_iff / gap_at_issue: a refused and a granted request on well-formed states -/
example : nextAddresses pathCurve.toScheme w0.r w0.m w0.used false 1 2 =
    .ok (recAfter pathCurve.toScheme w0.r, [mkAddr pathCurve.toScheme [0, 0] 0 0]) := by rfl
example : (runW pathCurve.toScheme 2 w0 [.issue, .issue, .issue]).2 = [.ok [0, 0], .ok [0, 1], .error .gapLimit] := by rfl

-- ------------------------------------------------------------------ the used flag

section
open MW.Model.Ledger

/-- USED FLAG, the statement of the earlier rounds (kept for the record; FALSE as it stands, see
    `used_flag_iff_full_unhyp_false`). Two things are wrong with it: (i) it has none of C01's hypotheses – nothing
    ties the store `s` to the chain, the owner of `a` to `w`, the notified blocks to the block files; (ii) even under
    all of them it reads the flag off the STANDARD-form record alone, while GetAddresses (and `Drv.Led.addrFlag`)
    list the standard-form entry as used when the standard-form OR the staking-form record is positive: an address
    paid in staking form only keeps the standard-form record 0 although `Spec.Chain.addrUsed` is true. -/
def used_flag_iff_full_unhyp : Prop :=
  ∀ (c : Ctx) (s : Store) (v : Vol) (hist : List Block) (w : Wid) (a : Model.Ledger.Addr),
    AMap.get s.addrs (w, false, a) = some 0 →
    let s' := hist.foldl (fun sv b => let r := processBlock c sv.1 sv.2 b; (r.1, r.2.1)) (s, v)
    ((AMap.get s'.1.addrs (w, false, a)).map (fun h => decide (h > 0))) =
      some (Spec.Chain.addrUsed (c.node.chain.take (s'.1.syncedTo + 1)) a)

/-- the counterexample (ii): a fresh wallet whose listed address "a1" is paid by the coinbase of block s1 in
    STAKING form. Every C01 hypothesis holds (`cxKInv`); after the notification the standard-form record is still 0,
    the staking-form record is 1, the chain pays "a1". -/
def cxB1 : Block := ⟨"s1", "G", 1, [⟨"k1", true, [⟨"", 0, 0⟩], [⟨"a1", 50, .stk 5⟩]⟩]⟩
def cxCtx : Ctx :=
  ⟨{ cbMaturity := 1 }, Lemmas.Ledger.exOwn, ["w1"],
   { chain := [Lemmas.Ledger.hxG, cxB1], known := [("G", Lemmas.Ledger.hxG), ("s1", cxB1)] }⟩
def cxS : Store := { Lemmas.Ledger.obS0 with addrs := [(("w1", false, "a1"), 0)] }

theorem used_flag_iff_full_unhyp_false : ¬ used_flag_iff_full_unhyp := by
  intro h
  have := h cxCtx cxS { best := ⟨0, "G"⟩ } [cxB1] "w1" "a1" rfl
  revert this
  decide

/-- the listed used flag of the standard-form entry of an address (wallet.go GetAddresses): its own first-use
    record or the staking-form record of the same script hash is positive (absent records count as 0) -/
def listedUsed (s : Store) (w : Wid) (a : Model.Ledger.Addr) : Bool :=
  decide (0 < (AMap.get s.addrs (w, false, a)).getD 0 ∨ 0 < (AMap.get s.addrs (w, true, a)).getD 0)

/-- … it IS what the driver's `glist` / `addrs` observation prints for a listed standard-form entry -/
theorem addrFlag_std (s : Store) (w : Wid) (a : Model.Ledger.Addr) (h : Nat)
    (hl : AMap.get s.addrs (w, false, a) = some h) :
    Drv.Led.addrFlag s w a false = if listedUsed s w a then "1" else "0" := by
  unfold Drv.Led.addrFlag listedUsed
  simp only [hl, Option.getD_some]
  cases hs : AMap.get s.addrs (w, true, a) with
  | none =>
    simp only [Option.getD_none, Nat.lt_irrefl, or_false]
    by_cases h0 : h > 0 <;> simp [h0]
  | some hs' =>
    simp only [Option.getD_some]
    by_cases h0 : h > 0 <;> by_cases h1 : hs' > 0 <;> simp [h0, h1]

open MW.Lemmas.Ledger MW.Lemmas.LedgerFU in
/-- USED FLAG, FULL STATEMENT, with C01's hypotheses explicit (the shape of the old statement: a FIXED node
    chain, ANY list of notified blocks – in order, out of order, repeated, stale – fed to the real
    `processBlock` / `reorg` / `rollback` model). Hypotheses: the block files hold one genesis block `G` whose `prev`
    is no block's id (`EnvHyp`); the node's chain is well-formed, valid (`ChainValid`), from `G`, made of known
    blocks (`ChainOK`); the wallet starts in sync with a prefix of it, its address records are first-use heights,
    every address owner is a ready wallet and there is one (`KInv`: e.g. a fresh wallet, `cxKInv`); the notified
    blocks are blocks of the block files; `a` is an address of wallet `w` that the genesis block does not pay,
    listed (issued) at the start. Then after the notifications: the address is STILL LISTED, and its listed flag
    equals `Spec.Chain.addrUsed` of the chain the wallet follows (the node's chain up to its synced height) –
    and the ledger invariant of C01 holds for that chain. -/
theorem used_flag_iff_full (c : Ctx) (G : Block) (s : Store) (v : Vol) (hist : List Block)
    (E : EnvHyp (envOf c) G) (hN : ChainOK (envOf c) G c.node.chain) (hK : KInv (envOf c) c.node.chain s v)
    (hk : ∀ b ∈ hist, AMap.get c.node.known b.id = some b)
    (w : Wid) (a : Model.Ledger.Addr) (ch : Bool) (ho : AMap.get c.own a = some (w, ch))
    (hG : Spec.Chain.addrUsed [G] a = false) (hl : (AMap.get s.addrs (w, false, a)).isSome = true) :
    let s' := hist.foldl (fun sv b => let r := processBlock c sv.1 sv.2 b; (r.1, r.2.1)) (s, v)
    (AMap.get s'.1.addrs (w, false, a)).isSome = true ∧
    listedUsed s'.1 w a = Spec.Chain.addrUsed (c.node.chain.take (s'.1.syncedTo + 1)) a ∧
    Inv c s'.1 (c.node.chain.take (s'.1.syncedTo + 1)) := by
  have h := used_flag_fold E hN s v hist hK hk (a := a) (w := w) (ch := ch) ho hG
  exact ⟨foldNotify_listed c hist (s, v) _ hl, h.2, h.1⟩

open MW.Lemmas.Ledger MW.Lemmas.LedgerFU in
/-- USED FLAG over the histories of C01 (`used_flag_iff`): node events (extend, reorganise to any branch), handler
    steps and NewAddress calls in any order – NewAddress adds the address to the keystore view and writes its
    record (class, address) ↦ 0 (`walletNewAddress_eq`) –, under the hypotheses `RunHypI` of
    `MW.Props.C01.ledger_correct_issue` (every node chain well-formed and `ChainValid`, every address owner ready
    (`AllReady`), an address is paid by no block the node has had on its best chain before it was issued (`paid`),
    a reorganisation announces a block). Once no notification is pending, every address issued along the way that
    the keystore view still gives to its wallet is LISTED in the class it was issued in, its listed flag is
    `Spec.Chain.addrUsed` of the node's best chain, and its staking-form record is positive iff a block above the
    genesis pays it in staking form. -/
theorem used_flag_iff (e : Env) (G : Block) (x0 : WorldI) (evs : List EvL)
    (H : RunHypI e G x0 (evs.map EvL.toI))
    (h0 : Inv ({ e with own := x0.own }.ctx x0.w.chain) x0.w.s x0.w.chain)
    (hA0 : AddrInv ({ e with own := x0.own }.ctx x0.w.chain) x0.w.s x0.w.chain)
    (hv0 : x0.w.v.best = tipMeta x0.w.chain) (hq0 : x0.w.queue = [])
    (hq : (runL e x0 evs).w.queue = [])
    (a : Model.Ledger.Addr) (w : Wid) (ch stk : Bool) (hi : EvL.issue a w ch stk ∈ evs)
    (ho : AMap.get (runL e x0 evs).own a = some (w, ch)) :
    (AMap.get (runL e x0 evs).w.s.addrs (w, stk, a)).isSome = true ∧
    listedUsed (runL e x0 evs).w.s w a = Spec.Chain.addrUsed (runL e x0 evs).w.chain a ∧
    (decide (0 < (AMap.get (runL e x0 evs).w.s.addrs (w, true, a)).getD 0) =
        ((runL e x0 evs).w.chain.drop 1).any (paysKey true a)) :=
  used_flag_listed e G x0 evs H h0 hA0 hv0 hq0 hq hi ho

open MW.Lemmas.LedgerFU in
/-- AN ISSUED ADDRESS STAYS LISTED (no hypothesis): no notification – connecting, reorganising, stale or failing –
    removes an address record (the D5 repair as a theorem about the whole follower step) -/
theorem listed_stays (c : Ctx) (s : Store) (v : Vol) (b : Block) (k : Wid × Bool × Model.Ledger.Addr)
    (h : (AMap.get s.addrs k).isSome = true) : (AMap.get (processBlock c s v b).1.addrs k).isSome = true :=
  processBlock_listed c s v b k h

open MW.Lemmas.Ledger MW.Lemmas.LedgerFU in
/-- non-vacuity of `used_flag_iff_full`: the counterexample store meets every hypothesis (its records are first-use
    heights of the genesis chain), and so does the fresh wallet of C01's worked example (`hxKInv`) -/
theorem cxKInv : KInv (envOf cxCtx) cxCtx.node.chain cxS { best := ⟨0, "G"⟩ } :=
  ⟨by decide, (inv_ctx_irrel (c := obCtx) (c' := cxCtx) rfl rfl rfl).1
      ⟨⟨obInv0.agree.unspent, obInv0.agree.credits, obInv0.agree.debits, obInv0.agree.game, obInv0.agree.txrecs,
        obInv0.agree.blocks⟩, obInv0.bal, obInv0.sync, obInv0.syncedTo⟩,
    addrInv_genesis (G := hxG) (fun k => by
      show (AMap.get [(("w1", false, "a1"), 0)] k).getD 0 = 0
      rw [AMap.get_cons]; split <;> simp [AMap.get_nil]),
    rfl,
    by show AllReady exOwn (readyWallets obS0 obCtx.wallets); rw [obReady]; exact obAllReady,
    by show (readyWallets obS0 obCtx.wallets).isEmpty = false; rw [obReady]; rfl⟩

open MW.Lemmas.Ledger MW.Lemmas.LedgerFU in
example : EnvHyp (envOf cxCtx) hxG ∧ ChainOK (envOf cxCtx) hxG cxCtx.node.chain := by
  have hk : ∀ {id : BlkId} {x : Block}, AMap.get (envOf cxCtx).known id = some x → x = hxG ∨ x = cxB1 := by
    intro id x h
    simp only [envOf, cxCtx, AMap.get_cons, AMap.get_nil] at h
    repeat' split at h
    all_goals first | (cases h; simp; done) | cases h
  refine ⟨⟨?_, ?_⟩, ⟨⟨?_, ?_, by simp [cxCtx]⟩, by show ChainValid exOwn _; decide, rfl, ?_⟩⟩
  · intro id x h h0
    rcases hk h with rfl | rfl
    · rfl
    · cases h0
  · intro id x h
    rcases hk h with rfl | rfl <;> decide
  · intro i x h
    match i with
    | 0 => simp [cxCtx] at h; rw [← h]; rfl
    | 1 => simp [cxCtx] at h; rw [← h]; rfl
    | n + 2 => simp [cxCtx] at h
  · intro i x y hx hy
    match i with
    | 0 => simp [cxCtx] at hx hy; rw [← hx, ← hy]; rfl
    | n + 1 => simp [cxCtx] at hy
  · intro x hx
    simp only [cxCtx, List.mem_cons, List.not_mem_nil, or_false] at hx
    rcases hx with rfl | rfl <;> rfl

/-- … and on it the listed flag (standard OR staking record) is right where the old reading was wrong -/
example : listedUsed (processBlock cxCtx cxS { best := ⟨0, "G"⟩ } cxB1).1 "w1" "a1" = true ∧
    Spec.Chain.addrUsed cxCtx.node.chain "a1" = true := by decide

/-- USED FLAG, partial (1): the rollback step that touches address records never removes one — an issued
    address stays listed when its first payment is reorganised away (the D5 repair) — and resets the
    flag exactly when the rolled-back height is the first-use height. -/
theorem used_flag_rollback_partial (s : Store) (w : Wid) (o : Out) (h : Nat) (k : Wid × Bool × Model.Ledger.Addr) :
    (AMap.get (rollbackAddr s w o h).addrs k).isSome = (AMap.get s.addrs k).isSome ∧
    (k ≠ (w, o.cls.isStaking, o.addr) → AMap.get (rollbackAddr s w o h).addrs k = AMap.get s.addrs k) ∧
    (∀ h0, AMap.get s.addrs (w, o.cls.isStaking, o.addr) = some h0 →
      AMap.get (rollbackAddr s w o h).addrs (w, o.cls.isStaking, o.addr) =
        some (if h > 0 ∧ h0 = h then 0 else h0)) := by
  unfold rollbackAddr
  simp only
  cases hg : AMap.get s.addrs (w, o.cls.isStaking, o.addr) with
  | none => simp
  | some h0 =>
    simp only
    by_cases hc : (decide (h > 0) && decide (h0 = h)) = true
    · rw [if_pos hc]
      simp only [Bool.and_eq_true, decide_eq_true_eq] at hc
      refine ⟨?_, ?_, ?_⟩
      · rw [AMap.get_put]
        by_cases hk : (w, o.cls.isStaking, o.addr) = k
        · subst hk; simp [hg]
        · simp [hk]
      · intro hk; rw [AMap.get_put]; simp [Ne.symm hk]
      · intro h1 e; rw [AMap.get_put]; cases e; simp [hc]
    · rw [if_neg hc]
      simp only [Bool.and_eq_true, decide_eq_true_eq] at hc
      refine ⟨rfl, fun _ => rfl, ?_⟩
      intro h1 e; cases e; rw [hg]; simp [hc]

/-- USED FLAG, partial (2): the spec flag is compositional — one more block sets it iff the block pays the
    script hash (any recognised template), and never clears it. -/
theorem addrUsed_snoc (c : List Block) (b : Block) (a : Model.Ledger.Addr) :
    Spec.Chain.addrUsed (c ++ [b]) a =
      (Spec.Chain.addrUsed c a || b.txs.any (fun t => t.outs.any (fun o => o.addr = a && o.cls ≠ .raw))) := by
  simp [Spec.Chain.addrUsed, List.any_append]

end

/-- TIE B: the constants and statement shapes the model follows, as re-extracted from today's source
    (go/cmd/extract/x_keystore.go): index-space bound, branch numbers, the gap-limit guard and window
    bounds of nextAddresses, its lookup by (branch, index), the restore loop bound / nextIndex update /
    stored prefix of createManagerKeyScope, hint 0 ↦ 1, NewAddress = NextAddresses(external, 1) +
    PutNewAddress, and the configuration's gap limit ≥ 2. -/
theorem gen_tie :
    maxAddrs = Gen.Keystore.maxAddressesPerAccount ∧ externalBranch = Gen.Keystore.externalBranch ∧
    internalBranch = Gen.Keystore.internalBranch ∧
    Gen.Keystore.gapWindowShape = true ∧ Gen.Keystore.indexKeyedByBranch = true ∧
    Gen.Keystore.restoreScanShape = true ∧ Gen.Keystore.hintDefaultShape = true ∧
    Gen.Keystore.newAddressCallShape = true ∧ Gen.Keystore.configGapAtLeast2 = true := by decide

end MW.Props.C12
