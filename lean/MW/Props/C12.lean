import MW.Model.Keystore
import MW.Spec.Keystore
namespace MW.Props.C12
end MW.Props.C12
