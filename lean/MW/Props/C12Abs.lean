/-
  C12, ABSTRACTION (round 4, third target): the record model of C12 (MW.Model.Keystore: `Rec.exNum / inNum`, `Rec.pubs`, abstract
  key derivation) is an abstraction of the bytes of the account bucket: the counters are the 4-byte little-endian values
  under "exChildNum" / "inChildNum", the public-key map is the `pub` sub-bucket keyed by branch‖index (MW.Model.KsCodec, tables
  regenerated from db.go).  A granted `nextAddresses` of the model, executed at byte level through updateChildNum /
  putEncryptedPubKey, keeps that representation – so `issue_durable` and the restart theorems of C12 speak about what the
  next start reads from the bytes.   Statements only; proofs in MW/Lemmas/KsRefineMgr.lean.
-/
import MW.Lemmas.KsRefineMgr
namespace MW.Props.C12Abs
open MW MW.Model.Keystore MW.Model.KsCodec MW.KsRefineMgr

variable {Priv Pub Addr : Type} [DecidableEq Addr]

/-- CHILD_COUNTER_PERSIST for KsMgr: the byte-level writer of a granted request succeeds, the buckets represent the new
    record, the next start (`fetchChildNum` in loadAddrManager / updateManagedAddress, `getChildNum`) reads exactly the
    model's next indexes, and (ISSUED_KEY_STORED) every issued key is stored under its (branch, index) -/
theorem child_counter_persist (sch : Scheme Priv Pub Addr) (pkEnc : Pub → Bytes) (hne : ∀ p, pkEnc p ≠ [])
    (r : Rec Priv Pub) (m : Mgr Pub Addr) (used : Addr → Bool) (internal : Bool) (num gap : Nat)
    (r' : Rec Priv Pub) (mas : List (MAddr Pub Addr)) (acct pk : Bucket)
    (hrep : RecRep pkEnc r acct pk) (h : nextAddresses sch r m used internal num gap = .ok (r', mas)) :
    ∃ acct' pk',
      nextAddressesB acct pk internal (r.next internal) num
        (fun i => pkEnc (issuePub sch r m.hasPriv (if internal then internalBranch else externalBranch) i)) = .ok (acct', pk') ∧
      RecRep pkEnc r' acct' pk' ∧
      fetchChildNum acct' = .ok (r'.inNum, r'.exNum) ∧
      getChildNum acct' internal = .ok (r'.next internal) ∧
      (∀ ma ∈ mas, bget pk' (pubKeyKey ma.branch ma.index) = some (pkEnc ma.pub)) :=
  nextAddresses_refines sch pkEnc hne r m used internal num gap r' mas acct pk hrep h

/-- a represented record's counters as the next start reads them (restart = re-reading the same bytes) -/
theorem counters_read_back (pkEnc : Pub → Bytes) (r : Rec Priv Pub) (acct pk : Bucket) (hrep : RecRep pkEnc r acct pk) :
    fetchChildNum acct = .ok (r.inNum, r.exNum) := fetchChildNum_of_rep pkEnc r acct pk hrep

/-- the exported keystore file carries the model's counters -/
theorem export_counters (pkEnc : Pub → Bytes) (r : Rec Priv Pub) (acct pk : Bucket) (hrep : RecRep pkEnc r acct pk)
    (purpose coin : Nat) (k : KeystoreJ) (h : exportKs acct purpose coin = .ok k) :
    k.externalChildNum = r.exNum ∧ k.internalChildNum = r.inNum :=
  MW.KsRefineMgr.export_counters pkEnc r acct pk hrep purpose coin k h

-- non-vacuity: a fresh account bucket (counters 0, no keys) represents a fresh record, and a first request is granted
section
def sch0 : Scheme Nat Nat Nat := ⟨fun _ _ _ => 7, fun k i => k * 1000 + i, fun k i => k * 1000 + i, id, fun _ => "id", id⟩
def rec0 : Rec Nat Nat :=
  { mnemonic := "m", pass := "p", pubParams := "q", coin := 297, acctPub := 7, acctPriv := 7, inPub := 7001, exPub := 7000,
    exNum := 0, inNum := 0, pubs := [] }
def acct0 : Bucket := ((initBranchChildNum []).toOption).getD []
def enc0 (p : Nat) : Bytes := [1, UInt8.ofNat p]

example : RecRep enc0 rec0 acct0 [] :=
  ⟨by simp [rec0], by simp [rec0], by show bget acct0 _ = some (u32Bytes 0); decide,
   by show bget acct0 _ = some (u32Bytes 0); decide, fun b i _ _ => by simp [bget, KV.SMap.get, rec0, AMap.get]⟩
example : (nextAddresses sch0 rec0 {} (fun _ => false) false 1 20).isOk = true := by
  simp [nextAddresses, rec0, Rec.next, maxAddrs, Except.isOk, Except.toBool]
example : ∀ p, enc0 p ≠ [] := fun p => by simp [enc0]
end

end MW.Props.C12Abs
