/-
  C14 — Hierarchical key derivation is exactly BIP-32.          PROPERTY THEOREMS ONLY.

  Model : MW.Model.Bip32 (+ Bip32Base58)   – hdkeychain/extendedkey.go and mass-core base58 as written
  Spec  : MW.Spec.Bip32                    – BIP-32 (CKDpriv, CKDpub, N, master, serialisation, Base58Check)
  `Rep C m x` (MW.Model.Bip32Repr): the Go struct `m` represents the BIP-32 extended key `x`
  (a private key is held as ser256(k) – 32 bytes, leading zeros kept – a public key as serP(K)).
  `RelE R a b`: both fail with the same error class or both succeed with R-related values.

  Cryptography is a PARAMETER: every theorem is for all `C : CurveOps`, `H : HashOps`, `N : NetOps`
  satisfying the laws `CurveLaws` / `HashLaws` / `NetLaws` (MW.Lemmas.Bip32Laws – hypotheses, not axioms;
  inhabited by `MW.Toy`).  Proofs are in MW/Lemmas/Bip32*.lean.
-/
import MW.Lemmas.Bip32Round
import MW.Lemmas.Bip32Examples
namespace MW.Props.C14
open MW MW.Model.Bip32 MW.Spec.Bip32 MW.Bip32Ex

/-! ## tie B: constants the model imports from MW.Gen.Bip32 (regenerated from the tree on every run) -/

/-- the compiled-in group order is the order of secp256k1 (and fits 256 bits) -/
theorem gen_curve_order :
    Gen.Bip32.secp256k1N = 2 ^ 256 - 432420386565659656852420866394968145599 ∧ Gen.Bip32.secp256k1N = Toy.n := by
  decide

/-! ## non-vacuity of the parameters: the laws have a model -/

example : CurveLaws Toy.curve := Toy.curveLaws
example : HashLaws Toy.hash := Toy.hashLaws
example : NetLaws Toy.net := Toy.netLaws

section
variable {C : CurveOps} {H : HashOps} {N : NetOps}

/-! ## child derivation -/

/-- **Child is CKD.**  For every extended key `x` (private or public – in particular private keys
    whose scalar has leading zero bytes) held by the struct `m`, and every index `i < 2^32`:
    `m.Child(i)` and BIP-32's CKD fail alike (depth overflow, hardened-from-public, IL ≥ n) or
    both succeed, and then the child struct represents the BIP-32 child: key bytes = ser256(ki)
    resp. serP(Ki), chain code, depth + 1, parent fingerprint, child number, version.
    Hypothesis `hnd` excludes exactly the two degenerate HMAC outputs described at
    `Degenerate` (see `child_is_ckd_full` below for what happens there). -/
theorem child_is_ckd (LC : CurveLaws C) (LH : HashLaws H) {m : XKey} {x : Spec.Bip32.XKey C.Pt} {i : Nat}
    (hr : Rep C m x) (hi : i < 2 ^ 32) (hnd : ¬ Degenerate C H x i) :
    RelE (Rep C) (child C H m i) (ckd C H x i) :=
  Bip32L.child_refines LC LH hr hi hnd

/-- the hypotheses are satisfiable, by a parent whose scalar has 30 leading zero bytes (k = 258) … -/
example : Rep Toy.curve (mk 258) (xk 258) ∧ H31 < 2 ^ 32 ∧ ¬ Degenerate Toy.curve Toy.hash (xk 258) H31 := by
  refine ⟨rep_mk 258 (by decide) (by decide), by decide, ?_⟩
  show ¬ (parse256 ((Ipriv Toy.curve Toy.hash 258 cc0 H31).take 32) = 0 ∨
          (parse256 ((Ipriv Toy.curve Toy.hash 258 cc0 H31).take 32) + 258) % Toy.curve.n = 0)
  decide
/-- … and the conclusion is then not the trivial error/error case -/
example : scalarOf (child Toy.curve Toy.hash (mk 258) H31) = some 259 ∧
          scalarOfS (ckd Toy.curve Toy.hash (xk 258) H31) = some 259 := by decide

/-- The statement WITHOUT the non-degeneracy hypothesis.  It is false of the code (and was false of
    btcd's hdkeychain all along): see `child_is_ckd_full_false`.  No input reaching either case can be
    constructed for the real HMAC-SHA512 (it needs IL = 0 or IL = n − kpar), so this is not a
    defect that can be exhibited or tested; it is recorded in notes/C14.md. -/
def child_is_ckd_full : Prop :=
  ∀ (C : CurveOps) (H : HashOps), CurveLaws C → HashLaws H →
    ∀ (m : XKey) (x : Spec.Bip32.XKey C.Pt) (i : Nat), Rep C m x → i < 2 ^ 32 →
      RelE (Rep C) (child C H m i) (ckd C H x i)

/-- what is missing for the full statement: with a hash whose IL is 0 (toy hash, parent k = 1) the
    code answers ErrInvalidChild where BIP-32 derives a valid child -/
theorem child_is_ckd_full_false : ¬ child_is_ckd_full := by
  intro h
  have := h Toy.curve Toy.hash Toy.curveLaws Toy.hashLaws (mk 1) (xk 1) H31 (rep_mk 1 (by decide) (by decide)) (by decide)
  have h1 : child Toy.curve Toy.hash (mk 1) H31 = .error .invalidChild := by decide
  have h2 : scalarOfS (ckd Toy.curve Toy.hash (xk 1) H31) = some 1 := by decide
  rw [h1] at this
  cases hc : ckd Toy.curve Toy.hash (xk 1) H31 with
  | error e => rw [hc] at h2; cases h2
  | ok c => rw [hc] at this; exact this

/-- **D4 counter-model.**  `Child` as it was before the repair (`childKey = ilNum.Bytes()`,
    MW.Model.Bip32Legacy) is NOT BIP-32: from the parent k = 256 the hardened child 257 was stored in
    two bytes, and its hardened child differs from the BIP-32 one (toy instance; the same happens with
    the real primitives on BIP-32 test vector 4, which the harness replays).  The current model gives
    the BIP-32 value on the same input. -/
theorem legacy_child_not_ckd :
    Rep Toy.curve (mk 256) (xk 256) ∧
    scalarOfS (specTwo (xk 256) H31 H31) = some 258 ∧
    scalarOf (modelTwo (mk 256) H31 H31) = some 258 ∧
    scalarOf (legacyTwo (mk 256) H31 H31) ≠ some 258 := by
  refine ⟨rep_mk 256 (by decide) (by decide), by decide, by decide, by decide⟩

/-- **Master key.**  `NewMaster(seed)` is BIP-32 master key generation for every seed (length check
    16..64 bytes, IL = 0 or ≥ n unusable). -/
theorem master_is_spec (LH : HashLaws H) (LN : NetLaws N) (seed : Bytes) : RelE (Rep C) (newMaster C H N seed) (master C H N seed) :=
  Bip32L.master_refines LH LN seed

/-- **Paths.**  For every seed and every path of indexes (no step degenerate), `NewMaster` followed by
    `Child` … `Child` fails like / represents m/i₁/…/iₖ of BIP-32. -/
theorem path_is_ckd (LC : CurveLaws C) (LH : HashLaws H) (LN : NetLaws N) (seed : Bytes) (path : List Nat) (hpath : ∀ i ∈ path, i < 2 ^ 32)
    (hnd : ∀ x, master C H N seed = .ok x → DegenerateFree C H x path) :
    RelE (Rep C) (Model.Bip32.derivePath C H N seed path) (Spec.Bip32.derivePath C H N seed path) := by
  have hm := master_is_spec (C := C) (H := H) (N := N) LH LN seed
  unfold Model.Bip32.derivePath Spec.Bip32.derivePath
  cases h1 : newMaster C H N seed with
  | error e =>
    cases h2 : master C H N seed with
    | error e' => rw [h1, h2] at hm; simpa [RelE] using hm
    | ok x => rw [h1, h2] at hm; simp [RelE] at hm
  | ok m =>
    cases h2 : master C H N seed with
    | error e' => rw [h1, h2] at hm; simp [RelE] at hm
    | ok x =>
      rw [h1, h2] at hm
      exact Bip32L.deriveFrom_refines LC LH path hm hpath (hnd x h2)

example : ∀ i ∈ [H31, 1, H31 + 2], i < 2 ^ 32 := by decide

/-! ## serialisation -/

/-- **Serialisation.**  `String()` of a struct is the BIP-32 serialisation (78 bytes, checksum,
    Base58) of the key it represents; `ECPrivKey().Serialize()` is ser256(k). -/
theorem string_is_spec (LC : CurveLaws C) {m : XKey} {x : Spec.Bip32.XKey C.Pt} (hr : Rep C m x) :
    Model.Bip32.toString C H m = Spec.Bip32.toString C H x ∧ ecPrivKey m = privBytes C x :=
  ⟨Bip32L.toString_refines LC hr, Bip32L.ecPrivKey_refines LC hr⟩

/-- **Neuter is N.** -/
theorem neuter_is_N (LC : CurveLaws C) (LN : NetLaws N) {m : XKey} {x : Spec.Bip32.XKey C.Pt} (hr : Rep C m x) :
    RelE (Rep C) (Model.Bip32.neuter C N m) (Spec.Bip32.neuter C N x) :=
  Bip32L.neuter_refines LC LN hr

/-- **Public derivation of a non-hardened child = neutering the privately derived child**
    (from `mulG_add`), for every valid private parent of a registered network and every i < 2^31;
    both sides also fail alike. -/
theorem neuter_child_comm (LC : CurveLaws C) (LH : HashLaws H) {m : XKey} {k i : Nat} {v : Bytes}
    (hp : m.isPrivate = true) (hk : m.key = ser256 k) (hkpos : 0 < k) (hkn : k < C.n)
    (hv : N.pubVersion m.version = some v) (hi : i < 2 ^ 31) :
    (child C H m i >>= fun c => Model.Bip32.neuter C N c) =
      (Model.Bip32.neuter C N m >>= fun p => child C H p i) :=
  Bip32L.neuter_child_comm_raw LC LH hp hk hkpos hkn hv hi

example : (mk 258).isPrivate = true ∧ (mk 258).key = ser256 258 ∧ 0 < 258 ∧ 258 < Toy.curve.n ∧
    Toy.net.pubVersion (mk 258).version = some [4, 136, 178, 30] ∧ 7 < 2 ^ 31 := by decide

/-- **Parsing is the spec's import**, for EVERY input string: same rejection class (length incl.
    invalid characters, checksum, scalar 0 or ≥ n, key data that is not a curve point) or the parsed
    struct represents the spec's key. -/
theorem parse_is_spec (LC : CurveLaws C) (LH : HashLaws H) (s : Bytes) : RelE (Rep C) (keyFromString C H s) (Spec.Bip32.parse C H s) :=
  Bip32L.parse_refines LC LH s

/-- every struct that represents a spec key is well formed (key of exactly 32 resp. 33 bytes, …) –
    so by the theorems above everything produced by NewMaster / Child / Neuter / NewKeyFromString is -/
theorem produced_keys_wf (LC : CurveLaws C) {m : XKey} {x : Spec.Bip32.XKey C.Pt} (hr : Rep C m x) : WF C m :=
  Bip32L.wf_of_rep LC hr

/-- and conversely every well-formed struct represents a spec key -/
theorem wf_represents (LC : CurveLaws C) {m : XKey} (w : WF C m) : ∃ x : Spec.Bip32.XKey C.Pt, Rep C m x :=
  Bip32L.rep_of_wf LC w

/-- **String round trip**: parsing what `String()` printed returns an equal key, for every
    well-formed key. -/
theorem string_roundtrip (LH : HashLaws H) {m : XKey} (w : WF C m) :
    keyFromString C H (Model.Bip32.toString C H m) = .ok m :=
  Bip32L.string_roundtrip LH w

example : WF Toy.curve (mk 258) := produced_keys_wf Toy.curveLaws (rep_mk 258 (by decide) (by decide))

end

/-! ## Base58 -/

/-- **Base58 round trip**: `Decode(Encode(b)) = b` for ALL byte strings (leading zero bytes included). -/
theorem base58_roundtrip (b : Bytes) : Model.Base58.decode (Model.Base58.encode b) = b :=
  Base58L.decode_encode b

/-- the model's Encode / Decode compute the spec's Base58 (Decode returns "" where the spec has no value) -/
theorem base58_is_spec (b : Bytes) :
    Model.Base58.encode b = Spec.Bip32.Base58.encode b ∧
    Model.Base58.decode b = (Spec.Bip32.Base58.decode? b).getD [] :=
  ⟨Base58L.encode_spec b, Base58L.decode_spec b⟩

/-! ## rejection -/

section
variable {C : CurveOps} {H : HashOps}

/-- **parse_rejects.**  Directly on the model of `NewKeyFromString`:
    (1) a string that does not decode to exactly 82 bytes (this includes every string with a character
        outside the alphabet) → ErrInvalidKeyLen;
    (2) 82 bytes whose last 4 are not the first 4 of the double hash of the first 78 → ErrBadChecksum;
    (3)/(4) if a string is ACCEPTED then: it decodes to 82 bytes, the checksum matches, the first 78
        bytes are exactly the serialisation of the returned key, a private scalar is in 1 … n−1 and
        public key data is accepted by `Curve.parse` – i.e. scalar 0, scalar ≥ n and bad points are rejected. -/
theorem parse_rejects (s : Bytes) :
    ((Model.Base58.decode s).length ≠ 82 → keyFromString C H s = .error .len) ∧
    ((Model.Base58.decode s).length = 82 →
        (Model.Base58.decode s).drop 78 ≠ (H.dsha ((Model.Base58.decode s).take 78)).take 4 →
        keyFromString C H s = .error .checksum) ∧
    (∀ m, keyFromString C H s = .ok m →
        ∃ d, Spec.Bip32.Base58.decode? s = some d ∧ d.length = 82 ∧ d.drop 78 = checksum H (d.take 78) ∧
          d.take 78 = Bip32L.payloadOf C m ∧ WF C m) := by
  refine ⟨Bip32L.reject_len s, Bip32L.reject_checksum s, ?_⟩
  intro m h
  obtain ⟨d, h1, h2, h3, h4, _⟩ := Bip32L.accept_inv s m h
  exact ⟨d, h1, h2, h3, h4, Bip32L.wf_of_parse s m h⟩

/-- the two remaining rejection classes as errors: key data 00‖k with k = 0 or k ≥ n → ErrUnusableSeed,
    other key data that `Curve.parse` refuses → the parse error (spec level; the model agrees by `parse_is_spec`) -/
theorem parse_rejects_keydata (d : Bytes) (s : Bytes) (hd : Spec.Bip32.Base58.decode? s = some d)
    (hl : d.length = 82) (hc : d.drop 78 = checksum H (d.take 78)) :
    (((d.take 78).drop 45).headD 0 = 0 →
        (BE.ofBytes (((d.take 78).drop 45).drop 1) = 0 ∨ BE.ofBytes (((d.take 78).drop 45).drop 1) ≥ C.n) →
        Spec.Bip32.parse C H s = .error .unusable) ∧
    (((d.take 78).drop 45).headD 0 ≠ 0 → C.parse ((d.take 78).drop 45) = none →
        Spec.Bip32.parse C H s = .error .point) := by
  constructor
  · intro hz hr
    unfold Spec.Bip32.parse
    simp only [hd, hl, ne_eq, not_true_eq_false, if_false, hc, hz, if_true, parse256, hr]
  · intro hz hp
    unfold Spec.Bip32.parse
    simp only [hd, hl, ne_eq, not_true_eq_false, if_false, hc, hz, hp]

/-- **Reverse round trip**: `String()` of a parsed key is the very string that was parsed. -/
theorem parse_string_roundtrip (s : Bytes) (m : XKey) (h : keyFromString C H s = .ok m) :
    Model.Bip32.toString C H m = s :=
  Bip32L.string_of_parse s m h

/-- **Every corruption is rejected or parses to a different key** – for ANY two different strings
    (single-byte, single-character, transpositions, … all included), with no assumption on the hash:
    parsing is injective on the strings it accepts. -/
theorem corruption_rejected_or_other_key {s s' : Bytes} {m m' : XKey} (hne : s ≠ s')
    (h : keyFromString C H s = .ok m) (h' : keyFromString C H s' = .ok m') : m ≠ m' := by
  intro e; subst e
  exact hne (Bip32L.parse_injective s s' m h h')

/-- **Corruptions and the checksum.**  What is provable with an abstract hash: a corrupted string (any string `s'`
    whatsoever) is accepted only if its own 82 decoded bytes carry a matching 32-bit checksum, and then
    the key returned is the one those bytes serialise – so a corruption of a valid string is either
    rejected, or its decoded bytes differ from the original's AND hit their own checksum
    (probability 2^-32 for a random hash; not a theorem for an abstract one), and in that case the
    returned key is a different key.  Exhaustive single-byte corruptions are run against the real
    code by the harness. -/
theorem corruption_rejected_or_different {m m' : XKey} {s s' : Bytes}
    (h : keyFromString C H s = .ok m) (h' : keyFromString C H s' = .ok m')
    (hdiff : Spec.Bip32.Base58.decode? s ≠ Spec.Bip32.Base58.decode? s') : m ≠ m' := by
  obtain ⟨d, h1, _, h3, h4, _⟩ := Bip32L.accept_inv s m h
  obtain ⟨d', h1', _, h3', h4', _⟩ := Bip32L.accept_inv s' m' h'
  intro e
  subst e
  apply hdiff
  rw [h1, h1']
  have : d.take 78 = d'.take 78 := by rw [h4, h4']
  have hc : d.drop 78 = d'.drop 78 := by rw [h3, h3', this]
  rw [← List.take_append_drop 78 d, ← List.take_append_drop 78 d', this, hc]

end

end MW.Props.C14
