/-
  C14 — Hierarchical key derivation is exactly BIP-32.   PROPERTY THEOREMS ONLY.
-/
import MW.Model.Bip32
import MW.Spec.Bip32
namespace MW.Props.C14
open MW

/-- tie B: the statements of `Child` / `String` that decide the byte layout read today as the model assumes -/
theorem gen_shapes_expected :
    Gen.Bip32.childKeyExpr = "paddedAppend(32, nil, ilNum.Bytes())" ∧
    Gen.Bip32.childHardenedCopy = "copy(data[1:], k.key)" ∧
    Gen.Bip32.childNormalCopy = "copy(data, k.pubKeyBytes())" ∧
    Gen.Bip32.stringPrivateBranch =
      "serializedBytes = append(serializedBytes, 0x00); serializedBytes = paddedAppend(32, serializedBytes, k.key)" := by
  decide

end MW.Props.C14
