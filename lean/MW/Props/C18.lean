/-
  C18 — A failed storage operation can be retried and leaves no trace.   PROPERTY THEOREMS.
  Model: MW.Model.Persist.
-/
import MW.Model.Persist
namespace MW.Props.C18
open MW MW.Model.Ledger MW.Model.Persist

/-- tie B: the Update call-site table of the code is the one the model is built on -/
theorem sites_expected : Gen.Updates.sites = expectedSites := rfl

end MW.Props.C18
